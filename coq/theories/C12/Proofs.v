(* C12 — lemmas.  Statements of the property are in Props.v. *)
From Coq Require Import List NArith ZArith Bool Lia Permutation.
From Verif.C12 Require Import Model.
Import ListNotations.

(* ------------------------------------------------------------------ induction principles *)

Section TyInd.
Variable P : ty -> Prop.
Hypothesis HS : forall s, P (TS s).
Hypothesis HAny : P TAny.
Hypothesis HAnyT : P TAnyTuple.
Hypothesis HAnyO : P TAnyObject.
Hypothesis HArr : forall t, P t -> P (TArr t).
Hypothesis HTup : forall n els, Forall (fun p => P (snd p)) els -> P (TTup n els).
Hypothesis HRng : forall t, P t -> P (TRng t).
Hypothesis HMRng : forall t, P t -> P (TMRng t).
Hypothesis HObj : forall o, P (TObj o).
Hypothesis HUnion : forall os, P (TUnion os).

Fixpoint ty_ind' (t : ty) : P t :=
  match t with
  | TS s => HS s
  | TAny => HAny
  | TAnyTuple => HAnyT
  | TAnyObject => HAnyO
  | TArr e => HArr e (ty_ind' e)
  | TTup n els =>
      HTup n els ((fix go (l : list (N * ty)) : Forall (fun p => P (snd p)) l :=
                     match l with
                     | [] => Forall_nil _
                     | p :: l' => Forall_cons p (ty_ind' (snd p)) (go l')
                     end) els)
  | TRng e => HRng e (ty_ind' e)
  | TMRng e => HMRng e (ty_ind' e)
  | TObj o => HObj o
  | TUnion os => HUnion os
  end.
End TyInd.

Section ValueInd.
Variable P : value -> Prop.
Hypothesis HS : forall s p, P (VS s p).
Hypothesis HTup : forall n els, Forall (fun p => P (snd p)) els -> P (VTup n els).
Hypothesis HArr : forall vs, Forall P vs -> P (VArr vs).
Hypothesis HRng : forall vs, Forall P vs -> P (VRng vs).
Hypothesis HMRng : forall vs, Forall P vs -> P (VMRng vs).
Hypothesis HObj : forall o i, P (VObj o i).

Fixpoint value_ind' (v : value) : P v :=
  match v with
  | VS s p => HS s p
  | VTup n els =>
      HTup n els ((fix go (l : list (N * value)) : Forall (fun p => P (snd p)) l :=
                     match l with
                     | [] => Forall_nil _
                     | p :: l' => Forall_cons p (value_ind' (snd p)) (go l')
                     end) els)
  | VArr vs => HArr vs ((fix go (l : list value) : Forall P l :=
                           match l with
                           | [] => Forall_nil _
                           | x :: l' => Forall_cons x (value_ind' x) (go l')
                           end) vs)
  | VRng vs => HRng vs ((fix go (l : list value) : Forall P l :=
                           match l with
                           | [] => Forall_nil _
                           | x :: l' => Forall_cons x (value_ind' x) (go l')
                           end) vs)
  | VMRng vs => HMRng vs ((fix go (l : list value) : Forall P l :=
                             match l with
                             | [] => Forall_nil _
                             | x :: l' => Forall_cons x (value_ind' x) (go l')
                             end) vs)
  | VObj o i => HObj o i
  end.
End ValueInd.

Section ExprInd.
Variable P : expr -> Prop.
Hypothesis HLit : forall s, P (ELit s).
Hypothesis HEmpty : P EEmpty.
Hypothesis HCast : forall t e, P e -> P (ECast t e).
Hypothesis HTuple : forall n els, Forall (fun p => P (snd p)) els -> P (ETuple n els).
Hypothesis HArray : forall es, Forall P es -> P (EArray es).
Hypothesis HSet : forall es, Forall P es -> P (ESet es).
Hypothesis HOp : forall o es, Forall P es -> P (EOp o es).
Hypothesis HCall : forall f es kw, Forall P es -> Forall (fun p => P (snd p)) kw -> P (ECall f es kw).
Hypothesis HTupIdx : forall e n, P e -> P (ETupIdx e n).
Hypothesis HIndex : forall e i, P e -> P i -> P (EIndex e i).
Hypothesis HObj : forall o, P (EObj o).

Fixpoint expr_ind' (e : expr) : P e :=
  let fix go (l : list expr) : Forall P l :=
      match l with
      | [] => Forall_nil _
      | x :: l' => Forall_cons x (expr_ind' x) (go l')
      end in
  let fix gop (l : list (N * expr)) : Forall (fun p => P (snd p)) l :=
      match l with
      | [] => Forall_nil _
      | p :: l' => Forall_cons p (expr_ind' (snd p)) (gop l')
      end in
  match e with
  | ELit s => HLit s
  | EEmpty => HEmpty
  | ECast t e1 => HCast t e1 (expr_ind' e1)
  | ETuple n els => HTuple n els (gop els)
  | EArray es => HArray es (go es)
  | ESet es => HSet es (go es)
  | EOp o es => HOp o es (go es)
  | ECall f es kw => HCall f es kw (go es) (gop kw)
  | ETupIdx e1 n => HTupIdx e1 n (expr_ind' e1)
  | EIndex e1 i => HIndex e1 i (expr_ind' e1) (expr_ind' i)
  | EObj o => HObj o
  end.
End ExprInd.

(* ------------------------------------------------------------------ basic facts *)

Lemma list_eqb_N_eq : forall l m, list_eqb N.eqb l m = true -> l = m.
Proof.
  induction l; destruct m; simpl; intros; try discriminate; auto.
  apply andb_true_iff in H as [H1 H2]. apply N.eqb_eq in H1. subst. f_equal; auto.
Qed.

Lemma ty_eqb_eq : forall a b, ty_eqb a b = true -> a = b.
Proof.
  induction a using ty_ind'; destruct b; simpl; intros E; try discriminate; auto.
  - apply N.eqb_eq in E; subst; auto.
  - f_equal; auto.
  - apply andb_true_iff in E as [E1 E2]. apply Bool.eqb_prop in E1. subst. f_equal.
    revert els0 E2. induction H; destruct els0; intros; try discriminate; auto.
    + destruct x; discriminate.
    + destruct x as [i x], p as [j y].
      apply andb_true_iff in E2 as [E2 E3]. apply andb_true_iff in E2 as [E1 E2].
      apply N.eqb_eq in E1. simpl in H. apply H in E2. subst. f_equal. apply IHForall; auto.
  - f_equal; auto.
  - f_equal; auto.
  - apply N.eqb_eq in E; subst; auto.
  - apply list_eqb_N_eq in E; subst; auto.
Qed.

Lemma memN_In : forall x l, memN x l = true <-> In x l.
Proof.
  unfold memN. intros. rewrite existsb_exists. split.
  - intros [y [Hy E]]. apply N.eqb_eq in E. subst; auto.
  - intros. exists x. split; auto. apply N.eqb_refl.
Qed.

(* ------------------------------------------------------------------ well-formed signatures *)

(* the ancestor table is transitively closed (true of every schema: get_ancestors is the
   full linearised lineage) and irreflexive *)
Definition anc_closed (anc : N -> list N) (ids : list N) : bool :=
  forallb (fun s => forallb (fun a => forallb (fun b => memN b (anc s)) (anc a)) (anc s)) ids.

Definition anc_irrefl (anc : N -> list N) (ids : list N) : bool :=
  forallb (fun s => negb (memN s (anc s))) ids.

Definition sig_wf (sg : sig) : bool :=
  anc_closed (sc_ancestors sg) (map sc_id (sg_scalars sg))
  && anc_closed (ob_ancestors sg) (map ob_id (sg_objtypes sg))
  && anc_irrefl (ob_ancestors sg) (map ob_id (sg_objtypes sg)).

Section WF.
Variable sg : sig.
Hypothesis WF : sig_wf sg = true.

Lemma find_scalar_in_id : forall l s d, find_scalar_in l s = Some d -> In s (map sc_id l).
Proof.
  induction l; simpl; intros; try discriminate.
  destruct (N.eqb (sc_id a) s) eqn:E.
  - apply N.eqb_eq in E. auto.
  - right. eauto.
Qed.

Lemma find_obj_in_id : forall l o d, find_obj_in l o = Some d -> In o (map ob_id l).
Proof.
  induction l; simpl; intros; try discriminate.
  destruct (N.eqb (ob_id a) o) eqn:E.
  - apply N.eqb_eq in E. auto.
  - right. eauto.
Qed.

Lemma sc_anc_closed : forall s a b, In a (sc_ancestors sg s) -> In b (sc_ancestors sg a) ->
  In b (sc_ancestors sg s).
Proof.
  intros s a b Ha Hb.
  unfold sig_wf in WF. apply andb_true_iff in WF as [W _]. apply andb_true_iff in W as [W _].
  unfold anc_closed in W. rewrite forallb_forall in W.
  assert (Hs : In s (map sc_id (sg_scalars sg))).
  { unfold sc_ancestors, find_scalar in Ha.
    destruct (find_scalar_in (sg_scalars sg) s) eqn:E; [|inversion Ha].
    eapply find_scalar_in_id; eauto. }
  specialize (W s Hs). rewrite forallb_forall in W. specialize (W a Ha).
  rewrite forallb_forall in W. apply memN_In. auto.
Qed.

Lemma ob_anc_closed : forall s a b, In a (ob_ancestors sg s) -> In b (ob_ancestors sg a) ->
  In b (ob_ancestors sg s).
Proof.
  intros s a b Ha Hb.
  unfold sig_wf in WF. apply andb_true_iff in WF as [W _]. apply andb_true_iff in W as [_ W].
  unfold anc_closed in W. rewrite forallb_forall in W.
  assert (Hs : In s (map ob_id (sg_objtypes sg))).
  { unfold ob_ancestors in Ha.
    destruct (find_obj_in (sg_objtypes sg) s) eqn:E; [|inversion Ha].
    eapply find_obj_in_id; eauto. }
  specialize (W s Hs). rewrite forallb_forall in W. specialize (W a Ha).
  rewrite forallb_forall in W. apply memN_In. auto.
Qed.

Lemma sc_sub_refl : forall s, sc_sub sg s s = true.
Proof. intros. unfold sc_sub. rewrite N.eqb_refl. auto. Qed.

Lemma ob_sub_refl : forall s, ob_sub sg s s = true.
Proof. intros. unfold ob_sub. rewrite N.eqb_refl. auto. Qed.

Lemma sc_sub_trans : forall a b c, sc_sub sg a b = true -> sc_sub sg b c = true -> sc_sub sg a c = true.
Proof.
  unfold sc_sub. intros a b c H1 H2.
  apply orb_true_iff in H1 as [H1|H1]; [apply N.eqb_eq in H1; subst; auto|].
  apply orb_true_iff in H2 as [H2|H2]; [apply N.eqb_eq in H2; subst; rewrite H1; apply orb_true_r|].
  apply orb_true_iff. right. apply memN_In. apply memN_In in H1, H2. eapply sc_anc_closed; eauto.
Qed.

Lemma ob_sub_trans : forall a b c, ob_sub sg a b = true -> ob_sub sg b c = true -> ob_sub sg a c = true.
Proof.
  unfold ob_sub. intros a b c H1 H2.
  apply orb_true_iff in H1 as [H1|H1]; [apply N.eqb_eq in H1; subst; auto|].
  apply orb_true_iff in H2 as [H2|H2]; [apply N.eqb_eq in H2; subst; rewrite H1; apply orb_true_r|].
  apply orb_true_iff. right. apply memN_In. apply memN_In in H1, H2. eapply ob_anc_closed; eauto.
Qed.

(* ------------------------------------------------------------------ subsumption *)

Lemma has_type_any : forall v, has_type sg v TAny = true.
Proof. destruct v; reflexivity. Qed.

(* a value of type vt belongs to every type pt that vt is a subclass of, provided the tuple
   shapes agree (which issubclass / is_type_compatible do NOT check) *)
Lemma has_type_sub : forall v vt pt,
  issub sg vt pt = true -> shape_ok pt vt = true ->
  has_type sg v vt = true -> has_type sg v pt = true.
Proof.
  induction v using value_ind'; intros vt pt Hs Hsh Hv.
  - (* VS *)
    destruct pt; try (destruct vt; simpl in *; discriminate); try reflexivity;
    destruct vt; simpl in *; try discriminate.
    eapply sc_sub_trans; eauto.
  - (* VTup *)
    destruct pt; try reflexivity;
      try (destruct vt; simpl in *; try discriminate; fail).
    (* pt = TTup *)
    + destruct vt; simpl in Hv, Hs; try discriminate.
      * simpl in Hsh.
        apply andb_true_iff in Hv as [Hn Hv]. apply andb_true_iff in Hsh as [Hm Hsh].
        apply Bool.eqb_prop in Hn. apply Bool.eqb_prop in Hm. subst.
        simpl. rewrite Bool.eqb_reflx. simpl.
        revert els0 els1 Hs Hsh Hv.
        induction H; intros ts us Hs Hsh Hv.
        -- destruct us as [|[j y] us]; simpl in Hv; [|discriminate].
           destruct ts as [|[k z] ts]; simpl in Hsh; [reflexivity|discriminate].
        -- destruct x as [i x]. destruct us as [|[j y] us]; simpl in Hv; [discriminate|].
           destruct ts as [|[k z] ts]; simpl in Hsh; [discriminate|]. simpl in Hs.
           apply andb_true_iff in Hv as [Hv Hv2]. apply andb_true_iff in Hv as [Hi Hv].
           apply andb_true_iff in Hsh as [Hsh Hsh2]. apply andb_true_iff in Hsh as [Hk Hsh].
           apply andb_true_iff in Hs as [Hs Hs2].
           apply N.eqb_eq in Hi, Hk. subst.
           rewrite N.eqb_refl. simpl.
           rewrite (IHForall ts us); auto. rewrite andb_true_r.
           simpl in H.
           apply orb_true_iff in Hs as [Hs|Hs].
           ++ destruct z; try discriminate. apply has_type_any.
           ++ eapply H; eauto.
  - (* VArr *)
    destruct pt; try reflexivity; try (destruct vt; simpl in *; try discriminate; fail).
    destruct vt; simpl in Hv; try discriminate. simpl in Hs, Hsh. simpl.
    induction H; auto.
    apply andb_true_iff in Hv as [Hv1 Hv2]. rewrite IHForall; auto. rewrite andb_true_r.
    apply orb_true_iff in Hs as [Hs|Hs].
    + destruct pt; try discriminate. apply has_type_any.
    + eapply H; eauto.
  - (* VRng *)
    destruct pt; try reflexivity; try (destruct vt; simpl in *; try discriminate; fail).
    destruct vt; simpl in Hv; try discriminate. simpl in Hs, Hsh. simpl.
    induction H; auto.
    apply andb_true_iff in Hv as [Hv1 Hv2]. rewrite IHForall; auto. rewrite andb_true_r.
    apply orb_true_iff in Hs as [Hs|Hs].
    + destruct pt; try discriminate. apply has_type_any.
    + eapply H; eauto.
  - (* VMRng *)
    destruct pt; try reflexivity; try (destruct vt; simpl in *; try discriminate; fail).
    destruct vt; simpl in Hv; try discriminate. simpl in Hs, Hsh. simpl.
    induction H; auto.
    apply andb_true_iff in Hv as [Hv1 Hv2]. rewrite IHForall; auto. rewrite andb_true_r.
    eapply (H (TRng vt) (TRng pt)); eauto.
  - (* VObj *)
    destruct pt; try reflexivity; try (destruct vt; simpl in *; try discriminate; fail).
    + (* TObj *)
      destruct vt; simpl in *; try discriminate.
      * eapply ob_sub_trans; eauto.
      * apply existsb_exists in Hv as [q [Hq Hoq]]. rewrite forallb_forall in Hs.
        eapply ob_sub_trans; eauto.
    + (* TUnion *)
      destruct vt; simpl in *; try discriminate.
      * apply existsb_exists in Hs as [q [Hq Hoq]]. apply existsb_exists. exists q. split; auto.
        eapply ob_sub_trans; eauto.
      * apply existsb_exists in Hv as [q [Hq Hoq]].
        apply orb_true_iff in Hs as [Hs|Hs].
        -- apply list_eqb_N_eq in Hs. subst. apply existsb_exists. eauto.
        -- rewrite forallb_forall in Hs. specialize (Hs q Hq).
           apply existsb_exists in Hs as [r [Hr Hqr]]. apply existsb_exists. exists r. split; auto.
           eapply ob_sub_trans; eauto.
Qed.

End WF.

(* ------------------------------------------------------------------ generic list lemmas *)

Lemma mapM_ok : forall {A B} (f : A -> res B) l rs,
  mapM f l = Ok rs -> Forall2 (fun x r => f x = Ok r) l rs.
Proof.
  induction l; simpl; intros rs H.
  - inversion H. constructor.
  - unfold bind in H. destruct (f a) eqn:E; try discriminate.
    destruct (mapM f l) eqn:E2; try discriminate. inversion H; subst. constructor; auto.
Qed.

Lemma cartesian_In : forall {A} (ls : list (list A)) l,
  In l (cartesian ls) -> Forall2 (fun x xs => In x xs) l ls.
Proof.
  induction ls; simpl; intros l H.
  - destruct H as [H|[]]. subst. constructor.
  - apply in_flat_map in H as [x [Hx H]]. apply in_map_iff in H as [r [E Hr]]. subst.
    constructor; auto.
Qed.

Lemma filter_length_lt : forall {A} (p q : A -> bool) l x,
  (forall y, p y = true -> q y = true) -> In x l -> q x = true -> p x = false ->
  length (filter p l) < length (filter q l).
Proof.
  intros A p q l x Hpq. induction l; simpl; intros Hin Hq Hp; [contradiction|].
  assert (Hle : forall l', length (filter p l') <= length (filter q l')).
  { induction l'; simpl; auto. destruct (p a0) eqn:E.
    - rewrite (Hpq _ E). simpl. lia.
    - destruct (q a0); simpl; lia. }
  destruct Hin as [->|Hin].
  - rewrite Hq, Hp. simpl. specialize (Hle l). lia.
  - specialize (IHl Hin Hq Hp). destruct (p a) eqn:E.
    + rewrite (Hpq _ E). simpl. lia.
    + destruct (q a); simpl; lia.
Qed.

Lemma insert_sorted_In : forall x y l, In y (insert_sorted x l) <-> y = x \/ In y l.
Proof.
  induction l; simpl.
  - intuition.
  - destruct (N.eqb x a) eqn:E.
    + apply N.eqb_eq in E. subst. simpl. intuition.
    + destruct (N.ltb x a); simpl; [intuition|]. rewrite IHl. intuition.
Qed.

Lemma fold_insert_In : forall y l, In y (fold_right insert_sorted [] l) <-> In y l.
Proof.
  induction l; simpl; [tauto|]. rewrite insert_sorted_In, IHl. intuition.
Qed.

Lemma filter_length_le_aux : forall {A} (p : A -> bool) l, length (filter p l) <= length l.
Proof. induction l; simpl; auto. destruct (p a); simpl; lia. Qed.

(* ------------------------------------------------------------------ union types *)
Section UnionType.
Variable sg : sig.
Hypothesis WF : sig_wf sg = true.

Lemma ob_anc_irrefl : forall a, ~ In a (ob_ancestors sg a).
Proof.
  intros a Ha.
  unfold sig_wf in WF. apply andb_true_iff in WF as [_ W].
  unfold anc_irrefl in W. rewrite forallb_forall in W.
  assert (Hs : In a (map ob_id (sg_objtypes sg))).
  { unfold ob_ancestors in Ha.
    destruct (find_obj_in (sg_objtypes sg) a) eqn:E; [|inversion Ha].
    eapply find_obj_in_id; eauto. }
  specialize (W a Hs). apply negb_true_iff in W.
  apply memN_In in Ha. congruence.
Qed.

Definition above (comps : list N) (o : N) : N -> bool :=
  fun q => negb (N.eqb q o) && memN q (ob_ancestors sg o).

(* every component lies below a component that survives minimize_class_set_by_most_generic *)
Lemma maximal_above : forall comps n a,
  length (filter (above comps a) comps) <= n -> In a comps ->
  exists m, In m comps /\ ob_sub sg a m = true /\ existsb (above comps m) comps = false.
Proof.
  induction n; intros a Hlen Ha.
  - exists a. split; auto. split; [apply ob_sub_refl|].
    destruct (existsb (above comps a) comps) eqn:E; auto.
    apply existsb_exists in E as [q [Hq Hab]].
    assert (In q (filter (above comps a) comps)) by (apply filter_In; auto).
    destruct (filter (above comps a) comps); [contradiction|simpl in Hlen; lia].
  - destruct (existsb (above comps a) comps) eqn:E.
    + apply existsb_exists in E as [q [Hq Hab]].
      unfold above in Hab. apply andb_true_iff in Hab as [Hne Hqa].
      apply negb_true_iff in Hne. apply memN_In in Hqa.
      assert (Hlt : length (filter (above comps q) comps) < length (filter (above comps a) comps)).
      { apply (filter_length_lt _ _ comps q); auto.
        - intros y Hy. unfold above in *. apply andb_true_iff in Hy as [Hy1 Hy2].
          apply memN_In in Hy2.
          assert (Hya : In y (ob_ancestors sg a)) by (eapply ob_anc_closed; eauto).
          apply andb_true_iff. split; [|apply memN_In; auto].
          apply negb_true_iff. apply N.eqb_neq. intros ->.
          apply (ob_anc_irrefl a). auto.
        - unfold above. rewrite Hne. simpl. apply memN_In; auto.
        - unfold above. rewrite N.eqb_refl. reflexivity. }
      destruct (IHn q) as [m [Hm [Hqm Hmax]]]; auto; [lia|].
      exists m. split; auto. split; auto.
      eapply ob_sub_trans; eauto. unfold ob_sub. apply orb_true_iff. right. apply memN_In; auto.
    + exists a. split; auto. split; auto. apply ob_sub_refl.
Qed.

Lemma union_type_sound_comp : forall l r o i a,
  In a (obj_components l ++ obj_components r) -> ob_sub sg o a = true ->
  has_type sg (VObj o i) (union_type sg l r) = true.
Proof.
  intros l r o i a Ha Hoa. unfold union_type.
  set (comps := obj_components l ++ obj_components r) in *.
  destruct (maximal_above comps (length comps) a) as [m [Hm [Ham Hmax]]]; auto.
  { apply filter_length_le_aux. }
  set (keep := filter _ comps).
  assert (Hk : In m keep).
  { apply filter_In. split; auto. apply negb_true_iff. exact Hmax. }
  assert (Hs : In m (fold_right insert_sorted [] keep)) by (apply fold_insert_In; auto).
  assert (Hom : ob_sub sg o m = true) by (eapply ob_sub_trans; eauto).
  destruct (fold_right insert_sorted [] keep) as [|x [|y rest]] eqn:E.
  - contradiction.
  - destruct Hs as [->|[]]. simpl. auto.
  - simpl. apply existsb_exists in Hs || idtac.
    change (existsb (ob_sub sg o) (x :: y :: rest) = true).
    apply existsb_exists. exists m. split; auto.
Qed.

End UnionType.

(* ------------------------------------------------------------------ soundness of run *)
Section Sound.
Variable sg : sig.
Hypothesis WF : sig_wf sg = true.
Variable s_int64 : N.
Variable prim : bcall -> list (list value) -> list value.
Variable castv : ty -> ty -> value -> list value.
Variable idxp : ty -> value -> value -> list value.
Variable db : N -> list value.

Definition typed (t : ty) (vs : list value) : Prop := Forall (fun v => has_type sg v t = true) vs.

(* each primitive returns values of its (instantiated) declared return type when it is given
   arguments of its (instantiated) parameter types *)
Hypothesis Hprim : forall bc vals,
  Forall2 (fun vs b => typed (barg_target b) vs) vals (bc_args bc) -> typed (bc_ret bc) (prim bc vals).
(* a cast produces values of its target type *)
Hypothesis Hcast : forall a b v, typed b (castv a b v).
Hypothesis Hidx : forall t v i, typed t (idxp t v i).
(* the database instance conforms to the schema: the extent of an object type contains
   objects of that type (or of a descendant) *)
Hypothesis Hdb : forall o, typed (TObj o) (db o).

Notation run' := (run sg s_int64 prim castv idxp db).
Notation finalize' := (finalize sg castv).
Notation apply_bcall' := (apply_bcall sg prim castv).
Notation compile_operator' := (compile_operator sg prim castv).
Notation compile_call' := (compile_call sg prim castv).
Notation balance' := (balance sg prim castv).

Definition av_typed (a : argv) : Prop := typed (av_ty a) (av_vs a).

Lemma typed_app : forall t l r, typed t l -> typed t r -> typed t (l ++ r).
Proof. unfold typed. intros. apply Forall_app; auto. Qed.

Lemma typed_flat_map : forall {A} t (f : A -> list value) l,
  (forall x, In x l -> typed t (f x)) -> typed t (flat_map f l).
Proof.
  induction l; simpl; intros; [constructor|]. apply typed_app; auto.
Qed.

Lemma typed_nil : forall t, typed t []. Proof. constructor. Qed.

Lemma lookup_arg_typed : forall args kws b,
  Forall av_typed args -> Forall (fun k => av_typed (snd k)) kws -> av_typed (lookup_arg args kws b).
Proof.
  intros args kws b Ha Hk. unfold lookup_arg.
  destruct (ba_arg b) as [i|].
  - destruct (nth_in_or_default i args
                (mk_argv (mk_argd (ba_vty b) false false) [])) as [Hin| ->].
    + rewrite Forall_forall in Ha. auto.
    + apply typed_nil.
  - destruct (ba_kw b) as [k|]; [|apply typed_nil].
    destruct (assoc k kws) eqn:E; [|apply typed_nil].
    clear -E Hk. induction kws as [|[k' a'] kws]; simpl in E; [discriminate|].
    inversion Hk; subst. destruct (N.eqb k k'); [inversion E; subst; auto|auto].
Qed.

Lemma finalize_sound : forall args kws,
  Forall av_typed args -> Forall (fun k => av_typed (snd k)) kws ->
  forall bargs vals, finalize' args kws bargs = Ok (true, vals) ->
  Forall2 (fun vs b => typed (barg_target b) vs) vals bargs.
Proof.
  intros args kws Ha Hk. induction bargs as [|b bargs]; intros vals H.
  - simpl in H. inversion H. constructor.
  - simpl in H. unfold bind in H.
    pose proof (lookup_arg_typed args kws b Ha Hk) as Hl.
    destruct (compat sg (barg_target b) (ba_vty b)) eqn:Ec.
    + destruct (finalize' args kws bargs) as [[c2 v2]|] eqn:E2; [|discriminate].
      simpl in H. inversion H; subst. clear H.
      apply andb_true_iff in H1 as [H1 H2]. subst.
      apply andb_true_iff in H1 as [Heq Hsh].
      apply ty_eqb_eq in Heq.
      constructor; auto.
      unfold compat in Ec. apply andb_true_iff in Ec as [Ei _].
      unfold av_typed, typed in Hl. unfold typed.
      eapply Forall_impl; [|exact Hl]. intros v Hv. simpl in Hv.
      eapply has_type_sub; eauto. rewrite Heq. exact Hv.
    + destruct (cast_ok sg cast_fuel2 false (av_d (lookup_arg args kws b)) (barg_target b));
        simpl in H; [|discriminate].
      destruct (finalize' args kws bargs) as [[c2 v2]|] eqn:E2; [|discriminate].
      simpl in H. inversion H; subst. clear H.
      constructor; auto.
      apply typed_flat_map. intros. apply Hcast.
Qed.

Lemma sem_setlike_sound : forall nm vals bargs ret vs,
  Forall2 (fun vs b => typed (barg_target b) vs) vals bargs ->
  forallb (fun b => ty_eqb (barg_target b) ret) (setlike_flow sg nm bargs) = true ->
  sem_setlike sg nm vals = Some vs -> typed ret vs.
Proof.
  intros nm vals bargs ret vs HF Hall Hs. unfold sem_setlike in Hs.
  destruct (N.eqb nm (sg_union sg)) eqn:Eu.
  - destruct vals as [|l [|r [|]]]; try discriminate. inversion Hs; subst.
    inversion HF as [|? b1 ? bs Hl HF2]; subst. inversion HF2 as [|? b2 ? bs2 Hr HF3]; subst.
    inversion HF3; subst.
    assert (Hfl : forallb (fun b => ty_eqb (barg_target b) ret) [b1; b2] = true).
    { unfold setlike_flow in Hall. destruct (N.eqb nm (sg_if sg)); exact Hall. }
    simpl in Hfl. apply andb_true_iff in Hfl as [E1 E2]. apply andb_true_iff in E2 as [E2 _].
    apply ty_eqb_eq in E1, E2. rewrite <- E1 in *. apply typed_app; auto. rewrite E1, <- E2. auto.
  - destruct (N.eqb nm (sg_coalesce sg)) eqn:Ec.
    + destruct vals as [|l [|r [|]]]; try discriminate. inversion Hs; subst.
      inversion HF as [|? b1 ? bs Hl HF2]; subst. inversion HF2 as [|? b2 ? bs2 Hr HF3]; subst.
      inversion HF3; subst.
      assert (Hfl : forallb (fun b => ty_eqb (barg_target b) ret) [b1; b2] = true).
      { unfold setlike_flow in Hall. destruct (N.eqb nm (sg_if sg)); exact Hall. }
      simpl in Hfl. apply andb_true_iff in Hfl as [E1 E2]. apply andb_true_iff in E2 as [E2 _].
      apply ty_eqb_eq in E1, E2. destruct l; [rewrite <- E2; auto|rewrite <- E1; auto].
    + destruct (N.eqb nm (sg_if sg)) eqn:Ei; [|discriminate].
      destruct vals as [|t [|c [|f [|]]]]; try discriminate. inversion Hs; subst.
      inversion HF as [|? b1 ? bs Ht HF2]; subst. inversion HF2 as [|? b2 ? bs2 Hc HF3]; subst.
      inversion HF3 as [|? b3 ? bs3 Hf HF4]; subst. inversion HF4; subst.
      unfold setlike_flow in Hall. rewrite Ei in Hall. simpl in Hall.
      apply andb_true_iff in Hall as [E1 E2]. apply andb_true_iff in E2 as [E2 _].
      apply ty_eqb_eq in E1, E2.
      apply typed_flat_map. intros b _. destruct (truthy b); [rewrite <- E1|rewrite <- E2]; auto.
Qed.

Lemma apply_bcall_sound : forall bc args kws t vs,
  Forall av_typed args -> Forall (fun k => av_typed (snd k)) kws ->
  apply_bcall' bc args kws = Ok (t, true, vs) -> typed t vs.
Proof.
  intros bc args kws t vs Ha Hk H. unfold apply_bcall, bind in H.
  destruct (finalize' args kws (bc_args bc)) as [[clean vals]|] eqn:Ef; [|discriminate].
  inversion H; subst. clear H.
  pose proof (finalize_sound args kws Ha Hk _ _ Ef) as HF.
  destruct (cl_isop (bc_f bc) && is_set_like_op sg (cl_name (bc_f bc)) &&
            forallb (fun b => ty_eqb (barg_target b) (bc_ret bc))
                    (setlike_flow sg (cl_name (bc_f bc)) (bc_args bc))) eqn:Ec.
  - destruct (sem_setlike sg (cl_name (bc_f bc)) vals) eqn:Es.
    + apply andb_true_iff in Ec as [_ Ec]. eapply sem_setlike_sound; eauto.
    + apply Hprim; auto.
  - apply Hprim; auto.
Qed.
