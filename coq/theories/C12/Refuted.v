(* C12 — statements that are FALSE of the faithful model, with computed witnesses.
   Each witness is replayed on the real compiler by the check (harness/props/c12.py). *)
From Coq Require Import List NArith ZArith Bool.
From Verif.C12 Require Import Model Gen_StdSig Proofs.
Import ListNotations.

(* A user function  f(x: tuple<int64>) -> tuple<int64> using (x)  added to the std signature
   (callable name id 10000; element name ids 0 and 1 are "0" and "1"). *)
Definition f_tup : callable :=
  mk_callable 100001 10000 false false false None
    [mk_param 1000 PkPos TmOne (TTup false [(0%N, TS s_int64)]) false]
    TmOne (TTup false [(0%N, TS s_int64)]).
Definition sig_f : sig := sig_extend std_sig [] [] [] [f_tup].

(* select f((7, 'ab')) *)
Definition e_f : expr :=
  ECall 10000 [ETuple false [(0%N, ELit s_int64); (1%N, ELit s_str)]] [].

(* Without the "clean" side condition C12_sound is false: the call is accepted with the declared
   result type tuple<int64>, the argument is passed uncast (Collection._issubclass zips the
   element types without comparing the lengths), and under a semantics in which f returns its
   argument - which satisfies every hypothesis of C12_sound - the value is a 2-tuple.
   This is known finding C12-tuple-arity-subclass; the real compiler accepts the same query
   with the same type (replayed by the check). *)
Theorem C12_sound_without_clean_refuted :
  exists (sg : sig) (prim : bcall -> list (list value) -> list value)
         (castv : ty -> ty -> value -> list value) (idxp : ty -> value -> value -> list value)
         (db : N -> list value) (ptrs : list (N * N * ty)) (dbp : N -> N -> list value)
         (e : expr) (t : ty) (vs : list value),
    sig_wf sg = true /\
    (forall bc vals,
        Forall2 (fun vs b => typed sg (barg_target b) vs) vals (bc_args bc) ->
        typed sg (bc_ret bc) (prim bc vals)) /\
    (forall a b v, typed sg b (castv a b v)) /\
    (forall t v i, typed sg t (idxp t v i)) /\
    (forall o, typed sg (TObj o) (db o)) /\
    (forall a p t o id, find_ptr ptrs a p = Some t -> ob_sub sg o a = true -> typed sg t (dbp id p)) /\
    run sg s_int64 prim castv idxp db ptrs dbp e = Ok (t, false, vs) /\
    ~ Forall (fun v => has_type sg v t = true) vs.
Proof.
  exists sig_f, prim_ex, castv_ex, idxp_ex, db_ex, [], dbp_ex, e_f,
         (TTup false [(0%N, TS s_int64)]),
         [VTup false [(0%N, VS s_int64 0); (1%N, VS s_str 0)]].
  destruct (example_semantics_ok_gen sig_f) as [H1 [H2 [H3 H4]]].
  split; [vm_compute; reflexivity|].
  split; [exact H1|]. split; [exact H2|]. split; [exact H3|]. split; [exact H4|].
  split; [intros a p t o id Hf; discriminate Hf|].
  split; [vm_compute; reflexivity|].
  intros H. inversion H as [|? ? Hv _]; subst. vm_compute in Hv. discriminate.
Qed.
Print Assumptions C12_sound_without_clean_refuted.

(* The common implicitly-castable type is not symmetric in its operands once ranges are
   involved: Range.find_common_implicitly_castable_type accepts a MultiRange on the right,
   MultiRange.find_common_implicitly_castable_type rejects a Range.  ({range, multirange} is
   accepted, {multirange, range} is rejected - no accepted query gets a wrong type.) *)
Theorem C12_common_type_symmetry_refuted :
  exists a b c, find_common std_sig a b = Some c /\ find_common std_sig b a = None.
Proof.
  exists (TRng (TS s_int64)), (TMRng (TS s_int64)), (TMRng (TS s_int64)).
  split; vm_compute; reflexivity.
Qed.
Print Assumptions C12_common_type_symmetry_refuted.
