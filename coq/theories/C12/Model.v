(* C12 — model of EdgeQL static result-type inference for a core calculus:
   constants, casts, tuples, arrays, set literals, operators (incl. UNION, ??, IF), function
   calls, tuple / index indirection, object-type roots.

   Mirrors (hand-written, tied by the correspondence check harness/props/c12.py):
     edb/schema/types.py      issubclass, implicit cast distance, find_common_implicitly_castable_type,
                              test/resolve/to_nonpolymorphic, get_common_parent_type_distance,
                              is_type_compatible           (Array, Tuple, Range, MultiRange)
     edb/schema/scalars.py, pseudo.py, objtypes.py, objects.py (issubclass, topmost concrete base)
     edb/schema/casts.py      _is_reachable, get_implicit_cast_distance, find_common_castable_type
     edb/schema/utils.py      get_class_nearest_common_ancestors
     edb/edgeql/compiler/polyres.py   try_bind_call_args, find_callable
     edb/edgeql/compiler/func.py      compile_operator (collection special case,
                              validate_recursive_operator, derivative operators, abstract filter),
                              compile_FunctionCall, finalize_args (argument casts)
     edb/edgeql/compiler/expr.py      compile_Set (_balance), compile_Tuple/NamedTuple/Array,
                              compile_IfElse, _infer_index_type
     edb/edgeql/compiler/typegen.py   infer_common_type
     edb/edgeql/compiler/casts.py     compile_cast (scalar / tuple / array / range fragment)
   The std-library signature table is generated (Gen_StdSig.v); user-schema additions are
   appended by the harness.  Executable definitions only. *)
From Coq Require Import List NArith ZArith Bool.
Import ListNotations.

(* ------------------------------------------------------------------ types *)

Inductive ty : Type :=
| TS (s : N)                              (* scalar type (concrete or abstract) by id *)
| TAny | TAnyTuple | TAnyObject           (* pseudo types *)
| TArr (t : ty)
| TTup (named : bool) (els : list (N * ty))   (* element name id, element type *)
| TRng (t : ty)
| TMRng (t : ty)
| TObj (o : N)                            (* object type by id *)
| TUnion (os : list N).                   (* union of object types (sorted ids, >= 2) *)

Inductive typemod := TmOne | TmOpt | TmSet.
Inductive pkind := PkPos | PkVar | PkNamed.

Record scalar_def := mk_scalar { sc_id : N; sc_abstract : bool; sc_enum : bool; sc_anc : list N }.
Record objtype_def := mk_objtype { ob_id : N; ob_anc : list N }.
Record cast_def := mk_cast { c_from : ty; c_to : ty; c_implicit : bool; c_assign : bool }.
Record param := mk_param { p_name : N; p_kind : pkind; p_mod : typemod; p_ty : ty; p_default : bool }.
Record callable := mk_callable {
  cl_ov : N; cl_name : N; cl_isop : bool; cl_abstract : bool; cl_recursive : bool;
  cl_deriv : option N; cl_params : list param (* canonical order *); cl_rmod : typemod; cl_ret : ty }.
Record sig := mk_sig {
  sg_scalars : list scalar_def; sg_objtypes : list objtype_def; sg_casts : list cast_def;
  sg_callables : list callable;
  sg_json : N; sg_uuid : N; sg_str : N; sg_bytes : N;
  sg_union : N; sg_coalesce : N; sg_if : N }.

Definition MAXD : Z := 1000000000%Z.

Fixpoint list_eqb {A} (eqb : A -> A -> bool) (l m : list A) : bool :=
  match l, m with
  | [], [] => true
  | x :: l', y :: m' => eqb x y && list_eqb eqb l' m'
  | _, _ => false
  end.

Fixpoint ty_eqb (a b : ty) {struct a} : bool :=
  match a, b with
  | TS s, TS q => N.eqb s q
  | TAny, TAny | TAnyTuple, TAnyTuple | TAnyObject, TAnyObject => true
  | TArr x, TArr y | TRng x, TRng y | TMRng x, TMRng y => ty_eqb x y
  | TTup n xs, TTup m ys =>
      Bool.eqb n m &&
      (fix go (l : list (N * ty)) (r : list (N * ty)) {struct l} : bool :=
         match l, r with
         | [], [] => true
         | (i, x) :: l', (j, y) :: r' => N.eqb i j && ty_eqb x y && go l' r'
         | _, _ => false
         end) xs ys
  | TObj o, TObj q => N.eqb o q
  | TUnion os, TUnion qs => list_eqb N.eqb os qs
  | _, _ => false
  end.

Definition is_any (t : ty) := match t with TAny => true | _ => false end.
Definition is_anytuple (t : ty) := match t with TAnyTuple => true | _ => false end.
Definition is_anyobject (t : ty) := match t with TAnyObject => true | _ => false end.
Definition is_object (t : ty) := match t with TObj _ | TUnion _ => true | _ => false end.
Definition is_tuple (t : ty) := match t with TTup _ _ | TAnyTuple => true | _ => false end.
Definition is_realtuple (t : ty) := match t with TTup _ _ => true | _ => false end.
Definition is_array (t : ty) := match t with TArr _ => true | _ => false end.
Definition is_range (t : ty) := match t with TRng _ => true | _ => false end.
Definition is_multirange (t : ty) := match t with TMRng _ => true | _ => false end.
Definition is_scalar (t : ty) := match t with TS _ => true | _ => false end.
Definition is_collection (t : ty) :=
  match t with TArr _ | TTup _ _ | TRng _ | TMRng _ => true | _ => false end.

Definition memN (x : N) (l : list N) : bool := existsb (N.eqb x) l.

Fixpoint index_of (x : N) (l : list N) : option nat :=
  match l with
  | [] => None
  | y :: l' => if N.eqb x y then Some O
               else match index_of x l' with Some n => Some (S n) | None => None end
  end.

(* ---- generic traversals (defined with the function outside the fixpoint so that nested
   recursion through them is accepted) ---- *)
Inductive err :=
| ENoMatch        (* InvalidTypeError: operator cannot be applied / incompatible set constructor *)
| EAmbiguous      (* QueryError: operator is ambiguous *)
| ENoFunc         (* QueryError: function "..." does not exist *)
| ENotUnique      (* QueryError: function ... is not unique *)
| ECastErr        (* QueryError: cannot cast *)
| EGeneric        (* QueryError: cannot cast into generic type / indeterminate type *)
| EArrayType      (* QueryError: could not determine array type / nested arrays *)
| EDupName        (* QueryError: named tuple has duplicate field *)
| EIndexErr       (* QueryError: bad indirection *)
| ETypeError      (* Python TypeError escaping from test_polymorphic / to_nonpolymorphic *)
| EInternal       (* InternalServerError / SchemaError *)
| ENoName         (* unknown operator / function / scalar name *)
| ENestedArr      (* UnsupportedFeatureError: nested arrays are not supported (Array.from_subtypes) *)
| EUnsupported.   (* outside the modelled fragment: the model abstains *)

Inductive res (A : Type) := Ok (a : A) | Err (e : err).
Arguments Ok {A} a.
Arguments Err {A} e.

Definition bind {A B} (r : res A) (f : A -> res B) : res B :=
  match r with Ok a => f a | Err e => Err e end.
Notation "x <- r ;; k" := (bind r (fun x => k)) (at level 61, r at next level, right associativity).

Section MapM.
Context {A B : Type}.
Variable f : A -> res B.
Fixpoint mapM (l : list A) : res (list B) :=
  match l with
  | [] => Ok []
  | x :: l' => y <- f x ;; r <- mapM l' ;; Ok (y :: r)
  end.
End MapM.

Section WithSig.
Variable sg : sig.

Fixpoint find_scalar_in (l : list scalar_def) (s : N) : option scalar_def :=
  match l with
  | [] => None
  | d :: l' => if N.eqb (sc_id d) s then Some d else find_scalar_in l' s
  end.
Definition find_scalar := find_scalar_in (sg_scalars sg).
Definition sc_is_abstract (s : N) : bool :=
  match find_scalar s with Some d => sc_abstract d | None => false end.
Definition sc_is_enum (s : N) : bool :=
  match find_scalar s with Some d => sc_enum d | None => false end.
Definition sc_ancestors (s : N) : list N :=
  match find_scalar s with Some d => sc_anc d | None => [] end.
(* InheritingObject._issubclass *)
Definition sc_sub (s p : N) : bool := N.eqb s p || memN p (sc_ancestors s).

Fixpoint find_obj_in (l : list objtype_def) (o : N) : option objtype_def :=
  match l with
  | [] => None
  | d :: l' => if N.eqb (ob_id d) o then Some d else find_obj_in l' o
  end.
Definition ob_ancestors (o : N) : list N :=
  match find_obj_in (sg_objtypes sg) o with Some d => ob_anc d | None => [] end.
Definition ob_sub (o p : N) : bool := N.eqb o p || memN p (ob_ancestors o).

(* maybe_get_topmost_concrete_base: the LAST non-abstract ancestor, else self if concrete *)
Definition topmost_concrete (s : N) : option N :=
  match filter (fun a => negb (sc_is_abstract a)) (rev (sc_ancestors s)) with
  | a :: _ => Some a
  | [] => if sc_is_abstract s then None else Some s
  end.

(* Type.is_polymorphic *)
Fixpoint is_poly (t : ty) : bool :=
  match t with
  | TS s => sc_is_abstract s
  | TAny | TAnyTuple | TAnyObject => true
  | TArr e | TRng e | TMRng e => is_poly e
  | TTup _ els => (fix go (l : list (N * ty)) : bool :=
                     match l with [] => false | (_, x) :: l' => is_poly x || go l' end) els
  | TObj _ | TUnion _ => false
  end.

(* issubclass(self=a, parent=p).  Collection._issubclass zips the subtypes (no length or
   name check); unions follow ObjectType._issubclass. *)
Fixpoint issub (a p : ty) {struct a} : bool :=
  if is_any p then true else
  match a with
  | TS s => match p with TS q => sc_sub s q | _ => false end
  | TAny => false
  | TAnyTuple => is_anytuple p
  | TAnyObject => is_anyobject p
  | TObj o => match p with
              | TAnyObject => true
              | TObj q => ob_sub o q
              | TUnion qs => existsb (ob_sub o) qs
              | _ => false end
  | TUnion os => match p with
                 | TAnyObject => true
                 | TObj q => forallb (fun o => ob_sub o q) os
                 | TUnion qs => list_eqb N.eqb os qs
                                || forallb (fun o => existsb (ob_sub o) qs) os
                 | _ => false end
  | TArr x => match p with TArr y => is_any y || issub x y | _ => false end
  | TRng x => match p with TRng y => is_any y || issub x y | _ => false end
  | TMRng x => match p with TMRng y => is_any y || issub x y | _ => false end
  | TTup _ xs =>
      match p with
      | TTup _ ys =>
          (fix go (l : list (N * ty)) (r : list (N * ty)) {struct l} : bool :=
             match l, r with
             | (_, x) :: l', (_, y) :: r' => (is_any y || issub x y) && go l' r'
             | _, _ => true
             end) xs ys
      | _ => false
      end
  end.

(* ---- implicit casts between scalars: edb/schema/casts.py ---- *)

Definition casts_to (target : ty) (implicit_only : bool) : list cast_def :=
  filter (fun c => ty_eqb (c_to c) target && (negb implicit_only || c_implicit c)) (sg_casts sg).
Definition casts_from (source : ty) (implicit_only : bool) : list cast_def :=
  filter (fun c => ty_eqb (c_from c) source && (negb implicit_only || c_implicit c)) (sg_casts sg).

Definition omin (a b : option Z) : option Z :=
  match a, b with
  | None, x | x, None => x
  | Some x, Some y => Some (Z.min x y)
  end.

(* _is_reachable(source, target, distance) over implicit casts; None = _NOT_REACHABLE.
   Fuel bounds the recursion depth (the real function does not terminate on a cyclic
   implicit-cast graph; [sig_wf] checks the fuel used is never exhausted on the table). *)
Fixpoint reach (fuel : nat) (source target : ty) (distance : Z) : option Z :=
  if ty_eqb source target then Some distance else
  match fuel with
  | O => None
  | S fuel' =>
      let srcs := map c_from (casts_to target true) in
      match srcs with
      | [] => None
      | _ => let d := (distance + 1)%Z in
             if existsb (ty_eqb source) srcs then Some d
             else fold_right (fun s acc => omin (reach fuel' source s d) acc) None srcs
      end
  end.

Definition cast_fuel : nat := 16.

(* s_casts.get_implicit_cast_distance : -1 when unreachable *)
Definition sc_cast_dist (source target : ty) : Z :=
  match reach cast_fuel source target 0 with Some d => d | None => (-1)%Z end.

Fixpoint dedup_ty (l : list ty) : list ty :=
  match l with
  | [] => []
  | x :: l' => if existsb (ty_eqb x) l' then dedup_ty l' else x :: dedup_ty l'
  end.

(* s_casts.find_common_castable_type.  The real code iterates over a Python set of target
   types; the model takes them in table order ([ord] = identity) and returns the first
   candidate; Props.C12_std_common_order_independent checks on the generated table that other
   iteration orders give the same answer. *)
Fixpoint common_castable_g (ord : list ty -> list ty) (fuel : nat) (source target : ty) : option ty :=
  if (0 <=? sc_cast_dist target source)%Z then Some source
  else if (0 <=? sc_cast_dist source target)%Z then Some target
  else
    match fuel with
    | O => None
    | S fuel' =>
        (fix climb (n : nat) (target : ty) {struct n} : option ty :=
           match n with
           | O => None
           | S n' =>
               let targets := ord (dedup_ty (map c_to (casts_from target true))) in
               match targets with
               | [] => None
               | [t] => if (0 <=? sc_cast_dist source t)%Z then Some t else climb n' t
               | _ => (fix first (l : list ty) : option ty :=
                         match l with
                         | [] => None
                         | t :: l' => match common_castable_g ord fuel' source t with
                                      | Some c => Some c
                                      | None => first l'
                                      end
                         end) targets
               end
           end) cast_fuel target
    end.

Definition common_castable := common_castable_g (fun l => l).

(* ScalarType.get_implicit_cast_distance etc. (types.py / scalars.py) *)
Fixpoint cast_dist (a p : ty) {struct a} : Z :=
  match a with
  | TS s =>
      match p with
      | TS q => if sc_is_abstract s || sc_is_abstract q then (-1)%Z
                else match topmost_concrete s, topmost_concrete q with
                     | Some l, Some r => sc_cast_dist (TS l) (TS r)
                     | _, _ => (-1)%Z
                     end
      | _ => (-1)%Z
      end
  | TArr x => match p with TArr y => cast_dist x y | _ => (-1)%Z end
  | TRng x => match p with
              | TRng y => cast_dist x y
              | TMRng y => (cast_dist x y + 1)%Z          (* sic: -1 + 1 = 0 *)
              | _ => (-1)%Z end
  | TMRng x => match p with TMRng y => cast_dist x y | _ => (-1)%Z end
  | TTup n xs =>
      match p with
      | TTup m ys =>
          if negb (Nat.eqb (length xs) (length ys)) then (-1)%Z
          else if n && m && negb (list_eqb N.eqb (map fst xs) (map fst ys)) then (-1)%Z
          else
            (fix go (l : list (N * ty)) (r : list (N * ty)) (acc : Z) {struct l} : Z :=
               match l, r with
               | (_, x) :: l', (_, y) :: r' =>
                   let d := cast_dist x y in
                   if (d <? 0)%Z then (-1)%Z else go l' r' (acc + d)%Z
               | _, _ => acc
               end) xs ys 0%Z
      | _ => (-1)%Z
      end
  | _ => (-1)%Z
  end.

(* implicitly_castable_to *)
Fixpoint impl_castable (a p : ty) {struct a} : bool :=
  match a with
  | TS _ => match p with TS _ => (0 <=? cast_dist a p)%Z | _ => false end
  | TAny | TAnyTuple | TAnyObject => ty_eqb a p
  | TObj _ | TUnion _ => issub a p
  | TArr x => match p with TArr y => impl_castable x y | _ => false end
  | TRng x => match p with
              | TRng y => impl_castable x y
              | TMRng y => issub x y
              | _ => false end
  | TMRng x => match p with TMRng y => impl_castable x y | _ => false end
  | TTup n xs =>
      match p with
      | TTup m ys =>
          Nat.eqb (length xs) (length ys)
          && negb (n && m && negb (list_eqb N.eqb (map fst xs) (map fst ys)))
          && (fix go (l : list (N * ty)) (r : list (N * ty)) {struct l} : bool :=
                match l, r with
                | (_, x) :: l', (_, y) :: r' => impl_castable x y && go l' r'
                | _, _ => true
                end) xs ys
      | _ => false
      end
  end.

(* utils.get_class_nearest_common_ancestors([a; b]) for an inheriting kind given by
   its ancestor function *)
Definition nearest_common (anc : N -> list N) (a b : N) : list N :=
  let first := a :: anc a in
  let other := b :: anc b in
  let common := filter (fun x => memN x other) first in
  fold_left (fun nearests x =>
               if existsb (fun y => N.eqb y x || memN x (anc y)) nearests then nearests
               else nearests ++ [x]) common [].

(* find_common_implicitly_castable_type(self=a, other=b) *)
Fixpoint find_common (a b : ty) {struct a} : option ty :=
  match a with
  | TS s =>
      match b with
      | TS q =>
          if sc_is_abstract s && sc_is_abstract q then Some a
          else match topmost_concrete s, topmost_concrete q with
               | Some l, Some r => if N.eqb l r then Some (TS l)
                                   else common_castable cast_fuel (TS l) (TS r)
               | _, _ => None       (* get_topmost_concrete_base raises SchemaError *)
               end
      | _ => None
      end
  | TAny | TAnyTuple | TAnyObject => if ty_eqb a b then Some a else None
  | TObj o =>
      match b with
      | TObj q => match nearest_common ob_ancestors o q with x :: _ => Some (TObj x) | [] => None end
      | _ => None
      end
  | TUnion _ => None                 (* not modelled: unions as operands of a common-type search *)
  | TArr x =>
      match b with
      | TArr y => if ty_eqb a b then Some a
                  else match find_common x y with Some c => Some (TArr c) | None => None end
      | _ => None
      end
  | TRng x =>
      match b with
      | TRng y => if ty_eqb a b then Some a
                  else match find_common x y with Some c => Some (TRng c) | None => None end
      | TMRng y => if negb (issub x y) then None
                   else match find_common x y with Some c => Some (TMRng c) | None => None end
      | _ => None
      end
  | TMRng x =>
      match b with
      | TMRng y => if ty_eqb a b then Some a
                   else match find_common x y with Some c => Some (TMRng c) | None => None end
      | _ => None
      end
  | TTup n xs =>
      match b with
      | TTup m ys =>
          if ty_eqb a b then Some a
          else if negb (Nat.eqb (length xs) (length ys)) then None
          else
            match (fix go (l : list (N * ty)) (r : list (N * ty)) {struct l} : option (list ty) :=
                     match l, r with
                     | (_, x) :: l', (_, y) :: r' =>
                         match find_common x y with
                         | Some c => match go l' r' with Some cs => Some (c :: cs) | None => None end
                         | None => None
                         end
                     | _, _ => Some []
                     end) xs ys with
            | None => None
            | Some cs =>
                if n && m && list_eqb N.eqb (map fst xs) (map fst ys)
                then Some (TTup true (combine (map fst xs) cs))
                else Some (TTup false (combine (map N.of_nat (seq 0 (length cs))) cs))
            end
      | _ => None
      end
  end.

(* ---- polymorphism ---- *)

(* test_polymorphic(self=a, poly): raises TypeError when poly is not polymorphic *)
Fixpoint test_poly (a poly : ty) {struct a} : res bool :=
  if negb (is_poly poly) then Err ETypeError
  else if is_any poly then Ok true
  else if is_anyobject poly && is_object a then Ok true
  else
  match a with
  | TS _ => Ok (issub a poly)
  | TAny | TAnyTuple | TAnyObject => Ok (ty_eqb a poly)
  | TObj _ | TUnion _ => Ok false            (* anyobject handled above *)
  | TArr x => match poly with TArr y => test_poly x y | _ => Ok false end
  | TRng x => match poly with TRng y | TMRng y => test_poly x y | _ => Ok false end
  | TMRng x => match poly with TMRng y => test_poly x y | _ => Ok false end
  | TTup _ xs =>
      match poly with
      | TAnyTuple => Ok true
      | TTup _ ys =>
          if negb (Nat.eqb (length xs) (length ys)) then Ok false
          else
            (* all(st.test_polymorphic(ot) ...): short-circuits on the first False *)
            (fix go (l : list (N * ty)) (r : list (N * ty)) {struct l} : res bool :=
               match l, r with
               | (_, x) :: l', (_, y) :: r' =>
                   match test_poly x y with
                   | Err e => Err e
                   | Ok false => Ok false
                   | Ok true => go l' r'
                   end
               | _, _ => Ok true
               end) xs ys
      | _ => Ok false
      end
  end.

(* resolve_polymorphic(self=poly, other=c) *)
Fixpoint resolve_poly (poly c : ty) {struct poly} : option ty :=
  if negb (is_poly poly) then None else
  match poly with
  | TS _ => if is_scalar c && negb (is_poly c) then Some c else None
  | TAny => Some c
  | TAnyObject => if negb (is_object c) || is_poly c then None else Some c
  | TAnyTuple => if negb (is_tuple c) || is_poly c then None else Some c
  | TArr x => match c with TArr y => resolve_poly x y | _ => None end
  | TRng x => match c with TRng y => resolve_poly x y | _ => None end
  | TMRng x => match c with TRng y | TMRng y => resolve_poly x y | _ => None end
  | TTup _ xs =>
      match c with
      | TTup _ ys =>
          if negb (Nat.eqb (length xs) (length ys)) then None
          else
            (fix go (l : list (N * ty)) (r : list (N * ty)) {struct l} : option ty :=
               match l, r with
               | (_, x) :: l', (_, y) :: r' => if is_poly x then resolve_poly x y else go l' r'
               | _, _ => None
               end) xs ys
      | _ => None
      end
  | TObj _ | TUnion _ => None
  end.

(* to_nonpolymorphic(self=t, concrete=c) *)
Fixpoint to_nonpoly (t c : ty) {struct t} : res ty :=
  if negb (is_poly t) then Err ETypeError else
  match t with
  | TS _ => if negb (is_poly c) && issub c t then Ok c else Err ETypeError
  | TAny | TAnyTuple | TAnyObject => Ok c
  | TArr x => match x with
              | TRng _ | TMRng _ => match to_nonpoly x c with Ok y => Ok (TArr y) | Err e => Err e end
              | _ => if is_array c then Err ENestedArr else Ok (TArr c)   (* Array.from_subtypes *)
              end
  | TRng _ => Ok (TRng c)
  | TMRng _ => Ok (TMRng c)
  | TTup n xs =>
      match (fix go (l : list (N * ty)) : res (list (N * ty)) :=
               match l with
               | [] => Ok []
               | (i, x) :: l' =>
                   match (if is_poly x then to_nonpoly x c else Ok x) with
                   | Err e => Err e
                   | Ok y => match go l' with Ok ys => Ok ((i, y) :: ys) | Err e => Err e end
                   end
               end) xs with
      | Ok ys => Ok (TTup n ys)
      | Err e => Err e
      end
  | TObj _ | TUnion _ => Err ETypeError
  end.

(* get_common_parent_type_distance(self=a, other=p) *)
Definition min_index_dist (ancs : list N) (ns : list N) : Z :=
  match fold_right (fun x acc =>
                      match index_of x ancs with
                      | Some i => let d := Z.of_nat (S i) in
                                  match acc with None => Some d | Some m => Some (Z.min d m) end
                      | None => acc
                      end) None ns with
  | Some d => d
  | None => (-1)%Z
  end.

Definition inh_dist (anc : N -> list N) (a p : N) : Z :=
  if N.eqb a p then 0%Z else
  match nearest_common anc a p with
  | [] => (-1)%Z
  | ns => if memN a ns then 0%Z else min_index_dist (anc a) ns
  end.


Fixpoint parent_dist (a p : ty) {struct a} : Z :=
  match a with
  | TS s => if is_any p then MAXD
            else match p with TS q => inh_dist sc_ancestors s q | _ => (-1)%Z end
  | TObj o => if is_any p then MAXD
              else match p with TObj q => inh_dist ob_ancestors o q | _ => (-1)%Z end
  | TUnion _ => if is_any p then MAXD else if ty_eqb a p then 0%Z else (-1)%Z
  | TAny | TAnyTuple | TAnyObject => if ty_eqb a p then 0%Z else MAXD
  | TArr x => if is_any p then 1%Z
              else match p with
                   | TArr y => let d := parent_dist x y in if (d <? 0)%Z then (-1)%Z else d
                   | _ => (-1)%Z end
  | TRng x => if is_any p then 1%Z
              else match p with
                   | TRng y => let d := parent_dist x y in if (d <? 0)%Z then (-1)%Z else d
                   | _ => (-1)%Z end
  | TMRng x => if is_any p then 1%Z
               else match p with
                    | TMRng y => let d := parent_dist x y in if (d <? 0)%Z then (-1)%Z else d
                    | _ => (-1)%Z end
  | TTup _ xs =>
      if is_any p then 1%Z
      else match p with
           | TTup _ ys =>
               (fix go (l : list (N * ty)) (r : list (N * ty)) (acc : Z) {struct l} : Z :=
                  match l, r with
                  | (_, x) :: l', (_, y) :: r' =>
                      let d := parent_dist x y in
                      if (d <? 0)%Z then (-1)%Z else go l' r' (acc + d)%Z
                  | _, _ => acc
                  end) xs ys 0%Z
           | _ => (-1)%Z
           end
  end.

(* s_types.is_type_compatible(type_a = parameter type, type_b = value type); tuple types are
   taken as non-persistent (see DESIGN / report: "both persistent" is not modelled) *)
Fixpoint labels_compat (a b : ty) {struct a} : bool :=
  if ty_eqb a b then true else
  match a with
  | TTup _ xs =>
      match b with
      | TTup _ ys =>
          (fix go (l : list (N * ty)) (r : list (N * ty)) {struct l} : bool :=
             match l, r with
             | (i, x) :: l', (j, y) :: r' => N.eqb i j && labels_compat x y && go l' r'
             | _, _ => true
             end) xs ys
      | _ => true
      end
  | TArr x => match b with TArr y => negb (is_realtuple x) && labels_compat x y | _ => true end
  | TRng x => match b with TRng y => labels_compat x y | _ => true end
  | TMRng x => match b with TMRng y => labels_compat x y | _ => true end
  | _ => true
  end.

Definition compat (pt vt : ty) : bool := issub vt pt && labels_compat pt vt.

(* ---- polyres.try_bind_call_args ---- *)

Record barg := mk_barg {
  ba_pty : ty;          (* BoundArg.param_type (after to_nonpolymorphic) *)
  ba_vty : ty;          (* BoundArg.valtype *)
  ba_cd : Z;            (* cast_distance *)
  ba_raw : ty;          (* param.get_type() *)
  ba_variadic : bool;   (* parameter kind is VARIADIC: the cast target is the array's element *)
  ba_arg : option nat;  (* index of the positional argument / None for kwargs and defaults *)
  ba_kw : option N }.   (* keyword name for NAMED ONLY arguments *)

Record bcall := mk_bcall { bc_f : callable; bc_args : list barg; bc_ret : ty }.

Inductive bres := BNone | BErr (e : err) | BSome (b : bcall).

(* _get_cast_distance; state = resolved_poly_base_type *)
Definition gcd (basic is_abs : bool) (rp : option ty) (arg_type param_type : ty)
  : res (Z * option ty) :=
  if basic then Ok (0%Z, rp)
  else if is_poly param_type then
    tp <- test_poly arg_type param_type ;;
    if negb tp then Ok ((-1)%Z, rp) else
    match resolve_poly param_type arg_type with
    | None => Ok ((-1)%Z, rp)
    | Some resolved =>
        let rp1 := match rp with None => resolved | Some r => r end in
        if ty_eqb rp1 resolved then
          Ok (if is_abs then MAXD
              else if is_range arg_type && is_multirange param_type then 1%Z else 0%Z, Some rp1)
        else
          match find_common rp1 resolved with
          | Some ct => Ok (if is_abs then MAXD else 0%Z, Some ct)
          | None =>
              match (if is_poly resolved then resolve_poly resolved rp1 else None) with
              | Some _ => Ok (if is_abs then MAXD else 0%Z, Some rp1)
              | None => Ok ((-1)%Z, Some rp1)
              end
          end
    end
  else if issub arg_type param_type then Ok (0%Z, rp)
  else Ok (cast_dist arg_type param_type, rp).

Fixpoint assoc {A} (k : N) (l : list (N * A)) : option A :=
  match l with
  | [] => None
  | (k', v) :: l' => if N.eqb k k' then Some v else assoc k l'
  end.

Definition is_named_param (p : param) := match p_kind p with PkNamed => true | _ => false end.
Definition is_variadic_param (p : param) := match p_kind p with PkVar => true | _ => false end.

Definition has_required_params (ps : list param) : bool :=
  existsb (fun p => negb (is_variadic_param p) && negb (p_default p)) ps.

Definition arr_elem (t : ty) : ty := match t with TArr e => e | _ => t end.

(* an entry of bound_args_prep: a bound argument or a MissingArg *)
Inductive prep := PBound (b : barg) | PMissing (p : param).

(* NAMED ONLY prefix of the canonical parameter order *)
Fixpoint bind_named (basic is_abs : bool) (kwargs : list (N * ty)) (ps : list param)
         (rp : option ty) (matched : nat) (acc : list prep)
  : res (option (list param * option ty * nat * list prep)) :=
  match ps with
  | p :: ps' =>
      if is_named_param p then
        match assoc (p_name p) kwargs with
        | Some at_ =>
            r <- gcd basic is_abs rp at_ (p_ty p) ;;
            let '(cd, rp') := r in
            if (cd <? 0)%Z then Ok None
            else bind_named basic is_abs kwargs ps' rp' (S matched)
                   (acc ++ [PBound (mk_barg (p_ty p) at_ cd (p_ty p) false None (Some (p_name p)))])
        | None =>
            if p_default p then bind_named basic is_abs kwargs ps' rp matched (acc ++ [PMissing p])
            else Ok None
        end
      else Ok (Some (ps, rp, matched, acc))
  | [] => Ok (Some ([], rp, matched, acc))
  end.

(* the remaining arguments all go to the VARIADIC parameter *)
Fixpoint bind_variadic (basic is_abs : bool) (p : param) (args : list ty) (ai : nat)
         (rp : option ty) (acc : list prep) : res (option (option ty * list prep)) :=
  match args with
  | [] => Ok (Some (rp, acc))
  | at_ :: args' =>
      r <- gcd basic is_abs rp at_ (arr_elem (p_ty p)) ;;
      let '(cd, rp') := r in
      if (cd <? 0)%Z then Ok None
      else bind_variadic basic is_abs p args' (S ai) rp'
             (acc ++ [PBound (mk_barg (p_ty p) at_ cd (p_ty p) true (Some ai) None)])
  end.

(* POSITIONAL arguments; returns the unconsumed parameters *)
Fixpoint bind_pos (basic is_abs : bool) (args : list ty) (ai : nat) (ps : list param)
         (rp : option ty) (acc : list prep)
  : res (option (list param * option ty * list prep)) :=
  match args with
  | [] => Ok (Some (ps, rp, acc))
  | at_ :: args' =>
      match ps with
      | [] => Ok None                                  (* too many positional arguments *)
      | p :: ps' =>
          match p_kind p with
          | PkNamed => Err EInternal                   (* 'unprocessed NAMED ONLY parameter' *)
          | PkVar =>
              r <- bind_variadic basic is_abs p args ai rp acc ;;
              match r with
              | None => Ok None
              | Some (rp', acc') => Ok (Some (ps', rp', acc'))
              end
          | PkPos =>
              r <- gcd basic is_abs rp at_ (p_ty p) ;;
              let '(cd, rp') := r in
              if (cd <? 0)%Z then Ok None
              else bind_pos basic is_abs args' (S ai) ps' rp'
                     (acc ++ [PBound (mk_barg (p_ty p) at_ cd (p_ty p) false (Some ai) None)])
          end
      end
  end.

(* "Handle yet unprocessed POSITIONAL & VARIADIC arguments" *)
Fixpoint bind_rest (ps : list param) (acc : list prep) : res (option (list prep)) :=
  match ps with
  | [] => Ok (Some acc)
  | p :: ps' =>
      match p_kind p with
      | PkPos => if p_default p then bind_rest ps' (acc ++ [PMissing p]) else Ok None
      | PkVar => bind_rest ps' acc
      | PkNamed => Err EInternal
      end
  end.

Definition is_missing (x : prep) := match x with PMissing _ => true | _ => false end.

Fixpoint nonpoly_args (rp : ty) (l : list barg) : res (list barg) :=
  match l with
  | [] => Ok []
  | b :: l' =>
      b' <- (if is_poly (ba_pty b)
             then (t <- to_nonpoly (ba_pty b) rp ;;
                   Ok (mk_barg t (ba_vty b) (ba_cd b) (ba_raw b) (ba_variadic b) (ba_arg b) (ba_kw b)))
             else Ok b) ;;
      r <- nonpoly_args rp l' ;;
      Ok (b' :: r)
  end.

Definition res_to_bres (r : res bres) : bres := match r with Ok b => b | Err e => BErr e end.

(* has_inlined_defaults is false for every callable in scope (SQL-implemented std functions;
   user functions in the harness schemas have no NAMED ONLY parameters) *)
Definition try_bind (basic : bool) (args : list ty) (kwargs : list (N * ty)) (f : callable) : bres :=
  let ps := cl_params f in
  let is_abs := cl_abstract f in
  let no_args := match args, kwargs with [], [] => true | _, _ => false end in
  match ps with
  | [] => if no_args then BSome (mk_bcall f [] (cl_ret f)) else BNone
  | _ =>
    if no_args && has_required_params ps then BNone else
    res_to_bres (
      r1 <- bind_named basic is_abs kwargs ps None O [] ;;
      match r1 with
      | None => Ok BNone
      | Some (ps1, rp1, matched, acc1) =>
        if negb (Nat.eqb matched (length kwargs)) then Ok BNone else
        r2 <- bind_pos basic is_abs args O ps1 rp1 acc1 ;;
        match r2 with
        | None => Ok BNone
        | Some (ps2, rp2, acc2) =>
          r3 <- bind_rest ps2 acc2 ;;
          match r3 with
          | None => Ok BNone
          | Some acc3 =>
            let has_missing := existsb is_missing acc3 in
            let named_only := existsb is_named_param ps in
            let bound :=
              flat_map (fun x => match x with
                                 | PBound b => [b]
                                 | PMissing p =>
                                     if has_missing && named_only
                                     then [mk_barg (p_ty p) (p_ty p) 0%Z (p_ty p) false None None]
                                     else []
                                 end) acc3 in
            let ret0 := cl_ret f in
            match (if is_poly ret0 then
                     match rp2 with
                     | Some rp => match to_nonpoly ret0 rp with Ok t => Ok (Some t) | Err e => Err e end
                     | None => if basic then Ok (Some ret0) else Ok None
                     end
                   else Ok (Some ret0)) with
            | Err e => Err e
            | Ok None => Ok BNone
            | Ok (Some ret) =>
                bound' <- (match rp2 with Some rp => nonpoly_args rp bound | None => Ok bound end) ;;
                Ok (BSome (mk_bcall f bound' ret))
            end
          end
        end
      end)
  end.

(* ---- polyres.find_callable ---- *)

Definition sumZ (l : list Z) : Z := fold_right Z.add 0%Z l.

(* keep the calls whose key is minimal (first pass: cast distance, second: type distance) *)
Fixpoint min_by (key : bcall -> Z) (l : list bcall) (best : option Z) (acc : list bcall) : list bcall :=
  match l with
  | [] => acc
  | c :: l' =>
      let k := key c in
      match best with
      | None => min_by key l' (Some k) [c]
      | Some b => if (b =? k)%Z then min_by key l' best (acc ++ [c])
                  else if (k <? b)%Z then min_by key l' (Some k) [c]
                  else min_by key l' best acc
      end
  end.

Fixpoint bind_all (basic : bool) (args : list ty) (kwargs : list (N * ty)) (cands : list callable)
  : res (list bcall) :=
  match cands with
  | [] => Ok []
  | f :: cands' =>
      match try_bind basic args kwargs f with
      | BErr e => Err e
      | BNone => bind_all basic args kwargs cands'
      | BSome b => r <- bind_all basic args kwargs cands' ;; Ok (b :: r)
      end
  end.

Definition find_callable (cands : list callable) (args : list ty) (kwargs : list (N * ty))
  : res (list bcall) :=
  calls <- bind_all false args kwargs cands ;;
  let matched := min_by (fun c => sumZ (map ba_cd (bc_args c))) calls None [] in
  match matched with
  | [] | [_] => Ok matched
  | _ => Ok (min_by (fun c => sumZ (map (fun b => parent_dist (ba_vty b) (ba_raw b)) (bc_args c)))
                    matched None [])
  end.

Definition callables_named (nm : N) (isop : bool) : list callable :=
  filter (fun f => N.eqb (cl_name f) nm && Bool.eqb (cl_isop f) isop) (sg_callables sg).

(* ---- casts.compile_cast: the modelled fragment ---- *)

(* what the compiler needs to know about an argument expression besides its type *)
Record argd := mk_argd { ad_ty : ty; ad_empty : bool (* EmptySet expression *);
                         ad_empty_arr : bool (* untyped empty array literal *) }.

(* a cast seen as a 2-parameter callable (CastCallableWrapper): (from, to) -> to *)
Definition cast_callable (c : cast_def) : callable :=
  mk_callable 0 0 false false false None
    [mk_param 0 PkPos TmOne (c_from c) false; mk_param 1 PkPos TmOne (c_to c) false] TmOne (c_to c).

Definition has_common_concrete (a b : ty) : bool :=
  match a, b with
  | TS s, TS q => match topmost_concrete s, topmost_concrete q with
                  | Some x, Some y => N.eqb x y | _, _ => false end
  | _, _ => false
  end.

Fixpoint first_nonempty {A} (l : list (list A)) : list A :=
  match l with [] => [] | [] :: l' => first_nonempty l' | x :: _ => x end.

(* _find_cast: Ok true = exactly one cast, Ok false = none *)
Definition find_cast (a b : ty) : res bool :=
  if issub a b || issub b a || has_common_concrete a b then Ok false else
  let direct := casts_to b false in
  let casts := match direct with
               | _ :: _ => direct
               | [] => match b with
                       | TS q => first_nonempty (map (fun t => casts_to (TS t) false) (sc_ancestors q))
                       | TObj q => first_nonempty (map (fun t => casts_to (TObj t) false) (ob_ancestors q))
                       | _ => []
                       end
               end in
  m <- find_callable (map cast_callable casts) [a; b] [] ;;
  match m with
  | [] => Ok false
  | [_] => Ok true
  | _ => Err ECastErr       (* cannot unambiguously cast *)
  end.

(* compile_cast(expr of type a (described by d), new type b); [explicit] = span is not None.
   Err EUnsupported where the model abstains (json sources, object targets, ...). *)
Fixpoint cast_ok (fuel : nat) (explicit : bool) (d : argd) (b : ty) {struct fuel} : res unit :=
  let a := ad_ty d in
  match fuel with
  | O => Err EInternal
  | S fuel' =>
  if is_poly b && explicit then Err EGeneric
  else if ad_empty d then Ok tt
  else if is_array b && ad_empty_arr d then Ok tt
  else if is_poly b then Err EGeneric
  else if ty_eqb a b then Ok tt
  else if is_object a && is_object b then Err ECastErr
  else if is_any a && is_object b then Ok tt
  else if is_object a || is_object b then Err EUnsupported
  else
  match a with
  | TTup _ xs =>
      match b with
      | TTup _ ys =>
          if negb (Nat.eqb (length xs) (length ys)) then Err ECastErr
          else
            (fix go (l : list (N * ty)) (r : list (N * ty)) {struct l} : res unit :=
               match l, r with
               | (_, x) :: l', (_, y) :: r' =>
                   _ <- (if ty_eqb x y then Ok tt
                         else cast_ok fuel' explicit (mk_argd x false false) y) ;;
                   go l' r'
               | _, _ => Ok tt
               end) xs ys
      | _ => Err EUnsupported
      end
  | TArr x =>
      match b with
      | TArr y =>
          (* _cast_array: direct cast lookup fails for array->array; element cast *)
          if compat b a then Ok tt
          else cast_ok fuel' explicit (mk_argd x false false) y
      | _ => Err EUnsupported
      end
  | TRng x =>
      if compat b a then Ok tt else
      match b with
      | TRng y =>
          (* _cast_range: element cast must be found by _find_cast, unless trivially related *)
          if issub x y || issub y x || has_common_concrete x y then Ok tt
          else (r <- find_cast x y ;; if r then Ok tt else Err ECastErr)
      | TMRng y =>
          if ty_eqb x y then Ok tt
          else if issub x y || issub y x || has_common_concrete x y then Ok tt
          else (r <- find_cast x y ;; if r then Ok tt else Err ECastErr)
      | _ => Err EUnsupported
      end
  | TMRng x =>
      if compat b a then Ok tt else
      match b with
      | TMRng y =>
          if issub x y || issub y x || has_common_concrete x y then Ok tt
          else (r <- find_cast x y ;; if r then Ok tt else Err ECastErr)
      | _ => Err EUnsupported
      end
  | TS s =>
      if issub a b then Ok tt
      else if issub b a || has_common_concrete a b then Ok tt
      else if N.eqb s (sg_json sg) then Err EUnsupported
      else
        match b with
        | TS _ => r <- find_cast a b ;; if r then Ok tt else Err ECastErr
        | _ => Err EUnsupported
        end
  | _ => Err EUnsupported
  end
  end.

Definition cast_fuel2 : nat := 12.

Definition all_params (pred : ty -> bool) (f : callable) : bool :=
  forallb (fun p => pred (p_ty p)) (cl_params f).

(* validate_recursive_operator *)
Fixpoint validate_rec (fuel : nat) (opers : list callable) (l r : ty) : res (list bcall) :=
  match fuel with
  | O => Err EInternal
  | S fuel' =>
      match l, r with
      | TTup _ xs, TTup _ ys =>
          (fix go (a : list (N * ty)) (b : list (N * ty)) (last : list bcall) {struct a}
             : res (list bcall) :=
             match a, b with
             | (_, x) :: a', (_, y) :: b' =>
                 (* sic: zip(larg subtypes, rarg subtypes) is unpacked as (rsub, lsub) and
                    passed as (lsub, rsub): the operands are swapped at each level *)
                 m <- validate_rec fuel' opers y x ;;
                 match m with
                 | [_] => go a' b' m
                 | _ => Ok m
                 end
             | _, _ => Ok last
             end) xs ys []
      | TArr x, TArr y =>
          validate_rec fuel' opers y x
      | _, _ => find_callable opers [l; r] []
      end
  end.

Definition is_set_like_op (nm : N) : bool :=
  N.eqb nm (sg_union sg) || N.eqb nm (sg_coalesce sg) || N.eqb nm (sg_if sg).

(* union type of two object types (schemactx.get_union_type over [left; right]) *)
Definition obj_components (t : ty) : list N :=
  match t with TObj o => [o] | TUnion os => os | _ => [] end.

Fixpoint insert_sorted (x : N) (l : list N) : list N :=
  match l with
  | [] => [x]
  | y :: l' => if N.eqb x y then l else if N.ltb x y then x :: l else y :: insert_sorted x l'
  end.

Definition union_type (l r : ty) : ty :=
  let comps := obj_components l ++ obj_components r in
  (* utils.minimize_class_set_by_most_generic: drop components that have another component
     among their ancestors *)
  let keep := filter (fun o => negb (existsb (fun q => negb (N.eqb q o) && memN q (ob_ancestors o)) comps)) comps in
  match fold_right insert_sorted [] keep with
  | [o] => TObj o
  | os => TUnion os
  end.

(* ---- expressions ---- *)

Inductive expr : Type :=
| ELit (s : N)                          (* constant of a concrete scalar type *)
| EEmpty                                (* {} *)
| ECast (t : ty) (e : expr)             (* <t>e *)
| ETuple (named : bool) (els : list (N * expr))
| EArray (es : list expr)
| ESet (es : list expr)                 (* { e1, ..., en } *)
| EOp (op : N) (args : list expr)       (* prefix / infix / ternary operator; IF is [then; cond; else] *)
| ECall (f : N) (args : list expr) (kw : list (N * expr))
| ETupIdx (e : expr) (n : N)            (* e.n *)
| EIndex (e : expr) (i : expr)          (* e[i] *)
| EObj (o : N)                          (* the set of all objects of a type *)
| EPtr (e : expr) (p : N).              (* e.p : link / property of an object-typed expression *)

(* expr.flatten_set *)
Fixpoint flat1 (e : expr) : list expr :=
  match e with
  | ESet es => (fix go (l : list expr) : list expr :=
                  match l with [] => [] | x :: l' => flat1 x ++ go l' end) es
  | EEmpty => []          (* `{}` is a qlast.Set without elements *)
  | _ => [e]
  end.
Definition flatten_set (es : list expr) : list expr := flat_map flat1 es.

(* the IR of the expression is an EmptySet: `{}`, a set literal that flattens to nothing, or a
   cast of one (compile_cast returns a new EmptySet of the target type) *)
Fixpoint is_empty_expr (e : expr) : bool :=
  match e with
  | EEmpty => true
  | ESet es => match flatten_set es with [] => true | _ => false end
  | ECast _ e1 => is_empty_expr e1
  | _ => false
  end.
Definition is_empty_arr_expr (e : expr) : bool := match e with EArray [] => true | _ => false end.

(* typegen.infer_common_type over scalar / collection element types *)
Definition kind3 (t : ty) : nat :=
  if is_collection t then 0 else if is_scalar t then 1 else 2.

Fixpoint fold_common (acc : ty) (l : list ty) : option ty :=
  match l with
  | [] => Some acc
  | t :: l' => match find_common acc t with Some c => fold_common c l' | None => None end
  end.

Definition infer_common_type (ts : list ty) : res ty :=
  match ts with
  | [] => Err EArrayType
  | t0 :: rest =>
      if negb (forallb (fun t => Nat.eqb (kind3 t) (kind3 t0)) rest) then Err EArrayType
      else if Nat.eqb (kind3 t0) 2 then
        match t0 with
        | TObj _ =>
            (* nearest common ancestor of all object types, first one *)
            match fold_left (fun acc t => match acc, t with
                                          | Some (TObj a), TObj b =>
                                              match nearest_common ob_ancestors a b with
                                              | x :: _ => Some (TObj x) | [] => None end
                                          | _, _ => None end) rest (Some t0) with
            | Some t => Ok t | None => Err EArrayType end
        | _ => Err EUnsupported
        end
      else match fold_common t0 rest with Some t => Ok t | None => Err EArrayType end
  end.

Fixpoint has_dup (l : list N) : bool :=
  match l with [] => false | x :: l' => memN x l' || has_dup l' end.


(* ------------------------------------------------------------------ values *)

(* dynamic values: every scalar value carries the (concrete) scalar type it belongs to *)
Inductive value : Type :=
| VS (s : N) (payload : Z)
| VTup (named : bool) (els : list (N * value))
| VArr (vs : list value)
| VRng (bounds : list value)           (* the bounds that are present *)
| VMRng (ranges : list value)
| VObj (o : N) (id : N).               (* an object and its (dynamic) object type *)

(* "v belongs to type t" (subtype semantics: a value of a scalar / object type belongs to every
   ancestor type; anytype is the top) *)
Fixpoint has_type (v : value) (t : ty) {struct v} : bool :=
  match t with
  | TAny => true
  | _ =>
    match v with
    | VS s _ => match t with TS q => sc_sub s q | _ => false end
    | VObj o _ => match t with
                  | TAnyObject => true
                  | TObj q => ob_sub o q
                  | TUnion qs => existsb (ob_sub o) qs
                  | _ => false end
    | VArr vs => match t with
                 | TArr e => (fix go (l : list value) : bool :=
                                match l with [] => true | x :: l' => has_type x e && go l' end) vs
                 | _ => false end
    | VRng vs => match t with
                 | TRng e => (fix go (l : list value) : bool :=
                                match l with [] => true | x :: l' => has_type x e && go l' end) vs
                 | _ => false end
    | VMRng vs => match t with
                  | TMRng e => (fix go (l : list value) : bool :=
                                  match l with [] => true | x :: l' => has_type x (TRng e) && go l' end) vs
                  | _ => false end
    | VTup n vs =>
        match t with
        | TAnyTuple => true
        | TTup m ts =>
            Bool.eqb n m &&
            (fix go (l : list (N * value)) (r : list (N * ty)) {struct l} : bool :=
               match l, r with
               | [], [] => true
               | (i, x) :: l', (j, y) :: r' => N.eqb i j && has_type x y && go l' r'
               | _, _ => false
               end) vs ts
        | _ => false
        end
    end
  end.

(* an argument passed WITHOUT a cast must also agree with the parameter type in tuple
   arity / naming at every level: is_type_compatible does not check this (zip) *)
Fixpoint shape_ok (pt vt : ty) {struct pt} : bool :=
  match pt with
  | TTup n xs =>
      match vt with
      | TTup m ys =>
          Bool.eqb n m &&
          (fix go (l : list (N * ty)) (r : list (N * ty)) {struct l} : bool :=
             match l, r with
             | [], [] => true
             | (i, x) :: l', (j, y) :: r' => N.eqb i j && shape_ok x y && go l' r'
             | _, _ => false
             end) xs ys
      | _ => true
      end
  | TArr x => match vt with TArr y => shape_ok x y | _ => true end
  | TRng x => match vt with TRng y => shape_ok x y | _ => true end
  | TMRng x => match vt with TMRng y => shape_ok x y | _ => true end
  | _ => true
  end.

(* an argument: static description + the values it evaluates to *)
Record argv := mk_argv { av_d : argd; av_vs : list value }.
Definition av_ty (a : argv) : ty := ad_ty (av_d a).

Fixpoint cartesian {A} (ls : list (list A)) : list (list A) :=
  match ls with
  | [] => [[]]
  | l :: ls' => flat_map (fun x => map (fun r => x :: r) (cartesian ls')) l
  end.

Definition truthy (v : value) : bool := match v with VS _ p => negb (Z.eqb p 0) | _ => false end.

Section Run.
Variable s_int64 : N.
(* the semantic function of a resolved call (overload + instantiation) on the argument value
   sets after the implicit argument casts; the SQL bodies of the std library are not modelled *)
Variable prim : bcall -> list (list value) -> list value.
(* casting one value from a type to a type (may fail: no result) *)
Variable castv : ty -> ty -> value -> list value.
(* str / bytes / json indexing *)
Variable idxp : ty -> value -> value -> list value.
(* database instance: the objects of (exactly) a given object type and of its descendants *)
Variable db : N -> list value.
(* the pointers (links and properties, inherited ones included) of the object types of the user
   schema: (object type, pointer name) -> target type; and their values in the database
   instance: object id -> pointer name -> values *)
Variable ptrs : list (N * N * ty).
Variable dbp : N -> N -> list value.

Fixpoint find_ptr (l : list (N * N * ty)) (o p : N) : option ty :=
  match l with
  | [] => None
  | (o', p', t) :: l' => if N.eqb o o' && N.eqb p p' then Some t else find_ptr l' o p
  end.

Definition ptr_values (p : N) (v : value) : list value :=
  match v with VObj _ id => dbp id p | _ => [] end.

(* func.finalize_args: arguments whose type is not compatible with the (resolved) parameter
   type are cast to it (compile_cast with span=None).  Returns the "clean" flag (every argument
   passed without a cast has the statically known argument type and the parameter's tuple
   shape) and the argument value sets after the casts. *)
Definition barg_target (b : barg) : ty := if ba_variadic b then arr_elem (ba_pty b) else ba_pty b.

Definition lookup_arg (args : list argv) (kws : list (N * argv)) (b : barg) : argv :=
  let dflt := mk_argv (mk_argd (ba_vty b) false false) [] in
  match ba_arg b, ba_kw b with
  | Some i, _ => nth i args dflt
  | None, Some k => match assoc k kws with Some a => a | None => dflt end
  | None, None => dflt
  end.

Fixpoint finalize (args : list argv) (kws : list (N * argv)) (bargs : list barg)
  : res (bool * list (list value)) :=
  match bargs with
  | [] => Ok (true, [])
  | b :: bargs' =>
      let target := barg_target b in
      let a := lookup_arg args kws b in
      r <- (if compat target (ba_vty b)
            then Ok (ty_eqb (ba_vty b) (av_ty a) && shape_ok target (ba_vty b), av_vs a)
            else (_ <- cast_ok cast_fuel2 false (av_d a) target ;;
                  Ok (true, flat_map (castv (ba_vty b) target) (av_vs a)))) ;;
      rest <- finalize args kws bargs' ;;
      Ok (fst r && fst rest, snd r :: snd rest)
  end.

(* concrete semantics of the set operators; everything else is [prim] *)
Definition sem_setlike (nm : N) (vals : list (list value)) : option (list value) :=
  if N.eqb nm (sg_union sg) then match vals with [l; r] => Some (l ++ r) | _ => None end
  else if N.eqb nm (sg_coalesce sg) then
    match vals with [l; r] => Some (match l with [] => r | _ => l end) | _ => None end
  else if N.eqb nm (sg_if sg) then
    match vals with
    | [t; c; f] => Some (flat_map (fun b => if truthy b then t else f) c)
    | _ => None end
  else None.

(* which argument positions flow into the result of a set operator *)
Definition setlike_flow (nm : N) (bargs : list barg) : list barg :=
  if N.eqb nm (sg_if sg) then match bargs with [t; _; f] => [t; f] | _ => bargs end else bargs.

Definition apply_bcall (bc : bcall) (args : list argv) (kws : list (N * argv))
  : res (ty * bool * list value) :=
  r <- finalize args kws (bc_args bc) ;;
  let '(clean, vals) := r in
  let nm := cl_name (bc_f bc) in
  let concrete :=
    if cl_isop (bc_f bc) && is_set_like_op nm
       && forallb (fun b => ty_eqb (barg_target b) (bc_ret bc)) (setlike_flow nm (bc_args bc))
    then sem_setlike nm vals else None in
  Ok (bc_ret bc, clean, match concrete with Some vs => vs | None => prim bc vals end).

(* ---- func.compile_operator ---- *)
Definition is_union (t : ty) := match t with TUnion _ => true | _ => false end.

(* overload resolution of an operator application (types only): the unique matching call *)
Definition resolve_operator (nm : N) (args : list ty) : res bcall :=
  let opers0 := callables_named nm true in
  if existsb is_union args then Err EUnsupported else     (* union-typed operands: not modelled *)
  match opers0 with
  | [] => Err ENoName
  | first :: _ =>
    r0 <- (match cl_deriv first with
           | None => Ok opers0
           | Some origin =>
               match opers0 with
               | [_] => match callables_named origin true with
                        | [] => Err EInternal
                        | os => Ok os end
               | _ => Err EInternal
               end
           end) ;;
    let opers := r0 in
    matched0 <-
      (match args with
       | [l; r] =>
           let coll :=
             if is_tuple l && is_tuple r then filter (all_params is_tuple) opers
             else if is_array l && is_array r then filter (all_params is_array) opers
             else [] in
           match coll with
           | [] => find_callable opers args []
           | c0 :: _ =>
               if negb (cl_recursive c0) then find_callable coll args []
               else
                 m <- find_callable coll args [] ;;
                 sub <- validate_rec 8 opers l r ;;
                 match sub with
                 | [_] => Ok m
                 | _ => Ok sub
                 end
           end
       | _ => find_callable opers args []
       end) ;;
    let matched := filter (fun c => negb (cl_abstract (bc_f c))) matched0 in
    match matched with
    | [] => Err ENoMatch
    | [c] => Ok c
    | _ => Err EAmbiguous
    end
  end.

Definition compile_operator (nm : N) (argvs : list argv) : res (ty * bool * list value) :=
  c <- resolve_operator nm (map av_ty argvs) ;;
  r <- apply_bcall c argvs [] ;;
  let '(rtype, clean, vs) := r in
  if is_set_like_op (cl_name (bc_f c)) && is_object rtype then
    (* "instead of common parent type, we return a union type" *)
    (* an operand that is not of an object type can only be an (anytype) empty set *)
    let ov := fun a : argv => if is_object (av_ty a) then av_vs a else [] in
    match (if N.eqb nm (sg_if sg) then
             match argvs with
             | [l; c; r] => Some (l, r, [ov l; av_vs c; ov r]) | _ => None end
           else match argvs with [l; r] => Some (l, r, [ov l; ov r]) | _ => None end) with
    | Some (l, r, vals) =>
        Ok (union_type (av_ty l) (av_ty r), clean,
            match sem_setlike nm vals with Some v => v | None => [] end)
    | None => Err EInternal
    end
  else Ok (rtype, clean, vs).

(* ---- func.compile_FunctionCall ---- *)
Definition resolve_call (nm : N) (args : list ty) (kwargs : list (N * ty)) : res bcall :=
  if existsb is_union args || existsb (fun kv => is_union (snd kv)) kwargs
  then Err EUnsupported else
  match callables_named nm false with
  | [] => Err ENoName
  | funcs =>
      m <- find_callable funcs args kwargs ;;
      match m with
      | [] => Err ENoFunc
      | [c] => Ok c
      | _ => Err ENotUnique
      end
  end.

Definition compile_call (nm : N) (argvs : list argv) (kwvs : list (N * argv))
  : res (ty * bool * list value) :=
  c <- resolve_call nm (map av_ty argvs) (map (fun kv => (fst kv, av_ty (snd kv))) kwvs) ;;
  apply_bcall c argvs kwvs.

(* expr._balance over compiled elements: UNION(balance(ls), balance(rs)), mid = len // 2.
   Elements are results: an error in an operand of an inner UNION surfaces before later
   elements are looked at. *)
Fixpoint balance (fuel : nat) (l : list (res (argv * bool))) : res (argv * bool) :=
  match fuel with
  | O => Err EInternal
  | S fuel' =>
      match l with
      | [] => Err EInternal
      | [d] => d
      | _ =>
          let mid := Nat.div2 (length l) in
          lt <- balance fuel' (firstn mid l) ;;
          rt <- balance fuel' (skipn mid l) ;;
          r <- compile_operator (sg_union sg) [fst lt; fst rt] ;;
          let '(t, clean, vs) := r in
          Ok (mk_argv (mk_argd t false false) vs, clean && snd lt && snd rt)
      end
  end.

Definition infer_index (node idx : ty) : res ty :=
  let str_t := TS (sg_str sg) in
  let bytes_t := TS (sg_bytes sg) in
  let json_t := TS (sg_json sg) in
  let int_t := TS s_int64 in
  if issub node str_t then (if impl_castable idx int_t then Ok str_t else Err EIndexErr)
  else if issub node bytes_t then (if impl_castable idx int_t then Ok bytes_t else Err EIndexErr)
  else if issub node json_t then
    (if impl_castable idx int_t || impl_castable idx str_t then Ok json_t else Err EIndexErr)
  else match node with
       | TArr el => if impl_castable idx int_t then Ok el else Err EIndexErr
       | TAny => Ok TAny
       | _ => Err EIndexErr
       end.


Definition mk_av (e : expr) (t : ty) (vs : list value) : argv :=
  mk_argv (mk_argd t (is_empty_expr e) (is_empty_arr_expr e)) vs.

(* the element values of an array literal are brought to the common element type *)
Definition coerce (from to : ty) (vs : list value) : list value :=
  if compat to from && shape_ok to from then vs else flat_map (castv from to) vs.

(* compile one operand / element: the argument descriptor with its values, and its clean flag *)
Definition as_arg (e : expr) (r : ty * bool * list value) : argv * bool :=
  let '(t, clean, vs) := r in (mk_av e t vs, clean).

(* the elements of a set literal after expr.flatten_set, each compiled lazily (a result) *)
Section SetElems.
Variable f : expr -> res (argv * bool).
Fixpoint set_elem (x : expr) : list (res (argv * bool)) :=
  match x with
  | ESet inner => (fix go (l : list expr) : list (res (argv * bool)) :=
                     match l with [] => [] | y :: l' => set_elem y ++ go l' end) inner
  | EEmpty => []
  | _ => [f x]
  end.
End SetElems.

Definition tuple_value (named : bool) (names : list N) (vs : list value) : value :=
  VTup named (combine names vs).

Definition proj_pos (n : nat) (v : value) : list value :=
  match v with
  | VTup _ vs' => match nth_error vs' n with Some (_, w) => [w] | None => [] end
  | _ => []
  end.
Definition proj_name (n : N) (v : value) : list value :=
  match v with
  | VTup _ vs' => match assoc n vs' with Some w => [w] | None => [] end
  | _ => []
  end.
Definition index_value (rt : ty) (v iv : value) : list value :=
  match v, iv with
  | VArr els, VS _ p =>
      if (p <? 0)%Z then []
      else match nth_error els (Z.to_nat p) with Some w => [w] | None => [] end
  | VArr _, _ => []
  | _, _ => idxp rt v iv
  end.

(* one pass: inferred type, "clean" flag, values *)
Fixpoint run (e : expr) : res (ty * bool * list value) :=
  match e with
  | ELit s => if sc_is_abstract s then Err ENoName else Ok (TS s, true, [VS s 0])
  | EEmpty => Ok (TAny, true, [])
  | EObj o => Ok (TObj o, true, db o)
  | EPtr e1 p =>
      r <- run e1 ;;
      let '(t, clean, vs) := r in
      match t with
      | TObj o => match find_ptr ptrs o p with
                  | Some tgt => Ok (tgt, clean, flat_map (ptr_values p) vs)
                  | None => Err EIndexErr        (* InvalidReferenceError: no link or property *)
                  end
      | TUnion _ => Err EUnsupported
      | _ => Err EIndexErr
      end
  | ECast t e1 =>
      r <- run e1 ;;
      let '(a, clean, vs) := r in
      _ <- cast_ok cast_fuel2 true (mk_argd a (is_empty_expr e1) (is_empty_arr_expr e1)) t ;;
      Ok (t, clean, if ty_eqb a t then vs else flat_map (castv a t) vs)
  | ETuple named els =>
      if named && has_dup (map fst els) then Err EDupName else
      rs <- mapM (fun nx => r <- run (snd nx) ;; Ok (fst nx, r)) els ;;
      Ok (TTup named (map (fun r => (fst r, fst (fst (snd r)))) rs),
          forallb (fun r => snd (fst (snd r))) rs,
          map (tuple_value named (map fst rs)) (cartesian (map (fun r => snd (snd r)) rs)))
  | EArray es =>
      rs <- mapM run es ;;
      let ts := map (fun r => fst (fst r)) rs in
      let clean := forallb (fun r => snd (fst r)) rs in
      if existsb is_array ts then Err EArrayType       (* nested arrays are not supported *)
      else match ts with
           | [] => Ok (TArr TAny, clean, [VArr []])
           | _ => t <- infer_common_type ts ;;
                  Ok (TArr t, clean,
                      map VArr (cartesian (map (fun r => coerce (fst (fst r)) t (snd r)) rs)))
           end
  | ESet es =>
      let ds := flat_map (set_elem (fun x => r <- run x ;; Ok (as_arg x r))) es in
      match ds with
      | [] => Ok (TAny, true, [])
      | [d] => d' <- d ;; Ok (av_ty (fst d'), snd d', av_vs (fst d'))
      | _ => r <- balance (S (length ds)) ds ;; Ok (av_ty (fst r), snd r, av_vs (fst r))
      end
  | EOp op args =>
      rs <- mapM (fun x => r <- run x ;; Ok (as_arg x r)) args ;;
      r <- compile_operator op (map fst rs) ;;
      let '(t, clean, vs) := r in
      Ok (t, clean && forallb snd rs, vs)
  | ECall f args kw =>
      rs <- mapM (fun x => r <- run x ;; Ok (as_arg x r)) args ;;
      ks <- mapM (fun nx => r <- run (snd nx) ;; Ok (fst nx, as_arg (snd nx) r)) kw ;;
      r <- compile_call f (map fst rs) (map (fun k => (fst k, fst (snd k))) ks) ;;
      let '(t, clean, vs) := r in
      Ok (t, clean && forallb snd rs && forallb (fun k => snd (snd k)) ks, vs)
  | ETupIdx e1 n =>
      r <- run e1 ;;
      let '(t, clean, vs) := r in
      (* Tuple.get_subtype: a decimal field (name ids 0..31 are "0".."31") is a position,
         otherwise a name of a named tuple *)
      match t with
      | TTup named els =>
          if (n <? 32)%N then
            match nth_error els (N.to_nat n) with
            | Some (_, x) => Ok (x, clean, flat_map (proj_pos (N.to_nat n)) vs)
            | None => Err EIndexErr end
          else if named then
            match assoc n els with
            | Some x => Ok (x, clean, flat_map (proj_name n) vs)
            | None => Err EIndexErr end
          else Err EIndexErr
      | _ => Err EIndexErr
      end
  | EIndex e1 i =>
      r <- run e1 ;;
      ri <- run i ;;
      let '(t, clean, vs) := r in
      let '(ti, cleani, vis) := ri in
      rt <- infer_index t ti ;;
      Ok (rt, clean && cleani,
          flat_map (fun v => flat_map (index_value rt v) vis) vs)
  end.

(* stmtctx.fini_expression: a statement whose type contains anytype / anyobject is rejected
   ("expression returns value of indeterminate type") *)
Fixpoint has_generic (t : ty) : bool :=
  match t with
  | TAny | TAnyObject => true
  | TArr e | TRng e | TMRng e => has_generic e
  | TTup _ els => (fix go (l : list (N * ty)) : bool :=
                     match l with [] => false | (_, x) :: l' => has_generic x || go l' end) els
  | _ => false
  end.


End Run.

(* the type part does not depend on the value-level parameters (Proofs.run_type_indep);
   [type_of] instantiates them trivially.  This is the function that is extracted and
   compared with the real compiler. *)
Definition type_of_clean (s_int64 : N) (ptrs : list (N * N * ty)) (e : expr) : res (ty * bool) :=
  r <- run s_int64 (fun _ _ => []) (fun _ _ _ => []) (fun _ _ _ => []) (fun _ => []) ptrs
           (fun _ _ => []) e ;;
  Ok (fst r).

Definition type_of (s_int64 : N) (ptrs : list (N * N * ty)) (e : expr) : res ty :=
  r <- type_of_clean s_int64 ptrs e ;; Ok (fst r).

(* the type reported for a statement `select e` *)
Definition stmt_type_clean (s_int64 : N) (ptrs : list (N * N * ty)) (e : expr) : res (ty * bool) :=
  r <- type_of_clean s_int64 ptrs e ;; if has_generic (fst r) then Err EGeneric else Ok r.

Definition stmt_type (s_int64 : N) (ptrs : list (N * N * ty)) (e : expr) : res ty :=
  r <- stmt_type_clean s_int64 ptrs e ;; Ok (fst r).

End WithSig.

(* user-schema additions appended to the generated std signature by the harness *)
Definition sig_extend (sg : sig) (scs : list scalar_def) (obs : list objtype_def)
           (cs : list cast_def) (fs : list callable) : sig :=
  mk_sig (sg_scalars sg ++ scs) (sg_objtypes sg ++ obs) (sg_casts sg ++ cs) (sg_callables sg ++ fs)
         (sg_json sg) (sg_uuid sg) (sg_str sg) (sg_bytes sg)
         (sg_union sg) (sg_coalesce sg) (sg_if sg).
