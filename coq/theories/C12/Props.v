(* C12 — Statically inferred result types match evaluated values.
   Statements only; each is closed by [exact] of a lemma of Proofs.v and followed by
   Print Assumptions (audited by the check on every run).

   Vocabulary (Model.v):
     sig                      signature table: scalars (+ancestors), object types, casts, callables;
                              std part GENERATED from edb/lib (Gen_StdSig.std_sig)
     run sg i64 prim castv idxp db e = Ok (t, clean, vs)
                              one pass over expression e: the type the model infers (the function
                              compared with the real compiler is its type part, [stmt_type_clean]),
                              the "clean" flag (no argument was passed uncast to a parameter of a
                              different tuple shape - false exactly on known finding
                              C12-tuple-arity-subclass), and the values of e under the semantics
                              (prim, castv, idxp, db)
     has_type sg v t          value v belongs to type t (subtype semantics)
     sig_wf sg                ancestor tables transitively closed, object ancestors irreflexive
     ptrs, dbp                the links / properties of the user schema's object types (with their
                              target types) and their values in the database instance *)
From Coq Require Import List NArith ZArith Bool Permutation.
From Verif.C12 Require Import Model Gen_StdSig Proofs.
Import ListNotations.

(* Soundness: for EVERY well-formed signature table, EVERY expression of the calculus, EVERY
   database instance conforming to the schema and EVERY semantics of primitives / casts that
   return values of their declared (instantiated) types, every value the expression evaluates
   to belongs to the inferred type. *)
Theorem C12_sound :
  forall (sg : sig), sig_wf sg = true ->
  forall (s_int64 : N)
         (prim : bcall -> list (list value) -> list value)
         (castv : ty -> ty -> value -> list value)
         (idxp : ty -> value -> value -> list value)
         (db : N -> list value) (ptrs : list (N * N * ty)) (dbp : N -> N -> list value),
  (forall bc vals,
      Forall2 (fun vs b => typed sg (barg_target b) vs) vals (bc_args bc) ->
      typed sg (bc_ret bc) (prim bc vals)) ->
  (forall a b v, typed sg b (castv a b v)) ->
  (forall t v i, typed sg t (idxp t v i)) ->
  (forall o, typed sg (TObj o) (db o)) ->
  (forall a p t o id, find_ptr ptrs a p = Some t -> ob_sub sg o a = true -> typed sg t (dbp id p)) ->
  forall e t vs,
    run sg s_int64 prim castv idxp db ptrs dbp e = Ok (t, true, vs) ->
    Forall (fun v => has_type sg v t = true) vs.
Proof. exact run_sound. Qed.
Print Assumptions C12_sound.

(* The inferred type and the clean flag do not depend on the value-level semantics: two runs
   under ANY two semantics / databases report the same type, the same flag, or the same error.
   Hence the function compared with the real compiler ([stmt_type_clean] = [run] under the
   trivial semantics) reports the type that C12_sound speaks about. *)
Theorem C12_type_independent_of_values :
  forall (sg : sig) (s_int64 : N)
         (prim1 prim2 : bcall -> list (list value) -> list value)
         (castv1 castv2 : ty -> ty -> value -> list value)
         (idxp1 idxp2 : ty -> value -> value -> list value)
         (db1 db2 : N -> list value) (ptrs : list (N * N * ty)) (dbp1 dbp2 : N -> N -> list value)
         (e : expr),
  match run sg s_int64 prim1 castv1 idxp1 db1 ptrs dbp1 e,
        run sg s_int64 prim2 castv2 idxp2 db2 ptrs dbp2 e with
  | Ok (t1, c1, _), Ok (t2, c2, _) => t1 = t2 /\ c1 = c2
  | Err e1, Err e2 => e1 = e2
  | _, _ => False
  end.
Proof. exact run_rel. Qed.
Print Assumptions C12_type_independent_of_values.

(* The headline statement: whenever the (extracted, real-compiler-compared) inference function
   accepts a statement as clean with type t, then under every admissible semantics and every
   conforming database the statement evaluates, and every value belongs to t. *)
Theorem C12_stmt_type_sound :
  forall (sg : sig), sig_wf sg = true ->
  forall (s_int64 : N)
         (prim : bcall -> list (list value) -> list value)
         (castv : ty -> ty -> value -> list value)
         (idxp : ty -> value -> value -> list value)
         (db : N -> list value) (ptrs : list (N * N * ty)) (dbp : N -> N -> list value),
  (forall bc vals,
      Forall2 (fun vs b => typed sg (barg_target b) vs) vals (bc_args bc) ->
      typed sg (bc_ret bc) (prim bc vals)) ->
  (forall a b v, typed sg b (castv a b v)) ->
  (forall t v i, typed sg t (idxp t v i)) ->
  (forall o, typed sg (TObj o) (db o)) ->
  (forall a p t o id, find_ptr ptrs a p = Some t -> ob_sub sg o a = true -> typed sg t (dbp id p)) ->
  forall e t,
    stmt_type_clean sg s_int64 ptrs e = Ok (t, true) ->
    exists vs, run sg s_int64 prim castv idxp db ptrs dbp e = Ok (t, true, vs) /\
               Forall (fun v => has_type sg v t = true) vs.
Proof. exact stmt_type_sound. Qed.
Print Assumptions C12_stmt_type_sound.

(* Overload resolution (polyres.find_callable: minimal total implicit-cast distance, then minimal
   total type distance) does not depend on the order in which the schema yields the candidate
   overloads: permuting the candidates permutes the set of selected calls (so "exactly one
   match", "no match" and "ambiguous" are order-independent outcomes). *)
Theorem C12_resolve_order_independent :
  forall (sg : sig) args kw c1 c2 m1,
  Permutation c1 c2 -> find_callable sg c1 args kw = Ok m1 ->
  exists m2, find_callable sg c2 args kw = Ok m2 /\ Permutation m1 m2.
Proof. exact find_callable_perm. Qed.
Print Assumptions C12_resolve_order_independent.

(* Passing an argument without a cast is safe when (and, see Refuted.v, only when) the tuple
   shapes agree: subclass + same shape implies membership is preserved. *)
Theorem C12_subsumption :
  forall (sg : sig), sig_wf sg = true ->
  forall v vt pt, issub sg vt pt = true -> shape_ok pt vt = true ->
  has_type sg v vt = true -> has_type sg v pt = true.
Proof. exact has_type_sub. Qed.
Print Assumptions C12_subsumption.

(* The union type reported for UNION / ?? / IF over object types contains every value of
   either operand. *)
Theorem C12_union_type_sound :
  forall (sg : sig), sig_wf sg = true ->
  forall l r o i a, In a (obj_components l ++ obj_components r) -> ob_sub sg o a = true ->
  has_type sg (VObj o i) (union_type sg l r) = true.
Proof. exact union_type_sound_comp. Qed.
Print Assumptions C12_union_type_sound.

(* ---- facts about the signature table translated from the current edb/lib (re-checked against
   the regenerated Gen_StdSig.v on every run) ---- *)

(* the generated table is well-formed, so the theorems above apply to it *)
Theorem C12_std_sig_wf : sig_wf std_sig = true.
Proof. exact std_sig_wf. Qed.
Print Assumptions C12_std_sig_wf.

(* [std_scalar_ids] = the non-abstract scalar types of the std library; [ty_over ids t]: t is
   built over those scalars with arrays, tuples, named tuples, ranges / multiranges (of scalars),
   object types and pseudo types, at any nesting depth.
   The common implicitly-castable type used for set literals, UNION, ??, IF/ELSE, array literals
   and polymorphic parameters is an upper bound: when it exists, each operand is implicitly
   castable to it. *)
Theorem C12_std_common_type_upper_bound :
  forall a b c, ty_over std_scalar_ids a -> ty_over std_scalar_ids b ->
  find_common std_sig a b = Some c ->
  impl_castable std_sig a c = true /\ impl_castable std_sig b c = true.
Proof. exact std_common_type_upper_bound. Qed.
Print Assumptions C12_std_common_type_upper_bound.

(* ... and it does not depend on the order of the operands (scalars) ... *)
Theorem C12_std_common_symmetric :
  forall s q, In s std_scalar_ids -> In q std_scalar_ids ->
  find_common std_sig (TS s) (TS q) = find_common std_sig (TS q) (TS s).
Proof. exact std_common_symmetric. Qed.
Print Assumptions C12_std_common_symmetric.

(* ... nor on the order in which find_common_castable_type iterates over the set of cast
   targets (reverse and rotated orders give the same answer as table order) *)
Theorem C12_std_common_order_independent :
  forall s q, In s std_scalar_ids -> In q std_scalar_ids ->
  common_castable_g std_sig (@rev ty) cast_fuel (TS s) (TS q) = common_castable std_sig cast_fuel (TS s) (TS q) /\
  common_castable_g std_sig rot1 cast_fuel (TS s) (TS q) = common_castable std_sig cast_fuel (TS s) (TS q).
Proof. exact std_common_order_independent. Qed.
Print Assumptions C12_std_common_order_independent.

(* ---- non-vacuity: the hypotheses of C12_sound are satisfiable by a non-trivial semantics,
   and accepted expressions evaluate to non-empty, well-typed results under it ---- *)

Example C12_example_semantics_ok :
  (forall bc vals,
      Forall2 (fun vs b => typed std_sig (barg_target b) vs) vals (bc_args bc) ->
      typed std_sig (bc_ret bc) (prim_ex bc vals)) /\
  (forall a b v, typed std_sig b (castv_ex a b v)) /\
  (forall t v i, typed std_sig t (idxp_ex t v i)) /\
  (forall o, typed std_sig (TObj o) (db_ex o)).
Proof. exact example_semantics_ok. Qed.

(* {1, 2.5} : float64, both elements cast *)
Example C12_example_set :
  run std_sig s_int64 prim_ex castv_ex idxp_ex db_ex [] dbp_ex (ESet [ELit s_int64; ELit s_float64])
  = Ok (TS s_float64, true, [VS s_float64 0; VS s_float64 0]).
Proof. vm_compute. reflexivity. Qed.

(* (1, [1, 2.5]) : tuple<int64, array<float64>> *)
Example C12_example_tuple :
  run std_sig s_int64 prim_ex castv_ex idxp_ex db_ex [] dbp_ex
      (ETuple false [(0%N, ELit s_int64); (1%N, EArray [ELit s_int64; ELit s_float64])])
  = Ok (TTup false [(0%N, TS s_int64); (1%N, TArr (TS s_float64))], true,
        [VTup false [(0%N, VS s_int64 0); (1%N, VArr [VS s_float64 0; VS s_float64 0])]]).
Proof. vm_compute. reflexivity. Qed.

(* 1 + 2.5 : float64 through the (float64, float64) overload, left operand cast *)
Example C12_example_plus :
  run std_sig s_int64 prim_ex castv_ex idxp_ex db_ex [] dbp_ex (EOp c_PLUS [ELit s_int64; ELit s_float64])
  = Ok (TS s_float64, true, [VS s_float64 0]).
Proof. vm_compute. reflexivity. Qed.

(* array_agg({1, 2.5}) is accepted with type array<float64> *)
Example C12_example_array_agg :
  stmt_type_clean std_sig s_int64 [] (ECall c_array_agg [ESet [ELit s_int64; ELit s_float64]] [])
  = Ok (TArr (TS s_float64), true).
Proof. vm_compute. reflexivity. Qed.
