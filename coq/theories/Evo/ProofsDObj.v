(* Evo — the partition computed by the model of delta_objects (Model.dobj) *)
From Coq Require Import List NArith Bool Arith Lia.
From Verif.Evo Require Import Model ProofsBase.
Import ListNotations.

Definition ex (e : entry) : name := fst (fst e).
Definition ey (e : entry) : name := snd (fst e).

(* ---- sorting keeps the entries ---- *)
Lemma insert_sorted_In : forall e l a, In a (insert_sorted e l) <-> a = e \/ In a l.
Proof.
  induction l as [|h t IH]; simpl; intros a.
  - split; [intros [H|[]]; left; symmetry; exact H | intros [H|[]]; left; symmetry; exact H].
  - destruct (entry_leb e h); simpl.
    + split; [intros [H|H]; [left; symmetry; exact H | right; exact H] | intros [H|H]; [left; symmetry; exact H | right; exact H]].
    + rewrite IH. split.
      * intros [H|[H|H]]; [right; left; exact H | left; exact H | right; right; exact H].
      * intros [H|[H|H]]; [right; left; exact H | left; exact H | right; right; exact H].
Qed.

Lemma sort_entries_In : forall l a, In a (sort_entries l) <-> In a l.
Proof.
  induction l as [|h t IH]; simpl; intros a; [reflexivity|].
  rewrite insert_sorted_In, IH. split; intros [H|H]; auto.
Qed.

Lemma full_matrix_pairs : forall i e, In e (full_matrix i) -> In (ex e, ey e) (dpairs i).
Proof.
  intros i e H. unfold full_matrix in H. apply (proj1 (sort_entries_In _ _)) in H. apply in_map_iff in H.
  destruct H as [[x y] [He Hin]]. subst e. exact Hin.
Qed.

Lemma dpairs_spec : forall i x y, In (x, y) (dpairs i) ->
  In x (d_new i) /\ In y (d_old i) /\ (x <> y -> ~ In x (d_old i) /\ ~ In y (d_new i)).
Proof.
  intros i x y H. unfold dpairs in H. apply in_app_or in H. destruct H as [H|H].
  - apply in_map_iff in H. destruct H as [k [He Hk]]. inversion He. subst.
    apply filter_In in Hk. destruct Hk as [Hk1 Hk2]. apply memn_In in Hk2.
    split; [exact Hk2|]. split; [exact Hk1|]. intro Hne. contradiction Hne. reflexivity.
  - apply (proj1 (in_prod_iff _ _ _ _)) in H. destruct H as [Hx Hy].
    apply filter_In in Hx. destruct Hx as [Hx1 Hx2]. apply negb_true_iff, memn_false in Hx2.
    apply filter_In in Hy. destruct Hy as [Hy1 Hy2]. apply negb_true_iff, memn_false in Hy2.
    split; [exact Hx1|]. split; [exact Hy1|]. intros _. split; assumption.
Qed.

(* ---- the greedy matching is injective on both sides ---- *)
Lemma greedy_spec : forall m sx sy acc,
  NoDup (map ex acc) -> NoDup (map ey acc) ->
  (forall e, In e acc -> In (ex e) sx /\ In (ey e) sy) ->
  let r := greedy m sx sy acc in
  NoDup (map ex r) /\ NoDup (map ey r) /\ (forall e, In e r -> In e acc \/ In e m).
Proof.
  induction m as [|[[x y] s] t IH]; simpl; intros sx sy acc NX NY Hs.
  - split; [exact NX|]. split; [exact NY|]. intros e H. left. exact H.
  - destruct (negb (memn x sx) && negb (memn y sy)) eqn:E.
    + apply andb_true_iff in E. destruct E as [E1 E2]. apply negb_true_iff, memn_false in E1, E2.
      assert (NX' : NoDup (map ex (acc ++ [(x, y, s)]))).
      { rewrite map_app. simpl. apply NoDup_snoc; [exact NX|]. intro H. apply in_map_iff in H.
        destruct H as [e [He Hin]]. apply Hs in Hin. destruct Hin as [Hi1 Hi2]. change (ex e = x) in He. rewrite He in Hi1. exact (E1 Hi1). }
      assert (NY' : NoDup (map ey (acc ++ [(x, y, s)]))).
      { rewrite map_app. simpl. apply NoDup_snoc; [exact NY|]. intro H. apply in_map_iff in H.
        destruct H as [e [He Hin]]. apply Hs in Hin. destruct Hin as [Hi1 Hi2]. change (ey e = y) in He. rewrite He in Hi2. exact (E2 Hi2). }
      assert (Hs' : forall e, In e (acc ++ [(x, y, s)]) -> In (ex e) (x :: sx) /\ In (ey e) (y :: sy)).
      { intros e H. apply in_app_or in H. destruct H as [H|[H|[]]].
        - apply Hs in H. split; right; apply H.
        - subst e. split; left; reflexivity. }
      destruct (IH (x :: sx) (y :: sy) (acc ++ [(x, y, s)]) NX' NY' Hs') as [R1 [R2 R3]].
      split; [exact R1|]. split; [exact R2|]. intros e H. apply R3 in H. destruct H as [H|H].
      * apply in_app_or in H. destruct H as [H|[H|[]]]; [left; exact H | right; left; exact H].
      * right. right. exact H.
    + destruct (IH sx sy acc NX NY Hs) as [R1 [R2 R3]].
      split; [exact R1|]. split; [exact R2|]. intros e H. apply R3 in H. destruct H as [H|H]; [left; exact H | right; right; exact H].
Qed.

Lemma cm_spec : forall i,
  NoDup (map ex (comparison_map i)) /\ NoDup (map ey (comparison_map i)) /\
  (forall e, In e (comparison_map i) -> In (ex e, ey e) (dpairs i)).
Proof.
  intro i. unfold comparison_map.
  destruct (greedy_spec (full_matrix i) [] [] [] (NoDup_nil _) (NoDup_nil _) (fun e H => match H with end)) as [R1 [R2 R3]].
  split; [exact R1|]. split; [exact R2|]. intros e H. apply R3 in H. destruct H as [[]|H]. apply full_matrix_pairs. exact H.
Qed.

(* a selection of a list keeps NoDup of a projection *)
Lemma NoDup_select : forall {A} (f : A -> name) (g : A -> name * name) (sel : A -> bool) (pr : name * name -> name) l,
  (forall e, pr (g e) = f e) -> NoDup (map f l) ->
  NoDup (map pr (flat_map (fun e => if sel e then [g e] else []) l)).
Proof.
  intros A f g sel pr l Hg. induction l as [|h t IH]; simpl; intro ND; [constructor|].
  inversion ND as [|? ? Hn ND']. subst. destruct (sel h); simpl; [|apply IH; exact ND'].
  constructor; [|apply IH; exact ND'].
  rewrite Hg. intro H. apply Hn. apply in_map_iff in H. destruct H as [p [Hp Hin]].
  apply in_flat_map in Hin. destruct Hin as [e [He1 He2]]. destruct (sel e); [|contradiction].
  destruct He2 as [He2|[]]. subst p. rewrite Hg in Hp. apply in_map_iff. exists e. split; assumption.
Qed.

Definition paired (i : dinput) (e : entry) : bool :=
  match decide i e with Some _ => true | None => false end.

Lemma alter_pairs_eq : forall i,
  alter_pairs i = flat_map (fun e => if paired i e then [(ex e, ey e)] else []) (comparison_map i).
Proof.
  intro i. unfold alter_pairs, paired. apply flat_map_ext. intro e. destruct (decide i e); reflexivity.
Qed.

Lemma ap_in_cm : forall i x y, In (x, y) (alter_pairs i) ->
  exists e, In e (comparison_map i) /\ ex e = x /\ ey e = y /\ paired i e = true.
Proof.
  intros i x y H. rewrite alter_pairs_eq in H. apply in_flat_map in H. destruct H as [e [He1 He2]].
  destruct (paired i e) eqn:E; [|contradiction]. destruct He2 as [He2|[]]. inversion He2. exists e. auto.
Qed.

(* (c) the pairing is a partial bijection *)
Lemma p_pairs_injective : forall i, NoDup (map fst (alter_pairs i)) /\ NoDup (map snd (alter_pairs i)).
Proof.
  intro i. destruct (cm_spec i) as [R1 [R2 _]]. rewrite alter_pairs_eq. split.
  - apply (NoDup_select ex (fun e => (ex e, ey e)) (paired i) fst); [reflexivity | exact R1].
  - apply (NoDup_select ey (fun e => (ex e, ey e)) (paired i) snd); [reflexivity | exact R2].
Qed.

(* (d) pairs relate a new object to an old object; a name present on both sides is only
   ever paired with itself *)
Lemma p_pairs_wellformed : forall i x y, In (x, y) (alter_pairs i) ->
  In x (d_new i) /\ In y (d_old i) /\ (x <> y -> ~ In x (d_old i) /\ ~ In y (d_new i)).
Proof.
  intros i x y H. destruct (ap_in_cm i x y H) as [e [He [Hx [Hy _]]]].
  destruct (cm_spec i) as [_ [_ R3]]. specialize (R3 e He). rewrite Hx, Hy in R3. apply dpairs_spec. exact R3.
Qed.

(* (e) every alter command belongs to a pair *)
Lemma p_alter_is_pair : forall i y x c, In (DAlter y x c) (dobj i) -> In (x, y) (alter_pairs i).
Proof.
  intros i y x c H. unfold dobj in H. apply in_app_or in H. destruct H as [H|H].
  - unfold creates in H. apply in_flat_map in H. destruct H as [x' [_ H]].
    destruct (memn x' (map fst (alter_pairs i))); [contradiction|].
    destruct (can_create (d_guid i) x' && negb (memn x' (renames_x i))); [destruct H as [H|[]]; discriminate | contradiction].
  - apply in_app_or in H. destruct H as [H|H].
    + unfold alters in H. apply in_flat_map in H. destruct H as [e [He H]].
      destruct (decide i e) as [[c'|]|] eqn:E; try contradiction. destruct H as [H|[]]. inversion H. subst.
      unfold alter_pairs. apply in_flat_map. exists e. split; [exact He|]. rewrite E. left. reflexivity.
    + unfold deletes in H. apply in_flat_map in H. destruct H as [y' [_ H]].
      destruct (memn y' (map snd (alter_pairs i))); [contradiction|].
      destruct (can_delete (d_guid i) y' && negb (memn y' (renames_y i))); [destruct H as [H|[]]; discriminate | contradiction].
Qed.

Lemma create_in_dobj : forall i x c, In (DCreate x c) (dobj i) <-> In (DCreate x c) (creates i).
Proof.
  intros i x c. unfold dobj. split.
  - intro H. apply in_app_or in H. destruct H as [H|H]; [exact H|]. exfalso.
    apply in_app_or in H. destruct H as [H|H].
    + unfold alters in H. apply in_flat_map in H. destruct H as [e [_ H]].
      destruct (decide i e) as [[c'|]|]; try contradiction. destruct H as [H|[]]. discriminate.
    + unfold deletes in H. apply in_flat_map in H. destruct H as [y' [_ H]].
      destruct (memn y' (map snd (alter_pairs i))); [contradiction|].
      destruct (can_delete (d_guid i) y' && negb (memn y' (renames_y i))); [destruct H as [H|[]]; discriminate | contradiction].
  - intro H. apply in_or_app. left. exact H.
Qed.

Lemma delete_in_dobj : forall i y c, In (DDelete y c) (dobj i) <-> In (DDelete y c) (deletes i).
Proof.
  intros i y c. unfold dobj. split.
  - intro H. apply in_app_or in H. destruct H as [H|H].
    + exfalso. unfold creates in H. apply in_flat_map in H. destruct H as [x' [_ H]].
      destruct (memn x' (map fst (alter_pairs i))); [contradiction|].
      destruct (can_create (d_guid i) x' && negb (memn x' (renames_x i))); [destruct H as [H|[]]; discriminate | contradiction].
    + apply in_app_or in H. destruct H as [H|H]; [|exact H]. exfalso.
      unfold alters in H. apply in_flat_map in H. destruct H as [e [_ H]].
      destruct (decide i e) as [[c'|]|]; try contradiction. destruct H as [H|[]]. discriminate.
  - intro H. apply in_or_app. right. apply in_or_app. right. exact H.
Qed.

(* always (also with guidance / pre-decided renames): no object gets two commands *)
Lemma p_disjoint : forall i,
  (forall x c, In (DCreate x c) (dobj i) -> In x (d_new i) /\ ~ In x (map fst (alter_pairs i))) /\
  (forall y c, In (DDelete y c) (dobj i) -> In y (d_old i) /\ ~ In y (map snd (alter_pairs i))).
Proof.
  intro i. split.
  - intros x c H. apply (proj1 (create_in_dobj _ _ _)) in H. unfold creates in H. apply in_flat_map in H.
    destruct H as [x' [Hx' H]]. destruct (memn x' (map fst (alter_pairs i))) eqn:E; [contradiction|].
    destruct (can_create (d_guid i) x' && negb (memn x' (renames_x i))); [|contradiction].
    destruct H as [H|[]]. inversion H. subst. split; [exact Hx' | apply memn_false; exact E].
  - intros y c H. apply (proj1 (delete_in_dobj _ _ _)) in H. unfold deletes in H. apply in_flat_map in H.
    destruct H as [y' [Hy' H]]. destruct (memn y' (map snd (alter_pairs i))) eqn:E; [contradiction|].
    destruct (can_delete (d_guid i) y' && negb (memn y' (renames_y i))); [|contradiction].
    destruct H as [H|[]]. inversion H. subst. split; [exact Hy' | apply memn_false; exact E].
Qed.

(* (a)/(b): without guidance and pre-decided renames the output is a partition *)
Lemma p_partition : forall i, d_guid i = None -> d_ren i = [] ->
  (forall x, In x (d_new i) ->
     ((exists c, In (DCreate x c) (dobj i)) <-> ~ In x (map fst (alter_pairs i)))) /\
  (forall y, In y (d_old i) ->
     ((exists c, In (DDelete y c) (dobj i)) <-> ~ In y (map snd (alter_pairs i)))).
Proof.
  intros i Hg Hr. split.
  - intros x Hx. split.
    + intros [c H]. apply (proj1 (p_disjoint i) x c H).
    + intro Hn. apply memn_false in Hn.
      eexists. apply create_in_dobj. unfold creates. apply in_flat_map. exists x. split; [exact Hx|].
      rewrite Hn. unfold renames_x. rewrite Hr, Hg. simpl. left. reflexivity.
  - intros y Hy. split.
    + intros [c H]. apply (proj2 (p_disjoint i) y c H).
    + intro Hn. apply memn_false in Hn.
      eexists. apply delete_in_dobj. unfold deletes. apply in_flat_map. exists y. split; [exact Hy|].
      rewrite Hn. unfold renames_y. rewrite Hr, Hg. simpl. left. reflexivity.
Qed.

(* the alter decision: a command is emitted exactly for 0.6 < similarity < 1.0 (no guidance, no renames) *)
Lemma p_alter_threshold : forall i y x c, d_guid i = None -> d_ren i = [] ->
  In (DAlter y x c) (dobj i) ->
  exists s, In (x, y, s) (comparison_map i) /\ (60 < s)%N /\ (s < 100)%N.
Proof.
  intros i y x c Hg Hr H. unfold dobj in H. apply in_app_or in H. destruct H as [H|H].
  { exfalso. unfold creates in H. apply in_flat_map in H. destruct H as [x' [_ H]].
    destruct (memn x' (map fst (alter_pairs i))); [contradiction|].
    destruct (can_create (d_guid i) x' && negb (memn x' (renames_x i))); [destruct H as [H|[]]; discriminate | contradiction]. }
  apply in_app_or in H. destruct H as [H|H].
  - unfold alters in H. apply in_flat_map in H. destruct H as [[[x' y'] s] [He H]].
    destruct (decide i (x', y', s)) as [[c'|]|] eqn:E; try contradiction. destruct H as [H|[]].
    simpl in H. inversion H. subst x' y' c'. exists s. split; [exact He|].
    unfold decide in E. rewrite Hg in E. unfold renames_x in E. rewrite Hr in E. simpl in E.
    rewrite !andb_true_r, !orb_false_r in E.
    destruct (N.ltb 60 s && N.ltb s 100) eqn:E2.
    + apply andb_true_iff in E2. destruct E2 as [E2 E3]. apply N.ltb_lt in E2, E3. split; assumption.
    + destruct (N.eqb s 100); discriminate.
  - exfalso. unfold deletes in H. apply in_flat_map in H. destruct H as [y' [_ H]].
    destruct (memn y' (map snd (alter_pairs i))); [contradiction|].
    destruct (can_delete (d_guid i) y' && negb (memn y' (renames_y i))); [destruct H as [H|[]]; discriminate | contradiction].
Qed.
