(* Evo — corollaries used by C02/Props.v and C10/Props.v *)
From Coq Require Import List NArith Bool Arith Lia.
From Verif.C20 Require Import Model.
From Verif.Evo Require Import Model ProofsBase ProofsEvo.
Import ListNotations.

Definition sch_equiv (S T : schema) : Prop :=
  NoDup (names S) /\ NoDup (names T) /\ forall n, lookup n S = lookup n T.

Lemma wfb_parts : forall s, wfb s = true -> NoDup (names s) /\ closed s.
Proof.
  intros s H. unfold wfb in H. apply andb_true_iff in H. destruct H as [H1 H2].
  split; [apply nodupb_NoDup; exact H1 | apply closedb_closed; exact H2].
Qed.

(* the general statement: ANY command list with the partition property, in ANY order that
   respects the dependencies, turns A into exactly B *)
Lemma p_apply_partition : forall A B cs,
  NoDup (names A) -> wfb B = true ->
  partition_okb A B cs = true -> deps_okb A [] cs = true ->
  exists S, apply_all cs A = inl S /\ sch_equiv S B.
Proof.
  intros A B cs NDA WB HP HD. destruct (wfb_parts B WB) as [NDB CLB].
  destruct (apply_yields_target A B cs (partition_facts A B cs HP) HD NDA CLB) as [S [Ha [ND HS]]].
  exists S. split; [exact Ha|]. split; [exact ND|]. split; [exact NDB | exact HS].
Qed.

Lemma sch_eqb_complete : forall S T, sch_equiv S T -> sch_eqb S T = true.
Proof.
  intros S T [NS [NT H]]. unfold sch_eqb.
  rewrite (proj2 (nodupb_NoDup _) NS), (proj2 (nodupb_NoDup _) NT). simpl.
  apply andb_true_iff. split.
  - apply forallb_forall. intros [n o] Hin. simpl. rewrite <- H. rewrite (In_lookup n o S NS Hin). apply obj_eqb_refl.
  - apply forallb_forall. intros [n o] Hin. simpl. rewrite H. rewrite (In_lookup n o T NT Hin). apply obj_eqb_refl.
Qed.

Lemma sch_eqb_sound : forall S T, sch_eqb S T = true -> sch_equiv S T.
Proof.
  intros S T H. unfold sch_eqb in H.
  apply andb_true_iff in H. destruct H as [H H4]. apply andb_true_iff in H. destruct H as [H H3].
  apply andb_true_iff in H. destruct H as [H1 H2].
  apply nodupb_NoDup in H1, H2. rewrite forallb_forall in H3, H4.
  split; [exact H1|]. split; [exact H2|]. intro n.
  destruct (lookup n S) as [o|] eqn:E.
  - apply lookup_In in E. specialize (H3 _ E). simpl in H3. destruct (lookup n T); [|discriminate].
    apply obj_eqb_eq in H3. subst. reflexivity.
  - destruct (lookup n T) as [o|] eqn:E2; [|reflexivity].
    apply lookup_In in E2. specialize (H4 _ E2). simpl in H4. rewrite E in H4. discriminate.
Qed.

Lemma plan_sound : forall m A B cs, plan m A B = Plan cs ->
  wfb A = true /\ wfb B = true /\ valid_mb m A B = true /\
  partition_okb A B cs = true /\ deps_okb A [] cs = true.
Proof.
  intros m A B cs H. unfold plan in H.
  destruct (wfb A && wfb B && valid_mb m A B) eqn:E; simpl in H; [|discriminate].
  apply andb_true_iff in E. destruct E as [E E3]. apply andb_true_iff in E. destruct E as [E1 E2].
  destruct (sort_ex false (dep_graph A (diff m A B) (diff m A B) 0)); try discriminate.
  destruct (partition_okb A B (flat_map (nth_cmd (diff m A B)) o) && deps_okb A [] (flat_map (nth_cmd (diff m A B)) o)) eqn:E4;
    [|discriminate].
  inversion H. subst cs. apply andb_true_iff in E4. tauto.
Qed.

(* whichever valid matching the diff engine picks: the ordered diff applies and gives B *)
Lemma p_diff_apply : forall m A B cs, plan m A B = Plan cs ->
  exists S, apply_all cs A = inl S /\ sch_equiv S B.
Proof.
  intros m A B cs H. destruct (plan_sound m A B cs H) as [WA [WB [_ [HP HD]]]].
  apply p_apply_partition; auto. apply (wfb_parts A WA).
Qed.

Lemma p_migrate_ok : forall m A B S, migrate m A B = MigOk S -> sch_equiv S B.
Proof.
  intros m A B S H. unfold migrate in H. destruct (plan m A B) as [cs| |] eqn:E; try discriminate.
  destruct (p_diff_apply m A B cs E) as [S' [Ha He]]. rewrite Ha in H. inversion H. subst. exact He.
Qed.

Lemma p_migrate_no_error : forall m A B e, migrate m A B <> MigErr e.
Proof.
  intros m A B e H. unfold migrate in H. destruct (plan m A B) as [cs| |] eqn:E; try discriminate.
  destruct (p_diff_apply m A B cs E) as [S' [Ha He]]. rewrite Ha in H. discriminate.
Qed.

(* nothing of A that B does not contain is left behind; everything of B is there *)
Lemma p_nothing_left : forall S B, sch_equiv S B ->
  forall n, In n (names S) <-> In n (names B).
Proof.
  intros S B [_ [_ H]] n. split; intro Hin.
  - destruct (names_lookup _ _ Hin) as [o Ho]. rewrite H in Ho. eapply lookup_Some_names. exact Ho.
  - destruct (names_lookup _ _ Hin) as [o Ho]. rewrite <- H in Ho. eapply lookup_Some_names. exact Ho.
Qed.

(* ---------------- histories (C10) ---------------- *)
(* one accepted migration step from the ACTUAL current schema A to target B: the diff engine may
   pick any command list with the partition property, in any dependency-respecting order *)
Definition mstep (A B S : schema) : Prop :=
  wfb B = true /\ exists cs, partition_okb A B cs = true /\ deps_okb A [] cs = true /\ apply_all cs A = inl S.

Inductive chain : schema -> list schema -> schema -> Prop :=
| chain_nil : forall S, chain S [] S
| chain_cons : forall A B S rest S', mstep A B S -> chain S rest S' -> chain A (B :: rest) S'.

Lemma mstep_equiv : forall A B S, NoDup (names A) -> mstep A B S -> sch_equiv S B.
Proof.
  intros A B S ND [WB [cs [HP [HD Ha]]]].
  destruct (p_apply_partition A B cs ND WB HP HD) as [S' [Ha' He]]. rewrite Ha in Ha'. inversion Ha'. subst. exact He.
Qed.

Lemma chain_last : forall targets A S, NoDup (names A) -> chain A targets S ->
  targets <> [] -> sch_equiv S (last targets []).
Proof.
  induction targets as [|B rest IH]; intros A S ND Hc Hne; [contradiction Hne; reflexivity|].
  inversion Hc as [|? ? S1 ? ? Hs Hr]. subst.
  pose proof (mstep_equiv A B S1 ND Hs) as He.
  destruct rest as [|B2 rest'].
  - inversion Hr. subst. simpl. exact He.
  - change (last (B :: B2 :: rest') []) with (last (B2 :: rest') []).
    apply (IH S1 S); [apply He | exact Hr | discriminate].
Qed.

Lemma sch_equiv_trans_sym : forall S T U, sch_equiv S U -> sch_equiv T U -> sch_equiv S T.
Proof.
  intros S T U [N1 [N2 H1]] [N3 [_ H2]]. split; [exact N1|]. split; [exact N3|].
  intro n. rewrite H1, H2. reflexivity.
Qed.

(* step by step = direct *)
Lemma p_path_independent : forall targets S S',
  targets <> [] -> chain [] targets S -> mstep [] (last targets []) S' -> sch_equiv S S'.
Proof.
  intros targets S S' Hne Hc Hd.
  apply (sch_equiv_trans_sym S S' (last targets [])).
  - apply (chain_last targets [] S); [constructor | exact Hc | exact Hne].
  - apply (mstep_equiv [] _ S'); [constructor | exact Hd].
Qed.

(* any two histories that end in the same target agree *)
Lemma p_two_paths : forall t1 t2 S1 S2, t1 <> [] -> t2 <> [] -> last t1 [] = last t2 [] ->
  chain [] t1 S1 -> chain [] t2 S2 -> sch_equiv S1 S2.
Proof.
  intros t1 t2 S1 S2 H1 H2 HL C1 C2.
  apply (sch_equiv_trans_sym S1 S2 (last t1 [])).
  - apply (chain_last t1 [] S1); [constructor | exact C1 | exact H1].
  - rewrite HL. apply (chain_last t2 [] S2); [constructor | exact C2 | exact H2].
Qed.

(* a final migration to the empty schema removes everything *)
Lemma p_to_empty : forall A S, NoDup (names A) -> mstep A [] S -> S = [].
Proof.
  intros A S ND Hs. destruct (mstep_equiv A [] S ND Hs) as [_ [_ H]].
  destruct S as [|[k o] t]; [reflexivity|]. specialize (H k). simpl in H. rewrite N.eqb_refl in H. discriminate.
Qed.

Lemma chain_nodup : forall targets A S, NoDup (names A) -> chain A targets S -> NoDup (names S).
Proof.
  induction targets as [|B rest IH]; intros A S ND Hc; inversion Hc; subst; [exact ND|].
  match goal with Hs : mstep A B ?S1, Hr : chain ?S1 rest S |- _ =>
    apply (IH S1 S); [apply (mstep_equiv A B S1 ND Hs) | exact Hr] end.
Qed.

Lemma p_chain_then_empty : forall targets S S', chain [] targets S -> mstep S [] S' -> S' = [].
Proof.
  intros targets S S' Hc Hs. apply (p_to_empty S S'); [|exact Hs].
  apply (chain_nodup targets [] S); [constructor | exact Hc].
Qed.
