(* Evo — the command set induced by a valid matching has the partition property, and the
   property does not depend on the order of the commands *)
From Coq Require Import List NArith Bool Arith Lia Permutation.
From Verif.Evo Require Import Model ProofsBase ProofsEvo ProofsTop.
Import ListNotations.

Lemma m_old_of_In : forall x m y, m_old_of x m = Some y -> In (y, x) m.
Proof.
  induction m as [|[y' x'] t IH]; simpl; intros y H; [discriminate|].
  destruct (N.eqb x x') eqn:E.
  - apply N.eqb_eq in E. inversion H. subst. left. reflexivity.
  - right. apply IH. exact H.
Qed.

Lemma m_new_of_In : forall y m x, m_new_of y m = Some x -> In (y, x) m.
Proof.
  induction m as [|[y' x'] t IH]; simpl; intros x H; [discriminate|].
  destruct (N.eqb y y') eqn:E.
  - apply N.eqb_eq in E. inversion H. subst. left. reflexivity.
  - right. apply IH. exact H.
Qed.

Lemma In_m_old_of : forall m y x, NoDup (map snd m) -> In (y, x) m -> m_old_of x m = Some y.
Proof.
  induction m as [|[y' x'] t IH]; simpl; intros y x ND H; [contradiction|].
  inversion ND as [|? ? Hn ND']. subst. destruct H as [H|H].
  - inversion H. subst. rewrite N.eqb_refl. reflexivity.
  - destruct (N.eqb x x') eqn:E.
    + apply N.eqb_eq in E. subst. exfalso. apply Hn. change x' with (snd (y, x')). apply in_map. exact H.
    + apply IH; assumption.
Qed.

Lemma In_m_new_of : forall m y x, NoDup (map fst m) -> In (y, x) m -> m_new_of y m = Some x.
Proof.
  induction m as [|[y' x'] t IH]; simpl; intros y x ND H; [contradiction|].
  inversion ND as [|? ? Hn ND']. subst. destruct H as [H|H].
  - inversion H. subst. rewrite N.eqb_refl. reflexivity.
  - destruct (N.eqb y y') eqn:E.
    + apply N.eqb_eq in E. subst. exfalso. apply Hn. change y' with (fst (y', x)). apply in_map. exact H.
    + apply IH; assumption.
Qed.

Record validm (m : list (name * name)) (A B : schema) : Prop := {
  v_nd1 : NoDup (map fst m);
  v_nd2 : NoDup (map snd m);
  v_each : forall y x, In (y, x) m ->
     exists oy ox, lookup y A = Some oy /\ lookup x B = Some ox /\ o_cls oy = o_cls ox
                   /\ (y = x \/ (~ In x (names A) /\ ~ In y (names B))) }.

Lemma valid_mb_validm : forall m A B, valid_mb m A B = true -> validm m A B.
Proof.
  intros m A B H. unfold valid_mb in H.
  apply andb_true_iff in H. destruct H as [H H3]. apply andb_true_iff in H. destruct H as [H1 H2].
  apply nodupb_NoDup in H1, H2. rewrite forallb_forall in H3.
  constructor; [exact H1 | exact H2 |].
  intros y x Hin. specialize (H3 _ Hin). simpl in H3.
  destruct (lookup y A) as [oy|]; [|discriminate]. destruct (lookup x B) as [ox|]; [|discriminate].
  apply andb_true_iff in H3. destruct H3 as [H3 H4]. apply N.eqb_eq in H3.
  exists oy, ox. split; [reflexivity|]. split; [reflexivity|]. split; [exact H3|].
  apply orb_true_iff in H4. destruct H4 as [H4|H4].
  - apply N.eqb_eq in H4. left. exact H4.
  - apply andb_true_iff in H4. destruct H4 as [H4 H5]. apply negb_true_iff in H4, H5.
    apply memn_false in H4, H5. right. split; assumption.
Qed.

Section Diff.
Variables (m : list (name * name)) (A B : schema).
Hypothesis V : validm m A B.
Hypothesis NDA : NoDup (names A).
Hypothesis NDB : NoDup (names B).

Definition fB (p : name * obj) : cmd :=
  match m_old_of (fst p) m with Some y => Alter y (fst p) (snd p) | None => Create (fst p) (snd p) end.
Definition gA (p : name * obj) : list cmd :=
  match m_new_of (fst p) m with Some _ => [] | None => [Delete (fst p)] end.

Lemma diff_eq : diff m A B = map fB B ++ flat_map gA A.
Proof. reflexivity. Qed.

Lemma tgts_mapf : forall l, tgts (map fB l) = names l.
Proof.
  induction l as [|p t IH]; [reflexivity|]. simpl. rewrite tgts_cons. unfold fB at 1.
  destruct (m_old_of (fst p) m); simpl; rewrite IH; reflexivity.
Qed.

Lemma tgts_flatg : forall l, tgts (flat_map gA l) = [].
Proof.
  induction l as [|p t IH]; [reflexivity|]. simpl. rewrite tgts_app, IH, app_nil_r. unfold gA.
  destruct (m_new_of (fst p) m); reflexivity.
Qed.

Lemma tgts_diff : tgts (diff m A B) = names B.
Proof. rewrite diff_eq, tgts_app, tgts_mapf, tgts_flatg, app_nil_r. reflexivity. Qed.

Lemma In_srcs_mapf : forall l y, In y (srcs (map fB l)) -> exists x, In x (names l) /\ In (y, x) m.
Proof.
  induction l as [|p t IH]; simpl; intros y H; [contradiction|].
  rewrite srcs_cons in H. unfold fB in H at 1. destruct (m_old_of (fst p) m) as [y'|] eqn:E; simpl in H.
  - destruct H as [H|H].
    + subst y'. exists (fst p). split; [left; reflexivity | apply m_old_of_In; exact E].
    + destruct (IH y H) as [x [H1 H2]]. exists x. split; [right; exact H1 | exact H2].
  - destruct (IH y H) as [x [H1 H2]]. exists x. split; [right; exact H1 | exact H2].
Qed.

Lemma NoDup_srcs_mapf : forall l, NoDup (names l) -> NoDup (srcs (map fB l)).
Proof.
  induction l as [|p t IH]; simpl; intros ND; [constructor|].
  inversion ND as [|? ? Hn ND']. subst. rewrite srcs_cons. unfold fB at 1.
  destruct (m_old_of (fst p) m) as [y|] eqn:E; simpl; [|apply IH; exact ND'].
  constructor; [|apply IH; exact ND'].
  intro H. apply In_srcs_mapf in H. destruct H as [x [Hx Hm]].
  apply m_old_of_In in E.
  (* (y, fst p) and (y, x) in m with NoDup (map fst m): x = fst p *)
  pose proof (In_m_new_of m y x (v_nd1 _ _ _ V) Hm) as E1.
  pose proof (In_m_new_of m y (fst p) (v_nd1 _ _ _ V) E) as E2.
  rewrite E1 in E2. inversion E2. subst x. contradiction.
Qed.

Lemma In_srcs_flatg : forall l y, In y (srcs (flat_map gA l)) <-> In y (names l) /\ m_new_of y m = None.
Proof.
  induction l as [|p t IH]; simpl; intros y.
  - split; [intros [] | intros [[] _]].
  - rewrite srcs_app. rewrite in_app_iff, IH. unfold gA. destruct (m_new_of (fst p) m) eqn:E.
    + simpl. split.
      * intros [[]|[H1 H2]]. split; [right; exact H1 | exact H2].
      * intros [[H1|H1] H2]; [subst; congruence | right; split; assumption].
    + split.
      * intros [H|[H1 H2]].
        { unfold srcs, somes in H. simpl in H. destruct H as [H|[]]. subst. split; [left; reflexivity | exact E]. }
        { split; [right; exact H1 | exact H2]. }
      * intros [[H1|H1] H2]; [subst; left; unfold srcs, somes; simpl; left; reflexivity | right; split; assumption].
Qed.

Lemma NoDup_srcs_flatg : forall l, NoDup (names l) -> NoDup (srcs (flat_map gA l)).
Proof.
  induction l as [|p t IH]; simpl; intros ND; [constructor|].
  inversion ND as [|? ? Hn ND']. subst. rewrite srcs_app. unfold gA at 1.
  destruct (m_new_of (fst p) m); simpl; [apply IH; exact ND'|].
  unfold srcs at 1, somes at 1. simpl. constructor; [|apply IH; exact ND'].
  intro H. apply In_srcs_flatg in H. destruct H as [H _]. contradiction.
Qed.

Lemma NoDup_app_disj : forall (l1 l2 : list name), NoDup l1 -> NoDup l2 -> (forall a, In a l1 -> ~ In a l2) -> NoDup (l1 ++ l2).
Proof.
  induction l1 as [|h t IH]; simpl; intros l2 N1 N2 D; [exact N2|].
  inversion N1 as [|? ? Hn N1']. subst. constructor.
  - intro H. apply in_app_or in H. destruct H as [H|H]; [contradiction | apply (D h (or_introl eq_refl) H)].
  - apply IH; [exact N1' | exact N2 | intros a Ha; apply D; right; exact Ha].
Qed.

Lemma diff_facts : facts A B (diff m A B).
Proof.
  constructor.
  - rewrite tgts_diff. exact NDB.
  - rewrite diff_eq, srcs_app. apply NoDup_app_disj.
    + apply NoDup_srcs_mapf. exact NDB.
    + apply NoDup_srcs_flatg. exact NDA.
    + intros y H1 H2. apply In_srcs_mapf in H1. destruct H1 as [x [_ Hm]].
      apply In_srcs_flatg in H2. destruct H2 as [_ H2].
      rewrite (In_m_new_of m y x (v_nd1 _ _ _ V) Hm) in H2. discriminate.
  - intros x Hx. rewrite tgts_diff. exact Hx.
  - intros y Hy. rewrite diff_eq, srcs_app. apply in_or_app.
    destruct (m_new_of y m) as [x|] eqn:E.
    + left. apply m_new_of_In in E.
      destruct (v_each _ _ _ V y x E) as [oy [ox [_ [HxB _]]]].
      apply lookup_In in HxB. apply In_srcs. exists (Alter y x ox). split; [|reflexivity].
      apply in_map_iff. exists (x, ox). split; [|exact HxB]. unfold fB. simpl.
      rewrite (In_m_old_of m y x (v_nd2 _ _ _ V) E). reflexivity.
    + right. apply In_srcs_flatg. split; assumption.
  - intros x o H. rewrite diff_eq in H. apply in_app_or in H. destruct H as [H|H].
    + apply in_map_iff in H. destruct H as [[x' o'] [Hf Hin]]. unfold fB in Hf. simpl in Hf.
      destruct (m_old_of x' m); inversion Hf. subst. apply In_lookup; assumption.
    + apply in_flat_map in H. destruct H as [p [_ H]]. unfold gA in H. destruct (m_new_of (fst p) m); [contradiction|].
      destruct H as [H|[]]. discriminate.
  - intros y x o H. rewrite diff_eq in H. apply in_app_or in H. destruct H as [H|H].
    + apply in_map_iff in H. destruct H as [[x' o'] [Hf Hin]]. unfold fB in Hf. simpl in Hf.
      destruct (m_old_of x' m) as [y'|] eqn:E; inversion Hf. subst.
      apply m_old_of_In in E. destruct (v_each _ _ _ V y x E) as [oy [ox [HyA [HxB [Hc Hs]]]]].
      pose proof (In_lookup x o B NDB Hin) as HxB'. rewrite HxB in HxB'. inversion HxB'. subst ox.
      split; [exact HxB|]. split; [exists oy; split; assumption | exact Hs].
    + apply in_flat_map in H. destruct H as [p [_ H]]. unfold gA in H. destruct (m_new_of (fst p) m); [contradiction|].
      destruct H as [H|[]]. discriminate.
  - intros y H. rewrite diff_eq in H. apply in_app_or in H. destruct H as [H|H].
    + apply in_map_iff in H. destruct H as [[x' o'] [Hf _]]. unfold fB in Hf. simpl in Hf.
      destruct (m_old_of x' m); discriminate.
    + apply in_flat_map in H. destruct H as [p [Hp H]]. unfold gA in H. destruct (m_new_of (fst p) m); [contradiction|].
      destruct H as [H|[]]. inversion H. subst. change (In (fst p) (map fst A)). apply in_map. exact Hp.
Qed.
End Diff.

(* the partition facts do not depend on the order of the commands *)
Lemma somes_perm : forall {T} (l l' : list (option T)), Permutation l l' -> Permutation (somes l) (somes l').
Proof.
  intros T l l' H. induction H; simpl.
  - constructor.
  - unfold somes. simpl. apply Permutation_app_head. exact IHPermutation.
  - unfold somes. simpl. destruct x, y; simpl; try apply Permutation_refl. apply perm_swap.
  - eapply Permutation_trans; eassumption.
Qed.

Lemma facts_perm : forall A B cs cs', Permutation cs cs' -> facts A B cs -> facts A B cs'.
Proof.
  intros A B cs cs' P F.
  assert (PT : Permutation (tgts cs) (tgts cs')) by (unfold tgts; apply somes_perm, Permutation_map; exact P).
  assert (PS : Permutation (srcs cs) (srcs cs')) by (unfold srcs; apply somes_perm, Permutation_map; exact P).
  constructor.
  - eapply Permutation_NoDup; [exact PT | apply (f_ndt _ _ _ F)].
  - eapply Permutation_NoDup; [exact PS | apply (f_nds _ _ _ F)].
  - intros x Hx. eapply Permutation_in; [exact PT | apply (f_allB _ _ _ F); exact Hx].
  - intros y Hy. eapply Permutation_in; [exact PS | apply (f_allA _ _ _ F); exact Hy].
  - intros x o H. apply (f_create _ _ _ F). eapply Permutation_in; [apply Permutation_sym; exact P | exact H].
  - intros y x o H. apply (f_alter _ _ _ F). eapply Permutation_in; [apply Permutation_sym; exact P | exact H].
  - intros y H. apply (f_delete _ _ _ F). eapply Permutation_in; [apply Permutation_sym; exact P | exact H].
Qed.

(* for EVERY valid matching m and EVERY dependency-respecting order of the commands it induces,
   applying them to A yields exactly B *)
Lemma p_diff_any_order : forall m A B cs,
  wfb A = true -> wfb B = true -> valid_mb m A B = true ->
  Permutation cs (diff m A B) -> deps_okb A [] cs = true ->
  exists S, apply_all cs A = inl S /\ sch_equiv S B.
Proof.
  intros m A B cs WA WB VM P HD.
  destruct (wfb_parts A WA) as [NDA _]. destruct (wfb_parts B WB) as [NDB CLB].
  pose proof (diff_facts m A B (valid_mb_validm m A B VM) NDA NDB) as F.
  pose proof (facts_perm A B _ _ (Permutation_sym P) F) as F'.
  destruct (apply_yields_target A B cs F' HD NDA CLB) as [S [Ha [ND HS]]].
  exists S. split; [exact Ha|]. split; [exact ND|]. split; [exact NDB | exact HS].
Qed.
