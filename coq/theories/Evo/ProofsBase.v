(* Evo — basic lemmas about the list-based finite maps of Model.v *)
From Coq Require Import List NArith Bool Arith Lia.
From Verif.Evo Require Import Model.
Import ListNotations.

Lemma memn_In : forall k l, memn k l = true <-> In k l.
Proof.
  unfold memn. intros k l. rewrite existsb_exists. split.
  - intros [x [Hin He]]. apply N.eqb_eq in He. subst. exact Hin.
  - intro H. exists k. split; [exact H | apply N.eqb_refl].
Qed.

Lemma memn_false : forall k l, memn k l = false <-> ~ In k l.
Proof.
  intros k l. rewrite <- memn_In. destruct (memn k l).
  - split; intro H; [discriminate | exfalso; apply H; reflexivity].
  - split; intro H; [intro; discriminate | reflexivity].
Qed.

Lemma nodupb_NoDup : forall l, nodupb l = true <-> NoDup l.
Proof.
  induction l as [|h t IH]; simpl.
  - split; intro; [constructor | reflexivity].
  - rewrite andb_true_iff, negb_true_iff, memn_false, IH. split.
    + intros [H1 H2]. constructor; assumption.
    + intro H. inversion H. split; assumption.
Qed.

Lemma lookup_None : forall n s, lookup n s = None <-> ~ In n (names s).
Proof.
  induction s as [|[k o] t IH]; simpl.
  - split; [intros _ [] | reflexivity].
  - destruct (N.eqb n k) eqn:E.
    + apply N.eqb_eq in E. subst. split; [discriminate | intro H; exfalso; apply H; left; reflexivity].
    + apply N.eqb_neq in E. rewrite IH. split.
      * intros H [H1|H1]; [apply E; symmetry; exact H1 | exact (H H1)].
      * intros H H1. apply H. right. exact H1.
Qed.

Lemma lookup_Some_names : forall n s o, lookup n s = Some o -> In n (names s).
Proof.
  intros n s o H. destruct (in_dec N.eq_dec n (names s)) as [i|ni]; [exact i|].
  apply lookup_None in ni. congruence.
Qed.

Lemma names_lookup : forall n s, In n (names s) -> exists o, lookup n s = Some o.
Proof.
  intros n s H. destruct (lookup n s) eqn:E; [eauto|]. apply lookup_None in E. contradiction.
Qed.

Lemma lookup_In : forall n s o, lookup n s = Some o -> In (n, o) s.
Proof.
  induction s as [|[k o'] t IH]; simpl; intros o H; [discriminate|].
  destruct (N.eqb n k) eqn:E.
  - apply N.eqb_eq in E. inversion H. subst. left. reflexivity.
  - right. apply IH. exact H.
Qed.

Lemma In_lookup : forall n o s, NoDup (names s) -> In (n, o) s -> lookup n s = Some o.
Proof.
  induction s as [|[k o'] t IH]; simpl; intros ND H; [contradiction|].
  inversion ND as [|? ? Hn ND']. subst. destruct H as [H|H].
  - inversion H. subst. rewrite N.eqb_refl. reflexivity.
  - destruct (N.eqb n k) eqn:E.
    + apply N.eqb_eq in E. subst. exfalso. apply Hn. change (In (fst (k, o)) (map fst t)).
      apply in_map. exact H.
    + apply IH; assumption.
Qed.

Lemma lookup_app : forall n s t,
  lookup n (s ++ t) = match lookup n s with Some o => Some o | None => lookup n t end.
Proof.
  induction s as [|[k o] s IH]; simpl; intros t; [reflexivity|].
  destruct (N.eqb n k); [reflexivity | apply IH].
Qed.

Lemma names_app : forall s t, names (s ++ t) = names s ++ names t.
Proof. intros. unfold names. apply map_app. Qed.

(* remove *)
Lemma names_remove_incl : forall y s n, In n (names (remove y s)) -> In n (names s).
Proof.
  induction s as [|[k o] t IH]; simpl; intros n H; [exact H|].
  destruct (N.eqb y k); simpl in *; [right; exact H|].
  destruct H as [H|H]; [left; exact H | right; apply IH; exact H].
Qed.

Lemma NoDup_remove : forall y s, NoDup (names s) -> NoDup (names (remove y s)).
Proof.
  induction s as [|[k o] t IH]; simpl; intros ND; [exact ND|].
  inversion ND as [|? ? Hn ND']. subst.
  destruct (N.eqb y k); [exact ND'|]. simpl. constructor.
  - intro H. apply Hn. apply names_remove_incl in H. exact H.
  - apply IH. exact ND'.
Qed.

Lemma lookup_remove : forall y s n, NoDup (names s) ->
  lookup n (remove y s) = if N.eqb n y then None else lookup n s.
Proof.
  induction s as [|[k o] t IH]; simpl; intros n ND.
  - destruct (N.eqb n y); reflexivity.
  - inversion ND as [|? ? Hn ND']. subst.
    destruct (N.eqb y k) eqn:E.
    + apply N.eqb_eq in E. subst k.
      destruct (N.eqb n y) eqn:E2.
      * apply N.eqb_eq in E2. subst n. apply lookup_None. exact Hn.
      * reflexivity.
    + simpl. destruct (N.eqb n k) eqn:E2.
      * apply N.eqb_eq in E2. subst n. rewrite N.eqb_sym, E. reflexivity.
      * apply IH. exact ND'.
Qed.

(* set_obj *)
Lemma names_set_obj : forall x o s, names (set_obj x o s) = names s.
Proof.
  induction s as [|[k o'] t IH]; simpl; [reflexivity|].
  destruct (N.eqb x k); simpl; [reflexivity | rewrite IH; reflexivity].
Qed.

Lemma lookup_set_obj : forall x o s n,
  lookup n (set_obj x o s) =
  if N.eqb n x then (match lookup x s with Some _ => Some o | None => None end) else lookup n s.
Proof.
  induction s as [|[k o'] t IH]; simpl; intros n.
  - destruct (N.eqb n x); reflexivity.
  - destruct (N.eqb x k) eqn:E; simpl.
    + apply N.eqb_eq in E. subst k. destruct (N.eqb n x); reflexivity.
    + destruct (N.eqb n k) eqn:E2.
      * apply N.eqb_eq in E2. subst n. rewrite N.eqb_sym, E. reflexivity.
      * apply IH.
Qed.

(* rename_all *)
Lemma names_rename_all : forall y x s, names (rename_all y x s) = map (ren y x) (names s).
Proof.
  intros. unfold names, rename_all. rewrite !map_map. reflexivity.
Qed.

Lemma ren_neq : forall y x r, r <> y -> ren y x r = r.
Proof. intros. unfold ren. destruct (N.eqb r y) eqn:E; [apply N.eqb_eq in E; contradiction | reflexivity]. Qed.

Lemma ren_eq : forall y x, ren y x y = x.
Proof. intros. unfold ren. rewrite N.eqb_refl. reflexivity. Qed.

Lemma lookup_rename_all : forall y x s n, y <> x -> ~ In x (names s) ->
  lookup n (rename_all y x s) =
  if N.eqb n x then option_map (ren_obj y x) (lookup y s)
  else if N.eqb n y then None
  else option_map (ren_obj y x) (lookup n s).
Proof.
  induction s as [|[k o] t IH]; intros n Hyx Hx.
  - simpl. destruct (N.eqb n x); [reflexivity|]. destruct (N.eqb n y); reflexivity.
  - assert (Hk : k <> x) by (intro; apply Hx; left; assumption).
    assert (Hx' : ~ In x (names t)) by (intro; apply Hx; right; assumption).
    specialize (IH n Hyx Hx').
    change (rename_all y x ((k, o) :: t)) with ((ren y x k, ren_obj y x o) :: rename_all y x t).
    cbn [lookup]. rewrite IH. clear IH.
    destruct (N.eq_dec k y) as [Eky|Eky].
    + subst k. rewrite ren_eq. rewrite (N.eqb_refl y).
      destruct (N.eqb n x) eqn:Enx; [reflexivity|].
      destruct (N.eqb n y) eqn:Eny; reflexivity.
    + rewrite (ren_neq y x k Eky).
      assert (E3 : N.eqb y k = false) by (apply N.eqb_neq; intro; apply Eky; symmetry; assumption).
      rewrite E3.
      destruct (N.eqb n k) eqn:Enk; [|reflexivity].
      apply N.eqb_eq in Enk. subst n.
      assert (E1 : N.eqb k x = false) by (apply N.eqb_neq; exact Hk).
      assert (E2 : N.eqb k y = false) by (apply N.eqb_neq; exact Eky).
      rewrite E1, E2. reflexivity.
Qed.

Lemma NoDup_map_ren : forall y x l, NoDup l -> ~ In x l -> NoDup (map (ren y x) l).
Proof.
  induction l as [|h t IH]; simpl; intros ND Hx; [constructor|].
  inversion ND as [|? ? Hn ND']. subst. constructor.
  - intro H. apply in_map_iff in H. destruct H as [z [Hz Hin]].
    unfold ren in Hz. destruct (N.eqb z y) eqn:E1; destruct (N.eqb h y) eqn:E2.
    + apply N.eqb_eq in E1, E2. subst. contradiction.
    + subst. apply Hx. left. reflexivity.
    + subst. apply Hx. right. exact Hin.
    + subst. contradiction.
  - apply IH; [exact ND' | intro; apply Hx; right; assumption].
Qed.

Lemma first_missing_None : forall l ns, first_missing l ns = None <-> forall r, In r l -> In r ns.
Proof.
  induction l as [|h t IH]; simpl; intros ns.
  - split; [intros _ r [] | reflexivity].
  - destruct (memn h ns) eqn:E.
    + apply memn_In in E. rewrite IH. split.
      * intros H r [Hr|Hr]; [subst; exact E | apply H; exact Hr].
      * intros H r Hr. apply H. right. exact Hr.
    + apply memn_false in E. split; [discriminate|]. intro H. exfalso. apply E. apply H. left. reflexivity.
Qed.

Lemma first_referrer_None : forall y s,
  first_referrer y s = None <-> forall z oz, In (z, oz) s -> z <> y -> ~ In y (o_refs oz).
Proof.
  induction s as [|[k o] t IH]; simpl.
  - split; [intros _ z oz [] | reflexivity].
  - destruct (negb (N.eqb k y) && memn y (o_refs o)) eqn:E.
    + apply andb_true_iff in E. destruct E as [E1 E2]. apply negb_true_iff, N.eqb_neq in E1.
      apply memn_In in E2. split; [discriminate|]. intro H. exfalso. apply (H k o); [left; reflexivity | exact E1 | exact E2].
    + rewrite IH. split.
      * intros H z oz [Hz|Hz] Hne.
        { inversion Hz. subst. apply andb_false_iff in E. destruct E as [E|E].
          - apply negb_false_iff, N.eqb_eq in E. contradiction.
          - apply memn_false in E. exact E. }
        { apply (H z oz); assumption. }
      * intros H z oz Hz. apply (H z oz). right. exact Hz.
Qed.

Lemma obj_eqb_eq : forall a b, obj_eqb a b = true -> a = b.
Proof.
  intros [c1 d1 r1] [c2 d2 r2]. unfold obj_eqb. simpl. intro H.
  apply andb_true_iff in H. destruct H as [H H4]. apply andb_true_iff in H. destruct H as [H H3].
  apply andb_true_iff in H. destruct H as [H1 H2].
  apply N.eqb_eq in H1, H2. apply Nat.eqb_eq in H3. subst. f_equal.
  revert r2 H3 H4. induction r1 as [|h t IH]; intros [|h2 t2] H3 H4; simpl in *; try discriminate; [reflexivity|].
  apply andb_true_iff in H4. destruct H4 as [Hh Ht]. apply N.eqb_eq in Hh. subst. f_equal.
  apply IH; [lia | exact Ht].
Qed.

Lemma obj_eqb_refl : forall a, obj_eqb a a = true.
Proof.
  intros [c d r]. unfold obj_eqb. simpl. rewrite !N.eqb_refl, Nat.eqb_refl. simpl.
  induction r as [|h t IH]; simpl; [reflexivity|]. rewrite N.eqb_refl. exact IH.
Qed.

Lemma NoDup_snoc : forall (l : list name) x, NoDup l -> ~ In x l -> NoDup (l ++ [x]).
Proof.
  induction l as [|h t IH]; simpl; intros x ND Hx.
  - constructor; [intros [] | constructor].
  - inversion ND as [|? ? Hn ND']. subst. constructor.
    + intro H. apply in_app_or in H. destruct H as [H|[H|[]]]; [contradiction | subst; apply Hx; left; reflexivity].
    + apply IH; [exact ND' | intro; apply Hx; right; assumption].
Qed.
