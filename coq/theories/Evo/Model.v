(* Evo — shared model of the schema-evolution family (C02, C10).
   Executable definitions only; proofs in Proofs*.v, statements in C02/Props.v, C10/Props.v.

   Part I  (DObj)  a transliteration of edb/schema/delta.py::delta_objects: the similarity
           matrix, the greedy matching and the create / alter / delete partition, with the
           similarity function, the pre-decided renames and the guidance as inputs (the
           heuristic `compare` is an oracle).  Tied to the source by correspondence: the real
           delta_objects runs on stub objects with a scripted compare (harness/impl/c02_impl.py
           mode dobj) and must print exactly what [dobj] computes.
   Part II (Evo)   an abstract schema = finite map name -> (class, data, referenced names);
           commands Create / Alter(+rename) / Delete with the applicability conditions of the real
           commands (exists / does not exist / dangling reference / still referenced / class
           change); [diff m A B] for an arbitrary matching m; a dependency order computed with the
           C20 model of edb/common/topological.py and validated by [deps_okb]; [apply_all].
           The real per-class diff / ordering / apply code (~40 object classes) is NOT modelled
           here; it is checked by differential monitors on the real code. *)
From Coq Require Import List NArith Bool Arith.
From Verif.C20 Require Import Model.
Import ListNotations.

Definition name := N.
Definition memn (k : name) (l : list name) : bool := existsb (N.eqb k) l.

(* =========================================================================== *)
(* Part I — delta_objects                                                      *)
(* =========================================================================== *)

(* similarities and confidences are in hundredths: 100 = 1.0, 60 = 0.6 *)
Inductive pconf := PNone | POne | POther.          (* parent_confidence: None / 1.0 / anything else *)

Record guidance := { banned_c : list name;                 (* banned_creations *)
                     banned_a : list (name * name);        (* banned_alters (old, new) *)
                     banned_d : list name }.               (* banned_deletions *)

Record dinput := {
  d_old : list name;                              (* old.keys(), dict order, distinct *)
  d_new : list name;                              (* new.keys() *)
  d_sim : list ((name * name) * N);               (* (x, y) -> y.compare(x) *)
  d_sub : list ((name * name) * list (option N)); (* (x, y) -> confidence annotations of the alter's
                                                     ObjectCommand subcommands *)
  d_ren : list (name * name);                     (* context.renames restricted to this class: old -> new *)
  d_guid : option guidance;
  d_pc : pconf }.

Inductive dop := DCreate (x : name) (conf : N)
               | DAlter (y x : name) (conf : N)
               | DDelete (y : name) (conf : N).

Definition pair_eqb (a b : name * name) : bool := N.eqb (fst a) (fst b) && N.eqb (snd a) (snd b).

Fixpoint assoc {V} (k : name * name) (l : list ((name * name) * V)) : option V :=
  match l with
  | [] => None
  | (k', v) :: t => if pair_eqb k k' then Some v else assoc k t
  end.

Definition can_create (g : option guidance) (x : name) : bool :=
  match g with None => true | Some g => negb (memn x (banned_c g)) end.
Definition can_delete (g : option guidance) (y : name) : bool :=
  match g with None => true | Some g => negb (memn y (banned_d g)) end.
Definition can_alter (g : option guidance) (y x : name) : bool :=
  match g with None => true | Some g => negb (existsb (pair_eqb (y, x)) (banned_a g)) end.

(* pairs = same-name pairs (in old order) ++ product(new-only, old-only) *)
Definition dpairs (i : dinput) : list (name * name) :=
  map (fun k => (k, k)) (filter (fun k => memn k (d_new i)) (d_old i))
  ++ list_prod (filter (fun k => negb (memn k (d_old i))) (d_new i))
               (filter (fun k => negb (memn k (d_new i))) (d_old i)).

Definition raw_sim (i : dinput) (x y : name) : N :=
  match assoc (x, y) (d_sim i) with Some s => s | None => 0%N end.

(* similarity after the guidance clamp *)
Definition eff_sim (i : dinput) (x y : name) : N :=
  let s := raw_sim i x y in
  if N.ltb s 100 && negb (can_alter (d_guid i) y x) then 0%N else s.

Definition entry := (name * name * N)%type.   (* x, y, similarity *)

(* sort key (1.0 - sim, str(x), str(y)); names are compared as numbers (the harness uses
   zero-padded names so that string order = numeric order) *)
Definition entry_leb (a b : entry) : bool :=
  let '(xa, ya, sa) := a in
  let '(xb, yb, sb) := b in
  if N.ltb sb sa then true                       (* higher similarity first *)
  else if N.ltb sa sb then false
  else if N.ltb xa xb then true
  else if N.ltb xb xa then false
  else N.leb ya yb.

Fixpoint insert_sorted (e : entry) (l : list entry) : list entry :=
  match l with
  | [] => [e]
  | h :: t => if entry_leb e h then e :: l else h :: insert_sorted e t
  end.
Definition sort_entries (l : list entry) : list entry := fold_right insert_sorted [] l.

Definition full_matrix (i : dinput) : list entry :=
  sort_entries (map (fun p => (fst p, snd p, eff_sim i (fst p) (snd p))) (dpairs i)).

(* full_matrix_x[x] / full_matrix_y[y]: first entry of the sorted matrix for that object *)
Fixpoint first_x (x : name) (m : list entry) : option N :=
  match m with
  | [] => None
  | (x', _, s) :: t => if N.eqb x x' then Some s else first_x x t
  end.
Fixpoint first_y (y : name) (m : list entry) : option N :=
  match m with
  | [] => None
  | (_, y', s) :: t => if N.eqb y y' then Some s else first_y y t
  end.

(* the greedy "top similarity pairs" loop: comparison_map in insertion order *)
Fixpoint greedy (m : list entry) (seen_x seen_y : list name) (acc : list entry) : list entry :=
  match m with
  | [] => acc
  | (x, y, s) :: t =>
      if negb (memn x seen_x) && negb (memn y seen_y)
      then greedy t (x :: seen_x) (y :: seen_y) (acc ++ [(x, y, s)])
      else greedy t seen_x seen_y acc
  end.
Definition comparison_map (i : dinput) : list entry := greedy (full_matrix i) [] [] [].

Definition opt_ne100 (o : option N) : bool :=
  match o with Some s => negb (N.eqb s 100) | None => true end.

(* x_alter_variants[x]: number of matrix entries (x, y) with can_alter and neither side's
   best similarity equal to 1.0 *)
Definition variant_entry (i : dinput) (m : list entry) (e : entry) : bool :=
  let '(x, y, _) := e in
  can_alter (d_guid i) y x && opt_ne100 (first_x x m) && opt_ne100 (first_y y m).
Definition x_variants (i : dinput) (x : name) : nat :=
  let m := full_matrix i in
  length (filter (fun e => N.eqb (fst (fst e)) x && variant_entry i m e) m).
Definition y_variants (i : dinput) (y : name) : nat :=
  let m := full_matrix i in
  length (filter (fun e => N.eqb (snd (fst e)) y && variant_entry i m e) m).

Definition renames_x (i : dinput) : list name :=
  map snd (filter (fun r => memn (fst r) (d_old i)) (d_ren i)).
Definition renames_y (i : dinput) : list name :=
  map fst (filter (fun r => memn (fst r) (d_old i)) (d_ren i)).

Definition pc_is_one (p : pconf) : bool := match p with POne => true | _ => false end.

Fixpoint min_conf (acc : N) (l : list (option N)) : N :=
  match l with
  | [] => acc
  | Some c :: t => min_conf (N.min acc c) t
  | None :: t => min_conf acc t
  end.

(* decision for one entry of comparison_map: Some (Some conf) = alter command with that
   confidence; Some None = paired without a command (identical); None = not paired *)
Definition decide (i : dinput) (e : entry) : option (option N) :=
  let '(x, y, conf) := e in
  let g := d_guid i in
  let inren := memn x (renames_x i) in
  let already_has := N.eqb x y && negb inren in
  if (N.ltb 60 conf && N.ltb conf 100 && can_alter g y x)
     || ((negb (can_create g x) || negb (can_delete g y)) && can_alter g y x)
     || inren
  then
    let keep := (Nat.ltb 1 (x_variants i x) || (negb already_has && can_create g x))
                && negb (pc_is_one (d_pc i)) in
    if keep then Some (Some conf)
    else Some (Some (min_conf 100 (match assoc (x, y) (d_sub i) with Some l => l | None => [] end)))
  else if N.eqb conf 100 then Some None
  else None.

Definition alter_pairs (i : dinput) : list (name * name) :=
  flat_map (fun e => match decide i e with Some _ => [(fst (fst e), snd (fst e))] | None => [] end)
           (comparison_map i).

Definition alters (i : dinput) : list dop :=
  flat_map (fun e => match decide i e with
                     | Some (Some c) => [DAlter (snd (fst e)) (fst (fst e)) c]
                     | _ => [] end)
           (comparison_map i).

Definition creates (i : dinput) : list dop :=
  let ap := alter_pairs i in
  flat_map (fun x =>
    if memn x (map fst ap) then []
    else if can_create (d_guid i) x && negb (memn x (renames_x i)) then
      [DCreate x (if Nat.ltb 0 (x_variants i x) && negb (pc_is_one (d_pc i))
                  then match first_x x (full_matrix i) with Some s => s | None => 100%N end
                  else 100%N)]
    else []) (d_new i).

Definition deletes (i : dinput) : list dop :=
  let ap := alter_pairs i in
  flat_map (fun y =>
    if memn y (map snd ap) then []
    else if can_delete (d_guid i) y && negb (memn y (renames_y i)) then
      [DDelete y (if Nat.ltb 0 (y_variants i y) && negb (pc_is_one (d_pc i))
                  then match first_y y (full_matrix i) with Some s => s | None => 100%N end
                  else 100%N)]
    else []) (d_old i).

(* delta.add(create)...; delta.update(alters); delta.add(delete)... *)
Definition dobj (i : dinput) : list dop := creates i ++ alters i ++ deletes i.

(* =========================================================================== *)
(* Part II — abstract schemas, commands, diff, order, apply                    *)
(* =========================================================================== *)

Record obj := mkObj { o_cls : N; o_data : N; o_refs : list name }.
Definition schema := list (name * obj).

Definition names (s : schema) : list name := map fst s.

Fixpoint lookup (n : name) (s : schema) : option obj :=
  match s with
  | [] => None
  | (k, o) :: t => if N.eqb n k then Some o else lookup n t
  end.

Fixpoint nodupb (l : list name) : bool :=
  match l with [] => true | h :: t => negb (memn h t) && nodupb t end.

Definition closedb (s : schema) : bool :=
  forallb (fun p => forallb (fun r => memn r (names s)) (o_refs (snd p))) s.

(* a valid abstract schema: distinct names, every referenced name exists *)
Definition wfb (s : schema) : bool := nodupb (names s) && closedb s.

Inductive cmd :=
| Create (x : name) (o : obj)            (* CREATE x { o } *)
| Alter (y x : name) (o : obj)           (* ALTER y { RENAME TO x; set content o } ; y = x: no rename *)
| Delete (y : name).                     (* DROP y *)

Inductive err :=
| EExists (n : name)                     (* "already exists" *)
| EMissing (n : name)                    (* "does not exist" *)
| EDangling (n r : name)                 (* n refers to r which does not exist *)
| EReferenced (y z : name)               (* "cannot drop y because other objects (z) depend on it" *)
| EClass (n : name).                     (* an alter cannot change the class *)

Definition ren (y x r : name) : name := if N.eqb r y then x else r.
Definition ren_obj (y x : name) (o : obj) : obj :=
  mkObj (o_cls o) (o_data o) (map (ren y x) (o_refs o)).
(* a rename is by identity: every reference follows *)
Definition rename_all (y x : name) (s : schema) : schema :=
  map (fun p => (ren y x (fst p), ren_obj y x (snd p))) s.

Fixpoint set_obj (x : name) (o : obj) (s : schema) : schema :=
  match s with
  | [] => []
  | (k, o') :: t => if N.eqb x k then (k, o) :: t else (k, o') :: set_obj x o t
  end.

Fixpoint remove (y : name) (s : schema) : schema :=
  match s with
  | [] => []
  | (k, o) :: t => if N.eqb y k then t else (k, o) :: remove y t
  end.

Fixpoint first_missing (l : list name) (ns : list name) : option name :=
  match l with
  | [] => None
  | r :: t => if memn r ns then first_missing t ns else Some r
  end.

Fixpoint first_referrer (y : name) (s : schema) : option name :=
  match s with
  | [] => None
  | (z, oz) :: t => if negb (N.eqb z y) && memn y (o_refs oz) then Some z else first_referrer y t
  end.

Definition apply_cmd (s : schema) (c : cmd) : schema + err :=
  match c with
  | Create x o =>
      if memn x (names s) then inr (EExists x)
      else match first_missing (o_refs o) (names s) with
           | Some r => inr (EDangling x r)
           | None => inl (s ++ [(x, o)])
           end
  | Alter y x o =>
      match lookup y s with
      | None => inr (EMissing y)
      | Some oy =>
          if negb (N.eqb y x) && memn x (names s) then inr (EExists x)
          else if negb (N.eqb (o_cls oy) (o_cls o)) then inr (EClass y)
          else
            let s1 := if N.eqb y x then s else rename_all y x s in
            match first_missing (o_refs o) (names s1) with
            | Some r => inr (EDangling x r)
            | None => inl (set_obj x o s1)
            end
      end
  | Delete y =>
      match lookup y s with
      | None => inr (EMissing y)
      | Some _ =>
          match first_referrer y s with
          | Some z => inr (EReferenced y z)
          | None => inl (remove y s)
          end
      end
  end.

Fixpoint apply_all (cs : list cmd) (s : schema) : schema + err :=
  match cs with
  | [] => inl s
  | c :: t => match apply_cmd s c with inl s' => apply_all t s' | inr e => inr e end
  end.

(* ---- the command set induced by a matching m : list (old name, new name) ---- *)
Fixpoint m_old_of (x : name) (m : list (name * name)) : option name :=
  match m with [] => None | (y, x') :: t => if N.eqb x x' then Some y else m_old_of x t end.
Fixpoint m_new_of (y : name) (m : list (name * name)) : option name :=
  match m with [] => None | (y', x) :: t => if N.eqb y y' then Some x else m_new_of y t end.

Definition diff (m : list (name * name)) (A B : schema) : list cmd :=
  map (fun p => match m_old_of (fst p) m with
                | Some y => Alter y (fst p) (snd p)
                | None => Create (fst p) (snd p) end) B
  ++ flat_map (fun p => match m_new_of (fst p) m with
                        | Some _ => []
                        | None => [Delete (fst p)] end) A.

(* a valid matching: a class-preserving partial bijection between old and new names; a name
   present on both sides is only ever matched with itself (delta_objects guarantees that) *)
Definition valid_mb (m : list (name * name)) (A B : schema) : bool :=
  nodupb (map fst m) && nodupb (map snd m)
  && forallb (fun p =>
       match lookup (fst p) A, lookup (snd p) B with
       | Some oy, Some ox =>
           N.eqb (o_cls oy) (o_cls ox)
           && (N.eqb (fst p) (snd p)
               || (negb (memn (snd p) (names A)) && negb (memn (fst p) (names B))))
       | _, _ => false
       end) m.

(* ---- the partition property (what delta_objects' output must satisfy), as a checker ---- *)
Definition tgt (c : cmd) : option name :=
  match c with Create x _ => Some x | Alter _ x _ => Some x | Delete _ => None end.
Definition src (c : cmd) : option name :=
  match c with Create _ _ => None | Alter y _ _ => Some y | Delete y => Some y end.
Definition somes {A} (l : list (option A)) : list A :=
  flat_map (fun o => match o with Some a => [a] | None => [] end) l.
Definition tgts (cs : list cmd) : list name := somes (map tgt cs).
Definition srcs (cs : list cmd) : list name := somes (map src cs).

Definition obj_eqb (a b : obj) : bool :=
  N.eqb (o_cls a) (o_cls b) && N.eqb (o_data a) (o_data b)
  && (Nat.eqb (length (o_refs a)) (length (o_refs b)))
  && forallb (fun p => N.eqb (fst p) (snd p)) (combine (o_refs a) (o_refs b)).

Definition cmd_okb (A B : schema) (c : cmd) : bool :=
  match c with
  | Create x o => match lookup x B with Some ob => obj_eqb o ob | None => false end
  | Alter y x o =>
      match lookup x B, lookup y A with
      | Some ob, Some oy =>
          obj_eqb o ob && N.eqb (o_cls oy) (o_cls o)
          && (N.eqb y x || (negb (memn x (names A)) && negb (memn y (names B))))
      | _, _ => false
      end
  | Delete y => memn y (names A)
  end.

(* every new object is created xor altered-from exactly one old object; every old object is
   altered xor deleted; contents are the target's *)
Definition partition_okb (A B : schema) (cs : list cmd) : bool :=
  nodupb (tgts cs) && nodupb (srcs cs)
  && forallb (fun x => memn x (tgts cs)) (names B)
  && forallb (fun y => memn y (srcs cs)) (names A)
  && forallb (cmd_okb A B) cs.

(* ---- dependency order ---- *)
Definition has_tgt (r : name) (done : list cmd) : bool := memn r (tgts done).
Definition has_src (z : name) (done : list cmd) : bool := memn z (srcs done).
Definition cmd_eq_delete (y : name) (c : cmd) : bool :=
  match c with Delete y' => N.eqb y y' | _ => false end.

(* may c run after exactly the commands in done?  (K1) every referenced new name has been
   produced; (K2) every old referrer of a deleted object has been processed; (K3) a name is
   re-created only after its old owner was dropped *)
Definition readyb (A : schema) (done : list cmd) (c : cmd) : bool :=
  match c with
  | Create x o =>
      forallb (fun r => has_tgt r done) (o_refs o)
      && (negb (memn x (names A)) || existsb (cmd_eq_delete x) done)
  | Alter y x o =>
      forallb (fun r => N.eqb r x || has_tgt r done) (o_refs o)
  | Delete y =>
      forallb (fun p => N.eqb (fst p) y || negb (memn y (o_refs (snd p))) || has_src (fst p) done) A
  end.

Fixpoint deps_okb (A : schema) (done cs : list cmd) : bool :=
  match cs with
  | [] => true
  | c :: t => readyb A done c && deps_okb A (done ++ [c]) t
  end.

(* the dependency graph handed to the C20 sort: node i = i-th command of the unordered diff *)
Fixpoint index_where (f : cmd -> bool) (cs : list cmd) (i : N) : list N :=
  match cs with
  | [] => []
  | c :: t => (if f c then [i] else []) ++ index_where f t (N.succ i)
  end.

Definition cmd_deps (A : schema) (all : list cmd) (c : cmd) : list N :=
  match c with
  | Create x o =>
      flat_map (fun r => index_where (fun d => match tgt d with Some t => N.eqb t r | None => false end) all 0%N)
               (o_refs o)
      ++ index_where (cmd_eq_delete x) all 0%N
  | Alter y x o =>
      flat_map (fun r => if N.eqb r x then []
                         else index_where (fun d => match tgt d with Some t => N.eqb t r | None => false end) all 0%N)
               (o_refs o)
  | Delete y =>
      flat_map (fun p => if N.eqb (fst p) y || negb (memn y (o_refs (snd p))) then []
                         else index_where (fun d => match src d with Some s => N.eqb s (fst p) | None => false end) all 0%N)
               A
  end.

Fixpoint dep_graph (A : schema) (all rest : list cmd) (i : N) : rgraph :=
  match rest with
  | [] => []
  | c :: t => (i, {| r_weak := []; r_merge := None; r_deps := cmd_deps A all c; r_lctl := [] |})
              :: dep_graph A all t (N.succ i)
  end.

Definition nth_cmd (cs : list cmd) (i : N) : list cmd :=
  match nth_error cs (N.to_nat i) with Some c => [c] | None => [] end.

Inductive plan_result :=
| Plan (cs : list cmd)
| PlanCycle                    (* the dependency graph is cyclic: no single-command-per-object order *)
| PlanInvalid.                 (* m is not a valid matching / schemas not well formed / order check failed *)

Definition plan (m : list (name * name)) (A B : schema) : plan_result :=
  if negb (wfb A && wfb B && valid_mb m A B) then PlanInvalid
  else
    let all := diff m A B in
    match sort_ex false (dep_graph A all all 0%N) with
    | Sorted o =>
        let cs := flat_map (nth_cmd all) o in
        if partition_okb A B cs && deps_okb A [] cs then Plan cs else PlanInvalid
    | Cycle _ => PlanCycle
    | _ => PlanInvalid
    end.

(* migrate: compute the plan and apply it *)
Inductive mig_result := MigOk (s : schema) | MigErr (e : err) | MigCycle | MigInvalid.
Definition migrate (m : list (name * name)) (A B : schema) : mig_result :=
  match plan m A B with
  | Plan cs => match apply_all cs A with inl s => MigOk s | inr e => MigErr e end
  | PlanCycle => MigCycle
  | PlanInvalid => MigInvalid
  end.

(* schema equivalence: same finite map *)
Definition sch_eqb (s t : schema) : bool :=
  nodupb (names s) && nodupb (names t)
  && forallb (fun p => match lookup (fst p) t with Some o => obj_eqb (snd p) o | None => false end) s
  && forallb (fun p => match lookup (fst p) s with Some o => obj_eqb (snd p) o | None => false end) t.
