(* Evo — the main theorem of the abstract evolution model:
   a command list that satisfies the partition property (partition_okb) and the dependency
   order (deps_okb), applied to a well-formed A, succeeds and yields exactly B. *)
From Coq Require Import List NArith Bool Arith Lia.
From Verif.Evo Require Import Model ProofsBase.
Import ListNotations.

(* ---------- targets / sources ---------- *)
Definition tc (c : cmd) : option (name * obj) :=
  match c with Create x o => Some (x, o) | Alter _ x o => Some (x, o) | Delete _ => None end.

Fixpoint tfind (n : name) (done : list cmd) : option obj :=
  match done with
  | [] => None
  | c :: t => match tc c with
              | Some (x, o) => if N.eqb n x then Some o else tfind n t
              | None => tfind n t
              end
  end.

Fixpoint rho (done : list cmd) (r : name) : name :=
  match done with
  | [] => r
  | Alter y x _ :: t => if N.eqb r y then x else rho t r
  | _ :: t => rho t r
  end.

Definition rho_obj (done : list cmd) (o : obj) : obj :=
  mkObj (o_cls o) (o_data o) (map (rho done) (o_refs o)).

Definition expected (A : schema) (done : list cmd) (n : name) : option obj :=
  match tfind n done with
  | Some o => Some o
  | None => if has_src n done then None else option_map (rho_obj done) (lookup n A)
  end.

Definition Inv (A : schema) (done : list cmd) (S : schema) : Prop :=
  NoDup (names S) /\ forall n, lookup n S = expected A done n.

Lemma somes_app : forall {A} (l1 l2 : list (option A)), somes (l1 ++ l2) = somes l1 ++ somes l2.
Proof. intros. unfold somes. apply flat_map_app. Qed.

Lemma tgts_app : forall a b, tgts (a ++ b) = tgts a ++ tgts b.
Proof. intros. unfold tgts. rewrite map_app. apply somes_app. Qed.
Lemma srcs_app : forall a b, srcs (a ++ b) = srcs a ++ srcs b.
Proof. intros. unfold srcs. rewrite map_app. apply somes_app. Qed.

Lemma tgts_cons : forall c t, tgts (c :: t) = match tgt c with Some x => x :: tgts t | None => tgts t end.
Proof. intros. unfold tgts, somes. simpl. destruct (tgt c); reflexivity. Qed.
Lemma srcs_cons : forall c t, srcs (c :: t) = match src c with Some x => x :: srcs t | None => srcs t end.
Proof. intros. unfold srcs, somes. simpl. destruct (src c); reflexivity. Qed.

Lemma In_tgts : forall x cs, In x (tgts cs) <-> exists c, In c cs /\ tgt c = Some x.
Proof.
  induction cs as [|c t IH]; simpl.
  - split; [intros [] | intros [c [[] _]]].
  - rewrite tgts_cons. destruct (tgt c) eqn:E.
    + simpl. rewrite IH. split.
      * intros [H|[c' [H1 H2]]]; [subst; exists c; split; [left; reflexivity | exact E] | exists c'; split; [right; exact H1 | exact H2]].
      * intros [c' [[H1|H1] H2]]; [subst; left; congruence | right; exists c'; split; assumption].
    + rewrite IH. split.
      * intros [c' [H1 H2]]. exists c'. split; [right; exact H1 | exact H2].
      * intros [c' [[H1|H1] H2]]; [subst; congruence | exists c'; split; assumption].
Qed.

Lemma In_srcs : forall x cs, In x (srcs cs) <-> exists c, In c cs /\ src c = Some x.
Proof.
  induction cs as [|c t IH]; simpl.
  - split; [intros [] | intros [c [[] _]]].
  - rewrite srcs_cons. destruct (src c) eqn:E.
    + simpl. rewrite IH. split.
      * intros [H|[c' [H1 H2]]]; [subst; exists c; split; [left; reflexivity | exact E] | exists c'; split; [right; exact H1 | exact H2]].
      * intros [c' [[H1|H1] H2]]; [subst; left; congruence | right; exists c'; split; assumption].
    + rewrite IH. split.
      * intros [c' [H1 H2]]. exists c'. split; [right; exact H1 | exact H2].
      * intros [c' [[H1|H1] H2]]; [subst; congruence | exists c'; split; assumption].
Qed.

Lemma tc_tgt : forall c x o, tc c = Some (x, o) -> tgt c = Some x.
Proof. intros [x' o'|y' x' o'|y'] x o H; simpl in *; inversion H; reflexivity. Qed.

Lemma tfind_None : forall n done, tfind n done = None <-> ~ In n (tgts done).
Proof.
  induction done as [|c t IH]; simpl.
  - split; [intros _ [] | reflexivity].
  - rewrite tgts_cons. destruct c as [x o|y x o|y]; simpl.
    + destruct (N.eqb n x) eqn:E.
      * apply N.eqb_eq in E. subst. split; [discriminate | intro H; exfalso; apply H; left; reflexivity].
      * apply N.eqb_neq in E. rewrite IH. split; [intros H [H1|H1]; [apply E; symmetry; exact H1 | exact (H H1)] | intros H H1; apply H; right; exact H1].
    + destruct (N.eqb n x) eqn:E.
      * apply N.eqb_eq in E. subst. split; [discriminate | intro H; exfalso; apply H; left; reflexivity].
      * apply N.eqb_neq in E. rewrite IH. split; [intros H [H1|H1]; [apply E; symmetry; exact H1 | exact (H H1)] | intros H H1; apply H; right; exact H1].
    + exact IH.
Qed.

Lemma tfind_Some : forall n done o, tfind n done = Some o -> exists c, In c done /\ tc c = Some (n, o).
Proof.
  induction done as [|c t IH]; simpl; intros o H; [discriminate|].
  destruct (tc c) as [[x o']|] eqn:E.
  - destruct (N.eqb n x) eqn:E2.
    + apply N.eqb_eq in E2. subst. inversion H. subst. exists c. split; [left; reflexivity | exact E].
    + destruct (IH o H) as [c' [H1 H2]]. exists c'. split; [right; exact H1 | exact H2].
  - destruct (IH o H) as [c' [H1 H2]]. exists c'. split; [right; exact H1 | exact H2].
Qed.

Lemma tfind_app : forall n a b, tfind n (a ++ b) = match tfind n a with Some o => Some o | None => tfind n b end.
Proof.
  induction a as [|c t IH]; simpl; intros b; [reflexivity|].
  destruct (tc c) as [[x o]|]; [destruct (N.eqb n x); [reflexivity | apply IH] | apply IH].
Qed.

Lemma has_src_app : forall n a b, has_src n (a ++ b) = has_src n a || has_src n b.
Proof. intros. unfold has_src. rewrite srcs_app. unfold memn. apply existsb_app. Qed.

Lemma has_tgt_tfind : forall r done, has_tgt r done = true -> exists o, tfind r done = Some o.
Proof.
  intros r done H. unfold has_tgt in H. apply memn_In in H.
  destruct (tfind r done) eqn:E; [eauto|]. apply tfind_None in E. contradiction.
Qed.

(* rho *)
Lemma rho_snoc_other : forall done c r, (forall y x o, c <> Alter y x o) -> rho (done ++ [c]) r = rho done r.
Proof.
  induction done as [|d t IH]; simpl; intros c r Hc.
  - destruct c; try reflexivity. exfalso. eapply Hc. reflexivity.
  - destruct d; try (apply IH; exact Hc). destruct (N.eqb r y); [reflexivity | apply IH; exact Hc].
Qed.

Lemma rho_snoc_alter : forall done y x o r,
  (forall y' x' o', In (Alter y' x' o') done -> x' <> y \/ x' = x) ->
  rho (done ++ [Alter y x o]) r = ren y x (rho done r).
Proof.
  induction done as [|d t IH]; simpl; intros y x o r H.
  - unfold ren. reflexivity.
  - destruct d as [x' o'|y' x' o'|y'].
    + apply IH. intros. eapply H. right. eassumption.
    + destruct (N.eqb r y') eqn:E.
      * destruct (H y' x' o' (or_introl eq_refl)) as [Hn|He].
        { rewrite ren_neq; [reflexivity | exact Hn]. }
        { subst x'. unfold ren. destruct (N.eqb x y); reflexivity. }
      * apply IH. intros. eapply H. right. eassumption.
    + apply IH. intros. eapply H. right. eassumption.
Qed.

Lemma rho_fix_or_alter : forall done r,
  rho done r = r \/ exists x o, In (Alter r x o) done /\ rho done r = x.
Proof.
  induction done as [|d t IH]; simpl; intros r; [left; reflexivity|].
  destruct d as [x' o'|y' x' o'|y'].
  - destruct (IH r) as [H|[x [o [H1 H2]]]]; [left; exact H | right; exists x, o; split; [right; exact H1 | exact H2]].
  - destruct (N.eqb r y') eqn:E.
    + apply N.eqb_eq in E. subst. right. exists x', o'. split; [left; reflexivity | reflexivity].
    + destruct (IH r) as [H|[x [o [H1 H2]]]]; [left; exact H | right; exists x, o; split; [right; exact H1 | exact H2]].
  - destruct (IH r) as [H|[x [o [H1 H2]]]]; [left; exact H | right; exists x, o; split; [right; exact H1 | exact H2]].
Qed.

(* ---------- the facts carried by partition_okb ---------- *)
Record facts (A B : schema) (cs : list cmd) : Prop := {
  f_ndt : NoDup (tgts cs);
  f_nds : NoDup (srcs cs);
  f_allB : forall x, In x (names B) -> In x (tgts cs);
  f_allA : forall y, In y (names A) -> In y (srcs cs);
  f_create : forall x o, In (Create x o) cs -> lookup x B = Some o;
  f_alter : forall y x o, In (Alter y x o) cs ->
      lookup x B = Some o /\ (exists oy, lookup y A = Some oy /\ o_cls oy = o_cls o)
      /\ (y = x \/ (~ In x (names A) /\ ~ In y (names B)));
  f_delete : forall y, In (Delete y) cs -> In y (names A) }.

Lemma partition_facts : forall A B cs, partition_okb A B cs = true -> facts A B cs.
Proof.
  intros A B cs H. unfold partition_okb in H.
  repeat (apply andb_true_iff in H; destruct H as [H ?]).
  rename H into H1, H3 into H2, H2 into H3, H1 into H4, H0 into H5.
  apply nodupb_NoDup in H1. apply nodupb_NoDup in H2.
  rewrite forallb_forall in H3, H4, H5.
  constructor; auto.
  - intros x Hx. apply memn_In. apply H3. exact Hx.
  - intros y Hy. apply memn_In. apply H4. exact Hy.
  - intros x o Hin. specialize (H5 _ Hin). simpl in H5.
    destruct (lookup x B); [|discriminate]. apply obj_eqb_eq in H5. subst. reflexivity.
  - intros y x o Hin. specialize (H5 _ Hin). simpl in H5.
    destruct (lookup x B) as [ob|]; [|discriminate]. destruct (lookup y A) as [oy|]; [|discriminate].
    apply andb_true_iff in H5. destruct H5 as [H5 H7]. apply andb_true_iff in H5. destruct H5 as [H5 H6].
    apply obj_eqb_eq in H5. subst ob. apply N.eqb_eq in H6. split; [reflexivity|]. split; [exists oy; split; [reflexivity|exact H6]|].
    apply orb_true_iff in H7. destruct H7 as [H7|H7].
    + apply N.eqb_eq in H7. left. exact H7.
    + apply andb_true_iff in H7. destruct H7 as [H7 H8]. apply negb_true_iff in H7, H8.
      apply memn_false in H7, H8. right. split; assumption.
  - intros y Hin. specialize (H5 _ Hin). simpl in H5. apply memn_In. exact H5.
Qed.

(* readiness of every command w.r.t. its own prefix *)
Lemma deps_ready : forall A cs d0, deps_okb A d0 cs = true ->
  forall d1 c d2, cs = d1 ++ c :: d2 -> readyb A (d0 ++ d1) c = true.
Proof.
  induction cs as [|c' t IH]; simpl; intros d0 H d1 c d2 E.
  - destruct d1; discriminate.
  - apply andb_true_iff in H. destruct H as [H1 H2]. destruct d1 as [|c1 d1]; simpl in E; inversion E; subst.
    + rewrite app_nil_r. exact H1.
    + specialize (IH _ H2 d1 c d2 eq_refl). rewrite <- app_assoc in IH. exact IH.
Qed.

Definition closed (B : schema) : Prop :=
  forall x o r, lookup x B = Some o -> In r (o_refs o) -> In r (names B).

Lemma closedb_closed : forall B, closedb B = true -> closed B.
Proof.
  intros B H x o r Hl Hr. unfold closedb in H. rewrite forallb_forall in H.
  apply lookup_In in Hl. specialize (H _ Hl). simpl in H. rewrite forallb_forall in H.
  apply memn_In. apply H. exact Hr.
Qed.

Section Main.
Variables (A B : schema) (cs : list cmd).
Hypothesis F : facts A B cs.
Hypothesis DEP : deps_okb A [] cs = true.
Hypothesis NDA : NoDup (names A).
Hypothesis CLB : closed B.

Lemma src_once : forall done c rest y, cs = done ++ c :: rest -> src c = Some y -> ~ In y (srcs done).
Proof.
  intros done c rest y E Hs Hin. pose proof (f_nds _ _ _ F) as ND. rewrite E, srcs_app, srcs_cons, Hs in ND.
  apply NoDup_remove_2 in ND. apply ND. apply in_or_app. left. exact Hin.
Qed.

Lemma tgt_once : forall done c rest x, cs = done ++ c :: rest -> tgt c = Some x -> ~ In x (tgts done).
Proof.
  intros done c rest x E Hs Hin. pose proof (f_ndt _ _ _ F) as ND. rewrite E, tgts_app, tgts_cons, Hs in ND.
  apply NoDup_remove_2 in ND. apply ND. apply in_or_app. left. exact Hin.
Qed.

Lemma in_done_in_cs : forall done c rest c', cs = done ++ c :: rest -> In c' done -> In c' cs.
Proof. intros. subst. apply in_or_app. left. assumption. Qed.

Lemma ready_of_done : forall done c rest c', cs = done ++ c :: rest -> In c' done ->
  exists d1 d2, done = d1 ++ c' :: d2 /\ readyb A d1 c' = true.
Proof.
  intros done c rest c' E Hin. apply in_split in Hin. destruct Hin as [d1 [d2 Hd]].
  exists d1, d2. split; [exact Hd|].
  apply (deps_ready A cs [] DEP d1 c' (d2 ++ c :: rest)). rewrite E, Hd, <- app_assoc. reflexivity.
Qed.

(* an old name whose command is still pending is not the target of a finished command *)
Lemma pending_src_not_tgt : forall done c rest y, cs = done ++ c :: rest -> src c = Some y ->
  In y (names A) -> tfind y done = None.
Proof.
  intros done c rest y E Hs HyA. apply tfind_None. intro Hin.
  apply In_tgts in Hin. destruct Hin as [c' [Hc' Ht]].
  destruct c' as [x o|y' x o|y']; simpl in Ht; [ | | discriminate]; injection Ht as Hx; subst x.
  - destruct (ready_of_done _ _ _ _ E Hc') as [d1 [d2 [Hd Hr]]]. simpl in Hr.
    apply andb_true_iff in Hr. destruct Hr as [_ Hr]. apply orb_true_iff in Hr. destruct Hr as [Hr|Hr].
    + apply negb_true_iff, memn_false in Hr. contradiction.
    + apply existsb_exists in Hr. destruct Hr as [dc [Hdc Hq]]. destruct dc; simpl in Hq; try discriminate.
      apply N.eqb_eq in Hq. subst y0.
      apply (src_once _ _ _ _ E Hs). apply In_srcs. exists (Delete y). split; [|reflexivity].
      rewrite Hd. apply in_or_app. left. exact Hdc.
  - destruct (f_alter _ _ _ F y' y o (in_done_in_cs _ _ _ _ E Hc')) as [_ [_ [He|[Hn _]]]].
    + subst y'. apply (src_once _ _ _ _ E Hs). apply In_srcs. exists (Alter y y o). split; [exact Hc'|reflexivity].
    + contradiction.
Qed.

Lemma tfind_done_B : forall done c rest n o, cs = done ++ c :: rest -> tfind n done = Some o -> lookup n B = Some o.
Proof.
  intros done c rest n o E H. apply tfind_Some in H. destruct H as [c' [Hin Htc]].
  pose proof (in_done_in_cs _ _ _ _ E Hin) as Hcs.
  destruct c' as [x o'|y' x o'|y']; simpl in Htc; [ | | discriminate]; injection Htc as Hx Ho; subst x o'.
  - apply (f_create _ _ _ F). exact Hcs.
  - apply (f_alter _ _ _ F) in Hcs. tauto.
Qed.

Lemma rho_obj_snoc_other : forall done c o, (forall y x o', c <> Alter y x o') -> rho_obj (done ++ [c]) o = rho_obj done o.
Proof.
  intros. unfold rho_obj. f_equal. apply map_ext. intro. apply rho_snoc_other. assumption.
Qed.

Lemma expected_snoc_create : forall done x o n, tfind x done = None ->
  expected A (done ++ [Create x o]) n =
  if N.eqb n x then Some o else expected A done n.
Proof.
  intros done x o n Hx. unfold expected. rewrite tfind_app. simpl.
  rewrite has_src_app. unfold has_src at 2. simpl. rewrite orb_false_r.
  destruct (N.eqb n x) eqn:E.
  - apply N.eqb_eq in E. subst. rewrite Hx. reflexivity.
  - destruct (tfind n done); [reflexivity|].
    destruct (has_src n done); [reflexivity|].
    destruct (lookup n A); simpl; [|reflexivity]. f_equal. apply rho_obj_snoc_other. intros; discriminate.
Qed.

Lemma expected_snoc_delete : forall done y n, tfind y done = None ->
  expected A (done ++ [Delete y]) n =
  if N.eqb n y then None else expected A done n.
Proof.
  intros done y n Hy. unfold expected. rewrite tfind_app. simpl.
  rewrite has_src_app. unfold has_src at 2. unfold srcs, somes. simpl. rewrite orb_false_r.
  destruct (N.eqb n y) eqn:E.
  - apply N.eqb_eq in E. subst. rewrite Hy. rewrite orb_true_r. reflexivity.
  - rewrite orb_false_r. destruct (tfind n done); [reflexivity|].
    destruct (has_src n done); [reflexivity|].
    destruct (lookup n A); simpl; [|reflexivity]. f_equal. apply rho_obj_snoc_other. intros; discriminate.
Qed.

Lemma step_create : forall done x o rest S, cs = done ++ Create x o :: rest -> Inv A done S ->
  exists S1, apply_cmd S (Create x o) = inl S1 /\ Inv A (done ++ [Create x o]) S1.
Proof.
  intros done x o rest S E [ND HS].
  pose proof (deps_ready A cs [] DEP done (Create x o) rest E) as Hr. simpl in Hr.
  apply andb_true_iff in Hr. destruct Hr as [Hr1 Hr2]. rewrite forallb_forall in Hr1.
  assert (Htx : tfind x done = None).
  { apply tfind_None. apply (tgt_once _ _ _ _ E). reflexivity. }
  assert (HxS : lookup x S = None).
  { rewrite HS. unfold expected. rewrite Htx. destruct (has_src x done) eqn:Hs; [reflexivity|].
    apply orb_true_iff in Hr2. destruct Hr2 as [Hr2|Hr2].
    - apply negb_true_iff, memn_false in Hr2. apply lookup_None in Hr2. rewrite Hr2. reflexivity.
    - exfalso. apply existsb_exists in Hr2. destruct Hr2 as [dc [Hdc Hq]]. destruct dc; simpl in Hq; try discriminate.
      apply N.eqb_eq in Hq. subst y. unfold has_src in Hs. apply memn_false in Hs. apply Hs.
      apply In_srcs. exists (Delete x). split; [exact Hdc | reflexivity]. }
  simpl. assert (Hm : memn x (names S) = false) by (apply memn_false; apply lookup_None; exact HxS).
  rewrite Hm.
  assert (Hfm : first_missing (o_refs o) (names S) = None).
  { apply first_missing_None. intros r Hrin. specialize (Hr1 r Hrin).
    apply has_tgt_tfind in Hr1. destruct Hr1 as [o' Ho']. apply (lookup_Some_names r S o').
    rewrite HS. unfold expected. rewrite Ho'. reflexivity. }
  rewrite Hfm. eexists. split; [reflexivity|]. split.
  - rewrite names_app. simpl. apply NoDup_snoc; [exact ND | apply lookup_None; exact HxS].
  - intro n. rewrite lookup_app. simpl. rewrite (expected_snoc_create done x o n Htx).
    destruct (N.eqb n x) eqn:En.
    + apply N.eqb_eq in En. subst. rewrite HxS. reflexivity.
    + rewrite HS. destruct (expected A done n); reflexivity.
Qed.

Lemma step_delete : forall done y rest S, cs = done ++ Delete y :: rest -> Inv A done S ->
  exists S1, apply_cmd S (Delete y) = inl S1 /\ Inv A (done ++ [Delete y]) S1.
Proof.
  intros done y rest S E [ND HS].
  pose proof (deps_ready A cs [] DEP done (Delete y) rest E) as Hr. simpl in Hr.
  rewrite forallb_forall in Hr.
  assert (HyA : In y (names A)).
  { apply (f_delete _ _ _ F). rewrite E. apply in_or_app. right. left. reflexivity. }
  assert (Hty : tfind y done = None) by (apply (pending_src_not_tgt _ _ _ _ E); [reflexivity | exact HyA]).
  assert (Hsy : has_src y done = false).
  { unfold has_src. apply memn_false. apply (src_once _ _ _ _ E). reflexivity. }
  destruct (names_lookup _ _ HyA) as [oyA HoyA].
  assert (HyS : lookup y S = Some (rho_obj done oyA)).
  { rewrite HS. unfold expected. rewrite Hty, Hsy, HoyA. reflexivity. }
  simpl. rewrite HyS.
  assert (Hfr : first_referrer y S = None).
  { apply first_referrer_None. intros z oz Hz Hne Hin.
    apply (In_lookup _ _ _ ND) in Hz. rewrite HS in Hz. unfold expected in Hz.
    destruct (tfind z done) as [oz'|] eqn:Htz.
    - (* z already carries its target content: then y is a target name produced earlier *)
      inversion Hz. subst oz'. clear Hz.
      pose proof (tfind_done_B _ _ _ _ _ E Htz) as HzB.
      pose proof (CLB _ _ _ HzB Hin) as HyB.
      apply tfind_Some in Htz. destruct Htz as [cz [Hcz Htc]].
      destruct (ready_of_done _ _ _ _ E Hcz) as [d1 [d2 [Hd Hrz]]].
      assert (Hyt : In y (tgts d1)).
      { destruct cz as [x o'|y' x o'|y']; simpl in Htc; [ | | discriminate]; injection Htc as Hx Ho; subst x o'.
        - simpl in Hrz. apply andb_true_iff in Hrz. destruct Hrz as [Hrz _]. rewrite forallb_forall in Hrz.
          specialize (Hrz y Hin). unfold has_tgt in Hrz. apply memn_In in Hrz. exact Hrz.
        - simpl in Hrz. rewrite forallb_forall in Hrz. specialize (Hrz y Hin).
          apply orb_true_iff in Hrz. destruct Hrz as [Hrz|Hrz].
          + apply N.eqb_eq in Hrz. subst z. contradiction Hne. reflexivity.
          + unfold has_tgt in Hrz. apply memn_In in Hrz. exact Hrz. }
      assert (Hyd : In y (tgts done)) by (rewrite Hd, tgts_app; apply in_or_app; left; exact Hyt).
      apply tfind_None in Hty. contradiction.
    - destruct (has_src z done) eqn:Hsz; [discriminate|].
      destruct (lookup z A) as [ozA|] eqn:HzA; simpl in Hz; [|discriminate].
      inversion Hz. subst oz. clear Hz. unfold rho_obj in Hin. simpl in Hin.
      apply in_map_iff in Hin. destruct Hin as [r [Hrho Hrin]].
      destruct (rho_fix_or_alter done r) as [Hfix|[x [o [Hal Hx]]]].
      + rewrite Hfix in Hrho. subst r.
        apply lookup_In in HzA. specialize (Hr _ HzA). simpl in Hr.
        apply orb_true_iff in Hr. destruct Hr as [Hr|Hr]; [|congruence].
        apply orb_true_iff in Hr. destruct Hr as [Hr|Hr].
        * apply N.eqb_eq in Hr. contradiction.
        * apply negb_true_iff, memn_false in Hr. contradiction.
      + rewrite Hx in Hrho. subst x.
        destruct (f_alter _ _ _ F r y o (in_done_in_cs _ _ _ _ E Hal)) as [_ [_ [He|[Hn _]]]].
        * subst r. apply (src_once _ _ _ _ E (eq_refl : src (Delete y) = Some y)).
          apply In_srcs. exists (Alter y y o). split; [exact Hal | reflexivity].
        * contradiction. }
  rewrite Hfr. eexists. split; [reflexivity|]. split.
  - apply NoDup_remove. exact ND.
  - intro n. rewrite (lookup_remove y S n ND). rewrite (expected_snoc_delete done y n Hty).
    destruct (N.eqb n y); [reflexivity | apply HS].
Qed.

Lemma rho_obj_snoc_alter : forall done y x o oa, ~ In y (tgts done) ->
  rho_obj (done ++ [Alter y x o]) oa = ren_obj y x (rho_obj done oa).
Proof.
  intros done y x o oa Hy. unfold rho_obj, ren_obj. simpl. f_equal. rewrite map_map.
  apply map_ext. intro r. apply rho_snoc_alter. intros y' x' o' Hin. left. intro He. subst x'.
  apply Hy. apply In_tgts. exists (Alter y' y o'). split; [exact Hin | reflexivity].
Qed.

Lemma expected_snoc_alter : forall done y x o n, tfind x done = None -> tfind y done = None ->
  expected A (done ++ [Alter y x o]) n =
  if N.eqb n x then Some o
  else match tfind n done with
       | Some o' => Some o'
       | None => if has_src n done || N.eqb n y then None
                 else option_map (fun oa => ren_obj y x (rho_obj done oa)) (lookup n A)
       end.
Proof.
  intros done y x o n Hx Hy. unfold expected. rewrite tfind_app. simpl.
  rewrite has_src_app. unfold has_src at 2. unfold srcs, somes. simpl. rewrite orb_false_r.
  destruct (N.eqb n x) eqn:E.
  - apply N.eqb_eq in E. subst. rewrite Hx. reflexivity.
  - destruct (tfind n done); [reflexivity|].
    destruct (has_src n done || N.eqb n y); [reflexivity|].
    destruct (lookup n A); simpl; [|reflexivity]. f_equal. apply rho_obj_snoc_alter.
    apply tfind_None. exact Hy.
Qed.

Lemma ren_obj_id : forall y x o, ~ In y (o_refs o) -> ren_obj y x o = o.
Proof.
  intros y x [c d r] H. unfold ren_obj. simpl in *. f_equal.
  induction r as [|h t IH]; simpl; [reflexivity|].
  assert (Hh : h <> y) by (intro Hq; apply H; left; exact Hq).
  rewrite (ren_neq y x h Hh). f_equal. apply IH. intro Hq. apply H. right. exact Hq.
Qed.

Lemma ren_obj_same : forall y o, ren_obj y y o = o.
Proof.
  intros y [c d r]. unfold ren_obj. simpl. f_equal. induction r as [|h t IH]; simpl; [reflexivity|].
  rewrite IH. f_equal. unfold ren. destruct (N.eqb h y) eqn:E; [apply N.eqb_eq in E; congruence | reflexivity].
Qed.

Lemma step_alter : forall done y x o rest S, cs = done ++ Alter y x o :: rest -> Inv A done S ->
  exists S1, apply_cmd S (Alter y x o) = inl S1 /\ Inv A (done ++ [Alter y x o]) S1.
Proof.
  intros done y x o rest S E [ND HS].
  pose proof (deps_ready A cs [] DEP done (Alter y x o) rest E) as Hr. simpl in Hr.
  rewrite forallb_forall in Hr.
  assert (Hin : In (Alter y x o) cs) by (rewrite E; apply in_or_app; right; left; reflexivity).
  destruct (f_alter _ _ _ F y x o Hin) as [HxB [[oyA [HoyA Hcls]] Hsame]].
  assert (HyA : In y (names A)) by (eapply lookup_Some_names; exact HoyA).
  assert (Hty : tfind y done = None) by (apply (pending_src_not_tgt _ _ _ _ E); [reflexivity | exact HyA]).
  assert (Htx : tfind x done = None).
  { apply tfind_None. apply (tgt_once _ _ _ _ E). reflexivity. }
  assert (Hsy : has_src y done = false).
  { unfold has_src. apply memn_false. apply (src_once _ _ _ _ E). reflexivity. }
  assert (HyS : lookup y S = Some (rho_obj done oyA)).
  { rewrite HS. unfold expected. rewrite Hty, Hsy, HoyA. reflexivity. }
  simpl. rewrite HyS.
  (* every referenced name other than x itself is present, and is not y unless y = x *)
  assert (Hrefs : forall r, In r (o_refs o) -> r <> x -> In r (names S) /\ r <> y).
  { intros r Hrin Hne. specialize (Hr r Hrin). apply orb_true_iff in Hr. destruct Hr as [Hr|Hr].
    - apply N.eqb_eq in Hr. contradiction.
    - pose proof Hr as Hr2. apply has_tgt_tfind in Hr. destruct Hr as [o' Ho']. split.
      + apply (lookup_Some_names r S o'). rewrite HS. unfold expected. rewrite Ho'. reflexivity.
      + intro. subst r. congruence. }
  destruct (N.eq_dec y x) as [Eyx|Nyx].
  - (* no rename *)
    subst x. rewrite N.eqb_refl. simpl.
    assert (Hc : N.eqb (o_cls oyA) (o_cls o) = true) by (apply N.eqb_eq; exact Hcls).
    rewrite Hc. simpl.
    assert (Hfm : first_missing (o_refs o) (names S) = None).
    { apply first_missing_None. intros r Hrin. destruct (N.eq_dec r y) as [->|Hne].
      - eapply lookup_Some_names. exact HyS.
      - apply (Hrefs r Hrin Hne). }
    rewrite Hfm. eexists. split; [reflexivity|]. split.
    + rewrite names_set_obj. exact ND.
    + intro n. rewrite lookup_set_obj. rewrite (expected_snoc_alter done y y o n Htx Hty).
      destruct (N.eqb n y) eqn:En.
      * rewrite HyS. reflexivity.
      * rewrite orb_false_r. rewrite HS. unfold expected. destruct (tfind n done); [reflexivity|].
        destruct (has_src n done); [reflexivity|]. destruct (lookup n A); simpl; [|reflexivity].
        rewrite ren_obj_same. reflexivity.
  - (* rename y -> x *)
    destruct Hsame as [Hs|[HxA HyB]]; [contradiction|].
    assert (HxS : lookup x S = None).
    { rewrite HS. unfold expected. rewrite Htx. destruct (has_src x done); [reflexivity|].
      apply lookup_None in HxA. rewrite HxA. reflexivity. }
    assert (Hxn : ~ In x (names S)) by (apply lookup_None; exact HxS).
    assert (E1 : N.eqb y x = false) by (apply N.eqb_neq; exact Nyx).
    rewrite E1. simpl.
    assert (Hm : memn x (names S) = false) by (apply memn_false; exact Hxn).
    rewrite Hm.
    assert (Hc : N.eqb (o_cls oyA) (o_cls o) = true) by (apply N.eqb_eq; exact Hcls).
    rewrite Hc. simpl.
    assert (Hfm : first_missing (o_refs o) (names (rename_all y x S)) = None).
    { apply first_missing_None. intros r Hrin. rewrite names_rename_all.
      destruct (N.eq_dec r x) as [->|Hne].
      - apply in_map_iff. exists y. split; [apply ren_eq | eapply lookup_Some_names; exact HyS].
      - destruct (Hrefs r Hrin Hne) as [H1 H2]. apply in_map_iff. exists r. split; [apply ren_neq; exact H2 | exact H1]. }
    rewrite Hfm. eexists. split; [reflexivity|]. split.
    + rewrite names_set_obj, names_rename_all. apply NoDup_map_ren; assumption.
    + intro n. rewrite lookup_set_obj. rewrite (lookup_rename_all y x S x Nyx Hxn). rewrite N.eqb_refl.
      rewrite HyS. simpl.
      rewrite (lookup_rename_all y x S n Nyx Hxn).
      rewrite (expected_snoc_alter done y x o n Htx Hty).
      destruct (N.eqb n x) eqn:En; [reflexivity|].
      destruct (N.eqb n y) eqn:Eny.
      * apply N.eqb_eq in Eny. subst n. rewrite Hty. rewrite orb_true_r. reflexivity.
      * rewrite orb_false_r. rewrite HS. unfold expected.
        destruct (tfind n done) as [o'|] eqn:Htn.
        { simpl. f_equal. apply ren_obj_id. intro Hyin.
          pose proof (tfind_done_B _ _ _ _ _ E Htn) as HnB.
          apply HyB. apply (CLB _ _ _ HnB Hyin). }
        { destruct (has_src n done); [reflexivity|]. destruct (lookup n A); reflexivity. }
Qed.

Lemma step : forall done c rest S, cs = done ++ c :: rest -> Inv A done S ->
  exists S1, apply_cmd S c = inl S1 /\ Inv A (done ++ [c]) S1.
Proof.
  intros done c rest S E HI. destruct c.
  - eapply step_create; eassumption.
  - eapply step_alter; eassumption.
  - eapply step_delete; eassumption.
Qed.

Lemma run : forall rest done S, cs = done ++ rest -> Inv A done S ->
  exists S1, apply_all rest S = inl S1 /\ Inv A cs S1.
Proof.
  induction rest as [|c t IH]; intros done S E HI.
  - rewrite app_nil_r in E. subst done. exists S. split; [reflexivity | exact HI].
  - destruct (step done c t S E HI) as [S1 [Ha HI1]]. simpl. rewrite Ha.
    apply (IH (done ++ [c]) S1); [rewrite <- app_assoc; exact E | exact HI1].
Qed.

Lemma Inv_init : Inv A [] A.
Proof.
  split; [exact NDA|]. intro n. unfold expected. simpl. unfold has_src. simpl.
  destruct (lookup n A) as [[c d r]|]; simpl; [|reflexivity]. unfold rho_obj. simpl. rewrite map_id. reflexivity.
Qed.

Lemma final_expected : forall n, expected A cs n = lookup n B.
Proof.
  intro n. unfold expected. destruct (tfind n cs) as [o|] eqn:Ht.
  - apply tfind_Some in Ht. destruct Ht as [c [Hin Htc]].
    destruct c as [x o'|y' x o'|y']; simpl in Htc; [ | | discriminate]; injection Htc as Hx Ho; subst x o'.
    + symmetry. apply (f_create _ _ _ F). exact Hin.
    + symmetry. apply (f_alter _ _ _ F) in Hin. tauto.
  - assert (HnB : lookup n B = None).
    { apply lookup_None. intro HnB. apply (f_allB _ _ _ F) in HnB. apply tfind_None in Ht. contradiction. }
    rewrite HnB. destruct (has_src n cs) eqn:Hs; [reflexivity|].
    destruct (lookup n A) eqn:HnA; [|reflexivity]. exfalso.
    apply lookup_Some_names in HnA. apply (f_allA _ _ _ F) in HnA. unfold has_src in Hs.
    apply memn_false in Hs. contradiction.
Qed.

Theorem apply_yields_target :
  exists S, apply_all cs A = inl S /\ NoDup (names S) /\ forall n, lookup n S = lookup n B.
Proof.
  destruct (run cs [] A eq_refl Inv_init) as [S [Ha [ND HS]]].
  exists S. split; [exact Ha|]. split; [exact ND|]. intro n. rewrite HS. apply final_expected.
Qed.
End Main.
