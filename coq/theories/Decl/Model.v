(* Decl — shared model of declaration ordering and application (C11, C03).
   Executable definitions only; proofs in Decl/Proofs.v; statements in C11/Props.v, C03/Props.v.

   What is modelled (edb/edgeql/declarative.py::sdl_to_ddl + edb/schema/ddl.py::apply_sdl, top level):
     * every SDL declaration (and every nested member, flattened by the layout pass into its own
       node keyed `Type@member`) becomes one node of a dependency graph, in document order
       (`ctx.ddlgraph`, a dict: insertion order = order of the document);
     * a node's hard deps / weak deps are the names found by the tracer (an INPUT here: n_refs /
       n_weak), filtered ("x in ctx.objects or not schema.get(x)": a name that exists only in the
       base schema is dropped, a name that exists nowhere is left in so that the sort reports it) and
       normalised `OrderedSet(sorted(deps))`; loop_control is passed as is;
     * `topological.sort(ddlgraph, allow_unresolved=False)` = the C20 model [sort_ex false];
     * the sorted statements are applied one by one; creating an object needs every hard reference
       to exist already and the name to be new.
   What is NOT modelled: how the ~1300 lines of trace_layout_* / trace_dependencies / tracer.py find the
   references of a declaration.  That is the hypothesis "the dependency edges are exactly the
   references"; it is probed on the real code by the permutation monitors of harness/props/c11.py. *)
From Coq Require Import List NArith Bool Arith.
From Verif.C20 Require Import Model.
Import ListNotations.

Record dnode := mkNode {
  n_key : N;                (* fully-qualified name of the declared item *)
  n_cls : N;                (* object class *)
  n_data : N;               (* everything else the declaration says *)
  n_refs : list N;          (* strong references found by the tracer (any order, duplicates allowed: a set) *)
  n_weak : list N;          (* weak references *)
  n_lctl : list N }.        (* loop_control entries registered on this node *)

Definition doc := list dnode.
Definition dkeys (d : doc) : list N := map n_key d.

(* ---- OrderedSet(sorted(deps)) : insertion sort that drops duplicates ---- *)
Fixpoint ins (x : N) (l : list N) : list N :=
  match l with
  | [] => [x]
  | h :: t => if N.ltb x h then x :: l else if N.eqb x h then l else h :: ins x t
  end.
Definition norm (l : list N) : list N := fold_right ins [] l.

(* "x in ctx.objects or not schema.get(x, default=None)" *)
Definition keep (declared base : list N) (x : N) : bool := memk x declared || negb (memk x base).

Definition node_entry (declared base : list N) (n : dnode) : key * rnode :=
  (n_key n, {| r_weak := norm (filter (keep declared base) (n_weak n));
               r_merge := None;
               r_deps := norm (filter (keep declared base) (n_refs n));
               r_lctl := n_lctl n |}).

Definition graph_of (base : list N) (d : doc) : rgraph := map (node_entry (dkeys d) base) d.

(* "<item> was already declared": _register_item refuses a second node with the same name *)
Fixpoint first_dup (seen : list N) (d : doc) : option N :=
  match d with
  | [] => None
  | n :: t => if memk (n_key n) seen then Some (n_key n) else first_dup (n_key n :: seen) t
  end.

Fixpoint find_node (k : N) (d : doc) : option dnode :=
  match d with
  | [] => None
  | n :: t => if N.eqb k (n_key n) then Some n else find_node k t
  end.

Definition pick (d : doc) (o : list N) : doc :=
  flat_map (fun k => match find_node k d with Some n => [n] | None => [] end) o.

(* ---- applying CREATE statements ---- *)
Inductive aerr :=
| AExists (k : N)               (* "... already exists" *)
| ADangling (k r : N).          (* k refers to r, which does not exist (yet) *)

Fixpoint first_missing (l have : list N) : option N :=
  match l with
  | [] => None
  | r :: t => if memk r have then first_missing t have else Some r
  end.

(* state: the nodes created so far, in creation order *)
Definition apply_node (base : list N) (created : doc) (n : dnode) : doc + aerr :=
  if memk (n_key n) (dkeys created ++ base) then inr (AExists (n_key n))
  else match first_missing (n_refs n) (dkeys created ++ base) with
       | Some r => inr (ADangling (n_key n) r)
       | None => inl (created ++ [n])
       end.

Fixpoint apply_all (base : list N) (created : doc) (l : doc) : doc + aerr :=
  match l with
  | [] => inl created
  | n :: t => match apply_node base created n with
              | inl c => apply_all base c t
              | inr e => inr e
              end
  end.

Inductive sdl_result :=
| SOk (s : doc)                  (* accepted; the schema = the created nodes *)
| SDup (k : N)                   (* InvalidDefinitionError: was already declared *)
| SCycle (k : N)                 (* InvalidDefinitionError: dependency cycle / defined recursively *)
| SUnresolved (d k : N)          (* UnresolvedReferenceError escapes from topological.sort *)
| SApply (e : aerr)              (* a sorted statement is rejected when applied *)
| SFuel.                         (* never (C20_fuel_enough) *)

Definition sdl_apply (base : list N) (d : doc) : sdl_result :=
  match first_dup [] d with
  | Some k => SDup k
  | None =>
    match sort_ex false (graph_of base d) with
    | Sorted o => match apply_all base [] (pick d o) with
                  | inl s => SOk s
                  | inr e => SApply e
                  end
    | Cycle c => SCycle c
    | Unresolved x k => SUnresolved x k
    | Fuel => SFuel
    end
  end.

(* the order sdl_to_ddl returns (what the correspondence check compares with the real code) *)
Definition sdl_order (base : list N) (d : doc) : outcome :=
  match first_dup [] d with
  | Some k => Cycle k            (* not used by the harness: duplicates are rejected earlier *)
  | None => sort_ex false (graph_of base d)
  end.

(* schema as a finite map *)
Definition node_eqb (a b : dnode) : bool :=
  N.eqb (n_key a) (n_key b) && N.eqb (n_cls a) (n_cls b) && N.eqb (n_data a) (n_data b).

(* ---- nested documents: module blocks > declarations > members, flattened by the layout pass ---- *)
Inductive item := Item (n : dnode) (members : list item).

Fixpoint flat_item (it : item) : doc :=
  match it with
  | Item n ms => n :: flat_map flat_item ms
  end.

Definition block := (N * list item)%type.          (* module name, its declarations *)
Definition document := list block.
Definition flatten (D : document) : doc := flat_map (fun b => flat_map flat_item (snd b)) D.
