(* Decl — proofs about the declaration-ordering model (used by C11/Props.v and C03). *)
From Coq Require Import List NArith Bool Arith Lia Permutation Relations.
From Verif.C20 Require Import Model Proofs Props.
From Verif.Decl Require Import Model.
Import ListNotations.

(* ------------------------------------------------------------------------- *)
(* norm = OrderedSet(sorted(.)): a function of the SET of its argument        *)
(* ------------------------------------------------------------------------- *)

Lemma ins_In x l y : In y (ins x l) <-> y = x \/ In y l.
Proof.
  induction l as [|h t IH]; simpl.
  - split; intros [H|H]; auto; try contradiction.
  - destruct (N.ltb x h) eqn:E1.
    + simpl. split; intros [H|H]; auto.
    + destruct (N.eqb x h) eqn:E2.
      * apply N.eqb_eq in E2. subst h. simpl. split; [intros [H|H]; auto | intros [H|[H|H]]; auto].
      * simpl. rewrite IH. split; [intros [H|[H|H]]; auto | intros [H|[H|H]]; auto].
Qed.

Lemma norm_In l y : In y (norm l) <-> In y l.
Proof.
  induction l as [|a l IH]; simpl; [tauto|].
  rewrite ins_In, IH. split; intros [H|H]; auto.
Qed.

Inductive ssorted : list N -> Prop :=
| ss_nil : ssorted []
| ss_cons h t : Forall (fun y => (h < y)%N) t -> ssorted t -> ssorted (h :: t).

Lemma ins_sorted x l : ssorted l -> ssorted (ins x l).
Proof.
  induction 1 as [|h t Hf Hs IH]; simpl.
  - constructor; constructor.
  - destruct (N.ltb x h) eqn:E1.
    + apply N.ltb_lt in E1. constructor; [|constructor; assumption].
      constructor; [exact E1|]. eapply Forall_impl; [|exact Hf]. simpl. intros; lia.
    + destruct (N.eqb x h) eqn:E2; [constructor; assumption|].
      apply N.ltb_ge in E1. apply N.eqb_neq in E2.
      constructor; [|exact IH].
      apply Forall_forall. intros y Hy. apply ins_In in Hy. destruct Hy as [->|Hy]; [lia|].
      rewrite Forall_forall in Hf. apply Hf; exact Hy.
Qed.

Lemma norm_sorted l : ssorted (norm l).
Proof. induction l; simpl; [constructor | apply ins_sorted; assumption]. Qed.

Lemma sorted_ext l : ssorted l -> forall l', ssorted l' -> (forall y, In y l <-> In y l') -> l = l'.
Proof.
  induction 1 as [|h t Hf Hs IH]; intros l' Hs' Hext.
  - destruct l' as [|h' t']; [reflexivity|]. exfalso. apply (proj2 (Hext h')). left; reflexivity.
  - destruct Hs' as [|h' t' Hf' Hs'].
    + exfalso. apply (proj1 (Hext h)). left; reflexivity.
    + assert (h = h') as ->.
      { rewrite Forall_forall in Hf, Hf'.
        destruct (proj1 (Hext h) (or_introl eq_refl)) as [E|Hin]; [auto|].
        destruct (proj2 (Hext h') (or_introl eq_refl)) as [E|Hin']; [auto|].
        specialize (Hf' _ Hin). specialize (Hf _ Hin'). lia. }
      f_equal. apply IH; [exact Hs'|].
      rewrite Forall_forall in Hf, Hf'.
      intros y. split; intros Hy.
      * destruct (proj1 (Hext y) (or_intror Hy)) as [E|H]; [|exact H]. subst y. specialize (Hf _ Hy). lia.
      * destruct (proj2 (Hext y) (or_intror Hy)) as [E|H]; [|exact H]. subst y. specialize (Hf' _ Hy). lia.
Qed.

(* the listing order and multiplicity of the traced references is irrelevant *)
Lemma norm_ext l l' : (forall y, In y l <-> In y l') -> norm l = norm l'.
Proof.
  intros H. apply sorted_ext; try apply norm_sorted.
  intros y. rewrite !norm_In. apply H.
Qed.

(* ------------------------------------------------------------------------- *)
(* applying an ordered list of creations                                     *)
(* ------------------------------------------------------------------------- *)

Lemma first_missing_none l have : (forall r, In r l -> In r have) -> first_missing l have = None.
Proof.
  induction l as [|r t IH]; intros H; simpl; [reflexivity|].
  rewrite (proj2 (memk_In r have)) by (apply H; left; reflexivity).
  apply IH. intros x Hx. apply H. right; exact Hx.
Qed.

Lemma first_missing_some l have r : first_missing l have = Some r -> In r l /\ ~ In r have.
Proof.
  induction l as [|x t IH]; simpl; [discriminate|].
  destruct (memk x have) eqn:E.
  - intros H. destruct (IH H) as [H1 H2]. split; [right; exact H1 | exact H2].
  - intros H. inversion H. subst. split; [left; reflexivity | apply memk_nIn; exact E].
Qed.

Lemma apply_all_ok base : forall l created,
  NoDup (dkeys created ++ dkeys l) ->
  (forall k, In k (dkeys l) -> ~ In k base) ->
  (forall l1 n l2, l = l1 ++ n :: l2 -> forall r, In r (n_refs n) ->
       In r (dkeys created ++ dkeys l1) \/ In r base) ->
  apply_all base created l = inl (created ++ l).
Proof.
  induction l as [|n t IH]; intros created Hnd Hb Href; simpl.
  - rewrite app_nil_r. reflexivity.
  - unfold apply_node.
    assert (Hm : memk (n_key n) (dkeys created ++ base) = false).
    { apply memk_nIn. intros Hin. apply in_app_or in Hin. destruct Hin as [Hin|Hin].
      - simpl in Hnd. apply NoDup_remove_2 in Hnd. apply Hnd. apply in_or_app. left; exact Hin.
      - apply (Hb (n_key n)); [left; reflexivity | exact Hin]. }
    rewrite Hm.
    rewrite first_missing_none.
    2:{ intros r Hr. destruct (Href [] n t eq_refl r Hr) as [H1|H1]; apply in_or_app; [left|right; exact H1].
        simpl in H1. rewrite app_nil_r in H1. exact H1. }
    rewrite IH.
    + rewrite <- app_assoc. reflexivity.
    + unfold dkeys in *. rewrite map_app. simpl. rewrite <- app_assoc. simpl. exact Hnd.
    + intros k Hk. apply Hb. right; exact Hk.
    + intros l1 m l2 E r Hr. subst t.
      destruct (Href (n :: l1) m l2 eq_refl r Hr) as [H1|H1]; [left | right; exact H1].
      unfold dkeys in *. rewrite map_app. simpl in *. rewrite <- app_assoc. simpl. exact H1.
Qed.

(* ------------------------------------------------------------------------- *)
(* find_node / pick                                                          *)
(* ------------------------------------------------------------------------- *)

Lemma find_node_In k d n : find_node k d = Some n -> In n d /\ n_key n = k.
Proof.
  induction d as [|m t IH]; simpl; [discriminate|].
  destruct (N.eqb k (n_key m)) eqn:E.
  - intros H. inversion H. subst. apply N.eqb_eq in E. split; [left; reflexivity | symmetry; exact E].
  - intros H. destruct (IH H) as [H1 H2]. split; [right; exact H1 | exact H2].
Qed.

Lemma find_node_key d : NoDup (dkeys d) -> forall n, In n d -> find_node (n_key n) d = Some n.
Proof.
  induction d as [|m t IH]; intros Hnd n Hin; [contradiction|].
  simpl in *. inversion Hnd as [|? ? Hni Hnd']. subst.
  destruct Hin as [->|Hin].
  - rewrite N.eqb_refl. reflexivity.
  - destruct (N.eqb (n_key n) (n_key m)) eqn:E.
    + apply N.eqb_eq in E. exfalso. apply Hni. rewrite <- E. unfold dkeys. apply in_map. exact Hin.
    + apply IH; assumption.
Qed.

Lemma find_node_some k d : In k (dkeys d) -> exists n, find_node k d = Some n.
Proof.
  induction d as [|m t IH]; simpl; [contradiction|].
  intros [E|Hin].
  - subst k. rewrite N.eqb_refl. eexists; reflexivity.
  - destruct (N.eqb k (n_key m)); [eexists; reflexivity | apply IH; exact Hin].
Qed.

Lemma pick_keys d o : (forall k, In k o -> In k (dkeys d)) -> dkeys (pick d o) = o.
Proof.
  induction o as [|a o IH]; intros H; [reflexivity|].
  unfold pick in *. simpl.
  destruct (find_node_some a d (H a (or_introl eq_refl))) as [n Hn]. rewrite Hn.
  simpl. destruct (find_node_In _ _ _ Hn) as [_ E]. rewrite E. f_equal.
  apply IH. intros k Hk. apply H. right; exact Hk.
Qed.

Lemma pick_sub d l : (forall n, In n l -> find_node (n_key n) d = Some n) -> pick d (dkeys l) = l.
Proof.
  induction l as [|n l IH]; intros H; [reflexivity|].
  unfold pick in *. simpl. rewrite (H n (or_introl eq_refl)). simpl. f_equal.
  apply IH. intros m Hm. apply H. right; exact Hm.
Qed.

Lemma pick_self d : NoDup (dkeys d) -> pick d (dkeys d) = d.
Proof. intros H. apply pick_sub. intros n Hn. apply find_node_key; assumption. Qed.

Lemma pick_perm d o : NoDup (dkeys d) -> Permutation o (dkeys d) -> Permutation (pick d o) d.
Proof.
  intros Hnd Hp. rewrite <- (pick_self d Hnd) at 2.
  unfold pick. apply Permutation_flat_map. exact Hp.
Qed.

(* position of an element of a duplicate-free list is unique *)
Lemma nodup_split_unique (k : N) : forall o x1 y1 x2 y2,
  NoDup o -> o = x1 ++ k :: y1 -> o = x2 ++ k :: y2 -> x1 = x2.
Proof.
  intros o x1. revert o. induction x1 as [|b x1 IH]; intros o y1 x2 y2 Hnd E1 E2.
  - destruct x2 as [|c x2]; [reflexivity|]. exfalso. subst o. simpl in E2. injection E2 as Ec Et. subst c.
    simpl in Hnd. inversion Hnd as [|? ? Hni _]. apply Hni. rewrite Et. apply in_or_app. right. left. reflexivity.
  - destruct x2 as [|c x2].
    + exfalso. subst o. simpl in E2. injection E2 as Ec Et. subst b. simpl in Hnd.
      inversion Hnd as [|? ? Hni _]. apply Hni. apply in_or_app. right; left; reflexivity.
    + subst o. simpl in E2. injection E2 as Ec Et. subst c. f_equal. simpl in Hnd.
      inversion Hnd as [|? ? _ Hnd']. subst.
      eapply IH; [exact Hnd' | reflexivity | exact Et].
Qed.

(* ------------------------------------------------------------------------- *)
(* the graph handed to the sort, in terms of the document                    *)
(* ------------------------------------------------------------------------- *)

Lemma keys_graph_of base d : keys (graph_of base d) = dkeys d.
Proof. unfold graph_of, keys, dkeys. rewrite map_map. apply map_ext. reflexivity. Qed.

Lemma In_graph_of base d a rn :
  In (a, rn) (graph_of base d) <-> exists n, In n d /\ node_entry (dkeys d) base n = (a, rn).
Proof.
  unfold graph_of. rewrite in_map_iff. split; intros [n [H1 H2]]; exists n; auto.
Qed.

Lemma keep_declared declared base x : In x declared -> keep declared base x = true.
Proof. intros H. unfold keep. rewrite (proj2 (memk_In x declared) H). reflexivity. Qed.

Lemma keep_undeclared declared base x : ~ In x declared -> (keep declared base x = true <-> ~ In x base).
Proof.
  intros H. unfold keep. rewrite (proj2 (memk_nIn x declared) H). simpl.
  rewrite negb_true_iff. apply memk_nIn.
Qed.

Lemma In_nf declared base l b :
  In b (norm (filter (keep declared base) l)) <-> In b l /\ keep declared base b = true.
Proof. rewrite norm_In, filter_In. tauto. Qed.

(* what "really refers to" means: strong references and loop-control entries between declared items *)
Definition hard_rel (d : doc) (a b : N) : Prop :=
  exists n, In n d /\ n_key n = a /\ In b (n_refs n) /\ In b (dkeys d).
Definition ref_rel (d : doc) (a b : N) : Prop :=
  exists n, In n d /\ n_key n = a /\ (In b (n_refs n) \/ In b (n_lctl n)) /\ In b (dkeys d).
(* a reference to something that exists neither in the document nor in the base schema *)
Definition dangles (base : list N) (d : doc) (x k : N) : Prop :=
  exists n, In n d /\ n_key n = k /\ ~ In x (dkeys d) /\
            (((In x (n_refs n) \/ In x (n_weak n)) /\ ~ In x base) \/ In x (n_lctl n)).

Lemma rhard_graph base d a b : rhard (graph_of base d) a b <-> hard_rel d a b.
Proof.
  unfold rhard, hard_rel. rewrite keys_graph_of. split.
  - intros [rn [Hin [Hb Hk]]]. apply In_graph_of in Hin. destruct Hin as [n [Hn E]].
    unfold node_entry in E. inversion E. subst. clear E. exists n. split; [exact Hn|]. split; [reflexivity|].
    split; [|exact Hk]. destruct Hb as [Hb|Hb]; [contradiction|]. simpl in Hb. apply In_nf in Hb. tauto.
  - intros [n [Hn [E [Hb Hk]]]]. exists (snd (node_entry (dkeys d) base n)).
    split; [|split; [|exact Hk]].
    + apply In_graph_of. exists n. split; [exact Hn|]. unfold node_entry. simpl. rewrite E. reflexivity.
    + right. simpl. apply In_nf. split; [exact Hb | apply keep_declared; exact Hk].
Qed.

Lemma rctl_graph base d a b :
  rctl (graph_of base d) a b <-> exists n, In n d /\ n_key n = a /\ In b (n_lctl n) /\ In b (dkeys d).
Proof.
  unfold rctl. rewrite keys_graph_of. split.
  - intros [rn [Hin [Hb Hk]]]. apply In_graph_of in Hin. destruct Hin as [n [Hn E]].
    unfold node_entry in E. inversion E. subst. clear E. exists n. simpl in Hb. tauto.
  - intros [n [Hn [E [Hb Hk]]]]. exists (snd (node_entry (dkeys d) base n)).
    split; [|split; [exact Hb | exact Hk]].
    apply In_graph_of. exists n. split; [exact Hn|]. unfold node_entry. simpl. rewrite E. reflexivity.
Qed.

Lemma rE_graph base d a b : rE (graph_of base d) a b <-> ref_rel d a b.
Proof.
  unfold rE, ref_rel. rewrite rhard_graph, rctl_graph. unfold hard_rel. split.
  - intros [[n [H1 [H2 [H3 H4]]]]|[n [H1 [H2 [H3 H4]]]]]; exists n; tauto.
  - intros [n [H1 [H2 [[H3|H3] H4]]]]; [left | right]; exists n; tauto.
Qed.

Lemma dangling_graph base d x k : dangling (graph_of base d) x k <-> dangles base d x k.
Proof.
  unfold dangling, dangles. rewrite keys_graph_of. split.
  - intros [rn [Hin [Hr Hk]]]. apply In_graph_of in Hin. destruct Hin as [n [Hn E]].
    unfold node_entry in E. inversion E. subst. clear E. exists n. split; [exact Hn|]. split; [reflexivity|].
    split; [exact Hk|]. unfold refs, mlist in Hr. simpl in Hr.
    rewrite !in_app_iff in Hr. destruct Hr as [Hr|[Hr|Hr]].
    + apply In_nf in Hr. destruct Hr as [H1 H2]. apply keep_undeclared in H2; [|exact Hk]. left. tauto.
    + apply In_nf in Hr. destruct Hr as [H1 H2]. apply keep_undeclared in H2; [|exact Hk]. left. tauto.
    + right. exact Hr.
  - intros [n [Hn [E [Hk Hc]]]]. exists (snd (node_entry (dkeys d) base n)).
    split; [|split; [|exact Hk]].
    + apply In_graph_of. exists n. split; [exact Hn|]. unfold node_entry. simpl. rewrite E. reflexivity.
    + unfold refs, mlist. simpl. rewrite !in_app_iff.
      destruct Hc as [[[H1|H1] H2]|H1].
      * right. left. apply In_nf. split; [exact H1 | apply keep_undeclared; assumption].
      * left. apply In_nf. split; [exact H1 | apply keep_undeclared; assumption].
      * right. right. exact H1.
Qed.

Lemma clos_trans_mono (R R' : key -> key -> Prop) :
  (forall a b, R a b -> R' a b) -> forall x y, clos_trans key R x y -> clos_trans key R' x y.
Proof.
  intros H x y Hc. induction Hc as [x y Hs|x y z _ IH1 _ IH2].
  - apply t_step. apply H. exact Hs.
  - eapply t_trans; eassumption.
Qed.

Lemma cyclic_ext (R R' : key -> key -> Prop) : (forall a b, R a b <-> R' a b) -> (cyclic R <-> cyclic R').
Proof.
  intros H. unfold cyclic. split; intros [x Hx]; exists x;
    (eapply clos_trans_mono; [|exact Hx]); intros a b; apply H.
Qed.

Lemma cyclic_graph base d : cyclic (rE (graph_of base d)) <-> cyclic (ref_rel d).
Proof. apply cyclic_ext. intros a b. apply rE_graph. Qed.

(* ------------------------------------------------------------------------- *)
(* duplicates                                                                *)
(* ------------------------------------------------------------------------- *)

Lemma first_dup_none d : forall seen,
  first_dup seen d = None <-> (NoDup (dkeys d) /\ forall k, In k (dkeys d) -> ~ In k seen).
Proof.
  induction d as [|n t IH]; intros seen; simpl.
  - split; [intros _; split; [constructor | intros k []] | reflexivity].
  - destruct (memk (n_key n) seen) eqn:E.
    + split; [discriminate|]. intros [_ H]. exfalso. apply (H (n_key n)); [left; reflexivity|].
      apply memk_In. exact E.
    + rewrite IH. apply memk_nIn in E. split.
      * intros [Hnd H]. split.
        -- constructor; [|exact Hnd]. intros Hin. apply (H _ Hin). left; reflexivity.
        -- intros k [<-|Hk]; [exact E|]. intros Hs. apply (H k Hk). right; exact Hs.
      * intros [Hnd H]. inversion Hnd as [|? ? Hni Hnd']. subst. split; [exact Hnd'|].
        intros k Hk [<-|Hs]; [apply Hni; exact Hk | apply (H k); [right; exact Hk | exact Hs]].
Qed.

Lemma first_dup_nodup d : first_dup [] d = None <-> NoDup (dkeys d).
Proof. rewrite first_dup_none. split; [tauto | intros H; split; [exact H | intros k _ []]]. Qed.

(* ------------------------------------------------------------------------- *)
(* the classification of sdl_apply                                           *)
(* ------------------------------------------------------------------------- *)

Definition disjoint_base (base : list N) (d : doc) : Prop := forall k, In k (dkeys d) -> ~ In k base.
Definition no_dangling (base : list N) (d : doc) : Prop := forall x k, ~ dangles base d x k.

Lemma refs_closed base d : no_dangling base d ->
  forall n r, In n d -> In r (n_refs n) -> In r (dkeys d) \/ In r base.
Proof.
  intros Hnd n r Hn Hr.
  destruct (memk r (dkeys d)) eqn:E1; [left; apply memk_In; exact E1|].
  destruct (memk r base) eqn:E2; [right; apply memk_In; exact E2|].
  exfalso. apply (Hnd r (n_key n)). exists n. split; [exact Hn|]. split; [reflexivity|].
  split; [apply memk_nIn; exact E1|]. left. split; [left; exact Hr | apply memk_nIn; exact E2].
Qed.

(* a sorted order can be applied, and yields exactly the document's declarations *)
Lemma sorted_applies base d o :
  NoDup (dkeys d) -> disjoint_base base d -> no_dangling base d ->
  sort_ex false (graph_of base d) = Sorted o ->
  apply_all base [] (pick d o) = inl (pick d o) /\ Permutation (pick d o) d.
Proof.
  intros Hnd Hdis Hdang Hs.
  assert (Hnd' : NoDup (keys (graph_of base d))) by (rewrite keys_graph_of; exact Hnd).
  pose proof (C20_perm false _ o Hnd' Hs) as Hperm. rewrite keys_graph_of in Hperm.
  pose proof (C20_hard false _ o Hnd' Hs) as Hhard.
  assert (Hok : forall k, In k o -> In k (dkeys d)) by (intros k Hk; eapply Permutation_in; eassumption).
  pose proof (pick_keys d o Hok) as Hpk.
  assert (Hndo : NoDup o) by (eapply Permutation_NoDup; [apply Permutation_sym; exact Hperm | exact Hnd]).
  pose proof (pick_perm d o Hnd Hperm) as Hpp.
  split; [|exact Hpp].
  change (pick d o) with ([] ++ pick d o) at 2.
  apply apply_all_ok.
  - simpl. rewrite Hpk. exact Hndo.
  - intros k Hk. rewrite Hpk in Hk. apply Hdis. apply Hok. exact Hk.
  - intros l1 n l2 E r Hr. simpl.
    assert (Hn : In n d).
    { eapply Permutation_in; [exact Hpp|]. rewrite E. apply in_or_app. right. left. reflexivity. }
    destruct (refs_closed base d Hdang n r Hn Hr) as [Hk|Hb]; [left | right; exact Hb].
    assert (Hb : before r (n_key n) o).
    { apply Hhard. apply rhard_graph. exists n. auto. }
    destruct Hb as [a [b [c Eo]]].
    assert (Eo2 : o = dkeys l1 ++ n_key n :: dkeys l2).
    { rewrite <- Hpk. rewrite E. unfold dkeys. rewrite map_app. reflexivity. }
    assert (E3 : o = (a ++ r :: b) ++ n_key n :: c) by (rewrite Eo; rewrite <- app_assoc; reflexivity).
    rewrite (nodup_split_unique (n_key n) o _ _ _ _ Hndo Eo2 E3).
    apply in_or_app. right. left. reflexivity.
Qed.

Inductive sdl_class (base : list N) (d : doc) : sdl_result -> Prop :=
| cl_dup k : ~ NoDup (dkeys d) -> sdl_class base d (SDup k)
| cl_unres x k : NoDup (dkeys d) -> dangles base d x k -> sdl_class base d (SUnresolved x k)
| cl_cycle c : NoDup (dkeys d) -> no_dangling base d -> cyclic (ref_rel d) -> sdl_class base d (SCycle c)
| cl_ok s : NoDup (dkeys d) -> no_dangling base d -> ~ cyclic (ref_rel d) -> Permutation s d ->
            sdl_class base d (SOk s).

Lemma sdl_spec base d : disjoint_base base d -> sdl_class base d (sdl_apply base d).
Proof.
  intros Hdis. unfold sdl_apply.
  destruct (first_dup [] d) as [k|] eqn:Ed.
  - apply cl_dup. intros Hnd. apply first_dup_nodup in Hnd. rewrite Hnd in Ed. discriminate.
  - apply first_dup_nodup in Ed.
    assert (Hnd' : NoDup (keys (graph_of base d))) by (rewrite keys_graph_of; exact Ed).
    destruct (sort_ex false (graph_of base d)) as [o|c|x k|] eqn:Es.
    + assert (Hdang : no_dangling base d).
      { intros x k Hd. apply dangling_graph in Hd.
        destruct (C20_unresolved_complete false _ Hnd' eq_refl (ex_intro _ x (ex_intro _ k Hd))) as [x' [k' E]].
        rewrite Es in E. discriminate. }
      destruct (sorted_applies base d o Ed Hdis Hdang Es) as [Ha Hp]. rewrite Ha.
      apply cl_ok; try assumption.
      intros Hc. apply cyclic_graph with (base := base) in Hc.
      assert (Hres : resolvable false (graph_of base d)).
      { right. intros x k Hd. apply (Hdang x k). apply dangling_graph. exact Hd. }
      destruct (C20_cycle_complete false _ Hnd' Hres Hc) as [c E]. rewrite Es in E. discriminate.
    + assert (Hdang : no_dangling base d).
      { intros x k Hd. apply dangling_graph in Hd.
        destruct (C20_unresolved_complete false _ Hnd' eq_refl (ex_intro _ x (ex_intro _ k Hd))) as [x' [k' E]].
        rewrite Es in E. discriminate. }
      apply cl_cycle; try assumption.
      apply (cyclic_graph base d). eapply C20_cycle_sound; eassumption.
    + apply cl_unres; [exact Ed|]. apply dangling_graph.
      destruct (C20_unresolved_sound false _ x k Hnd' Es) as [_ H]. exact H.
    + exfalso. eapply C20_fuel_enough; eassumption.
Qed.

(* ---- the four conditions do not depend on the order of the document ---- *)
Section PermInv.
  Variables (base : list N) (d d' : doc).
  Hypothesis Hp : Permutation d d'.

  Lemma perm_keys : Permutation (dkeys d) (dkeys d').
  Proof. unfold dkeys. apply Permutation_map. exact Hp. Qed.

  Lemma perm_in_keys k : In k (dkeys d) <-> In k (dkeys d').
  Proof. split; apply Permutation_in; [exact perm_keys | apply Permutation_sym; exact perm_keys]. Qed.

  Lemma perm_in n : In n d <-> In n d'.
  Proof. split; apply Permutation_in; [exact Hp | apply Permutation_sym; exact Hp]. Qed.

  Lemma perm_nodup : NoDup (dkeys d) <-> NoDup (dkeys d').
  Proof. split; apply Permutation_NoDup; [exact perm_keys | apply Permutation_sym; exact perm_keys]. Qed.

  Lemma perm_ref_rel a b : ref_rel d a b <-> ref_rel d' a b.
  Proof.
    unfold ref_rel. split; intros [n [H1 [H2 [H3 H4]]]]; exists n;
      (split; [apply perm_in; exact H1|]); (split; [exact H2|]); (split; [exact H3|]); apply perm_in_keys; exact H4.
  Qed.

  Lemma perm_dangles x k : dangles base d x k <-> dangles base d' x k.
  Proof.
    unfold dangles. split; intros [n [H1 [H2 [H3 H4]]]]; exists n;
      (split; [apply perm_in; exact H1|]); (split; [exact H2|]); (split; [|exact H4]);
      intros H; apply H3; apply perm_in_keys; exact H.
  Qed.

  Lemma perm_disjoint : disjoint_base base d <-> disjoint_base base d'.
  Proof. unfold disjoint_base. split; intros H k Hk; apply H; apply perm_in_keys; exact Hk. Qed.

  Lemma perm_cyclic : cyclic (ref_rel d) <-> cyclic (ref_rel d').
  Proof. apply cyclic_ext. exact perm_ref_rel. Qed.
End PermInv.

(* same outcome class; accepted documents give the same declarations (hence the same finite map) *)
Definition same_outcome (r r' : sdl_result) : Prop :=
  match r, r' with
  | SOk s, SOk s' => Permutation s s'
  | SDup _, SDup _ => True
  | SCycle _, SCycle _ => True
  | SUnresolved _ _, SUnresolved _ _ => True
  | _, _ => False
  end.

Lemma p_order_irrelevant base d d' :
  Permutation d d' -> disjoint_base base d ->
  same_outcome (sdl_apply base d) (sdl_apply base d').
Proof.
  intros Hp Hdis.
  pose proof (sdl_spec base d Hdis) as H1.
  pose proof (sdl_spec base d' (proj1 (perm_disjoint base d d' Hp) Hdis)) as H2.
  destruct H1 as [k Hn|x k Hn Hd|c Hn Hd Hc|s Hn Hd Hc Hs];
  destruct H2 as [k' Hn'|x' k' Hn' Hd'|c' Hn' Hd' Hc'|s' Hn' Hd' Hc' Hs']; simpl; try exact I;
  try (exfalso; apply Hn; apply (perm_nodup d d' Hp); assumption);
  try (exfalso; apply Hn'; apply (perm_nodup d d' Hp); assumption);
  try (exfalso; apply (Hd' x k); apply (perm_dangles base d d' Hp); assumption);
  try (exfalso; apply (Hd x' k'); apply (perm_dangles base d d' Hp); assumption);
  try (exfalso; apply Hc'; apply (perm_cyclic d d' Hp); assumption);
  try (exfalso; apply Hc; apply (perm_cyclic d d' Hp); assumption).
  eapply Permutation_trans; [exact Hs|]. eapply Permutation_trans; [exact Hp|]. apply Permutation_sym. exact Hs'.
Qed.

(* cycle error iff the declarations really are cyclic *)
Lemma p_cycle_iff base d :
  disjoint_base base d -> NoDup (dkeys d) -> no_dangling base d ->
  ((exists c, sdl_apply base d = SCycle c) <-> cyclic (ref_rel d)).
Proof.
  intros Hdis Hnd Hdang. pose proof (sdl_spec base d Hdis) as H. split.
  - intros [c E]. rewrite E in H. inversion H. assumption.
  - intros Hc. destruct H as [k Hn|x k Hn Hd|c Hn Hd Hc'|s Hn Hd Hc' Hs].
    + contradiction.
    + exfalso. apply (Hdang x k). exact Hd.
    + exists c. reflexivity.
    + contradiction.
Qed.

(* an acyclic, closed, duplicate-free document is accepted in any order, with exactly its declarations *)
Lemma p_accepts base d :
  disjoint_base base d -> NoDup (dkeys d) -> no_dangling base d -> ~ cyclic (ref_rel d) ->
  exists s, sdl_apply base d = SOk s /\ Permutation s d.
Proof.
  intros Hdis Hnd Hdang Hac. pose proof (sdl_spec base d Hdis) as H.
  destruct H as [k Hn|x k Hn Hd|c Hn Hd Hc'|s Hn Hd Hc' Hs].
  - contradiction.
  - exfalso. apply (Hdang x k). exact Hd.
  - contradiction.
  - exists s. split; [reflexivity | exact Hs].
Qed.

Lemma p_accepted_inv base d s :
  disjoint_base base d -> sdl_apply base d = SOk s ->
  NoDup (dkeys d) /\ no_dangling base d /\ ~ cyclic (ref_rel d) /\ Permutation s d.
Proof.
  intros Hdis E. pose proof (sdl_spec base d Hdis) as H. rewrite E in H. inversion H. tauto.
Qed.

(* the listing of the traced references (order, duplicates: Python sets) is irrelevant: the graph
   handed to the sort is literally the same *)
Definition same_sets (n m : dnode) : Prop :=
  n_key n = n_key m /\ (forall x, In x (n_refs n) <-> In x (n_refs m)) /\
  (forall x, In x (n_weak n) <-> In x (n_weak m)) /\ n_lctl n = n_lctl m.

Lemma filter_In_ext (f : N -> bool) l l' : (forall x, In x l <-> In x l') ->
  forall x, In x (filter f l) <-> In x (filter f l').
Proof. intros H x. rewrite !filter_In. rewrite H. tauto. Qed.

Lemma p_graph_sets base : forall d d', Forall2 same_sets d d' -> graph_of base d = graph_of base d'.
Proof.
  intros d d' H.
  assert (Hk : dkeys d = dkeys d').
  { induction H as [|n m l l' [E _] _ IH]; [reflexivity|]. simpl. rewrite E, IH. reflexivity. }
  unfold graph_of. rewrite Hk. clear Hk. generalize (dkeys d') as dk. intros dk.
  induction H as [|n m l l' [E [H1 [H2 H3]]] _ IH]; [reflexivity|].
  simpl. rewrite IH. f_equal. unfold node_entry. rewrite E, H3. f_equal. f_equal.
  - apply norm_ext. apply filter_In_ext. exact H2.
  - apply norm_ext. apply filter_In_ext. exact H1.
Qed.

(* the same finite map *)
Lemma perm_find_node d d' : Permutation d d' -> NoDup (dkeys d) -> forall k, find_node k d = find_node k d'.
Proof.
  intros Hp Hnd k.
  assert (Hnd' : NoDup (dkeys d')) by (apply (perm_nodup d d' Hp); exact Hnd).
  destruct (find_node k d) as [n|] eqn:E.
  - destruct (find_node_In _ _ _ E) as [Hin Hk]. subst k. symmetry. apply find_node_key; [exact Hnd'|].
    eapply Permutation_in; eassumption.
  - destruct (find_node k d') as [n|] eqn:E'; [|reflexivity].
    destruct (find_node_In _ _ _ E') as [Hin Hk]. subst k.
    assert (In n d) by (eapply Permutation_in; [apply Permutation_sym; exact Hp | exact Hin]).
    rewrite (find_node_key d Hnd n H) in E. discriminate.
Qed.

(* ------------------------------------------------------------------------- *)
(* nested documents                                                          *)
(* ------------------------------------------------------------------------- *)

(* permuting module blocks, declarations of a block, and members of a declaration, at any depth *)
Inductive iperm : item -> item -> Prop :=
| iperm_intro n ms ms' : lperm ms ms' -> iperm (Item n ms) (Item n ms')
with lperm : list item -> list item -> Prop :=
| lp_nil : lperm [] []
| lp_skip x x' l l' : iperm x x' -> lperm l l' -> lperm (x :: l) (x' :: l')
| lp_swap x y l : lperm (y :: x :: l) (x :: y :: l)
| lp_trans l1 l2 l3 : lperm l1 l2 -> lperm l2 l3 -> lperm l1 l3.

Scheme iperm_ind2 := Induction for iperm Sort Prop
  with lperm_ind2 := Induction for lperm Sort Prop.

Lemma lperm_flat : forall l l', lperm l l' -> Permutation (flat_map flat_item l) (flat_map flat_item l').
Proof.
  apply (lperm_ind2
    (fun x x' _ => Permutation (flat_item x) (flat_item x'))
    (fun l l' _ => Permutation (flat_map flat_item l) (flat_map flat_item l'))).
  - intros n ms ms' _ IH. simpl. apply perm_skip. exact IH.
  - apply perm_nil.
  - intros x x' l l' _ IHx _ IHl. simpl. apply Permutation_app; assumption.
  - intros x y l. simpl. rewrite !app_assoc. apply Permutation_app_tail. apply Permutation_app_comm.
  - intros l1 l2 l3 _ IH1 _ IH2. eapply Permutation_trans; eassumption.
Qed.

(* blocks: same module name, permuted declarations; and the blocks themselves permuted *)
Inductive bperm : document -> document -> Prop :=
| bp_nil : bperm [] []
| bp_skip m l l' D D' : lperm l l' -> bperm D D' -> bperm ((m, l) :: D) ((m, l') :: D')
| bp_swap b1 b2 D : bperm (b2 :: b1 :: D) (b1 :: b2 :: D)
| bp_split m l1 l2 D : bperm ((m, l1 ++ l2) :: D) ((m, l1) :: (m, l2) :: D)   (* one block written as two *)
| bp_trans D1 D2 D3 : bperm D1 D2 -> bperm D2 D3 -> bperm D1 D3.

Lemma bperm_flat D D' : bperm D D' -> Permutation (flatten D) (flatten D').
Proof.
  unfold flatten. induction 1 as [|m l l' D D' Hl _ IH|b1 b2 D|m l1 l2 D|D1 D2 D3 _ IH1 _ IH2]; simpl.
  - apply perm_nil.
  - apply Permutation_app; [apply lperm_flat; exact Hl | exact IH].
  - rewrite !app_assoc. apply Permutation_app_tail. apply Permutation_app_comm.
  - rewrite flat_map_app. rewrite app_assoc. apply Permutation_refl.
  - eapply Permutation_trans; eassumption.
Qed.

Lemma p_nested base D D' :
  bperm D D' -> disjoint_base base (flatten D) ->
  same_outcome (sdl_apply base (flatten D)) (sdl_apply base (flatten D')).
Proof. intros H Hd. apply p_order_irrelevant; [apply bperm_flat; exact H | exact Hd]. Qed.
