(* C07 -- what is FALSE of the faithful registration model (witnesses computed by vm_compute and
   replayed on the real compiler by the corpus cases 03, 05, 06, 10 of corpus/C07).

   The "ideal" registration claim -- once a type has been referenced outside any policy body,
   every concrete child that carries policies in force has its own rewrite registered -- fails
   in two ways:

   (order)    the first reference happened inside a policy body (ctx.suppress_rewrites <> {}):
              the std type's rewrite is cached with all user children ignored, and the later
              reference outside the body reuses it (known finding
              C07-std-rewrite-cached-in-policy);
   (overlap)  the children_overlap branch of try_type_rewrite unions the descendants of the
              children but not the children themselves (not a policy bypass: the children's
              objects are simply missing from the result; reported as a side finding). *)
From Coq Require Import List NArith Bool.
Import ListNotations.
From Verif.C07 Require Import Model.

Definition registration_ideal : Prop :=
  forall o sup n k,
    o_apply_query_rewrites o = true ->
    let m1 := fst (new_set o sup n false false []) in      (* first reference, any context *)
    let m2 := fst (new_set o [] n false false m1) in       (* later reference outside policies *)
    In k (t_kids n) -> t_material k = true -> has_policies_in_force o k false = true ->
    rw_get m2 (t_id k, false) <> None.

(* std::Object-like abstract std type 100 with one user child 2 carrying policy 1 *)
Definition w_child := TNode 2 true false true [mkPol 1 true []] [].
Definition w_object := TNode 100 false true true [] [w_child].

Theorem C07_registration_order_refuted : ~ registration_ideal.
Proof.
  intros H.
  specialize (H (mkOpts true true) [2%N] w_object w_child eq_refl).
  vm_compute in H. apply H; auto.
Qed.
Print Assumptions C07_registration_order_refuted.

(* even with both references outside policy bodies: T (2) with children T1 (3, own policy 5)
   and T2 (4), and T12 (5) below both *)
Definition w_p1i (from : list N) := mkPol 1 true from.
Definition w_T12 := TNode 5 true false true [mkPol 5 true [3%N]; w_p1i [3%N; 4%N]] [].
Definition w_T1 := TNode 3 true false true [mkPol 5 true []; w_p1i [2%N]] [w_T12].
Definition w_T2 := TNode 4 true false true [w_p1i [2%N]] [w_T12].
Definition w_T := TNode 2 true false true [mkPol 1 true []] [w_T1; w_T2].

Theorem C07_registration_overlap_refuted :
  exists o n k,
    o_apply_query_rewrites o = true /\ In k (t_kids n) /\ t_material k = true /\
    has_policies_in_force o k false = true /\
    rw_get (fst (new_set o [] n false false [])) (t_id k, false) = None.
Proof.
  exists (mkOpts true true), w_T, w_T1. vm_compute. repeat split; auto.
Qed.
Print Assumptions C07_registration_overlap_refuted.

(* what the model computes for the two witnesses (compared with the real compiler by the
   correspondence cases of corpus/C07) *)
Example w_order_maps :
  fst (new_set (mkOpts true true) [2%N] w_object false false []) = [((100%N, false), RwUnion 1)]
  /\ fst (new_set (mkOpts true true) [] w_object false false []) =
     [((100%N, false), RwUnion 1); ((2%N, false), RwFilter)].
Proof. vm_compute. split; reflexivity. Qed.

Example w_overlap_map :
  fst (new_set (mkOpts true true) [] w_T false false []) =
  [((2%N, false), RwUnion 2); ((2%N, true), RwFilter); ((5%N, true), RwFilter); ((5%N, false), RwFilter)].
Proof. vm_compute. reflexivity. Qed.
