(* C07 -- access policies guard every read path: the theorems.
   Validator theorems quantify over ALL abstract query trees, ALL policy specs, ALL operator
   interpretations, ALL clause semantics and ALL databases.  Registration theorems quantify
   over ALL unfolded type hierarchies, options, suppress sets and prior type_rewrites maps. *)
From Coq Require Import List NArith Bool.
Import ListNotations.
From Verif.C07 Require Import Model Proofs.

(* A tree accepted by the validator computes a function of what the policies let the
   session see: two databases with equal views give equal results -- whatever the other SQL
   constructs mean (interp), whatever the policy clauses mean (asem, evaluated with full
   visibility of the database). *)
Theorem C07_noninterference :
  forall (row : Type) (interp : N -> list (list row) -> list row)
         (asem : N -> db row -> row -> bool) (sp : spec) (t : tree),
    guarded sp [] t = true ->
    forall d d' : db row,
      (forall x, view asem sp d x = view asem sp d' x) ->
      eval interp asem d [] t = eval interp asem d' [] t.
Proof. exact noninterference. Qed.
Print Assumptions C07_noninterference.

(* The validator is not stricter than the property: if it rejects a closed tree all of whose
   Guard nodes are valid policy filters (so the rejection comes from a scan of a protected
   table, directly or through a CTE, outside a policy filter), then there are an
   interpretation and two databases with equal views and different results.  Side condition:
   every policy formula of the spec is falsifiable (a table whose policies always allow is
   not distinguishable; the validator still rejects raw scans of it). *)
Theorem C07_guarded_complete :
  forall (sp : spec) (t : tree),
    spec_falsifiable sp = true ->
    closed [] t = true ->
    guards_valid sp [] t = true ->
    guarded sp [] t = false ->
    exists (interp : N -> list (list N) -> list N) (asem : N -> db N -> N -> bool) (d d' : db N),
      (forall x, view asem sp d x = view asem sp d' x) /\
      eval interp asem d [] t <> eval interp asem d' [] t.
Proof.
  intros sp t Hf Hc Hv Hg.
  exists interpC, (asemC sp), (db0 sp), db1. now apply complete.
Qed.
Print Assumptions C07_guarded_complete.

(* The truth-table test of a WHERE formula against the policy formula is exact. *)
Theorem C07_cond_sound :
  forall pols k, cond_ok pols k = true -> forall v, ceval v k = formula pols v.
Proof. exact cond_ok_sound. Qed.
Print Assumptions C07_cond_sound.

Theorem C07_cond_complete :
  forall pols k x, cond_ok pols k = false ->
    exists (asem : N -> db N -> N -> bool) (d : db N),
      eval interpC asem d [] (Guard (Scan x) k []) <> view asem [(x, pols)] d x.
Proof. exact wrong_condition_detected. Qed.
Print Assumptions C07_cond_complete.

(* Registration (model of setgen.new_set / policies.try_type_rewrite / should_ignore_rewrite,
   non-compound object types).  With query rewrites on, a new object-typed set is marked
   ignore_rewrites exactly when should_ignore_rewrite says so (which needs a non-empty
   ctx.suppress_rewrites, i.e. a policy body), and otherwise its (type, skip_subtypes) key is
   present in env.type_rewrites afterwards -- for every prior map, hierarchy and options. *)
Theorem C07_registration :
  forall o sup n skip m,
    o_apply_query_rewrites o = true ->
    snd (new_set o sup n skip false m) = should_ignore_rewrite sup n /\
    (should_ignore_rewrite sup n = false ->
     rw_get (fst (new_set o sup n skip false m)) (t_id n, skip) <> None).
Proof. exact reg_present. Qed.
Print Assumptions C07_registration.

Theorem C07_registration_outside_policy :
  forall n, should_ignore_rewrite [] n = false.
Proof. exact should_ignore_nil. Qed.
Print Assumptions C07_registration_outside_policy.

(* The first registration (outside a policy body) of a concrete type with policies in force
   -- its own, or own policies of a descendant unless skip_subtypes -- stores a real rewrite,
   not None. *)
Theorem C07_registration_nontrivial :
  forall o n skip m,
    o_apply_query_rewrites o = true ->
    rw_get m (t_id n, skip) = None ->
    has_policies_in_force o n skip = true ->
    t_abstract n = false ->
    exists v, rw_get (fst (new_set o [] n skip false m)) (t_id n, skip) = Some v /\ v <> RwNone.
Proof. exact reg_nontrivial. Qed.
Print Assumptions C07_registration_nontrivial.

Theorem C07_registration_leaf :
  forall o n skip m,
    o_apply_query_rewrites o = true ->
    rw_get m (t_id n, skip) = None ->
    (skip = true \/ existsb (has_own_policies o (t_id n)) (t_kids n) = false) ->
    rw_get (fst (new_set o [] n skip false m)) (t_id n, skip)
    = Some (match get_access_policies o n with [] => RwNone | _ :: _ => RwFilter end).
Proof. exact reg_leaf. Qed.
Print Assumptions C07_registration_leaf.

(* Outside policy bodies, first reference, children not overlapping: every concrete child of a
   type whose children carry own policies gets its own rewrite key registered (so the union
   rewrite of the parent refers to registered, separately filtered, child sets).  The
   overlapping case and the inside-a-policy-body case are false: see Refuted.v. *)
Theorem C07_registration_children :
  forall o n m k,
    o_apply_query_rewrites o = true ->
    rw_get m (t_id n, false) = None ->
    existsb (has_own_policies o (t_id n)) (t_kids n) = true ->
    has_dup (map t_id (all_descs (t_kids n))) = false ->
    In k (t_kids n) -> t_material k = true ->
    rw_get (fst (new_set o [] n false false m)) (t_id k, false) <> None.
Proof. exact reg_children. Qed.
Print Assumptions C07_registration_children.

(* computing a rewrite never removes a key that is already registered *)
Theorem C07_registration_monotone :
  forall o sup n m k,
    rw_get m k <> None ->
    rw_get (full o sup n m) k <> None /\ rw_get (visit o sup n m) k <> None.
Proof.
  intros o sup n m k H. destruct (full_visit_mono o sup n) as [A B]. split; [now apply A|now apply B].
Qed.
Print Assumptions C07_registration_monotone.

(* ---------------- non-vacuity ---------------- *)
(* policy of table 2: allow a1, deny (a7 and a2); table 3 inherits it; table 1 is free *)
Definition ex_pols : list policy := [(true, CAtom 1); (false, CAnd (CAtom 7) (CAtom 2))].
Definition ex_spec : spec := [(2%N, ex_pols); (3%N, ex_pols)].
Definition ex_cond : cond := COr (CAnd (CAtom 1) (CNot (CAnd (CAtom 7) (CAtom 2)))) (CConst false).
(* WITH c1 AS (t2 UNION ALL t3), c2 AS (SELECT FROM c1 WHERE <policy>) SELECT .. c2 JOIN t1 *)
Definition ex_good : tree :=
  Let 1 (Union [Scan 2; Scan 3])
      (Let 2 (Guard (Ref 1) ex_cond [Op 0 [Ref 1]])
           (Op 5 [Ref 2; Scan 1])).
Definition ex_bad : tree :=
  Let 1 (Union [Scan 2; Scan 3])
      (Let 2 (Guard (Ref 1) ex_cond [])
           (Op 5 [Ref 2; Op 6 [Scan 3]])).
Definition ex_badcond : tree := Guard (Scan 2) (CAtom 1) [].

Example ex_good_guarded : guarded ex_spec [] ex_good = true.
Proof. vm_compute. reflexivity. Qed.
Example ex_bad_rejected :
  guarded ex_spec [] ex_bad = false /\ guards_valid ex_spec [] ex_bad = true /\
  closed [] ex_bad = true /\ spec_falsifiable ex_spec = true.
Proof. vm_compute. repeat split. Qed.
Example ex_badcond_rejected : guarded ex_spec [] ex_badcond = false /\ cond_ok ex_pols (CAtom 1) = false.
Proof. vm_compute. split; reflexivity. Qed.
(* the premise of noninterference is satisfiable by two DIFFERENT databases *)
Example ex_views_equal_dbs_differ :
  let asem := fun (a : N) (_ : db N) (r : N) => N.eqb a 1 && N.eqb r 10 in
  let d : db N := fun x => if N.eqb x 2 then [10; 11]%N else [] in
  let d' : db N := fun x => if N.eqb x 2 then [10; 12]%N else [] in
  (forall x, view asem ex_spec d x = view asem ex_spec d' x) /\ d 2%N <> d' 2%N.
Proof.
  split.
  - intros x. unfold view, find_pols. simpl.
    destruct (N.eqb 2 x) eqn:E2; [apply N.eqb_eq in E2; subst; reflexivity|].
    destruct (N.eqb 3 x) eqn:E3; [apply N.eqb_eq in E3; subst; reflexivity|].
    destruct (N.eqb x 2) eqn:E; [apply N.eqb_eq in E; subst; discriminate|reflexivity].
  - simpl. discriminate.
Qed.

(* registration: T (id 2, concrete, policy p1) with children T1 (own policy p5) and T2 *)
Definition ex_p1 := mkPol 1 true [].
Definition ex_p1i (from : N) := mkPol 1 true [from].
Definition ex_p5 := mkPol 5 true [].
Definition ex_T1 := TNode 3 true false true [ex_p5; ex_p1i 2] [].
Definition ex_T2 := TNode 4 true false true [ex_p1i 2] [].
Definition ex_T := TNode 2 true false true [ex_p1] [ex_T1; ex_T2].
Definition ex_o := mkOpts true true.
Example ex_reg :
  fst (new_set ex_o [] ex_T false false [])
  = [((2%N, false), RwUnion 3); ((2%N, true), RwFilter); ((3%N, false), RwFilter); ((4%N, false), RwFilter)].
Proof. vm_compute. reflexivity. Qed.
Example ex_reg_in_policy_body :
  new_set ex_o [2%N; 3%N; 4%N] ex_T false false [] = ([], true).
Proof. vm_compute. reflexivity. Qed.
