(* C07 -- lemmas. *)
From Coq Require Import List NArith Bool Lia.
Import ListNotations.
From Verif.C07 Require Import Model.

(* ------------------------------------------------------------------ *)
(* induction principle for nested trees                                *)
(* ------------------------------------------------------------------ *)
Section TreeInd.
  Variable P : tree -> Prop.
  Hypothesis HScan : forall x, P (Scan x).
  Hypothesis HRef : forall c, P (Ref c).
  Hypothesis HOp : forall f ts, Forall P ts -> P (Op f ts).
  Hypothesis HUnion : forall ts, Forall P ts -> P (Union ts).
  Hypothesis HLet : forall c d b, P d -> P b -> P (Let c d b).
  Hypothesis HGuard : forall base k aux, P base -> Forall P aux -> P (Guard base k aux).

  Fixpoint tree_ind' (t : tree) : P t :=
    let fix all (l : list tree) : Forall P l :=
        match l with
        | [] => Forall_nil P
        | x :: r => Forall_cons x (tree_ind' x) (all r)
        end in
    match t with
    | Scan x => HScan x
    | Ref c => HRef c
    | Op f ts => HOp f ts (all ts)
    | Union ts => HUnion ts (all ts)
    | Let c d b => HLet c d b (tree_ind' d) (tree_ind' b)
    | Guard base k aux => HGuard base k aux (tree_ind' base) (all aux)
    end.
End TreeInd.

(* ------------------------------------------------------------------ *)
(* unfolding the nested fixpoints                                      *)
(* ------------------------------------------------------------------ *)
Fixpoint rs_list (e : env) (l : list tree) : option (list N) :=
  match l with
  | [] => Some []
  | x :: r => match rawshape e x, rs_list e r with
              | Some a, Some b => Some (a ++ b)
              | _, _ => None
              end
  end.

Lemma rawshape_Union e ts : rawshape e (Union ts) = rs_list e ts.
Proof.
  induction ts as [|x r IH]; [reflexivity|].
  simpl in *. rewrite IH. reflexivity.
Qed.

Lemma guarded_Op sp e f ts : guarded sp e (Op f ts) = forallb (guarded sp e) ts.
Proof. induction ts as [|x r IH]; [reflexivity|]. simpl in *. rewrite IH. reflexivity. Qed.
Lemma guarded_Union sp e ts : guarded sp e (Union ts) = forallb (guarded sp e) ts.
Proof. induction ts as [|x r IH]; [reflexivity|]. simpl in *. rewrite IH. reflexivity. Qed.
Lemma guarded_Let sp e c d b :
  guarded sp e (Let c d b) = guarded sp ((c, classify sp e d) :: e) b.
Proof. reflexivity. Qed.
Lemma gv_Op sp e f ts : guards_valid sp e (Op f ts) = forallb (guards_valid sp e) ts.
Proof. induction ts as [|x r IH]; [reflexivity|]. simpl in *. rewrite IH. reflexivity. Qed.
Lemma gv_Union sp e ts : guards_valid sp e (Union ts) = forallb (guards_valid sp e) ts.
Proof. induction ts as [|x r IH]; [reflexivity|]. simpl in *. rewrite IH. reflexivity. Qed.
Lemma closed_Op bd f ts : closed bd (Op f ts) = forallb (closed bd) ts.
Proof. induction ts as [|x r IH]; [reflexivity|]. simpl in *. rewrite IH. reflexivity. Qed.
Lemma closed_Union bd ts : closed bd (Union ts) = forallb (closed bd) ts.
Proof. induction ts as [|x r IH]; [reflexivity|]. simpl in *. rewrite IH. reflexivity. Qed.

(* ------------------------------------------------------------------ *)
(* clause formulas                                                     *)
(* ------------------------------------------------------------------ *)
Lemma ceval_ext v v' c :
  (forall a, In a (catoms c) -> v a = v' a) -> ceval v c = ceval v' c.
Proof.
  induction c; simpl; intros H.
  - apply H; now left.
  - rewrite IHc1, IHc2; auto; intros; apply H; apply in_or_app; auto.
  - rewrite IHc1, IHc2; auto; intros; apply H; apply in_or_app; auto.
  - rewrite IHc; auto.
  - reflexivity.
Qed.

Lemma existsb_ext_in {A} (f g : A -> bool) l :
  (forall x, In x l -> f x = g x) -> existsb f l = existsb g l.
Proof.
  induction l; simpl; intros H; [reflexivity|].
  rewrite H by now left. rewrite IHl; auto.
Qed.

Lemma formula_ext pols v v' :
  (forall a, In a (pols_atoms pols) -> v a = v' a) -> formula pols v = formula pols v'.
Proof.
  intros H. unfold formula, allow_any, deny_any.
  assert (E : forall p, In p pols -> ceval v (snd p) = ceval v' (snd p)).
  { intros p Hp. apply ceval_ext. intros a Ha. apply H.
    unfold pols_atoms. apply in_flat_map. exists p; auto. }
  rewrite (existsb_ext_in (fun p => fst p && ceval v (snd p)) (fun p => fst p && ceval v' (snd p))).
  2:{ intros p Hp. now rewrite E. }
  rewrite (existsb_ext_in (fun p => negb (fst p) && ceval v (snd p))
                          (fun p => negb (fst p) && ceval v' (snd p))).
  2:{ intros p Hp. now rewrite E. }
  reflexivity.
Qed.

Lemma existsb_eqb_In a l : existsb (N.eqb a) l = true <-> In a l.
Proof.
  rewrite existsb_exists. split.
  - intros [x [Hx E]]. apply N.eqb_eq in E. now subst.
  - intros H. exists a. split; auto. apply N.eqb_refl.
Qed.

Lemma In_dedup x l : In x (dedup l) <-> In x l.
Proof.
  induction l as [|y r IH]; simpl; [tauto|].
  destruct (existsb (N.eqb y) r) eqn:E.
  - rewrite IH. split; auto. intros [->|H]; auto. now apply existsb_eqb_In in E.
  - simpl. rewrite IH. tauto.
Qed.

Lemma filter_in_subsets (v : N -> bool) l : In (filter v l) (subsets l).
Proof.
  induction l as [|x r IH]; simpl; [now left|].
  apply in_or_app. destruct (v x).
  - right. now apply in_map.
  - now left.
Qed.

Lemma subsets_complete (v : N -> bool) l :
  exists s, In s (subsets l) /\ forall a, In a l -> val_of s a = v a.
Proof.
  exists (filter v l). split; [apply filter_in_subsets|].
  intros a Ha. unfold val_of. destruct (v a) eqn:Va.
  - apply existsb_eqb_In. apply filter_In. auto.
  - apply not_true_is_false. intros H. apply existsb_eqb_In in H.
    apply filter_In in H. destruct H. congruence.
Qed.

Lemma cond_ok_sound pols c :
  cond_ok pols c = true -> forall v, ceval v c = formula pols v.
Proof.
  unfold cond_ok. intros H v. rewrite forallb_forall in H.
  destruct (subsets_complete v (dedup (catoms c ++ pols_atoms pols))) as [s [Hs Hv]].
  specialize (H s Hs). apply eqb_prop in H.
  rewrite (ceval_ext v (val_of s)).
  2:{ intros a Ha. symmetry. apply Hv. apply In_dedup. apply in_or_app. now left. }
  rewrite (formula_ext pols v (val_of s)).
  2:{ intros a Ha. symmetry. apply Hv. apply In_dedup. apply in_or_app. now right. }
  exact H.
Qed.

Lemma forallb_false_ex {A} (f : A -> bool) l :
  forallb f l = false -> exists x, In x l /\ f x = false.
Proof.
  induction l as [|x r IH]; simpl; [discriminate|].
  destruct (f x) eqn:E; simpl.
  - intros H. destruct (IH H) as [y [Hy Fy]]. exists y; auto.
  - intros _. exists x; auto.
Qed.

Lemma cond_ok_complete pols c :
  cond_ok pols c = false -> exists v, ceval v c <> formula pols v.
Proof.
  unfold cond_ok. intros H. apply forallb_false_ex in H. destruct H as [s [_ H]].
  exists (val_of s). intros E. rewrite E in H. now rewrite eqb_reflx in H.
Qed.

(* ------------------------------------------------------------------ *)
(* lookup                                                              *)
(* ------------------------------------------------------------------ *)
Lemma lookup_cons_eq {A} (e : list (N * A)) c v : lookup ((c, v) :: e) c = Some v.
Proof. simpl. now rewrite N.eqb_refl. Qed.

Lemma lookup_cons_neq {A} (e : list (N * A)) c c' v :
  c <> c' -> lookup ((c, v) :: e) c' = lookup e c'.
Proof. intros H. simpl. destruct (N.eqb c c') eqn:E; auto. apply N.eqb_eq in E. congruence. Qed.

Lemma lookup_In {A} (e : list (N * A)) c v : lookup e c = Some v -> In (c, v) e.
Proof.
  induction e as [|[k w] r IH]; simpl; [discriminate|].
  destruct (N.eqb k c) eqn:E.
  - intros H. injection H as <-. apply N.eqb_eq in E. subst. now left.
  - intros H. right. auto.
Qed.

Lemma lookup_bound {A} (e : list (N * A)) c :
  existsb (N.eqb c) (map fst e) = true -> lookup e c <> None.
Proof.
  induction e as [|[k w] r IH]; simpl; [discriminate|].
  rewrite N.eqb_sym. destruct (N.eqb k c); simpl; [discriminate|auto].
Qed.

(* ------------------------------------------------------------------ *)
(* list helpers                                                        *)
(* ------------------------------------------------------------------ *)
Lemma filter_flat_map {A B} (p : B -> bool) (f : A -> list B) l :
  filter p (flat_map f l) = flat_map (fun x => filter p (f x)) l.
Proof.
  induction l as [|x r IH]; simpl; [reflexivity|].
  rewrite filter_app. now rewrite IH.
Qed.

Lemma flat_map_ext_in {A B} (f g : A -> list B) l :
  (forall x, In x l -> f x = g x) -> flat_map f l = flat_map g l.
Proof.
  induction l as [|x r IH]; simpl; intros H; [reflexivity|].
  rewrite H by now left. rewrite IH; auto.
Qed.

Lemma filter_ext_in' {A} (p q : A -> bool) l :
  (forall x, In x l -> p x = q x) -> filter p l = filter q l.
Proof.
  induction l as [|x r IH]; simpl; intros H; [reflexivity|].
  rewrite H by now left. rewrite IH; auto.
Qed.

Lemma map_ext_Forall {A B} (f g : A -> B) l :
  Forall (fun x => f x = g x) l -> map f l = map g l.
Proof. induction 1; simpl; congruence. Qed.

(* ------------------------------------------------------------------ *)
(* soundness of the validator: noninterference                         *)
(* ------------------------------------------------------------------ *)
Section Sound.
  Variable row : Type.
  Variable interp : N -> list (list row) -> list row.
  Variable asem : N -> db row -> row -> bool.
  Variable sp : spec.

  Notation ev := (eval interp asem).
  Notation vw := (view asem sp).

  Definition env_raw_ok (d : db row) (e : env) (ve : venv row) : Prop :=
    forall c s, lookup e c = Some (Raw s) -> lookup ve c = Some (flat_map d s).

  Lemma rawshape_sound d : forall t e ve s,
    env_raw_ok d e ve -> rawshape e t = Some s -> ev d ve t = flat_map d s.
  Proof.
    induction t using tree_ind'; intros e ve s He Hs; try discriminate.
    - simpl in Hs. injection Hs as <-. simpl. now rewrite app_nil_r.
    - simpl in Hs. destruct (lookup e c) as [[| s' |]|] eqn:E; try discriminate.
      injection Hs as <-. simpl. now rewrite (He _ _ E).
    - rewrite rawshape_Union in Hs. simpl. revert s Hs.
      induction H as [|x r Hx Hr IH]; intros s Hs; simpl in *.
      + inversion Hs; subst. reflexivity.
      + destruct (rawshape e x) as [a|] eqn:Ea; try discriminate.
        destruct (rs_list e r) as [b|] eqn:Eb; try discriminate.
        injection Hs as <-. rewrite flat_map_app.
        rewrite (Hx e ve a He Ea). rewrite (IH b eq_refl). reflexivity.
  Qed.

  Section TwoDbs.
    Variables d d' : db row.
    Hypothesis Hview : forall x, vw d x = vw d' x.

    Definition cls_ok (cl : cls) (r r' : option (list row)) : Prop :=
      match cl with
      | Clean => exists v, r = Some v /\ r' = Some v
      | Raw s => r = Some (flat_map d s) /\ r' = Some (flat_map d' s)
      | Dirty => True
      end.

    Definition env_ok (e : env) (ve ve' : venv row) : Prop :=
      forall c cl, lookup e c = Some cl -> cls_ok cl (lookup ve c) (lookup ve' c).

    Lemma env_ok_cons e ve ve' c cl v v' :
      env_ok e ve ve' -> cls_ok cl (Some v) (Some v') ->
      env_ok ((c, cl) :: e) ((c, v) :: ve) ((c, v') :: ve').
    Proof.
      intros He Hc c0 cl0 H. destruct (N.eq_dec c c0) as [->|Hn].
      - rewrite lookup_cons_eq in H. inversion H; subst. rewrite !lookup_cons_eq. exact Hc.
      - rewrite lookup_cons_neq in H by auto. rewrite !lookup_cons_neq by auto. now apply He.
    Qed.

    Lemma env_ok_raw e ve ve' : env_ok e ve ve' -> env_raw_ok d e ve /\ env_raw_ok d' e ve'.
    Proof.
      intros He. split; intros c s H; destruct (He _ _ H) as [A B]; auto.
    Qed.

    Lemma unprotected_same x : protected sp x = false -> d x = d' x.
    Proof.
      unfold protected. intros H. specialize (Hview x). unfold view in Hview.
      destruct (find_pols sp x); [discriminate|exact Hview].
    Qed.

    Lemma guard_filter dd s k :
      guard_ok sp s k = true ->
      filter (fun r => ceval (fun a => asem a dd r) k) (flat_map dd s) = flat_map (vw dd) s.
    Proof.
      intros H. rewrite filter_flat_map. apply flat_map_ext_in. intros x Hx.
      unfold guard_ok in H. rewrite forallb_forall in H. specialize (H x Hx).
      unfold view. destruct (find_pols sp x) as [pols|]; [|discriminate].
      apply filter_ext_in'. intros r _. now apply cond_ok_sound.
    Qed.

    Lemma guarded_sound : forall t e ve ve',
      env_ok e ve ve' -> guarded sp e t = true -> ev d ve t = ev d' ve' t.
    Proof.
      induction t using tree_ind'; intros e ve ve' He Hg.
      - simpl in *. apply unprotected_same. now apply negb_true_iff in Hg.
      - simpl in *. destruct (lookup e c) as [[| s |]|] eqn:E; try discriminate.
        + destruct (He _ _ E) as [v [-> ->]]. reflexivity.
        + destruct (He _ _ E) as [-> ->]. apply flat_map_ext_in. intros x Hx.
          unfold all_unprotected in Hg. rewrite forallb_forall in Hg.
          apply unprotected_same. specialize (Hg x Hx). now apply negb_true_iff in Hg.
      - rewrite guarded_Op in Hg. simpl. f_equal. apply map_ext_Forall.
        rewrite forallb_forall in Hg. rewrite Forall_forall in *. intros x Hx.
        apply H with (e := e); auto.
      - rewrite guarded_Union in Hg. simpl. f_equal. apply map_ext_Forall.
        rewrite forallb_forall in Hg. rewrite Forall_forall in *. intros x Hx.
        apply H with (e := e); auto.
      - rewrite guarded_Let in Hg. simpl. apply IHt2 with (e := (c, classify sp e t1) :: e); auto.
        apply env_ok_cons; auto. unfold classify.
        destruct (rawshape e t1) as [s|] eqn:Er.
        + destruct (env_ok_raw _ _ _ He) as [R R']. simpl. split; f_equal.
          * now apply rawshape_sound with (e := e).
          * now apply rawshape_sound with (e := e).
        + destruct (guarded sp e t1) eqn:Eg; simpl; auto.
          exists (ev d ve t1). split; auto. f_equal. symmetry. now apply IHt1 with (e := e).
      - simpl in *. destruct (rawshape e t) as [s|] eqn:Er; [|discriminate].
        destruct (env_ok_raw _ _ _ He) as [R R'].
        rewrite (rawshape_sound d t e ve s R Er). rewrite (rawshape_sound d' t e ve' s R' Er).
        rewrite !guard_filter by auto. apply flat_map_ext_in. intros; apply Hview.
    Qed.
  End TwoDbs.

  Lemma noninterference t :
    guarded sp [] t = true ->
    forall d d', (forall x, vw d x = vw d' x) -> ev d [] t = ev d' [] t.
  Proof.
    intros Hg d d' Hv. apply guarded_sound with (e := []); auto.
    intros c cl H. discriminate.
  Qed.
End Sound.

(* ------------------------------------------------------------------ *)
(* the validator is not stricter than the property                     *)
(* ------------------------------------------------------------------ *)
Section Complete.
  Variable sp : spec.
  Hypothesis Hfals : spec_falsifiable sp = true.

  (* the adversary: every Op concatenates; rows are table ids; each row falsifies the
     policy formula of its own table *)
  Definition interpC (f : N) (rs : list (list N)) : list N := concat rs.
  Definition asemC (a : N) (d : db N) (r : N) : bool :=
    match find_pols sp r with
    | Some pols => match falsifier pols with Some s => val_of s a | None => false end
    | None => false
    end.
  Definition db1 : db N := fun x => [x].
  Definition db0 : db N := fun x => if protected sp x then [] else [x].

  Notation evC := (eval interpC asemC).

  Lemma falsifier_spec x pols :
    find_pols sp x = Some pols -> exists s, falsifier pols = Some s /\ formula pols (val_of s) = false.
  Proof.
    intros H. apply lookup_In in H. unfold spec_falsifiable in Hfals.
    rewrite forallb_forall in Hfals. specialize (Hfals _ H). simpl in Hfals.
    destruct (falsifier pols) as [s|] eqn:E; [|discriminate].
    exists s. split; auto. unfold falsifier in E. apply find_some in E.
    destruct E as [_ E]. now apply negb_true_iff in E.
  Qed.

  Lemma views_equal x : view asemC sp db0 x = view asemC sp db1 x.
  Proof.
    unfold view, db0, db1, protected.
    destruct (find_pols sp x) as [pols|] eqn:E; [|reflexivity].
    simpl. destruct (falsifier_spec x pols E) as [s [Fs Ff]].
    replace (formula pols (fun a => asemC a (fun x0 => [x0]) x)) with false; [reflexivity|].
    symmetry. rewrite <- Ff. apply formula_ext. intros a _. unfold asemC. now rewrite E, Fs.
  Qed.

  (* under db0 no row of a protected table exists anywhere *)
  Lemma db0_no_protected : forall t ve,
    (forall c r x, lookup ve c = Some r -> In x r -> protected sp x = false) ->
    forall x, In x (evC db0 ve t) -> protected sp x = false.
  Proof.
    induction t using tree_ind'; intros ve Hve y Hy; simpl in Hy.
    - unfold db0 in Hy. destruct (protected sp x) eqn:E; [destruct Hy|].
      destruct Hy as [<-|[]]. exact E.
    - destruct (lookup ve c) eqn:E; [|destruct Hy]. eapply Hve; eauto.
    - unfold interpC in Hy. apply in_concat in Hy. destruct Hy as [l [Hl Hy]].
      apply in_map_iff in Hl. destruct Hl as [t [<- Ht]].
      rewrite Forall_forall in H. eapply H; eauto.
    - apply in_concat in Hy. destruct Hy as [l [Hl Hy]].
      apply in_map_iff in Hl. destruct Hl as [t [<- Ht]].
      rewrite Forall_forall in H. eapply H; eauto.
    - eapply IHt2; [|exact Hy]. intros c0 r x Hl Hx.
      destruct (N.eq_dec c c0) as [->|Hn].
      + rewrite lookup_cons_eq in Hl. inversion Hl; subst. eapply IHt1; eauto.
      + rewrite lookup_cons_neq in Hl by auto. eapply Hve; eauto.
    - apply filter_In in Hy. destruct Hy as [Hy _]. eapply IHt; eauto.
  Qed.

  Definition envC (e : env) (ve : venv N) : Prop :=
    forall c cl, lookup e c = Some cl ->
      match cl with
      | Clean => True
      | Raw s => lookup ve c = Some (flat_map db1 s)
      | Dirty => exists r x, lookup ve c = Some r /\ protected sp x = true /\ In x r
      end.

  Lemma envC_raw e ve : envC e ve -> env_raw_ok N db1 e ve.
  Proof. intros H c s E. exact (H _ _ E). Qed.

  Lemma in_flat_db1 x s : In x s -> In x (flat_map db1 s).
  Proof. intros H. apply in_flat_map. exists x. split; auto. now left. Qed.

  Lemma leak_found : forall t e ve,
    envC e ve ->
    closed (map fst e) t = true ->
    guards_valid sp e t = true ->
    guarded sp e t = false ->
    exists x, protected sp x = true /\ In x (evC db1 ve t).
  Proof.
    induction t using tree_ind'; intros e ve He Hc Hv Hg.
    - simpl in *. exists x. split; [now apply negb_false_iff in Hg|now left].
    - simpl in *. apply lookup_bound in Hc.
      destruct (lookup e c) as [[| s |]|] eqn:E; try discriminate; try congruence.
      + specialize (He _ _ E). simpl in He. rewrite He.
        unfold all_unprotected in Hg. apply forallb_false_ex in Hg.
        destruct Hg as [x [Hx Px]]. exists x. split; [now apply negb_false_iff in Px|].
        now apply in_flat_db1.
      + specialize (He _ _ E). simpl in He. destruct He as [r [x [-> [Px Hx]]]].
        exists x; auto.
    - rewrite guarded_Op in Hg. rewrite closed_Op in Hc. rewrite gv_Op in Hv.
      apply forallb_false_ex in Hg. destruct Hg as [t [Ht Gt]].
      rewrite forallb_forall in Hc, Hv. rewrite Forall_forall in H.
      destruct (H t Ht e ve He (Hc t Ht) (Hv t Ht) Gt) as [x [Px Hx]].
      exists x. split; auto. simpl. unfold interpC. apply in_concat.
      exists (evC db1 ve t). split; auto. now apply in_map.
    - rewrite guarded_Union in Hg. rewrite closed_Union in Hc. rewrite gv_Union in Hv.
      apply forallb_false_ex in Hg. destruct Hg as [t [Ht Gt]].
      rewrite forallb_forall in Hc, Hv. rewrite Forall_forall in H.
      destruct (H t Ht e ve He (Hc t Ht) (Hv t Ht) Gt) as [x [Px Hx]].
      exists x. split; auto. simpl. apply in_concat.
      exists (evC db1 ve t). split; auto. now apply in_map.
    - rewrite guarded_Let in Hg. simpl in Hc, Hv.
      apply andb_true_iff in Hc. destruct Hc as [Hc1 Hc2].
      apply andb_true_iff in Hv. destruct Hv as [Hv1 Hv2].
      simpl. apply IHt2 with (e := (c, classify sp e t1) :: e); auto.
      intros c0 cl Hl. destruct (N.eq_dec c c0) as [->|Hn].
      + rewrite lookup_cons_eq in Hl. inversion Hl; subst. rewrite lookup_cons_eq.
        unfold classify. destruct (rawshape e t1) as [s|] eqn:Er.
        * f_equal. apply rawshape_sound with (e := e); auto. now apply envC_raw.
        * destruct (guarded sp e t1) eqn:Eg; auto.
          destruct (IHt1 e ve He Hc1 Hv1 Eg) as [x [Px Hx]].
          exists (evC db1 ve t1), x. auto.
      + rewrite lookup_cons_neq in Hl by auto. rewrite lookup_cons_neq by auto.
        now apply He.
    - simpl in Hv, Hg. rewrite Hv in Hg. discriminate.
  Qed.

  Lemma complete t :
    closed [] t = true -> guards_valid sp [] t = true -> guarded sp [] t = false ->
    (forall x, view asemC sp db0 x = view asemC sp db1 x) /\
    evC db0 [] t <> evC db1 [] t.
  Proof.
    intros Hc Hv Hg. split; [apply views_equal|].
    assert (He : envC [] []) by (intros c cl H; discriminate).
    destruct (leak_found t [] [] He Hc Hv Hg) as [x [Px Hx]].
    intros E. rewrite <- E in Hx.
    assert (protected sp x = false).
    { eapply db0_no_protected; [|exact Hx]. intros c r y H. discriminate. }
    congruence.
  Qed.
End Complete.

(* a WHERE formula that is not the policy formula filters differently from the view *)
Lemma wrong_condition_detected pols k x :
  cond_ok pols k = false ->
  exists (asem : N -> db N -> N -> bool) (d : db N),
    eval interpC asem d [] (Guard (Scan x) k []) <> view asem [(x, pols)] d x.
Proof.
  intros H. apply cond_ok_complete in H. destruct H as [v Hv].
  exists (fun a _ _ => v a), (fun _ => [0%N]).
  unfold view, find_pols. simpl. rewrite N.eqb_refl. simpl.
  destruct (ceval v k), (formula pols v); try congruence; discriminate.
Qed.

(* ------------------------------------------------------------------ *)
(* Part B: registration                                                *)
(* ------------------------------------------------------------------ *)
Local Arguments N.add : simpl never.
Local Arguments N.eqb : simpl never.

Lemma key_eqb_refl k : key_eqb k k = true.
Proof. unfold key_eqb. now rewrite N.eqb_refl, eqb_reflx. Qed.

Lemma rw_get_set_same m k v : rw_get (rw_set m k v) k = Some v.
Proof.
  induction m as [|[k' v'] r IH]; simpl.
  - now rewrite key_eqb_refl.
  - destruct (key_eqb k' k) eqn:E; simpl; rewrite E; auto.
Qed.

Lemma any_own_existsb o i kids :
  (fix any (l : list tnode) : bool :=
     match l with [] => false | k :: r => has_own_policies o i k || any r end) kids
  = existsb (has_own_policies o i) kids.
Proof. induction kids as [|k r IH]; simpl; [reflexivity|]. now rewrite IH. Qed.

Lemma ttr_leaf_key o n skip m : rw_get (ttr_leaf o n skip m) (t_id n, skip) <> None.
Proof.
  unfold ttr_leaf. destruct (get_access_policies o n); rewrite rw_get_set_same; discriminate.
Qed.

Lemma full_key o sup n m : rw_get (full o sup n m) (t_id n, false) <> None.
Proof.
  destruct n as [i u a mat ps kids]. simpl.
  match goal with |- context [if negb ?c then _ else _] => destruct c end; simpl.
  - rewrite rw_get_set_same. discriminate.
  - apply (ttr_leaf_key o (TNode i u a mat ps kids)).
Qed.

Lemma skipped_key o sup n m : rw_get (skipped o sup n m) (t_id n, true) <> None.
Proof.
  unfold skipped. destruct (get_access_policies o n); rewrite rw_get_set_same; discriminate.
Qed.

Lemma ttr_key o sup n skip m : rw_get (try_type_rewrite o sup n skip m) (t_id n, skip) <> None.
Proof. unfold try_type_rewrite. destruct skip; [apply skipped_key|apply full_key]. Qed.

Lemma should_ignore_nil n : should_ignore_rewrite [] n = false.
Proof. reflexivity. Qed.

Lemma reg_present o sup n skip m :
  o_apply_query_rewrites o = true ->
  snd (new_set o sup n skip false m) = should_ignore_rewrite sup n /\
  (should_ignore_rewrite sup n = false ->
   rw_get (fst (new_set o sup n skip false m)) (t_id n, skip) <> None).
Proof.
  intros Ho. unfold new_set. simpl.
  assert (E : (if sup_nonempty sup then should_ignore_rewrite sup n else false)
              = should_ignore_rewrite sup n).
  { unfold should_ignore_rewrite. destruct (sup_nonempty sup); reflexivity. }
  rewrite E. rewrite Ho. unfold absent.
  destruct (should_ignore_rewrite sup n) eqn:Es; simpl.
  - split; auto. discriminate.
  - destruct (rw_get m (t_id n, skip)) eqn:Eg; simpl; split; auto; intros _.
    + rewrite Eg. discriminate.
    + apply ttr_key.
Qed.

Lemma reg_nontrivial o n skip m :
  o_apply_query_rewrites o = true ->
  rw_get m (t_id n, skip) = None ->
  has_policies_in_force o n skip = true ->
  t_abstract n = false ->
  exists v, rw_get (fst (new_set o [] n skip false m)) (t_id n, skip) = Some v /\ v <> RwNone.
Proof.
  intros Ho Eg Hp Ha. unfold new_set, absent. simpl. rewrite Eg, Ho. simpl.
  unfold try_type_rewrite. destruct skip.
  - (* skip_subtypes: own policies must be in force *)
    unfold has_policies_in_force in Hp. unfold skipped.
    destruct (get_access_policies o n) eqn:Ep; [discriminate|].
    rewrite rw_get_set_same. eexists. split; [reflexivity|discriminate].
  - destruct n as [i u a mat ps kids]. simpl in Ha. subst a.
    unfold has_policies_in_force in Hp. simpl t_id in *. simpl t_kids in Hp.
    simpl. rewrite any_own_existsb.
    destruct (existsb (has_own_policies o i) kids) eqn:Ec; simpl.
    + rewrite rw_get_set_same. eexists. split; [reflexivity|].
      match goal with |- context [(1 + ?c)%N] => generalize c end. intros c.
      destruct (N.eqb (1 + c) 0) eqn:E0; [apply N.eqb_eq in E0; lia|].
      destruct (N.eqb (1 + c) 1); discriminate.
    + unfold ttr_leaf.
      destruct (get_access_policies o (TNode i u false mat ps kids)) eqn:Ep.
      * discriminate.
      * rewrite rw_get_set_same. eexists. split; [reflexivity|discriminate].
Qed.

(* first registration of a type whose children carry no policies of their own: the
   rewrite is the filtered base set exactly when the type has policies in force *)
Lemma reg_leaf o n skip m :
  o_apply_query_rewrites o = true ->
  rw_get m (t_id n, skip) = None ->
  (skip = true \/ existsb (has_own_policies o (t_id n)) (t_kids n) = false) ->
  rw_get (fst (new_set o [] n skip false m)) (t_id n, skip)
  = Some (match get_access_policies o n with [] => RwNone | _ :: _ => RwFilter end).
Proof.
  intros Ho Eg Hk. unfold new_set, absent. simpl. rewrite Eg, Ho. simpl.
  unfold try_type_rewrite. destruct skip.
  - unfold skipped. destruct (get_access_policies o n); now rewrite rw_get_set_same.
  - destruct Hk as [Hk|Hk]; [discriminate|].
    destruct n as [i u a mat ps kids]. simpl t_id in *. simpl t_kids in *.
    simpl. rewrite any_own_existsb. rewrite Hk. simpl. unfold ttr_leaf.
    destruct (get_access_policies o (TNode i u a mat ps kids)); now rewrite rw_get_set_same.
Qed.

(* ------------------------------------------------------------------ *)
(* registration is monotone; children get registered                   *)
(* ------------------------------------------------------------------ *)
Section TnodeInd.
  Variable P : tnode -> Prop.
  Hypothesis H : forall i u a m ps kids, Forall P kids -> P (TNode i u a m ps kids).
  Fixpoint tnode_ind' (n : tnode) : P n :=
    match n with
    | TNode i u a m ps kids =>
        H i u a m ps kids
          ((fix all (l : list tnode) : Forall P l :=
              match l with
              | [] => Forall_nil P
              | k :: r => Forall_cons k (tnode_ind' k) (all r)
              end) kids)
    end.
End TnodeInd.

Definition present (m : rws) (k : rkey) : Prop := rw_get m k <> None.

Lemma key_eqb_true a b : key_eqb a b = true -> a = b.
Proof.
  destruct a as [a1 a2], b as [b1 b2]. unfold key_eqb. simpl. intros H.
  apply andb_true_iff in H. destruct H as [H1 H2].
  apply N.eqb_eq in H1. apply eqb_prop in H2. now subst.
Qed.

Lemma rw_set_mono m k' v k : present m k -> present (rw_set m k' v) k.
Proof.
  unfold present. induction m as [|[k0 v0] r IH]; simpl; [congruence|].
  destruct (key_eqb k0 k) eqn:E.
  - intros _. destruct (key_eqb k0 k') eqn:E'; simpl; rewrite E; discriminate.
  - intros Hp. destruct (key_eqb k0 k') eqn:E'; simpl; rewrite E; auto.
Qed.

Lemma rw_set_present m k v : present (rw_set m k v) k.
Proof. unfold present. rewrite rw_get_set_same. discriminate. Qed.

Lemma ttr_leaf_mono o n skip m k : present m k -> present (ttr_leaf o n skip m) k.
Proof. unfold ttr_leaf. destruct (get_access_policies o n); apply rw_set_mono. Qed.

Lemma new_set_leaf_mono o sup n skip m k : present m k -> present (new_set_leaf o sup n skip m) k.
Proof.
  unfold new_set_leaf. destruct (should_ignore_rewrite sup n); auto.
  destruct (absent m (t_id n, skip) && o_apply_query_rewrites o); auto. apply ttr_leaf_mono.
Qed.

Lemma full_visit_mono o sup : forall n,
  (forall m k, present m k -> present (full o sup n m) k) /\
  (forall m k, present m k -> present (visit o sup n m) k).
Proof.
  induction n using tnode_ind'. rename H into IH. rewrite Forall_forall in IH. split.
  - intros m0 k Hp. simpl.
    match goal with |- context [if negb ?c then _ else _] => destruct c end; simpl.
    2:{ now apply (ttr_leaf_mono o (TNode i u a m ps kids)). }
    apply rw_set_mono.
    match goal with |- context [if ?c then _ else _] => destruct c end.
    + (* overlap: visit each kid *)
      assert (G : forall l acc, (forall x, In x l -> In x kids) -> present acc k ->
                present ((fix each (l : list tnode) (acc : rws) : rws :=
                            match l with [] => acc | k0 :: r => each r (visit o sup k0 acc) end) l acc) k).
      { induction l as [|x r IHl]; intros acc Hin Ha; auto.
        apply IHl; [intros; apply Hin; now right|].
        apply (proj2 (IH x (Hin x (or_introl eq_refl)))). exact Ha. }
      apply G; auto.
      destruct a; [now apply rw_set_mono|]. apply new_set_leaf_mono. now apply rw_set_mono.
    + assert (G : forall l acc, (forall x, In x l -> In x kids) -> present acc k ->
                present ((fix each (l : list tnode) (acc : rws) : rws :=
                   match l with
                   | [] => acc
                   | k0 :: r =>
                       each r (if t_material k0 then
                                 (if should_ignore_rewrite sup k0 then acc
                                  else if absent acc (t_id k0, false) && o_apply_query_rewrites o
                                       then full o sup k0 acc else acc)
                               else acc)
                   end) l acc) k).
      { induction l as [|x r IHl]; intros acc Hin Ha; auto.
        apply IHl; [intros; apply Hin; now right|].
        destruct (t_material x); auto. destruct (should_ignore_rewrite sup x); auto.
        destruct (absent acc (t_id x, false) && o_apply_query_rewrites o); auto.
        apply (proj1 (IH x (Hin x (or_introl eq_refl)))). exact Ha. }
      apply G; auto.
      destruct a; [now apply rw_set_mono|]. apply new_set_leaf_mono. now apply rw_set_mono.
  - intros m0 k Hp. simpl.
    assert (G : forall l acc, (forall x, In x l -> In x kids) -> present acc k ->
              present ((fix each (l : list tnode) (acc : rws) : rws :=
         match l with
         | [] => acc
         | d :: r =>
             let acc1 :=
               if t_material d && negb (should_ignore_rewrite sup d) then
                 let b1 :=
                   if absent acc (t_id d, true) && o_apply_query_rewrites o then
                     match get_access_policies o d with
                     | [] => rw_set acc (t_id d, true) RwNone
                     | _ :: _ =>
                         let p := rw_set acc (t_id d, true) RwNone in
                         let q := if absent p (t_id d, false) then full o sup d p else p in
                         rw_set q (t_id d, true) RwFilter
                     end
                   else acc in
                 if absent b1 (t_id d, false) && o_apply_query_rewrites o
                 then full o sup d b1 else b1
               else acc in
             each r (visit o sup d acc1)
         end) l acc) k).
    { induction l as [|x r IHl]; intros acc Hin Ha; auto.
      apply IHl; [intros; apply Hin; now right|].
      destruct (IH x (Hin x (or_introl eq_refl))) as [Fx Vx].
      apply Vx. cbv zeta.
      destruct (t_material x && negb (should_ignore_rewrite sup x)); auto.
      match goal with |- present (if absent ?b _ && _ then _ else _) _ =>
        assert (Hb : present b k) end.
      { destruct (absent acc (t_id x, true) && o_apply_query_rewrites o); auto.
        destruct (get_access_policies o x); [now apply rw_set_mono|].
        apply rw_set_mono.
        destruct (absent (rw_set acc (t_id x, true) RwNone) (t_id x, false)).
        - apply Fx. now apply rw_set_mono.
        - now apply rw_set_mono. }
      match goal with |- present (if ?c then _ else _) _ => destruct c end; auto. }
    apply G; auto.
Qed.

(* Outside policy bodies, with a fresh key, when the children do not overlap: every concrete
   child of a type whose children carry own policies gets its own (child, false) key. *)
Lemma reg_children o n m k :
  o_apply_query_rewrites o = true ->
  rw_get m (t_id n, false) = None ->
  existsb (has_own_policies o (t_id n)) (t_kids n) = true ->
  has_dup (map t_id (all_descs (t_kids n))) = false ->
  In k (t_kids n) -> t_material k = true ->
  present (fst (new_set o [] n false false m)) (t_id k, false).
Proof.
  intros Ho Eg Hc Hov Hin Hm. unfold new_set, absent. simpl. rewrite Eg, Ho. simpl.
  unfold try_type_rewrite. destruct n as [i u a mat ps kids]. simpl t_id in *. simpl t_kids in *.
  simpl. rewrite any_own_existsb, Hc, Hov. simpl.
  apply rw_set_mono.
  match goal with |- present (_ kids ?m2) _ => generalize m2 end.
  assert (G : forall l acc, In k l ->
            present ((fix each (l : list tnode) (acc : rws) : rws :=
               match l with
               | [] => acc
               | k0 :: r =>
                   each r (if t_material k0 then
                             (if should_ignore_rewrite [] k0 then acc
                              else if absent acc (t_id k0, false) && o_apply_query_rewrites o
                                   then full o [] k0 acc else acc)
                           else acc)
               end) l acc) (t_id k, false)).
  { assert (M : forall l acc, present acc (t_id k, false) ->
            present ((fix each (l : list tnode) (acc : rws) : rws :=
               match l with
               | [] => acc
               | k0 :: r =>
                   each r (if t_material k0 then
                             (if should_ignore_rewrite [] k0 then acc
                              else if absent acc (t_id k0, false) && o_apply_query_rewrites o
                                   then full o [] k0 acc else acc)
                           else acc)
               end) l acc) (t_id k, false)).
    { induction l as [|x r IHl]; intros acc Ha; auto. apply IHl.
      destruct (t_material x); auto. simpl.
      destruct (absent acc (t_id x, false) && o_apply_query_rewrites o); auto.
      now apply (proj1 (full_visit_mono o [] x)). }
    induction l as [|x r IHl]; intros acc Hl; [destruct Hl|].
    destruct Hl as [->|Hl]; [|now apply IHl].
    apply M. rewrite Hm. simpl. rewrite Ho. unfold absent.
    destruct (rw_get acc (t_id k, false)) eqn:E; simpl.
    - unfold present. rewrite E. discriminate.
    - apply full_key. }
  intros m2. now apply G.
Qed.
