(* C07 -- access policies guard every read path.

   Part A (the verified validator).  Abstract query trees, as the Python abstraction
   (harness/impl/c07_impl.py) produces them from the pgast tree that the REAL compiler emits:

     Scan t          a range variable over physical table t
     Ref c           a range variable over the common table expression named c
     Op f ts         any other SQL construct over sub-queries ts; its meaning is an ARBITRARY
                     function [interp f] of the results of ts
     Union ts        UNION ALL
     Let c d b       WITH c AS (d) b      (non-recursive: d does not see c)
     Guard base k aux   SELECT .. FROM base, <aux> WHERE k   where k is a boolean combination of
                     policy clauses (atoms); aux are the sub-queries that compute the atoms
                     (policy bodies run with full visibility: the validator does not look
                     into aux, and the semantics gives atoms their meaning [asem] directly)

   [guarded spec [] t] is the validator.  spec maps each protected table to its list of
   select policies (is_allow, clause formula).

   Part B (registration).  A model of setgen.new_set / policies.try_type_rewrite /
   policies.should_ignore_rewrite / has_own_policies / get_access_policies on an
   inheritance hierarchy unfolded into a tree.

   Executable definitions only. *)
From Coq Require Import List NArith Bool.
Import ListNotations.

(* ------------------------------------------------------------------ *)
(* policy clause formulas                                              *)
(* ------------------------------------------------------------------ *)

Inductive cond : Type :=
| CAtom (a : N)
| CAnd (c1 c2 : cond)
| COr (c1 c2 : cond)
| CNot (c : cond)
| CConst (b : bool).

Fixpoint ceval (v : N -> bool) (c : cond) : bool :=
  match c with
  | CAtom a => v a
  | CAnd a b => ceval v a && ceval v b
  | COr a b => ceval v a || ceval v b
  | CNot a => negb (ceval v a)
  | CConst b => b
  end.

Fixpoint catoms (c : cond) : list N :=
  match c with
  | CAtom a => [a]
  | CAnd a b | COr a b => catoms a ++ catoms b
  | CNot a => catoms a
  | CConst _ => []
  end.

(* (is_allow, clause) *)
Definition policy : Type := (bool * cond)%type.

Definition allow_any (v : N -> bool) (pols : list policy) : bool :=
  existsb (fun p => fst p && ceval v (snd p)) pols.
Definition deny_any (v : N -> bool) (pols : list policy) : bool :=
  existsb (fun p => negb (fst p) && ceval v (snd p)) pols.

(* policies.get_rewrite_filter: (OR allow) AND NOT (OR deny); no allow policy = false.
   (The compiler adds "OR .id ?= <uuid>{}", which is false for every stored object; the
   abstraction maps that recognised disjunct to CConst false.) *)
Definition formula (pols : list policy) (v : N -> bool) : bool :=
  allow_any v pols && negb (deny_any v pols).

Definition pols_atoms (pols : list policy) : list N :=
  flat_map (fun p => catoms (snd p)) pols.

Definition val_of (s : list N) : N -> bool := fun a => existsb (N.eqb a) s.

Fixpoint subsets (l : list N) : list (list N) :=
  match l with
  | [] => [[]]
  | x :: r => let ss := subsets r in ss ++ map (cons x) ss
  end.

Fixpoint dedup (l : list N) : list N :=
  match l with
  | [] => []
  | x :: r => if existsb (N.eqb x) r then dedup r else x :: dedup r
  end.

(* truth-table equivalence of a WHERE formula with the policy formula *)
Definition cond_ok (pols : list policy) (c : cond) : bool :=
  forallb (fun s => Bool.eqb (ceval (val_of s) c) (formula pols (val_of s)))
          (subsets (dedup (catoms c ++ pols_atoms pols))).

(* the policy formula can be made false (used only by the completeness theorem) *)
Definition falsifier (pols : list policy) : option (list N) :=
  find (fun s => negb (formula pols (val_of s))) (subsets (dedup (pols_atoms pols))).

(* ------------------------------------------------------------------ *)
(* trees, specs, the validator                                         *)
(* ------------------------------------------------------------------ *)

Inductive tree : Type :=
| Scan (t : N)
| Ref (c : N)
| Op (f : N) (ts : list tree)
| Union (ts : list tree)
| Let (c : N) (d : tree) (b : tree)
| Guard (base : tree) (k : cond) (aux : list tree).

Definition spec : Type := list (N * list policy).

Fixpoint lookup {A : Type} (e : list (N * A)) (c : N) : option A :=
  match e with
  | [] => None
  | (k, v) :: r => if N.eqb k c then Some v else lookup r c
  end.

Definition find_pols (sp : spec) (t : N) : option (list policy) := lookup sp t.

Definition protected (sp : spec) (t : N) : bool :=
  match find_pols sp t with Some _ => true | None => false end.

(* what the validator knows about a CTE *)
Inductive cls : Type :=
| Clean               (* its definition is guarded *)
| Raw (s : list N)    (* a bare UNION ALL of the tables s, nothing filtered *)
| Dirty.              (* anything else *)

Definition env : Type := list (N * cls).

Fixpoint rawshape (e : env) (t : tree) : option (list N) :=
  match t with
  | Scan x => Some [x]
  | Ref c => match lookup e c with Some (Raw s) => Some s | _ => None end
  | Union ts =>
      (fix go (l : list tree) : option (list N) :=
         match l with
         | [] => Some []
         | x :: r => match rawshape e x, go r with
                     | Some a, Some b => Some (a ++ b)
                     | _, _ => None
                     end
         end) ts
  | _ => None
  end.

Definition all_unprotected (sp : spec) (s : list N) : bool :=
  forallb (fun x => negb (protected sp x)) s.

Definition guard_ok (sp : spec) (s : list N) (k : cond) : bool :=
  forallb (fun x => match find_pols sp x with
                    | Some pols => cond_ok pols k
                    | None => false
                    end) s.

Fixpoint guarded (sp : spec) (e : env) (t : tree) {struct t} : bool :=
  match t with
  | Scan x => negb (protected sp x)
  | Ref c => match lookup e c with
             | Some Clean => true
             | Some (Raw s) => all_unprotected sp s
             | _ => false
             end
  | Op _ ts =>
      (fix all (l : list tree) : bool :=
         match l with [] => true | x :: r => guarded sp e x && all r end) ts
  | Union ts =>
      (fix all (l : list tree) : bool :=
         match l with [] => true | x :: r => guarded sp e x && all r end) ts
  | Let c d b =>
      let cl := match rawshape e d with
                | Some s => Raw s
                | None => if guarded sp e d then Clean else Dirty
                end in
      guarded sp ((c, cl) :: e) b
  | Guard base k _ =>
      match rawshape e base with
      | Some s => guard_ok sp s k
      | None => false
      end
  end.

Definition classify (sp : spec) (e : env) (d : tree) : cls :=
  match rawshape e d with
  | Some s => Raw s
  | None => if guarded sp e d then Clean else Dirty
  end.

(* every Guard node met by the validator is a valid policy filter (so that a negative
   verdict can only come from a scan); same traversal as [guarded] *)
Fixpoint guards_valid (sp : spec) (e : env) (t : tree) {struct t} : bool :=
  match t with
  | Scan _ | Ref _ => true
  | Op _ ts =>
      (fix all (l : list tree) : bool :=
         match l with [] => true | x :: r => guards_valid sp e x && all r end) ts
  | Union ts =>
      (fix all (l : list tree) : bool :=
         match l with [] => true | x :: r => guards_valid sp e x && all r end) ts
  | Let c d b =>
      guards_valid sp e d && guards_valid sp ((c, classify sp e d) :: e) b
  | Guard base k _ =>
      match rawshape e base with
      | Some s => guard_ok sp s k
      | None => false
      end
  end.

(* every CTE reference is bound *)
Fixpoint closed (bound : list N) (t : tree) {struct t} : bool :=
  match t with
  | Scan _ => true
  | Ref c => existsb (N.eqb c) bound
  | Op _ ts =>
      (fix all (l : list tree) : bool :=
         match l with [] => true | x :: r => closed bound x && all r end) ts
  | Union ts =>
      (fix all (l : list tree) : bool :=
         match l with [] => true | x :: r => closed bound x && all r end) ts
  | Let c d b => closed bound d && closed (c :: bound) b
  | Guard base _ _ => closed bound base
  end.

Definition spec_falsifiable (sp : spec) : bool :=
  forallb (fun p => match falsifier (snd p) with Some _ => true | None => false end) sp.

(* ------------------------------------------------------------------ *)
(* semantics                                                           *)
(* ------------------------------------------------------------------ *)

Section Sem.
  Variable row : Type.
  Definition db : Type := N -> list row.
  Variable interp : N -> list (list row) -> list row.   (* arbitrary meaning of Op *)
  Variable asem : N -> db -> row -> bool.               (* meaning of a policy clause: full visibility *)

  Definition venv : Type := list (N * list row).

  Fixpoint eval (d : db) (ve : venv) (t : tree) {struct t} : list row :=
    match t with
    | Scan x => d x
    | Ref c => match lookup ve c with Some r => r | None => [] end
    | Op f ts => interp f (map (eval d ve) ts)
    | Union ts => concat (map (eval d ve) ts)
    | Let c df b => eval d ((c, eval d ve df) :: ve) b
    | Guard base k _ => filter (fun r => ceval (fun a => asem a d r) k) (eval d ve base)
    end.

  (* what a session is allowed to see of table x *)
  Definition view (sp : spec) (d : db) (x : N) : list row :=
    match find_pols sp x with
    | Some pols => filter (fun r => formula pols (fun a => asem a d r)) (d x)
    | None => d x
    end.
End Sem.

Arguments eval {row} interp asem d ve t.
Arguments view {row} asem sp d x.

(* ------------------------------------------------------------------ *)
(* Part B: registration of rewrites (edgeql side)                      *)
(* ------------------------------------------------------------------ *)

(* an access policy object as the compiler sees it *)
Record pol : Type := mkPol {
  p_name : N;
  p_select : bool;            (* AccessKind.Select in get_access_kinds *)
  p_base_subjects : list N;   (* subjects of pol.get_bases(): non-empty for inherited policies *)
}.

(* inheritance hierarchy below a type, unfolded into a tree (a type with several parents
   appears once under each of them) *)
Inductive tnode : Type :=
| TNode (id : N) (user : bool) (abstract : bool) (material : bool)
        (pols : list pol) (kids : list tnode).

Definition t_id (n : tnode) : N := match n with TNode i _ _ _ _ _ => i end.
Definition t_user (n : tnode) : bool := match n with TNode _ u _ _ _ _ => u end.
Definition t_abstract (n : tnode) : bool := match n with TNode _ _ a _ _ _ => a end.
Definition t_material (n : tnode) : bool := match n with TNode _ _ _ m _ _ => m end.
Definition t_pols (n : tnode) : list pol := match n with TNode _ _ _ _ p _ => p end.
Definition t_kids (n : tnode) : list tnode := match n with TNode _ _ _ _ _ k => k end.

Record opts : Type := mkOpts {
  o_apply_query_rewrites : bool;
  o_apply_user_access_policies : bool;
}.

(* policies.get_access_policies *)
Definition get_access_policies (o : opts) (n : tnode) : list pol :=
  if negb (o_apply_query_rewrites o) then []
  else if negb (o_apply_user_access_policies o) && t_user n then []
  else t_pols n.

(* policies.has_own_policies(stype=n, skip_from=from) *)
Fixpoint has_own_policies (o : opts) (from : N) (n : tnode) {struct n} : bool :=
  match n with
  | TNode i u a m ps kids =>
      existsb (fun p => negb (existsb (N.eqb from) (p_base_subjects p)))
              (get_access_policies o n)
      || (fix any (l : list tnode) : bool :=
            match l with [] => false | k :: r => has_own_policies o i k || any r end) kids
  end.

(* all strict descendants, in the order child.descendants() are concatenated *)
Fixpoint descendants (n : tnode) {struct n} : list tnode :=
  match n with
  | TNode _ _ _ _ _ kids =>
      (fix go (l : list tnode) : list tnode :=
         match l with [] => [] | k :: r => (k :: descendants k) ++ go r end) kids
  end.

(* the value stored in env.type_rewrites *)
Inductive rw : Type :=
| RwNone                      (* None: no rewrite needed (or placeholder) *)
| RwFilter                    (* SELECT base FILTER <policy formula> *)
| RwBase                      (* the bare base set (children have policies, single part) *)
| RwUnion (n : N).            (* UNION of n parts *)

Definition rkey : Type := (N * bool)%type.      (* (type, skip_subtypes) *)
Definition rws : Type := list (rkey * rw).

Definition key_eqb (a b : rkey) : bool := N.eqb (fst a) (fst b) && Bool.eqb (snd a) (snd b).

Fixpoint rw_get (m : rws) (k : rkey) : option rw :=
  match m with
  | [] => None
  | (k', v) :: r => if key_eqb k' k then Some v else rw_get r k
  end.

(* dict assignment: replace if present (keeps first-insertion order), else append *)
Fixpoint rw_set (m : rws) (k : rkey) (v : rw) : rws :=
  match m with
  | [] => [(k, v)]
  | (k', v') :: r => if key_eqb k' k then (k', v) :: r else (k', v') :: rw_set r k v
  end.

(* ctx.suppress_rewrites (a frozenset of types; [] = empty = falsy) *)
Definition suppress : Type := list N.

Definition sup_nonempty (sup : suppress) : bool :=
  match sup with [] => false | _ :: _ => true end.

(* policies.should_ignore_rewrite *)
Definition should_ignore_rewrite (sup : suppress) (n : tnode) : bool :=
  sup_nonempty sup && (existsb (N.eqb (t_id n)) sup || t_user n).

Definition absent (m : rws) (k : rkey) : bool :=
  match rw_get m k with None => true | Some _ => false end.

(* try_type_rewrite(n, skip) when children_have_policies is false (in particular whenever
   skip_subtypes is true) and no further set creation registers anything: pols empty ->
   None, otherwise the filtered base set *)
Definition ttr_leaf (o : opts) (n : tnode) (skip : bool) (m : rws) : rws :=
  match get_access_policies o n with
  | [] => rw_set m (t_id n, skip) RwNone
  | _ :: _ => rw_set m (t_id n, skip) RwFilter
  end.

(* new_set(n, TypeRoot(skip_subtypes=skip)) in a situation where the rewrite computation
   cannot create a set with an unregistered key (used for the base part of a union rewrite:
   the (n, false) placeholder is already there) *)
Definition new_set_leaf (o : opts) (sup : suppress) (n : tnode) (skip : bool) (m : rws) : rws :=
  if should_ignore_rewrite sup n then m
  else if absent m (t_id n, skip) && o_apply_query_rewrites o then ttr_leaf o n skip m
  else m.

Fixpoint has_dup (l : list N) : bool :=
  match l with
  | [] => false
  | x :: r => existsb (N.eqb x) r || has_dup r
  end.

Fixpoint dedup_nodes (seen : list N) (l : list tnode) : list tnode :=
  match l with
  | [] => []
  | k :: r => if existsb (N.eqb (t_id k)) seen then dedup_nodes seen r
              else k :: dedup_nodes (t_id k :: seen) r
  end.

Definition count_material (l : list tnode) : N :=
  N.of_nat (length (filter t_material l)).

(* [x for child in children for x in child.descendants()]: descendants() of ONE child is a
   set (no repetition); repetitions arise only between children *)
Definition all_descs (kids : list tnode) : list tnode :=
  flat_map (fun k => dedup_nodes [] (descendants k)) kids.

(* [full]  = policies.try_type_rewrite(stype=n, skip_subtypes=False) with every new_set call it
             makes, threading env.type_rewrites; the key (n, false) is absent on entry.
   [visit] = the loop over the strict descendants of n in the children_overlap case:
             class_set(d, skip_subtypes=True) then ensure_stmt (a set of type d with a
             statement expr, i.e. key (d, false)).
   A rewrite computed for (d, true) with policies creates, through scoped_set, a set of type d
   with key (d, false): that is the nested [full] call.
   [sup] is ctx.suppress_rewrites of the calling context (inherited by sub-contexts). *)
Fixpoint full (o : opts) (sup : suppress) (n : tnode) (m : rws) {struct n} : rws :=
  match n with
  | TNode i u a mat ps kids =>
      let chp := (fix any (l : list tnode) : bool :=
                    match l with [] => false | k :: r => has_own_policies o i k || any r end) kids in
      if negb chp then ttr_leaf o n false m
      else
        let overlap := has_dup (map t_id (all_descs kids)) in
        let m1 := rw_set m (i, false) RwNone in                  (* placeholder *)
        (* base part: class_set(stype, skip_subtypes=True) *)
        let m2 := if a then m1 else new_set_leaf o sup n true m1 in
        let nbase := if a then 0%N else 1%N in
        let m3 :=
          if overlap then
            (fix each (l : list tnode) (acc : rws) : rws :=
               match l with [] => acc | k :: r => each r (visit o sup k acc) end) kids m2
          else
            (fix each (l : list tnode) (acc : rws) : rws :=
               match l with
               | [] => acc
               | k :: r =>
                   each r (if t_material k then
                             (if should_ignore_rewrite sup k then acc
                              else if absent acc (t_id k, false) && o_apply_query_rewrites o
                                   then full o sup k acc else acc)
                           else acc)
               end) kids m2 in
        let nparts := (nbase + (if overlap then count_material (dedup_nodes [] (all_descs kids))
                                else count_material kids))%N in
        rw_set m3 (i, false)
               (if N.eqb nparts 0 then RwNone
                else if N.eqb nparts 1 then (if a then RwUnion 1 else RwBase)
                else RwUnion nparts)
  end
with visit (o : opts) (sup : suppress) (n : tnode) (m : rws) {struct n} : rws :=
  match n with
  | TNode _ _ _ _ _ kids =>
      (fix each (l : list tnode) (acc : rws) : rws :=
         match l with
         | [] => acc
         | d :: r =>
             let acc1 :=
               if t_material d && negb (should_ignore_rewrite sup d) then
                 (* class_set(d, skip_subtypes=True) *)
                 let b1 :=
                   if absent acc (t_id d, true) && o_apply_query_rewrites o then
                     match get_access_policies o d with
                     | [] => rw_set acc (t_id d, true) RwNone
                     | _ :: _ =>
                         let p := rw_set acc (t_id d, true) RwNone in
                         let q := if absent p (t_id d, false) then full o sup d p else p in
                         rw_set q (t_id d, true) RwFilter
                     end
                   else acc in
                 (* ensure_stmt(...) *)
                 if absent b1 (t_id d, false) && o_apply_query_rewrites o
                 then full o sup d b1 else b1
               else acc in
             each r (visit o sup d acc1)
         end) kids m
  end.

(* try_type_rewrite(n, skip_subtypes=True); key (n, true) absent on entry *)
Definition skipped (o : opts) (sup : suppress) (n : tnode) (m : rws) : rws :=
  match get_access_policies o n with
  | [] => rw_set m (t_id n, true) RwNone
  | _ :: _ =>
      let p := rw_set m (t_id n, true) RwNone in
      let q := if absent p (t_id n, false) then full o sup n p else p in
      rw_set q (t_id n, true) RwFilter
  end.

Definition try_type_rewrite (o : opts) (sup : suppress) (n : tnode) (skip : bool) (m : rws) : rws :=
  if skip then skipped o sup n m else full o sup n m.

(* setgen.new_set(stype=n, expr=TypeRoot(skip_subtypes=skip), ignore_rewrites=ign):
   returns the new type_rewrites and the ignore_rewrites flag of the created set *)
Definition new_set (o : opts) (sup : suppress) (n : tnode) (skip : bool) (ign : bool) (m : rws)
  : rws * bool :=
  let ign' := if negb ign && sup_nonempty sup
              then should_ignore_rewrite sup n else ign in
  if negb ign' && absent m (t_id n, skip) && o_apply_query_rewrites o
  then (try_type_rewrite o sup n skip m, ign')
  else (m, ign').

(* does the type (or, unless skip_subtypes, some descendant) carry policies in force *)
Definition has_policies_in_force (o : opts) (n : tnode) (skip : bool) : bool :=
  match get_access_policies o n with
  | _ :: _ => true
  | [] => negb skip && existsb (has_own_policies o (t_id n)) (t_kids n)
  end.
