(* C08 -- lemmas.  Every statement quantifies over ALL expressions, function schemas and sessions. *)
From Coq Require Import NArith List Bool Lia.
From Verif.C08 Require Import Gen_Caps Model.
Import ListNotations.
Open Scope N_scope.

(* ------------------------------------------------------------------ small facts *)
Lemma lor_0 : forall a b, N.lor a b = 0 <-> a = 0 /\ b = 0.
Proof. intros; apply N.lor_eq_0_iff. Qed.

Lemma vmax_mod_l : forall b, vmax Modifying b = Modifying.
Proof. destruct b; reflexivity. Qed.
Lemma vmax_mod_r : forall a, vmax a Modifying = Modifying.
Proof. destruct a; reflexivity. Qed.
Lemma vle_mod : forall v, vle Modifying v = true -> v = Modifying.
Proof. destruct v; simpl; intro H; try discriminate; reflexivity. Qed.
Lemma vle_refl : forall v, vle v v = true.
Proof. destruct v; reflexivity. Qed.

(* the generated recording flags: every DML statement kind and every call of a Modifying function is recorded *)
Lemma rec_of_true : forall k, rec_of k = true.
Proof. destruct k; reflexivity. Qed.
Lemma rec_call_true : rec_call_modifying = true.
Proof. reflexivity. Qed.

Lemma has_dml_pos : forall n, 0 < n -> has_dml_of n = true.
Proof. intros n H. unfold has_dml_of. destruct (N.eqb_spec n 0); [lia | reflexivity]. Qed.

Lemma app_nonnil : forall (A : Type) (a b : list A), a ++ b <> [] -> a <> [] \/ b <> [].
Proof. intros A [|x a] b H; [right; exact H | left; discriminate]. Qed.

(* ------------------------------------------------------------------ schema lookups *)
Lemma cal_lookup : forall S f d S' c,
  lookup_fn S f = Some (d, S') ->
  cal S f c = Some {| ci_stored := stored_vol S' d; ci_body := comp_e (cal S') (in_inlined c) (f_body d) |}.
Proof.
  induction S as [|d0 S IH]; intros f d S' c H; simpl in *; [discriminate|].
  destruct (f =? f_id d0).
  - inversion H; subst. reflexivity.
  - apply IH; exact H.
Qed.

Lemma cal_none : forall S f c, lookup_fn S f = None -> cal S f c = None.
Proof.
  induction S as [|d0 S IH]; intros f c H; simpl in *; [reflexivity|].
  destruct (f =? f_id d0); [discriminate | apply IH; exact H].
Qed.

Lemma schema_rej_lookup : forall S f d S',
  schema_rej S = 0 -> lookup_fn S f = Some (d, S') -> fn_rej S' d = 0 /\ schema_rej S' = 0.
Proof.
  induction S as [|d0 S IH]; intros f d S' H L; simpl in *; [discriminate|].
  apply lor_0 in H; destruct H as [H1 H2]. apply lor_0 in H1; destruct H1 as [H1 _].
  destruct (f =? f_id d0).
  - inversion L; subst. split; assumption.
  - eapply IH; eassumption.
Qed.

(* compile_this_function: the stored volatility is never below the inferred one *)
Lemma stored_ge_inferred : forall S' d,
  fn_rej S' d = 0 -> vle (r_vol (comp_e (cal S') top (f_body d))) (stored_vol S' d) = true.
Proof.
  intros S' d H. unfold fn_rej in H. apply lor_0 in H; destruct H as [_ H].
  unfold stored_vol, stored_of. destruct (f_decl d) as [v|].
  - destruct (vle (r_vol (comp_e (cal S') top (f_body d))) v); [reflexivity | discriminate].
  - apply vle_refl.
Qed.

(* ------------------------------------------------------------------ the core: a write is recorded *)
Scheme runs_min := Minimality for runs Sort Prop
  with runs_many_min := Minimality for runs_many Sort Prop
  with runs_s_min := Minimality for runs_s Sort Prop.
Combined Scheme runs_mutmin from runs_min, runs_many_min, runs_s_min.

Definition wr_e (S : list fdef) (e : expr) (t : list ev) : Prop :=
  t <> [] -> schema_rej S = 0 ->
  forall c, r_vol (comp_e (cal S) c e) = Modifying /\ 0 < r_rec (comp_e (cal S) c e).
Definition wr_s (S : list fdef) (cs : exprs) (t : list ev) : Prop :=
  t <> [] -> schema_rej S = 0 ->
  forall c, r_vol (comp_es (cal S) c cs) = Modifying /\ 0 < r_rec (comp_es (cal S) c cs).

Lemma write_recorded_mut :
  (forall S e t, runs S e t -> wr_e S e t) /\
  (forall S e t, runs_many S e t -> wr_e S e t) /\
  (forall S cs t, runs_s S cs t -> wr_s S cs t).
Proof.
  apply runs_mutmin; unfold wr_e, wr_s.
  - (* leaf *) intros S v H; exfalso; apply H; reflexivity.
  - (* node *) intros S cs t _ IH Hne Hok c. simpl. apply IH; assumption.
  - (* dml *) intros S k cs t n _ IH Hne Hok c. simpl. split; [reflexivity|].
    rewrite rec_of_true. simpl. lia.
  - (* call *)
    intros S f args d S' t1 t2 HL _ IHa _ IHb Hne Hok c.
    destruct (schema_rej_lookup _ _ _ _ Hok HL) as [Hfn HS'].
    simpl. rewrite (cal_lookup _ _ _ _ c HL). cbn [ci_stored ci_body].
    apply app_nonnil in Hne. destruct Hne as [Hne | Hne].
    + (* an argument writes *)
      destruct (IHa Hne Hok c) as [Hv Hr].
      destruct (is_mod (stored_vol S' d)); cbn [r_vol r_rec]; rewrite Hv.
      * split; [apply vmax_mod_l | lia].
      * split; [apply vmax_mod_l | exact Hr].
    + (* the body writes: then it is inferred Modifying, hence stored Modifying, hence inlined *)
      assert (Hst : stored_vol S' d = Modifying).
      { pose proof (stored_ge_inferred _ _ Hfn) as Hle.
        destruct (IHb Hne HS' top) as [Hv _]. rewrite Hv in Hle. apply vle_mod; exact Hle. }
      rewrite Hst. cbn [is_mod r_vol r_rec].
      destruct (IHb Hne HS' (in_inlined c)) as [Hv Hr]. rewrite Hv.
      split; [apply vmax_mod_r | lia].
  - (* many: nil *) intros S e H; exfalso; apply H; reflexivity.
  - (* many: cons *)
    intros S e t1 t2 _ IH1 _ IH2 Hne Hok c.
    apply app_nonnil in Hne. destruct Hne as [Hne | Hne]; [apply IH1 | apply IH2]; assumption.
  - (* children: nil *) intros S H; exfalso; apply H; reflexivity.
  - (* children: cons *)
    intros S p e r t1 t2 _ IH1 _ IH2 Hne Hok c. simpl. unfold cjoin; cbn [r_vol r_rec].
    apply app_nonnil in Hne. destruct Hne as [Hne | Hne].
    + destruct (IH1 Hne Hok (enter c p)) as [Hv Hr]. rewrite Hv. split; [apply vmax_mod_l | lia].
    + destruct (IH2 Hne Hok c) as [Hv Hr]. rewrite Hv. split; [apply vmax_mod_r | lia].
Qed.

Lemma write_recorded : forall S e t c,
  runs S e t -> t <> [] -> schema_rej S = 0 ->
  r_vol (comp_e (cal S) c e) = Modifying /\ 0 < r_rec (comp_e (cal S) c e).
Proof. intros S e t c H Hne Hok. exact (proj1 write_recorded_mut S e t H Hne Hok c). Qed.

Lemma write_recorded_many : forall S e t c,
  runs_many S e t -> t <> [] -> schema_rej S = 0 ->
  r_vol (comp_e (cal S) c e) = Modifying /\ 0 < r_rec (comp_e (cal S) c e).
Proof. intros S e t c H Hne Hok. exact (proj1 (proj2 write_recorded_mut) S e t H Hne Hok c). Qed.

(* a function whose body can write is stored with volatility Modifying *)
Lemma function_volatility : forall S f d S' t,
  schema_rej S = 0 -> lookup_fn S f = Some (d, S') -> runs_many S' (f_body d) t -> t <> [] ->
  stored_vol S' d = Modifying.
Proof.
  intros S f d S' t Hok HL Hr Hne.
  destruct (schema_rej_lookup _ _ _ _ Hok HL) as [Hfn HS'].
  pose proof (stored_ge_inferred _ _ Hfn) as Hle.
  destruct (write_recorded_many _ _ _ top Hr Hne HS') as [Hv _]. rewrite Hv in Hle.
  apply vle_mod; exact Hle.
Qed.

(* ------------------------------------------------------------------ expression level statement *)
Lemma mod_complete_expr : forall S e t,
  schema_rej S = 0 -> runs S e t -> t <> [] ->
  has_dml_of (r_rec (comp_e (cal S) top e)) = true.
Proof.
  intros S e t Hok Hr Hne. apply has_dml_pos.
  exact (proj2 (write_recorded _ _ _ top Hr Hne Hok)).
Qed.

(* ------------------------------------------------------------------ dispatch facts (generated chain) *)
Lemma query_class_branch : forall e, class_branch (query_class e) = Br_else.
Proof. intros [v|cs|[| |] cs|f a]; reflexivity. Qed.

Lemma caps_query : forall s e h sc,
  caps_of s (SQuery e) (QQuery h) sc = if h then cap_MODIFICATIONS else 0.
Proof.
  intros s e h sc. unfold caps_of, dispatch_caps. cbn [stmt_class]. rewrite query_class_branch.
  destruct h; reflexivity.
Qed.

Lemma caps_analyze : forall s e h sc,
  caps_of s (SAnalyze e) (QQuery h) sc = if h then cap_MODIFICATIONS else 0.
Proof. intros s e h sc. destruct h; reflexivity. Qed.

Lemma caps_tx : forall s t q sc, caps_of s (STx t) q sc = cap_TRANSACTION.
Proof. intros s t q sc. destruct t; reflexivity. Qed.

Lemma caps_sess : forall s q sc, caps_of s SSess q sc = cap_SESSION_CONFIG.
Proof. reflexivity. Qed.

Lemma caps_ddl : forall s d sc, caps_of s (SDDL d) QDDL sc = cap_DDL.
Proof. intros s d sc. destruct d as [fd|f b|f v|f|h e|]; try reflexivity; destruct h; reflexivity. Qed.

Lemma caps_config : forall s sc,
  caps_of s (SConfig sc) QOther sc =
  match sc with
  | ScSession => cap_SESSION_CONFIG
  | ScGlobal => if s_nb s then 0 else cap_SESSION_CONFIG
  | _ => cap_PERSISTENT_CONFIG
  end.
Proof. intros s sc. unfold caps_of, dispatch_caps. destruct sc; cbn; try reflexivity; destruct (s_nb s); reflexivity. Qed.

(* ------------------------------------------------------------------ statement level *)
Theorem mod_complete : forall scr s st s' caps n t,
  schema_rej (s_fns s) = 0 ->
  compile_stmt scr s st = Ok s' caps n ->
  exec s st t -> t <> [] ->
  migration_body_stmt st = false ->
  has_cap caps cap_MODIFICATIONS = true.
Proof.
  intros scr s st s' caps n t Hok Hc Hx Hne Hm.
  inversion Hx; subst; try (exfalso; apply Hne; reflexivity); try discriminate.
  - (* query outside a migration block *)
    match goal with H : runs _ _ _ |- _ => rename H into Hr end.
    unfold compile_stmt in Hc.
    destruct (write_recorded _ _ _ top Hr Hne Hok) as [_ Hrec].
    destruct (r_rej (comp_e (cal (s_fns s)) top e) =? 0); cbn [negb] in Hc; [|discriminate].
    match goal with H : s_mig s = None |- _ => rewrite H in Hc end.
    inversion Hc; subst. rewrite caps_query, (has_dml_pos _ Hrec). reflexivity.
  - (* analyze *)
    match goal with H : runs _ _ _ |- _ => rename H into Hr end.
    unfold compile_stmt in Hc.
    destruct (write_recorded _ _ _ top Hr Hne Hok) as [_ Hrec].
    destruct (r_rej (comp_e (cal (s_fns s)) top e) =? 0); cbn [negb] in Hc; [|discriminate].
    destruct (in_mig s); [discriminate|].
    inversion Hc; subst. rewrite caps_analyze, (has_dml_pos _ Hrec). reflexivity.
Qed.

(* with no side condition: any write is covered by a WRITE capability (MODIFICATIONS, DDL or PERSISTENT_CONFIG) *)
Lemma caps_mig_ctl_ddl : forall s st a,
  match st with SMigCommit | SMigStart | SMigAbort | SMigPopulate => True | _ => False end ->
  has_cap (caps_of s st (QMigCtl a) ScSession) cap_DDL = true.
Proof. intros s st a H. destruct st; try contradiction; destruct a; reflexivity. Qed.

Theorem write_complete : forall scr s st s' caps n t,
  schema_rej (s_fns s) = 0 ->
  compile_stmt scr s st = Ok s' caps n ->
  exec s st t -> t <> [] ->
  negb (N.land caps cap_WRITE =? 0) = true.
Proof.
  intros scr s st s' caps n t Hok Hc Hx Hne.
  destruct (migration_body_stmt st) eqn:Hm.
  - destruct st; try discriminate.
    + (* COMMIT MIGRATION *)
      unfold compile_stmt in Hc. destruct (s_mig s) as [m|]; [|discriminate].
      destruct (m_populated m); cbn [negb] in Hc; [|discriminate].
      destruct (m_own_tx m); inversion Hc; subst; reflexivity.
    + (* CREATE MIGRATION *)
      unfold compile_stmt in Hc. destruct (in_mig s); [discriminate|].
      destruct (mig_body_rej (s_fns s) body =? 0); [|discriminate].
      inversion Hc; subst; reflexivity.
  - pose proof (mod_complete _ _ _ _ _ _ _ Hok Hc Hx Hne Hm) as H.
    unfold has_cap in H.
    destruct (N.eqb_spec (N.land caps cap_WRITE) 0) as [E|E]; [|reflexivity].
    exfalso.
    assert (HW : cap_WRITE = N.lor cap_MODIFICATIONS (N.lor cap_DDL cap_PERSISTENT_CONFIG)) by reflexivity.
    rewrite HW, N.land_lor_distr_r in E. apply lor_0 in E. destruct E as [E _].
    rewrite E in H. discriminate.
Qed.

Theorem readonly_no_write : forall scr s st s' caps n t,
  schema_rej (s_fns s) = 0 ->
  compile_stmt scr s st = Ok s' caps n ->
  N.land caps cap_WRITE = 0 ->
  exec s st t -> t = [].
Proof.
  intros scr s st s' caps n t Hok Hc Hz Hx.
  destruct t as [|x t]; [reflexivity|]. exfalso.
  assert (Hne : x :: t <> []) by discriminate.
  pose proof (write_complete _ _ _ _ _ _ _ Hok Hc Hx Hne) as H.
  rewrite Hz in H. discriminate.
Qed.

(* ------------------------------------------------------------------ statement kinds (model statements) *)
Definition kind_requirement (nb : bool) (st : stmt) (caps : N) : Prop :=
  match st with
  | STx _ => has_cap caps cap_TRANSACTION = true
  | SSess => has_cap caps cap_SESSION_CONFIG = true
  | SConfig ScSession => has_cap caps cap_SESSION_CONFIG = true
  | SConfig ScGlobal => nb = false -> has_cap caps cap_SESSION_CONFIG = true
  | SConfig _ => has_cap caps cap_PERSISTENT_CONFIG = true
  | SDDL _ | SMigStart | SMigPopulate | SMigCommit | SMigAbort | SCreateMigration _ =>
      has_cap caps cap_DDL = true
  | _ => True
  end.

Lemma compile_tx_caps : forall scr s st t s' caps n,
  compile_tx scr s st t = Ok s' caps n -> caps = caps_of s st QOther ScSession.
Proof.
  intros scr s st t s' caps n H. unfold compile_tx in H.
  destruct t;
    repeat match type of H with
           | (if ?b then _ else _) = _ => destruct b
           | match ?x with _ => _ end = _ => destruct x
           | Rej _ = _ => discriminate
           end; try discriminate; inversion H; reflexivity.
Qed.

Lemma compile_ddl_caps : forall s st d s' caps n,
  compile_ddl s st d = Ok s' caps n -> caps = caps_of s st QDDL ScSession.
Proof.
  intros s st d s' caps n H. unfold compile_ddl in H.
  destruct d;
    repeat match type of H with
           | (if ?b then _ else _) = _ => destruct b
           | Rej _ = _ => discriminate
           end; try discriminate; inversion H; reflexivity.
Qed.

Theorem kind_caps_model : forall scr s st s' caps n,
  compile_stmt scr s st = Ok s' caps n -> kind_requirement (s_nb s) st caps.
Proof.
  intros scr s st s' caps n H.
  destruct st; cbn [kind_requirement]; try exact I.
  - (* tx *) cbn [compile_stmt] in H. apply compile_tx_caps in H. subst. rewrite caps_tx. reflexivity.
  - (* sess *) cbn [compile_stmt] in H. inversion H; subst. reflexivity.
  - (* config *)
    cbn [compile_stmt] in H. destruct (in_mig s); [discriminate|].
    destruct sc.
    + inversion H; subst. rewrite caps_config. reflexivity.
    + inversion H; subst. rewrite caps_config. intros ->. reflexivity.
    + inversion H; subst. rewrite caps_config. reflexivity.
    + destruct (s_tx s || scr); [discriminate|]. inversion H; subst. rewrite caps_config. reflexivity.
  - (* ddl *) cbn [compile_stmt] in H. apply compile_ddl_caps in H. subst. rewrite caps_ddl. reflexivity.
  - (* start migration *)
    cbn [compile_stmt] in H. destruct (in_mig s); [discriminate|].
    destruct (negb (s_tx s) && negb scr); inversion H; subst; reflexivity.
  - (* populate *)
    cbn [compile_stmt] in H. destruct (s_mig s); [|discriminate]. inversion H; subst; reflexivity.
  - (* commit *)
    cbn [compile_stmt] in H. destruct (s_mig s) as [m|]; [|discriminate].
    destruct (m_populated m); cbn [negb] in H; [|discriminate].
    destruct (m_own_tx m); inversion H; subst; reflexivity.
  - (* abort *)
    cbn [compile_stmt] in H. destruct (s_mig s) as [m|]; [|discriminate].
    destruct (m_own_tx m); inversion H; subst; reflexivity.
  - (* create migration *)
    cbn [compile_stmt] in H. destruct (in_mig s); [discriminate|].
    destruct (mig_body_rej (s_fns s) body =? 0); [|discriminate]. inversion H; subst; reflexivity.
Qed.

(* ------------------------------------------------------------------ statement kinds (every AST class, every valuation) *)
Lemma class_tx : forall k, is_Transaction k = true -> class_branch k = Br_Transaction.
Proof. destruct k; simpl; intro H; try discriminate; reflexivity. Qed.
Lemma class_sess : forall k, is_SessionCommand k = true -> class_branch k = Br_SessionCommand_tuple.
Proof. destruct k; simpl; intro H; try discriminate; reflexivity. Qed.
Lemma class_mig : forall k, is_MigrationCommand k = true -> class_branch k = Br_MigrationCommand.
Proof. destruct k; simpl; intro H; try discriminate; reflexivity. Qed.
Lemma class_ddl : forall k, is_DDLCommand k = true -> is_MigrationCommand k = false -> class_branch k = Br_DDLCommand.
Proof. destruct k; simpl; intros H H2; try discriminate; reflexivity. Qed.
Lemma class_cfg : forall k, is_ConfigOp k = true -> class_branch k = Br_ConfigOp.
Proof. destruct k; simpl; intro H; try discriminate; reflexivity. Qed.
Lemma class_else : forall k,
  class_branch k = Br_else -> is_Query k = true \/ is_Command k = true.
Proof. destruct k; simpl; intro H; try discriminate; auto. Qed.

Theorem kind_caps : forall (k : qlclass) (v : cond -> bool),
  (is_Transaction k = true -> has_cap (dispatch_caps k v) cap_TRANSACTION = true) /\
  (is_SessionCommand k = true -> has_cap (dispatch_caps k v) cap_SESSION_CONFIG = true) /\
  (is_DDLCommand k = true -> is_MigrationCommand k = false -> has_cap (dispatch_caps k v) cap_DDL = true) /\
  (is_MigrationCommand k = true -> v Cq_MigrationControlQuery = true \/ v Cq_DDLQuery = true ->
     has_cap (dispatch_caps k v) cap_DDL = true) /\
  (is_MigrationCommand k = true -> v Cq_MigrationControlQuery = true -> v Cq_tx_action = true ->
     has_cap (dispatch_caps k v) cap_TRANSACTION = true) /\
  (is_ConfigOp k = true -> v Cscope_SESSION = true -> has_cap (dispatch_caps k v) cap_SESSION_CONFIG = true) /\
  (is_ConfigOp k = true -> v Cscope_SESSION = false -> v Cscope_GLOBAL = true -> v Cnotebook = false ->
     has_cap (dispatch_caps k v) cap_SESSION_CONFIG = true) /\
  (is_ConfigOp k = true -> v Cscope_SESSION = false -> v Cscope_GLOBAL = false ->
     has_cap (dispatch_caps k v) cap_PERSISTENT_CONFIG = true) /\
  (class_branch k = Br_else \/ is_ExplainStmt k = true -> v Chas_dml = true ->
     has_cap (dispatch_caps k v) cap_MODIFICATIONS = true).
Proof.
  intros k v. unfold dispatch_caps.
  repeat split.
  - intro H. rewrite (class_tx _ H). reflexivity.
  - intro H. rewrite (class_sess _ H). reflexivity.
  - intros H H2. rewrite (class_ddl _ H H2). reflexivity.
  - intros H [E|E]; rewrite (class_mig _ H); cbn.
    + rewrite E. destruct (v Cq_tx_action); reflexivity.
    + destruct (v Cq_MigrationControlQuery); [destruct (v Cq_tx_action); reflexivity|]. rewrite E. reflexivity.
  - intros H E1 E2. rewrite (class_mig _ H); cbn. rewrite E1, E2. reflexivity.
  - intros H E. rewrite (class_cfg _ H); cbn. rewrite E. reflexivity.
  - intros H E1 E2 E3. rewrite (class_cfg _ H); cbn. rewrite E1, E2, E3. reflexivity.
  - intros H E1 E2. rewrite (class_cfg _ H); cbn. rewrite E1, E2. reflexivity.
  - intros [H|H] E.
    + rewrite H. cbn. rewrite E. reflexivity.
    + assert (class_branch k = Br_ExplainStmt) as -> by (destruct k; simpl in H; try discriminate; reflexivity).
      cbn. rewrite E. reflexivity.
Qed.

(* ------------------------------------------------------------------ unit groups *)
Lemma group_step_lor : forall g u, group_step g u = N.lor g u.
Proof. reflexivity. Qed.

Lemma fold_lor_bit : forall us a i,
  N.testbit (fold_left group_step us a) i = N.testbit a i || existsb (fun u => N.testbit u i) us.
Proof.
  induction us as [|u us IH]; intros a i; simpl.
  - rewrite orb_false_r; reflexivity.
  - rewrite IH, group_step_lor, N.lor_spec, orb_assoc. reflexivity.
Qed.

Theorem group_union : forall us i,
  N.testbit (group_caps us) i = existsb (fun u => N.testbit u i) us.
Proof. intros us i. unfold group_caps. rewrite fold_lor_bit. change group_init with 0. rewrite N.bits_0. reflexivity. Qed.

Lemma fold_lor_cap : forall us a c,
  has_cap (fold_left group_step us a) c = has_cap a c || existsb (fun u => has_cap u c) us.
Proof.
  induction us as [|u us IH]; intros a c; simpl.
  - rewrite orb_false_r; reflexivity.
  - rewrite IH, group_step_lor. unfold has_cap at 1 3 4.
    rewrite N.land_lor_distr_l.
    destruct (N.eqb_spec (N.land a c) 0) as [E1|E1]; destruct (N.eqb_spec (N.land u c) 0) as [E2|E2];
      destruct (N.eqb_spec (N.lor (N.land a c) (N.land u c)) 0) as [E3|E3]; simpl; try reflexivity; exfalso.
    + apply E3. rewrite E1, E2. reflexivity.
    + apply lor_0 in E3. tauto.
    + apply lor_0 in E3. tauto.
    + apply lor_0 in E3. tauto.
Qed.

Theorem group_covers_units : forall us c,
  has_cap (group_caps us) c = existsb (fun u => has_cap u c) us.
Proof.
  intros us c. unfold group_caps. rewrite fold_lor_cap.
  unfold has_cap at 1. change group_init with 0. simpl. reflexivity.
Qed.

(* ------------------------------------------------------------------ flag set *)
Definition pow2 (f : N) : bool := negb (f =? 0) && (f =? N.shiftl 1 (N.log2 f)).
Fixpoint pairwise_disjoint (l : list N) : bool :=
  match l with
  | [] => true
  | x :: r => forallb (fun y => N.land x y =? 0) r && pairwise_disjoint r
  end.

Theorem flags_distinct :
  forallb pow2 cap_flags = true /\ pairwise_disjoint cap_flags = true /\
  cap_flags = [cap_MODIFICATIONS; cap_SESSION_CONFIG; cap_TRANSACTION; cap_DDL; cap_PERSISTENT_CONFIG] /\
  forallb (fun f => N.land f cap_ALL =? f) cap_flags = true /\
  cap_WRITE = N.lor cap_MODIFICATIONS (N.lor cap_DDL cap_PERSISTENT_CONFIG) /\
  cap_NONE = 0.
Proof. repeat split; vm_compute; reflexivity. Qed.

(* ------------------------------------------------------------------ scripts *)
Lemma existsb_map_fst : forall (f : N -> bool) (l : list (N * N)),
  existsb f (map fst l) = existsb (fun u => f (fst u)) l.
Proof. induction l as [|x l IH]; simpl; [reflexivity | rewrite IH; reflexivity]. Qed.

Lemma compile_units_spec : forall scr sts s acc s' us,
  compile_units scr s sts acc = inl (s', us) ->
  length us = (length acc + length sts)%nat.
Proof.
  induction sts as [|st r IH]; intros s acc s' us H; simpl in *.
  - inversion H; subst. rewrite rev_length. lia.
  - destruct (compile_stmt scr s st) as [s1 c n|w]; [|discriminate].
    apply IH in H. simpl in H. lia.
Qed.

Theorem script_units : forall s sts s' us g,
  compile_script s sts = SOk s' us g ->
  length us = length sts /\ g = group_caps (map fst us) /\
  (forall c, has_cap g c = existsb (fun u => has_cap (fst u) c) us).
Proof.
  intros s sts s' us g H. unfold compile_script in H.
  destruct sts as [|st0 r]; [discriminate|].
  remember (st0 :: r) as sts.
  destruct (compile_units _ s sts []) as [[s1 us1]|w] eqn:E; [|discriminate].
  destruct (_ && _ && _); [discriminate|].
  inversion H; subst s' us g.
  split; [apply compile_units_spec in E; simpl in E; exact E|].
  split; [reflexivity|].
  intro c. rewrite group_covers_units. rewrite existsb_map_fst. reflexivity.
Qed.

(* ------------------------------------------------------------------ every reachable session has a valid schema *)
Definition sps_ok (l : list (option N * list fdef * bool)) : Prop :=
  Forall (fun x => schema_rej (snd (fst x)) = 0) l.
Definition sess_ok (s : sess) : Prop :=
  schema_rej (s_fns s) = 0 /\ schema_rej (s_base s) = 0 /\ sps_ok (s_sps s) /\
  (forall m, s_mig s = Some m -> schema_rej (m_saved m) = 0).

Lemma sess0_ok : forall S nb, schema_rej S = 0 -> sess_ok (sess0 S nb).
Proof. intros S nb H. repeat split; simpl; auto. constructor. intros m E; discriminate. Qed.

Lemma eqb0 : forall w, (w =? 0) = true -> w = 0.
Proof. intros w H. apply N.eqb_eq; exact H. Qed.

Lemma touch_mig_ok : forall s, sess_ok s -> sess_ok (touch_mig s).
Proof.
  intros s (A & B & C & D). unfold touch_mig. destruct (s_mig s) as [m|] eqn:E.
  - repeat split; simpl; auto. intros m' E'. inversion E'; subst; simpl. apply (D m); reflexivity.
  - repeat split; auto. intros m' E'. rewrite E in E'. discriminate.
Qed.

Lemma set_fns_ok : forall s S, sess_ok s -> schema_rej S = 0 -> sess_ok (set_fns s S).
Proof. intros s S (A & B & C & D) H. repeat split; simpl; auto. Qed.

Lemma find_sp_ok : forall n l S g rest,
  sps_ok l -> find_sp n l = Some ((S, g), rest) -> schema_rej S = 0 /\ sps_ok rest.
Proof.
  induction l as [|[[o S0] g0] l IH]; intros S g rest H F; simpl in F; [discriminate|].
  inversion H; subst. destruct o as [m|].
  - destruct (n =? m).
    + inversion F; subst. split; [assumption | constructor; assumption].
    + eapply IH; eassumption.
  - eapply IH; eassumption.
Qed.

Lemma sps_ok_tl : forall l, sps_ok l -> sps_ok (tl l).
Proof. intros [|x l] H; simpl; [constructor | inversion H; assumption]. Qed.

Lemma compile_ddl_ok : forall s st d s' caps n,
  sess_ok s -> compile_ddl s st d = Ok s' caps n -> sess_ok s'.
Proof.
  intros s st d s' caps n Hs H. unfold compile_ddl in H.
  destruct d as [fd|f b|f v|f|h e|].
  - destruct (in_mig s); [discriminate|].
    destruct (N.lor (fn_rej (s_fns s) fd) (if has_fn (s_fns s) (f_id fd) then R_EXISTS else 0) =? 0) eqn:E;
      [|discriminate].
    inversion H; subst. apply touch_mig_ok, set_fns_ok; [assumption|].
    apply eqb0 in E. simpl. destruct Hs as (A & _). rewrite A, E. reflexivity.
  - destruct (in_mig s); [discriminate|]. destruct (negb (has_fn (s_fns s) f)); [discriminate|].
    match type of H with (if ?w =? 0 then _ else _) = _ => destruct (w =? 0) eqn:E end; [|discriminate].
    inversion H; subst. apply touch_mig_ok, set_fns_ok; [assumption | apply eqb0; exact E].
  - destruct (in_mig s); [discriminate|]. destruct (negb (has_fn (s_fns s) f)); [discriminate|].
    match type of H with (if ?w =? 0 then _ else _) = _ => destruct (w =? 0) eqn:E end; [|discriminate].
    inversion H; subst. apply touch_mig_ok, set_fns_ok; [assumption | apply eqb0; exact E].
  - destruct (in_mig s); [discriminate|]. destruct (negb (has_fn (s_fns s) f)); [discriminate|].
    destruct (existsb _ (s_fns s)); [discriminate|].
    match type of H with (if ?w =? 0 then _ else _) = _ => destruct (w =? 0) eqn:E end; [|discriminate].
    inversion H; subst. apply touch_mig_ok, set_fns_ok; [assumption | apply eqb0; exact E].
  - match type of H with (if ?w =? 0 then _ else _) = _ => destruct (w =? 0) end; [|discriminate].
    inversion H; subst. apply touch_mig_ok; assumption.
  - inversion H; subst. apply touch_mig_ok; assumption.
Qed.

Lemma compile_tx_ok : forall scr s st t s' caps n,
  sess_ok s -> compile_tx scr s st t = Ok s' caps n -> sess_ok s'.
Proof.
  intros scr s st t s' caps n (A & B & C & D) H. unfold compile_tx in H.
  destruct t.
  - destruct (in_mig s); [discriminate|]. destruct (s_tx s); [discriminate|]. destruct scr; [discriminate|].
    inversion H; subst. repeat split; simpl; auto.
  - destruct (in_mig s); [discriminate|]. destruct (negb (s_tx s)); [discriminate|]. destruct scr; [discriminate|].
    inversion H; subst. repeat split; simpl; auto. constructor. intros m E; discriminate.
  - destruct scr; [discriminate|].
    inversion H; subst. repeat split; simpl; auto. constructor. intros m E; discriminate.
  - destruct (negb (s_tx s)); [discriminate|]. destruct scr; [discriminate|].
    inversion H; subst. repeat split; simpl; auto. constructor; simpl; assumption.
  - destruct (negb (s_tx s)); [discriminate|].
    destruct (find_sp n0 (s_sps s)) as [[[S g] rest]|] eqn:F; [|discriminate].
    destruct scr; [discriminate|].
    inversion H; subst. destruct (find_sp_ok _ _ _ _ _ C F) as [_ R].
    repeat split; simpl; auto. apply sps_ok_tl; assumption.
  - destruct (negb (s_tx s)); [discriminate|].
    destruct (find_sp n0 (s_sps s)) as [[[S g] rest]|] eqn:F; [|discriminate].
    destruct scr; [discriminate|]. destruct g; [discriminate|].
    inversion H; subst. destruct (find_sp_ok _ _ _ _ _ C F) as [R1 R2].
    repeat split; simpl; auto. intros m E; discriminate.
Qed.

Ltac fin D :=
  repeat split; simpl; auto;
  try (intros ? EE; discriminate EE);
  try (intros ? EE; inversion EE; subst; simpl; auto);
  try (constructor; simpl; auto; fail);
  try (apply sps_ok_tl; assumption);
  try (eapply D; reflexivity).

Lemma compile_stmt_ok : forall scr s st s' caps n,
  sess_ok s -> compile_stmt scr s st = Ok s' caps n -> sess_ok s'.
Proof.
  intros scr s st s' caps n Hs H. pose proof Hs as (A & B & C & D).
  destruct st; cbn [compile_stmt] in H.
  - (* query *)
    destruct (negb _); [discriminate|]. destruct (s_mig s) as [m|] eqn:E.
    + inversion H; subst. repeat split; simpl; auto. intros m' E'. inversion E'; subst; simpl. apply (D m); reflexivity.
    + inversion H; subst. assumption.
  - destruct (in_mig s); [discriminate|]. inversion H; subst; assumption.
  - destruct (negb _); [discriminate|]. destruct (in_mig s); [discriminate|]. inversion H; subst; assumption.
  - destruct (in_mig s); [discriminate|]. inversion H; subst; assumption.
  - eapply compile_tx_ok; eassumption.
  - inversion H; subst; assumption.
  - destruct (in_mig s); [discriminate|]. destruct sc; try (inversion H; subst; assumption).
    destruct (s_tx s || scr); [discriminate|]. inversion H; subst; assumption.
  - eapply compile_ddl_ok; eassumption.
  - (* start migration *)
    destruct (in_mig s); [discriminate|].
    destruct (negb (s_tx s) && negb scr); inversion H; subst; fin D.
  - destruct (s_mig s) as [m|] eqn:E; [|discriminate]. inversion H; subst.
    repeat split; simpl; auto. intros m' E'. inversion E'; subst; simpl. apply (D m); reflexivity.
  - destruct (s_mig s) as [m|]; [|discriminate]. inversion H; subst; assumption.
  - (* commit migration *)
    destruct (s_mig s) as [m|] eqn:E; [|discriminate]. destruct (negb (m_populated m)); [discriminate|].
    destruct (m_own_tx m); inversion H; subst; fin D.
  - (* abort migration *)
    destruct (s_mig s) as [m|] eqn:E; [|discriminate].
    destruct (m_own_tx m); inversion H; subst; fin D.
  - destruct (in_mig s); [discriminate|]. destruct (_ =? 0); [|discriminate]. inversion H; subst; assumption.
Qed.

Lemma compile_units_ok : forall scr sts s acc s' us,
  sess_ok s -> compile_units scr s sts acc = inl (s', us) -> sess_ok s'.
Proof.
  induction sts as [|st r IH]; intros s acc s' us Hs H; simpl in H.
  - inversion H; subst; assumption.
  - destruct (compile_stmt scr s st) as [s1 c n|w] eqn:E; [|discriminate].
    eapply IH; [|exact H]. eapply compile_stmt_ok; eassumption.
Qed.

Lemma compile_script_ok : forall s sts s' us g,
  sess_ok s -> compile_script s sts = SOk s' us g -> sess_ok s'.
Proof.
  intros s sts s' us g Hs H. unfold compile_script in H.
  destruct sts as [|st0 r]; [discriminate|].
  destruct (compile_units _ s (st0 :: r) []) as [[s1 us1]|w] eqn:E; [|discriminate].
  destruct (_ && _ && _); [discriminate|]. inversion H; subst.
  eapply compile_units_ok; eassumption.
Qed.

Theorem reachable_ok : forall reqs s rs sf,
  sess_ok s -> run_requests s reqs = (rs, sf) ->
  sess_ok sf /\ Forall (fun r => match r with SOk s' _ _ => sess_ok s' | SRej _ => True end) rs.
Proof.
  induction reqs as [|q r IH]; intros s rs sf Hs H; simpl in H.
  - inversion H; subst. split; [assumption | constructor].
  - destruct (compile_script s q) as [s1 us g|w] eqn:E.
    + destruct (run_requests s1 r) as [rs1 sf1] eqn:E2. inversion H; subst.
      pose proof (compile_script_ok _ _ _ _ _ Hs E) as H1.
      destruct (IH _ _ _ H1 E2) as [I1 I2]. split; [assumption | constructor; assumption].
    + inversion H; subst. split; [assumption | constructor; [exact I | constructor]].
Qed.
