(* C08 -- declared capabilities cover what a statement does.

   Executable model of the capability computation of the server compiler:

     edb/server/compiler/compiler.py   _compile_dispatch_ql  (branch -> capability; GENERATED: Gen_Caps.branch_dt)
                                       _compile_ql_query      (has_dml = bool(ir.dml_exprs); NullQuery in a
                                                               migration block), _compile_ql_explain,
                                       _try_compile_ast       (script loop, tx control in scripts,
                                                               "incomplete migration in scripts"),
                                       _make_query_unit       (CONFIGURE INSTANCE / tx-control restrictions)
     edb/server/compiler/ddl.py        compile_dispatch_ql_migration (which query kind each migration command
                                       yields and with which tx_action)
     edb/server/compiler/dbstate.py    QueryUnitGroup.append (GENERATED: group_step), start/commit/rollback_tx,
                                       savepoints (as far as they decide acceptance and the schema in force)
     edb/edgeql/compiler/stmt.py       compile_Insert/Update/DeleteQuery: disallow_dml check, recording in
                                       env.dml_exprs (GENERATED flags rec_Ins, rec_Upd, rec_Del), init_stmt: "mutations are invalid
                                       in a shape's computed expression"
     edb/edgeql/compiler/func.py       compile_FunctionCall: inlining of Modifying functions (the body is
                                       compiled in a copy of the environment that SHARES dml_exprs),
                                       recording of calls to Modifying functions
     edb/edgeql/compiler/clauses.py    FILTER / ORDER BY set ctx.disallow_dml (inherited by every nested level)
     edb/edgeql/compiler/inference/volatility.py   max over sub-expressions; DML = Modifying; a call = the
                                       inlined body's volatility if inlined, else the stored volatility
     edb/schema/functions.py           compile_this_function: stored volatility = declared or inferred;
                                       declared < inferred is rejected; dependants are recompiled on ALTER

   Expressions are abstracted to trees whose edges carry the *position* of a child in its parent; only the
   positions that change inherited compiler state are distinguished (FILTER, ORDER BY, the three kinds of
   shape); every other nesting context (WITH binding, result, FOR iterator and body, OFFSET/LIMIT,
   UNLESS CONFLICT ... ELSE, operator and function arguments, set/tuple/array elements, IF/ELSE, ??,
   GROUP subject, DML subject) is PPlain.  Types, cardinalities and names are not modelled: the model
   only accepts/rejects on the rules above.                                                             *)
From Coq Require Import NArith List Bool.
From Verif.C08 Require Import Gen_Caps.
Import ListNotations.
Open Scope N_scope.

(* ------------------------------------------------------------------ volatility *)
Inductive vol : Type := Immutable | Stable | Volatile | Modifying.
Definition vrank (v : vol) : N :=
  match v with Immutable => 0 | Stable => 1 | Volatile => 2 | Modifying => 3 end.
Definition vmax (a b : vol) : vol := if vrank a <? vrank b then b else a.
Definition vle (a b : vol) : bool := vrank a <=? vrank b.
Definition is_mod (v : vol) : bool := match v with Modifying => true | _ => false end.

(* ------------------------------------------------------------------ expressions *)
Inductive dmlkind : Type := Ins | Upd | Del.
Inductive pos : Type := PPlain | PFilter | POrder | PShapeSel | PShapeFree | PShapeMut.

Inductive expr : Type :=
| ELeaf (v : vol)                     (* constant / path / parameter / call of a non-inlined std function *)
| ENode (cs : exprs)                  (* any construct that is not DML and not a user function call *)
| EDml (k : dmlkind) (cs : exprs)     (* INSERT / UPDATE / DELETE with its sub-expressions *)
| ECall (f : N) (args : exprs)        (* call of the user-defined EdgeQL function f *)
with exprs : Type :=
| XNil
| XCons (p : pos) (e : expr) (r : exprs).

(* ------------------------------------------------------------------ inherited compiler context *)
Inductive clause : Type := ClNone | ClFilter | ClOrder.          (* ctx.disallow_dml *)
Inductive dvk : Type := DvNone | DvSel | DvFree | DvMut.         (* ctx.defining_view: none / a SELECT shape /
                                                                    an exposed trivial free-object shape /
                                                                    an INSERT or UPDATE shape *)
Record cx : Type := { c_dis : clause; c_dv : dvk; c_inl : bool }.
(* c_inl: inside the body of an inlined function (compiled on a fresh context stack: init_stmt cannot find
   the exposed outer level that exempts top-level free objects) *)
Definition top : cx := {| c_dis := ClNone; c_dv := DvNone; c_inl := false |}.
Definition in_inlined (c : cx) : cx := {| c_dis := c_dis c; c_dv := c_dv c; c_inl := true |}.
Definition enter (c : cx) (p : pos) : cx :=
  match p with
  | PPlain => c
  | PFilter => {| c_dis := ClFilter; c_dv := c_dv c; c_inl := c_inl c |}
  | POrder => {| c_dis := ClOrder; c_dv := c_dv c; c_inl := c_inl c |}
  | PShapeSel => {| c_dis := c_dis c; c_dv := DvSel; c_inl := c_inl c |}
  | PShapeFree => {| c_dis := c_dis c; c_dv := DvFree; c_inl := c_inl c |}
  | PShapeMut => {| c_dis := c_dis c; c_dv := DvMut; c_inl := c_inl c |}
  end.

(* rejection reasons (bit mask; 0 = accepted) *)
Definition R_FILTER : N := 1.        (* "<X> statements cannot be used in a FILTER clause" *)
Definition R_ORDER : N := 2.         (* "... in an ORDER BY clause" *)
Definition R_SHAPE : N := 4.         (* "mutations are invalid in a shape's computed expression" *)
Definition R_NOFUNC : N := 8.        (* function does not exist *)
Definition R_VOLMISMATCH : N := 16.  (* "volatility mismatch in function declared as ..." *)
Definition R_DDLCTX : N := 32.       (* "mutations are invalid in <alias definition / computed ...>", volatile
                                        global default, non-immutable index expression *)
Definition R_STATE : N := 64.        (* transaction / migration-block state errors *)
Definition R_EXISTS : N := 128.      (* function already exists / has dependants *)
Definition R_SCRIPT : N := 256.      (* transaction control or CONFIGURE INSTANCE inside a script *)
Definition R_UNMODELLED : N := 512.  (* combinations the model deliberately does not cover (see DESIGN) *)

Record cres : Type := { r_vol : vol; r_rec : N; r_rej : N }.
(* r_vol: inferred volatility; r_rec: number of entries appended to env.dml_exprs; r_rej: reasons *)
Definition cjoin (a b : cres) : cres :=
  {| r_vol := vmax (r_vol a) (r_vol b); r_rec := r_rec a + r_rec b; r_rej := N.lor (r_rej a) (r_rej b) |}.
Definition cnil : cres := {| r_vol := Immutable; r_rec := 0; r_rej := 0 |}.

Definition rec_of (k : dmlkind) : bool :=
  match k with Ins => rec_Ins | Upd => rec_Upd | Del => rec_Del end.
Definition chk_of (k : dmlkind) : bool :=
  match k with Ins => chk_disallow_Ins | Upd => chk_disallow_Upd | Del => chk_disallow_Del end.
Definition b2n (b : bool) : N := if b then 1 else 0.

Definition rej_clause (c : cx) : N :=
  match c_dis c with ClNone => 0 | ClFilter => R_FILTER | ClOrder => R_ORDER end.
(* a DML statement: the disallow_dml check of compile_<X>Query, then init_stmt's shape check *)
Definition rej_dml (k : dmlkind) (c : cx) : N :=
  N.lor (if chk_of k then rej_clause c else 0)
        (match c_dv c with
         | DvSel => R_SHAPE
         | DvFree => if c_inl c then R_SHAPE else 0
         | _ => 0
         end).
(* a call of a Modifying function: func.py exempts trivial free objects (ctx.partial_path_prefix) *)
Definition rej_call (c : cx) : N :=
  match c_dv c with DvSel => R_SHAPE | _ => 0 end.

Record cinfo : Type := { ci_stored : vol; ci_body : cres }.

Fixpoint comp_e (cal : N -> cx -> option cinfo) (c : cx) (e : expr) {struct e} : cres :=
  match e with
  | ELeaf v => {| r_vol := v; r_rec := 0; r_rej := 0 |}
  | ENode cs => comp_es cal c cs
  | EDml k cs =>
      let r := comp_es cal c cs in
      {| r_vol := Modifying; r_rec := r_rec r + b2n (rec_of k); r_rej := N.lor (r_rej r) (rej_dml k c) |}
  | ECall f args =>
      let r := comp_es cal c args in
      match cal f c with
      | None => {| r_vol := r_vol r; r_rec := r_rec r; r_rej := N.lor (r_rej r) R_NOFUNC |}
      | Some ci =>
          if is_mod (ci_stored ci) then
            (* inlined: the body is compiled at the call site, sharing env.dml_exprs; the call itself is
               recorded because the function is Modifying *)
            {| r_vol := vmax (r_vol r) (r_vol (ci_body ci));
               r_rec := r_rec r + r_rec (ci_body ci) + b2n rec_call_modifying;
               r_rej := N.lor (N.lor (r_rej r) (r_rej (ci_body ci))) (rej_call c) |}
          else
            {| r_vol := vmax (r_vol r) (ci_stored ci); r_rec := r_rec r; r_rej := r_rej r |}
      end
  end
with comp_es (cal : N -> cx -> option cinfo) (c : cx) (cs : exprs) {struct cs} : cres :=
  match cs with
  | XNil => cnil
  | XCons p e r => cjoin (comp_e cal (enter c p) e) (comp_es cal c r)
  end.

(* ------------------------------------------------------------------ function schema *)
Record fdef : Type := { f_id : N; f_decl : option vol; f_body : expr }.
(* newest first; a body is resolved against the definitions that FOLLOW it in the list (= older ones) *)

Definition stored_of (d : fdef) (binf : vol) : vol :=
  match f_decl d with Some v => v | None => binf end.

Fixpoint cal (S : list fdef) (f : N) (c : cx) {struct S} : option cinfo :=
  match S with
  | [] => None
  | d :: S' =>
      if f =? f_id d then
        Some {| ci_stored := stored_of d (r_vol (comp_e (cal S') top (f_body d)));
                ci_body := comp_e (cal S') (in_inlined c) (f_body d) |}
      else cal S' f c
  end.

Definition has_fn (S : list fdef) (f : N) : bool := existsb (fun d => f =? f_id d) S.

(* compile_this_function: the body must compile; a declared volatility may not be below the inferred one *)
Definition fn_rej (S' : list fdef) (d : fdef) : N :=
  let bt := comp_e (cal S') top (f_body d) in
  N.lor (r_rej bt)
        (match f_decl d with
         | Some v => if vle (r_vol bt) v then 0 else R_VOLMISMATCH
         | None => 0
         end).

Fixpoint schema_rej (S : list fdef) : N :=
  match S with
  | [] => 0
  | d :: S' => N.lor (N.lor (fn_rej S' d) (if has_fn S' (f_id d) then R_EXISTS else 0)) (schema_rej S')
  end.

Definition stored_vol (S' : list fdef) (d : fdef) : vol :=
  stored_of d (r_vol (comp_e (cal S') top (f_body d))).

Fixpoint vols (S : list fdef) : list (N * vol) :=
  match S with
  | [] => []
  | d :: S' => (f_id d, stored_vol S' d) :: vols S'
  end.

(* syntactic references (DROP FUNCTION is refused while another body mentions the function) *)
Fixpoint mentions (f : N) (e : expr) {struct e} : bool :=
  match e with
  | ELeaf _ => false
  | ENode cs => mentions_s f cs
  | EDml _ cs => mentions_s f cs
  | ECall g args => (f =? g) || mentions_s f args
  end
with mentions_s (f : N) (cs : exprs) {struct cs} : bool :=
  match cs with
  | XNil => false
  | XCons _ e r => mentions f e || mentions_s f r
  end.

Fixpoint replace_fn (S : list fdef) (f : N) (g : fdef -> fdef) : list fdef :=
  match S with
  | [] => []
  | d :: S' => if f =? f_id d then g d :: S' else d :: replace_fn S' f g
  end.
Fixpoint remove_fn (S : list fdef) (f : N) : list fdef :=
  match S with
  | [] => []
  | d :: S' => if f =? f_id d then S' else d :: remove_fn S' f
  end.

(* ------------------------------------------------------------------ statements *)
Inductive txcmd : Type :=
| TxStart | TxCommit | TxRollback | TxDeclare (n : N) | TxRelease (n : N) | TxRollbackTo (n : N).
Inductive cfgscope : Type := ScSession | ScGlobal | ScDatabase | ScInstance.
Inductive holder : Type :=
| HAlias | HGlobal | HComputed | HPolicy | HGlobalDefault | HIndex     (* reject mutations *)
| HPtrDefault | HTrigger | HRewrite.                                    (* accept mutations *)
Inductive ddl : Type :=
| DCreateFn (d : fdef)
| DAlterBody (f : N) (body : expr)
| DAlterVol (f : N) (v : option vol)
| DDropFn (f : N)
| DHolder (h : holder) (e : expr)
| DOther.
Inductive mcmd : Type := MQuery (e : expr) | MOther.
Inductive stmt : Type :=
| SQuery (e : expr)
| SDescribe
| SAnalyze (e : expr)
| SAdminister
| STx (t : txcmd)
| SSess
| SConfig (sc : cfgscope)
| SDDL (d : ddl)
| SMigStart | SMigPopulate | SMigDescribe | SMigCommit | SMigAbort
| SCreateMigration (body : list mcmd).

(* the class of the statement's AST node (edb/edgeql/ast.py) *)
Definition query_class (e : expr) : qlclass :=
  match e with
  | EDml Ins _ => K_InsertQuery
  | EDml Upd _ => K_UpdateQuery
  | EDml Del _ => K_DeleteQuery
  | _ => K_SelectQuery
  end.
Definition tx_class (t : txcmd) : qlclass :=
  match t with
  | TxStart => K_StartTransaction | TxCommit => K_CommitTransaction | TxRollback => K_RollbackTransaction
  | TxDeclare _ => K_DeclareSavepoint | TxRelease _ => K_ReleaseSavepoint | TxRollbackTo _ => K_RollbackToSavepoint
  end.
Definition holder_class (h : holder) : qlclass :=
  match h with
  | HAlias => K_CreateAlias | HGlobal => K_CreateGlobal | HGlobalDefault => K_CreateGlobal
  | _ => K_CreateObjectType
  end.
Definition ddl_class (d : ddl) : qlclass :=
  match d with
  | DCreateFn _ => K_CreateFunction | DAlterBody _ _ => K_AlterFunction | DAlterVol _ _ => K_AlterFunction
  | DDropFn _ => K_DropFunction | DHolder h _ => holder_class h | DOther => K_CreateObjectType
  end.
Definition stmt_class (s : stmt) : qlclass :=
  match s with
  | SQuery e => query_class e
  | SDescribe => K_DescribeStmt
  | SAnalyze _ => K_ExplainStmt
  | SAdminister => K_AdministerStmt
  | STx t => tx_class t
  | SSess => K_SessionSetAliasDecl
  | SConfig _ => K_ConfigSet
  | SDDL d => ddl_class d
  | SMigStart => K_StartMigration | SMigPopulate => K_PopulateMigration
  | SMigDescribe => K_DescribeCurrentMigration | SMigCommit => K_CommitMigration
  | SMigAbort => K_AbortMigration | SCreateMigration _ => K_CreateMigration
  end.

(* evaluation of a generated decision tree under a valuation of its conditions *)
Fixpoint eval_dt (v : cond -> bool) (t : dt) : N :=
  match t with
  | Ret c => c
  | Ite c a b => if v c then eval_dt v a else eval_dt v b
  end.
Definition dispatch_caps (k : qlclass) (v : cond -> bool) : N := eval_dt v (branch_dt (class_branch k)).

(* what the branch's compile function returned, as far as the chain looks at it *)
Inductive qkind : Type :=
| QQuery (has_dml : bool)       (* dbstate.Query / SimpleQuery *)
| QNull                         (* dbstate.NullQuery (query recorded in a migration block) *)
| QDDL                          (* dbstate.DDLQuery *)
| QMigCtl (tx_action : bool)    (* dbstate.MigrationControlQuery *)
| QOther.                       (* TxControlQuery / SessionStateQuery / MaintenanceQuery *)
Definition valuation (q : qkind) (sc : cfgscope) (notebook : bool) (c : cond) : bool :=
  match c with
  | Cq_MigrationControlQuery => match q with QMigCtl _ => true | _ => false end
  | Cq_tx_action => match q with QMigCtl a => a | _ => false end
  | Cq_DDLQuery => match q with QDDL => true | _ => false end
  | Cscope_SESSION => match sc with ScSession => true | _ => false end
  | Cscope_GLOBAL => match sc with ScGlobal => true | _ => false end
  | Cnotebook => notebook
  | Chas_dml => match q with QQuery h => h | _ => false end
  end.

(* ------------------------------------------------------------------ compiler connection state *)
Record mig : Type := {
  m_own_tx : bool;             (* START MIGRATION opened the transaction itself *)
  m_saved : list fdef;         (* schema at START MIGRATION *)
  m_populated : bool;          (* POPULATE MIGRATION ran and no DDL since *)
  m_cmds : list expr           (* queries recorded by _compile_ql_query (NullQuery), oldest first *)
}.
Record sess : Type := {
  s_fns : list fdef;                          (* user functions of the schema in force *)
  s_base : list fdef;                         (* Transaction._state0: schema when the tx object was made *)
  s_tx : bool;                                (* explicit transaction *)
  s_sps : list (option N * list fdef * bool); (* savepoints, newest first: name (None = migration's own),
                                                 schema, was-in-migration-block *)
  s_mig : option mig;
  s_nb : bool                                 (* ctx.notebook *)
}.
Definition sess0 (S : list fdef) (nb : bool) : sess :=
  {| s_fns := S; s_base := S; s_tx := false; s_sps := []; s_mig := None; s_nb := nb |}.

Definition set_fns (s : sess) (S : list fdef) : sess :=
  {| s_fns := S; s_base := s_base s; s_tx := s_tx s; s_sps := s_sps s; s_mig := s_mig s; s_nb := s_nb s |}.
Definition set_mig (s : sess) (m : option mig) : sess :=
  {| s_fns := s_fns s; s_base := s_base s; s_tx := s_tx s; s_sps := s_sps s; s_mig := m; s_nb := s_nb s |}.
Definition in_mig (s : sess) : bool := match s_mig s with Some _ => true | None => false end.

Inductive outcome : Type :=
| Ok (s : sess) (caps : N) (ndml : N)
| Rej (why : N).

Definition caps_of (s : sess) (st : stmt) (q : qkind) (sc : cfgscope) : N :=
  dispatch_caps (stmt_class st) (valuation q sc (s_nb s)).

(* a migration-block DDL invalidates a previous POPULATE *)
Definition touch_mig (s : sess) : sess :=
  match s_mig s with
  | None => s
  | Some m => set_mig s (Some {| m_own_tx := m_own_tx m; m_saved := m_saved m; m_populated := false;
                                 m_cmds := m_cmds m |})
  end.

Definition holder_rej (h : holder) (r : cres) : N :=
  match h with
  | HAlias | HGlobal | HComputed | HPolicy =>
      (* "mutations are invalid in ...", "volatile functions are not permitted in schema-defined computed
         expressions", "... has a volatile using expression" *)
      if (r_rec r =? 0) && vle (r_vol r) Stable then 0 else R_DDLCTX
  | HGlobalDefault => if vle (r_vol r) Stable then 0 else R_DDLCTX
  | HIndex => if vle (r_vol r) Immutable then 0 else R_DDLCTX
  | HPtrDefault | HTrigger | HRewrite => 0
  end.

Definition compile_ddl (s : sess) (st : stmt) (d : ddl) : outcome :=
  let S := s_fns s in
  let ok s' := Ok (touch_mig s') (caps_of s st QDDL ScSession) 0 in
  match d with
  | DCreateFn fd =>
      if in_mig s then Rej R_UNMODELLED else
      let w := N.lor (fn_rej S fd) (if has_fn S (f_id fd) then R_EXISTS else 0) in
      if w =? 0 then ok (set_fns s (fd :: S)) else Rej w
  | DAlterBody f body =>
      if in_mig s then Rej R_UNMODELLED else
      if negb (has_fn S f) then Rej R_NOFUNC else
      let S' := replace_fn S f (fun d0 => {| f_id := f_id d0; f_decl := f_decl d0; f_body := body |}) in
      let w := schema_rej S' in
      if w =? 0 then ok (set_fns s S') else Rej w
  | DAlterVol f v =>
      if in_mig s then Rej R_UNMODELLED else
      if negb (has_fn S f) then Rej R_NOFUNC else
      let S' := replace_fn S f (fun d0 => {| f_id := f_id d0; f_decl := v; f_body := f_body d0 |}) in
      let w := schema_rej S' in
      if w =? 0 then ok (set_fns s S') else Rej w
  | DDropFn f =>
      if in_mig s then Rej R_UNMODELLED else
      if negb (has_fn S f) then Rej R_NOFUNC else
      if existsb (fun d0 => negb (f =? f_id d0) && mentions f (f_body d0)) S then Rej R_EXISTS
      else
        (* the remaining definitions are re-validated like after an ALTER; this never fails when no
           remaining body mentions f (checked on every run by the correspondence), and keeps
           "every reachable schema is valid" a direct invariant *)
        let S' := remove_fn S f in
        let w := schema_rej S' in
        if w =? 0 then ok (set_fns s S') else Rej w
  | DHolder h e =>
      let r := comp_e (cal S) top e in
      let w := N.lor (r_rej r) (holder_rej h r) in
      if w =? 0 then ok s else Rej w
  | DOther => ok s
  end.

Fixpoint find_sp (n : N) (sps : list (option N * list fdef * bool))
  : option ((list fdef * bool) * list (option N * list fdef * bool)) :=
  (* newest first; returns the savepoint's snapshot and the list from that savepoint on (inclusive) *)
  match sps with
  | [] => None
  | ((Some m, Sx, g) as x) :: r => if n =? m then Some ((Sx, g), x :: r) else find_sp n r
  | (None, _, _) :: r => find_sp n r
  end.

Definition compile_tx (scr : bool) (s : sess) (st : stmt) (t : txcmd) : outcome :=
  let caps := caps_of s st QOther ScSession in
  let mk S base tx sps m := {| s_fns := S; s_base := base; s_tx := tx; s_sps := sps; s_mig := m; s_nb := s_nb s |} in
  match t with
  | TxStart =>
      if in_mig s then Rej R_STATE else
      if s_tx s then Rej R_STATE else
      if scr then Rej R_SCRIPT else
      Ok (mk (s_fns s) (s_base s) true (s_sps s) (s_mig s)) caps 0
  | TxCommit =>
      if in_mig s then Rej R_STATE else
      if negb (s_tx s) then Rej R_STATE else
      if scr then Rej R_SCRIPT else
      Ok (mk (s_fns s) (s_fns s) false [] None) caps 0
  | TxRollback =>
      if scr then Rej R_SCRIPT else
      Ok (mk (s_base s) (s_base s) false [] None) caps 0
  | TxDeclare n =>
      if negb (s_tx s) then Rej R_STATE else
      if scr then Rej R_SCRIPT else
      Ok (mk (s_fns s) (s_base s) true ((Some n, s_fns s, in_mig s) :: s_sps s) (s_mig s)) caps 0
  | TxRelease n =>
      if negb (s_tx s) then Rej R_STATE else
      match find_sp n (s_sps s) with
      | None => Rej R_STATE
      | Some (_, rest) =>
          if scr then Rej R_SCRIPT else
          Ok (mk (s_fns s) (s_base s) true (tl rest) (s_mig s)) caps 0
      end
  | TxRollbackTo n =>
      if negb (s_tx s) then Rej R_STATE else
      match find_sp n (s_sps s) with
      | None => Rej R_STATE
      | Some ((Sx, g), rest) =>
          if scr then Rej R_SCRIPT else
          if g then Rej R_UNMODELLED else      (* rolling back into a migration block: not modelled *)
          Ok (mk Sx (s_base s) true rest None) caps 0
      end
  end.

Fixpoint mig_body_rej (S : list fdef) (b : list mcmd) : N :=
  match b with
  | [] => 0
  | MQuery e :: r => N.lor (r_rej (comp_e (cal S) top e)) (mig_body_rej S r)
  | MOther :: r => mig_body_rej S r
  end.

Definition compile_stmt (scr : bool) (s : sess) (st : stmt) : outcome :=
  let S := s_fns s in
  match st with
  | SQuery e =>
      let r := comp_e (cal S) top e in
      if negb (r_rej r =? 0) then Rej (r_rej r) else
      match s_mig s with
      | Some m =>
          Ok (set_mig s (Some {| m_own_tx := m_own_tx m; m_saved := m_saved m; m_populated := m_populated m;
                                 m_cmds := m_cmds m ++ [e] |}))
             (caps_of s st QNull ScSession) (r_rec r)
      | None => Ok s (caps_of s st (QQuery (has_dml_of (r_rec r))) ScSession) (r_rec r)
      end
  | SDescribe =>
      if in_mig s then Rej R_UNMODELLED else Ok s (caps_of s st (QQuery false) ScSession) 0
  | SAnalyze e =>
      let r := comp_e (cal S) top e in
      if negb (r_rej r =? 0) then Rej (r_rej r) else
      if in_mig s then Rej R_STATE else
      Ok s (caps_of s st (QQuery (has_dml_of (r_rec r))) ScSession) (r_rec r)
  | SAdminister =>
      if in_mig s then Rej R_UNMODELLED else Ok s (caps_of s st QOther ScSession) 0
  | STx t => compile_tx scr s st t
  | SSess => Ok s (caps_of s st QOther ScSession) 0
  | SConfig sc =>
      if in_mig s then Rej R_UNMODELLED else
      match sc with
      | ScInstance => if s_tx s || scr then Rej R_SCRIPT else Ok s (caps_of s st QOther sc) 0
      | _ => Ok s (caps_of s st QOther sc) 0
      end
  | SDDL d => compile_ddl s st d
  | SMigStart =>
      if in_mig s then Rej R_STATE else
      if negb (s_tx s) && negb scr then
        Ok {| s_fns := S; s_base := s_base s; s_tx := true; s_sps := s_sps s;
              s_mig := Some {| m_own_tx := true; m_saved := S; m_populated := false; m_cmds := [] |};
              s_nb := s_nb s |}
           (caps_of s st (QMigCtl true) ScSession) 0
      else
        Ok {| s_fns := S; s_base := s_base s; s_tx := s_tx s; s_sps := (None, S, false) :: s_sps s;
              s_mig := Some {| m_own_tx := false; m_saved := S; m_populated := false; m_cmds := [] |};
              s_nb := s_nb s |}
           (caps_of s st (QMigCtl false) ScSession) 0
  | SMigPopulate =>
      match s_mig s with
      | None => Rej R_STATE
      | Some m =>
          Ok (set_mig s (Some {| m_own_tx := m_own_tx m; m_saved := m_saved m; m_populated := true;
                                 m_cmds := m_cmds m |}))
             (caps_of s st (QMigCtl false) ScSession) 0
      end
  | SMigDescribe =>
      match s_mig s with
      | None => Rej R_STATE
      | Some _ => Ok s (caps_of s st (QQuery false) ScSession) 0
      end
  | SMigCommit =>
      match s_mig s with
      | None => Rej R_STATE
      | Some m =>
          if negb (m_populated m) then Rej R_STATE else
          if m_own_tx m then
            Ok (set_mig s None) (caps_of s st (QMigCtl true) ScSession) 0
          else
            Ok {| s_fns := S; s_base := s_base s; s_tx := s_tx s; s_sps := tl (s_sps s); s_mig := None;
                  s_nb := s_nb s |}
               (caps_of s st (QMigCtl false) ScSession) 0
      end
  | SMigAbort =>
      match s_mig s with
      | None => Rej R_STATE
      | Some m =>
          if m_own_tx m then
            Ok {| s_fns := s_base s; s_base := s_base s; s_tx := false; s_sps := []; s_mig := None;
                  s_nb := s_nb s |}
               (caps_of s st (QMigCtl true) ScSession) 0
          else
            Ok {| s_fns := m_saved m; s_base := s_base s; s_tx := s_tx s; s_sps := s_sps s; s_mig := None;
                  s_nb := s_nb s |}
               (caps_of s st (QMigCtl false) ScSession) 0
      end
  | SCreateMigration b =>
      if in_mig s then Rej R_STATE else
      let w := mig_body_rej S b in
      if w =? 0 then Ok s (caps_of s st QDDL ScSession) 0 else Rej w
  end.

(* ------------------------------------------------------------------ scripts and unit groups *)
Definition group_caps (us : list N) : N := fold_left group_step us group_init.

Inductive sresult : Type :=
| SOk (s : sess) (units : list (N * N)) (group : N)      (* per unit: capabilities, len(dml_exprs) *)
| SRej (why : N).

Fixpoint compile_units (scr : bool) (s : sess) (sts : list stmt) (acc : list (N * N))
  : sess * list (N * N) + N :=
  match sts with
  | [] => inl (s, rev acc)
  | st :: r =>
      match compile_stmt scr s st with
      | Rej w => inr w
      | Ok s' c n => compile_units scr s' r ((c, n) :: acc)
      end
  end.

Definition compile_script (s : sess) (sts : list stmt) : sresult :=
  match sts with
  | [] => SRej R_UNMODELLED                       (* "nothing to compile" *)
  | _ =>
    let scr := match sts with _ :: _ :: _ => true | _ => false end in
    match compile_units scr s sts [] with
    | inr w => SRej w
    | inl (s', us) =>
        if scr && negb (s_tx s') && in_mig s' then SRej R_STATE   (* incomplete migration left in a script *)
        else SOk s' us (group_caps (map fst us))
    end
  end.

(* a connection: a sequence of requests (scripts) against one compiler state; stops at the first
   rejected request *)
Fixpoint run_requests (s : sess) (reqs : list (list stmt)) : list sresult * sess :=
  match reqs with
  | [] => ([], s)
  | q :: r =>
      match compile_script s q with
      | SRej w => ([SRej w], s)
      | SOk s' us g => let (rs, sf) := run_requests s' r in (SOk s' us g :: rs, sf)
      end
  end.

Inductive case_result : Type :=
| BadPrelude (why : N)
| Ran (prelude_vols : list (N * vol)) (rs : list sresult) (final_vols : list (N * vol)).

Definition run_case (nb : bool) (prelude : list fdef) (reqs : list (list stmt)) : case_result :=
  let w := schema_rej prelude in
  if negb (w =? 0) then BadPrelude w else
  let (rs, sf) := run_requests (sess0 prelude nb) reqs in
  Ran (vols prelude) rs (vols (s_fns sf)).

(* ------------------------------------------------------------------ capability predicates *)
Definition has_cap (caps c : N) : bool := negb (N.land caps c =? 0).

(* ------------------------------------------------------------------ what executing a statement writes *)
Inductive ev : Type := W (k : dmlkind).

Fixpoint lookup_fn (S : list fdef) (f : N) : option (fdef * list fdef) :=
  match S with
  | [] => None
  | d :: S' => if f =? f_id d then Some (d, S') else lookup_fn S' f
  end.

(* big-step, nondeterministic: every sub-expression may be evaluated any number of times (zero: empty
   input set, untaken IF/ELSE or ?? branch, no conflict; many: once per element), a DML statement writes
   any number of objects, a function call evaluates the function's body *)
Inductive runs : list fdef -> expr -> list ev -> Prop :=
| R_leaf : forall S v, runs S (ELeaf v) []
| R_node : forall S cs t, runs_s S cs t -> runs S (ENode cs) t
| R_dml : forall S k cs t n, runs_s S cs t -> runs S (EDml k cs) (t ++ repeat (W k) n)
| R_call : forall S f args d S' t1 t2,
    lookup_fn S f = Some (d, S') -> runs_s S args t1 -> runs_many S' (f_body d) t2 ->
    runs S (ECall f args) (t1 ++ t2)
with runs_many : list fdef -> expr -> list ev -> Prop :=
| RM_nil : forall S e, runs_many S e []
| RM_cons : forall S e t1 t2, runs S e t1 -> runs_many S e t2 -> runs_many S e (t1 ++ t2)
with runs_s : list fdef -> exprs -> list ev -> Prop :=
| RS_nil : forall S, runs_s S XNil []
| RS_cons : forall S p e r t1 t2, runs_many S e t1 -> runs_s S r t2 -> runs_s S (XCons p e r) (t1 ++ t2).

Inductive runs_list : list fdef -> list expr -> list ev -> Prop :=
| RL_nil : forall S, runs_list S [] []
| RL_cons : forall S e r t1 t2, runs S e t1 -> runs_list S r t2 -> runs_list S (e :: r) (t1 ++ t2).

Fixpoint mig_queries (b : list mcmd) : list expr :=
  match b with
  | [] => []
  | MQuery e :: r => e :: mig_queries r
  | MOther :: r => mig_queries r
  end.

(* data written when the server executes the unit compiled for `st` in state `s` *)
Inductive exec : sess -> stmt -> list ev -> Prop :=
| X_query : forall s e t, s_mig s = None -> runs (s_fns s) e t -> exec s (SQuery e) t
| X_query_mig : forall s e m, s_mig s = Some m -> exec s (SQuery e) []          (* NullQuery: nothing runs *)
| X_analyze : forall s e t, runs (s_fns s) e t -> exec s (SAnalyze e) t
| X_analyze_dry : forall s e, exec s (SAnalyze e) []                            (* execute := false *)
| X_commit : forall s m t, s_mig s = Some m -> runs_list (s_fns s) (m_cmds m) t -> exec s SMigCommit t
| X_create_mig : forall s b t, runs_list (s_fns s) (mig_queries b) t -> exec s (SCreateMigration b) t
| X_other : forall s st,
    match st with SQuery _ | SAnalyze _ | SMigCommit | SCreateMigration _ => False | _ => True end ->
    exec s st [].

(* the statement executes queries that were written inside a migration (known finding C08-migration-dml) *)
Definition migration_body_stmt (st : stmt) : bool :=
  match st with SMigCommit | SCreateMigration _ => true | _ => false end.
