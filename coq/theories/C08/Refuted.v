(* C08 -- what is FALSE of the faithful model (and of the real compiler: each witness is replayed on it).

   1. The full statement "a statement that can write data carries MODIFICATIONS" fails for CREATE MIGRATION
      and COMMIT MIGRATION: queries written inside a migration are executed when the migration is applied,
      under capabilities DDL [| TRANSACTION] only.   Known finding C08-migration-dml.
   2. In notebook mode SET GLOBAL carries no capability at all (deliberate, see the comment in
      _compile_dispatch_ql); C08_kind_caps therefore requires Cnotebook = false for that clause.
   3. A function DECLARED Modifying whose body is pure is recorded as DML (MODIFICATIONS is set although
      nothing is written): the flags over-approximate; the converse of C08_mod_complete does not hold.   *)
From Coq Require Import NArith List Bool.
From Verif.C08 Require Import Gen_Caps Model Proofs.
Import ListNotations.
Open Scope N_scope.

Definition C08_full : Prop :=
  forall scr s st s' caps n t,
    schema_rej (s_fns s) = 0 -> compile_stmt scr s st = Ok s' caps n -> exec s st t -> t <> [] ->
    has_cap caps cap_MODIFICATIONS = true.

Theorem C08_migration_dml_refuted : ~ C08_full.
Proof.
  intro H.
  assert (X : exec (sess0 [] false) (SCreateMigration [MQuery (EDml Ins XNil)]) [W Ins]).
  { apply X_create_mig. simpl. change [W Ins] with ([W Ins] ++ @nil ev). apply RL_cons; [|apply RL_nil].
    change [W Ins] with (@nil ev ++ repeat (W Ins) 1). apply R_dml. apply RS_nil. }
  specialize (H false (sess0 [] false) (SCreateMigration [MQuery (EDml Ins XNil)]) (sess0 [] false) cap_DDL 0 [W Ins]
                eq_refl eq_refl X).
  assert (N : [W Ins] <> []) by discriminate. specialize (H N). vm_compute in H. discriminate.
Qed.
Print Assumptions C08_migration_dml_refuted.

(* the COMMIT MIGRATION form: START MIGRATION; INSERT (recorded, nothing runs); POPULATE; COMMIT *)
Theorem C08_commit_migration_refuted :
  exists s caps s', 
    run_requests (sess0 [] false) [[SMigStart]; [SQuery (EDml Ins XNil)]; [SMigPopulate]] =
      ([SOk (fst s) [(12, 0)] 12; SOk (snd s) [(0, 1)] 0; SOk s' [(8, 0)] 8], s') /\
    (exists s'', compile_stmt false s' SMigCommit = Ok s'' caps 0) /\
    exec s' SMigCommit [W Ins] /\ has_cap caps cap_MODIFICATIONS = false.
Proof.
  eexists (_, _), _, _. split; [vm_compute; reflexivity|]. split; [eexists; vm_compute; reflexivity|].
  split; [|reflexivity].
  eapply X_commit; [reflexivity|]. simpl.
  change [W Ins] with ([W Ins] ++ @nil ev). apply RL_cons; [|apply RL_nil].
  change [W Ins] with (@nil ev ++ repeat (W Ins) 1). apply R_dml. apply RS_nil.
Qed.
Print Assumptions C08_commit_migration_refuted.

Theorem C08_notebook_set_global_refuted :
  exists s', compile_stmt false (sess0 [] true) (SConfig ScGlobal) = Ok s' 0 0.
Proof. eexists. vm_compute. reflexivity. Qed.
Print Assumptions C08_notebook_set_global_refuted.

Lemma leaf_many_silent : forall S e t, runs_many S e t -> forall v, e = ELeaf v -> t = [].
Proof.
  induction 1 as [| S e t1 t2 R1 _ IH]; intros v E; [reflexivity|].
  subst. inversion R1; subst. simpl. eapply IH; reflexivity.
Qed.

Theorem C08_converse_refuted :
  let S := [ {| f_id := 1; f_decl := Some Modifying; f_body := ELeaf Immutable |} ] in
  schema_rej S = 0 /\
  (exists s', compile_stmt false (sess0 S false) (SQuery (ECall 1 XNil)) = Ok s' cap_MODIFICATIONS 1) /\
  (forall t, runs S (ECall 1 XNil) t -> t = []).
Proof.
  split; [vm_compute; reflexivity|]. split; [eexists; vm_compute; reflexivity|].
  intros t H. inversion H as [| | | S0 f args d S' t1 t2 HL HA HB]; subst.
  simpl in HL. inversion HL; subst. inversion HA; subst. simpl in *.
  eapply leaf_many_silent; [exact HB | reflexivity].
Qed.
Print Assumptions C08_converse_refuted.
