(* C08 -- Declared capabilities cover what a statement does.
   Statements only; each is closed by [exact] of a lemma of Proofs.v and followed by Print Assumptions
   (audited by the check on every run).

   Vocabulary (Model.v):
     expr                 expression trees; an edge carries the position of the child in its parent (plain,
                          FILTER, ORDER BY, SELECT shape, free-object shape, INSERT/UPDATE shape); EDml = an
                          INSERT / UPDATE / DELETE, ECall = a call of a user-defined EdgeQL function
     S : list fdef        the user functions of the schema (newest first; declared volatility + body);
     schema_rej S = 0     every function passed compile_this_function (body compiles, declared >= inferred);
                          this holds in every reachable session (C08_reachable)
     comp_e (cal S) c e   what the EdgeQL compiler computes for e in context c: inferred volatility,
                          len(env.dml_exprs), rejection reasons
     runs S e t           executing e can produce the trace t of data writes (any sub-expression may run any
                          number of times, a DML statement writes any number of objects, a call runs the body)
     compile_stmt scr s st = Ok s' caps n     the server compiler accepts statement st in connection state s
                          (scr: part of a multi-statement script) with capabilities caps
     exec s st t          executing the compiled unit can write the trace t
     dispatch_caps k v    the capability _compile_dispatch_ql attaches to an AST node of class k when the
                          conditions it tests have the truth values v (GENERATED from the source)          *)
From Coq Require Import NArith List Bool.
From Verif.C08 Require Import Gen_Caps Model Proofs.
Import ListNotations.
Open Scope N_scope.

(* a write anywhere inside an expression -- nested subquery, WITH binding, FOR body, shape, conflict clause,
   argument, or the body of a called function, to any depth -- is recorded, so has_dml is set *)
Theorem C08_mod_complete_expr : forall S e t,
  schema_rej S = 0 -> runs S e t -> t <> [] ->
  has_dml_of (r_rec (comp_e (cal S) top e)) = true.
Proof. exact mod_complete_expr. Qed.
Print Assumptions C08_mod_complete_expr.

(* every accepted statement that can write data carries MODIFICATIONS (side condition: not the
   CREATE MIGRATION / COMMIT MIGRATION case, see Refuted.v and known finding C08-migration-dml) *)
Theorem C08_mod_complete : forall scr s st s' caps n t,
  schema_rej (s_fns s) = 0 ->
  compile_stmt scr s st = Ok s' caps n ->
  exec s st t -> t <> [] ->
  migration_body_stmt st = false ->
  has_cap caps cap_MODIFICATIONS = true.
Proof. exact mod_complete. Qed.
Print Assumptions C08_mod_complete.

(* no side condition: a statement that can write data carries a WRITE capability *)
Theorem C08_write_complete : forall scr s st s' caps n t,
  schema_rej (s_fns s) = 0 ->
  compile_stmt scr s st = Ok s' caps n ->
  exec s st t -> t <> [] ->
  negb (N.land caps cap_WRITE =? 0) = true.
Proof. exact write_complete. Qed.
Print Assumptions C08_write_complete.

(* what a read-only endpoint relies on: no WRITE capability => the statement writes nothing *)
Theorem C08_readonly_no_write : forall scr s st s' caps n t,
  schema_rej (s_fns s) = 0 ->
  compile_stmt scr s st = Ok s' caps n ->
  N.land caps cap_WRITE = 0 ->
  exec s st t -> t = [].
Proof. exact readonly_no_write. Qed.
Print Assumptions C08_readonly_no_write.

(* a function whose body can write (directly or through the functions it calls) is stored Modifying *)
Theorem C08_function_volatility : forall S f d S' t,
  schema_rej S = 0 -> lookup_fn S f = Some (d, S') -> runs_many S' (f_body d) t -> t <> [] ->
  stored_vol S' d = Modifying.
Proof. exact function_volatility. Qed.
Print Assumptions C08_function_volatility.

(* statement kinds, for EVERY statement-level class of edb/edgeql/ast.py and every outcome of the tests the
   dispatch chain makes: transaction control => TRANSACTION; SET ALIAS/MODULE => SESSION_CONFIG; DDL => DDL;
   migration commands => DDL (+ TRANSACTION when they open/close the transaction), except the one that yields
   neither a MigrationControlQuery nor a DDLQuery (DESCRIBE CURRENT MIGRATION); CONFIGURE SESSION / SET GLOBAL
   (outside notebook mode) => SESSION_CONFIG; CONFIGURE DATABASE / INSTANCE => PERSISTENT_CONFIG;
   a query / ANALYZE with has_dml => MODIFICATIONS *)
Theorem C08_kind_caps : forall (k : qlclass) (v : cond -> bool),
  (is_Transaction k = true -> has_cap (dispatch_caps k v) cap_TRANSACTION = true) /\
  (is_SessionCommand k = true -> has_cap (dispatch_caps k v) cap_SESSION_CONFIG = true) /\
  (is_DDLCommand k = true -> is_MigrationCommand k = false -> has_cap (dispatch_caps k v) cap_DDL = true) /\
  (is_MigrationCommand k = true -> v Cq_MigrationControlQuery = true \/ v Cq_DDLQuery = true ->
     has_cap (dispatch_caps k v) cap_DDL = true) /\
  (is_MigrationCommand k = true -> v Cq_MigrationControlQuery = true -> v Cq_tx_action = true ->
     has_cap (dispatch_caps k v) cap_TRANSACTION = true) /\
  (is_ConfigOp k = true -> v Cscope_SESSION = true -> has_cap (dispatch_caps k v) cap_SESSION_CONFIG = true) /\
  (is_ConfigOp k = true -> v Cscope_SESSION = false -> v Cscope_GLOBAL = true -> v Cnotebook = false ->
     has_cap (dispatch_caps k v) cap_SESSION_CONFIG = true) /\
  (is_ConfigOp k = true -> v Cscope_SESSION = false -> v Cscope_GLOBAL = false ->
     has_cap (dispatch_caps k v) cap_PERSISTENT_CONFIG = true) /\
  (class_branch k = Br_else \/ is_ExplainStmt k = true -> v Chas_dml = true ->
     has_cap (dispatch_caps k v) cap_MODIFICATIONS = true).
Proof. exact kind_caps. Qed.
Print Assumptions C08_kind_caps.

(* the same for the statements of the model, in every connection state in which they are accepted *)
Theorem C08_kind_caps_model : forall scr s st s' caps n,
  compile_stmt scr s st = Ok s' caps n -> kind_requirement (s_nb s) st caps.
Proof. exact kind_caps_model. Qed.
Print Assumptions C08_kind_caps_model.

(* QueryUnitGroup.capabilities is the union of the units' capabilities, bit by bit ... *)
Theorem C08_group_union : forall us i,
  N.testbit (group_caps us) i = existsb (fun u => N.testbit u i) us.
Proof. exact group_union. Qed.
Print Assumptions C08_group_union.

(* ... so a capability is in the group iff some unit has it *)
Theorem C08_group_covers_units : forall us c,
  has_cap (group_caps us) c = existsb (fun u => has_cap u c) us.
Proof. exact group_covers_units. Qed.
Print Assumptions C08_group_covers_units.

(* a script yields one unit per statement and the union as the group's capabilities *)
Theorem C08_script_units : forall s sts s' us g,
  compile_script s sts = SOk s' us g ->
  length us = length sts /\ g = group_caps (map fst us) /\
  (forall c, has_cap g c = existsb (fun u => has_cap (fst u) c) us).
Proof. exact script_units. Qed.
Print Assumptions C08_script_units.

(* the five flags are distinct single bits inside ALL; WRITE = MODIFICATIONS | DDL | PERSISTENT_CONFIG *)
Theorem C08_flags_distinct :
  forallb pow2 cap_flags = true /\ pairwise_disjoint cap_flags = true /\
  cap_flags = [cap_MODIFICATIONS; cap_SESSION_CONFIG; cap_TRANSACTION; cap_DDL; cap_PERSISTENT_CONFIG] /\
  forallb (fun f => N.land f cap_ALL =? f) cap_flags = true /\
  cap_WRITE = N.lor cap_MODIFICATIONS (N.lor cap_DDL cap_PERSISTENT_CONFIG) /\
  cap_NONE = 0.
Proof. exact flags_distinct. Qed.
Print Assumptions C08_flags_distinct.

(* the hypothesis `schema_rej (s_fns s) = 0` of the theorems above holds in every state a connection can
   reach from a valid function schema, whatever requests are made *)
Theorem C08_reachable : forall reqs s rs sf,
  sess_ok s -> run_requests s reqs = (rs, sf) ->
  sess_ok sf /\ Forall (fun r => match r with SOk s' _ _ => sess_ok s' | SRej _ => True end) rs.
Proof. exact reachable_ok. Qed.
Print Assumptions C08_reachable.

(* ------------------------------------------------------------------ the hypotheses are satisfiable *)
(* f1 inserts; f2 calls f1 (volatility inferred through the call); a SELECT whose shape-free WITH binding
   calls f2: accepted, can write, carries MODIFICATIONS *)
Definition ex_S : list fdef :=
  [ {| f_id := 2; f_decl := None; f_body := ECall 1 (XCons PPlain (ELeaf Immutable) XNil) |};
    {| f_id := 1; f_decl := None; f_body := ENode (XCons PPlain (EDml Ins XNil) XNil) |} ].
Definition ex_q : expr := ENode (XCons PPlain (ECall 2 (XCons PPlain (ELeaf Stable) XNil)) (XCons PPlain (ELeaf Immutable) XNil)).

Example ex_schema_ok : schema_rej ex_S = 0.
Proof. vm_compute. reflexivity. Qed.
Example ex_vols : vols ex_S = [(2, Modifying); (1, Modifying)].
Proof. vm_compute. reflexivity. Qed.
Example ex_accepted :
  exists s', compile_stmt false (sess0 ex_S false) (SQuery ex_q) = Ok s' cap_MODIFICATIONS 3.
Proof. eexists. vm_compute. reflexivity. Qed.
Example ex_runs : runs ex_S ex_q [W Ins].
Proof.
  unfold ex_q. apply R_node.
  change [W Ins] with ([W Ins] ++ @nil ev).
  apply RS_cons.
  - change [W Ins] with ([W Ins] ++ @nil ev). apply RM_cons; [|apply RM_nil].
    change [W Ins] with (@nil ev ++ [W Ins]).
    eapply R_call; [reflexivity | |].
    + change (@nil ev) with (@nil ev ++ @nil ev). apply RS_cons; [apply RM_nil | apply RS_nil].
    + change [W Ins] with ([W Ins] ++ @nil ev). apply RM_cons; [|apply RM_nil].
      simpl. change [W Ins] with (@nil ev ++ [W Ins]).
      eapply R_call; [reflexivity | |].
      * change (@nil ev) with (@nil ev ++ @nil ev). apply RS_cons; [apply RM_nil | apply RS_nil].
      * change [W Ins] with ([W Ins] ++ @nil ev). apply RM_cons; [|apply RM_nil].
        simpl. apply R_node. change [W Ins] with ([W Ins] ++ @nil ev). apply RS_cons; [|apply RS_nil].
        change [W Ins] with ([W Ins] ++ @nil ev). apply RM_cons; [|apply RM_nil].
        change [W Ins] with (@nil ev ++ repeat (W Ins) 1). apply R_dml. apply RS_nil.
  - change (@nil ev) with (@nil ev ++ @nil ev). apply RS_cons; [apply RM_nil | apply RS_nil].
Qed.
(* a rejected placement: the same call inside a FILTER clause *)
Example ex_rejected :
  compile_stmt false (sess0 ex_S false)
    (SQuery (ENode (XCons PPlain (ELeaf Immutable) (XCons PFilter (ECall 2 (XCons PPlain (ELeaf Immutable) XNil)) XNil))))
  = Rej R_FILTER.
Proof. vm_compute. reflexivity. Qed.
(* a declared volatility below the inferred one is refused *)
Example ex_vol_mismatch :
  compile_stmt false (sess0 ex_S false)
    (SDDL (DCreateFn {| f_id := 3; f_decl := Some Volatile; f_body := ECall 2 XNil |})) = Rej R_VOLMISMATCH.
Proof. vm_compute. reflexivity. Qed.
(* kinds: in a script START MIGRATION only gets DDL; alone it also opens the transaction *)
Example ex_start_migration :
  (exists s', compile_stmt false (sess0 [] false) SMigStart = Ok s' (N.lor cap_DDL cap_TRANSACTION) 0) /\
  (exists s', compile_stmt true (sess0 [] false) SMigStart = Ok s' cap_DDL 0).
Proof. split; eexists; vm_compute; reflexivity. Qed.
Example ex_reachable_hyp : sess_ok (sess0 ex_S false).
Proof. apply sess0_ok. exact ex_schema_ok. Qed.
