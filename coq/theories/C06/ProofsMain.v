(* C06 -- soundness of the modelled inference w.r.t. the modelled bag semantics:
   for every core expression, every conforming database and every environment,
   if no over-claiming rule fires (tags = []), the evaluated result lies within the
   inferred cardinality and honours the inferred multiplicity. *)
From Coq Require Import List NArith ZArith Bool String Ascii Lia Arith.
From Verif.C06 Require Import Gen_Card Model ProofsAlg ProofsList ProofsSem.
Import ListNotations.

(* ------------------------------------------------------------------ monad inversion *)
Lemma rbind_ok : forall (A B : Type) (r : res A) (f : A -> res B) b,
  rbind r f = Ok b -> exists a, r = Ok a /\ f a = Ok b.
Proof. intros A B [a|e] f b H; cbn in H; try discriminate. eauto. Qed.

Lemma of_opt_ok : forall (A : Type) (o : option A) a, of_opt o = Ok a -> o = Some a.
Proof. intros A [x|] a H; cbn in H; inversion H; auto. Qed.

Ltac inv_rb :=
  repeat match goal with
  | H : rbind _ _ = Ok _ |- _ =>
      let a := fresh "a" in let H1 := fresh "Hr" in let H2 := fresh "Hk" in
      apply rbind_ok in H; destruct H as (a & H1 & H2)
  | H : of_opt _ = Ok _ |- _ => apply of_opt_ok in H
  | H : Ok _ = Ok _ |- _ => inversion H; clear H; subst
  | H : Err _ = Ok _ |- _ => discriminate H
  end.

Ltac split_tags :=
  repeat match goal with
  | H : _ ++ _ = [] |- _ => apply app_eq_nil in H; destruct H
  end.

(* ------------------------------------------------------------------ small card facts *)
Lemma within_dedup : forall l c, within (List.length l) c -> within (List.length (dedup l)) c.
Proof.
  intros l c H. pose proof (dedup_length l). destruct c; cbn in *; auto; try lia.
  - destruct l as [|x [|y l]]; cbn in *; try lia; reflexivity.
  - apply dedup_length_pos; auto.
Qed.

Lemma within_known : forall n c, within n c -> c <> UNKNOWN.
Proof. intros n c H E; subst; exact H. Qed.

(* total size of pieces each within c2, over a list within c1 *)
Lemma cart2_sum_sound : forall (A : Type) (f : A -> list value) (l : list A) c1 c2 c,
  cartesian_cardinality [c1; c2] = Some c -> within (List.length l) c1 ->
  (forall a, In a l -> within (List.length (f a)) c2) ->
  within (List.length (flat_map f l)) c.
Proof.
  intros A f l c1 c2 c H H1 H2.
  assert (U : card_is_single c2 = true -> List.length (flat_map f l) <= List.length l).
  { intros S. rewrite <- (Nat.mul_1_r (List.length l)). apply flat_map_length_le.
    intros a Ha. eapply within_single_le1; eauto. }
  assert (L : card_can_be_zero c2 = false -> List.length l <= List.length (flat_map f l)).
  { intros S. rewrite <- (Nat.mul_1_r (List.length l)) at 1. apply flat_map_length_ge.
    intros a Ha. specialize (H2 a Ha). destruct c2; cbn in *; try discriminate; lia. }
  assert (Z : l = [] -> List.length (flat_map f l) = 0) by (intros ->; reflexivity).
  destruct c1, c2; cbn in H; inversion H; subst; cbn in *; try contradiction; auto;
    try (specialize (U eq_refl)); try (specialize (L eq_refl)); try lia;
    destruct l as [|a0 [|a1 l]]; cbn in *; try lia;
    try (specialize (H2 a0 (or_introl eq_refl)); rewrite app_nil_r in *; cbn in *; lia).
Qed.

Lemma cart2_sum_sound' : forall (A : Type) (f : A -> list value) (l : list A) c1 c2 c,
  cartesian_cardinality [c2; c1] = Some c -> within (List.length l) c1 ->
  (forall a, In a l -> within (List.length (f a)) c2) ->
  within (List.length (flat_map f l)) c.
Proof.
  intros A f l c1 c2 c H. eapply cart2_sum_sound.
  destruct c1, c2; cbn in *; auto.
Qed.

Lemma cart_amo_le : forall c1 c n n',
  cartesian_cardinality [c1; AT_MOST_ONE] = Some c -> within n c1 -> n' <= n -> within n' c.
Proof.
  intros c1 c n n' H W L. destruct c1; cbn in H; inversion H; subst; cbn in *; try contradiction; lia.
Qed.

Lemma zero_upper_le : forall ce u c n n',
  card_to_bounds ce = Some u -> bounds_to_card CB_ZERO (snd u) = Some c ->
  within n ce -> n' <= n -> within n' c.
Proof.
  intros ce [l u] c n n' B H W L.
  destruct ce; cbn in B; inversion B; subst; cbn in H; inversion H; subst; cbn in *; try lia; auto.
Qed.

(* ------------------------------------------------------------------ environments *)
Section Main.
Variable sch : schema.
Variable d : db.
Hypothesis Hdb : db_ok sch d.

Inductive env_ok : ienv -> tenv -> env -> Prop :=
| env_nil : env_ok [] [] []
| env_cons : forall x vi tf v g tg r,
    env_ok g tg r ->
    (forall di mi, tf di = [] -> v_mult vi di = Ok mi -> mult_ok true mi [v]) ->
    has_ty d (v_ty vi) v ->
    env_ok ((x, vi) :: g) ((x, tf) :: tg) ((x, v) :: r).

Lemma env_lookup : forall g tg r x vi,
  env_ok g tg r -> ilookup g x = Some vi ->
  exists v tf, lookup r x = Some v /\ tlookup tg x = Some tf /\
            (forall di mi, tf di = [] -> v_mult vi di = Ok mi -> mult_ok true mi [v]) /\ has_ty d (v_ty vi) v.
Proof.
  induction 1 as [|y vj tf w g tg r E IH M T]; cbn; intros H; try discriminate.
  destruct (N.eqb y x); eauto. inversion H; subst. eauto 10.
Qed.

(* binding a variable to one element of an evaluated, inferred set *)
Lemma env_bind : forall g tg r x t cs (ms : option N -> res minfo) (tf : option N -> list tag) ls v,
  env_ok g tg r ->
  (forall di mi, tf di = [] -> ms di = Ok mi -> mult_ok true (fixm cs mi) ls) ->
  In v ls -> has_ty d t v ->
  env_ok ((x, bind_var t cs ms) :: g) ((x, tf) :: tg) ((x, v) :: r).
Proof.
  intros g tg r x t cs ms tf ls v E M I T. constructor; auto.
  intros di mi Hd H. cbn in H. inv_rb.
  eapply mult_ok_Sub; [eapply M; eauto|]. now apply Sub_single.
Qed.

(* ------------------------------------------------------------------ objects, pointers *)
Lemma objs_of_NoDup : forall t, NoDup (objs_of d t).
Proof.
  intros t. destruct (db_parts sch d Hdb) as (N & _ & _). unfold objs_of.
  eapply Sub_NoDup; [|exact N]. apply Sub_map. apply Sub_filter.
Qed.

Lemma NoDup_map_VObj : forall l, NoDup l -> NoDup (map VObj l).
Proof.
  induction l; cbn; intros H; constructor; inversion H; subst; auto.
  rewrite in_map_iff. intros (y & E & Hy). inversion E; subst; contradiction.
Qed.

Lemma ptr_step_typed_len : forall p i v b,
  find_ptr sch p = Some i -> obj_type d v b -> b = p_src i ->
  forall c, card_from_schema_value (p_req i) (if p_multi i then SC_Many else SC_One) = Some c ->
  within (List.length (vals_of d v p)) c.
Proof.
  intros p i v b Hf Ho -> c Hc.
  destruct (ptr_card_vals sch d Hdb p i v Hf Ho) as [A B].
  destruct (p_req i), (p_multi i); cbn in Hc; inversion Hc; subst; cbn; auto;
    try (specialize (A eq_refl)); try (specialize (B eq_refl)); lia.
Qed.

Lemma NoDup_flat_map_intro : forall (A : Type) (f : A -> list value) (l : list A),
  NoDup l -> (forall a, In a l -> NoDup (f a)) ->
  (forall a b x, In a l -> In b l -> In x (f a) -> In x (f b) -> a = b) ->
  NoDup (flat_map f l).
Proof.
  induction l as [|a l IH]; intros N F D; cbn; [constructor|].
  inversion N; subst. apply NoDup_app_intro.
  - apply F; cbn; auto.
  - apply IH; auto. + intros; apply F; cbn; auto. + intros; eapply D; cbn; eauto.
  - intros x Hx Hy. apply in_flat_map in Hy. destruct Hy as (b & Hb & Hxb).
    assert (a = b) by (eapply D; cbn; eauto). subst; contradiction.
Qed.

(* ------------------------------------------------------------------ irrelevance of unused variables *)
Lemma lookup_irrel : forall r1 r2 x v v' y,
  N.eqb x y = false -> lookup (r1 ++ (x, v) :: r2) y = lookup (r1 ++ (x, v') :: r2) y.
Proof.
  induction r1 as [|[z w] r1 IH]; intros r2 x v v' y H; cbn.
  - rewrite H. reflexivity.
  - destruct (N.eqb z y); auto.
Qed.

Lemma filterM_ext : forall (A : Type) (f g : A -> option bool) l,
  (forall a, f a = g a) -> filterM f l = filterM g l.
Proof. induction l; cbn; intros H; auto. rewrite H, IHl; auto. Qed.
Lemma fmapM_ext : forall (A B : Type) (f g : A -> option (list B)) l,
  (forall a, f a = g a) -> fmapM f l = fmapM g l.
Proof. induction l; cbn; intros H; auto. rewrite H, IHl; auto. Qed.

Lemma eval_irrel : forall e r1 r2 x v v',
  mentions x e = false ->
  eval sch d (r1 ++ (x, v) :: r2) e = eval sch d (r1 ++ (x, v') :: r2) e.
Proof.
  induction e; intros r1 r2 x0 v v' H; cbn in H |- *;
    repeat match goal with
    | H : _ || _ = false |- _ => apply orb_false_iff in H; destruct H
    end;
    try solve [auto];
    try solve [repeat match goal with
               | IH : forall r1 r2 x v v', mentions x ?e = false -> _, M : mentions _ ?e = false |- _ =>
                   rewrite (IH r1 r2 _ v v' M); clear IH
               end; auto].
  - (* EVar *) rewrite (lookup_irrel r1 r2 x0 v v' x); auto.
  - (* EFilter *)
    rewrite (IHe1 r1 r2 x0 v v'); auto.
    destruct (eval sch d (r1 ++ (x0, v') :: r2) e1); auto.
    apply filterM_ext. intros a.
    match goal with M : mentions x0 e2 = false |- _ => pose proof (IHe2 ((x, a) :: r1) r2 x0 v v' M) as Q end.
    cbn in Q. rewrite Q. reflexivity.
  - (* EFor *)
    rewrite (IHe1 r1 r2 x0 v v'); auto.
    destruct (eval sch d (r1 ++ (x0, v') :: r2) e1); auto.
    apply fmapM_ext. intros a.
    match goal with M : mentions x0 e2 = false |- _ => pose proof (IHe2 ((x, a) :: r1) r2 x0 v v' M) as Q end.
    cbn in Q. rewrite Q. reflexivity.
Qed.

(* ------------------------------------------------------------------ pointer chains *)
Fixpoint chain_vals (v : value) (ch : list N) : list value :=
  match ch with
  | [] => [v]
  | p :: tl => flat_map (fun w => chain_vals w tl)
                        (let out := ptr_step d p v in if is_link sch p then dedup out else out)
  end.

Fixpoint chain_from (l : list value) (ch : list N) : list value :=
  match ch with
  | [] => l
  | p :: tl => chain_from (let out := flat_map (ptr_step d p) l in
                           if is_link sch p then dedup out else out) tl
  end.

Lemma ptr_chain_eval : forall e x ch r v,
  ptr_chain x e = Some ch ->
  exists l, eval sch d ((x, v) :: r) e = Some l /\ l = chain_from [v] ch.
Proof.
  induction e; intros x0 ch r v H; cbn in H; try discriminate.
  - destruct (N.eqb x0 x) eqn:E; try discriminate. inversion H; subst.
    apply N.eqb_eq in E; subst. cbn. rewrite N.eqb_refl. eauto.
  - destruct (ptr_chain x0 e) as [l0|] eqn:E; try discriminate. inversion H; subst.
    destruct (IHe _ _ r v E) as (l & A & B). cbn. rewrite A. eexists; split; eauto.
    subst. clear. generalize [v] as l. induction l0 as [|q l0 IH]; intros l; cbn; auto.
Qed.

(* with exclusive pointers, a value at the end of the chain determines the start *)
Lemma chain_from_In : forall ch l k, In k (chain_from l ch) ->
  match ch with
  | [] => In k l
  | _ => True
  end.
Proof. intros [|p ch] l k H; cbn in *; auto. Qed.

Lemma chain_excl : forall ch l1 l2 k,
  forallb (ptr_excl sch) ch = true ->
  In k (chain_from l1 ch) -> In k (chain_from l2 ch) ->
  exists w, In w l1 /\ In w l2.
Proof.
  induction ch as [|p ch IH]; intros l1 l2 k E H1 H2; cbn in *.
  - eauto.
  - apply andb_true_iff in E. destruct E as [Ep Ec].
    destruct (IH _ _ _ Ec H1 H2) as (w & W1 & W2).
    assert (F : forall l, In w (if is_link sch p then dedup (flat_map (ptr_step d p) l)
                                else flat_map (ptr_step d p) l) ->
                          exists s, In s l /\ In w (ptr_step d p s)).
    { intros l Hw. destruct (is_link sch p); [apply (proj1 (dedup_In _ _)) in Hw|];
        apply in_flat_map in Hw; destruct Hw as (s & A & B); eauto. }
    destruct (F _ W1) as (s1 & A1 & B1). destruct (F _ W2) as (s2 & A2 & B2).
    unfold ptr_excl in Ep. destruct (find_ptr sch p) as [i|] eqn:Hf; try discriminate.
    destruct s1 as [| | |o1| |]; cbn in B1; try contradiction.
    destruct s2 as [| | |o2| |]; cbn in B2; try contradiction.
    assert (o1 = o2) by (eapply excl_same_obj; eauto). subst. eauto.
Qed.

(* ------------------------------------------------------------------ the statement proved per node *)
(* an equation that `subst` leaves alone *)
Definition hold (P : Prop) : Prop := P.

Definition atom_sem (g : ienv) (tg : tenv) (r : env) (e : expr) (l : list value) (a : atom) : Prop :=
  (forall di, tags sch g tg di e = [] ->
     forall la lb, eval sch d r (a_l a) = Some la -> eval sch d r (a_r a) = Some lb ->
       within (List.length la) (a_cl a) /\ within (List.length lb) (a_cr a))
  /\ (existsb is_true l = true ->
        exists la lb v, eval sch d r (a_l a) = Some la /\ eval sch d r (a_r a) = Some lb /\
                        In v la /\ In v lb).

Definition node_ok (e : expr) : Prop :=
  forall g tg r, env_ok g tg r ->
  forall c m ats, infer sch g e = Ok (c, m, ats) ->
  forall l, eval sch d r e = Some l ->
     (forall di, tags sch g tg di e = [] -> within (List.length l) c)
  /\ (forall u di mi, hold (u = true) -> (u = true -> tags sch g tg di e = []) -> m di = Ok mi -> mult_ok u (fixm c mi) l)
  /\ Forall (atom_sem g tg r e l) ats
  /\ (forall v, In v l -> has_ty d (ty_of sch g e) v).

Lemma fixm_fixm_ok : forall u c m l,
  (u = true -> within (List.length l) c) -> mult_ok u m l -> mult_ok u (fixm c (fixm c m)) l.
Proof. intros. rewrite fixm_idem. now apply mult_ok_fixm. Qed.

Lemma ok_ELit : forall vs, node_ok (ELit vs).
Proof.
  intros vs g tg r E c m ats Hi l He. cbn in Hi, He. inversion Hi; subst; clear Hi. inversion He; subst; clear He.
  assert (W : within (List.length l) match l with [] => AT_MOST_ONE | [_] => ONE | _ :: _ :: _ => AT_LEAST_ONE end).
  { destruct l as [|x [|y l]]; cbn; lia. }
  repeat split; auto.
  - intros u di mi Hu T H. inversion H; subst; clear H. apply fixm_fixm_ok || apply mult_ok_fixm; auto.
    destruct l as [|x [|y l]].
    + apply mult_ok_empty.
    + apply mult_ok_unique. intros; repeat constructor; auto.
    + destruct (nodupb (x :: y :: l)) eqn:N.
      * apply mult_ok_unique. intros; now apply nodupb_NoDup.
      * apply mult_ok_dup.
  - intros v Hv. destruct l as [|[] ?]; cbn; auto.
Qed.

Lemma ok_EEmpty : forall t, node_ok (EEmpty t).
Proof.
  intros t g tg r E c m ats Hi l He. cbn in Hi, He. inversion Hi; subst; clear Hi. inversion He; subst; clear He.
  repeat split; auto.
  - cbn; lia.
  - intros u di mi Hu T H. inversion H; subst. apply mult_ok_fixm; [cbn; lia|apply mult_ok_empty].
  - intros v [].
Qed.

Lemma ok_ERoot : forall t, node_ok (ERoot t).
Proof.
  intros t g tg r E c m ats Hi l He. cbn in Hi, He. inversion Hi; subst; clear Hi. inversion He; subst; clear He.
  repeat split; auto.
  - intros u di mi Hu T H. inversion H; subst. apply mult_ok_fixm; [intros; exact I|].
    apply mult_ok_unique. intros _. apply NoDup_map_VObj. apply objs_of_NoDup.
  - intros v Hv. apply in_map_iff in Hv. destruct Hv as (o & <- & Ho). cbn.
    exists o, [t], t, []. repeat split; cbn; auto. now apply objs_of_In.
Qed.

Lemma ok_EVar : forall x, node_ok (EVar x).
Proof.
  intros x g tg r E c m ats Hi l He. cbn in Hi, He.
  destruct (ilookup g x) as [vi|] eqn:L; try discriminate. inversion Hi; subst; clear Hi.
  destruct (env_lookup _ _ _ _ _ E L) as (v & tf & Lv & Lt & Mv & Tv). rewrite Lv in He. inversion He; subst; clear He.
  repeat split; auto.
  - intros u di mi Hu T H. inv_rb. unfold hold in Hu. subst u. specialize (T eq_refl). cbn in T. rewrite Lt in T.
    apply fixm_fixm_ok; [cbn; auto|].
    unfold mark_dis.
    destruct (negb (is_dup a) && root_is (EVar x) di); [apply mult_ok_set_dis|]; eapply Mv; eauto.
  - intros w [<-|[]]. cbn. rewrite L. exact Tv.
Qed.

Ltac rb H p E := apply rbind_ok in H; destruct H as (p & E & H).

Lemma is_link_find : forall p, is_link sch p = true ->
  exists i, find_ptr sch p = Some i /\ p_kind i = KLink.
Proof.
  intros p H. unfold is_link in H. destruct (find_ptr sch p) as [i|]; try discriminate.
  exists i; split; auto. destruct (p_kind i); auto; discriminate.
Qed.

Lemma ptr_src_ok_typed : forall t p v i,
  ptr_src_ok sch t p = true -> find_ptr sch p = Some i -> has_ty d t v ->
  exists o, v = VObj o /\ obj_type d o (p_src i).
Proof.
  intros t p v i H Hf T. unfold ptr_src_ok in H. destruct t; try discriminate. rewrite Hf in H.
  cbn in T. destruct T as (o & k & b & tl & A1 & A2 & A3 & A4). subst.
  rewrite forallb_forall in H. specialize (H _ A2). cbn in H. apply N.eqb_eq in H. subst. eauto.
Qed.

Lemma ok_EPtr : forall e p, node_ok e -> node_ok (EPtr e p).
Proof.
  intros e p IH g tg r E c m ats Hi l He. cbn in Hi.
  rb Hi ipattern:([[ce me] ata]) Hie. rb Hi pc Hpc. rb Hi c' Hc. inversion Hi; subst; clear Hi.
  cbn in He. destruct (eval sch d r e) as [src|] eqn:Es; try discriminate. inversion He; subst; clear He.
  destruct (IH g tg r E _ _ _ Hie _ Es) as (Wc & Wm & _ & Wt).
  unfold ptr_out_card in Hpc. destruct (find_ptr sch p) as [i|] eqn:Hf; try discriminate.
  apply of_opt_ok in Hpc. unfold cart in Hc. apply of_opt_ok in Hc.
  set (out := flat_map (ptr_step d p) src).
  assert (Wout : forall di, tags sch g tg di (EPtr e p) = [] -> within (List.length out) c).
  { intros di T. cbn in T. split_tags.
    destruct (ptr_src_ok sch (ty_of sch g e) p) eqn:Ps; try discriminate.
    eapply cart2_sum_sound; eauto.
    intros v Hv. destruct (ptr_src_ok_typed _ _ _ _ Ps Hf (Wt _ Hv)) as (o & -> & Ho).
    cbn. eapply ptr_step_typed_len; eauto. }
  assert (Wl : forall di, tags sch g tg di (EPtr e p) = [] ->
               within (List.length (if is_link sch p then dedup out else out)) c).
  { intros di T. destruct (is_link sch p); [apply within_dedup|]; eauto. }
  repeat split; auto.
  - intros u di mi Hu T H. rb H m0 Hm0. inversion H; subst; clear H.
    apply fixm_fixm_ok; [intros U; eapply Wl; eauto|].
    assert (Hpm : mult_ok u (if is_link sch p then C_UNIQUE
                             else if ptr_excl sch p && single_key (ty_of sch g e) then C_UNIQUE else C_DUPLICATE)
                          (if is_link sch p then dedup out else out)).
    { destruct (is_link sch p) eqn:Lk.
      - apply mult_ok_unique. intros _. apply dedup_NoDup.
      - destruct (ptr_excl sch p && single_key (ty_of sch g e)) eqn:Ex; [|apply mult_ok_dup].
        apply mult_ok_unique. intros U. specialize (T U). cbn in T. split_tags.
        apply andb_true_iff in Ex. destruct Ex as [Ex Sk]. rewrite Lk, Ex, Sk in *. cbn in *.
        unfold mult_at in *. rewrite Hie, Hm0 in *.
        destruct (is_uniq (fixm ce m0) || is_empty_m (fixm ce m0)) eqn:UE; try discriminate.
        pose proof (Wm true di m0 (eq_refl : hold (true = true)) (fun _ => H) Hm0) as Ms.
        unfold ptr_excl in Ex. rewrite Hf in Ex.
        apply orb_true_iff in UE. destruct UE as [UE|UE].
        + assert (Ns : NoDup src).
          { eapply mult_ok_own_unique; eauto. unfold is_uniq in UE.
            destruct (mi_own (fixm ce m0)); cbn in UE; try discriminate; auto. }
          unfold out. apply NoDup_flat_map_intro; auto.
          * intros a Ha. destruct a; cbn; try constructor. eapply excl_vals_NoDup; eauto.
          * intros a b x Ha Hb Hxa Hxb. destruct a; cbn in Hxa; try contradiction.
            destruct b; cbn in Hxb; try contradiction. f_equal. eapply excl_same_obj; eauto.
        + assert (src = []).
          { eapply mult_ok_own_empty; eauto. unfold is_empty_m in UE.
            destruct (mi_own (fixm ce m0)); cbn in UE; try discriminate; auto. }
          subst. cbn. constructor. }
    unfold mark_dis. match goal with |- context [if ?b then mi_set_dis _ else _] => destruct b end;
      [apply mult_ok_set_dis|]; exact Hpm.
  - intros v Hv. cbn. unfold ptr_ty. rewrite Hf.
    destruct (p_kind i) eqn:K; cbn; auto.
    assert (Hv' : In v out).
    { destruct (is_link sch p); [apply (proj1 (dedup_In _ _)) in Hv; exact Hv|auto]. }
    apply in_flat_map in Hv'. destruct Hv' as (s & Hs & Hvs). destruct s; cbn in Hvs; try contradiction.
    destruct (link_vals sch d Hdb _ _ _ _ Hf K Hvs) as (o' & -> & Ho').
    exists o', [p_tgt i], (p_tgt i), []. repeat split; cbn; auto.
Qed.

Lemma filter_unique_le1_gen : forall (A : Type) (f : A -> bool) (l : list A),
  NoDup l -> (forall x y, In x l -> In y l -> f x = true -> f y = true -> x = y) ->
  List.length (filter f l) <= 1.
Proof.
  induction l as [|a l IH]; intros N U; cbn; auto.
  inversion N; subst. destruct (f a) eqn:Fa.
  - cbn. assert (filter f l = []) as ->; cbn; auto.
    destruct (filter f l) as [|b tl] eqn:Fl; auto. exfalso.
    assert (Hb : In b (filter f l)) by (rewrite Fl; cbn; auto).
    apply filter_In in Hb. destruct Hb as [B1 B2].
    assert (a = b) by (apply U; cbn; auto). subst; contradiction.
  - apply IH; auto. intros; apply U; cbn; auto.
Qed.

Lemma ok_EBack : forall e p t, node_ok e -> node_ok (EBack e p t).
Proof.
  intros e p t IH g tg r E c m ats Hi l He. cbn in Hi.
  rb Hi ipattern:([[ce me] ata]) Hie. rb Hi pc Hpc. rb Hi c1 Hc1. rb Hi c' Hc. inversion Hi; subst; clear Hi.
  cbn in He. destruct (eval sch d r e) as [src|] eqn:Es; try discriminate. inversion He; subst; clear He.
  destruct (IH g tg r E _ _ _ Hie _ Es) as (Wc & Wm & _ & Wt).
  unfold ptr_in_card in Hpc. destruct (find_ptr sch p) as [i|] eqn:Hf; try discriminate.
  inversion Hpc; subst; clear Hpc. unfold cart in Hc1, Hc. apply of_opt_ok in Hc1, Hc.
  set (out := flat_map (back_step d p t) src).
  assert (Wout : forall di, tags sch g tg di (EBack e p t) = [] -> within (List.length (dedup out)) c).
  { intros di T. cbn in T. split_tags.
    eapply cart_amo_le; [exact Hc| |apply dedup_length].
    eapply cart2_sum_sound; eauto.
    intros v Hv. destruct (p_excl i) eqn:Ex; cbn; auto.
    unfold back_step. rewrite map_length. apply filter_unique_le1_gen.
    - apply objs_of_NoDup.
    - intros x y _ _ Hx Hy. apply mem_In in Hx, Hy. eapply excl_same_obj; eauto. }
  repeat split; auto.
  - intros u di mi Hu T H. rb H m0 Hm0. inversion H; subst; clear H.
    apply fixm_fixm_ok; [intros U; eapply Wout; eauto|].
    unfold mark_dis. match goal with |- context [if ?b then mi_set_dis _ else _] => destruct b end;
      [apply mult_ok_set_dis|]; apply mult_ok_unique; intros _; apply dedup_NoDup.
  - intros v Hv. apply (proj1 (dedup_In _ _)) in Hv. apply in_flat_map in Hv.
    destruct Hv as (s & Hs & Hv). unfold back_step in Hv. apply in_map_iff in Hv.
    destruct Hv as (o & <- & Ho). apply filter_In in Ho. destruct Ho as [Ho _].
    cbn. exists o, [t], t, []. repeat split; cbn; auto. now apply objs_of_In.
Qed.

(* ---- products *)
Lemma product_length : forall (la lb : list value) (f : value -> value -> value),
  List.length (flat_map (fun x => map (fun y => f x y) lb) la) = List.length la * List.length lb.
Proof. intros. apply flat_map_length_const. intros; apply map_length. Qed.

Lemma NoDup_product : forall (la lb : list value) (f : value -> value -> value),
  (forall x y x' y', f x y = f x' y' -> x = x' /\ y = y') ->
  NoDup la -> NoDup lb -> NoDup (flat_map (fun x => map (fun y => f x y) lb) la).
Proof.
  intros la lb f Inj Na Nb. apply NoDup_flat_map_intro; auto.
  - intros a _. apply NoDup_map_inj; auto. intros x y _ _ Eq. now apply Inj in Eq.
  - intros a b x _ _ Ha Hb. apply in_map_iff in Ha, Hb.
    destruct Ha as (y & <- & _). destruct Hb as (y' & Eq & _). symmetry in Eq. now apply Inj in Eq.
Qed.

(* projections of a product *)
Lemma proj0_product : forall (la lb : list value) (f : value -> value -> value) (pr : value -> value),
  (forall x y, pr (f x y) = x) -> List.length lb <= 1 ->
  Sub (map pr (flat_map (fun x => map (fun y => f x y) lb) la)) la.
Proof.
  intros la lb f pr P L. destruct lb as [|y [|y' lb]]; cbn in L; try lia.
  - induction la; cbn; [constructor|]. apply Sub_skip. exact IHla.
  - induction la as [|a la IH]; cbn; [constructor|]. rewrite P. apply Sub_keep. exact IH.
Qed.

Lemma proj1_product : forall (la lb : list value) (f : value -> value -> value) (pr : value -> value),
  (forall x y, pr (f x y) = y) -> List.length la <= 1 ->
  Sub (map pr (flat_map (fun x => map (fun y => f x y) lb) la)) lb.
Proof.
  intros la lb f pr P L. destruct la as [|x [|x' la]]; cbn in L; try lia.
  - cbn. apply Sub_nil_l.
  - cbn. rewrite app_nil_r. rewrite map_map. clear L.
    induction lb as [|b lb IH]; cbn; [constructor|]. rewrite P. apply Sub_keep. exact IH.
Qed.

Lemma product_nil_l : forall (lb : list value) (f : value -> value -> value),
  flat_map (fun x => map (fun y => f x y) lb) [] = [].
Proof. reflexivity. Qed.

Lemma product_empty : forall (la lb : list value) (f : value -> value -> value),
  la = [] \/ lb = [] -> flat_map (fun x => map (fun y => f x y) lb) la = [].
Proof.
  intros la lb f [->| ->]; cbn; auto. induction la; cbn; auto.
Qed.

Lemma max_mult_empty : forall a b, max_multiplicity [a; b] = M_EMPTY -> a = M_EMPTY /\ b = M_EMPTY.
Proof. intros a b; destruct a, b; cbn; intros H; try discriminate; auto. Qed.
Lemma max_mult_unique : forall a b, max_multiplicity [a; b] = M_UNIQUE ->
  (a = M_EMPTY \/ a = M_UNIQUE) /\ (b = M_EMPTY \/ b = M_UNIQUE).
Proof. intros a b; destruct a, b; cbn; intros H; try discriminate; auto. Qed.
Lemma max_mult_known : forall a b, a <> M_UNKNOWN -> b <> M_UNKNOWN -> max_multiplicity [a; b] <> M_UNKNOWN.
Proof. intros a b; destruct a, b; cbn; intros; congruence. Qed.

Lemma nodup_of_own : forall m l, mult_ok true m l -> mi_own m = M_EMPTY \/ mi_own m = M_UNIQUE -> NoDup l.
Proof.
  intros m l H [E|E].
  - rewrite (mult_ok_own_empty _ _ _ H E). constructor.
  - eapply mult_ok_own_unique; eauto.
Qed.

Lemma mult_ok_u_cases : forall u m l l',
  mult_ok u m l -> (l = [] -> l' = []) -> (u = true -> Sub l' l) -> mult_ok u m l'.
Proof.
  intros [|] m l l' H T S.
  - eapply mult_ok_Sub; eauto.
  - eapply mult_ok_false_transfer; eauto.
Qed.

Lemma ok_ETup : forall a b, node_ok a -> node_ok b -> node_ok (ETup a b).
Proof.
  intros a b IHa IHb g tg r E c m ats Hi l He. cbn in Hi.
  rb Hi ipattern:([[ca ma] ata]) Hia. rb Hi ipattern:([[cb_ mb] atb]) Hib. rb Hi c' Hc.
  inversion Hi; subst; clear Hi. unfold cart in Hc. apply of_opt_ok in Hc.
  cbn in He. destruct (eval sch d r a) as [la|] eqn:Ea; try discriminate.
  destruct (eval sch d r b) as [lb|] eqn:Eb; try discriminate. inversion He; subst; clear He.
  destruct (IHa g tg r E _ _ _ Hia _ Ea) as (Wca & Wma & _ & Wta).
  destruct (IHb g tg r E _ _ _ Hib _ Eb) as (Wcb & Wmb & _ & Wtb).
  set (l := flat_map (fun x => map (fun y => VPair x y) lb) la).
  assert (Wl : forall di, tags sch g tg di (ETup a b) = [] -> within (List.length l) c).
  { intros di T. cbn in T. split_tags. unfold l. rewrite product_length. eapply cart2_sound; eauto. }
  repeat split; auto.
  - intros u di mi Hu T H. rb H am0 Ham. rb H bm0 Hbm. inversion H; subst; clear H.
    apply fixm_fixm_ok; [intros U; eapply Wl; eauto|].
    assert (Ta : u = true -> tags sch g tg di a = []) by (intros U; specialize (T U); cbn in T; split_tags; auto).
    assert (Tb : u = true -> tags sch g tg di b = []) by (intros U; specialize (T U); cbn in T; split_tags; auto).
    pose proof (Wma u di am0 Hu Ta Ham) as Am. pose proof (Wmb u di bm0 Hu Tb Hbm) as Bm.
    assert (La : u = true -> within (List.length la) ca) by (intros U; eapply Wca; eauto).
    assert (Lb : u = true -> within (List.length lb) cb_) by (intros U; eapply Wcb; eauto).
    cbn [mult_ok mi_own]. repeat split.
    + apply max_mult_known; eapply mult_ok_known; eauto.
    + intros Em. apply max_mult_empty in Em. destruct Em as [Em _].
      unfold l. apply product_empty. left. eapply mult_ok_own_empty; eauto.
    + intros U Eu. subst u. apply max_mult_unique in Eu. destruct Eu as [Ua Ub].
      unfold l. apply NoDup_product.
      * intros x y x' y' Eq. inversion Eq; auto.
      * eapply nodup_of_own; eauto.
      * eapply nodup_of_own; eauto.
    + (* element 0 *)
      unfold count_multi, card_is_multi. cbn [filter].
      destruct (card_is_single ca) eqn:Sa, (card_is_single cb_) eqn:Sb; cbn; try apply mult_ok_dup.
      * eapply mult_ok_u_cases; [exact Am| |].
        -- intros ->. reflexivity.
        -- intros U. unfold l. apply proj0_product; auto. eapply within_single_le1; [exact Sb|apply Lb; exact U].
      * eapply mult_ok_u_cases; [exact Am| |].
        -- intros ->. reflexivity.
        -- intros U. unfold l. apply proj0_product; auto. eapply within_single_le1; [exact Sb|apply Lb; exact U].
    + (* element 1 *)
      unfold count_multi, card_is_multi. cbn [filter].
      destruct (card_is_single ca) eqn:Sa, (card_is_single cb_) eqn:Sb; cbn; try apply mult_ok_dup.
      * eapply mult_ok_u_cases; [exact Bm| |].
        -- intros ->. unfold l. rewrite product_empty; auto.
        -- intros U. unfold l. apply proj1_product; auto. eapply within_single_le1; [exact Sa|apply La; exact U].
      * eapply mult_ok_u_cases; [exact Bm| |].
        -- intros ->. unfold l. rewrite product_empty; auto.
        -- intros U. unfold l. apply proj1_product; auto. eapply within_single_le1; [exact Sa|apply La; exact U].
  - intros v Hv. unfold l in Hv. apply in_flat_map in Hv. destruct Hv as (x & Hx & Hv).
    apply in_map_iff in Hv. destruct Hv as (y & <- & Hy). cbn. exists x, y; repeat split; auto.
Qed.

Lemma ok_EArr : forall a b, node_ok a -> node_ok b -> node_ok (EArr a b).
Proof.
  intros a b IHa IHb g tg r E c m ats Hi l He. cbn in Hi.
  rb Hi ipattern:([[ca ma] ata]) Hia. rb Hi ipattern:([[cb_ mb] atb]) Hib. rb Hi c' Hc.
  inversion Hi; subst; clear Hi. unfold cart in Hc. apply of_opt_ok in Hc.
  cbn in He. destruct (eval sch d r a) as [la|] eqn:Ea; try discriminate.
  destruct (eval sch d r b) as [lb|] eqn:Eb; try discriminate. inversion He; subst; clear He.
  destruct (IHa g tg r E _ _ _ Hia _ Ea) as (Wca & Wma & _ & Wta).
  destruct (IHb g tg r E _ _ _ Hib _ Eb) as (Wcb & Wmb & _ & Wtb).
  set (l := flat_map (fun x => map (fun y => VArr x y) lb) la).
  assert (Wl : forall di, tags sch g tg di (EArr a b) = [] -> within (List.length l) c).
  { intros di T. cbn in T. split_tags. unfold l. rewrite product_length. eapply cart2_sound; eauto. }
  repeat split; auto.
  - intros u di mi Hu T H. rb H am0 Ham. rb H bm0 Hbm. inversion H; subst; clear H.
    apply fixm_fixm_ok; [intros U; eapply Wl; eauto|].
    assert (Ta : u = true -> tags sch g tg di a = []) by (intros U; specialize (T U); cbn in T; split_tags; auto).
    assert (Tb : u = true -> tags sch g tg di b = []) by (intros U; specialize (T U); cbn in T; split_tags; auto).
    pose proof (Wma u di am0 Hu Ta Ham) as Am. pose proof (Wmb u di bm0 Hu Tb Hbm) as Bm.
    apply mult_ok_fresh.
    + apply max_mult_known; eapply mult_ok_known; eauto.
    + intros Em. apply max_mult_empty in Em. destruct Em as [Em _].
      unfold l. apply product_empty. left. eapply mult_ok_own_empty; eauto.
    + intros U Eu. subst u. apply max_mult_unique in Eu. destruct Eu as [Ua Ub].
      unfold l. apply NoDup_product.
      * intros x y x' y' Eq. inversion Eq; auto.
      * eapply nodup_of_own; eauto.
      * eapply nodup_of_own; eauto.
  - intros v Hv. unfold l in Hv. apply in_flat_map in Hv. destruct Hv as (x & Hx & Hv).
    apply in_map_iff in Hv. destruct Hv as (y & <- & Hy). cbn. exists x, y; repeat split; auto.
    + apply has_ty_join_l; auto.
    + apply has_ty_join_r; auto.
Qed.

Lemma ok_EProj : forall e i, node_ok e -> node_ok (EProj e i).
Proof.
  intros e i IH g tg r E c m ats Hi l He. cbn in Hi.
  rb Hi ipattern:([[ce me] ata]) Hie. rb Hi c' Hc. inversion Hi; subst; clear Hi.
  unfold cart in Hc. apply of_opt_ok in Hc.
  cbn in He. destruct (eval sch d r e) as [src|] eqn:Es; try discriminate. inversion He; subst; clear He.
  destruct (IH g tg r E _ _ _ Hie _ Es) as (Wc & Wm & _ & Wt).
  assert (Wl : forall di, tags sch g tg di (EProj e i) = [] -> within (List.length (map (vproj i) src)) c).
  { intros di T. cbn in T. split_tags. rewrite map_length.
    rewrite <- (Nat.mul_1_r (List.length src)). eapply cart2_sound; eauto. reflexivity. }
  repeat split; auto.
  - intros u di mi Hu T H. rb H m0 Hm0. inversion H; subst; clear H.
    apply fixm_fixm_ok; [intros U; eapply Wl; eauto|].
    assert (Te : u = true -> tags sch g tg di e = []) by (intros U; specialize (T U); cbn in T; split_tags; auto).
    pose proof (Wm u di m0 Hu Te Hm0) as Ms.
    assert (Hpm : mult_ok u (match fixm ce m0 with MCont _ _ e0 e1 => if i then e1 else e0 | _ => C_DUPLICATE end)
                          (map (vproj i) src)).
    { destruct (fixm ce m0) as [o ds cn|o ds e0 e1]; [apply mult_ok_dup|].
      cbn in Ms. destruct Ms as (_ & _ & _ & M0 & M1). destruct i; auto. }
    unfold mark_dis. match goal with |- context [if ?b then mi_set_dis _ else _] => destruct b end;
      [apply mult_ok_set_dis|]; exact Hpm.
  - intros v Hv. apply in_map_iff in Hv. destruct Hv as (w & <- & Hw). specialize (Wt _ Hw).
    cbn. destruct (ty_of sch g e); cbn; auto.
    cbn in Wt. destruct Wt as (x & y & -> & Hx & Hy). destruct i; cbn; auto.
Qed.

(* ---- element-wise calls *)
Lemma fmapM_singletons : forall (g : list value -> option (list value)) (h : value -> value) la l,
  (forall v, g [v] = Some [h v]) -> fmapM g (map (fun v => [v]) la) = Some l -> l = map h la.
Proof.
  induction la as [|a la IH]; intros l G H; cbn in H.
  - inversion H; auto.
  - rewrite G in H. destruct (fmapM g (map (fun v => [v]) la)) as [r'|] eqn:E; try discriminate.
    inversion H; subst. cbn. f_equal. apply IH; auto.
Qed.

Lemma fmapM_one : forall (g : list value -> option (list value)) la l,
  fmapM g [la] = Some l -> g la = Some l.
Proof.
  intros g la l H. cbn in H. destruct (g la); try discriminate. inversion H. now rewrite app_nil_r.
Qed.

Lemma enum_from_length : forall l i, List.length (enum_from i l) = List.length l.
Proof. induction l; intros; cbn; auto. Qed.
Lemma enum_from_proj1 : forall l i, map (vproj true) (enum_from i l) = l.
Proof. induction l; intros; cbn; auto. now rewrite IHl. Qed.
Lemma enum_from_idx : forall l i v, In v (map (vproj false) (enum_from i l)) -> exists z, v = VInt z /\ (i <= z)%Z.
Proof.
  induction l as [|a l IH]; intros i v H; cbn in H; try contradiction.
  destruct H as [<-|H]. - exists i; split; auto; lia.
  - destruct (IH _ _ H) as (z & -> & Hz). exists z; split; auto; lia.
Qed.
Lemma enum_from_proj0_NoDup : forall l i, NoDup (map (vproj false) (enum_from i l)).
Proof.
  induction l as [|a l IH]; intros i; cbn; constructor; auto.
  intros C. apply enum_from_idx in C. destruct C as (z & Ez & Hz). inversion Ez; subst. lia.
Qed.
Lemma NoDup_of_map : forall (f : value -> value) l, NoDup (map f l) -> NoDup l.
Proof.
  induction l as [|a l IH]; cbn; intros H; constructor; inversion H; subst; auto.
  intros C. apply H2. now apply in_map.
Qed.
Lemma enum_from_typed : forall l i v, In v (enum_from i l) -> exists z x, v = VPair (VInt z) x /\ In x l.
Proof.
  induction l as [|a l IH]; intros i v H; cbn in H; try contradiction.
  destruct H as [<-|H].
  - exists i, a; split; cbn; auto.
  - destruct (IH _ _ H) as (z & x & -> & Hx). exists z, x; split; cbn; auto.
Qed.

Lemma vmin_in : forall l v, In v (vmin l) -> In v l.
Proof.
  intros [|a l] v H; cbn in H; try contradiction. destruct H as [<-|[]].
  revert a. induction l as [|b l IH]; intros a; cbn; auto.
  destruct (value_ltb b a); destruct (IH b) as [E|I]; destruct (IH a) as [E'|I']; auto.
Qed.
Lemma vmax_in : forall l v, In v (vmax l) -> In v l.
Proof.
  intros [|a l] v H; cbn in H; try contradiction. destruct H as [<-|[]].
  revert a. induction l as [|b l IH]; intros a; cbn; auto.
  destruct (value_ltb a b); destruct (IH b) as [E|I]; destruct (IH a) as [E'|I']; auto.
Qed.
Lemma vmin_len : forall l, List.length (vmin l) = if is_nil l then 0 else 1.
Proof. intros [|a l]; reflexivity. Qed.
Lemma vmax_len : forall l, List.length (vmax l) = if is_nil l then 0 else 1.
Proof. intros [|a l]; reflexivity. Qed.

Definition call1_spec (f : prim1) (la l : list value) : Prop :=
  match f with
  | PNot | PLen => List.length l = List.length la
  | PToStr => exists h, l = map h la
  | PExists | PCount | PSum | PAny | PAll => List.length l = 1
  | PMin | PMax => List.length l = (if is_nil la then 0 else 1) /\ (forall v, In v l -> In v la)
  | PEnumerate => l = enum_from 0%Z la
  | PUnpack => forall v, In v l -> exists x y, In (VArr x y) la /\ (v = x \/ v = y)
  | PASingle => l = la /\ List.length la <= 1
  | PAExists => l = la /\ la <> []
  | PADistinct => l = la /\ NoDup la
  end.

Lemma call1_eval_spec : forall f la l,
  (let '(pm, _, _, _) := sig1 f in fmapM (sem1 f) (insts pm la)) = Some l -> call1_spec f la l.
Proof.
  intros f la l H. destruct f; cbn [sig1 insts] in H; cbv beta iota in H;
    try (apply fmapM_one in H; cbn in H).
  - (* PNot *) apply fmapM_singletons with (h := fun v => VBool (negb (existsb is_true [v]))) in H; auto.
    subst. cbn. now rewrite map_length.
  - (* PLen *) apply fmapM_singletons with (h := fun v => VInt (match v with VStr s => vlen s | _ => 0%Z end)) in H.
    + subst. cbn. now rewrite map_length.
    + intros v; cbn. destruct v; reflexivity.
  - (* PToStr *) cbn. eexists.
    eapply fmapM_singletons with (h := fun v => match v with VInt z => VStr (str_of_Z z) | _ => v end); eauto.
    intros v; cbn. destruct v; reflexivity.
  - inversion H; subst; reflexivity.
  - inversion H; subst; reflexivity.
  - inversion H; subst; reflexivity.
  - (* PMin *) inversion H; subst. split; [apply vmin_len|apply vmin_in].
  - (* PMax *) inversion H; subst. split; [apply vmax_len|apply vmax_in].
  - inversion H; subst; reflexivity.
  - inversion H; subst; reflexivity.
  - (* PEnumerate *) inversion H; subst; reflexivity.
  - (* PUnpack *) intros v Hv.
    destruct (fmapM_In _ _ _ _ _ _ H Hv) as (i & p & Hi & Hp & Hvp).
    apply in_map_iff in Hi. destruct Hi as (w & <- & Hw). cbn in Hp. inversion Hp; subst.
    destruct w; cbn in Hvp; try contradiction. exists w1, w2. split; auto.
    destruct Hvp as [<-|[<-|[]]]; auto.
  - (* PASingle *) destruct la as [|x [|y la]]; inversion H; subst; cbn; auto.
  - (* PAExists *) destruct la; inversion H; subst; split; auto; discriminate.
  - (* PADistinct *) destruct (nodupb la) eqn:N; inversion H; subst.
    split; auto. now apply nodupb_NoDup.
Qed.

Lemma call1_card_sound : forall f ca c la l,
  call_card1 f ca = Ok c -> within (List.length la) ca -> call1_spec f la l -> within (List.length l) c.
Proof.
  intros f ca c la l H W S.
  assert (Fin : forall n, (n = List.length la \/ True) -> True) by auto.
  destruct f; cbn in S.
  - rewrite S. destruct ca; cbn in H; inversion H; subst; cbn in *; try contradiction; auto; lia.
  - rewrite S. destruct ca; cbn in H; inversion H; subst; cbn in *; try contradiction; auto; lia.
  - destruct S as (h & ->). rewrite map_length.
    destruct ca; cbn in H; inversion H; subst; cbn in *; try contradiction; auto; lia.
  - rewrite S. destruct ca; cbn in H; inversion H; subst; cbn in *; try contradiction; auto; lia.
  - rewrite S. destruct ca; cbn in H; inversion H; subst; cbn in *; try contradiction; auto; lia.
  - rewrite S. destruct ca; cbn in H; inversion H; subst; cbn in *; try contradiction; auto; lia.
  - destruct S as [S _]. rewrite S.
    destruct la; destruct ca; cbn in H; inversion H; subst; cbn in *; try contradiction; auto; lia.
  - destruct S as [S _]. rewrite S.
    destruct la; destruct ca; cbn in H; inversion H; subst; cbn in *; try contradiction; auto; lia.
  - rewrite S. destruct ca; cbn in H; inversion H; subst; cbn in *; try contradiction; auto; lia.
  - rewrite S. destruct ca; cbn in H; inversion H; subst; cbn in *; try contradiction; auto; lia.
  - subst. rewrite enum_from_length.
    destruct ca; cbn in H; inversion H; subst; cbn in *; try contradiction; auto; lia.
  - destruct ca; cbn in H; inversion H; subst; cbn in *; try contradiction; auto.
  - destruct S as [-> L]. destruct ca; cbn in H; inversion H; subst; cbn in *; try contradiction; auto; lia.
  - destruct S as [-> N]. destruct la; [congruence|].
    destruct ca; cbn in H; inversion H; subst; cbn in *; try contradiction; auto; lia.
  - destruct S as [-> _]. destruct ca; cbn in H; inversion H; subst; cbn in *; try contradiction; auto; lia.
Qed.

Lemma mult_ok_enum : forall u am la,
  mult_ok u am la -> mult_ok u (MCont M_UNIQUE false C_UNIQUE am) (enum_from 0%Z la).
Proof.
  intros u am la Am. cbn [mult_ok mi_own].
  split; [discriminate|]. split; [intros; discriminate|].
  split; [intros _ _; eapply NoDup_of_map; apply enum_from_proj0_NoDup|].
  split.
  - apply mult_ok_unique. intros _. apply enum_from_proj0_NoDup.
  - rewrite enum_from_proj1. exact Am.
Qed.

Lemma ok_ECall1 : forall f a, node_ok a -> node_ok (ECall1 f a).
Proof.
  intros f a IHa g tg r E c m ats Hi l He. cbn in Hi.
  rb Hi ipattern:([[ca ma] ata]) Hia. rb Hi c' Hc. inversion Hi; subst; clear Hi.
  cbn in He. destruct (eval sch d r a) as [la|] eqn:Ea; try discriminate.
  destruct (IHa g tg r E _ _ _ Hia _ Ea) as (Wca & Wma & _ & Wta).
  pose proof (call1_eval_spec _ _ _ He) as Sp.
  assert (Wl : forall di, tags sch g tg di (ECall1 f a) = [] -> within (List.length l) c).
  { intros di T. cbn in T. split_tags. eapply call1_card_sound; eauto. }
  repeat split; auto.
  - intros u di mi Hu T H. rb H am0 Ham. inversion H; subst; clear H.
    apply fixm_fixm_ok; [intros U; eapply Wl; eauto|].
    assert (Ta : u = true -> tags sch g tg di a = []) by (intros U; specialize (T U); cbn in T; split_tags; auto).
    pose proof (Wma u di am0 Hu Ta Ham) as Am.
    assert (Single : card_is_single c = true -> mult_ok u C_UNIQUE l).
    { intros S. apply mult_ok_unique. intros U. apply NoDup_le1. eapply within_single_le1; eauto. }
    destruct f; cbn [is_op1];
      try (destruct (card_is_single c) eqn:Sc; [now apply Single|]; try apply mult_ok_dup).
    + (* PToStr *)
      cbn in Sp. destruct Sp as (h & ->).
      destruct (card_is_single ca) eqn:Sa.
      * (* at most one element *)
        destruct u.
        -- assert (List.length la <= 1) by (eapply within_single_le1; eauto).
           destruct la as [|x [|y la]]; cbn in *; try lia.
           ++ exact Am.
           ++ apply mult_ok_single_lift. eapply mult_ok_false_transfer; [apply mult_ok_weaken; eauto|].
              discriminate.
        -- eapply mult_ok_false_transfer; eauto. intros ->; reflexivity.
      * destruct u.
        -- specialize (T eq_refl). cbn in T. split_tags. unfold card_at, mult_at in *. rewrite Hia, Ham in *.
           unfold card_is_multi in *. rewrite Sa in *. cbn in *.
           destruct (fixm ca am0) as [o ds cn|]; try discriminate.
           destruct (mult_eqb o M_UNIQUE) eqn:Eo; try discriminate.
           cbn in Am |- *. destruct Am as (K & Em & _ & _). repeat split; auto.
           ++ intros Eo'. rewrite (Em Eo'). reflexivity.
           ++ intros _ Eo'. subst. discriminate.
        -- eapply mult_ok_false_transfer; eauto. intros ->; reflexivity.
    + (* PEnumerate *)
      cbn in Sp. subst l. now apply mult_ok_enum.
    + (* PAExists *) cbn in Sp. destruct Sp as [-> _]. exact Am.
    + (* PADistinct *) cbn in Sp. destruct Sp as [-> N]. apply mult_ok_unique. auto.
  - intros v Hv. cbn. destruct f; cbn; auto; cbn in Sp.
    + destruct Sp as [_ S2]. auto.
    + destruct Sp as [_ S2]. auto.
    + subst l. apply enum_from_typed in Hv. destruct Hv as (z & x & -> & Hx). exists (VInt z), x; cbn; auto.
    + destruct (Sp _ Hv) as (x & y & Hxy & Hor). specialize (Wta _ Hxy).
      destruct (ty_of sch g a); cbn; auto. cbn in Wta. destruct Wta as (x' & y' & Eq & Tx & Ty).
      inversion Eq; subst. destruct Hor; subst; auto.
    + destruct Sp as [-> _]; auto.
    + destruct Sp as [-> _]; auto.
    + destruct Sp as [-> _]; auto.
Qed.

(* ---- binary calls *)
Lemma fmapM2_singletons : forall (g : list value -> list value -> option (list value)) (h : value -> value -> value) lb la l,
  (forall x y, g [x] [y] = Some [h x y]) ->
  fmapM (fun ia => fmapM (fun ib => g ia ib) (map (fun v => [v]) lb)) (map (fun v => [v]) la) = Some l ->
  l = flat_map (fun x => map (fun y => h x y) lb) la.
Proof.
  intros g h lb. induction la as [|a la IH]; intros l G H; cbn in H.
  - inversion H; auto.
  - destruct (fmapM (fun ib => g [a] ib) (map (fun v => [v]) lb)) as [x|] eqn:E1; try discriminate.
    destruct (fmapM _ (map (fun v => [v]) la)) as [r'|] eqn:E2; try discriminate.
    inversion H; subst. cbn. f_equal.
    + eapply fmapM_singletons with (g := fun ib => g [a] ib) (h := fun y => h a y); eauto.
    + apply IH; auto.
Qed.

Definition sem2_fun (f : prim2) (x y : value) : value :=
  match f with
  | PEq => VBool (value_eqb x y) | PNeq => VBool (negb (value_eqb x y)) | PLt => VBool (value_ltb x y)
  | PAdd => vadd x y | PMul => vmul x y | PCat => vcat x y
  | PAnd => VBool (is_true x && is_true y) | POr => VBool (is_true x || is_true y)
  | _ => VBool false
  end.

Definition olen (l : list value) : nat := match l with [] => 1 | _ => List.length l end.

Definition call2_spec (f : prim2) (la lb l : list value) : Prop :=
  match f with
  | POptEq | POptNeq => List.length l = olen la * olen lb
  | PIn => List.length l = List.length la
  | PAGet => List.length l <= List.length la * List.length lb /\
             (forall v, In v l -> exists x y, In (VArr x y) la /\ (v = x \/ v = y))
  | _ => l = flat_map (fun x => map (fun y => sem2_fun f x y) lb) la
  end.

Lemma insts_O_length : forall l, List.length (insts OptionalType l) = olen l.
Proof. intros [|a l]; cbn; auto. now rewrite map_length. Qed.

Lemma opt_call_length : forall (f : prim2) la lb l,
  (forall ia ib, In ia (insts OptionalType la) -> In ib (insts OptionalType lb) ->
     exists v, sem2 f ia ib = Some [v]) ->
  fmapM (fun ia => fmapM (fun ib => sem2 f ia ib) (insts OptionalType lb)) (insts OptionalType la) = Some l ->
  List.length l = olen la * olen lb.
Proof.
  intros f la lb l G H. rewrite <- !insts_O_length.
  assert (Le : List.length l <= List.length (insts OptionalType la) * List.length (insts OptionalType lb)).
  { eapply fmapM_length_le with (k := List.length (insts OptionalType lb)); [exact H|].
    intros a p Ha Hp. rewrite <- (Nat.mul_1_r (List.length (insts OptionalType lb))).
    eapply fmapM_length_le; [exact Hp|]. intros b q Hb Hq. destruct (G _ _ Ha Hb) as (v & E).
    cbv beta in Hq. rewrite E in Hq. inversion Hq; subst; cbn; lia. }
  assert (Ge : List.length (insts OptionalType la) * List.length (insts OptionalType lb) <= List.length l).
  { eapply fmapM_length_ge with (k := List.length (insts OptionalType lb)); [exact H|].
    intros a p Ha Hp. rewrite <- (Nat.mul_1_r (List.length (insts OptionalType lb))).
    eapply fmapM_length_ge; [exact Hp|]. intros b q Hb Hq. destruct (G _ _ Ha Hb) as (v & E).
    cbv beta in Hq. rewrite E in Hq. inversion Hq; subst; cbn; lia. }
  lia.
Qed.

Lemma insts_O_shape : forall l0 i, In i (insts OptionalType l0) -> i = [] \/ exists v, i = [v].
Proof.
  intros [|z l0] i Hi; cbn in Hi. - destruct Hi as [<-|[]]; auto.
  - right. destruct Hi as [<-|Hi]; eauto. apply in_map_iff in Hi. destruct Hi as (w & <- & _); eauto.
Qed.

Lemma call2_eval_spec : forall f la lb l,
  (let '(ma, mb, _) := sig2 f in
   fmapM (fun ia => fmapM (fun ib => sem2 f ia ib) (insts mb lb)) (insts ma la)) = Some l ->
  call2_spec f la lb l.
Proof.
  intros f la lb l H.
  destruct f; cbn [sig2 insts] in H; cbv beta iota in H; cbn [call2_spec];
    try (eapply fmapM2_singletons with (g := sem2 _); [|exact H]; intros x y; reflexivity).
  - (* POptEq *)
    eapply opt_call_length; [|exact H]. intros ia ib Ha Hb.
    destruct (insts_O_shape _ _ Ha) as [->|(x & ->)]; destruct (insts_O_shape _ _ Hb) as [->|(y & ->)]; cbn; eauto.
  - (* POptNeq *)
    eapply opt_call_length; [|exact H]. intros ia ib Ha Hb.
    destruct (insts_O_shape _ _ Ha) as [->|(x & ->)]; destruct (insts_O_shape _ _ Hb) as [->|(y & ->)]; cbn; eauto.
  - (* PIn *)
    assert (E : l = map (fun x => VBool (mem x lb)) la).
    { eapply fmapM_singletons with (g := fun ia => fmapM (fun ib => sem2 PIn ia ib) [lb]); [|exact H].
      intros v. cbn. reflexivity. }
    subst. now rewrite map_length.
  - (* PAGet *)
    split.
    + rewrite <- (map_length (fun v => [v]) la). rewrite <- (map_length (fun v => [v]) lb).
      eapply fmapM_length_le; [exact H|]. intros a p Ha Hp.
      rewrite <- (Nat.mul_1_r (List.length (map (fun v => [v]) lb))).
      eapply fmapM_length_le; [exact Hp|]. intros b q Hb Hq.
      cbn in Hq. destruct a as [|[] [|? ?]]; try (inversion Hq; subst; cbn; lia).
      destruct b as [|[] [|? ?]]; try (inversion Hq; subst; cbn; lia).
      destruct (Z.eqb z 0); [inversion Hq; subst; cbn; lia|].
      destruct (Z.eqb z 1); inversion Hq; subst; cbn; lia.
    + intros v Hv. destruct (fmapM_In _ _ _ _ _ _ H Hv) as (ia & p & Hia & Hp & Hvp).
      destruct (fmapM_In _ _ _ _ _ _ Hp Hvp) as (ib & q & Hib & Hq & Hvq).
      apply in_map_iff in Hia. destruct Hia as (w & <- & Hw).
      cbn in Hq. destruct w; try (inversion Hq; subst; contradiction).
      destruct ib as [|[] [|? ?]]; try (inversion Hq; subst; contradiction).
      exists w1, w2. split; auto.
      destruct (Z.eqb z 0); [inversion Hq; subst; destruct Hvq as [<-|[]]; auto|].
      destruct (Z.eqb z 1); inversion Hq; subst; [destruct Hvq as [<-|[]]; auto|contradiction].
Qed.

Lemma call2_card_sound : forall f ca cb_ c la lb l,
  call_card2 f ca cb_ = Ok c -> within (List.length la) ca -> within (List.length lb) cb_ ->
  call2_spec f la lb l -> within (List.length l) c.
Proof.
  intros f ca cb_ c la lb l H Wa Wb S.
  assert (P : forall h, List.length (flat_map (fun x => map (fun y => h x y) lb) la)
                        = List.length la * List.length lb) by (intros; apply product_length).
  destruct f; cbn [call2_spec] in S;
    try (subst l; rewrite P; destruct ca, cb_; cbn in H; inversion H; subst; cbn in *; try contradiction; auto;
         try lia; try nia;
         destruct (List.length la) as [|[|?]]; destruct (List.length lb) as [|[|?]]; cbn in *; lia).
  - (* POptEq *) rewrite S.
    destruct ca, cb_; cbn in H; inversion H; subst; cbn in *; try contradiction; auto;
      destruct la as [|? [|? ?]]; destruct lb as [|? [|? ?]]; cbn in *; try lia.
  - (* POptNeq *) rewrite S.
    destruct ca, cb_; cbn in H; inversion H; subst; cbn in *; try contradiction; auto;
      destruct la as [|? [|? ?]]; destruct lb as [|? [|? ?]]; cbn in *; try lia.
  - (* PIn *) rewrite S. destruct ca, cb_; cbn in H; inversion H; subst; cbn in *; try contradiction; auto; lia.
  - (* PAGet *) destruct S as [S _].
    destruct ca, cb_; cbn in H; inversion H; subst; cbn in *; try contradiction; auto;
      try lia; try nia;
      destruct (List.length la) as [|[|?]]; destruct (List.length lb) as [|[|?]]; cbn in *; lia.
Qed.

Lemma str_len_app : forall s1 s2, String.length (String.append s1 s2) = String.length s1 + String.length s2.
Proof. induction s1; intros; cbn; auto. Qed.
Lemma append_inj_l : forall s1 s2 c, String.append s1 c = String.append s2 c -> s1 = s2.
Proof.
  induction s1 as [|ch a IH]; destruct s2 as [|ch' b]; intros c H; cbn in H; auto.
  - exfalso. assert (L : String.length c = String.length (String ch' (String.append b c))) by (rewrite <- H; auto).
    cbn in L. rewrite str_len_app in L. lia.
  - exfalso. assert (L : String.length (String ch (String.append a c)) = String.length c) by (rewrite H; auto).
    cbn in L. rewrite str_len_app in L. lia.
  - inversion H; subst. f_equal. eapply IH; eauto.
Qed.
Lemma append_inj_r : forall c s1 s2, String.append c s1 = String.append c s2 -> s1 = s2.
Proof. induction c; intros s1 s2 H; cbn in H; auto. inversion H; auto. Qed.

Lemma vadd_inj_l : forall x x' y, vadd x y = vadd x' y -> x = x'.
Proof.
  intros x x' y H. destruct x, x', y; cbn in H; try discriminate; try (inversion H; subst; reflexivity).
  inversion H. f_equal. lia.
Qed.
Lemma vadd_inj_r : forall x y y', vadd x y = vadd x y' -> y = y'.
Proof.
  intros x y y' H. destruct x, y, y'; cbn in H; try discriminate; try (inversion H; subst; reflexivity).
  inversion H. f_equal. lia.
Qed.
Lemma vcat_inj_l : forall x x' y, vcat x y = vcat x' y -> x = x'.
Proof.
  intros x x' y H. destruct x, x', y; cbn in H; try discriminate; try (inversion H; subst; reflexivity).
  inversion H. f_equal. eapply append_inj_l; eauto.
Qed.
Lemma vcat_inj_r : forall x y y', vcat x y = vcat x y' -> y = y'.
Proof.
  intros x y y' H. destruct x, y, y'; cbn in H; try discriminate; try (inversion H; subst; reflexivity).
  inversion H. f_equal. eapply append_inj_r; eauto.
Qed.

(* an operator injective in each argument keeps duplicate-freedom when one side is single *)
Lemma NoDup_product_inj : forall (h : value -> value -> value) la lb,
  (forall x x' y, h x y = h x' y -> x = x') -> (forall x y y', h x y = h x y' -> y = y') ->
  NoDup la -> NoDup lb -> (List.length la <= 1 \/ List.length lb <= 1) ->
  NoDup (flat_map (fun x => map (fun y => h x y) lb) la).
Proof.
  intros h la lb Il Ir Na Nb [L|L].
  - destruct la as [|x [|x' la]]; cbn in L; try lia; cbn; [constructor|].
    rewrite app_nil_r. apply NoDup_map_inj; auto. intros; eapply Ir; eauto.
  - destruct lb as [|y [|y' lb]]; cbn in L; try lia.
    + rewrite product_empty; [constructor|right; reflexivity].
    + assert (Eq : flat_map (fun x => map (fun y0 => h x y0) [y]) la = map (fun x => h x y) la).
      { clear. induction la; cbn; auto; f_equal; auto. }
      rewrite Eq. apply NoDup_map_inj; auto. intros; eapply Il; eauto.
Qed.

Lemma atom_sem_lift : forall g tg r e l e' l' a,
  atom_sem g tg r e' l' a ->
  (forall di, tags sch g tg di e = [] -> tags sch g tg di e' = []) ->
  (existsb is_true l = true -> existsb is_true l' = true) ->
  atom_sem g tg r e l a.
Proof.
  intros g tg r e l e' l' a [A B] T X. split.
  - intros di Hd. apply (A di). auto.
  - intros Hx. apply B. auto.
Qed.

Lemma ok_ECall2 : forall f a b, node_ok a -> node_ok b -> node_ok (ECall2 f a b).
Proof.
  intros f a b IHa IHb g tg r E c m ats Hi l He. cbn in Hi.
  rb Hi ipattern:([[ca ma] ata]) Hia. rb Hi ipattern:([[cb_ mb] atb]) Hib. rb Hi c' Hc.
  inversion Hi; subst; clear Hi.
  cbn in He. destruct (eval sch d r a) as [la|] eqn:Ea; try discriminate.
  destruct (eval sch d r b) as [lb|] eqn:Eb; try discriminate.
  destruct (IHa g tg r E _ _ _ Hia _ Ea) as (Wca & Wma & Waa & Wta).
  destruct (IHb g tg r E _ _ _ Hib _ Eb) as (Wcb & Wmb & Wab & Wtb).
  pose proof (call2_eval_spec _ _ _ _ He) as Sp.
  assert (Wl : forall di, tags sch g tg di (ECall2 f a b) = [] -> within (List.length l) c).
  { intros di T. cbn in T. split_tags. eapply call2_card_sound; eauto. }
  repeat split; auto.
  - intros u di mi Hu T H. rb H am0 Ham. rb H bm0 Hbm. inversion H; subst; clear H.
    apply fixm_fixm_ok; [intros U; eapply Wl; eauto|].
    assert (Ta : u = true -> tags sch g tg di a = []) by (intros U; specialize (T U); cbn in T; split_tags; auto).
    assert (Tb : u = true -> tags sch g tg di b = []) by (intros U; specialize (T U); cbn in T; split_tags; auto).
    pose proof (Wma u di am0 Hu Ta Ham) as Am. pose proof (Wmb u di bm0 Hu Tb Hbm) as Bm.
    destruct (card_is_single c) eqn:Sc.
    { apply mult_ok_unique. intros U. apply NoDup_le1. eapply within_single_le1; eauto. }
    destruct (is_op2 f && injective_op f) eqn:Inj; [|apply mult_ok_dup].
    assert (Hf : (f = PAdd \/ f = PCat)) by (destruct f; cbn in Inj; try discriminate; auto).
    cbv zeta.
    change (max_multiplicity [mi_own (fixm ca am0); mi_own (fixm cb_ bm0)])
      with (mult_max2 (mi_own (fixm ca am0)) (mi_own (fixm cb_ bm0))).
    set (o := mult_max2 (mi_own (fixm ca am0)) (mi_own (fixm cb_ bm0))).
    assert (Eo' : o = max_multiplicity [mi_own (fixm ca am0); mi_own (fixm cb_ bm0)]) by reflexivity.
    assert (Ko : o <> M_UNKNOWN) by (rewrite Eo'; apply max_mult_known; eapply mult_ok_known; eauto).
    destruct (is_dup (fresh_mi o)) eqn:Do.
    { apply mult_ok_fresh; auto.
      - intros Eo. unfold is_dup in Do. cbn in Do. rewrite Eo in Do. discriminate.
      - intros _ Eo. unfold is_dup in Do. cbn in Do. rewrite Eo in Do. discriminate. }
    assert (Spl : l = flat_map (fun x => map (fun y => sem2_fun f x y) lb) la).
    { destruct Hf as [-> | ->]; exact Sp. }
    assert (Fr : (u = true -> List.length la <= 1 \/ List.length lb <= 1) -> mult_ok u (fresh_mi o) l).
    { intros Sing. apply mult_ok_fresh; auto.
      + intros Eo. rewrite Eo' in Eo. apply max_mult_empty in Eo. destruct Eo as [Eo _].
        rewrite Spl. apply product_empty. left. eapply mult_ok_own_empty; eauto.
      + intros U Eo. rewrite Eo' in Eo. apply max_mult_unique in Eo. destruct Eo as [Ua Ub].
        specialize (Sing U). subst u. rewrite Spl.
        destruct Hf as [-> | ->]; cbn [sem2_fun].
        * apply NoDup_product_inj;
            [exact vadd_inj_l | exact vadd_inj_r | eapply nodup_of_own; eauto | eapply nodup_of_own; eauto | exact Sing].
        * apply NoDup_product_inj;
            [exact vcat_inj_l | exact vcat_inj_r | eapply nodup_of_own; eauto | eapply nodup_of_own; eauto | exact Sing]. }
    unfold count_multi, card_is_multi. cbn [filter].
    destruct (card_is_single ca) eqn:Sa, (card_is_single cb_) eqn:Sb; cbn; try apply mult_ok_dup; apply Fr; intros U.
    + left. eapply within_single_le1; [exact Sa|eapply Wca; eauto].
    + left. eapply within_single_le1; [exact Sa|eapply Wca; eauto].
    + right. eapply within_single_le1; [exact Sb|eapply Wcb; eauto].
  - (* atoms *)
    destruct f; try (apply Forall_nil).
    + (* PEq *) apply Forall_cons; [|apply Forall_nil]. split; cbn [a_l a_r a_cl a_cr].
      * intros di T la' lb' Ea' Eb'. rewrite Ea in Ea'. rewrite Eb in Eb'. inversion Ea'; inversion Eb'; subst.
        cbn in T. split_tags. split; eauto.
      * intros X. cbn [call2_spec] in Sp. subst l. apply existsb_exists in X. destruct X as (v & Hv & Tv).
        apply in_flat_map in Hv. destruct Hv as (x & Hx & Hv). apply in_map_iff in Hv.
        destruct Hv as (y & <- & Hy). cbn in Tv.
        destruct (value_eqb x y) eqn:Exy; try discriminate. apply value_eqb_eq in Exy. subst.
        exists la, lb, y. repeat split; auto.
    + (* PAnd *) cbn [call2_spec] in Sp. subst l.
      assert (X : existsb is_true (flat_map (fun x => map (fun y => sem2_fun PAnd x y) lb) la) = true ->
                  existsb is_true la = true /\ existsb is_true lb = true).
      { intros X. apply existsb_exists in X. destruct X as (v & Hv & Tv).
        apply in_flat_map in Hv. destruct Hv as (x & Hx & Hv). apply in_map_iff in Hv.
        destruct Hv as (y & <- & Hy). cbn in Tv.
        destruct (is_true x) eqn:Tx, (is_true y) eqn:Ty; cbn in Tv; try discriminate.
        split; apply existsb_exists; eauto. }
      apply Forall_app. split.
      * eapply Forall_impl; [|exact Waa]. intros at_ Hat. eapply atom_sem_lift; eauto.
        -- intros di T. cbn in T. split_tags; auto.
        -- intros Y. apply X in Y. tauto.
      * eapply Forall_impl; [|exact Wab]. intros at_ Hat. eapply atom_sem_lift; eauto.
        -- intros di T. cbn in T. split_tags; auto.
        -- intros Y. apply X in Y. tauto.
  - intros v Hv. cbn. destruct f; cbn; auto. cbn [call2_spec] in Sp. destruct Sp as [_ Sp].
    destruct (Sp _ Hv) as (x & y & Hxy & Hor). specialize (Wta _ Hxy).
    destruct (ty_of sch g a); cbn; auto. cbn in Wta. destruct Wta as (x' & y' & Eq & Tx & Ty).
    inversion Eq; subst. destruct Hor; subst; auto.
Qed.

(* ---- UNION *)
Lemma uniq_not_empty : forall m, is_uniq m = true -> is_empty_m m = false.
Proof. intros m; unfold is_uniq, is_empty_m; destruct (mi_own m); cbn; auto; discriminate. Qed.
Lemma uniq_not_dup : forall m, is_uniq m = true -> is_dup m = false.
Proof. intros m; unfold is_uniq, is_dup; destruct (mi_own m); cbn; auto; discriminate. Qed.

Lemma union_mult_cases : forall dj am bm,
  union_mult dj am bm =
    if is_uniq am then
      (if is_uniq bm then (if dj || (mi_dis am && mi_dis bm) then bm else C_DUPLICATE)
       else if is_dup bm then C_DUPLICATE else am)
    else if is_dup am then C_DUPLICATE
    else (if is_uniq bm then bm else if is_dup bm then C_DUPLICATE else C_EMPTY).
Proof.
  intros dj am bm. unfold union_mult. cbn.
  destruct (is_uniq am) eqn:Ua.
  - cbn. destruct (is_uniq bm) eqn:Ub.
    + rewrite (uniq_not_empty _ Ua). cbn. destruct (dj || (mi_dis am && mi_dis bm)); reflexivity.
    + destruct (is_dup bm); reflexivity.
  - destruct (is_dup am) eqn:Da; cbn; auto.
    destruct (is_uniq bm) eqn:Ub; cbn; auto. destruct (is_dup bm); reflexivity.
Qed.

Lemma own_cases : forall u m l, mult_ok u m l -> is_uniq m = false -> is_dup m = false -> mi_own m = M_EMPTY.
Proof.
  intros u m l H U D. apply mult_ok_known in H. unfold is_uniq, is_dup in *.
  destruct (mi_own m); cbn in *; try discriminate; auto. congruence.
Qed.

Lemma no_common_value : forall ta tb x,
  types_disjoint ta tb = true -> base_overlap ta tb = false ->
  has_ty d ta x -> has_ty d tb x -> False.
Proof.
  intros ta tb x Dj Ov Ha Hb.
  destruct ta as [| | |ka| | |]; try (destruct tb; cbn in Dj; discriminate).
  destruct tb as [| | |kb| | |]; try (destruct ka as [|? [|? ?]]; cbn in Dj; discriminate).
  cbn in Ha, Hb. destruct Ha as (o & k & b & tl & A1 & A2 & A3 & A4).
  destruct Hb as (o' & k' & b' & tl' & B1 & B2 & B3 & B4). subst. inversion B1; subst.
  assert (b = b') by (eapply obj_type_unique; eauto). subst.
  cbn in Ov. assert (X : existsb (fun k => existsb (fun k' => match k, k' with
                                                       | t :: _, t' :: _ => N.eqb t t' | _, _ => false end) kb) ka = true).
  { apply existsb_exists. exists (b' :: tl); split; auto.
    apply existsb_exists. exists (b' :: tl'); split; auto. apply N.eqb_refl. }
  congruence.
Qed.

Lemma ok_EUnion : forall a b, node_ok a -> node_ok b -> node_ok (EUnion a b).
Proof.
  intros a b IHa IHb g tg r E c m ats Hi l He. cbn in Hi.
  rb Hi ipattern:([[ca ma] ata]) Hia. rb Hi ipattern:([[cb_ mb] atb]) Hib. rb Hi c' Hc.
  inversion Hi; subst; clear Hi. apply of_opt_ok in Hc.
  cbn in He. destruct (eval sch d r a) as [la|] eqn:Ea; try discriminate.
  destruct (eval sch d r b) as [lb|] eqn:Eb; try discriminate. inversion He; subst; clear He.
  destruct (IHa g tg r E _ _ _ Hia _ Ea) as (Wca & Wma & _ & Wta).
  destruct (IHb g tg r E _ _ _ Hib _ Eb) as (Wcb & Wmb & _ & Wtb).
  assert (Wl : forall di, tags sch g tg di (EUnion a b) = [] -> within (List.length (la ++ lb)) c).
  { intros di T. cbn in T. split_tags. rewrite app_length. eapply union2_sound; eauto. }
  repeat split; auto.
  - intros u di mi Hu T H. unfold hold in Hu. subst u. pose proof (T eq_refl) as T0. cbn in T0. split_tags.
    rb H am0 Ham. rb H bm0 Hbm. inversion H; subst; clear H.
    apply fixm_fixm_ok; [intros _; eapply Wl; eauto|].
    pose proof (Wma true di am0 (eq_refl : hold (true = true)) (fun _ => H0) Ham) as Am.
    pose proof (Wmb true di bm0 (eq_refl : hold (true = true)) (fun _ => H1) Hbm) as Bm.
    unfold mult_at in *. rewrite Hia, Ham, Hib, Hbm in *.
    set (am := fixm ca am0) in *. set (bm := fixm cb_ bm0) in *.
    rewrite union_mult_cases.
    destruct (is_uniq am) eqn:Ua.
    + destruct (is_uniq bm) eqn:Ub.
      * cbn [andb] in *.
        destruct (is_cont am || is_cont bm) eqn:Ct; try discriminate.
        apply orb_false_iff in Ct. destruct Ct as [Cta Ctb].
        destruct (types_disjoint (ty_of sch g a) (ty_of sch g b)) eqn:Dj; cbn [orb].
        -- destruct (base_overlap (ty_of sch g a) (ty_of sch g b)) eqn:Ov; try discriminate.
           destruct bm as [o ds cn|]; cbn in Ctb; try discriminate.
           cbn in Bm |- *. destruct Bm as (K & Em & Un & _). repeat split; auto.
           ++ intros Eo. unfold is_uniq in Ub. cbn in Ub. rewrite Eo in Ub. discriminate.
           ++ intros _ Eo. apply NoDup_app_intro.
              ** eapply mult_ok_own_unique; eauto. unfold is_uniq in Ua. destruct (mi_own am); cbn in Ua; try discriminate; auto.
              ** auto.
              ** intros x Hx Hy. eapply no_common_value; eauto.
        -- destruct (mi_dis am && mi_dis bm) eqn:Dd; [|apply mult_ok_dup].
           apply andb_true_iff in Dd. destruct Dd as [Da Db]. rewrite Da, Db in *. cbn in *. discriminate.
      * destruct (is_dup bm) eqn:Db; [apply mult_ok_dup|].
        assert (lb = []) by (eapply mult_ok_own_empty; eauto; eapply own_cases; eauto).
        subst. rewrite app_nil_r. exact Am.
    + destruct (is_dup am) eqn:Da; [apply mult_ok_dup|].
      assert (la = []) by (eapply mult_ok_own_empty; eauto; eapply own_cases; eauto). subst. cbn [app].
      destruct (is_uniq bm) eqn:Ub; [exact Bm|].
      destruct (is_dup bm) eqn:Db; [apply mult_ok_dup|].
      assert (lb = []) by (eapply mult_ok_own_empty; eauto; eapply own_cases; eauto). subst.
      apply mult_ok_empty.
  - intros v Hv. cbn. apply in_app_or in Hv. destruct Hv; [apply has_ty_join_l|apply has_ty_join_r]; auto.
Qed.

Ltac mult_start Hu T :=
  unfold hold in Hu; subst; pose proof (T eq_refl) as T0; cbn in T0; split_tags.

Lemma ok_EDistinct : forall e, node_ok e -> node_ok (EDistinct e).
Proof.
  intros e IH g tg r E c m ats Hi l He. cbn in Hi.
  rb Hi ipattern:([[ce me] ata]) Hie. rb Hi c' Hc. inversion Hi; subst; clear Hi.
  unfold cart in Hc. apply of_opt_ok in Hc.
  cbn in He. destruct (eval sch d r e) as [src|] eqn:Es; try discriminate. inversion He; subst; clear He.
  destruct (IH g tg r E _ _ _ Hie _ Es) as (Wc & Wm & _ & Wt).
  assert (Wl : forall di, tags sch g tg di (EDistinct e) = [] -> within (List.length (dedup src)) c).
  { intros di T. cbn in T. apply within_dedup. eapply cart1_sound; eauto. }
  repeat split; auto.
  - intros u di mi Hu T H. unfold hold in Hu. subst u. pose proof (T eq_refl) as T0. cbn in T0.
    rb H m0 Hm0. inversion H; subst; clear H.
    apply fixm_fixm_ok; [intros _; eapply Wl; eauto|].
    pose proof (Wm true di m0 (eq_refl : hold (true = true)) (fun _ => T0) Hm0) as Ms.
    destruct (is_empty_m (fixm ce m0) && mi_canon (fixm ce m0)) eqn:Em.
    + apply andb_true_iff in Em. destruct Em as [Em _].
      assert (src = []).
      { eapply mult_ok_own_empty; eauto. unfold is_empty_m in Em. destruct (mi_own (fixm ce m0)); cbn in Em; try discriminate; auto. }
      subst. apply mult_ok_empty.
    + apply mult_ok_unique. intros _. apply dedup_NoDup.
  - intros v Hv. cbn. apply (proj1 (dedup_In _ _)) in Hv. auto.
Qed.

Lemma ok_ESel : forall e, node_ok e -> node_ok (ESel e).
Proof.
  intros e IH g tg r E c m ats Hi l He. cbn in Hi.
  rb Hi ipattern:([[ce me] ata]) Hie. inversion Hi; subst; clear Hi.
  cbn in He. destruct (IH g tg r E _ _ _ Hie _ He) as (Wc & Wm & _ & Wt).
  repeat split; auto.
  intros u di mi Hu T H. rb H m0 Hm0. inversion H; subst; clear H. rewrite fixm_idem.
  eapply Wm; eauto.
Qed.

Lemma ok_EIf : forall a c0 b, node_ok a -> node_ok c0 -> node_ok b -> node_ok (EIf a c0 b).
Proof.
  intros a c0 b IHa IHc IHb g tg r E c m ats Hi l He. cbn in Hi.
  rb Hi ipattern:([[ca ma] ata]) Hia. rb Hi ipattern:([[cc mc] atc]) Hic. rb Hi ipattern:([[cb_ mb] atb]) Hib.
  rb Hi c' Hc. inversion Hi; subst; clear Hi. unfold cart in Hc. apply of_opt_ok in Hc.
  cbn in He. destruct (eval sch d r a) as [la|] eqn:Ea; try discriminate.
  destruct (eval sch d r c0) as [lc|] eqn:Ec; try discriminate.
  destruct (eval sch d r b) as [lb|] eqn:Eb; try discriminate. inversion He; subst; clear He.
  destruct (IHa g tg r E _ _ _ Hia _ Ea) as (Wca & Wma & _ & Wta).
  destruct (IHc g tg r E _ _ _ Hic _ Ec) as (Wcc & Wmc & _ & Wtc).
  destruct (IHb g tg r E _ _ _ Hib _ Eb) as (Wcb & Wmb & _ & Wtb).
  set (l := flat_map (fun v => if is_true v then la else lb) lc).
  assert (Lu : List.length l <= List.length lc * Nat.max (List.length la) (List.length lb)).
  { unfold l. apply flat_map_length_le. intros v _. destruct (is_true v); lia. }
  assert (Ll : List.length lc * Nat.min (List.length la) (List.length lb) <= List.length l).
  { unfold l. apply flat_map_length_ge. intros v _. destruct (is_true v); lia. }
  assert (Wl : forall di, tags sch g tg di (EIf a c0 b) = [] -> within (List.length l) c).
  { intros di T. cbn in T. split_tags. eapply cart3_if_sound; eauto. }
  repeat split; auto.
  - intros u di mi Hu T H. unfold hold in Hu. subst u. pose proof (T eq_refl) as T0. cbn in T0. split_tags.
    rb H am0 Ham. rb H cm0 Hcm. rb H bm0 Hbm. inversion H; subst; clear H.
    apply fixm_fixm_ok; [intros _; eapply Wl; eauto|].
    pose proof (Wma true di am0 (eq_refl : hold (true = true)) (fun _ => H0) Ham) as Am.
    pose proof (Wmb true di bm0 (eq_refl : hold (true = true)) (fun _ => H2) Hbm) as Bm.
    destruct (card_is_single cc) eqn:Sc; [|apply mult_ok_dup].
    assert (Lc : List.length lc <= 1) by (eapply within_single_le1; eauto).
    assert (Hl : l = [] \/ l = la \/ l = lb).
    { unfold l. destruct lc as [|v [|w lc]]; cbn in Lc; try lia; cbn; auto.
      rewrite app_nil_r. destruct (is_true v); auto. }
    apply mult_ok_fresh.
    + apply max_mult_known; eapply mult_ok_known; eauto.
    + intros Em. apply max_mult_empty in Em. destruct Em as [Ea' Eb'].
      assert (la = []) by (eapply mult_ok_own_empty; eauto).
      assert (lb = []) by (eapply mult_ok_own_empty; eauto).
      destruct Hl as [->|[->| ->]]; auto.
    + intros _ Eu. apply max_mult_unique in Eu. destruct Eu as [Ua Ub].
      destruct Hl as [->|[->| ->]]; [constructor| |]; eapply nodup_of_own; eauto.
  - intros v Hv. cbn. unfold l in Hv. apply in_flat_map in Hv. destruct Hv as (w & Hw & Hv).
    destruct (is_true w); [apply has_ty_join_l|apply has_ty_join_r]; auto.
Qed.

Lemma ok_ECoal : forall a b, node_ok a -> node_ok b -> node_ok (ECoal a b).
Proof.
  intros a b IHa IHb g tg r E c m ats Hi l He. cbn in Hi.
  rb Hi ipattern:([[ca ma] ata]) Hia. rb Hi ipattern:([[cb_ mb] atb]) Hib. rb Hi c' Hc.
  inversion Hi; subst; clear Hi. apply of_opt_ok in Hc.
  cbn in He. destruct (eval sch d r a) as [la|] eqn:Ea; try discriminate.
  destruct (eval sch d r b) as [lb|] eqn:Eb; try discriminate. inversion He; subst; clear He.
  destruct (IHa g tg r E _ _ _ Hia _ Ea) as (Wca & Wma & _ & Wta).
  destruct (IHb g tg r E _ _ _ Hib _ Eb) as (Wcb & Wmb & _ & Wtb).
  set (l := match la with [] => lb | _ => la end).
  assert (Wl : forall di, tags sch g tg di (ECoal a b) = [] -> within (List.length l) c).
  { intros di T. cbn in T. split_tags.
    pose proof (max2_sound _ _ _ _ _ Hc (Wca _ H) (Wcb _ H0)) as W.
    unfold l. destruct la; cbn in *; auto. }
  assert (Hl : (la = [] /\ l = lb) \/ l = la) by (unfold l; destruct la; auto).
  repeat split; auto.
  - intros u di mi Hu T H. unfold hold in Hu. subst u. pose proof (T eq_refl) as T0. cbn in T0. split_tags.
    rb H am0 Ham. rb H bm0 Hbm. inversion H; subst; clear H.
    apply fixm_fixm_ok; [intros _; eapply Wl; eauto|].
    pose proof (Wma true di am0 (eq_refl : hold (true = true)) (fun _ => H0) Ham) as Am.
    pose proof (Wmb true di bm0 (eq_refl : hold (true = true)) (fun _ => H1) Hbm) as Bm.
    apply mult_ok_fresh.
    + apply max_mult_known; eapply mult_ok_known; eauto.
    + intros Em. apply max_mult_empty in Em. destruct Em as [Ea' Eb'].
      assert (la = []) by (eapply mult_ok_own_empty; eauto).
      assert (lb = []) by (eapply mult_ok_own_empty; eauto).
      destruct Hl as [[_ ->]| ->]; auto.
    + intros _ Eu. apply max_mult_unique in Eu. destruct Eu as [Ua Ub].
      destruct Hl as [[_ ->]| ->]; eapply nodup_of_own; eauto.
  - intros v Hv. cbn. destruct Hl as [[_ Hl]|Hl]; rewrite Hl in Hv;
      [apply has_ty_join_r|apply has_ty_join_l]; auto.
Qed.

(* ---- LIMIT / OFFSET *)
Lemma limit_card_sound : forall ce z c k,
  limit_card ce z = Ok c -> (0 <= z)%Z -> within k ce -> within (Nat.min (Z.to_nat z) k) c.
Proof.
  intros ce z c k H Hz W. unfold limit_card in H.
  destruct (Z.eqb z 1) eqn:E1.
  - apply Z.eqb_eq in E1. subst. unfold lower_of, mk_card in H.
    destruct ce; cbn in H; inversion H; subst; cbn in *; try contradiction; lia.
  - destruct (Z.eqb z 0) eqn:E0.
    + apply Z.eqb_eq in E0. subst. unfold upper_of, mk_card in H.
      destruct ce; cbn in H; inversion H; subst; cbn in *; try contradiction; lia.
    + inversion H; subst. apply Z.eqb_neq in E1, E0.
      assert (2 <= Z.to_nat z) by lia.
      destruct c; cbn in *; try contradiction; auto; lia.
Qed.

Lemma zero_upper_sound : forall ce c k k',
  rbind (upper_of ce) (fun u => mk_card CB_ZERO u) = Ok c -> within k ce -> k' <= k -> within k' c.
Proof.
  intros ce c k k' H W L. unfold upper_of, mk_card in H.
  destruct ce; cbn in H; inversion H; subst; cbn in *; try contradiction; auto; lia.
Qed.

Lemma ok_ELimit : forall e n, node_ok e -> node_ok (ELimit e n).
Proof.
  intros e n IH g tg r E c m ats Hi l He. cbn in Hi.
  rb Hi ipattern:([[ce me] ata]) Hie. rb Hi c' Hc. inversion Hi; subst; clear Hi.
  cbn in He. destruct (eval sch d r e) as [src|] eqn:Es; try discriminate. inversion He; subst; clear He.
  destruct (IH g tg r E _ _ _ Hie _ Es) as (Wc & Wm & _ & Wt).
  assert (Wl : forall di, tags sch g tg di (ELimit e n) = [] -> within (List.length (firstn (N.to_nat n) src)) c).
  { intros di T. cbn in T. rewrite firstn_length.
    assert (Hn : N.to_nat n = Z.to_nat (Z.of_N n)) by lia. rewrite Hn.
    eapply limit_card_sound; eauto. lia. }
  repeat split; auto.
  - intros u di mi Hu T H. unfold hold in Hu. subst u. pose proof (T eq_refl) as T0. cbn in T0.
    rb H m0 Hm0. inversion H; subst; clear H.
    apply fixm_fixm_ok; [intros _; eapply Wl; eauto|].
    eapply mult_ok_Sub; [|apply Sub_firstn]. eapply Wm; eauto. reflexivity.
  - intros v Hv. cbn. apply In_firstn in Hv. auto.
Qed.

Lemma ok_EOffset : forall e n, node_ok e -> node_ok (EOffset e n).
Proof.
  intros e n IH g tg r E c m ats Hi l He. cbn in Hi.
  rb Hi ipattern:([[ce me] ata]) Hie.
  assert (Hc : rbind (upper_of ce) (fun u => mk_card CB_ZERO u) = Ok c /\
               m = (fun di => rbind (me di) (fun m0 => Ok (fixm c (fixm ce m0)))) /\ ats = []).
  { rb Hi u Hu. rb Hi c' Hc'. inversion Hi; subst. rewrite Hu. cbn. rewrite Hc'. auto. }
  clear Hi. destruct Hc as (Hc & -> & ->).
  cbn in He. destruct (eval sch d r e) as [src|] eqn:Es; try discriminate. inversion He; subst; clear He.
  destruct (IH g tg r E _ _ _ Hie _ Es) as (Wc & Wm & _ & Wt).
  assert (Wl : forall di, tags sch g tg di (EOffset e n) = [] -> within (List.length (skipn (N.to_nat n) src)) c).
  { intros di T. cbn in T. eapply zero_upper_sound; eauto. apply Sub_length. apply Sub_skipn. }
  repeat split; auto.
  - intros u di mi Hu T H. unfold hold in Hu. subst u. pose proof (T eq_refl) as T0. cbn in T0.
    rb H m0 Hm0. inversion H; subst; clear H.
    apply fixm_fixm_ok; [intros _; eapply Wl; eauto|].
    eapply mult_ok_Sub; [|apply Sub_skipn]. eapply Wm; eauto. reflexivity.
  - intros v Hv. cbn. apply In_skipn in Hv. auto.
Qed.

Definition is_lit1 (l : expr) : option Z := match l with ELit [VInt z] => Some z | _ => None end.
Lemma is_lit1_some : forall l z, is_lit1 l = Some z -> l = ELit [VInt z].
Proof.
  intros l z H. destruct l; cbn in H; try discriminate.
  destruct vs as [|[] [|? ?]]; cbn in H; try discriminate. inversion H; auto.
Qed.
Lemma limitx_card_eq : forall ce l,
  match l with
  | ELit [VInt z] => limit_card ce z
  | _ => rbind (upper_of ce) (fun u => mk_card CB_ZERO u)
  end = match is_lit1 l with
        | Some z => limit_card ce z
        | None => rbind (upper_of ce) (fun u => mk_card CB_ZERO u)
        end.
Proof.
  intros ce l. destruct l; cbn; auto. destruct vs as [|[] [|? ?]]; cbn; auto.
Qed.

Lemma ok_ELimitX : forall e l0, node_ok e -> node_ok l0 -> node_ok (ELimitX e l0).
Proof.
  intros e l0 IH IHl g tg r E c m ats Hi l He. cbn in Hi.
  rb Hi ipattern:([[ce me] ata]) Hie. rb Hi ipattern:([[cl ml] atl]) Hil.
  destruct (card_is_multi cl) eqn:Ml; try discriminate.
  rewrite limitx_card_eq in Hi. rb Hi c' Hc. inversion Hi; subst; clear Hi.
  cbn in He. destruct (eval sch d r e) as [src|] eqn:Es; try discriminate.
  destruct (eval sch d r l0) as [ll|] eqn:El; try discriminate.
  destruct (IH g tg r E _ _ _ Hie _ Es) as (Wc & Wm & _ & Wt).
  assert (Hs : Sub l src).
  { destruct ll as [|[] [|? ?]]; inversion He; subst; try apply Sub_refl.
    destruct (Z.ltb z 0); inversion H0; subst. apply Sub_firstn. }
  assert (Wl : forall di, tags sch g tg di (ELimitX e l0) = [] -> within (List.length l) c).
  { intros di T. cbn in T. split_tags.
    destruct (is_lit1 l0) as [z|] eqn:Lz.
    - apply is_lit1_some in Lz. subst l0. cbn in El. inversion El; subst.
      destruct (Z.ltb z 0) eqn:Zn; inversion He; subst. apply Z.ltb_ge in Zn.
      rewrite firstn_length. eapply limit_card_sound; eauto.
    - eapply zero_upper_sound; eauto. now apply Sub_length. }
  repeat split; auto.
  - intros u di mi Hu T H. unfold hold in Hu. subst u. pose proof (T eq_refl) as T0. cbn in T0. split_tags.
    rb H m0 Hm0. rb H ml0 Hml. inversion H; subst; clear H.
    apply fixm_fixm_ok; [intros _; eapply Wl; eauto|].
    eapply mult_ok_Sub; [|exact Hs]. eapply Wm; eauto. reflexivity.
  - intros v Hv. cbn. eapply Sub_In in Hv; eauto.
Qed.

Lemma ok_EOffsetX : forall e l0, node_ok e -> node_ok l0 -> node_ok (EOffsetX e l0).
Proof.
  intros e l0 IH IHl g tg r E c m ats Hi l He. cbn in Hi.
  rb Hi ipattern:([[ce me] ata]) Hie. rb Hi ipattern:([[cl ml] atl]) Hil.
  destruct (card_is_multi cl) eqn:Ml; try discriminate.
  assert (Hc : rbind (upper_of ce) (fun u => mk_card CB_ZERO u) = Ok c /\
               m = (fun di => rbind (me di) (fun m0 => rbind (ml di) (fun _ => Ok (fixm c (fixm ce m0))))) /\ ats = []).
  { rb Hi u Hu. rb Hi c' Hc'. inversion Hi; subst. rewrite Hu. cbn. rewrite Hc'. auto. }
  clear Hi. destruct Hc as (Hc & -> & ->).
  cbn in He. destruct (eval sch d r e) as [src|] eqn:Es; try discriminate.
  destruct (eval sch d r l0) as [ll|] eqn:El; try discriminate.
  destruct (IH g tg r E _ _ _ Hie _ Es) as (Wc & Wm & _ & Wt).
  assert (Hs : Sub l src).
  { destruct ll as [|[] [|? ?]]; inversion He; subst; try apply Sub_refl.
    destruct (Z.ltb z 0); inversion H0; subst. apply Sub_skipn. }
  assert (Wl : forall di, tags sch g tg di (EOffsetX e l0) = [] -> within (List.length l) c).
  { intros di T. cbn in T. split_tags. eapply zero_upper_sound; eauto. now apply Sub_length. }
  repeat split; auto.
  - intros u di mi Hu T H. unfold hold in Hu. subst u. pose proof (T eq_refl) as T0. cbn in T0. split_tags.
    rb H m0 Hm0. rb H ml0 Hml. inversion H; subst; clear H.
    apply fixm_fixm_ok; [intros _; eapply Wl; eauto|].
    eapply mult_ok_Sub; [|exact Hs]. eapply Wm; eauto. reflexivity.
  - intros v Hv. cbn. eapply Sub_In in Hv; eauto.
Qed.

Lemma ok_EShape : forall x e els, node_ok e -> node_ok (EShape x e els).
Proof.
  intros x e els IH g tg r E c m ats Hi l He. cbn in Hi.
  rb Hi ipattern:([[ce me] ata]) Hie. rb Hi ers Hers. inversion Hi; subst; clear Hi.
  cbn in He. destruct (IH g tg r E _ _ _ Hie _ He) as (Wc & Wm & _ & Wt).
  repeat split; auto.
  - intros di T. cbn in T. split_tags. eauto.
  - intros u di mi Hu T H. rb H m0 Hm0. rb H uu Hck. inversion H; subst; clear H. rewrite fixm_idem.
    eapply Wm; eauto. intros U. specialize (T U). cbn in T. split_tags. auto.
  - intros v Hv. cbn. apply has_ty_view. auto.
Qed.

(* ---- static types only read the types recorded in the environment *)
Definition env_ty_eq (g1 g2 : ienv) : Prop :=
  Forall2 (fun a b => fst a = fst b /\ v_ty (snd a) = v_ty (snd b)) g1 g2.

Lemma env_ty_eq_refl : forall g, env_ty_eq g g.
Proof. induction g; constructor; auto. Qed.

Lemma ty_of_irrel : forall e g1 g2, env_ty_eq g1 g2 -> ty_of sch g1 e = ty_of sch g2 e.
Proof.
  induction e; intros g1 g2 H; cbn; auto;
    try (rewrite (IHe g1 g2 H); reflexivity);
    try (rewrite (IHe1 g1 g2 H), (IHe2 g1 g2 H); reflexivity);
    try (rewrite (IHe1 g1 g2 H), (IHe3 g1 g2 H); reflexivity);
    try (rewrite (IHe1 g1 g2 H); reflexivity).
  - (* EVar *) induction H as [|[y1 v1] [y2 v2] g1 g2 [E1 E2] H IH]; cbn; auto.
    cbn in E1, E2. subst. destruct (N.eqb y2 x); auto.
  - (* EFor *) rewrite (IHe1 g1 g2 H). apply IHe2. constructor; auto.
Qed.

(* ---- FOR *)
Lemma fmapM_flat_map : forall (A : Type) (f : A -> option (list value)) ls l,
  fmapM f ls = Some l ->
  l = flat_map (fun a => match f a with Some p => p | None => [] end) ls /\
  (forall a, In a ls -> exists p, f a = Some p).
Proof.
  induction ls as [|a ls IH]; intros l H; cbn in H.
  - inversion H; subst. split; auto. intros a [].
  - destruct (f a) as [x|] eqn:E; try discriminate.
    destruct (fmapM f ls) as [r'|] eqn:E'; try discriminate. inversion H; subst.
    destruct (IH _ eq_refl) as [Q1 Q2]. split.
    + cbn. rewrite E. f_equal. exact Q1.
    + intros a' [<-|Ha]; eauto.
Qed.

Lemma ok_EFor : forall x s b, node_ok s -> node_ok b -> node_ok (EFor x s b).
Proof.
  intros x s b IHs IHb g tg r E c m ats Hi l He. cbn in Hi.
  rb Hi ipattern:([[cs ms] ats0]) His.
  set (g' := (x, bind_var (view_ty x (ty_of sch g s)) cs ms) :: g) in *.
  rb Hi ipattern:([[cb_ mb] atb]) Hib. rb Hi c' Hc. inversion Hi; subst; clear Hi.
  unfold cart in Hc. apply of_opt_ok in Hc.
  cbn in He. destruct (eval sch d r s) as [ls|] eqn:Es; try discriminate.
  destruct (IHs g tg r E _ _ _ His _ Es) as (Wcs & Wms & _ & Wts).
  set (tg' := (x, fun di0 => tags sch g tg di0 s) :: tg).
  assert (Eb : forall v, In v ls -> env_ok g' tg' ((x, v) :: r)).
  { intros v Hv. eapply env_bind with (ls := ls); eauto.
    - intros di mi Hd Hm. eapply Wms; eauto. reflexivity.
    - apply has_ty_view. auto. }
  assert (Wl : forall di, tags sch g tg di (EFor x s b) = [] -> within (List.length l) c).
  { destruct (fmapM_flat_map _ _ _ _ He) as [Hl Hsome].
    intros di T. cbn in T. rewrite His in T. cbn in T. fold g' in T. fold tg' in T. split_tags.
    rewrite Hl. eapply cart2_sum_sound'; eauto.
    intros v Hv. destruct (Hsome _ Hv) as (p & Hp). rewrite Hp.
    destruct (IHb g' tg' _ (Eb v Hv) _ _ _ Hib _ Hp) as (Wcb & _). eapply Wcb; eauto. }
  repeat split; auto.
  - intros u di mi Hu T H. unfold hold in Hu. subst u. pose proof (T eq_refl) as T0.
    cbn in T0. rewrite His in T0. cbn in T0. fold g' in T0. fold tg' in T0. split_tags.
    rb H it0 Hit. rb H r0 Hr0. inversion H; subst; clear H.
    apply fixm_fixm_ok; [intros _; eapply Wl; eauto|].
    unfold mult_at in *. rewrite Hit in *. rewrite Hib in *.
    set (di' := if is_the_DUPLICATE (fixm cs it0) then di
                else match di with Some _ => None | None => Some x end) in *.
    rewrite Hr0 in *.
    destruct (is_dup (fixm cs it0)) eqn:Di; [apply mult_ok_dup|].
    destruct (mi_dis (fixm cb_ r0)) eqn:Dr; [|apply mult_ok_dup].
    cbn in H2.
    destruct (negb (is_empty_m (fixm cb_ r0)) || is_cont (fixm cb_ r0)) eqn:Cn; try discriminate.
    apply orb_false_iff in Cn. destruct Cn as [Cn1 Cn2]. apply negb_false_iff in Cn1.
    assert (l = []).
    { eapply fmapM_nil_all; [exact He|]. intros v p Hv Hp.
      destruct (IHb g' tg' _ (Eb v Hv) _ _ _ Hib _ Hp) as (_ & Wmb & _).
      pose proof (Wmb true di' r0 (eq_refl : hold (true = true)) (fun _ => H1) Hr0) as Mb.
      eapply mult_ok_own_empty; eauto. unfold is_empty_m in Cn1.
      destruct (mi_own (fixm cb_ r0)); cbn in Cn1; try discriminate; auto. }
    subst l. destruct (fixm cb_ r0) as [o ds cn|]; cbn in Cn2; try discriminate.
    unfold is_empty_m in Cn1. cbn in Cn1. destruct o; cbn in Cn1; try discriminate.
    cbn. repeat split; auto; try discriminate; intros; constructor.
  - intros v Hv. cbn. destruct (fmapM_In _ _ _ _ _ _ He Hv) as (a & p & Ha & Hp & Hvp).
    destruct (IHb g' tg' _ (Eb a Ha) _ _ _ Hib _ Hp) as (_ & _ & _ & Wtb).
    specialize (Wtb _ Hvp).
    (* ty_of of the body only looks at the variable's type *)
    erewrite ty_of_irrel; [exact Wtb|].
    constructor; [split; reflexivity|apply env_ty_eq_refl].
Qed.

(* ---- FILTER *)
Lemma orient_spec : forall x so a o,
  In o (orient x so a) ->
  so = true /\
  exists oc, cartesian_cardinality [a_cl a; a_cr a] = Some oc /\ card_is_multi oc = false /\
    ((ptr_chain x (a_l a) = Some (o_chain o) /\ o_key o = a_r a /\ o_ckey o = a_cr a /\ o_ty o = a_tl a) \/
     (ptr_chain x (a_r a) = Some (o_chain o) /\ o_key o = a_l a /\ o_ckey o = a_cl a /\ o_ty o = a_tr a)).
Proof.
  intros x so a o H. unfold orient in H.
  destruct (cartesian_cardinality [a_cl a; a_cr a]) as [oc|] eqn:Ec; try contradiction.
  destruct (card_is_multi oc) eqn:Mo; cbn in H; try contradiction.
  destruct so; cbn in H; try contradiction.
  split; auto. exists oc. repeat split; auto.
  destruct (ptr_chain x (a_l a)) as [ch|] eqn:Pl.
  - destruct H as [<-|[]]. left. cbn. auto.
  - destruct (ptr_chain x (a_r a)) as [ch|] eqn:Pr; try contradiction.
    destruct H as [<-|[]]. right. cbn. auto.
Qed.

Lemma cart_single_both : forall c1 c2 oc,
  cartesian_cardinality [c1; c2] = Some oc -> card_is_multi oc = false ->
  card_is_single c1 = true /\ card_is_single c2 = true.
Proof. intros c1 c2 oc H M. destruct c1, c2; cbn in H; inversion H; subst; cbn in M; try discriminate; auto. Qed.

Lemma chain_from_single_nil : forall v k, In k (chain_from [v] []) -> k = v.
Proof. intros v k [H|[]]; auto. Qed.

Lemma any_dis_true : forall di l, any_dis di l = Ok true -> exists o, In o l /\ oatom_dis di o = Ok true.
Proof.
  induction l as [|o l IH]; cbn; intros H; try discriminate.
  destruct (oatom_dis di o) as [[|]|] eqn:E; cbn in H; try discriminate.
  - exists o; auto.
  - destruct (IH H) as (o' & A & B). exists o'; auto.
Qed.

Lemma filter_tags_nil : forall alias x ts di subj oats o,
  filter_tags sch alias x ts di subj oats = [] -> In o oats ->
  (oatom_excl sch alias ts o = true ->
     (o_chain o = [] \/ forallb (ptr_excl sch) (o_chain o) = true) /\ mentions x (o_key o) = false) /\
  (oatom_dis di o = Ok true -> is_dup subj = false).
Proof.
  intros alias x ts di subj oats o H Ho. unfold filter_tags in H.
  assert (Hn : forall (A B : Type) (f : A -> list B) (l : list A) a, flat_map f l = [] -> In a l -> f a = []).
  { induction l as [|b l IH]; cbn; intros a Hf Ha; [contradiction|].
    apply app_eq_nil in Hf; destruct Hf. destruct Ha as [<-|Ha]; auto. }
  specialize (Hn _ _ _ _ _ H Ho). cbv beta in Hn. apply app_eq_nil in Hn. destruct Hn as [H1 H2]. split.
  - intros Ex. rewrite Ex in H1. apply app_eq_nil in H1. destruct H1 as [H1 H1'].
    split.
    + destruct (o_chain o) as [|p ch]; auto. right.
      destruct (single_key ts && forallb (ptr_excl sch) (p :: ch)) eqn:Sk; try discriminate.
      apply andb_true_iff in Sk. tauto.
    + destruct (mentions x (o_key o)); auto; discriminate.
  - intros Dd. rewrite Dd in H2.
    destruct (is_var (o_key o) && negb (is_dup subj)) eqn:V; try discriminate.
    apply andb_true_iff in V. destruct V as [_ V]. now apply negb_true_iff in V.
Qed.

Lemma pass_witness : forall g tg r x v p lp a o so di,
  atom_sem g tg ((x, v) :: r) p lp a -> existsb is_true lp = true ->
  tags sch g tg di p = [] -> In o (orient x so a) ->
  exists w lk, eval sch d ((x, v) :: r) (o_key o) = Some lk /\ List.length lk <= 1 /\
               In w lk /\ In w (chain_from [v] (o_chain o)).
Proof.
  intros g tg r x v p lp a o so di [Ac Aw] X T Ho.
  destruct (Aw X) as (la & lb & w & Ela & Elb & Wa & Wb).
  destruct (Ac di T _ _ Ela Elb) as [Ca Cb].
  destruct (orient_spec _ _ _ _ Ho) as (_ & oc & Hoc & Moc & Hor).
  destruct (cart_single_both _ _ _ Hoc Moc) as [Sa Sb].
  destruct Hor as [(Pc & Kk & Kc & _)|(Pc & Kk & Kc & _)].
  - destruct (ptr_chain_eval _ _ _ r v Pc) as (l0 & E0 & ->). rewrite Ela in E0. inversion E0; subst.
    exists w, lb. rewrite Kk. repeat split; auto. eapply within_single_le1; [exact Sb|exact Cb].
  - destruct (ptr_chain_eval _ _ _ r v Pc) as (l0 & E0 & ->). rewrite Elb in E0. inversion E0; subst.
    exists w, la. rewrite Kk. repeat split; auto. eapply within_single_le1; [exact Sa|exact Ca].
Qed.

Lemma le1_same : forall (l : list value) a b, List.length l <= 1 -> In a l -> In b l -> a = b.
Proof.
  intros [|x [|y l]] a b L Ha Hb; cbn in *; try lia; try contradiction.
  destruct Ha as [<-|[]], Hb as [<-|[]]; auto.
Qed.

Lemma ok_EFilter : forall alias x s p, node_ok s -> node_ok p -> node_ok (EFilter alias x s p).
Proof.
  intros alias x s p IHs IHp g tg r E c m ats Hi l He. cbn in Hi.
  rb Hi ipattern:([[cs ms] ats0]) His.
  set (ts := if alias then view_ty x (ty_of sch g s) else ty_of sch g s) in *.
  set (g' := (x, bind_var ts cs ms) :: g) in *.
  rb Hi ipattern:([[cp mp] atp]) Hip. rb Hi rc Hrc.
  set (oats := flat_map (orient x (is_obj_ty ts)) atp) in *.
  rb Hi hit Hhit. inversion Hi; subst; clear Hi.
  set (c := if hit then AT_MOST_ONE else rc) in *.
  unfold cart in Hrc. apply of_opt_ok in Hrc.
  cbn in He. destruct (eval sch d r s) as [ls|] eqn:Es; try discriminate.
  destruct (IHs g tg r E _ _ _ His _ Es) as (Wcs & Wms & _ & Wts).
  set (tg' := (x, fun di0 => tags sch g tg di0 s) :: tg).
  assert (Eb : forall v, In v ls -> env_ok g' tg' ((x, v) :: r)).
  { intros v Hv. eapply env_bind with (ls := ls); eauto.
    - intros di mi Hd Hm. eapply Wms; eauto. reflexivity.
    - unfold ts. destruct alias; [apply has_ty_view|]; auto. }
  apply filterM_sub in He.
  set (F := fun a => match match eval sch d ((x, a) :: r) p with
                           | Some lp => Some (existsb is_true lp) | None => None end with
                     | Some true => true | _ => false end) in *.
  assert (Hs : Sub l ls) by (rewrite He; apply Sub_filter).
  assert (Pass : forall v, F v = true -> exists lp, eval sch d ((x, v) :: r) p = Some lp /\ existsb is_true lp = true).
  { intros v Fv. unfold F in Fv. destruct (eval sch d ((x, v) :: r) p) as [lp|]; try discriminate.
    exists lp; split; auto. destruct (existsb is_true lp); auto; discriminate. }
  assert (Wl : forall di, tags sch g tg di (EFilter alias x s p) = [] -> within (List.length l) c).
  { intros di T. cbn in T. rewrite His in T. cbn in T. fold ts in T. fold g' in T. fold tg' in T.
    rewrite Hip in T. cbn in T. fold oats in T. split_tags.
    assert (Wrc : within (List.length l) rc).
    { eapply cart_amo_le; eauto. now apply Sub_length. }
    destruct hit; [|exact Wrc].
    destruct (card_is_multi rc); [|inversion Hhit].
    rb Hhit m0 Hm0. inversion Hhit as [Hh]; clear Hhit. apply andb_true_iff in Hh. destruct Hh as [Uq Ex].
    apply existsb_exists in Ex. destruct Ex as (o & Ho & Exo).
    assert (Nls : NoDup ls).
    { eapply mult_ok_own_unique; [eapply Wms with (u := true); eauto; reflexivity|].
      unfold is_uniq in Uq. destruct (mi_own (fixm cs m0)); cbn in Uq; try discriminate; auto. }
    cbn. rewrite He. apply filter_unique_le1; auto.
    intros v1 v2 Hv1 Hv2 P1 P2.
    destruct (Pass _ P1) as (lp1 & Ep1 & X1). destruct (Pass _ P2) as (lp2 & Ep2 & X2).
    unfold oats in Ho. apply in_flat_map in Ho. destruct Ho as (a & Ha & Hoa).
    destruct (IHp g' tg' _ (Eb v1 Hv1) _ _ _ Hip _ Ep1) as (_ & _ & Wat1 & _).
    destruct (IHp g' tg' _ (Eb v2 Hv2) _ _ _ Hip _ Ep2) as (_ & _ & Wat2 & _).
    rewrite Forall_forall in Wat1, Wat2.
    destruct (pass_witness _ _ _ _ _ _ _ _ _ _ _ (Wat1 _ Ha) X1 H1 Hoa) as (w1 & lk1 & Ek1 & Lk1 & Wk1 & Wc1).
    destruct (pass_witness _ _ _ _ _ _ _ _ _ _ _ (Wat2 _ Ha) X2 H1 Hoa) as (w2 & lk2 & Ek2 & Lk2 & Wk2 & Wc2).
    assert (Ho' : In o oats) by (unfold oats; apply in_flat_map; eauto).
    destruct (filter_tags_nil _ _ _ _ _ _ _ H3 Ho') as [Fx _].
    destruct (Fx Exo) as [Fch Fm].
    pose proof (eval_irrel (o_key o) [] r x v1 v2 Fm) as Ir. cbn in Ir.
    rewrite Ek1, Ek2 in Ir. inversion Ir; subst lk2.
    assert (w1 = w2) by (eapply le1_same; eauto). subst w2.
    destruct Fch as [Fch|Fch].
    - rewrite Fch in *. apply chain_from_single_nil in Wc1, Wc2. congruence.
    - destruct (chain_excl _ _ _ _ Fch Wc1 Wc2) as (s0 & S1 & S2).
      destruct S1 as [<-|[]]. destruct S2 as [<-|[]]. reflexivity. }
  repeat split; auto.
  - intros u di mi Hu T H. unfold hold in Hu. subst u. pose proof (T eq_refl) as T0.
    cbn in T0. rewrite His in T0. cbn in T0. fold ts in T0. fold g' in T0. fold tg' in T0.
    rewrite Hip in T0. cbn in T0. fold oats in T0. split_tags.
    rb H m0 Hm0. rb H pm0 Hpm. rb H dd Hdd. inversion H; subst; clear H.
    apply fixm_fixm_ok; [intros _; eapply Wl; eauto|].
    pose proof (Wms true di m0 (eq_refl : hold (true = true)) (fun _ => H0) Hm0) as Ms.
    destruct dd.
    + apply any_dis_true in Hdd. destruct Hdd as (o & Ho & Hod).
      unfold mult_at in H4. rewrite Hm0 in H4.
      destruct (filter_tags_nil _ _ _ _ _ _ _ H4 Ho) as [_ Fd]. specialize (Fd Hod).
      cbn. repeat split; try discriminate. intros _ _.
      eapply Sub_NoDup; [exact Hs|].
      eapply nodup_of_own; eauto. pose proof (mult_ok_known _ _ _ Ms) as K.
      unfold is_dup in Fd. destruct (mi_own (fixm cs m0)); cbn in Fd; try discriminate; auto. congruence.
    + eapply mult_ok_Sub; eauto.
  - intros v Hv. cbn. fold ts. eapply Sub_In in Hv; eauto.
    unfold ts. destruct alias; [apply has_ty_view|]; auto.
Qed.
End Main.
