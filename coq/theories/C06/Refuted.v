(* C06 -- the full statement (no side condition) is FALSE of the faithful model: computed
   witnesses, each replayed on the real compiler + toy_eval_model (known_findings.json,
   C06-F1 .. F6, F9).  Schema of the witnesses:
     T1 { required p1: str {exclusive}; required p2: str; p3: str; p7: T1 }
     T2 { required p4: str {exclusive}; p5: str; multi p6: T1 }
     T3 { }                                                                        *)
From Coq Require Import List NArith ZArith Bool String.
From Verif.C06 Require Import Gen_Card Model ProofsSem.
Import ListNotations.

Definition w_sch : schema :=
  [(1%N, {| p_src := 1; p_kind := KStr; p_multi := false; p_req := true; p_excl := true; p_tgt := 0 |});
   (2%N, {| p_src := 1; p_kind := KStr; p_multi := false; p_req := true; p_excl := false; p_tgt := 0 |});
   (3%N, {| p_src := 1; p_kind := KStr; p_multi := false; p_req := false; p_excl := false; p_tgt := 0 |});
   (7%N, {| p_src := 1; p_kind := KLink; p_multi := false; p_req := false; p_excl := false; p_tgt := 1 |});
   (4%N, {| p_src := 2; p_kind := KStr; p_multi := false; p_req := true; p_excl := true; p_tgt := 0 |});
   (5%N, {| p_src := 2; p_kind := KStr; p_multi := false; p_req := false; p_excl := false; p_tgt := 0 |});
   (6%N, {| p_src := 2; p_kind := KLink; p_multi := true; p_req := false; p_excl := false; p_tgt := 1 |})].
Definition w_db : db :=
  {| d_objs := [(1, 1); (1, 2); (1, 3); (2, 4); (2, 5)]%N;
     d_vals := [((1, 1)%N, [VStr "s1"]); ((1, 2)%N, [VStr "s9"]); ((1, 3)%N, [VStr "s1"]); ((1, 7)%N, [VObj 3]);
                ((2, 1)%N, [VStr "s2"]); ((2, 2)%N, [VStr "s9"]); ((2, 3)%N, [VStr "s2"]); ((2, 7)%N, [VObj 3]);
                ((3, 1)%N, [VStr "s0"]); ((3, 2)%N, [VStr "s8"]);
                ((4, 4)%N, [VStr "s0"]); ((4, 5)%N, [VStr "s0"]); ((4, 6)%N, [VObj 1; VObj 2]);
                ((5, 4)%N, [VStr "s7"]); ((5, 5)%N, [VStr "s0"]); ((5, 6)%N, [VObj 1])] |}.

Lemma w_db_ok : db_ok w_sch w_db.
Proof. vm_compute. reflexivity. Qed.

Definition refutes_mult (e : expr) : Prop :=
  exists c els l, run_infer w_sch e = ROk c M_UNIQUE els /\ eval w_sch w_db [] e = Some l /\ nodupb l = false.
Definition refutes_card (e : expr) : Prop :=
  exists mu els l, run_infer w_sch e = ROk AT_MOST_ONE mu els /\ eval w_sch w_db [] e = Some l
                   /\ Nat.ltb 1 (List.length l) = true.

(* F1  for v in T2 union v.p6 *)
Theorem C06_F1_refuted : refutes_mult (EFor 1 (ERoot 2) (EPtr (EVar 1) 6)).
Proof. do 3 eexists. vm_compute. repeat split; reflexivity. Qed.
(* F2  for v in {1,2} union (v union v) *)
Theorem C06_F2_refuted : refutes_mult (EFor 1 (ELit [VInt 1; VInt 2]) (EUnion (EVar 1) (EVar 1))).
Proof. do 3 eexists. vm_compute. repeat split; reflexivity. Qed.
(* F3  for v in T2 union (select w := T1 filter w.p1 = v.p5) *)
Theorem C06_F3_refuted :
  refutes_mult (EFor 1 (ERoot 2) (EFilter true 2 (ERoot 1) (ECall2 PEq (EPtr (EVar 2) 1) (EPtr (EVar 1) 5)))).
Proof. do 3 eexists. vm_compute. repeat split; reflexivity. Qed.
(* F4  (T1 union T1).p1 *)
Theorem C06_F4_refuted : refutes_mult (EPtr (EUnion (ERoot 1) (ERoot 1)) 1).
Proof. do 3 eexists. vm_compute. repeat split; reflexivity. Qed.
(* F5  select T1 filter .p7 = (select T1 filter .p1 = 's0')   -- unaliased subject *)
Theorem C06_F5_refuted :
  refutes_card (EFilter false 1 (ERoot 1)
                  (ECall2 PEq (EPtr (EVar 1) 7)
                     (EFilter false 2 (ERoot 1) (ECall2 PEq (EPtr (EVar 2) 1) (ELit [VStr "s0"]))))).
Proof. do 3 eexists. vm_compute. repeat split; reflexivity. Qed.
(* F6  select w := T1 filter w.p1 = w.p3 *)
Theorem C06_F6_refuted :
  refutes_card (EFilter true 1 (ERoot 1) (ECall2 PEq (EPtr (EVar 1) 1) (EPtr (EVar 1) 3))).
Proof. do 3 eexists. vm_compute. repeat split; reflexivity. Qed.
(* F9  (T1 union T2) union T1 *)
Theorem C06_F9_refuted : refutes_mult (EUnion (EUnion (ERoot 1) (ERoot 2)) (ERoot 1)).
Proof. do 3 eexists. vm_compute. repeat split; reflexivity. Qed.

(* hence: without the side condition the two soundness statements do not hold *)
Theorem C06_mult_full_refuted :
  ~ (forall sch d e c mu els l, db_ok sch d -> run_infer sch e = ROk c mu els ->
       eval sch d [] e = Some l -> mu = M_UNIQUE -> nodupb l = true).
Proof.
  intros H. destruct C06_F1_refuted as (c & els & l & Hi & He & Hn).
  rewrite (H _ _ _ _ _ _ _ w_db_ok Hi He eq_refl) in Hn. discriminate.
Qed.
Theorem C06_card_full_refuted :
  ~ (forall sch d e mu els l, db_ok sch d -> run_infer sch e = ROk AT_MOST_ONE mu els ->
       eval sch d [] e = Some l -> List.length l <= 1).
Proof.
  intros H. destruct C06_F6_refuted as (mu & els & l & Hi & He & Hn).
  specialize (H _ _ _ _ _ _ w_db_ok Hi He). apply Nat.ltb_lt in Hn. apply (PeanoNat.Nat.lt_irrefl 1).
  eapply PeanoNat.Nat.lt_le_trans; eauto.
Qed.
