(* C06 -- the bounds algebra of Gen_Card.v (translated from cardinality.py) is sound for
   the sizes of products, sums, coalescing, LIMIT/OFFSET adjustments and calls. *)
From Coq Require Import List NArith Bool Lia Arith.
From Verif.C06 Require Import Gen_Card.
Import ListNotations.

(* n elements are allowed by cardinality c *)
Definition within (n : nat) (c : card) : Prop :=
  match c with
  | AT_MOST_ONE => n <= 1
  | ONE => n = 1
  | MANY => True
  | AT_LEAST_ONE => 1 <= n
  | UNKNOWN => False
  end.

Definition lo_ok (n : nat) (l : cb) : Prop := match l with CB_ZERO => True | _ => 1 <= n end.
Definition hi_ok (n : nat) (u : cb) : Prop :=
  match u with CB_ZERO => n = 0 | CB_ONE => n <= 1 | CB_MANY => True end.

Lemma within_bounds : forall n c,
  within n c <-> exists l u, card_to_bounds c = Some (l, u) /\ lo_ok n l /\ hi_ok n u.
Proof.
  intros n c; split.
  - destruct c; cbn; intros H; try contradiction;
      (eexists; eexists; split; [reflexivity|]; cbn; lia).
  - intros (l & u & Hb & Hl & Hu). destruct c; cbn in Hb; inversion Hb; subst; cbn in *; lia.
Qed.

Lemma bounds_to_card_within : forall n l u c,
  bounds_to_card l u = Some c -> lo_ok n l -> hi_ok n u -> u <> CB_ZERO -> within n c.
Proof.
  intros n l u c H Hl Hu Hz. destruct l, u; cbn in H; inversion H; subst; cbn in *; try lia; congruence.
Qed.

(* every known cardinality has bounds, and the two conversions are inverse on them *)
Lemma card_to_bounds_known : forall c, c <> UNKNOWN -> exists l u, card_to_bounds c = Some (l, u) /\ u <> CB_ZERO.
Proof. intros c H; destruct c; try congruence; cbn; eexists; eexists; split; try reflexivity; discriminate. Qed.

Lemma roundtrip : forall c l u, card_to_bounds c = Some (l, u) -> bounds_to_card l u = Some c.
Proof. intros c l u H; destruct c; cbn in H; inversion H; subst; reflexivity. Qed.

Lemma bounds_to_card_total : forall l u, exists c, bounds_to_card l u = Some c /\ c <> UNKNOWN.
Proof. intros l u; destruct l, u; cbn; eexists; split; try reflexivity; discriminate. Qed.

(* CardinalityBound(min(.., CB_MANY)) never raises *)
Lemma cb_add_total : forall a b, exists c, cb_add a b = Some c.
Proof. intros a b; destruct a, b; cbn; eexists; reflexivity. Qed.
Lemma cb_mul_total : forall a b, exists c, cb_mul a b = Some c.
Proof. intros a b; destruct a, b; cbn; eexists; reflexivity. Qed.

(* ---- the shape of results: nothing the inference computes is UNKNOWN *)
Lemma cartesian_known : forall cs c, cartesian_cardinality cs = Some c -> c <> UNKNOWN.
Proof.
  intros cs c H. unfold cartesian_cardinality, obind in H.
  destruct (card_unzip cs) as [[lo up]|]; try discriminate. cbv beta iota zeta in H; cbn [fst snd] in H.
  destruct (product lo); try discriminate. destruct (product up); try discriminate.
  destruct c0, c1; cbn in H; inversion H; subst; discriminate.
Qed.

(* ---- two- and three-fold Cartesian products *)
Lemma cart1_sound : forall c1 c n1,
  cartesian_cardinality [c1] = Some c -> within n1 c1 -> within n1 c.
Proof. intros c1 c n1 H H1; destruct c1; cbn in H; inversion H; subst; cbn in *; lia. Qed.

Lemma cart2_sound : forall c1 c2 c n1 n2,
  cartesian_cardinality [c1; c2] = Some c -> within n1 c1 -> within n2 c2 -> within (n1 * n2) c.
Proof.
  intros c1 c2 c n1 n2 H H1 H2.
  destruct c1, c2; cbn in H; inversion H; subst; cbn in *; try contradiction; try lia; try nia;
    destruct n1 as [|[|?]]; destruct n2 as [|[|?]]; cbn; lia.
Qed.

Lemma cart3_sound : forall c1 c2 c3 c n1 n2 n3,
  cartesian_cardinality [c1; c2; c3] = Some c ->
  within n1 c1 -> within n2 c2 -> within n3 c3 -> within (n1 * n2 * n3) c.
Proof.
  intros c1 c2 c3 c n1 n2 n3 H H1 H2 H3.
  destruct c1, c2, c3; cbn in H; inversion H; subst; cbn in *; try contradiction; try lia; try nia;
    destruct n1 as [|[|?]]; destruct n2 as [|[|?]]; destruct n3 as [|[|?]]; cbn; lia.
Qed.

(* a product bounded from above by the Cartesian size, with the lower bound kept only when
   every factor is non-empty: the IF/ELSE rule (cartesian of the three operands) *)
Lemma cart3_if_sound : forall c1 c2 c3 c n1 nc n3 n,
  cartesian_cardinality [c1; c2; c3] = Some c ->
  within n1 c1 -> within nc c2 -> within n3 c3 ->
  (n <= nc * Nat.max n1 n3) -> (nc * Nat.min n1 n3 <= n) -> within n c.
Proof.
  intros c1 c2 c3 c n1 nc n3 n H H1 H2 H3 Hu Hl.
  destruct c1, c2, c3; cbn in H; inversion H; subst; cbn in *; try contradiction; try lia; try nia;
    destruct n1 as [|[|?]]; destruct nc as [|[|?]]; destruct n3 as [|[|?]]; cbn in *; try lia; try nia.
Qed.

Lemma union2_sound : forall c1 c2 c n1 n2,
  union_cardinality [c1; c2] = Some c -> within n1 c1 -> within n2 c2 -> within (n1 + n2) c.
Proof.
  intros c1 c2 c n1 n2 H H1 H2.
  destruct c1, c2; cbn in H; inversion H; subst; cbn in *; try contradiction; lia.
Qed.

(* coalescing: the result is the first operand if non-empty, else the second *)
Lemma max2_sound : forall c1 c2 c n1 n2,
  max_cardinality [c1; c2] = Some c -> within n1 c1 -> within n2 c2 ->
  within (if Nat.eqb n1 0 then n2 else n1) c.
Proof.
  intros c1 c2 c n1 n2 H H1 H2.
  destruct c1, c2; cbn in H; inversion H; subst; cbn in *; try contradiction;
    destruct (Nat.eqb_spec n1 0); lia.
Qed.

Lemma min2_sound : forall c1 c2 c n1 n2 n,
  min_cardinality [c1; c2] = Some c -> within n1 c1 -> within n2 c2 ->
  n <= n1 -> n <= n2 -> (1 <= n1 -> 1 <= n2 -> 1 <= n) -> within n c.
Proof.
  intros c1 c2 c n1 n2 n H H1 H2 Ha Hb Hc.
  destruct c1, c2; cbn in H; inversion H; subst; cbn in *; try contradiction; lia.
Qed.

(* ---- general n-ary statements over the translated folds *)
Fixpoint prodn (l : list nat) : nat := match l with [] => 1 | a :: tl => a * prodn tl end.
Fixpoint sumn (l : list nat) : nat := match l with [] => 0 | a :: tl => a + sumn tl end.

Lemma fold_mul_lo : forall los acc a ns m,
  fold_left (fun res x => obind res (fun r => cb_mul r x)) los (Some acc) = Some a ->
  Forall2 lo_ok ns los -> lo_ok m acc -> lo_ok (m * prodn ns) a.
Proof.
  induction los as [|x los IH]; intros acc a ns m H HF Hm.
  - inversion HF; subst. cbn in *. inversion H; subst. now rewrite Nat.mul_1_r.
  - inversion HF as [|n0 ? ns0 ? Hx HF']; subst. cbn in H.
    destruct (cb_mul_total acc x) as [c Hc]. rewrite Hc in H.
    cbn [prodn]. replace (m * (n0 * prodn ns0)) with ((m * n0) * prodn ns0) by lia.
    eapply IH; eauto.
    destruct acc, x; cbn in Hc; inversion Hc; subst; cbn in *; try exact I; nia.
Qed.

Lemma fold_mul_hi : forall ups acc a ns m,
  fold_left (fun res x => obind res (fun r => cb_mul r x)) ups (Some acc) = Some a ->
  Forall2 hi_ok ns ups -> hi_ok m acc -> hi_ok (m * prodn ns) a.
Proof.
  induction ups as [|x ups IH]; intros acc a ns m H HF Hm.
  - inversion HF; subst. cbn in *. inversion H; subst. now rewrite Nat.mul_1_r.
  - inversion HF as [|n0 ? ns0 ? Hx HF']; subst. cbn in H.
    destruct (cb_mul_total acc x) as [c Hc]. rewrite Hc in H.
    cbn [prodn]. replace (m * (n0 * prodn ns0)) with ((m * n0) * prodn ns0) by lia.
    eapply IH; eauto.
    destruct acc, x; cbn in Hc; inversion Hc; subst; cbn in *; try exact I; nia.
Qed.

Lemma fold_add_lo : forall los acc a ns m,
  fold_left (fun ac x => obind ac (fun r => cb_add r x)) los (Some acc) = Some a ->
  Forall2 lo_ok ns los -> lo_ok m acc -> lo_ok (m + sumn ns) a.
Proof.
  induction los as [|x los IH]; intros acc a ns m H HF Hm.
  - inversion HF; subst. cbn in *. inversion H; subst. now rewrite Nat.add_0_r.
  - inversion HF as [|n0 ? ns0 ? Hx HF']; subst. cbn in H.
    destruct (cb_add_total acc x) as [c Hc]. rewrite Hc in H.
    cbn [sumn]. replace (m + (n0 + sumn ns0)) with ((m + n0) + sumn ns0) by lia.
    eapply IH; eauto.
    destruct acc, x; cbn in Hc; inversion Hc; subst; cbn in *; try exact I; lia.
Qed.

Lemma fold_add_hi : forall ups acc a ns m,
  fold_left (fun ac x => obind ac (fun r => cb_add r x)) ups (Some acc) = Some a ->
  Forall2 hi_ok ns ups -> hi_ok m acc -> hi_ok (m + sumn ns) a.
Proof.
  induction ups as [|x ups IH]; intros acc a ns m H HF Hm.
  - inversion HF; subst. cbn in *. inversion H; subst. now rewrite Nat.add_0_r.
  - inversion HF as [|n0 ? ns0 ? Hx HF']; subst. cbn in H.
    destruct (cb_add_total acc x) as [c Hc]. rewrite Hc in H.
    cbn [sumn]. replace (m + (n0 + sumn ns0)) with ((m + n0) + sumn ns0) by lia.
    eapply IH; eauto.
    destruct acc, x; cbn in Hc; inversion Hc; subst; cbn in *; try exact I; lia.
Qed.

Lemma unzip_within : forall cs ns lo up,
  card_unzip cs = Some (lo, up) -> Forall2 within ns cs ->
  Forall2 lo_ok ns lo /\ Forall2 hi_ok ns up /\ Forall (fun u => u <> CB_ZERO) up.
Proof.
  induction cs as [|c cs IH]; intros ns lo up H HF.
  - inversion HF; subst. cbn in H. inversion H; subst. repeat split; constructor.
  - inversion HF as [|n0 ? ns0 ? Hw HF']; subst.
    unfold card_unzip in H. cbn in H.
    destruct (card_to_bounds c) as [[l u]|] eqn:Hb; cbn in H; try discriminate.
    destruct (omap_list card_to_bounds cs) as [bs|] eqn:Hbs; cbn in H; try discriminate.
    inversion H; subst.
    assert (Hcs : card_unzip cs = Some (map fst bs, map snd bs)).
    { unfold card_unzip. rewrite Hbs. reflexivity. }
    destruct (IH _ _ _ Hcs HF') as (A & B & C).
    apply within_bounds in Hw. destruct Hw as (l' & u' & Hb' & Hl & Hu).
    rewrite Hb in Hb'. inversion Hb'; subst.
    repeat split; cbn; constructor; auto.
    destruct c; cbn in Hb; inversion Hb; subst; discriminate.
Qed.

Lemma fold_mul_nz : forall up acc pu,
  acc <> CB_ZERO -> Forall (fun u => u <> CB_ZERO) up ->
  fold_left (fun res x => obind res (fun r => cb_mul r x)) up (Some acc) = Some pu -> pu <> CB_ZERO.
Proof.
  induction up as [|x up IH]; intros acc pu Ha HF H; cbn in H.
  - inversion H; subst; auto.
  - inversion HF; subst. destruct (cb_mul_total acc x) as [c Hc]. rewrite Hc in H.
    eapply IH; [|eassumption|eassumption].
    destruct acc, x; cbn in Hc; inversion Hc; subst; congruence.
Qed.

Lemma fold_add_nz : forall up acc pu,
  acc <> CB_ZERO \/ up <> [] -> Forall (fun u => u <> CB_ZERO) up ->
  fold_left (fun res x => obind res (fun r => cb_add r x)) up (Some acc) = Some pu -> pu <> CB_ZERO.
Proof.
  induction up as [|x up IH]; intros acc pu Ha HF H; cbn in H.
  - inversion H; subst. destruct Ha; congruence.
  - inversion HF; subst. destruct (cb_add_total acc x) as [c Hc]. rewrite Hc in H.
    eapply IH; [|eassumption|eassumption]. left.
    destruct acc, x; cbn in Hc; inversion Hc; subst; congruence.
Qed.

(* |A1 x ... x Ak| lies within cartesian_cardinality *)
Theorem cartesian_sound : forall cs ns c,
  cartesian_cardinality cs = Some c -> Forall2 within ns cs -> within (prodn ns) c.
Proof.
  intros cs ns c H HF. unfold cartesian_cardinality, obind in H.
  destruct (card_unzip cs) as [[lo up]|] eqn:Hu; try discriminate. cbv beta iota zeta in H; cbn [fst snd] in H.
  destruct (product lo) as [pl|] eqn:Hpl; try discriminate.
  destruct (product up) as [pu|] eqn:Hpu; try discriminate.
  destruct (unzip_within _ _ _ _ Hu HF) as (A & B & C).
  unfold product in *.
  pose proof (fold_mul_lo _ _ _ _ 1 Hpl A) as L. pose proof (fold_mul_hi _ _ _ _ 1 Hpu B) as U.
  cbn in L, U. rewrite Nat.add_0_r in *.
  apply bounds_to_card_within with (l := pl) (u := pu);
    [exact H | apply L; lia | apply U; lia |].
  eapply fold_mul_nz; [|exact C|exact Hpu]. discriminate.
Qed.

(* |A1 + ... + Ak| (k >= 1) lies within _union_cardinality *)
Theorem union_sound : forall cs ns c,
  cs <> [] -> union_cardinality cs = Some c -> Forall2 within ns cs -> within (sumn ns) c.
Proof.
  intros cs ns c Hne H HF. unfold union_cardinality, obind in H.
  destruct (card_unzip cs) as [[lo up]|] eqn:Hu; try discriminate. cbv beta iota zeta in H; cbn [fst snd] in H.
  destruct (cb_list_sum CB_ZERO lo) as [pl|] eqn:Hpl; try discriminate.
  destruct (cb_list_sum CB_ZERO up) as [pu|] eqn:Hpu; try discriminate.
  destruct (unzip_within _ _ _ _ Hu HF) as (A & B & C).
  unfold cb_list_sum in *.
  pose proof (fold_add_lo _ _ _ _ 0 Hpl A) as L. pose proof (fold_add_hi _ _ _ _ 0 Hpu B) as U.
  cbn in L, U.
  apply bounds_to_card_within with (l := pl) (u := pu);
    [exact H | apply L; exact I | apply U; reflexivity |].
  eapply fold_add_nz; [|exact C|exact Hpu]. right.
  destruct cs; try congruence. inversion HF; subst. inversion B; subst. discriminate.
Qed.
