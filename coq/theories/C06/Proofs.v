(* C06 -- assembly: every node of the calculus is sound; statements about whole queries *)
From Coq Require Import List NArith ZArith Bool String Ascii Lia Arith.
From Verif.C06 Require Import Gen_Card Model ProofsAlg ProofsList ProofsSem ProofsMain.
Import ListNotations.

Theorem all_ok : forall sch d, db_ok sch d -> forall e, node_ok sch d e.
Proof.
  intros sch d H. induction e.
  - apply ok_ELit; auto.
  - apply ok_EEmpty; auto.
  - apply ok_ERoot; auto.
  - apply ok_EVar; auto.
  - apply ok_EPtr; auto.
  - apply ok_EBack; auto.
  - apply ok_ETup; auto.
  - apply ok_EArr; auto.
  - apply ok_EProj; auto.
  - apply ok_ECall1; auto.
  - apply ok_ECall2; auto.
  - apply ok_EUnion; auto.
  - apply ok_EDistinct; auto.
  - apply ok_EIf; auto.
  - apply ok_ECoal; auto.
  - apply ok_ESel; auto.
  - apply ok_EFilter; auto.
  - apply ok_ELimit; auto.
  - apply ok_EOffset; auto.
  - apply ok_ELimitX; auto.
  - apply ok_EOffsetX; auto.
  - apply ok_EFor; auto.
  - apply ok_EShape; auto.
Qed.

Lemma run_infer_inv : forall sch e c mu els,
  run_infer sch e = ROk c mu els ->
  exists m ats mi, infer sch [] e = Ok (c, m, ats) /\ m None = Ok mi /\ mu = mi_own (fixm c mi) /\
                   top_els sch e = Ok els.
Proof.
  intros sch e c mu els H. unfold run_infer in H.
  destruct (infer sch [] e) as [[[c0 m] ats]|] eqn:Hi; try discriminate.
  destruct (m None) as [mi|] eqn:Hm; try discriminate.
  destruct (top_els sch e) as [els0|] eqn:Ht; try discriminate.
  inversion H; subst. eauto 10.
Qed.

Lemma whole_query_sound : forall sch d e c mu els l,
  db_ok sch d -> run_infer sch e = ROk c mu els -> run_tags sch e = [] ->
  eval sch d [] e = Some l ->
  within (List.length l) c /\ (mu = M_UNIQUE -> NoDup l) /\ (mu = M_EMPTY -> l = []).
Proof.
  intros sch d e c mu els l Hdb Hr Ht He.
  destruct (run_infer_inv _ _ _ _ _ Hr) as (m & ats & mi & Hi & Hm & -> & _).
  destruct (all_ok sch d Hdb e [] [] [] (env_nil d) _ _ _ Hi _ He) as (Wc & Wm & _ & _).
  unfold run_tags in Ht. split; [eapply Wc; eauto|].
  pose proof (Wm true None mi (eq_refl : hold (true = true)) (fun _ => Ht) Hm) as M.
  split; intros Eo.
  - eapply mult_ok_own_unique; eauto.
  - eapply mult_ok_own_empty; eauto.
Qed.

(* a declared shape-element cardinality is never tighter than the inferred one *)
Lemma shape_el_card_sound : forall q ce pc n, shape_el_card q ce = Ok pc -> within n ce -> within n pc.
Proof.
  intros q ce pc n H W. unfold shape_el_card in H.
  destruct q; cbn in H; try (inversion H; subst; exact W);
    destruct ce; cbn in H; inversion H; subst; cbn in *; try contradiction; auto; try lia.
Qed.

Lemma shape_els_sound : forall sch d, db_ok sch d ->
  forall els g tg r x v ers,
  env_ok d g tg ((x, v) :: r) ->
  infer_els sch g els = Ok ers -> tags_els sch g tg None els = [] ->
  Forall2 (fun er ev => el_name er = fst ev /\
                        forall le, snd ev = Some le -> within (List.length le) (el_card er))
          ers (eval_els sch d r x v els).
Proof.
  intros sch d Hdb. induction els as [|nm q e tl IH]; intros g tg r x v ers E Hi Ht; cbn in Hi.
  - inversion Hi; subst. constructor.
  - apply rbind_ok in Hi. destruct Hi as ([[ce me] ats] & Hie & Hi).
    apply rbind_ok in Hi. destruct Hi as (pc & Hpc & Hi).
    apply rbind_ok in Hi. destruct Hi as (rs & Hrs & Hi). inversion Hi; subst; clear Hi.
    cbn in Ht. apply app_eq_nil in Ht. destruct Ht as [Te Ttl].
    cbn. constructor.
    + cbn. split; auto. intros le Hle.
      destruct (all_ok sch d Hdb e g tg _ E _ _ _ Hie _ Hle) as (Wc & _).
      eapply shape_el_card_sound; eauto.
    + eapply IH; eauto.
Qed.

Lemma Forall2_map_l : forall (A B C : Type) (f : A -> B) (P : B -> C -> Prop) l1 l2,
  Forall2 (fun a c => P (f a) c) l1 l2 -> Forall2 P (map f l1) l2.
Proof. induction 1; cbn; constructor; auto. Qed.

Lemma top_shape_sound : forall sch d x s els c mu elcards ls v,
  db_ok sch d -> run_infer sch (EShape x s els) = ROk c mu elcards ->
  run_tags sch (EShape x s els) = [] ->
  eval sch d [] s = Some ls -> In v ls ->
  Forall2 (fun nc ev => fst nc = fst ev /\
                        forall le, snd ev = Some le -> within (List.length le) (snd nc))
          elcards (eval_els sch d [] x v els).
Proof.
  intros sch d x s els c mu elcards ls v Hdb Hr Ht Es Hv.
  destruct (run_infer_inv _ _ _ _ _ Hr) as (m & ats & mi & Hi & Hm & _ & Htop).
  unfold top_els in Htop. cbn [strip_sel] in Htop.
  apply rbind_ok in Htop. destruct Htop as ([[cs ms] ats0] & His & Htop).
  apply rbind_ok in Htop. destruct Htop as (ers & Hers & Htop). inversion Htop; subst; clear Htop.
  unfold run_tags in Ht. cbn in Ht. rewrite His in Ht. cbn in Ht.
  apply app_eq_nil in Ht. destruct Ht as [Ts Tels].
  destruct (all_ok sch d Hdb s [] [] [] (env_nil d) _ _ _ His _ Es) as (_ & Wms & _ & Wts).
  apply Forall2_map_l. cbn.
  eapply shape_els_sound; eauto.
  eapply env_bind with (ls := ls); eauto.
  - apply env_nil.
  - intros di mi' Hd Hmi. eapply Wms; eauto. reflexivity.
  - apply has_ty_view. auto.
Qed.
