(* C06 -- values, duplicate-freedom and the list combinators used by Model.eval *)
From Coq Require Import List NArith ZArith Bool String Ascii Lia Arith.
From Verif.C06 Require Import Gen_Card Model.
Import ListNotations.

Lemma value_eqb_refl : forall x, value_eqb x x = true.
Proof.
  induction x; cbn; try rewrite IHx1, IHx2; auto.
  - apply Z.eqb_refl. - apply String.eqb_refl. - apply Bool.eqb_reflx. - apply N.eqb_refl.
Qed.

Lemma value_eqb_eq : forall x y, value_eqb x y = true <-> x = y.
Proof.
  split.
  - revert y; induction x; destruct y; cbn; intros H; try discriminate.
    + apply Z.eqb_eq in H; congruence.
    + apply String.eqb_eq in H; congruence.
    + apply Bool.eqb_prop in H; congruence.
    + apply N.eqb_eq in H; congruence.
    + apply andb_true_iff in H; destruct H as [A B]. f_equal; auto.
    + apply andb_true_iff in H; destruct H as [A B]. f_equal; auto.
  - intros ->; apply value_eqb_refl.
Qed.

Lemma value_eq_dec : forall x y : value, {x = y} + {x <> y}.
Proof.
  intros x y; destruct (value_eqb x y) eqn:E.
  - left; now apply value_eqb_eq.
  - right; intros ->. rewrite value_eqb_refl in E; discriminate.
Qed.

Lemma mem_In : forall x l, mem x l = true <-> In x l.
Proof.
  intros x l; unfold mem; rewrite existsb_exists; split.
  - intros (y & Hy & E). apply value_eqb_eq in E; subst; auto.
  - intros H; exists x; split; auto; apply value_eqb_refl.
Qed.

Lemma mem_false : forall x l, mem x l = false <-> ~ In x l.
Proof.
  intros x l; split; intros H.
  - intros C; apply mem_In in C; congruence.
  - destruct (mem x l) eqn:E; auto. apply mem_In in E; contradiction.
Qed.

Lemma nodupb_NoDup : forall l, nodupb l = true <-> NoDup l.
Proof.
  induction l as [|x l IH]; cbn; split; intros H; try constructor; auto.
  - apply andb_true_iff in H; destruct H as [A B].
    apply negb_true_iff, mem_false in A; auto.
  - apply andb_true_iff in H; destruct H as [A B]. now apply IH.
  - inversion H; subst. apply andb_true_iff; split.
    + apply negb_true_iff, mem_false; auto.
    + now apply IH.
Qed.

(* ---- dedup *)
Lemma dedup_acc_In : forall l seen x, In x (dedup_acc seen l) <-> In x l /\ ~ In x seen.
Proof.
  induction l as [|y l IH]; intros seen x; cbn.
  - tauto.
  - destruct (mem y seen) eqn:E.
    + rewrite IH. apply mem_In in E. split.
      * intros [A B]; auto.
      * intros [[A|A] B]; subst; [contradiction|auto].
    + apply mem_false in E. cbn. rewrite IH. cbn. split.
      * intros [A|[A B]].
        -- subst; auto.
        -- split; auto.
      * intros [[A|A] B].
        -- auto.
        -- destruct (value_eq_dec y x); [auto|]. right; split; auto. intros [C|C]; auto.
Qed.

Lemma dedup_acc_NoDup : forall l seen, NoDup (dedup_acc seen l).
Proof.
  induction l as [|y l IH]; intros seen; cbn.
  - constructor.
  - destruct (mem y seen) eqn:E; auto.
    constructor; auto. rewrite dedup_acc_In. intros [_ B]; apply B; left; auto.
Qed.

Lemma dedup_In : forall l x, In x (dedup l) <-> In x l.
Proof. intros; unfold dedup; rewrite dedup_acc_In; cbn; tauto. Qed.
Lemma dedup_NoDup : forall l, NoDup (dedup l).
Proof. intros; apply dedup_acc_NoDup. Qed.

Lemma dedup_acc_length : forall l seen, List.length (dedup_acc seen l) <= List.length l.
Proof.
  induction l as [|y l IH]; intros seen; cbn; auto.
  destruct (mem y seen); cbn.
  - specialize (IH seen); lia.
  - specialize (IH (y :: seen)); lia.
Qed.
Lemma dedup_length : forall l, List.length (dedup l) <= List.length l.
Proof. intros; apply dedup_acc_length. Qed.

Lemma dedup_nonempty : forall l, l <> [] -> dedup l <> [].
Proof.
  intros [|x l] H; try congruence. unfold dedup; cbn. discriminate.
Qed.
Lemma dedup_nil : dedup [] = [].
Proof. reflexivity. Qed.

Lemma dedup_length_pos : forall l, 1 <= List.length l -> 1 <= List.length (dedup l).
Proof.
  intros [|x l] H; [cbn in H; lia|]. unfold dedup; cbn; lia.
Qed.

(* ---- NoDup helpers *)
Lemma NoDup_le1 : forall (l : list value), List.length l <= 1 -> NoDup l.
Proof.
  intros [|x [|y l]] H; cbn in *; try lia; repeat constructor; auto.
Qed.

Lemma NoDup_firstn : forall (l : list value) n, NoDup l -> NoDup (firstn n l).
Proof.
  induction l as [|x l IH]; intros [|n] H; cbn; try constructor.
  - inversion H; subst. intros C. apply H2. eapply (In_nth_error) in C. destruct C as [k C].
    clear - C. revert k C. induction l as [|y l IHl] in n |- *; intros k C.
    + destruct n; destruct k; cbn in C; discriminate.
    + destruct n; [destruct k; discriminate|]. destruct k; cbn in C.
      * inversion C; left; auto.
      * right. eapply IHl; eauto.
  - inversion H; subst; auto.
Qed.

Lemma In_firstn : forall (l : list value) n x, In x (firstn n l) -> In x l.
Proof.
  induction l as [|y l IH]; intros [|n] x H; cbn in *; auto; try contradiction.
  destruct H; auto. right; eauto.
Qed.
Lemma In_skipn : forall (l : list value) n x, In x (skipn n l) -> In x l.
Proof.
  induction l as [|y l IH]; intros [|n] x H; cbn in *; auto.
  right; eauto.
Qed.
Lemma NoDup_skipn : forall (l : list value) n, NoDup l -> NoDup (skipn n l).
Proof.
  induction l as [|y l IH]; intros [|n] H; cbn; auto. inversion H; subst; auto.
Qed.

Lemma NoDup_app_intro : forall (a b : list value),
  NoDup a -> NoDup b -> (forall x, In x a -> In x b -> False) -> NoDup (a ++ b).
Proof.
  induction a as [|x a IH]; intros b Ha Hb Hd; cbn; auto.
  inversion Ha; subst. constructor.
  - rewrite in_app_iff. intros [C|C]; auto. eapply Hd; eauto. left; auto.
  - apply IH; auto. intros y A B. eapply Hd; eauto. right; auto.
Qed.

Lemma NoDup_map_inj : forall (f : value -> value) l,
  (forall x y, In x l -> In y l -> f x = f y -> x = y) -> NoDup l -> NoDup (map f l).
Proof.
  induction l as [|x l IH]; intros Hinj H; cbn; constructor.
  - inversion H; subst. rewrite in_map_iff. intros (y & E & Hy).
    assert (y = x) by (apply Hinj; cbn; auto). subst; contradiction.
  - inversion H; subst. apply IH; auto. intros; apply Hinj; cbn; auto.
Qed.

Lemma NoDup_flat_map_same : forall (A : Type) (f : A -> list value) (l : list A) x a b,
  NoDup (flat_map f l) -> In a l -> In b l -> In x (f a) -> In x (f b) -> a = b.
Proof.
  induction l as [|y l IH]; intros x a b H Ha Hb Hxa Hxb; cbn in *; try contradiction.
  assert (Hs : forall (u v : list value), NoDup (u ++ v) ->
               NoDup u /\ NoDup v /\ (forall z, In z u -> In z v -> False)).
  { induction u as [|z u IHu]; intros v Hn; cbn in *.
    - repeat split; auto; constructor.
    - inversion Hn; subst. destruct (IHu _ H3) as (A1 & A2 & A3). repeat split; auto.
      + constructor; auto. intros C; apply H2; apply in_or_app; auto.
      + intros w [E|E] F; subst. * apply H2; apply in_or_app; auto. * eapply A3; eauto. }
  destruct (Hs _ _ H) as (N1 & N2 & N3).
  destruct Ha as [Ha|Ha], Hb as [Hb|Hb]; subst; auto.
  - exfalso. eapply N3; eauto. apply in_flat_map; eauto.
  - exfalso. eapply N3; eauto. apply in_flat_map; eauto.
  - eapply IH; eauto.
Qed.

(* ---- monadic maps *)
Lemma fmapM_Some_concat : forall (A B : Type) (f : A -> option (list B)) l r,
  fmapM f l = Some r ->
  exists pieces, Forall2 (fun a p => f a = Some p) l pieces /\ r = List.concat pieces.
Proof.
  induction l as [|a l IH]; intros r H; cbn in H.
  - inversion H; subst. exists []; split; constructor.
  - destruct (f a) as [x|] eqn:E; try discriminate.
    destruct (fmapM f l) as [r'|] eqn:E'; try discriminate. inversion H; subst.
    destruct (IH _ eq_refl) as (ps & F & ->). exists (x :: ps); split; auto.
Qed.

Lemma fmapM_length_le : forall (A B : Type) (f : A -> option (list B)) l r k,
  fmapM f l = Some r -> (forall a p, In a l -> f a = Some p -> List.length p <= k) ->
  List.length r <= List.length l * k.
Proof.
  induction l as [|a l IH]; intros r k H Hk; cbn in H.
  - inversion H; subst; cbn; lia.
  - destruct (f a) as [x|] eqn:E; try discriminate.
    destruct (fmapM f l) as [r'|] eqn:E'; try discriminate. inversion H; subst.
    rewrite app_length. cbn [List.length].
    assert (List.length x <= k) by (eapply Hk; cbn; eauto).
    assert (List.length r' <= List.length l * k) by (eapply IH; eauto; intros; eapply Hk; cbn; eauto).
    lia.
Qed.

Lemma fmapM_length_ge : forall (A B : Type) (f : A -> option (list B)) l r k,
  fmapM f l = Some r -> (forall a p, In a l -> f a = Some p -> k <= List.length p) ->
  List.length l * k <= List.length r.
Proof.
  induction l as [|a l IH]; intros r k H Hk; cbn in H.
  - inversion H; subst; cbn; lia.
  - destruct (f a) as [x|] eqn:E; try discriminate.
    destruct (fmapM f l) as [r'|] eqn:E'; try discriminate. inversion H; subst.
    rewrite app_length. cbn [List.length].
    assert (k <= List.length x) by (eapply Hk; cbn; eauto).
    assert (List.length l * k <= List.length r') by (eapply IH; eauto; intros; eapply Hk; cbn; eauto).
    lia.
Qed.

Lemma fmapM_In : forall (A B : Type) (f : A -> option (list B)) l r y,
  fmapM f l = Some r -> In y r -> exists a p, In a l /\ f a = Some p /\ In y p.
Proof.
  induction l as [|a l IH]; intros r y H Hy; cbn in H.
  - inversion H; subst; contradiction.
  - destruct (f a) as [x|] eqn:E; try discriminate.
    destruct (fmapM f l) as [r'|] eqn:E'; try discriminate. inversion H; subst.
    apply in_app_or in Hy. destruct Hy as [Hy|Hy].
    + exists a, x; cbn; auto.
    + destruct (IH _ _ eq_refl Hy) as (a' & p & A1 & A2 & A3). exists a', p; cbn; auto.
Qed.

Lemma fmapM_nil_all : forall (A B : Type) (f : A -> option (list B)) l r,
  fmapM f l = Some r -> (forall a p, In a l -> f a = Some p -> p = []) -> r = [].
Proof.
  induction l as [|a l IH]; intros r H Hk; cbn in H.
  - inversion H; auto.
  - destruct (f a) as [x|] eqn:E; try discriminate.
    destruct (fmapM f l) as [r'|] eqn:E'; try discriminate. inversion H; subst.
    rewrite (Hk a x); cbn; auto. eapply IH; eauto. intros; eapply Hk; cbn; eauto.
Qed.

Lemma filterM_sub : forall (A : Type) (f : A -> option bool) l r,
  filterM f l = Some r ->
  r = filter (fun a => match f a with Some true => true | _ => false end) l.
Proof.
  induction l as [|a l IH]; intros r H; cbn in H.
  - inversion H; auto.
  - destruct (f a) as [b|] eqn:E; try discriminate.
    destruct (filterM f l) as [r'|] eqn:E'; try discriminate. inversion H; subst.
    cbn. rewrite E. rewrite (IH _ eq_refl). destruct b; auto.
Qed.

Lemma filter_length_le : forall (A : Type) (f : A -> bool) l, List.length (filter f l) <= List.length l.
Proof. induction l; cbn; auto. destruct (f a); cbn; lia. Qed.

Lemma NoDup_filter : forall (f : value -> bool) l, NoDup l -> NoDup (filter f l).
Proof.
  induction l as [|x l IH]; intros H; cbn; auto. inversion H; subst.
  destruct (f x); auto. constructor; auto. rewrite filter_In. tauto.
Qed.

(* at most one element of a duplicate-free list satisfies a predicate that pins its argument *)
Lemma filter_unique_le1 : forall (f : value -> bool) l,
  NoDup l -> (forall x y, In x l -> In y l -> f x = true -> f y = true -> x = y) ->
  List.length (filter f l) <= 1.
Proof.
  intros f l Hn Hu.
  destruct (filter f l) as [|a [|b r]] eqn:E; cbn; try lia.
  exfalso.
  assert (Ha : In a (filter f l)) by (rewrite E; cbn; auto).
  assert (Hb : In b (filter f l)) by (rewrite E; cbn; auto).
  apply filter_In in Ha, Hb. destruct Ha as [A1 A2], Hb as [B1 B2].
  assert (a = b) by (apply Hu; auto). subst.
  pose proof (NoDup_filter f l Hn) as N. rewrite E in N. inversion N; subst. apply H1; cbn; auto.
Qed.

Lemma flat_map_length_const : forall (A B : Type) (f : A -> list B) l k,
  (forall a, In a l -> List.length (f a) = k) -> List.length (flat_map f l) = List.length l * k.
Proof.
  induction l as [|a l IH]; intros k H; cbn; auto.
  rewrite app_length, (H a), (IH k); cbn; auto. intros; apply H; cbn; auto.
Qed.

Lemma flat_map_length_le : forall (A B : Type) (f : A -> list B) l k,
  (forall a, In a l -> List.length (f a) <= k) -> List.length (flat_map f l) <= List.length l * k.
Proof.
  induction l as [|a l IH]; intros k H; cbn; auto.
  rewrite app_length. assert (List.length (f a) <= k) by (apply H; cbn; auto).
  assert (List.length (flat_map f l) <= List.length l * k) by (apply IH; intros; apply H; cbn; auto). lia.
Qed.

Lemma flat_map_length_ge : forall (A B : Type) (f : A -> list B) l k,
  (forall a, In a l -> k <= List.length (f a)) -> List.length l * k <= List.length (flat_map f l).
Proof.
  induction l as [|a l IH]; intros k H; cbn; auto.
  rewrite app_length. assert (k <= List.length (f a)) by (apply H; cbn; auto).
  assert (List.length l * k <= List.length (flat_map f l)) by (apply IH; intros; apply H; cbn; auto). lia.
Qed.
