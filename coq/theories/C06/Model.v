(* C06 -- executable model of EdgeQL cardinality / multiplicity inference on a core
   calculus, and of the set (bag) semantics the inference is judged against.

   What is modelled (file:function of /repo):
     edb/edgeql/compiler/inference/cardinality.py
        bounds algebra                       -> Gen_Card.v (TRANSLATED, see harness/translate/c06_card.py)
        _infer_set / _infer_set_inner        -> icard  (EVar, EPtr, EBack, EProj)
        __infer_func_call / __infer_oper_call / _standard_call_cardinality -> call_card1/2, icard
        extract_filters / extract_exclusive_filters / _analyse_filter_clause -> atoms, excl_hit
        _infer_stmt_cardinality / __infer_select_stmt -> EFilter, ELimit.., EFor
        _infer_shape / _infer_pointer_cardinality -> shape_el_card
     edb/edgeql/compiler/inference/multiplicity.py
        MultiplicityInfo / ContainerMultiplicityInfo -> minfo (with object identity of the
        module constants EMPTY/UNIQUE/DUPLICATE recorded in mi_canon, because the code
        compares with `==` / `!=` / `is` on an eq=False dataclass)
        infer_multiplicity (singleton override), _infer_set_inner, __infer_func_call,
        __infer_oper_call, __infer_tuple, _infer_stmt_multiplicity, _infer_for_multiplicity,
        _infer_shape -> imult
     edb/tools/toy_eval_model.py (reference semantics; transcription of the EdgeQL docs) -> eval

   Scoping: the calculus is binder-explicit (DESIGN C06): EFor / EFilter / EShape bind a
   variable that denotes ONE element; a reference to it has cardinality ONE
   (`_infer_set`: visible in an enclosing scope / ctx.singletons).  The correspondence
   stream renders terms so that EdgeQL's implicit path factoring coincides with the binders.

   Inputs the real compiler rejects and the model totalises: ill-typed terms (the model is
   untyped; `ty_of` only recovers what inference consults) -- junk cases return fixed values. *)
From Coq Require Import List NArith ZArith Bool String Ascii.
From Verif.C06 Require Import Gen_Card.
Import ListNotations.
Open Scope bool_scope.

(* ------------------------------------------------------------------ values *)
Inductive value :=
| VInt (z : Z) | VStr (s : string) | VBool (b : bool) | VObj (o : N)
| VPair (a b : value) | VArr (a b : value).

Fixpoint value_eqb (x y : value) : bool :=
  match x, y with
  | VInt a, VInt b => Z.eqb a b
  | VStr a, VStr b => String.eqb a b
  | VBool a, VBool b => Bool.eqb a b
  | VObj a, VObj b => N.eqb a b
  | VPair a1 a2, VPair b1 b2 => value_eqb a1 b1 && value_eqb a2 b2
  | VArr a1 a2, VArr b1 b2 => value_eqb a1 b1 && value_eqb a2 b2
  | _, _ => false
  end.

Definition mem (x : value) (l : list value) : bool := existsb (value_eqb x) l.

(* toy_eval_model.dedup: first occurrences, in order *)
Fixpoint dedup_acc (seen : list value) (l : list value) : list value :=
  match l with
  | [] => []
  | x :: tl => if mem x seen then dedup_acc seen tl else x :: dedup_acc (x :: seen) tl
  end.
Definition dedup (l : list value) : list value := dedup_acc [] l.

Definition is_true (v : value) : bool := match v with VBool true => true | _ => false end.

(* ------------------------------------------------------------------ schema and database *)
Inductive pkind := KInt | KStr | KLink.
Record pinfo := { p_src : N; p_kind : pkind; p_multi : bool; p_req : bool; p_excl : bool; p_tgt : N }.
Definition schema := list (N * pinfo).

Fixpoint find_ptr (s : schema) (p : N) : option pinfo :=
  match s with
  | [] => None
  | (q, i) :: tl => if N.eqb q p then Some i else find_ptr tl p
  end.

Definition is_link (s : schema) (p : N) : bool :=
  match find_ptr s p with Some i => match p_kind i with KLink => true | _ => false end | None => false end.

Record db := { d_objs : list (N * N);                    (* (type, object id), in storage order *)
               d_vals : list ((N * N) * list value) }.   (* (object, pointer) -> stored values *)

Definition objs_of (d : db) (t : N) : list N :=
  map snd (filter (fun x => N.eqb (fst x) t) (d_objs d)).

Fixpoint lookup_vals (l : list ((N * N) * list value)) (o p : N) : list value :=
  match l with
  | [] => []
  | ((o', p'), vs) :: tl => if N.eqb o o' && N.eqb p p' then vs else lookup_vals tl o p
  end.
Definition vals_of (d : db) (o p : N) : list value := lookup_vals (d_vals d) o p.

Definition ptr_step (d : db) (p : N) (v : value) : list value :=
  match v with VObj o => vals_of d o p | _ => [] end.

(* e.<p[is t]: objects of type t, in storage order, one of whose p-values is v *)
Definition back_step (d : db) (p t : N) (v : value) : list value :=
  map VObj (filter (fun o => mem v (vals_of d o p)) (objs_of d t)).

(* ------------------------------------------------------------------ expressions *)
Inductive ty :=
| TInt | TStr | TBool | TObj (ks : list (list N)) | TPair (a b : ty) | TArr (a : ty) | TUnknown.
(* object type descriptor: a sorted set of keys; a key is  base type :: path of view binders
   (`select v := S filter ..`, FOR variables and shapes derive a view type from the type of S);
   one key = that (view) type, several keys = the union type object of those components *)

Inductive prim1 :=
| PNot | PLen | PToStr | PExists | PCount | PSum | PMin | PMax | PAny | PAll
| PEnumerate | PUnpack | PASingle | PAExists | PADistinct.
Inductive prim2 :=
| PEq | PNeq | PLt | PAdd | PMul | PCat | PAnd | POr | POptEq | POptNeq | PIn | PAGet.

(* shape element qualifiers: (required?, cardinality?) as written *)
Inductive qual := QNone | QReq | QOpt | QSingle | QMulti | QReqSingle | QReqMulti.

Inductive expr :=
| ELit (vs : list value)
| EEmpty (t : ty)
| ERoot (t : N)
| EVar (x : N)
| EPtr (e : expr) (p : N)
| EBack (e : expr) (p t : N)
| ETup (a b : expr)
| EArr (a b : expr)
| EProj (e : expr) (i : bool)                (* false = .0, true = .1 *)
| ECall1 (f : prim1) (a : expr)
| ECall2 (f : prim2) (a b : expr)
| EUnion (a b : expr)
| EDistinct (e : expr)
| EIf (a c b : expr)
| ECoal (a b : expr)
| ESel (e : expr)
| EFilter (alias : bool) (x : N) (s p : expr) (* select [x :=] s filter p *)
| ELimit (e : expr) (n : N)
| EOffset (e : expr) (n : N)
| ELimitX (e l : expr)
| EOffsetX (e l : expr)
| EFor (x : N) (s b : expr)
| EShape (x : N) (s : expr) (els : shape_els)
with shape_els :=
| SNil
| SCons (name : N) (q : qual) (e : expr) (tl : shape_els).

(* ------------------------------------------------------------------ primitives *)
(* (parameter typemods, return typemod, preserves_optionality, preserves_upper_cardinality);
   the NAMED ONLY `message: OPTIONAL str = <str>{}` parameter of assert_* is not listed: its
   argument is the default empty set and contributes nothing to any rule below *)
Definition sig1 (f : prim1) : typemod * typemod * bool * bool :=
  match f with
  | PNot | PLen | PToStr => (SingletonType, SingletonType, false, false)
  | PExists | PCount | PSum | PAny | PAll => (SetOfType, SingletonType, false, false)
  | PMin | PMax => (SetOfType, OptionalType, true, false)
  | PEnumerate => (SetOfType, SetOfType, true, true)
  | PUnpack => (SingletonType, SetOfType, false, false)
  | PASingle => (SetOfType, OptionalType, true, false)
  | PAExists => (SetOfType, SetOfType, false, true)
  | PADistinct => (SetOfType, SetOfType, true, true)
  end.
Definition sig2 (f : prim2) : typemod * typemod * typemod :=
  match f with
  | POptEq | POptNeq => (OptionalType, OptionalType, SingletonType)
  | PIn => (SingletonType, SetOfType, SingletonType)
  | PAGet => (SingletonType, SingletonType, OptionalType)
  | _ => (SingletonType, SingletonType, SingletonType)
  end.
(* operators (OperatorCall) vs functions (FunctionCall) *)
Definition is_op1 (f : prim1) : bool := match f with PNot | PExists => true | _ => false end.
Definition is_op2 (f : prim2) : bool := match f with PAGet => false | _ => true end.
(* 'std::+' / 'std::++' : "operators known to be injective" *)
Definition injective_op (f : prim2) : bool := match f with PAdd | PCat => true | _ => false end.

Definition vlen (s : string) : Z := Z.of_nat (String.length s).

Fixpoint str_ltb (a b : string) : bool :=
  match a, b with
  | EmptyString, EmptyString => false
  | EmptyString, String _ _ => true
  | String _ _, EmptyString => false
  | String c a', String d b' =>
      let x := N_of_ascii c in let y := N_of_ascii d in
      if N.ltb x y then true else if N.ltb y x then false else str_ltb a' b'
  end.
Definition value_ltb (x y : value) : bool :=
  match x, y with
  | VInt a, VInt b => Z.ltb a b
  | VStr a, VStr b => str_ltb a b
  | _, _ => false
  end.
Definition vmin (l : list value) : list value :=
  match l with [] => [] | a :: tl => [fold_left (fun m x => if value_ltb x m then x else m) tl a] end.
Definition vmax (l : list value) : list value :=
  match l with [] => [] | a :: tl => [fold_left (fun m x => if value_ltb m x then x else m) tl a] end.

Fixpoint enum_from (i : Z) (l : list value) : list value :=
  match l with [] => [] | v :: tl => VPair (VInt i) v :: enum_from (i + 1) tl end.

Fixpoint nodupb (l : list value) : bool :=
  match l with [] => true | x :: tl => negb (mem x tl) && nodupb tl end.

Fixpoint digits_rev (fuel : nat) (n : N) : string :=
  match fuel with
  | O => EmptyString
  | S k => let d := ascii_of_N (48 + N.modulo n 10) in
           if N.ltb n 10 then String d EmptyString else String.append (digits_rev k (N.div n 10)) (String d EmptyString)
  end.
Definition str_of_Z (z : Z) : string :=
  match z with
  | Z0 => "0"%string
  | Zpos p => digits_rev (S (Pos.size_nat p)) (Npos p)
  | Zneg p => String "-"%char (digits_rev (S (Pos.size_nat p)) (Npos p))
  end.

(* semantic functions; argument lists have the shape fixed by the parameter typemod
   (one element / at most one / any); None = run-time assertion failure *)
Definition sem1 (f : prim1) (l : list value) : option (list value) :=
  match f with
  | PNot => Some [VBool (negb (existsb is_true l))]
  | PLen => Some [VInt (match l with VStr s :: _ => vlen s | _ => 0%Z end)]
  | PToStr => Some [match l with VInt z :: _ => VStr (str_of_Z z) | v :: _ => v | [] => VStr EmptyString end]
  | PExists => Some [VBool (negb (is_nil l))]
  | PCount => Some [VInt (Z.of_nat (List.length l))]
  | PSum => Some [VInt (fold_left (fun a v => match v with VInt z => (a + z)%Z | _ => a end) l 0%Z)]
  | PMin => Some (vmin l)
  | PMax => Some (vmax l)
  | PAny => Some [VBool (existsb is_true l)]
  | PAll => Some [VBool (forallb is_true l)]
  | PEnumerate => Some (enum_from 0%Z l)
  | PUnpack => Some (match l with VArr a b :: _ => [a; b] | _ => [] end)
  | PASingle => match l with [] | [_] => Some l | _ => None end
  | PAExists => match l with [] => None | _ => Some l end
  | PADistinct => if nodupb l then Some l else None
  end.

Definition vadd (x y : value) : value :=
  match x, y with VInt a, VInt b => VInt (a + b) | _, _ => VPair x y end.
Definition vcat (x y : value) : value :=
  match x, y with VStr a, VStr b => VStr (String.append a b) | _, _ => VPair x y end.
Definition vmul (x y : value) : value :=
  match x, y with VInt a, VInt b => VInt (a * b) | _, _ => VInt 0 end.

Definition sem2 (f : prim2) (la lb : list value) : option (list value) :=
  match f, la, lb with
  | PEq, [x], [y] => Some [VBool (value_eqb x y)]
  | PNeq, [x], [y] => Some [VBool (negb (value_eqb x y))]
  | PLt, [x], [y] => Some [VBool (value_ltb x y)]
  | PAdd, [x], [y] => Some [vadd x y]
  | PMul, [x], [y] => Some [vmul x y]
  | PCat, [x], [y] => Some [vcat x y]
  | PAnd, [x], [y] => Some [VBool (is_true x && is_true y)]
  | POr, [x], [y] => Some [VBool (is_true x || is_true y)]
  | POptEq, [], [] => Some [VBool true]
  | POptEq, [x], [y] => Some [VBool (value_eqb x y)]
  | POptEq, _, _ => Some [VBool false]
  | POptNeq, [], [] => Some [VBool false]
  | POptNeq, [x], [y] => Some [VBool (negb (value_eqb x y))]
  | POptNeq, _, _ => Some [VBool true]
  | PIn, [x], l => Some [VBool (mem x l)]
  | PAGet, [VArr a b], [VInt i] => Some (if Z.eqb i 0 then [a] else if Z.eqb i 1 then [b] else [])
  | PAGet, _, _ => Some []
  | _, _, _ => Some [VBool false]
  end.

(* how an argument list is presented to an element-wise call *)
Definition insts (m : typemod) (l : list value) : list (list value) :=
  match m with
  | SingletonType => map (fun v => [v]) l
  | OptionalType => match l with [] => [[]] | _ => map (fun v => [v]) l end
  | SetOfType => [l]
  end.

(* ------------------------------------------------------------------ evaluation *)
Definition env := list (N * value).
Fixpoint lookup (r : env) (x : N) : option value :=
  match r with [] => None | (y, v) :: tl => if N.eqb y x then Some v else lookup tl x end.

Fixpoint fmapM {A B} (f : A -> option (list B)) (l : list A) : option (list B) :=
  match l with
  | [] => Some []
  | a :: tl => match f a with
               | Some x => match fmapM f tl with Some r => Some (x ++ r) | None => None end
               | None => None
               end
  end.
Fixpoint filterM {A} (f : A -> option bool) (l : list A) : option (list A) :=
  match l with
  | [] => Some []
  | a :: tl => match f a with
               | Some b => match filterM f tl with
                           | Some r => Some (if b then a :: r else r) | None => None end
               | None => None
               end
  end.

Definition vproj (i : bool) (v : value) : value :=
  match v with VPair a b => if i then b else a | _ => v end.

Section Eval.
Variable sch : schema.
Variable d : db.

Fixpoint eval (r : env) (e : expr) : option (list value) :=
  match e with
  | ELit vs => Some vs
  | EEmpty _ => Some []
  | ERoot t => Some (map VObj (objs_of d t))
  | EVar x => Some (match lookup r x with Some v => [v] | None => [] end)
  | EPtr e p =>
      match eval r e with
      | Some src => let out := flat_map (ptr_step d p) src in
                    Some (if is_link sch p then dedup out else out)
      | None => None
      end
  | EBack e p t =>
      match eval r e with
      | Some src => Some (dedup (flat_map (back_step d p t) src))
      | None => None
      end
  | ETup a b =>
      match eval r a, eval r b with
      | Some la, Some lb => Some (flat_map (fun x => map (fun y => VPair x y) lb) la)
      | _, _ => None
      end
  | EArr a b =>
      match eval r a, eval r b with
      | Some la, Some lb => Some (flat_map (fun x => map (fun y => VArr x y) lb) la)
      | _, _ => None
      end
  | EProj e i => match eval r e with Some l => Some (map (vproj i) l) | None => None end
  | ECall1 f a =>
      match eval r a with
      | Some la => let '(pm, _, _, _) := sig1 f in fmapM (sem1 f) (insts pm la)
      | None => None
      end
  | ECall2 f a b =>
      match eval r a, eval r b with
      | Some la, Some lb =>
          let '(ma, mb, _) := sig2 f in
          fmapM (fun ia => fmapM (fun ib => sem2 f ia ib) (insts mb lb)) (insts ma la)
      | _, _ => None
      end
  | EUnion a b =>
      match eval r a, eval r b with Some la, Some lb => Some (la ++ lb) | _, _ => None end
  | EDistinct e => match eval r e with Some l => Some (dedup l) | None => None end
  | EIf a c b =>
      match eval r a, eval r c, eval r b with
      | Some la, Some lc, Some lb => Some (flat_map (fun v => if is_true v then la else lb) lc)
      | _, _, _ => None
      end
  | ECoal a b =>
      match eval r a, eval r b with
      | Some la, Some lb => Some (match la with [] => lb | _ => la end)
      | _, _ => None
      end
  | ESel e => eval r e
  | EFilter _ x s p =>
      match eval r s with
      | Some ls => filterM (fun v => match eval ((x, v) :: r) p with
                                     | Some lp => Some (existsb is_true lp) | None => None end) ls
      | None => None
      end
  | ELimit e n => match eval r e with Some l => Some (firstn (N.to_nat n) l) | None => None end
  | EOffset e n => match eval r e with Some l => Some (skipn (N.to_nat n) l) | None => None end
  | ELimitX e l =>
      match eval r e, eval r l with
      | Some le, Some [VInt z] => if Z.ltb z 0 then None else Some (firstn (Z.to_nat z) le)
      | Some le, Some _ => Some le
      | _, _ => None
      end
  | EOffsetX e l =>
      match eval r e, eval r l with
      | Some le, Some [VInt z] => if Z.ltb z 0 then None else Some (skipn (Z.to_nat z) le)
      | Some le, Some _ => Some le
      | _, _ => None
      end
  | EFor x s b =>
      match eval r s with
      | Some ls => fmapM (fun v => eval ((x, v) :: r) b) ls
      | None => None
      end
  | EShape _ s _ => eval r s
  end.

(* the computed elements of a result shape, per source object *)
Fixpoint eval_els (r : env) (x : N) (v : value) (els : shape_els) : list (N * option (list value)) :=
  match els with
  | SNil => []
  | SCons nm _ e tl => (nm, eval ((x, v) :: r) e) :: eval_els r x v tl
  end.
End Eval.

(* ------------------------------------------------------------------ conforming databases *)
Definition all_ptr_vals (d : db) (s : schema) (p : N) : list value :=
  match find_ptr s p with
  | Some i => flat_map (fun o => vals_of d o p) (objs_of d (p_src i))
  | None => []
  end.

Definition val_kind_ok (d : db) (i : pinfo) (v : value) : bool :=
  match p_kind i, v with
  | KInt, VInt _ => true
  | KStr, VStr _ => true
  | KLink, VObj o => existsb (N.eqb o) (objs_of d (p_tgt i))
  | _, _ => false
  end.

Definition ptr_okb (d : db) (s : schema) (pi : N * pinfo) : bool :=
  let '(p, i) := pi in
  forallb (fun o =>
    let vs := vals_of d o p in
    (p_multi i || Nat.leb (List.length vs) 1)
    && (negb (p_req i) || negb (is_nil vs))
    && forallb (val_kind_ok d i) vs
    && (match p_kind i with KLink => nodupb vs | _ => true end)) (objs_of d (p_src i))
  && (negb (p_excl i) || nodupb (all_ptr_vals d s p)).

Fixpoint nodupN (l : list N) : bool :=
  match l with [] => true | x :: tl => negb (existsb (N.eqb x) tl) && nodupN tl end.

(* stored values belong to a pointer of the schema and to an object of its source type *)
Definition vals_keys_okb (s : schema) (d : db) : bool :=
  forallb (fun kv => let '((o, p), _) := kv in
                     match find_ptr s p with
                     | Some i => existsb (N.eqb o) (objs_of d (p_src i))
                     | None => false
                     end) (d_vals d).

Definition db_okb (s : schema) (d : db) : bool :=
  nodupN (map snd (d_objs d)) && nodupN (map fst s) && forallb (ptr_okb d s) s && vals_keys_okb s d.

(* ------------------------------------------------------------------ inference: results *)
Inductive ierr := IInternal | ISingleton | IDistinct | IRequired | ISingle.
Inductive res (A : Type) := Ok (a : A) | Err (e : ierr).
Arguments Ok {A} a.
Arguments Err {A} e.
Definition rbind {A B} (r : res A) (f : A -> res B) : res B :=
  match r with Ok a => f a | Err e => Err e end.
Definition of_opt {A} (o : option A) : res A :=
  match o with Some a => Ok a | None => Err IInternal end.

(* MultiplicityInfo / ContainerMultiplicityInfo.  mi_canon: the object IS one of the module
   constants EMPTY / UNIQUE / DUPLICATE / DISTINCT_UNION (identity matters to `==`, `!=`, `is`). *)
Inductive minfo :=
| MPlain (own : mult) (dis : bool) (canon : bool)
| MCont (own : mult) (dis : bool) (e0 e1 : minfo).

Definition mi_own (m : minfo) : mult := match m with MPlain o _ _ | MCont o _ _ _ => o end.
Definition mi_dis (m : minfo) : bool := match m with MPlain _ b _ | MCont _ b _ _ => b end.
Definition mi_canon (m : minfo) : bool := match m with MPlain _ _ c => c | MCont _ _ _ _ => false end.
Definition mi_set_dis (m : minfo) : minfo :=       (* dataclasses.replace(m, disjoint_union=True) *)
  match m with MPlain o _ _ => MPlain o true false | MCont o _ a b => MCont o true a b end.

Definition C_EMPTY := MPlain M_EMPTY false true.
Definition C_UNIQUE := MPlain M_UNIQUE false true.
Definition C_DUPLICATE := MPlain M_DUPLICATE false true.
Definition C_DISTINCT_UNION := MPlain M_UNIQUE true true.
Definition fresh_mi (o : mult) := MPlain o false false.

Definition is_dup (m : minfo) : bool := mult_eqb (mi_own m) M_DUPLICATE.
Definition is_uniq (m : minfo) : bool := mult_eqb (mi_own m) M_UNIQUE.
Definition is_empty_m (m : minfo) : bool := mult_eqb (mi_own m) M_EMPTY.
Definition is_the_EMPTY (m : minfo) : bool := is_empty_m m && mi_canon m && negb (mi_dis m).
Definition is_the_DUPLICATE (m : minfo) : bool := is_dup m && mi_canon m.

(* infer_multiplicity's final override *)
Definition fixm (c : card) (m : minfo) : minfo :=
  if card_is_single c && is_dup m then C_UNIQUE else m.

(* ------------------------------------------------------------------ inference: static types *)
Fixpoint key_eqb (a b : list N) : bool :=
  match a, b with
  | [], [] => true
  | x :: a', y :: b' => N.eqb x y && key_eqb a' b'
  | _, _ => false
  end.
Fixpoint key_ltb (a b : list N) : bool :=
  match a, b with
  | [], [] => false
  | [], _ :: _ => true
  | _ :: _, [] => false
  | x :: a', y :: b' => if N.ltb x y then true else if N.ltb y x then false else key_ltb a' b'
  end.
Fixpoint key_prefix (a b : list N) : bool :=
  match a, b with
  | [], _ => true
  | x :: a', y :: b' => N.eqb x y && key_prefix a' b'
  | _ :: _, [] => false
  end.
Fixpoint insert_key (x : list N) (l : list (list N)) : list (list N) :=
  match l with
  | [] => [x]
  | y :: tl => if key_eqb x y then l else if key_ltb x y then x :: l else y :: insert_key x tl
  end.
Definition merge_keys (a b : list (list N)) : list (list N) := fold_left (fun acc x => insert_key x acc) b a.
Fixpoint keys_eqb (a b : list (list N)) : bool :=
  match a, b with
  | [], [] => true
  | x :: a', y :: b' => key_eqb x y && keys_eqb a' b'
  | _, _ => false
  end.
Fixpoint ty_eqb (a b : ty) : bool :=
  match a, b with
  | TInt, TInt | TStr, TStr | TBool, TBool | TUnknown, TUnknown => true
  | TObj x, TObj y => keys_eqb x y
  | TPair a1 a2, TPair b1 b2 => ty_eqb a1 b1 && ty_eqb a2 b2
  | TArr a1, TArr b1 => ty_eqb a1 b1
  | _, _ => false
  end.
Definition is_obj_ty (t : ty) : bool := match t with TObj _ => true | _ => false end.
(* common type of UNION / ?? / IF operands *)
Fixpoint join_ty (a b : ty) : ty :=
  match a, b with
  | TObj x, TObj y => if keys_eqb x y then a else TObj (merge_keys x y)
  | TPair a1 a2, TPair b1 b2 => TPair (join_ty a1 b1) (join_ty a2 b2)
  | TArr a1, TArr b1 => TArr (join_ty a1 b1)
  | TInt, TInt => TInt
  | TStr, TStr => TStr
  | TBool, TBool => TBool
  | _, _ => TUnknown
  end.
(* the view type derived by binder x from t *)
Definition view_ty (x : N) (t : ty) : ty :=
  match t with
  | TObj [k] => TObj [k ++ [x]]
  | _ => t
  end.
(* multiplicity.py UNION: `len(flattened) == len(frozenset(flattened))` over each operand type
   and its descendants: two plain/view types overlap iff one derives from the other; a union
   type object has no descendants and overlaps only with itself *)
Definition single_key (t : ty) : bool := match t with TObj [_] => true | _ => false end.
Definition types_disjoint (a b : ty) : bool :=
  match a, b with
  | TObj [x], TObj [y] => negb (key_prefix x y || key_prefix y x)
  | TObj x, TObj y => negb (keys_eqb x y)
  | _, _ => false     (* a non-object operand: the real code's downcast would fail (ill-typed) *)
  end.

Definition ptr_ty (s : schema) (p : N) : ty :=
  match find_ptr s p with
  | Some i => match p_kind i with KInt => TInt | KStr => TStr | KLink => TObj [[p_tgt i]] end
  | None => TUnknown
  end.

Definition lit_ty (vs : list value) : ty :=
  match vs with VInt _ :: _ => TInt | VStr _ :: _ => TStr | VBool _ :: _ => TBool | _ => TUnknown end.

(* ------------------------------------------------------------------ inference: environment *)
(* a bound variable: its static type, whether the filter that binds it is written with a
   result alias, and the multiplicity of its binding expression RE-INFERRED under the
   distinct_iterator in force at the reference (the IR shares the binding's expression) *)
Record vinfo := { v_ty : ty; v_mult : option N -> res minfo }.
Definition ienv := list (N * vinfo).
Fixpoint ilookup (g : ienv) (x : N) : option vinfo :=
  match g with [] => None | (y, v) :: tl => if N.eqb y x then Some v else ilookup tl x end.

Section Infer.
Variable sch : schema.

Fixpoint ty_of (g : ienv) (e : expr) : ty :=
  match e with
  | ELit vs => lit_ty vs
  | EEmpty t => t
  | ERoot t => TObj [[t]]
  | EVar x => match ilookup g x with Some v => v_ty v | None => TUnknown end
  | EPtr _ p => ptr_ty sch p
  | EBack _ _ t => TObj [[t]]
  | ETup a b => TPair (ty_of g a) (ty_of g b)
  | EArr a b => TArr (join_ty (ty_of g a) (ty_of g b))
  | EProj e i => match ty_of g e with TPair a b => if i then b else a | _ => TUnknown end
  | ECall1 f a =>
      match f with
      | PNot | PExists | PAny | PAll => TBool
      | PLen | PCount | PSum => TInt
      | PToStr => TStr
      | PMin | PMax | PASingle | PAExists | PADistinct => ty_of g a
      | PEnumerate => TPair TInt (ty_of g a)
      | PUnpack => match ty_of g a with TArr t => t | _ => TUnknown end
      end
  | ECall2 f a _ =>
      match f with
      | PAdd | PMul => TInt
      | PCat => TStr
      | PAGet => match ty_of g a with TArr t => t | _ => TUnknown end
      | _ => TBool
      end
  | EUnion a b | ECoal a b => join_ty (ty_of g a) (ty_of g b)
  | EIf a _ b => join_ty (ty_of g a) (ty_of g b)
  | EDistinct e | ESel e | ELimit e _ | EOffset e _ | ELimitX e _ | EOffsetX e _ => ty_of g e
  | EFilter alias x s _ => if alias then view_ty x (ty_of g s) else ty_of g s
  | EFor x s b => ty_of ((x, {| v_ty := view_ty x (ty_of g s); v_mult := fun _ => Ok C_UNIQUE |}) :: g) b
  | EShape x s _ => view_ty x (ty_of g s)
  end.

(* ---- pointers *)
Definition ptr_out_card (p : N) : res card :=
  match find_ptr sch p with
  | Some i => of_opt (card_from_schema_value (p_req i) (if p_multi i then SC_Many else SC_One))
  | None => Err IInternal
  end.
(* typeutils.cardinality_from_ptrcls: backward direction *)
Definition ptr_in_card (p : N) : res card :=
  match find_ptr sch p with
  | Some i => Ok (if p_excl i then AT_MOST_ONE else MANY)
  | None => Err IInternal
  end.
Definition ptr_excl (p : N) : bool :=
  match find_ptr sch p with Some i => p_excl i | None => false end.

(* irutils.get_path_root(...).path_id as far as it can be a bound variable *)
Fixpoint path_root (e : expr) : option N :=
  match e with
  | EVar x => Some x
  | EPtr e _ | EBack e _ _ | EProj e _ => path_root e
  | _ => None
  end.
Definition root_is (e : expr) (di : option N) : bool :=
  match path_root e, di with Some x, Some y => N.eqb x y | _, _ => false end.

(* _infer_set_inner: mark paths rooted at the distinct iterator *)
Definition mark_dis (e : expr) (di : option N) (m : minfo) : minfo :=
  if negb (is_dup m) && root_is e di then mi_set_dis m else m.

(* ---- calls *)
Definition cart (l : list card) : res card := of_opt (cartesian_cardinality l).
Definition lower_of (c : card) : res cb := rbind (of_opt (card_to_bounds c)) (fun b => Ok (fst b)).
Definition upper_of (c : card) : res cb := rbind (of_opt (card_to_bounds c)) (fun b => Ok (snd b)).
Definition mk_card (l u : cb) : res card := of_opt (bounds_to_card l u).

(* __infer_func_call, the preserves_* branch (one non-OPTIONAL argument) *)
Definition preserving_card (ret : typemod) (po pu is_assert_exists : bool) (c : card) : res card :=
  rbind (of_opt (card_to_bounds (typemod_to_card ret))) (fun rb =>
  rbind (of_opt (card_to_bounds c)) (fun ab =>
    let lower := if po then fst ab else if is_assert_exists then CB_ONE else fst rb in
    let upper := if pu then snd ab else snd rb in
    mk_card lower upper)).

Definition call_card1 (f : prim1) (c : card) : res card :=
  let '(pm, ret, po, pu) := sig1 f in
  match f with
  | PToStr => Ok c                                   (* TypeCast, not from json *)
  | _ => if po || pu
         then preserving_card ret po pu (match f with PAExists => true | _ => false end) c
         else of_opt (standard_call_cardinality [(pm, c)] ret)
  end.
Definition call_card2 (f : prim2) (ca cb_ : card) : res card :=
  let '(ma, mb, ret) := sig2 f in
  of_opt (standard_call_cardinality [(ma, ca); (mb, cb_)] ret).

(* ---- filters: extract_filters on `l = r` atoms joined by AND *)
(* the chain of pointers from the subject to `e`, None if e is not a plain forward path *)
Fixpoint ptr_chain (x : N) (e : expr) : option (list N) :=
  match e with
  | EVar y => if N.eqb x y then Some [] else None
  | EPtr e' p => match ptr_chain x e' with Some l => Some (l ++ [p]) | None => None end
  | _ => None
  end.

(* ---- what a term contributes when it is (part of) a FILTER predicate *)
Record atom := { a_l : expr; a_r : expr; a_cl : card; a_cr : card;
                 a_tl : ty; a_tr : ty;
                 a_ml : option N -> res minfo; a_mr : option N -> res minfo }.

Definition iresult := res (card * (option N -> res minfo) * list atom).

(* an oriented atom: (pointer chain from the subject, type of that side, the other side) *)
Record oatom := { o_chain : list N; o_ty : ty; o_key : expr; o_ckey : card;
                  o_mkey : option N -> res minfo }.

Definition orient (x : N) (subj_obj : bool) (a : atom) : list oatom :=
  match cartesian_cardinality [a_cl a; a_cr a] with
  | Some oc =>
      if card_is_multi oc || negb subj_obj then []
      else match ptr_chain x (a_l a) with
           | Some ch => [{| o_chain := ch; o_ty := a_tl a; o_key := a_r a; o_ckey := a_cr a; o_mkey := a_mr a |}]
           | None =>
               match ptr_chain x (a_r a) with
               | Some ch => [{| o_chain := ch; o_ty := a_tr a; o_key := a_l a; o_ckey := a_cl a; o_mkey := a_ml a |}]
               | None => []
               end
           end
  | None => []
  end.

(* extract_exclusive_filters: does some atom pin the subject by exclusive pointers?
   `alias`: the subject is a result alias (its type is a view type, equal to no path type) *)
Definition oatom_excl (alias : bool) (subj_ty : ty) (o : oatom) : bool :=
  match o_chain o with
  | [] => true                                              (* x = key : std::id *)
  | ch => if negb alias && ty_eqb (o_ty o) subj_ty then true (* left_stype == result_stype : std::id *)
          else single_key subj_ty && forallb ptr_excl ch     (* a union type's own pointers are not exclusive *)
  end.

(* _infer_stmt_multiplicity: a filter key rooted at the distinct iterator *)
Definition oatom_dis (di : option N) (o : oatom) : res bool :=
  if root_is (o_key o) di
  then rbind (o_mkey o di) (fun m => Ok (negb (is_dup (fixm (o_ckey o) m))))
  else Ok false.
Fixpoint any_dis (di : option N) (l : list oatom) : res bool :=
  match l with
  | [] => Ok false
  | o :: tl => rbind (oatom_dis di o) (fun b => if b then Ok true else any_dis di tl)
  end.

(* ---- shape elements: _infer_pointer_cardinality for a new computed pointer *)
Definition qual_spec (q : qual) : option bool * option scard :=
  match q with
  | QNone => (None, None) | QReq => (Some true, None) | QOpt => (Some false, None)
  | QSingle => (None, Some SC_One) | QMulti => (None, Some SC_Many)
  | QReqSingle => (Some true, Some SC_One) | QReqMulti => (Some true, Some SC_Many)
  end.

Definition shape_el_card (q : qual) (ce : card) : res card :=
  let '(sreq, scrd) := qual_spec q in
  match sreq, scrd with
  | None, None => Ok ce
  | _, _ =>
      rbind (of_opt (card_to_bounds ce)) (fun b =>
      let '(il, iu) := b in
      rbind (match scrd with
             | None => Ok iu
             | Some sc => let su := cb_from_schema_value sc in
                          if N.ltb (cb_value su) (cb_value iu) then Err ISingle else Ok su
             end) (fun upper =>
      rbind (match sreq with
             | None => Ok il
             | Some rq => let sl := cb_from_required rq in
                          if N.ltb (cb_value il) (cb_value sl) then Err IRequired else Ok sl
             end) (fun lower =>
      mk_card lower upper)))
  end.

Record elres := { el_name : N; el_card : card; el_ecard : card; el_obj : bool;
                  el_mult : option N -> res minfo }.

Fixpoint check_els (di : option N) (l : list elres) : res unit :=
  match l with
  | [] => Ok tt
  | el :: tl =>
      rbind (el_mult el di) (fun m =>
        if is_dup (fixm (el_ecard el) m) && el_obj el then Err IDistinct else check_els di tl)
  end.

Definition count_multi (l : list card) : nat := List.length (filter card_is_multi l).

Definition limit_card (ce : card) (z : Z) : res card :=
  if Z.eqb z 1 then rbind (lower_of ce) (fun l => mk_card l CB_ONE)
  else if Z.eqb z 0 then rbind (upper_of ce) (fun u => mk_card CB_ZERO u)
  else Ok ce.

Definition bind_var (t : ty) (c : card) (m : option N -> res minfo) : vinfo :=
  {| v_ty := t; v_mult := fun di => rbind (m di) (fun x => Ok (fixm c x)) |}.

Definition union_mult (disjoint : bool) (am bm : minfo) : minfo :=
  let step (st : minfo * bool) (m : minfo) : minfo * bool :=
    let '(result, stop) := st in
    if stop then st
    else if is_uniq m then
           if is_empty_m result || disjoint || (mi_dis result && mi_dis m) then (m, false)
           else (C_DUPLICATE, true)
         else if is_dup m then (C_DUPLICATE, true)
         else st in
  fst (step (step (C_EMPTY, false) am) bm).

Fixpoint infer (g : ienv) (e : expr) : iresult :=
  match e with
  | ELit vs =>
      Ok (match vs with [] => AT_MOST_ONE | [_] => ONE | _ => AT_LEAST_ONE end,
          (fun _ => Ok (match vs with
                        | [] => C_EMPTY
                        | [_] => C_UNIQUE
                        | _ => if nodupb vs then C_UNIQUE else C_DUPLICATE end)), [])
  | EEmpty _ => Ok (AT_MOST_ONE, (fun _ => Ok C_EMPTY), [])
  | ERoot _ => Ok (MANY, (fun _ => Ok C_UNIQUE), [])
  | EVar x =>
      match ilookup g x with
      | Some vi => Ok (ONE, (fun di => rbind (v_mult vi di) (fun m =>
                                Ok (fixm ONE (mark_dis (EVar x) di m)))), [])
      | None => Err IInternal
      end
  | EPtr e' p =>
      rbind (infer g e') (fun '(ce, me, _) =>
      rbind (ptr_out_card p) (fun pc =>
      rbind (cart [ce; pc]) (fun c =>
      Ok (c, (fun di => rbind (me di) (fun _ =>
                (* on a union-typed source the pointer is the union's derived pointer: not exclusive *)
                let pm := if is_link sch p then C_UNIQUE
                          else if ptr_excl p && single_key (ty_of g e') then C_UNIQUE else C_DUPLICATE in
                Ok (fixm c (mark_dis e di pm)))), []))))
  | EBack e' p _ =>
      rbind (infer g e') (fun '(ce, me, _) =>
      rbind (ptr_in_card p) (fun pc =>
      rbind (cart [ce; pc]) (fun c1 =>
      rbind (cart [c1; AT_MOST_ONE]) (fun c =>
      Ok (c, (fun di => rbind (me di) (fun _ => Ok (fixm c (mark_dis e di C_UNIQUE)))), [])))))
  | ETup a b =>
      rbind (infer g a) (fun '(ca, ma, _) =>
      rbind (infer g b) (fun '(cb_, mb, _) =>
      rbind (cart [ca; cb_]) (fun c =>
      Ok (c, (fun di =>
            rbind (ma di) (fun am0 => rbind (mb di) (fun bm0 =>
              let am := fixm ca am0 in let bm := fixm cb_ bm0 in
              let nm := count_multi [ca; cb_] in
              let el (cx : card) (mx : minfo) :=
                  if Nat.ltb 1 nm then C_DUPLICATE
                  else if Nat.eqb nm 1 && card_is_single cx then C_DUPLICATE else mx in
              Ok (fixm c (MCont (max_multiplicity [mi_own am; mi_own bm]) false
                                (el ca am) (el cb_ bm)))))), []))))
  | EArr a b =>
      rbind (infer g a) (fun '(ca, ma, _) =>
      rbind (infer g b) (fun '(cb_, mb, _) =>
      rbind (cart [ca; cb_]) (fun c =>
      Ok (c, (fun di =>
            rbind (ma di) (fun am0 => rbind (mb di) (fun bm0 =>
              Ok (fixm c (fresh_mi (max_multiplicity [mi_own (fixm ca am0); mi_own (fixm cb_ bm0)])))))),
          []))))
  | EProj e' i =>
      rbind (infer g e') (fun '(ce, me, _) =>
      rbind (cart [ce; ONE]) (fun c =>
      Ok (c, (fun di => rbind (me di) (fun m0 =>
                let pm := match fixm ce m0 with
                          | MCont _ _ e0 e1 => if i then e1 else e0
                          | _ => C_DUPLICATE end in
                Ok (fixm c (mark_dis e di pm)))), [])))
  | ECall1 f a =>
      rbind (infer g a) (fun '(ca, ma, _) =>
      rbind (call_card1 f ca) (fun c =>
      Ok (c, (fun di => rbind (ma di) (fun am0 =>
                let am := fixm ca am0 in
                let m := match f with
                         | PToStr => am
                         | _ =>
                           if card_is_single c then C_UNIQUE
                           else if is_op1 f then C_DUPLICATE
                           else match f with
                                | PADistinct => C_UNIQUE
                                | PAExists => am
                                | PEnumerate => MCont M_UNIQUE false C_UNIQUE am
                                | _ => C_DUPLICATE
                                end
                         end in
                Ok (fixm c m))), [])))
  | ECall2 f a b =>
      rbind (infer g a) (fun '(ca, ma, ata) =>
      rbind (infer g b) (fun '(cb_, mb, atb) =>
      rbind (call_card2 f ca cb_) (fun c =>
      let mfun := (fun di =>
            rbind (ma di) (fun am0 => rbind (mb di) (fun bm0 =>
              let am := fixm ca am0 in let bm := fixm cb_ bm0 in
              let m := if card_is_single c then C_UNIQUE
                       else if is_op2 f && injective_op f then
                              let r := fresh_mi (max_multiplicity [mi_own am; mi_own bm]) in
                              if is_dup r then r
                              else if Nat.ltb 1 (count_multi [ca; cb_]) then C_DUPLICATE else r
                            else C_DUPLICATE in
              Ok (fixm c m)))) in
      let fm (m : option N -> res minfo) (cx : card) :=
          (fun di => rbind (m di) (fun x => Ok (fixm cx x))) in
      let ats := match f with
                 | PEq => [{| a_l := a; a_r := b; a_cl := ca; a_cr := cb_;
                              a_tl := ty_of g a; a_tr := ty_of g b;
                              a_ml := ma; a_mr := mb |}]
                 | PAnd => ata ++ atb
                 | _ => []
                 end in
      Ok (c, mfun, ats))))
  | EUnion a b =>
      rbind (infer g a) (fun '(ca, ma, _) =>
      rbind (infer g b) (fun '(cb_, mb, _) =>
      rbind (of_opt (union_cardinality [ca; cb_])) (fun c =>
      let ta := ty_of g a in let tb := ty_of g b in
      let disjoint := types_disjoint ta tb in
      Ok (c, (fun di =>
            rbind (ma di) (fun am0 => rbind (mb di) (fun bm0 =>
              Ok (fixm c (union_mult disjoint (fixm ca am0) (fixm cb_ bm0)))))), []))))
  | EDistinct e' =>
      rbind (infer g e') (fun '(ce, me, _) =>
      rbind (cart [ce]) (fun c =>
      Ok (c, (fun di => rbind (me di) (fun m0 =>
                let m := fixm ce m0 in
                Ok (fixm c (if is_empty_m m && mi_canon m then C_EMPTY else C_UNIQUE)))), [])))
  | EIf a cnd b =>
      rbind (infer g a) (fun '(ca, ma, _) =>
      rbind (infer g cnd) (fun '(cc, mc, _) =>
      rbind (infer g b) (fun '(cb_, mb, _) =>
      rbind (cart [ca; cc; cb_]) (fun c =>
      Ok (c, (fun di =>
            rbind (ma di) (fun am0 => rbind (mc di) (fun _ => rbind (mb di) (fun bm0 =>
              let m := if card_is_single cc
                       then fresh_mi (max_multiplicity [mi_own (fixm ca am0); mi_own (fixm cb_ bm0)])
                       else C_DUPLICATE in
              Ok (fixm c m))))), [])))))
  | ECoal a b =>
      rbind (infer g a) (fun '(ca, ma, _) =>
      rbind (infer g b) (fun '(cb_, mb, _) =>
      rbind (of_opt (max_cardinality [ca; cb_])) (fun c =>
      Ok (c, (fun di =>
            rbind (ma di) (fun am0 => rbind (mb di) (fun bm0 =>
              Ok (fixm c (fresh_mi (max_multiplicity [mi_own (fixm ca am0); mi_own (fixm cb_ bm0)])))))),
          []))))
  | ESel e' =>
      rbind (infer g e') (fun '(ce, me, _) =>
      Ok (ce, (fun di => rbind (me di) (fun m => Ok (fixm ce m))), []))
  | EFilter alias x s p =>
      rbind (infer g s) (fun '(cs, ms, _) =>
      let ts := if alias then view_ty x (ty_of g s) else ty_of g s in
      let g' := (x, bind_var ts cs ms) :: g in
      rbind (infer g' p) (fun '(cp, mp, ats) =>
      rbind (cart [cs; AT_MOST_ONE]) (fun rc =>
      let oats := flat_map (orient x (is_obj_ty ts)) ats in
      rbind (if card_is_multi rc
             then rbind (ms None) (fun m0 =>
                    Ok (is_uniq (fixm cs m0) && existsb (oatom_excl alias ts) oats))
             else Ok false) (fun hit =>
      let c := if hit then AT_MOST_ONE else rc in
      Ok (c, (fun di =>
            rbind (ms di) (fun m0 => rbind (mp di) (fun _ =>
            rbind (any_dis di oats) (fun dd =>
              Ok (fixm c (if dd then C_DISTINCT_UNION else fixm cs m0)))))), [])))))
  | ELimit e' n =>
      rbind (infer g e') (fun '(ce, me, _) =>
      rbind (limit_card ce (Z.of_N n)) (fun c =>
      Ok (c, (fun di => rbind (me di) (fun m => Ok (fixm c (fixm ce m)))), [])))
  | EOffset e' _ =>
      rbind (infer g e') (fun '(ce, me, _) =>
      rbind (upper_of ce) (fun u => rbind (mk_card CB_ZERO u) (fun c =>
      Ok (c, (fun di => rbind (me di) (fun m => Ok (fixm c (fixm ce m)))), []))))
  | ELimitX e' l =>
      rbind (infer g e') (fun '(ce, me, _) =>
      rbind (infer g l) (fun '(cl, ml, _) =>
      if card_is_multi cl then Err ISingleton else
      rbind (match l with
             | ELit [VInt z] => limit_card ce z
             | _ => rbind (upper_of ce) (fun u => mk_card CB_ZERO u)
             end) (fun c =>
      Ok (c, (fun di => rbind (me di) (fun m => rbind (ml di) (fun _ => Ok (fixm c (fixm ce m))))), []))))
  | EOffsetX e' l =>
      rbind (infer g e') (fun '(ce, me, _) =>
      rbind (infer g l) (fun '(cl, ml, _) =>
      if card_is_multi cl then Err ISingleton else
      rbind (upper_of ce) (fun u => rbind (mk_card CB_ZERO u) (fun c =>
      Ok (c, (fun di => rbind (me di) (fun m => rbind (ml di) (fun _ => Ok (fixm c (fixm ce m))))), [])))))
  | EFor x s b =>
      rbind (infer g s) (fun '(cs, ms, _) =>
      let g' := (x, bind_var (view_ty x (ty_of g s)) cs ms) :: g in
      rbind (infer g' b) (fun '(cb_, mb, _) =>
      rbind (cart [cb_; cs]) (fun c =>
      Ok (c, (fun di =>
            rbind (ms di) (fun it0 =>
              let itm := fixm cs it0 in
              let di' := if is_the_DUPLICATE itm then di
                         else match di with None => Some x | Some _ => None end in
              rbind (mb di') (fun r0 =>
                let rm := fixm cb_ r0 in
                Ok (fixm c (if is_dup itm then C_DUPLICATE
                            else if mi_dis rm then rm else C_DUPLICATE))))), []))))
  | EShape x s els =>
      rbind (infer g s) (fun '(cs, ms, _) =>
      let g' := (x, bind_var (view_ty x (ty_of g s)) cs ms) :: g in
      rbind (infer_els g' els) (fun ers =>
      Ok (cs, (fun di => rbind (ms di) (fun m => rbind (check_els di ers) (fun _ => Ok (fixm cs m)))), [])))
  end
with infer_els (g : ienv) (els : shape_els) : res (list elres) :=
  match els with
  | SNil => Ok []
  | SCons nm q e tl =>
      rbind (infer g e) (fun '(ce, me, _) =>
      rbind (shape_el_card q ce) (fun pc =>
      rbind (infer_els g tl) (fun r =>
      Ok ({| el_name := nm; el_card := pc; el_ecard := ce; el_obj := is_obj_ty (ty_of g e);
             el_mult := me |} :: r))))
  end.

(* ---- what the compiler reports for a whole query *)
Fixpoint strip_sel (e : expr) : expr := match e with ESel e' => strip_sel e' | _ => e end.

Inductive report :=
| RErr (e : ierr)
| ROk (c : card) (m : mult) (els : list (N * card)).

Definition top_els (e : expr) : res (list (N * card)) :=
  match strip_sel e with
  | EShape x s els =>
      rbind (infer [] s) (fun '(cs, ms, _) =>
      rbind (infer_els [(x, bind_var (view_ty x (ty_of [] s)) cs ms)] els) (fun ers =>
      Ok (map (fun r => (el_name r, el_card r)) ers)))
  | _ => Ok []
  end.

Definition run_infer (e : expr) : report :=
  match infer [] e with
  | Err x => RErr x
  | Ok (c, m, _) =>
      match m None with
      | Err x => RErr x
      | Ok mi => match top_els e with
                 | Ok els => ROk c (mi_own (fixm c mi)) els
                 | Err x => RErr x
                 end
      end
  end.

(* ------------------------------------------------------------------ where the rules over-claim
   Rule applications of the real inference that are NOT justified by the semantics (each is
   a finding replayed on the real compiler, see Refuted.v and known_findings.json), plus the
   one class of claims the proofs do not cover (TFor).  `tags g di e = []` is the side
   condition of the soundness theorems; the harness uses the tags to classify monitor hits.
     TF1  a path through a non-exclusive pointer rooted at the FOR iterator is marked disjoint_union
     TF2  UNION: both operands "disjoint_union" (or only the last one, with disjoint types)
     TF3  FILTER .p = <key rooted at the iterator>: DISTINCT_UNION though the key is not the
          iterator itself / the subject has duplicates
     TF4  exclusive scalar pointer of a source with duplicates classified UNIQUE
     TF5  FILTER: a path whose type equals the subject type is taken for std::id
     TF6  FILTER: the key depends on the filtered object
     TF9  UNION: operand types deemed disjoint although they share a base type
     TFor a FOR result classified UNIQUE through disjoint_union (sound instances exist:
          body = iterator; covered by the monitors only)
     TFX  disjoint_union reached through a tuple element; UNION of two non-empty container
          (tuple) operands, whose result keeps only the last operand's per-element information
     TCast a cast of a multi set classified UNIQUE because its operand is (true of <str>int64;
          the proofs do not cover the injectivity of casts)
     TIll the term is ill-typed in a way the real compiler rejects (pointer of another type's
          object; UNION of tuples deemed type-disjoint): outside "queries the compiler accepts" *)
Inductive tag := TF1 | TF2 | TF3 | TF4 | TF5 | TF6 | TF9 | TFor | TFX | TCast | TIll.

Fixpoint mentions (x : N) (e : expr) : bool :=
  match e with
  | ELit _ | EEmpty _ | ERoot _ => false
  | EVar y => N.eqb x y
  | EPtr e _ | EBack e _ _ | EProj e _ | ECall1 _ e | EDistinct e | ESel e | ELimit e _ | EOffset e _ => mentions x e
  | ETup a b | EArr a b | ECall2 _ a b | EUnion a b | ECoal a b | ELimitX a b | EOffsetX a b => mentions x a || mentions x b
  | EIf a c b => mentions x a || mentions x c || mentions x b
  | EFilter _ _ s p => mentions x s || mentions x p
  | EFor _ s b => mentions x s || mentions x b
  | EShape _ s els => mentions x s || mentions_els x els
  end
with mentions_els (x : N) (els : shape_els) : bool :=
  match els with SNil => false | SCons _ _ e tl => mentions x e || mentions_els x tl end.

Definition base_overlap (a b : ty) : bool :=
  match a, b with
  | TObj x, TObj y => existsb (fun k => existsb (fun k' => match k, k' with
                                                          | t :: _, t' :: _ => N.eqb t t' | _, _ => false end) y) x
  | _, _ => false
  end.

Definition is_var (e : expr) : bool := match e with EVar _ => true | _ => false end.
Definition is_cont (m : minfo) : bool := match m with MCont _ _ _ _ => true | _ => false end.
(* every component of the source type is the pointer's source type *)
Definition ptr_src_ok (t : ty) (p : N) : bool :=
  match t, find_ptr sch p with
  | TObj ks, Some i => forallb (fun k => match k with b :: _ => N.eqb b (p_src i) | [] => false end) ks
  | _, _ => false
  end.
Definition ptr_multi (p : N) : bool := match find_ptr sch p with Some i => p_multi i | None => true end.

(* mult of a sub-result under di, after the singleton override; DUPLICATE when it fails *)
Definition mult_at (r : iresult) (di : option N) : minfo :=
  match r with
  | Ok (c, m, _) => match m di with Ok mi => fixm c mi | Err _ => C_DUPLICATE end
  | Err _ => C_DUPLICATE
  end.
Definition card_at (r : iresult) : card := match r with Ok (c, _, _) => c | Err _ => UNKNOWN end.
Definition atoms_at (r : iresult) : list atom := match r with Ok (_, _, a) => a | Err _ => [] end.

Definition filter_tags (alias : bool) (x : N) (ts : ty) (di : option N) (subj : minfo) (oats : list oatom)
  : list tag :=
  flat_map (fun o =>
    (if oatom_excl alias ts o then
       (match o_chain o with
        | [] => []
        | ch => if single_key ts && forallb ptr_excl ch then [] else [TF5]
        end) ++ (if mentions x (o_key o) then [TF6] else [])
     else [])
    ++ (match oatom_dis di o with
        | Ok true => if is_var (o_key o) && negb (is_dup subj) then [] else [TF3]
        | _ => []
        end)) oats.

(* a reference to a bound variable re-infers the binding expression under the
   distinct_iterator in force at the reference: its tags are those of that re-inference *)
Definition tenv := list (N * (option N -> list tag)).
Fixpoint tlookup (t : tenv) (x : N) : option (option N -> list tag) :=
  match t with [] => None | (y, f) :: tl => if N.eqb y x then Some f else tlookup tl x end.

Fixpoint tags (g : ienv) (tg : tenv) (di : option N) (e : expr) : list tag :=
  match e with
  | ELit _ | EEmpty _ | ERoot _ => []
  | EVar x => match tlookup tg x with Some f => f di | None => [] end
  | EPtr e' p =>
      tags g tg di e'
      ++ (if ptr_src_ok (ty_of g e') p then [] else [TIll])
      ++ (if negb (is_link sch p) && ptr_excl p && single_key (ty_of g e')
             && negb (is_uniq (mult_at (infer g e') di) || is_empty_m (mult_at (infer g e') di))
          then [TF4] else [])
      ++ (if root_is e' di && (is_link sch p || (ptr_excl p && single_key (ty_of g e')))
             && negb (is_var e' && ptr_excl p) then [TF1] else [])
  | EBack e' p _ =>
      tags g tg di e' ++ (if root_is e' di && negb (is_var e' && negb (ptr_multi p)) then [TF1] else [])
  | ETup a b | EArr a b | ECall2 _ a b | ECoal a b => tags g tg di a ++ tags g tg di b
  | EProj e' i =>
      tags g tg di e'
      ++ (match mult_at (infer g e') di with
          | MCont _ _ e0 e1 =>
              let pm := if i then e1 else e0 in
              (if mi_dis pm then [TFX] else [])
              ++ (if root_is e' di && negb (is_dup pm) && negb (is_var e') then [TF1] else [])
          | _ => []
          end)
  | ECall1 f a =>
      tags g tg di a
      ++ (match f with
          | PToStr => if card_is_multi (card_at (infer g a))
                         && negb (match mult_at (infer g a) di with
                                  | MPlain o _ _ => negb (mult_eqb o M_UNIQUE)
                                  | MCont _ _ _ _ => false end)
                      then [TCast] else []
          | _ => []
          end)
  | EDistinct a | ESel a | ELimit a _ | EOffset a _ => tags g tg di a
  | EUnion a b =>
      let am := mult_at (infer g a) di in let bm := mult_at (infer g b) di in
      let ta := ty_of g a in let tb := ty_of g b in
      let dj := types_disjoint ta tb in
      tags g tg di a ++ tags g tg di b
      ++ (if dj && base_overlap ta tb && is_uniq am && is_uniq bm then [TF9] else [])
      ++ (if is_uniq am && is_uniq bm && (is_cont am || is_cont bm) then [TFX] else [])
      ++ (if is_uniq am && is_uniq bm && mi_dis bm && ((negb dj && mi_dis am) || (dj && negb (mi_dis am)))
          then [TF2] else [])
  | EIf a c b => tags g tg di a ++ tags g tg di c ++ tags g tg di b
  | ELimitX a l | EOffsetX a l => tags g tg di a ++ tags g tg di l
  | EFilter alias x s p =>
      let rs := infer g s in
      let ts := if alias then view_ty x (ty_of g s) else ty_of g s in
      let g' := (x, bind_var ts (card_at rs) (match rs with Ok (_, m, _) => m | Err e => fun _ => Err e end)) :: g in
      let tg' := (x, fun di0 => tags g tg di0 s) :: tg in
      let oats := flat_map (orient x (is_obj_ty ts)) (atoms_at (infer g' p)) in
      tags g tg di s ++ tags g tg None s ++ tags g' tg' di p ++ tags g' tg' None p
      ++ filter_tags alias x ts di (mult_at rs di) oats
  | EFor x s b =>
      let rs := infer g s in
      let g' := (x, bind_var (view_ty x (ty_of g s)) (card_at rs)
                             (match rs with Ok (_, m, _) => m | Err e => fun _ => Err e end)) :: g in
      let tg' := (x, fun di0 => tags g tg di0 s) :: tg in
      let itm := mult_at rs di in
      let di' := if is_the_DUPLICATE itm then di else match di with None => Some x | Some _ => None end in
      let rm := mult_at (infer g' b) di' in
      tags g tg di s ++ tags g' tg' di' b
      ++ (if negb (is_dup itm) && mi_dis rm && (negb (is_empty_m rm) || is_cont rm) then [TFor] else [])
  | EShape x s els =>
      let rs := infer g s in
      let g' := (x, bind_var (view_ty x (ty_of g s)) (card_at rs)
                             (match rs with Ok (_, m, _) => m | Err e => fun _ => Err e end)) :: g in
      let tg' := (x, fun di0 => tags g tg di0 s) :: tg in
      tags g tg di s ++ tags_els g' tg' di els
  end
with tags_els (g : ienv) (tg : tenv) (di : option N) (els : shape_els) : list tag :=
  match els with
  | SNil => []
  | SCons _ _ e tl => tags g tg di e ++ tags_els g tg di tl
  end.

Definition run_tags (e : expr) : list tag := tags [] [] None e.
End Infer.
