(* C06 -- semantic notions (what a cardinality / multiplicity label promises about an
   evaluated result) and the facts about conforming databases used by the soundness proof *)
From Coq Require Import List NArith ZArith Bool String Ascii Lia Arith.
From Verif.C06 Require Import Gen_Card Model ProofsAlg ProofsList.
Import ListNotations.

Definition db_ok (s : schema) (d : db) : Prop := db_okb s d = true.

(* ------------------------------------------------------------------ sublists *)
Inductive Sub {A : Type} : list A -> list A -> Prop :=
| Sub_nil : Sub [] []
| Sub_skip : forall x l' l, Sub l' l -> Sub l' (x :: l)
| Sub_keep : forall x l' l, Sub l' l -> Sub (x :: l') (x :: l).

Lemma Sub_refl : forall (A : Type) (l : list A), Sub l l.
Proof. induction l; [constructor | apply Sub_keep; auto]. Qed.
Lemma Sub_nil_l : forall (A : Type) (l : list A), Sub [] l.
Proof. induction l; constructor; auto. Qed.
Lemma Sub_nil_r : forall (A : Type) (l : list A), Sub l [] -> l = [].
Proof. intros A l H; inversion H; auto. Qed.
Lemma Sub_In : forall (A : Type) (l' l : list A) x, Sub l' l -> In x l' -> In x l.
Proof. induction 1; cbn; intros; auto. destruct H0; subst; auto. Qed.
Lemma Sub_length : forall (A : Type) (l' l : list A), Sub l' l -> List.length l' <= List.length l.
Proof. induction 1; cbn; lia. Qed.
Lemma Sub_NoDup : forall (A : Type) (l' l : list A), Sub l' l -> NoDup l -> NoDup l'.
Proof.
  induction 1; intros Hn; auto.
  - inversion Hn; auto.
  - inversion Hn; subst. constructor; auto. intros C; apply H2. eapply Sub_In; eauto.
Qed.
Lemma Sub_map : forall (A B : Type) (f : A -> B) l' l, Sub l' l -> Sub (map f l') (map f l).
Proof. induction 1; cbn; [apply Sub_nil | apply Sub_skip; auto | apply Sub_keep; auto]. Qed.
Lemma Sub_filter : forall (A : Type) (f : A -> bool) l, Sub (filter f l) l.
Proof. induction l; cbn; [apply Sub_nil|]. destruct (f a); [apply Sub_keep | apply Sub_skip]; auto. Qed.
Lemma Sub_firstn : forall (A : Type) n (l : list A), Sub (firstn n l) l.
Proof.
  induction n; intros l; cbn. - apply Sub_nil_l. - destruct l; [apply Sub_nil | apply Sub_keep; auto].
Qed.
Lemma Sub_skipn : forall (A : Type) n (l : list A), Sub (skipn n l) l.
Proof.
  induction n; intros l; cbn. - apply Sub_refl. - destruct l; [apply Sub_nil | apply Sub_skip; auto].
Qed.
Lemma Sub_single : forall (A : Type) (l : list A) x, In x l -> Sub [x] l.
Proof.
  induction l; cbn; intros x H; try contradiction.
  destruct H; subst. - apply Sub_keep. apply Sub_nil_l. - apply Sub_skip; auto.
Qed.

(* ------------------------------------------------------------------ what a multiplicity promises *)
Fixpoint mult_ok (u : bool) (m : minfo) (l : list value) : Prop :=
  mi_own m <> M_UNKNOWN /\
  (mi_own m = M_EMPTY -> l = []) /\
  (u = true -> mi_own m = M_UNIQUE -> NoDup l) /\
  match m with
  | MCont _ _ e0 e1 => mult_ok u e0 (map (vproj false) l) /\ mult_ok u e1 (map (vproj true) l)
  | MPlain _ _ _ => True
  end.

Lemma mult_ok_Sub : forall u m l l', mult_ok u m l -> Sub l' l -> mult_ok u m l'.
Proof.
  induction m as [o ds cn|o ds e0 IH0 e1 IH1]; intros l l' H S; cbn in *.
  - destruct H as (K & A & B & _). repeat split; auto.
    + intros E. rewrite (A E) in S. now apply Sub_nil_r in S.
    + intros U E. eapply Sub_NoDup; eauto.
  - destruct H as (K & A & B & C0 & C1). repeat split; auto.
    + intros E. rewrite (A E) in S. now apply Sub_nil_r in S.
    + intros U E. eapply Sub_NoDup; eauto.
    + eapply IH0; eauto. now apply Sub_map.
    + eapply IH1; eauto. now apply Sub_map.
Qed.

Lemma mult_ok_weaken : forall m l, mult_ok true m l -> mult_ok false m l.
Proof.
  induction m as [o ds cn|o ds e0 IH0 e1 IH1]; intros l H; cbn in *.
  - destruct H as (K & A & B & _). repeat split; auto; discriminate.
  - destruct H as (K & A & B & C0 & C1). repeat split; auto; discriminate.
Qed.

Lemma mult_ok_any : forall u m l, mult_ok true m l -> mult_ok u m l.
Proof. intros [|] m l H; auto. now apply mult_ok_weaken. Qed.

Lemma mult_ok_known : forall u m l, mult_ok u m l -> mi_own m <> M_UNKNOWN.
Proof. intros u [o ds cn|o ds e0 e1] l H; cbn in H; tauto. Qed.

(* EMPTY-claims only depend on whether the list is empty *)
Lemma mult_ok_false_transfer : forall m l l',
  mult_ok false m l -> (l = [] -> l' = []) -> mult_ok false m l'.
Proof.
  induction m as [o ds cn|o ds e0 IH0 e1 IH1]; intros l l' H T; cbn in *.
  - destruct H as (K & A & B & _). repeat split; auto; discriminate.
  - destruct H as (K & A & B & C0 & C1). repeat split; auto; try discriminate.
    + eapply IH0; eauto. intros E. destruct l; cbn in E; try discriminate. rewrite T; auto.
    + eapply IH1; eauto. intros E. destruct l; cbn in E; try discriminate. rewrite T; auto.
Qed.

(* on a one-element list the UNIQUE claims are free *)
Lemma mult_ok_single_lift : forall u m v, mult_ok false m [v] -> mult_ok u m [v].
Proof.
  induction m as [o ds cn|o ds e0 IH0 e1 IH1]; intros v H; cbn in *.
  - destruct H as (K & A & B & _). repeat split; auto. intros; repeat constructor; auto.
  - destruct H as (K & A & B & C0 & C1). repeat split; auto. intros; repeat constructor; auto.
Qed.

Lemma mult_ok_dup : forall u l, mult_ok u C_DUPLICATE l.
Proof. intros; cbn; repeat split; intros; discriminate. Qed.
Lemma mult_ok_unique : forall u l, (u = true -> NoDup l) -> mult_ok u C_UNIQUE l.
Proof. intros; cbn; repeat split; intros; auto; discriminate. Qed.
Lemma mult_ok_empty : forall u, mult_ok u C_EMPTY [].
Proof. intros; cbn; repeat split; intros; auto; try discriminate; constructor. Qed.
Lemma mult_ok_fresh : forall u o l,
  o <> M_UNKNOWN -> (o = M_EMPTY -> l = []) -> (u = true -> o = M_UNIQUE -> NoDup l) -> mult_ok u (fresh_mi o) l.
Proof. intros; cbn; repeat split; auto. Qed.

Lemma mult_ok_set_dis : forall u m l, mult_ok u m l -> mult_ok u (mi_set_dis m) l.
Proof. intros u [o ds cn|o ds e0 e1] l H; cbn in *; tauto. Qed.

Lemma mult_ok_own_empty : forall u m l, mult_ok u m l -> mi_own m = M_EMPTY -> l = [].
Proof. intros u [o ds cn|o ds e0 e1] l H; cbn in H; tauto. Qed.
Lemma mult_ok_own_unique : forall m l, mult_ok true m l -> mi_own m = M_UNIQUE -> NoDup l.
Proof. intros [o ds cn|o ds e0 e1] l H; cbn in H; intros; apply H; auto. Qed.

Lemma within_single_le1 : forall n c, card_is_single c = true -> within n c -> n <= 1.
Proof. intros n c H W; destruct c; cbn in *; try discriminate; lia. Qed.

(* the singleton override is justified by the cardinality bound *)
Lemma mult_ok_fixm : forall u c m l,
  (u = true -> within (List.length l) c) -> mult_ok u m l -> mult_ok u (fixm c m) l.
Proof.
  intros u c m l W H. unfold fixm.
  destruct (card_is_single c && is_dup m) eqn:E; auto.
  apply andb_true_iff in E. destruct E as [E1 E2].
  apply mult_ok_unique. intros U. apply NoDup_le1. eapply within_single_le1; eauto.
Qed.

Lemma fixm_idem : forall c m, fixm c (fixm c m) = fixm c m.
Proof.
  intros c m. unfold fixm. destruct (card_is_single c && is_dup m) eqn:E; auto.
  - cbn. rewrite andb_false_r. reflexivity.
  - rewrite E. reflexivity.
Qed.

Lemma fixm_own_cases : forall c m, fixm c m = m \/ (fixm c m = C_UNIQUE /\ card_is_single c = true).
Proof.
  intros c m; unfold fixm. destruct (card_is_single c && is_dup m) eqn:E; auto.
  right; split; auto. now apply andb_true_iff in E.
Qed.

(* ------------------------------------------------------------------ static types *)
Section Typing.
Variable d : db.

Definition obj_type (o t : N) : Prop := In (t, o) (d_objs d).

Fixpoint has_ty (t : ty) (v : value) : Prop :=
  match t with
  | TObj ks => exists o k b tl, v = VObj o /\ In k ks /\ k = b :: tl /\ obj_type o b
  | TPair a b => exists x y, v = VPair x y /\ has_ty a x /\ has_ty b y
  | TArr a => exists x y, v = VArr x y /\ has_ty a x /\ has_ty a y
  | _ => True
  end.

Lemma key_eqb_eq : forall a b, key_eqb a b = true <-> a = b.
Proof.
  induction a as [|x a IH]; destruct b as [|y b]; cbn; split; intros H; try discriminate; auto.
  - apply andb_true_iff in H. destruct H as [A B]. apply N.eqb_eq in A. apply IH in B. congruence.
  - inversion H; subst. rewrite N.eqb_refl. cbn. now apply IH.
Qed.

Lemma keys_eqb_eq : forall a b, keys_eqb a b = true <-> a = b.
Proof.
  induction a as [|x a IH]; destruct b as [|y b]; cbn; split; intros H; try discriminate; auto.
  - apply andb_true_iff in H. destruct H as [A B]. apply key_eqb_eq in A. apply IH in B. congruence.
  - inversion H; subst. apply andb_true_iff; split. + now apply key_eqb_eq. + now apply IH.
Qed.

Lemma insert_key_In : forall x l k, In k (insert_key x l) <-> k = x \/ In k l.
Proof.
  induction l as [|y l IH]; intros k; cbn.
  - split; intros [H|H]; auto; contradiction.
  - destruct (key_eqb x y) eqn:E.
    + apply key_eqb_eq in E; subst. cbn. split; intros H; auto. destruct H as [H|H]; subst; auto.
    + destruct (key_ltb x y); cbn.
      * split; intros [H|H]; auto.
      * rewrite IH. split; intros H.
        -- destruct H as [H|[H|H]]; auto.
        -- destruct H as [H|[H|H]]; auto.
Qed.

Lemma merge_keys_In : forall b a k, In k (merge_keys a b) <-> In k a \/ In k b.
Proof.
  unfold merge_keys. induction b as [|y b IH]; intros a k; cbn.
  - tauto.
  - rewrite IH. rewrite insert_key_In. split; intros H.
    + destruct H as [[H|H]|H]; auto.
    + destruct H as [H|[H|H]]; auto.
Qed.

Lemma has_ty_join_l : forall a b v, has_ty a v -> has_ty (join_ty a b) v.
Proof.
  induction a as [| | |ks|a1 IH1 a2 IH2|a1 IH1|]; intros b v H; destruct b; cbn in *; auto.
  - destruct (keys_eqb ks ks0); cbn; auto.
    destruct H as (o & k & bb & tl & A1 & A2 & A3 & A4). exists o, k, bb, tl. repeat split; auto.
    apply merge_keys_In; auto.
  - destruct H as (x & y & E & Hx & Hy). exists x, y; repeat split; auto.
  - destruct H as (x & y & E & Hx & Hy). exists x, y; repeat split; auto.
Qed.

Lemma has_ty_join_r : forall a b v, has_ty b v -> has_ty (join_ty a b) v.
Proof.
  induction a as [| | |ks|a1 IH1 a2 IH2|a1 IH1|]; intros b v H; destruct b; cbn in *; auto.
  - destruct (keys_eqb ks ks0) eqn:E; cbn.
    + apply keys_eqb_eq in E; subst; auto.
    + destruct H as (o & k & bb & tl & A1 & A2 & A3 & A4). exists o, k, bb, tl. repeat split; auto.
      apply merge_keys_In; auto.
  - destruct H as (x & y & E & Hx & Hy). exists x, y; repeat split; auto.
  - destruct H as (x & y & E & Hx & Hy). exists x, y; repeat split; auto.
Qed.

Lemma has_ty_view : forall x t v, has_ty t v -> has_ty (view_ty x t) v.
Proof.
  intros x t v H. destruct t; cbn in *; auto.
  destruct ks as [|k [|k2 ks]]; cbn in *; auto.
  destruct H as (o & k' & bb & tl & A1 & A2 & A3 & A4). destruct A2 as [A2|[]]; subst.
  exists o, ((bb :: tl) ++ [x]), bb, (tl ++ [x]). repeat split; cbn; auto.
Qed.
End Typing.

(* ------------------------------------------------------------------ conforming databases *)
Section DbFacts.
Variable sch : schema.
Variable d : db.
Hypothesis Hdb : db_ok sch d.

Lemma nodupN_NoDup : forall l, nodupN l = true -> NoDup l.
Proof.
  induction l as [|x l IH]; cbn; intros H; constructor.
  - apply andb_true_iff in H. destruct H as [A _]. apply negb_true_iff in A.
    intros C. assert (existsb (N.eqb x) l = true).
    { apply existsb_exists. exists x; split; auto. apply N.eqb_refl. } congruence.
  - apply andb_true_iff in H. destruct H as [_ B]. auto.
Qed.

Lemma db_parts :
  NoDup (map snd (d_objs d)) /\ forallb (ptr_okb d sch) sch = true /\ vals_keys_okb sch d = true.
Proof.
  pose proof Hdb as H. unfold db_ok, db_okb in H.
  apply andb_true_iff in H. destruct H as [H123 H4].
  apply andb_true_iff in H123. destruct H123 as [H12 H3].
  apply andb_true_iff in H12. destruct H12 as [H1 H2].
  repeat split; auto. now apply nodupN_NoDup.
Qed.

Lemma obj_type_unique : forall o t1 t2, obj_type d o t1 -> obj_type d o t2 -> t1 = t2.
Proof.
  intros o t1 t2 H1 H2. destruct db_parts as (N & _ & _). unfold obj_type in *.
  revert N H1 H2. generalize (d_objs d) as l. induction l as [|[t o'] l IH]; cbn; intros N H1 H2; try contradiction.
  inversion N; subst.
  destruct H1 as [H1|H1], H2 as [H2|H2]; try congruence.
  - inversion H1; subst. exfalso. apply H3. apply in_map_iff. exists (t2, o); auto.
  - inversion H2; subst. exfalso. apply H3. apply in_map_iff. exists (t1, o); auto.
  - eauto.
Qed.

Lemma objs_of_In : forall t o, In o (objs_of d t) <-> obj_type d o t.
Proof.
  intros t o. unfold objs_of, obj_type. rewrite in_map_iff. split.
  - intros ([t' o'] & E & H). cbn in E; subst. apply filter_In in H. destruct H as [H1 H2].
    cbn in H2. apply N.eqb_eq in H2; subst; auto.
  - intros H. exists (t, o); split; auto. apply filter_In; split; auto. cbn. apply N.eqb_refl.
Qed.

Lemma find_ptr_In : forall s p i, find_ptr s p = Some i -> In (p, i) s.
Proof.
  induction s as [|[q j] s IH]; cbn; intros p i H; try discriminate.
  destruct (N.eqb q p) eqn:E.
  - apply N.eqb_eq in E; subst. inversion H; subst; auto.
  - right; auto.
Qed.

Lemma lookup_vals_key : forall l o p v,
  In v (lookup_vals l o p) -> exists vs, In ((o, p), vs) l /\ In v vs.
Proof.
  induction l as [|[[o' p'] vs] l IH]; cbn; intros o p v H; try contradiction.
  destruct (N.eqb o o' && N.eqb p p') eqn:E.
  - apply andb_true_iff in E. destruct E as [E1 E2]. apply N.eqb_eq in E1, E2; subst. exists vs; auto.
  - destruct (IH _ _ _ H) as (vs' & A & B). exists vs'; auto.
Qed.

(* a stored value belongs to an object of the pointer's source type *)
Lemma vals_src : forall o p i v,
  find_ptr sch p = Some i -> In v (vals_of d o p) -> obj_type d o (p_src i).
Proof.
  intros o p i v Hf Hv. destruct db_parts as (_ & _ & K).
  unfold vals_of in Hv. destruct (lookup_vals_key _ _ _ _ Hv) as (vs & A & B).
  unfold vals_keys_okb in K. rewrite forallb_forall in K. specialize (K _ A). cbn in K.
  rewrite Hf in K. apply existsb_exists in K. destruct K as (o' & K1 & K2).
  apply N.eqb_eq in K2; subst. now apply objs_of_In.
Qed.

Lemma ptr_ok_at : forall p i, find_ptr sch p = Some i -> ptr_okb d sch (p, i) = true.
Proof.
  intros p i H. destruct db_parts as (_ & F & _). rewrite forallb_forall in F.
  apply F. now apply find_ptr_In.
Qed.

(* exclusive: a value is stored at most once over all objects of the source type *)
Lemma excl_same_obj : forall p i o1 o2 v,
  find_ptr sch p = Some i -> p_excl i = true ->
  In v (vals_of d o1 p) -> In v (vals_of d o2 p) -> o1 = o2.
Proof.
  intros p i o1 o2 v Hf He H1 H2.
  pose proof (ptr_ok_at _ _ Hf) as K. unfold ptr_okb in K.
  apply andb_true_iff in K. destruct K as [_ K]. rewrite He in K. cbn in K.
  apply nodupb_NoDup in K. unfold all_ptr_vals in K. rewrite Hf in K.
  eapply NoDup_flat_map_same with (f := fun o => vals_of d o p); eauto.
  - apply objs_of_In. eapply vals_src; eauto.
  - apply objs_of_In. eapply vals_src; eauto.
Qed.

Lemma excl_vals_NoDup : forall p i o,
  find_ptr sch p = Some i -> p_excl i = true -> NoDup (vals_of d o p).
Proof.
  intros p i o Hf He.
  destruct (vals_of d o p) as [|v vs] eqn:E; [constructor|].
  pose proof (ptr_ok_at _ _ Hf) as K. unfold ptr_okb in K.
  apply andb_true_iff in K. destruct K as [_ K]. rewrite He in K. cbn in K.
  apply nodupb_NoDup in K. unfold all_ptr_vals in K. rewrite Hf in K.
  assert (Ho : In o (objs_of d (p_src i))).
  { apply objs_of_In. eapply vals_src; eauto. rewrite E; cbn; auto. }
  rewrite <- E. clear E. revert K Ho. generalize (objs_of d (p_src i)) as l.
  induction l as [|o' l IH]; cbn; intros K Ho; try contradiction.
  assert (Hs : forall (u w : list value), NoDup (u ++ w) -> NoDup u /\ NoDup w).
  { induction u as [|z u IHu]; intros w Hn; cbn in *.
    - split; auto; constructor.
    - inversion Hn; subst. destruct (IHu _ H2). split; auto. constructor; auto.
      intros C; apply H1; apply in_or_app; auto. }
  destruct (Hs _ _ K) as [K1 K2]. destruct Ho as [Ho|Ho]; subst; auto.
Qed.

(* a link stores objects of its target type, without repetition *)
Lemma link_vals : forall p i o v,
  find_ptr sch p = Some i -> p_kind i = KLink -> In v (vals_of d o p) ->
  exists o', v = VObj o' /\ obj_type d o' (p_tgt i).
Proof.
  intros p i o v Hf Hk Hv.
  pose proof (ptr_ok_at _ _ Hf) as K. unfold ptr_okb in K.
  apply andb_true_iff in K. destruct K as [K _]. rewrite forallb_forall in K.
  assert (Ho : In o (objs_of d (p_src i))) by (apply objs_of_In; eapply vals_src; eauto).
  specialize (K _ Ho). repeat (apply andb_true_iff in K; destruct K as [K ?]).
  rewrite forallb_forall in H0. specialize (H0 _ Hv). unfold val_kind_ok in H0. rewrite Hk in H0.
  destruct v; try discriminate. apply existsb_exists in H0. destruct H0 as (o' & A & B).
  apply N.eqb_eq in B; subst. exists o'; split; auto. now apply objs_of_In.
Qed.

Lemma ptr_card_vals : forall p i o,
  find_ptr sch p = Some i -> obj_type d o (p_src i) ->
  (p_multi i = false -> List.length (vals_of d o p) <= 1) /\
  (p_req i = true -> 1 <= List.length (vals_of d o p)).
Proof.
  intros p i o Hf Ho.
  pose proof (ptr_ok_at _ _ Hf) as K. unfold ptr_okb in K.
  apply andb_true_iff in K. destruct K as [K _]. rewrite forallb_forall in K.
  apply objs_of_In in Ho. specialize (K _ Ho). repeat (apply andb_true_iff in K; destruct K as [K ?]).
  split; intros E; rewrite E in *; cbn in *.
  - now apply Nat.leb_le in K.
  - destruct (vals_of d o p); cbn in *; try discriminate; lia.
Qed.
End DbFacts.
