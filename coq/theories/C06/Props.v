(* C06 -- reported cardinality and duplicate-freedom bound the actual result.

   Level: proof, partial (core calculus of Model.v; DESIGN C06).  The theorems quantify over
   EVERY schema, EVERY database conforming to it (db_ok: single / required / exclusive pointers,
   typed links), EVERY expression of the calculus and EVERY result of its evaluation.
   Side condition `run_tags sch e = []`: no rule application of the real inference that is
   unjustified (findings C06-F1..F6, F9, replayed on the real compiler; witnesses in Refuted.v)
   or outside what is proved (TFor: FOR results classified UNIQUE through disjoint_union;
   TCast; TFX; TIll = ill-typed term the compiler rejects) occurs in e. *)
From Coq Require Import List NArith ZArith Bool String.
From Verif.C06 Require Import Gen_Card Model ProofsAlg ProofsList ProofsSem ProofsMain Proofs.
Import ListNotations.

(* ---- the TRANSLATED bounds algebra (Gen_Card.v <- cardinality.py) *)
Theorem C06_alg_cartesian : forall cs ns c,
  cartesian_cardinality cs = Some c -> Forall2 within ns cs -> within (prodn ns) c.
Proof. exact cartesian_sound. Qed.
Print Assumptions C06_alg_cartesian.

Theorem C06_alg_union : forall cs ns c,
  cs <> [] -> union_cardinality cs = Some c -> Forall2 within ns cs -> within (sumn ns) c.
Proof. exact union_sound. Qed.
Print Assumptions C06_alg_union.

Theorem C06_alg_coalesce : forall c1 c2 c n1 n2,
  max_cardinality [c1; c2] = Some c -> within n1 c1 -> within n2 c2 ->
  within (if Nat.eqb n1 0 then n2 else n1) c.
Proof. exact max2_sound. Qed.
Print Assumptions C06_alg_coalesce.

Theorem C06_alg_intersect : forall c1 c2 c n1 n2 n,
  min_cardinality [c1; c2] = Some c -> within n1 c1 -> within n2 c2 ->
  n <= n1 -> n <= n2 -> (1 <= n1 -> 1 <= n2 -> 1 <= n) -> within n c.
Proof. exact min2_sound. Qed.
Print Assumptions C06_alg_intersect.

(* the partial Python operations of the algebra (Enum(value), dict lookups) never fail on
   cardinalities the inference produces, and nothing it computes is UNKNOWN *)
Theorem C06_alg_total : forall a b,
  (exists c, cb_add a b = Some c) /\ (exists c, cb_mul a b = Some c) /\
  (exists c, bounds_to_card a b = Some c /\ c <> UNKNOWN).
Proof. intros a b. split; [apply cb_add_total|]. split; [apply cb_mul_total|apply bounds_to_card_total]. Qed.
Print Assumptions C06_alg_total.

Theorem C06_alg_roundtrip : forall c l u, card_to_bounds c = Some (l, u) -> bounds_to_card l u = Some c.
Proof. exact roundtrip. Qed.
Print Assumptions C06_alg_roundtrip.

(* ---- whole queries *)
Theorem C06_card_sound : forall sch d e c mu els l,
  db_ok sch d -> run_infer sch e = ROk c mu els -> run_tags sch e = [] ->
  eval sch d [] e = Some l -> within (List.length l) c.
Proof. intros. eapply whole_query_sound; eauto. Qed.
Print Assumptions C06_card_sound.

Theorem C06_mult_sound : forall sch d e c mu els l,
  db_ok sch d -> run_infer sch e = ROk c mu els -> run_tags sch e = [] ->
  eval sch d [] e = Some l -> (mu = M_UNIQUE -> NoDup l) /\ (mu = M_EMPTY -> l = []).
Proof. intros. eapply whole_query_sound; eauto. Qed.
Print Assumptions C06_mult_sound.

(* every computed element of the result shape, for every object of the result *)
Theorem C06_shape_sound : forall sch d x s els c mu elcards ls v,
  db_ok sch d -> run_infer sch (EShape x s els) = ROk c mu elcards ->
  run_tags sch (EShape x s els) = [] ->
  eval sch d [] s = Some ls -> In v ls ->
  Forall2 (fun nc ev => fst nc = fst ev /\
                        forall le, snd ev = Some le -> within (List.length le) (snd nc))
          elcards (eval_els sch d [] x v els).
Proof. exact top_shape_sound. Qed.
Print Assumptions C06_shape_sound.

(* the statement proved by induction: every sub-expression, in every environment that binds
   each variable to one element of its (sound) binding set, under every distinct_iterator *)
Theorem C06_all_nodes : forall sch d, db_ok sch d -> forall e, node_ok sch d e.
Proof. exact all_ok. Qed.
Print Assumptions C06_all_nodes.

(* ---- non-vacuity: the hypotheses are satisfiable on non-trivial instances *)
Definition ex_sch : schema :=
  [(1%N, {| p_src := 1; p_kind := KStr; p_multi := false; p_req := true; p_excl := true; p_tgt := 0 |});
   (2%N, {| p_src := 1; p_kind := KStr; p_multi := true; p_req := false; p_excl := false; p_tgt := 0 |});
   (3%N, {| p_src := 2; p_kind := KLink; p_multi := true; p_req := false; p_excl := false; p_tgt := 1 |})].
Definition ex_db : db :=
  {| d_objs := [(1, 1); (1, 2); (2, 3); (2, 4)]%N;
     d_vals := [((1, 1)%N, [VStr "a"]); ((1, 2)%N, [VStr "x"; VStr "x"]); ((2, 1)%N, [VStr "b"]);
                ((3, 3)%N, [VObj 1; VObj 2]); ((4, 3)%N, [VObj 1])] |}.
(* select (select v := (detached T2).p3 filter v.p1 = 'a') { z1 := count(.p2) } *)
Definition ex_q : expr :=
  EShape 9 (EFilter true 5 (EPtr (ERoot 2) 3) (ECall2 PEq (EPtr (EVar 5) 1) (ELit [VStr "a"])))
         (SCons 1 QNone (ECall1 PCount (EPtr (EVar 9) 2)) SNil).

Example C06_ex_db_ok : db_ok ex_sch ex_db.
Proof. vm_compute. reflexivity. Qed.
Example C06_ex_infer : run_infer ex_sch ex_q = ROk AT_MOST_ONE M_UNIQUE [(1%N, ONE)].
Proof. vm_compute. reflexivity. Qed.
Example C06_ex_tags : run_tags ex_sch ex_q = [].
Proof. vm_compute. reflexivity. Qed.
Example C06_ex_eval : eval ex_sch ex_db [] ex_q = Some [VObj 1].
Proof. vm_compute. reflexivity. Qed.
Example C06_ex_shape : eval_els ex_sch ex_db [] 9 (VObj 1) (SCons 1 QNone (ECall1 PCount (EPtr (EVar 9) 2)) SNil)
                       = [(1%N, Some [VInt 2])].
Proof. vm_compute. reflexivity. Qed.
(* a FOR whose UNIQUE classification is NOT covered (tag), and one over-claim (tag) *)
Example C06_ex_tagged :
  run_tags ex_sch (EFor 1 (ERoot 2) (EVar 1)) = [TFor] /\
  run_tags ex_sch (EFor 1 (ERoot 2) (EPtr (EVar 1) 3)) = [TF1; TFor].
Proof. vm_compute. split; reflexivity. Qed.
