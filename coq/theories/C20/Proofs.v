(* C20 — proofs about the model of sort_ex (Model.v). *)
From Coq Require Import List NArith Bool Arith Lia Relations Permutation.
Import ListNotations.
From Verif.C20 Require Import Model.



(* ------------------------------------------------------------------ *)
(* basics                                                              *)

Lemma memk_In k l : memk k l = true <-> In k l.
Proof.
  unfold memk. rewrite existsb_exists. split.
  - intros [x [Hx He]]. apply N.eqb_eq in He. subst. exact Hx.
  - intros H. exists k. split; [exact H | apply N.eqb_refl].
Qed.

Lemma memk_nIn k l : memk k l = false <-> ~ In k l.
Proof.
  rewrite <- memk_In. destruct (memk k l); split; intros; try congruence; intuition.
Qed.

(* edge relations of a resolved graph *)
Definition hard (g : graph) (a b : key) : Prop := In b (deps (find g a)).
Definition soft (g : graph) (a b : key) : Prop := In b (weak (find g a)).
Definition ctl (g : graph) (a b : key) : Prop := In b (lctl (find g a)).
Definition E (g : graph) (a b : key) : Prop := hard g a b \/ ctl g a b.
Definition F (g : graph) (a b : key) : Prop := hard g a b \/ ctl g a b \/ soft g a b.

Definition cyclic (R : key -> key -> Prop) : Prop := exists x, clos_trans key R x x.

Definition closed (g : graph) : Prop :=
  forall a b, F g a b -> In a (keys g) /\ In b (keys g).

Definition wf (g : graph) : Prop := NoDup (keys g) /\ closed g.

(* ------------------------------------------------------------------ *)
(* chains: the visiting stack is a path                                *)

Section Chain.
  Variable A : Type.
  Variable R : A -> A -> Prop.   (* R parent child *)
  Fixpoint chain (l : list A) : Prop :=   (* newest first *)
    match l with
    | [] => True
    | c :: l' => match l' with [] => True | p :: _ => R p c /\ chain l' end
    end.
  Lemma chain_tl a l : chain (a :: l) -> chain l.
  Proof. destruct l; simpl; tauto. Qed.
End Chain.
Arguments chain {A} R l.

Lemma chain_reach (R : key -> key -> Prop) l t x :
  chain R (t :: l) -> In x l -> clos_trans key R x t.
Proof.
  revert t. induction l as [|p l IH]; intros t Hc Hin; [inversion Hin|].
  simpl in Hc. destruct Hc as [Hpt Hc].
  destruct Hin as [->|Hin].
  - apply t_step; exact Hpt.
  - eapply t_trans; [apply IH; eauto | apply t_step; exact Hpt].
Qed.

Lemma chain_cycle (R : key -> key -> Prop) l t x :
  chain R (t :: l) -> In x (t :: l) -> R t x -> clos_trans key R x x.
Proof.
  intros Hc [->|Hin] Hr.
  - apply t_step; exact Hr.
  - eapply t_trans; [eapply chain_reach; eauto | apply t_step; exact Hr].
Qed.

(* ------------------------------------------------------------------ *)
(* for_control completion                                              *)

Inductive fcdone (g : graph) (o : list key) : list key -> key -> Prop :=
| fc_in V y : ~ In y V -> In y o -> fcdone g o V y
| fc_step V y : ~ In y V -> incl (deps (find g y)) o ->
                (forall z, In z (lctl (find g y)) -> fcdone g o (y :: V) z) ->
                fcdone g o V y.

Lemma fcdone_mono g o o' V V' y :
  fcdone g o V y -> incl o o' -> incl V' V -> fcdone g o' V' y.
Proof.
  intros H. revert o' V'. induction H as [V y Hn Hi | V y Hn Hd Hl IH]; intros o' V' Ho HV.
  - apply fc_in; auto.
  - apply fc_step; auto.
    + intros a Ha. apply Ho, Hd, Ha.
    + intros z Hz. apply IH; auto. intros a [->|Ha]; [left; reflexivity | right; auto].
Qed.

(* the order built so far: newest first; every entry was appended after its hard
   dependencies, and its loop-control targets were for_control-complete *)
Inductive okorder (g : graph) : list key -> Prop :=
| ok_nil : okorder g []
| ok_cons k o : okorder g o -> ~ In k o -> incl (deps (find g k)) o ->
                (forall z, In z (lctl (find g k)) -> fcdone g o [k] z) ->
                okorder g (k :: o).

Lemma okorder_NoDup g o : okorder g o -> NoDup o.
Proof. induction 1; constructor; auto. Qed.

Lemma okorder_hard g o : okorder g o ->
  forall l1 k l2, o = l1 ++ k :: l2 -> incl (deps (find g k)) l2.
Proof.
  induction 1 as [|k o Hok IH Hn Hd Hl]; intros l1 k' l2 Heq.
  - destruct l1; discriminate.
  - destruct l1 as [|a l1]; simpl in Heq; inversion Heq; subst.
    + exact Hd.
    + eapply IH; eauto.
Qed.

(* walking along a cycle through loop-control edges must hit the avoid set *)
Lemma fc_walk g o' x : forall y, clos_refl_trans_1n key (E g) y x ->
  forall V, fcdone g o' V y -> In x V -> clos_trans key (E g) x y ->
  exists u, In u o' /\ clos_trans key (E g) u u.
Proof.
  induction 1 as [y | y y2 x Hstep Hrest IH]; intros V Hfc HxV Hxy.
  - inversion Hfc; subst; contradiction.
  - assert (Hy2x : clos_refl_trans key (E g) y2 x) by (apply clos_rt1n_rt; exact Hrest).
    assert (Hyy : clos_trans key (E g) y y).
    { apply clos_rt_t with y2; [apply rt_step; exact Hstep|].
      apply clos_rt_t with x; [exact Hy2x | exact Hxy]. }
    inversion Hfc as [V0 y0 Hn Hin | V0 y0 Hn Hd Hl]; subst.
    + exists y; split; assumption.
    + destruct Hstep as [Hh | Hc].
      * exists y2. split; [apply Hd; exact Hh|].
        apply clos_rt_t with x; [exact Hy2x|].
        eapply t_trans; [exact Hxy | apply t_step; left; exact Hh].
      * apply (IH (y :: V)); [apply Hl; exact Hc | right; exact HxV |].
        eapply t_trans; [exact Hxy | apply t_step; right; exact Hc].
Qed.

Lemma okorder_nocycle g o : okorder g o ->
  forall u, In u o -> ~ clos_trans key (E g) u u.
Proof.
  induction 1 as [|k o Hok IH Hn Hd Hl]; intros u Hu Hcyc; [inversion Hu|].
  destruct Hu as [<-|Hu]; [|eapply IH; eauto].
  apply clos_trans_t1n in Hcyc.
  inversion Hcyc as [y Hky | y z Hky Hrest]; subst.
  - (* self loop *)
    destruct Hky as [Hh | Hc].
    + apply Hn, Hd, Hh.
    + specialize (Hl k Hc). inversion Hl; subst; simpl in *; tauto.
  - assert (Hyk : clos_refl_trans key (E g) y k).
    { apply clos_t1n_trans in Hrest. apply clos_trans_in_rt || idtac.
      clear - Hrest. induction Hrest; [apply rt_step; auto | eapply rt_trans; eauto]. }
    destruct Hky as [Hh | Hc].
    + apply (IH y (Hd y Hh)). apply clos_rt_t with k; [exact Hyk | apply t_step; left; exact Hh].
    + destruct (@fc_walk g o k y (clos_rt_rt1n _ _ _ _ Hyk) [k] (Hl y Hc))
        as [u [Hu Hc']]; [left; reflexivity | apply t_step; right; exact Hc|].
      apply (IH u Hu Hc').
Qed.

(* weak dependencies honoured *)
Inductive weakok (g : graph) : list key -> Prop :=
| wk_nil : weakok g []
| wk_cons k o : weakok g o -> incl (weak (find g k)) o -> weakok g (k :: o).

Lemma weakok_spec g o : weakok g o ->
  forall l1 k l2, o = l1 ++ k :: l2 -> incl (weak (find g k)) l2.
Proof.
  induction 1 as [|k o Hok IH Hd]; intros l1 k' l2 Heq.
  - destruct l1; discriminate.
  - destruct l1 as [|a l1]; simpl in Heq; inversion Heq; subst; [exact Hd | eapply IH; eauto].
Qed.

(* ------------------------------------------------------------------ *)
(* state invariants                                                    *)

Definition skeys (s : st) : list key := keys (stack s).

(* relation between consecutive frames: parent p, child c *)
Definition frameR (g : graph) (p c : key * bool) : Prop :=
  F g (fst p) (fst c)
  /\ (snd c = false -> E g (fst p) (fst c))
  /\ (snd p = true -> snd c = true).

Record Inv (g : graph) (s : st) : Prop := {
  inv_nodup : NoDup (skeys s);
  inv_keys : incl (skeys s) (keys g);
  inv_chain : chain (frameR g) (stack s);
  inv_order : okorder g (order s);
  inv_okeys : incl (order s) (keys g);
  inv_disj : forall x, In x (skeys s) -> ~ In x (order s)
}.

(* s' extends s: same stack, order grown by entries not on the stack *)
Definition ext (s s' : st) : Prop :=
  stack s' = stack s /\
  exists new, order s' = new ++ order s.

Lemma ext_refl s : ext s s.
Proof. split; [reflexivity | exists []; reflexivity]. Qed.

Lemma ext_trans a b c : ext a b -> ext b c -> ext a c.
Proof.
  intros [H1 [n1 E1]] [H2 [n2 E2]]. split; [congruence|].
  exists (n2 ++ n1). rewrite E2, E1, app_assoc. reflexivity.
Qed.

Lemma ext_incl s s' : ext s s' -> incl (order s) (order s').
Proof. intros [_ [n ->]]. apply incl_appr, incl_refl. Qed.

Lemma nweak_ext s s' : stack s' = stack s -> nweak s' = nweak s.
Proof. unfold nweak. intros ->. reflexivity. Qed.

Definition top_ok (g : graph) (s : st) (item : key) (wl : bool) : Prop :=
  match stack s with
  | [] => True
  | p :: _ => frameR g p (item, wl)
  end.

Lemma nweak0_all s : nweak s = 0 -> forall f, In f (stack s) -> snd f = false.
Proof.
  unfold nweak. intros H f Hf.
  destruct (snd f) eqn:Hs; [|reflexivity].
  assert (In f (filter (fun f => snd f) (stack s))) by (apply filter_In; auto).
  destruct (filter _ (stack s)); [contradiction | discriminate].
Qed.

Lemma chain_E g l : chain (frameR g) l -> (forall f, In f l -> snd f = false) ->
  chain (E g) (keys l).
Proof.
  induction l as [|c l IH]; intros Hc Hall; [exact I|].
  destruct l as [|p l]; [exact I|].
  simpl in Hc. destruct Hc as [[_ [HE _]] Hc].
  simpl. split.
  - apply HE. apply Hall. left; reflexivity.
  - apply IH; [exact Hc | intros f Hf; apply Hall; right; exact Hf].
Qed.

Lemma chain_F g l : chain (frameR g) l -> chain (F g) (keys l).
Proof.
  induction l as [|c l IH]; intros Hc; [exact I|].
  destruct l as [|p l]; [exact I|].
  simpl in Hc. destruct Hc as [[HF _] Hc]. simpl. split; [exact HF | apply IH; exact Hc].
Qed.

(* weak flags are monotone along the stack: if any frame is weak, the top is *)
Lemma mono_top g l : chain (frameR g) l ->
  forall f, In f l -> snd f = true ->
  match l with [] => True | t :: _ => snd t = true end.
Proof.
  induction l as [|c l IH]; intros Hc f Hf Hs; [exact I|].
  destruct Hf as [->|Hf]; [exact Hs|].
  destruct l as [|p l]; [inversion Hf|].
  simpl in Hc. destruct Hc as [[_ [_ Hm]] Hc].
  apply Hm. apply (IH Hc f Hf Hs).
Qed.

Lemma nweak_pos_top g s : chain (frameR g) (stack s) -> nweak s <> 0 ->
  match stack s with [] => False | t :: _ => snd t = true end.
Proof.
  intros Hc Hn. unfold nweak in Hn.
  destruct (filter (fun f => snd f) (stack s)) as [|f fs] eqn:Hf; [contradiction|].
  assert (Hin : In f (filter (fun f => snd f) (stack s))) by (rewrite Hf; left; reflexivity).
  apply filter_In in Hin. destruct Hin as [Hin Hs].
  pose proof (mono_top g _ Hc f Hin Hs) as H.
  destruct (stack s); [inversion Hin | exact H].
Qed.

(* ------------------------------------------------------------------ *)
(* the specification of one visit                                      *)

Definition swallow_pos (s : st) (wl : bool) : Prop := wl = true /\ nweak s = 0.

Record Post (g : graph) (s : st) (item : key) (fc wl : bool) (s' : st) (r : res) : Prop := {
  post_fuel : r <> RFuel;
  post_ext : ext s s';
  post_inv : Inv g s';
  post_in : r = ROk -> fc = false -> ~ swallow_pos s wl -> In item (order s');
  post_fc : r = ROk -> fc = true -> ~ swallow_pos s wl -> fcdone g (order s') (skeys s) item;
  post_cycE : forall c, r = RCycle c -> nweak s = 0 -> wl = false -> cyclic (E g);
  post_cycF : forall c, r = RCycle c -> cyclic (F g);
  post_acyc : ~ cyclic (F g) -> weakok g (order s) ->
              r = ROk /\ weakok g (order s') /\ (fc = false -> In item (order s'))
}.

Definition Pre (g : graph) (fuel : nat) (s : st) (item : key) (wl : bool) : Prop :=
  Inv g s /\ In item (keys g) /\ top_ok g s item wl /\ length g < fuel + length (stack s).

(* ---- loops ---- *)

Record LoopPost (g : graph) (s : st) (L : list key) (fc wl : bool) (s' : st) (r : res) : Prop := {
  lp_fuel : r <> RFuel;
  lp_ext : ext s s';
  lp_inv : Inv g s';
  lp_in : r = ROk -> fc = false -> ~ swallow_pos s wl -> forall n, In n L -> In n (order s');
  lp_fc : r = ROk -> fc = true -> ~ swallow_pos s wl ->
          forall n, In n L -> fcdone g (order s') (skeys s) n;
  lp_cycE : forall c, r = RCycle c -> nweak s = 0 -> wl = false -> cyclic (E g);
  lp_cycF : forall c, r = RCycle c -> cyclic (F g);
  lp_acyc : ~ cyclic (F g) -> weakok g (order s) ->
            r = ROk /\ weakok g (order s') /\ (fc = false -> forall n, In n L -> In n (order s'))
}.

Record WeakPost (g : graph) (s : st) (L : list key) (s' : st) (r : res) : Prop := {
  wp_fuel : r <> RFuel;
  wp_ext : ext s s';
  wp_inv : Inv g s';
  wp_cyc : forall c, r = RCycle c -> nweak s <> 0 /\ cyclic (F g);
  wp_acyc : ~ cyclic (F g) -> weakok g (order s) ->
            r = ROk /\ weakok g (order s') /\ (forall n, In n L -> In n (order s'))
}.

Lemma swallow_ext s s' wl : stack s' = stack s -> (swallow_pos s' wl <-> swallow_pos s wl).
Proof. intros H. unfold swallow_pos. rewrite (nweak_ext _ _ H). tauto. Qed.

Section Step.
  Variable g : graph.
  Variable f : nat.
  Hypothesis IHf : forall s item fc wl, Pre g f s item wl ->
    Post g s item fc wl (fst (visit f g s item fc wl)) (snd (visit f g s item fc wl)).

  Lemma iter_spec (p : key * bool) (fc wl : bool) (L : list key) :
    (forall n, In n L -> In n (keys g) /\ frameR g p (n, wl)) ->
    forall s stk, stack s = p :: stk -> Inv g s -> length g < f + length (stack s) ->
    LoopPost g s L fc wl (fst (iter (fun s n => visit f g s n fc wl) L s))
                         (snd (iter (fun s n => visit f g s n fc wl) L s)).
  Proof.
    induction L as [|n L IHL]; intros HL s stk Hstk Hinv Hfuel.
    - simpl. constructor.
      + discriminate.
      + apply ext_refl.
      + exact Hinv.
      + intros _ _ _ ? [].
      + intros _ _ _ ? [].
      + intros; discriminate.
      + intros; discriminate.
      + intros _ Hw. repeat split; auto. intros _ ? [].
    - simpl.
      assert (Hpre : Pre g f s n wl).
      { destruct (HL n (or_introl eq_refl)) as [Hk Hfr].
        unfold Pre. split; [exact Hinv|]. split; [exact Hk|].
        split; [unfold top_ok; rewrite Hstk; exact Hfr | exact Hfuel]. }
      pose proof (IHf s n fc wl Hpre) as P.
      destruct (visit f g s n fc wl) as [s1 r1] eqn:Hv. simpl in P.
      destruct P as [Pfuel Pext Pinv Pin Pfc PcE PcF Pac].
      destruct r1 as [|c|]; [| |congruence].
      + (* child ok, continue *)
        assert (Hs1 : stack s1 = stack s) by (apply Pext).
        specialize (IHL (fun n' Hn' => HL n' (or_intror Hn')) s1 stk).
        rewrite Hs1 in IHL. specialize (IHL Hstk Pinv Hfuel).
        destruct (iter (fun s n => visit f g s n fc wl) L s1) as [s' r] eqn:Hit. simpl in *.
        destruct IHL as [Lfuel Lext Linv Lin Lfc LcE LcF Lac].
        assert (Hsw : swallow_pos s1 wl <-> swallow_pos s wl) by (apply swallow_ext; exact Hs1).
        assert (Hsk : skeys s1 = skeys s) by (unfold skeys; rewrite Hs1; reflexivity).
        constructor; auto.
        * eapply ext_trans; eauto.
        * intros Hr Hfc Hns n' [<-|Hn'].
          -- apply (ext_incl _ _ Lext). apply Pin; auto.
          -- apply Lin; auto. rewrite Hsw; exact Hns.
        * intros Hr Hfc Hns n' [<-|Hn'].
          -- eapply fcdone_mono; [apply Pfc; auto | apply (ext_incl _ _ Lext) | apply incl_refl].
          -- rewrite <- Hsk. apply Lfc; auto. rewrite Hsw; exact Hns.
        * intros c Hr Hn Hw. eapply LcE; eauto. rewrite (nweak_ext _ _ Hs1). exact Hn.
        * intros Hac Hwk. destruct (Pac Hac Hwk) as [_ [Hwk1 Hin1]].
          destruct (Lac Hac Hwk1) as [Hr [Hwk' Hin']].
          repeat split; auto. intros Hfc n' [<-|Hn'].
          -- apply (ext_incl _ _ Lext). auto.
          -- auto.
      + (* child raised *)
        simpl. constructor.
        * discriminate.
        * exact Pext.
        * exact Pinv.
        * intros; discriminate.
        * intros; discriminate.
        * intros c0 Hr. eapply PcE; eauto.
        * intros c0 Hr. eapply PcF; eauto.
        * intros Hac Hwk. destruct (Pac Hac Hwk) as [Hr _]. discriminate.
  Qed.

  Lemma iter_weak_spec (p : key * bool) (L : list key) :
    (forall n, In n L -> In n (keys g) /\ frameR g p (n, true)) ->
    forall s stk, stack s = p :: stk -> Inv g s -> length g < f + length (stack s) ->
    WeakPost g s L (fst (iter_weak (fun s n => visit f g s n false true) L s))
                   (snd (iter_weak (fun s n => visit f g s n false true) L s)).
  Proof.
    induction L as [|n L IHL]; intros HL s stk Hstk Hinv Hfuel.
    - simpl. constructor; auto.
      + discriminate.
      + apply ext_refl.
      + intros; discriminate.
      + intros _ Hw. repeat split; auto. intros ? [].
    - simpl.
      assert (Hpre : Pre g f s n true).
      { destruct (HL n (or_introl eq_refl)) as [Hk Hfr].
        unfold Pre. split; [exact Hinv|]. split; [exact Hk|].
        split; [unfold top_ok; rewrite Hstk; exact Hfr | exact Hfuel]. }
      pose proof (IHf s n false true Hpre) as P.
      destruct (visit f g s n false true) as [s1 r1] eqn:Hv. simpl in P.
      destruct P as [Pfuel Pext Pinv Pin Pfc PcE PcF Pac].
      assert (Hs1 : stack s1 = stack s) by (apply Pext).
      assert (Hcont : forall (Hok : ~ cyclic (F g) -> weakok g (order s) ->
                                   weakok g (order s1) /\ In n (order s1)),
        WeakPost g s (n :: L) (fst (iter_weak (fun s n => visit f g s n false true) L s1))
                              (snd (iter_weak (fun s n => visit f g s n false true) L s1))).
      { intros Hok.
        specialize (IHL (fun n' Hn' => HL n' (or_intror Hn')) s1 stk).
        rewrite Hs1 in IHL. specialize (IHL Hstk Pinv Hfuel).
        destruct (iter_weak (fun s n => visit f g s n false true) L s1) as [s' r] eqn:Hit.
        simpl in *. destruct IHL as [Lfuel Lext Linv Lcyc Lac].
        constructor; auto.
        - eapply ext_trans; eauto.
        - intros c Hr. rewrite <- (nweak_ext _ _ Hs1). eapply Lcyc; eauto.
        - intros Hac Hwk. destruct (Hok Hac Hwk) as [Hwk1 Hin1].
          destruct (Lac Hac Hwk1) as [Hr [Hwk' Hin']].
          repeat split; auto. intros n' [<-|Hn']; [apply (ext_incl _ _ Lext); auto | auto]. }
      destruct r1 as [|c|]; [| |congruence].
      + apply Hcont. intros Hac Hwk. destruct (Pac Hac Hwk) as [_ [? ?]]. auto.
      + destruct (Nat.eqb (nweak s1) 0) eqn:Hnw.
        * apply Hcont. intros Hac Hwk. destruct (Pac Hac Hwk) as [Hr _]. discriminate.
        * simpl. apply Nat.eqb_neq in Hnw. rewrite (nweak_ext _ _ Hs1) in Hnw.
          constructor; auto.
          -- intros c0 _. split; [exact Hnw | eapply PcF; eauto].
          -- intros Hac Hwk. destruct (Pac Hac Hwk) as [Hr _]. discriminate.
  Qed.
End Step.

(* ------------------------------------------------------------------ *)
(* frame-level lemmas                                                  *)

Lemma nweak_push item wl s : nweak (push item wl s) = if wl then S (nweak s) else nweak s.
Proof. unfold nweak, push; simpl. destruct wl; reflexivity. Qed.

Lemma keys_len {A} (g : list (key * A)) : length (keys g) = length g.
Proof. unfold keys. apply map_length. Qed.

Lemma Inv_push g s item wl :
  Inv g s -> In item (keys g) -> top_ok g s item wl ->
  ~ In item (skeys s) -> ~ In item (order s) -> Inv g (push item wl s).
Proof.
  intros [Hnd Hks Hch Hok Hoks Hdj] Hk Htop Hns Hno.
  constructor; unfold skeys, push in *; simpl.
  - constructor; assumption.
  - intros x [<-|Hx]; auto.
  - unfold top_ok in Htop. destruct (stack s); [exact I | split; assumption].
  - exact Hok.
  - exact Hoks.
  - intros x [<-|Hx]; auto.
Qed.

(* not swallow-able unless this is the first weak frame *)
Lemma first_weak g s item wl :
  Inv g s -> top_ok g s item wl -> nweak (push item wl s) = 1 -> swallow_pos s wl.
Proof.
  intros Hinv Htop Hn. rewrite nweak_push in Hn. unfold swallow_pos.
  destruct wl; [split; [reflexivity | lia]|].
  exfalso.
  assert (Hne : nweak s <> 0) by lia.
  pose proof (nweak_pos_top g s (inv_chain _ _ Hinv) Hne) as Ht.
  unfold top_ok in Htop. destruct (stack s) as [|t l]; [exact Ht|].
  destruct Htop as [_ [_ Hm]]. specialize (Hm Ht). discriminate.
Qed.

Lemma raise_post g s item fc wl sb c :
  Inv g s -> top_ok g s item wl ->
  ext (push item wl s) sb -> Inv g sb ->
  cyclic (F g) -> (nweak (push item wl s) = 0 -> wl = false -> cyclic (E g)) ->
  Post g s item fc wl (pop sb) (if Nat.eqb (nweak sb) 1 then ROk else RCycle c).
Proof.
  intros Hinv Htop Hext Hinvb HcF HcE.
  assert (Hstk : stack sb = (item, wl) :: stack s) by (destruct Hext as [H _]; exact H).
  assert (Hnw : nweak sb = nweak (push item wl s)) by (apply nweak_ext; exact Hstk).
  destruct Hext as [_ [new Hord]]. simpl in Hord.
  assert (Hext' : ext s (pop sb)).
  { split; [unfold pop; simpl; rewrite Hstk; reflexivity | exists new; exact Hord]. }
  assert (Hinv' : Inv g (pop sb)).
  { destruct Hinv as [Hnd Hks Hch Hok Hoks Hdj].
    destruct Hinvb as [Hnd' Hks' Hch' Hok' Hoks' Hdj'].
    constructor; unfold skeys, pop in *; simpl; rewrite ?Hstk; simpl; auto.
    intros x Hx. apply Hdj'. rewrite Hstk. right. exact Hx. }
  destruct (Nat.eqb (nweak sb) 1) eqn:Hq.
  - apply Nat.eqb_eq in Hq. rewrite Hnw in Hq.
    pose proof (first_weak g s item wl Hinv Htop Hq) as Hsw.
    constructor; auto; try discriminate; try (intros; contradiction).
  - constructor; auto; try discriminate.
    + intros c0 _ Hn Hw. apply HcE; [rewrite nweak_push, Hw; exact Hn | exact Hw].
    + intros Hac _. contradiction.
Qed.

Lemma closed_F g : closed g -> forall a b, F g a b -> In b (keys g).
Proof. intros H a b Hf. apply (H a b Hf). Qed.

(* ------------------------------------------------------------------ *)
(* the main lemma                                                      *)

Lemma visit_spec g : wf g -> forall fuel s item fc wl, Pre g fuel s item wl ->
  Post g s item fc wl (fst (visit fuel g s item fc wl)) (snd (visit fuel g s item fc wl)).
Proof.
  intros [Hnd Hcl]. induction fuel as [|f IHf]; intros s item fc wl [Hinv [Hk [Htop Hfuel]]].
  - exfalso.
    pose proof (NoDup_incl_length (inv_nodup _ _ Hinv) (inv_keys _ _ Hinv)) as Hl.
    unfold skeys in Hl. rewrite !keys_len in Hl. lia.
  - simpl. destruct (memk item (keys (stack s))) eqn:Hst.
    + (* raise CycleError *)
      apply memk_In in Hst. simpl.
      assert (HF : cyclic (F g)).
      { destruct (stack s) as [|t l] eqn:Hs; [inversion Hst|].
        exists item. pose proof (chain_F g _ (inv_chain _ _ Hinv)) as Hc. rewrite Hs in Hc.
        unfold top_ok in Htop. rewrite Hs in Htop. destruct Htop as [Hf _].
        eapply chain_cycle; [exact Hc | exact Hst | exact Hf]. }
      constructor; auto; try discriminate.
      * apply ext_refl.
      * intros c _ Hn Hw. subst wl.
        destruct (stack s) as [|t l] eqn:Hs; [inversion Hst|].
        exists item.
        assert (Hall : forall fr, In fr (stack s) -> snd fr = false) by (apply nweak0_all; exact Hn).
        pose proof (chain_E g _ (inv_chain _ _ Hinv) Hall) as Hc. rewrite Hs in Hc.
        unfold top_ok in Htop. rewrite Hs in Htop. destruct Htop as [_ [He _]].
        eapply chain_cycle; [exact Hc | exact Hst | apply He; reflexivity].
      * intros Hac _. contradiction.
    + apply memk_nIn in Hst. destruct (memk item (order s)) eqn:Hord.
      * (* already visited *)
        apply memk_In in Hord. simpl. constructor; auto; try discriminate.
        -- apply ext_refl.
        -- intros _ _ _. apply fc_in; assumption.
      * apply memk_nIn in Hord.
        set (nd := find g item). set (s1 := push item wl s).
        assert (Hinv1 : Inv g s1) by (apply Inv_push; assumption).
        assert (Hfuel1 : length g < f + length (stack s1)) by (unfold s1, push; simpl; lia).
        assert (Hwk : forall n, In n (weak nd) -> In n (keys g) /\ frameR g (item, wl) (n, true)).
        { intros n Hn. assert (F g item n) by (right; right; exact Hn).
          split; [eapply closed_F; eauto|]. split; [assumption|]. split; [discriminate | reflexivity]. }
        assert (Hdp : forall n, In n (deps nd) -> In n (keys g) /\ frameR g (item, wl) (n, wl)).
        { intros n Hn. assert (F g item n) by (left; exact Hn).
          split; [eapply closed_F; eauto|]. split; [assumption|].
          split; [intros _; left; exact Hn | trivial]. }
        assert (Hlc : forall n, In n (lctl nd) -> In n (keys g) /\ frameR g (item, wl) (n, wl)).
        { intros n Hn. assert (F g item n) by (right; left; exact Hn).
          split; [eapply closed_F; eauto|]. split; [assumption|].
          split; [intros _; right; exact Hn | trivial]. }
        pose proof (iter_weak_spec g f IHf (item, wl) (weak nd) Hwk s1 (stack s) eq_refl Hinv1 Hfuel1) as W.
        destruct (iter_weak (fun s n => visit f g s n false true) (weak nd) s1) as [s2 r2] eqn:Hw.
        simpl in W. destruct W as [Wfuel Wext Winv Wcyc Wac].
        assert (Hs2 : stack s2 = (item, wl) :: stack s) by (destruct Wext as [H _]; exact H).
        destruct r2 as [|c|]; [| |congruence].
        2:{ (* weak loop re-raised *)
            destruct (Wcyc c eq_refl) as [Hn HF].
            apply raise_post; auto. intros H0. contradiction. }
        assert (Hfuel2 : length g < f + length (stack s2)) by (rewrite Hs2; exact Hfuel1).
        pose proof (iter_spec g f IHf (item, wl) false wl (deps nd) Hdp s2 (stack s) Hs2 Winv Hfuel2) as D.
        destruct (iter (fun s n => visit f g s n false wl) (deps nd) s2) as [s3 r3] eqn:Hd.
        simpl in D. destruct D as [Dfuel Dext Dinv Din Dfc DcE DcF Dac].
        assert (Hs3 : stack s3 = (item, wl) :: stack s) by (destruct Dext as [H _]; rewrite H; exact Hs2).
        assert (Hn2 : nweak s2 = nweak s1) by (apply nweak_ext; exact Hs2).
        assert (Hn3 : nweak s3 = nweak s1) by (apply nweak_ext; exact Hs3).
        assert (H12 : ext s1 s3) by (eapply ext_trans; eauto).
        destruct r3 as [|c|]; [| |congruence].
        2:{ apply raise_post; auto.
            - eapply DcF; eauto.
            - intros H0 Hwl. eapply DcE; eauto. rewrite Hn2. exact H0. }
        assert (Hfuel3 : length g < f + length (stack s3)) by (rewrite Hs3; exact Hfuel1).
        pose proof (iter_spec g f IHf (item, wl) true wl (lctl nd) Hlc s3 (stack s) Hs3 Dinv Hfuel3) as C.
        destruct (iter (fun s n => visit f g s n true wl) (lctl nd) s3) as [s4 r4] eqn:Hc.
        simpl in C. destruct C as [Cfuel Cext Cinv Cin Cfc CcE CcF Cac].
        assert (Hs4 : stack s4 = (item, wl) :: stack s) by (destruct Cext as [H _]; rewrite H; exact Hs3).
        assert (H14 : ext s1 s4) by (eapply ext_trans; eauto).
        destruct r4 as [|c|]; [| |congruence].
        2:{ apply raise_post; auto.
            - eapply CcF; eauto.
            - intros H0 Hwl. eapply CcE; eauto. rewrite Hn3. exact H0. }
        (* the frame completes normally *)
        assert (Hnsw2 : ~ swallow_pos s2 wl).
        { unfold swallow_pos. rewrite Hn2. unfold s1. rewrite nweak_push.
          destruct wl; [intros [_ H0]; discriminate | intros [H0 _]; discriminate]. }
        assert (Hnsw3 : ~ swallow_pos s3 wl).
        { unfold swallow_pos. rewrite Hn3. unfold s1. rewrite nweak_push.
          destruct wl; [intros [_ H0]; discriminate | intros [H0 _]; discriminate]. }
        assert (Hdeps4 : incl (deps nd) (order s4)).
        { intros d Hd'. apply (ext_incl _ _ Cext). apply Din; auto. }
        assert (Hsk3 : skeys s3 = item :: skeys s) by (unfold skeys; rewrite Hs3; reflexivity).
        assert (Hlc4 : forall z, In z (lctl nd) -> fcdone g (order s4) (item :: skeys s) z).
        { intros z Hz. rewrite <- Hsk3. apply Cfc; auto. }
        assert (Hitem4 : ~ In item (order s4)).
        { apply (inv_disj _ _ Cinv). unfold skeys. rewrite Hs4. left; reflexivity. }
        destruct H14 as [_ [new Hnew]]. simpl in Hnew.
        set (sb := if fc then s4 else append item s4).
        assert (Hsb : stack sb = (item, wl) :: stack s) by (unfold sb; destruct fc; simpl; exact Hs4).
        assert (Hob : exists nw, order sb = nw ++ order s).
        { unfold sb; destruct fc; simpl; [exists new; exact Hnew|].
          exists (item :: new). rewrite Hnew. reflexivity. }
        change (Post g s item fc wl (pop sb)
                  (match ROk with RCycle _ => if Nat.eqb (nweak sb) 1 then ROk else ROk | _ => ROk end)).
        simpl.
        destruct Hinv as [Hnd0 Hks0 Hch0 Hok0 Hoks0 Hdj0].
        destruct Cinv as [Hnd4 Hks4 Hch4 Hok4 Hoks4 Hdj4].
        assert (Hokb : okorder g (order sb)).
        { unfold sb; destruct fc; simpl; [exact Hok4|].
          apply ok_cons; auto.
          intros z Hz. eapply fcdone_mono; [apply Hlc4; exact Hz | apply incl_refl|].
          intros a [<-|[]]. left; reflexivity. }
        constructor.
        -- discriminate.
        -- split; [unfold pop; simpl; rewrite Hsb; reflexivity | exact Hob].
        -- constructor; unfold skeys, pop; simpl; rewrite ?Hsb; simpl; auto.
           ++ unfold sb; destruct fc; simpl; [exact Hoks4|]. intros x [<-|Hx]; auto.
           ++ intros x Hx. unfold sb; destruct fc; simpl.
              ** apply Hdj4. unfold skeys. rewrite Hs4. right; exact Hx.
              ** intros [<-|Hx']; [apply Hst; exact Hx|].
                 revert Hx'. apply Hdj4. unfold skeys. rewrite Hs4. right; exact Hx.
        -- intros _ Hfc _. subst fc. simpl. left; reflexivity.
        -- intros _ Hfc _. subst fc. simpl. apply fc_step; auto.
        -- intros; discriminate.
        -- intros; discriminate.
        -- intros Hac Hwk0.
           destruct (Wac Hac Hwk0) as [_ [Hwk2 Hin2]].
           destruct (Dac Hac Hwk2) as [_ [Hwk3 _]].
           destruct (Cac Hac Hwk3) as [_ [Hwk4 _]].
           split; [reflexivity|]. unfold sb; destruct fc; simpl.
           ++ split; [exact Hwk4 | intros; discriminate].
           ++ split; [|intros _; left; reflexivity].
              apply wk_cons; [exact Hwk4|].
              intros w Hw'. apply (ext_incl _ _ Cext), (ext_incl _ _ Dext). apply Hin2. exact Hw'.
Qed.

(* ------------------------------------------------------------------ *)
(* top level: the loop over graph keys                                 *)

Record TopPost (g : graph) (s : st) (L : list key) (s' : st) (r : res) : Prop := {
  tp_fuel : r <> RFuel;
  tp_ext : ext s s';
  tp_inv : Inv g s';
  tp_in : r = ROk -> forall n, In n L -> In n (order s');
  tp_cyc : forall c, r = RCycle c -> cyclic (E g);
  tp_acyc : ~ cyclic (F g) -> weakok g (order s) -> r = ROk /\ weakok g (order s')
}.

Lemma top_spec g : wf g -> forall L, incl L (keys g) ->
  forall s, stack s = [] -> Inv g s ->
  TopPost g s L (fst (iter (fun s k => visit (S (length g)) g s k false false) L s))
                (snd (iter (fun s k => visit (S (length g)) g s k false false) L s)).
Proof.
  intros Hwf. induction L as [|n L IHL]; intros HL s Hstk Hinv.
  - cbn [iter fst snd]. constructor; auto; try discriminate.
    + apply ext_refl.
    + intros _ ? [].
  - cbn [iter].
    assert (Hpre : Pre g (S (length g)) s n false).
    { unfold Pre. split; [exact Hinv|]. split; [apply HL; left; reflexivity|].
      split; [unfold top_ok; rewrite Hstk; exact I | rewrite Hstk; simpl; lia]. }
    pose proof (visit_spec g Hwf (S (length g)) s n false false Hpre) as P.
    destruct (visit (S (length g)) g s n false false) as [s1 r1] eqn:Hv.
    cbn [fst snd] in P.
    destruct P as [Pfuel Pext Pinv Pin Pfc PcE PcF Pac].
    assert (Hs1 : stack s1 = []) by (destruct Pext as [H _]; rewrite H; exact Hstk).
    assert (Hnw : nweak s = 0) by (unfold nweak; rewrite Hstk; reflexivity).
    destruct r1 as [|c|]; [| |congruence].
    + specialize (IHL (fun x Hx => HL x (or_intror Hx)) s1 Hs1 Pinv).
      destruct (iter (fun s k => visit (S (length g)) g s k false false) L s1) as [s' r] eqn:Hit.
      cbn [fst snd] in *. destruct IHL as [Lfuel Lext Linv Lin Lcyc Lac].
      constructor; auto.
      * eapply ext_trans; eauto.
      * intros Hr n' [<-|Hn']; [|auto].
        apply (ext_incl _ _ Lext). apply Pin; auto. intros [H _]; discriminate.
      * intros Hac Hwk. destruct (Pac Hac Hwk) as [_ [Hwk1 _]]. apply Lac; auto.
    + cbn [fst snd]. constructor; auto; try discriminate.
      * intros c0 _. eapply PcE; eauto.
      * intros Hac Hwk. destruct (Pac Hac Hwk) as [Hr _]. discriminate.
Qed.

Lemma Inv_init g : Inv g init.
Proof.
  constructor; unfold skeys, init; simpl; try constructor; intros x [].
Qed.

Definition before (a b : key) (o : list key) : Prop :=
  exists l1 l2 l3, o = l1 ++ a :: l2 ++ b :: l3.

Lemma before_rev (P : key -> list key) ord :
  forall k d l1 l2, ord = l1 ++ k :: l2 -> In d l2 -> before d k (rev ord).
Proof.
  intros k d l1 l2 -> Hd. apply in_split in Hd. destruct Hd as [m1 [m2 ->]].
  exists (rev m2), (rev m1), (rev l1).
  rewrite rev_app_distr. simpl. rewrite rev_app_distr. simpl.
  rewrite <- !app_assoc. simpl. reflexivity.
Qed.

(* everything about a completed run, in one place *)
Lemma sort_resolved_spec g : wf g ->
  match sort_resolved g with
  | Sorted o => Permutation o (keys g)
                /\ (forall k d, hard g k d -> before d k o)
                /\ ~ cyclic (E g)
                /\ (~ cyclic (F g) -> forall k d, soft g k d -> before d k o)
  | Cycle c => cyclic (E g)
  | Unresolved _ _ => False
  | Fuel => False
  end.
Proof.
  intros Hwf. unfold sort_resolved.
  pose proof (top_spec g Hwf (keys g) (incl_refl _) init eq_refl (Inv_init g)) as T.
  destruct (iter (fun s k => visit (S (length g)) g s k false false) (keys g) init) as [s r] eqn:Hit.
  cbn [fst snd] in T. destruct T as [Tfuel Text Tinv Tin Tcyc Tac].
  destruct r as [|c|]; [| eapply Tcyc; eauto | congruence].
  specialize (Tin eq_refl).
  destruct Tinv as [_ _ _ Hok Hoks _].
  destruct Hwf as [Hnd Hcl].
  assert (Hkin : forall a b, F g a b -> In a (order s)).
  { intros a b Hf. apply Tin. apply (Hcl a b Hf). }
  split; [|split; [|split]].
  - apply NoDup_Permutation.
    + apply NoDup_rev. apply okorder_NoDup with g. exact Hok.
    + exact Hnd.
    + intros x. rewrite <- in_rev. split; [apply Hoks | apply Tin].
  - intros k d Hh.
    assert (Hk : In k (order s)) by (apply (Hkin k d); left; exact Hh).
    apply in_split in Hk. destruct Hk as [l1 [l2 Heq]].
    eapply (before_rev (fun _ => [])); [exact Heq|].
    eapply okorder_hard; eauto.
  - intros [x Hx].
    assert (Hxin : In x (order s)).
    { apply clos_trans_t1n in Hx.
      assert (Hex : exists y, E g x y) by (inversion Hx; eauto).
      destruct Hex as [y Hxy].
      apply (Hkin x y); destruct Hxy as [H|H]; [left; exact H | right; left; exact H]. }
    eapply okorder_nocycle; eauto.
  - intros Hac k d Hs.
    destruct (Tac Hac (wk_nil g)) as [_ Hwk].
    assert (Hk : In k (order s)) by (apply (Hkin k d); right; right; exact Hs).
    apply in_split in Hk. destruct Hk as [l1 [l2 Heq]].
    eapply (before_rev (fun _ => [])); [exact Heq|].
    eapply weakok_spec; eauto.
Qed.

(* ------------------------------------------------------------------ *)
(* the pre-pass: raw graph -> resolved adjacency                       *)

Definition mlist (rn : rnode) : list key := match r_merge rn with Some m => m | None => [] end.
Definition refs (rn : rnode) : list key := r_weak rn ++ mlist rn ++ r_deps rn ++ r_lctl rn.

Lemma oset_add_In acc d x : In x (oset_add acc d) <-> In x acc \/ x = d.
Proof.
  unfold oset_add. destruct (memk d acc) eqn:Hm.
  - apply memk_In in Hm. split; [auto | intros [H| ->]; auto].
  - rewrite in_app_iff. simpl. intuition.
Qed.

Lemma resolve_list_spec ks allow l : forall acc,
  match resolve_list ks allow l acc with
  | inl acc' => (allow = true \/ incl l ks) /\
                (forall x, In x acc' <-> In x acc \/ (In x l /\ In x ks))
  | inr d => allow = false /\ In d l /\ ~ In d ks
  end.
Proof.
  induction l as [|d l IH]; intros acc; simpl.
  - split; [right; intros ? [] | intros x; intuition].
  - destruct (memk d ks) eqn:Hm.
    + apply memk_In in Hm. specialize (IH (oset_add acc d)).
      destruct (resolve_list ks allow l (oset_add acc d)) as [acc'|e].
      * destruct IH as [Ha Hx]. split.
        -- destruct Ha as [Ha|Ha]; [left; exact Ha | right; intros y [<-|Hy]; auto].
        -- intros x. rewrite Hx, oset_add_In. split.
           ++ intros [[H| ->]|[H1 H2]]; auto.
           ++ intros [H|[[<-|H1] H2]]; auto.
      * destruct IH as [Ha [Hi Hn]]. auto.
    + apply memk_nIn in Hm. destruct allow.
      * specialize (IH acc). destruct (resolve_list ks true l acc) as [acc'|e].
        -- destruct IH as [_ Hx]. split; [left; reflexivity|].
           intros x. rewrite Hx. split.
           ++ intros [H|[H1 H2]]; auto.
           ++ intros [H|[[<-|H1] H2]]; auto. contradiction.
        -- destruct IH as [Ha _]. discriminate.
      * auto.
Qed.

Lemma resolve_node_spec ks allow rn :
  match resolve_node ks allow rn with
  | inl n => (allow = true \/ incl (refs rn) ks) /\
             (forall x, In x (weak n) <-> In x (r_weak rn) /\ In x ks) /\
             (forall x, In x (deps n) <-> (In x (mlist rn) \/ In x (r_deps rn)) /\ In x ks) /\
             (forall x, In x (lctl n) <-> In x (r_lctl rn) /\ In x ks)
  | inr d => allow = false /\ In d (refs rn) /\ ~ In d ks
  end.
Proof.
  unfold resolve_node, refs. fold (mlist rn).
  pose proof (resolve_list_spec ks allow (r_weak rn) []) as H1.
  destruct (resolve_list ks allow (r_weak rn) []) as [w|e];
    [|destruct H1 as [? [? ?]]; rewrite !in_app_iff; tauto].
  pose proof (resolve_list_spec ks allow (mlist rn) []) as H2.
  destruct (resolve_list ks allow (mlist rn) []) as [a1|e];
    [|destruct H2 as [? [? ?]]; rewrite !in_app_iff; tauto].
  pose proof (resolve_list_spec ks allow (r_deps rn) a1) as H3.
  destruct (resolve_list ks allow (r_deps rn) a1) as [a2|e];
    [|destruct H3 as [? [? ?]]; rewrite !in_app_iff; tauto].
  pose proof (resolve_list_spec ks allow (r_lctl rn) []) as H4.
  destruct (resolve_list ks allow (r_lctl rn) []) as [c|e];
    [|destruct H4 as [? [? ?]]; rewrite !in_app_iff; tauto].
  destruct H1 as [A1 X1], H2 as [A2 X2], H3 as [A3 X3], H4 as [A4 X4]. simpl.
  split; [|split; [|split]].
  - destruct A1 as [?|A1]; auto. destruct A2 as [?|A2]; auto.
    destruct A3 as [?|A3]; auto. destruct A4 as [?|A4]; auto.
    right. intros x. rewrite !in_app_iff. intros [H|[H|[H|H]]]; auto.
  - intros x. rewrite X1. simpl. tauto.
  - intros x. rewrite X3, X2. simpl. tauto.
  - intros x. rewrite X4. simpl. tauto.
Qed.

Lemma prepass_spec ks allow rg :
  match prepass ks allow rg with
  | inl g => keys g = keys rg /\
             (allow = true \/ forall k rn, In (k, rn) rg -> incl (refs rn) ks) /\
             (forall k n, In (k, n) g ->
                exists rn, In (k, rn) rg /\ resolve_node ks allow rn = inl n) /\
             (forall k rn, In (k, rn) rg ->
                exists n, In (k, n) g /\ resolve_node ks allow rn = inl n)
  | inr (d, k) => allow = false /\ exists rn, In (k, rn) rg /\ In d (refs rn) /\ ~ In d ks
  end.
Proof.
  induction rg as [|[k rn] rg IH]; simpl.
  - split; [reflexivity|]. split; [right; intros ? ? []|]. split; intros ? ? [].
  - pose proof (resolve_node_spec ks allow rn) as Hn.
    destruct (resolve_node ks allow rn) as [n|d] eqn:Hr.
    + destruct (prepass ks allow rg) as [g|[d k']].
      * destruct IH as [Hk [Ha [H1 H2]]]. destruct Hn as [Hna _].
        split; [simpl; rewrite Hk; reflexivity|]. split; [|split].
        -- destruct Ha as [?|Ha]; auto. destruct Hna as [?|Hna]; auto.
           right. intros k0 rn0 [Heq|Hin]; [inversion Heq; subst; exact Hna | eapply Ha; eauto].
        -- intros k0 n0 [Heq|Hin].
           ++ inversion Heq; subst. exists rn. split; [left; reflexivity | exact Hr].
           ++ destruct (H1 _ _ Hin) as [rn0 [? ?]]. exists rn0. split; [right|]; assumption.
        -- intros k0 rn0 [Heq|Hin].
           ++ inversion Heq; subst. exists n. split; [left; reflexivity | exact Hr].
           ++ destruct (H2 _ _ Hin) as [n0 [? ?]]. exists n0. split; [right|]; assumption.
      * destruct IH as [Ha [rn0 [? ?]]]. split; [exact Ha|]. exists rn0. split; [right|]; assumption.
    + destruct Hn as [Ha [? ?]]. split; [exact Ha|]. exists rn. split; [left; reflexivity | auto].
Qed.

Lemma find_In g k n : NoDup (keys g) -> In (k, n) g -> find g k = n.
Proof.
  induction g as [|[k' n'] g IH]; intros Hnd Hin; [inversion Hin|].
  simpl in *. inversion Hnd as [|? ? Hni Hnd']; subst.
  destruct Hin as [Heq|Hin].
  - inversion Heq; subst. rewrite N.eqb_refl. reflexivity.
  - destruct (N.eqb k k') eqn:He.
    + apply N.eqb_eq in He. subst. exfalso. apply Hni.
      unfold keys. change k' with (fst (k', n)). apply in_map. exact Hin.
    + apply IH; assumption.
Qed.

Lemma find_notin g k : ~ In k (keys g) -> find g k = empty_node.
Proof.
  induction g as [|[k' n'] g IH]; intros Hn; [reflexivity|].
  simpl in *. destruct (N.eqb k k') eqn:He.
  - apply N.eqb_eq in He. subst. exfalso. apply Hn. left; reflexivity.
  - apply IH. intros H. apply Hn. right; exact H.
Qed.

Lemma In_keys {A} (g : list (key * A)) k : In k (keys g) <-> exists n, In (k, n) g.
Proof.
  unfold keys. rewrite in_map_iff. split.
  - intros [[k' n] [<- Hin]]. exists n. exact Hin.
  - intros [n Hin]. exists (k, n). split; [reflexivity | exact Hin].
Qed.

(* raw edge relations: what the caller's graph says *)
Definition rhard (rg : rgraph) (a b : key) : Prop :=
  exists rn, In (a, rn) rg /\ (In b (mlist rn) \/ In b (r_deps rn)) /\ In b (keys rg).
Definition rsoft (rg : rgraph) (a b : key) : Prop :=
  exists rn, In (a, rn) rg /\ In b (r_weak rn) /\ In b (keys rg).
Definition rctl (rg : rgraph) (a b : key) : Prop :=
  exists rn, In (a, rn) rg /\ In b (r_lctl rn) /\ In b (keys rg).
Definition rE rg a b := rhard rg a b \/ rctl rg a b.
Definition rF rg a b := rhard rg a b \/ rctl rg a b \/ rsoft rg a b.
Definition dangling (rg : rgraph) (d k : key) : Prop :=
  exists rn, In (k, rn) rg /\ In d (refs rn) /\ ~ In d (keys rg).

Section Resolved.
  Variables (allow : bool) (rg : rgraph) (g : graph).
  Hypothesis Hnd : NoDup (keys rg).
  Hypothesis Hpp : prepass (keys rg) allow rg = inl g.

  Let PS := prepass_spec (keys rg) allow rg.

  Lemma res_keys : keys g = keys rg.
  Proof. pose proof PS as P. rewrite Hpp in P. apply P. Qed.

  Lemma res_node a n : In (a, n) g ->
    exists rn, In (a, rn) rg /\ resolve_node (keys rg) allow rn = inl n.
  Proof. pose proof PS as P. rewrite Hpp in P. apply P. Qed.

  Lemma res_rnode a rn : In (a, rn) rg ->
    exists n, In (a, n) g /\ resolve_node (keys rg) allow rn = inl n.
  Proof. pose proof PS as P. rewrite Hpp in P. apply P. Qed.

  Lemma rg_fun a rn rn' : In (a, rn) rg -> In (a, rn') rg -> rn = rn'.
  Proof.
    clear Hpp PS. revert Hnd. induction rg as [|[k r] l IH]; intros Hn H1 H2; [inversion H1|].
    simpl in Hn. inversion Hn as [|? ? Hni Hn']; subst.
    destruct H1 as [E1|H1], H2 as [E2|H2].
    - congruence.
    - inversion E1; subst. exfalso. apply Hni. apply In_keys. eauto.
    - inversion E2; subst. exfalso. apply Hni. apply In_keys. eauto.
    - apply IH; assumption.
  Qed.

  Lemma gnd : NoDup (keys g).
  Proof. rewrite res_keys. exact Hnd. Qed.

  Lemma edges_of a :
    (forall b, hard g a b <-> rhard rg a b) /\
    (forall b, soft g a b <-> rsoft rg a b) /\
    (forall b, ctl g a b <-> rctl rg a b).
  Proof.
    unfold hard, soft, ctl, rhard, rsoft, rctl.
    destruct (in_dec N.eq_dec a (keys g)) as [Hin|Hnin].
    - apply In_keys in Hin. destruct Hin as [n Hin].
      rewrite (find_In g a n gnd Hin).
      destruct (res_node a n Hin) as [rn [Hrn Hres]].
      pose proof (resolve_node_spec (keys rg) allow rn) as S. rewrite Hres in S.
      destruct S as [_ [Sw [Sd Sc]]].
      split; [|split]; intros b.
      + rewrite Sd. split.
        * intros [H1 H2]. exists rn. auto.
        * intros [rn' [Hr' [H1 H2]]]. rewrite (rg_fun a rn rn' Hrn Hr'). auto.
      + rewrite Sw. split.
        * intros [H1 H2]. exists rn. auto.
        * intros [rn' [Hr' [H1 H2]]]. rewrite (rg_fun a rn rn' Hrn Hr'). auto.
      + rewrite Sc. split.
        * intros [H1 H2]. exists rn. auto.
        * intros [rn' [Hr' [H1 H2]]]. rewrite (rg_fun a rn rn' Hrn Hr'). auto.
    - rewrite (find_notin g a Hnin). simpl.
      assert (Hno : forall rn, ~ In (a, rn) rg).
      { intros rn Hr. apply Hnin. rewrite res_keys. apply In_keys. eauto. }
      split; [|split]; intros b; (split; [intros [] | intros [rn [Hr _]]; exact (Hno rn Hr)]).
  Qed.

  Lemma E_iff a b : E g a b <-> rE rg a b.
  Proof.
    destruct (edges_of a) as [H [S C]]. unfold E, rE. rewrite H, C. tauto.
  Qed.
  Lemma F_iff a b : F g a b <-> rF rg a b.
  Proof.
    destruct (edges_of a) as [H [S C]]. unfold F, rF. rewrite H, C, S. tauto.
  Qed.

  Lemma res_wf : wf g.
  Proof.
    split; [exact gnd|].
    intros a b Hf. apply F_iff in Hf. rewrite res_keys.
    destruct Hf as [[rn [H1 [_ H2]]]|[[rn [H1 [_ H2]]]|[rn [H1 [_ H2]]]]];
      (split; [apply In_keys; eauto | exact H2]).
  Qed.
End Resolved.

Lemma clos_trans_iff (R R' : key -> key -> Prop) :
  (forall a b, R a b <-> R' a b) -> forall x y, clos_trans key R x y -> clos_trans key R' x y.
Proof.
  intros H x y Hc. induction Hc; [apply t_step; apply H; assumption | eapply t_trans; eauto].
Qed.

Lemma cyclic_iff (R R' : key -> key -> Prop) :
  (forall a b, R a b <-> R' a b) -> (cyclic R <-> cyclic R').
Proof.
  intros H. split; intros [x Hx]; exists x; eapply clos_trans_iff; eauto.
  intros a b. symmetry. apply H.
Qed.

(* ------------------------------------------------------------------ *)
(* the full statement about sort_ex on the caller's graph              *)

Theorem sort_ex_spec allow rg : NoDup (keys rg) ->
  match sort_ex allow rg with
  | Sorted o => (allow = true \/ forall d k, ~ dangling rg d k)
                /\ Permutation o (keys rg)
                /\ (forall k d, rhard rg k d -> before d k o)
                /\ ~ cyclic (rE rg)
                /\ (~ cyclic (rF rg) -> forall k d, rsoft rg k d -> before d k o)
  | Cycle c => (allow = true \/ forall d k, ~ dangling rg d k) /\ cyclic (rE rg)
  | Unresolved d k => allow = false /\ dangling rg d k
  | Fuel => False
  end.
Proof.
  intros Hnd. unfold sort_ex.
  pose proof (prepass_spec (keys rg) allow rg) as P.
  destruct (prepass (keys rg) allow rg) as [g|[d k]] eqn:Hpp.
  - destruct P as [_ [Ha _]].
    assert (Hdang : allow = true \/ forall d k, ~ dangling rg d k).
    { destruct Ha as [?|Ha]; auto. right. intros d k [rn [H1 [H2 H3]]]. apply H3. eapply Ha; eauto. }
    pose proof (sort_resolved_spec g (res_wf allow rg g Hnd Hpp)) as S.
    pose proof (E_iff allow rg g Hnd Hpp) as HE.
    pose proof (F_iff allow rg g Hnd Hpp) as HF.
    destruct (sort_resolved g) as [o|c|? ?|]; try contradiction.
    + destruct S as [Sp [Sh [Sc Ss]]]. split; [exact Hdang|].
      split; [rewrite <- (res_keys allow rg g Hpp); exact Sp|].
      split; [|split].
      * intros k d Hh. apply Sh. apply (edges_of allow rg g Hnd Hpp k). exact Hh.
      * intros Hc. apply Sc. apply (cyclic_iff _ _ HE). exact Hc.
      * intros Hac k d Hs. apply Ss.
        -- intros Hc. apply Hac. apply (cyclic_iff _ _ HF). exact Hc.
        -- apply (edges_of allow rg g Hnd Hpp k). exact Hs.
    + split; [exact Hdang|]. apply (cyclic_iff _ _ HE). exact S.
  - destruct P as [Ha [rn [H1 [H2 H3]]]]. split; [exact Ha|]. exists rn. auto.
Qed.

(* ------------------------------------------------------------------ *)
(* the individual statements of Props.v                                *)

Definition resolvable (allow : bool) (rg : rgraph) : Prop :=
  allow = true \/ forall d k, ~ dangling rg d k.

Lemma p_fuel allow rg : NoDup (keys rg) -> sort_ex allow rg <> Fuel.
Proof. intros H E0. pose proof (sort_ex_spec allow rg H) as S. rewrite E0 in S. exact S. Qed.

Lemma p_perm allow rg o : NoDup (keys rg) -> sort_ex allow rg = Sorted o -> Permutation o (keys rg).
Proof. intros H E0. pose proof (sort_ex_spec allow rg H) as S. rewrite E0 in S. apply S. Qed.

Lemma p_hard allow rg o : NoDup (keys rg) -> sort_ex allow rg = Sorted o ->
  forall k d, rhard rg k d -> before d k o.
Proof. intros H E0. pose proof (sort_ex_spec allow rg H) as S. rewrite E0 in S. apply S. Qed.

Lemma p_cycle_sound allow rg c : NoDup (keys rg) -> sort_ex allow rg = Cycle c -> cyclic (rE rg).
Proof. intros H E0. pose proof (sort_ex_spec allow rg H) as S. rewrite E0 in S. apply S. Qed.

Lemma p_unresolved_sound allow rg d k : NoDup (keys rg) ->
  sort_ex allow rg = Unresolved d k -> allow = false /\ dangling rg d k.
Proof. intros H E0. pose proof (sort_ex_spec allow rg H) as S. rewrite E0 in S. exact S. Qed.

Lemma p_unresolved_complete allow rg : NoDup (keys rg) ->
  allow = false -> (exists d k, dangling rg d k) -> exists d k, sort_ex allow rg = Unresolved d k.
Proof.
  intros H Ha [d [k Hd]]. pose proof (sort_ex_spec allow rg H) as S.
  destruct (sort_ex allow rg) as [o|c|d' k'|]; [| | eauto | contradiction].
  - destruct S as [[Ht|Hn] _]; [congruence | exfalso; eapply Hn; eauto].
  - destruct S as [[Ht|Hn] _]; [congruence | exfalso; eapply Hn; eauto].
Qed.

Lemma p_resolvable_no_unres allow rg : NoDup (keys rg) -> resolvable allow rg ->
  forall d k, sort_ex allow rg <> Unresolved d k.
Proof.
  intros H Hr d k E0. destruct (p_unresolved_sound allow rg d k H E0) as [Ha Hd].
  destruct Hr as [Ht|Hn]; [congruence | eapply Hn; eauto].
Qed.

Lemma p_cycle_complete allow rg : NoDup (keys rg) -> resolvable allow rg ->
  cyclic (rE rg) -> exists c, sort_ex allow rg = Cycle c.
Proof.
  intros H Hr Hc. pose proof (sort_ex_spec allow rg H) as S.
  pose proof (p_resolvable_no_unres allow rg H Hr) as Hnu.
  destruct (sort_ex allow rg) as [o|c|d' k'|]; [| eauto | exfalso; eapply Hnu; eauto | contradiction].
  exfalso. apply S. exact Hc.
Qed.

Lemma p_soft_never_fail allow rg : NoDup (keys rg) -> resolvable allow rg ->
  ~ cyclic (rE rg) ->
  exists o, sort_ex allow rg = Sorted o /\ Permutation o (keys rg)
            /\ forall k d, rhard rg k d -> before d k o.
Proof.
  intros H Hr Hc. pose proof (sort_ex_spec allow rg H) as S.
  pose proof (p_resolvable_no_unres allow rg H Hr) as Hnu.
  destruct (sort_ex allow rg) as [o|c|d' k'|];
    [| exfalso; apply Hc, S | exfalso; eapply Hnu; eauto | contradiction].
  exists o. split; [reflexivity|]. split; apply S.
Qed.

Lemma rE_rF rg a b : clos_trans key (rE rg) a b -> clos_trans key (rF rg) a b.
Proof.
  induction 1 as [a b [H|H]|]; [apply t_step; left; exact H | apply t_step; right; left; exact H |
                                  eapply t_trans; eauto].
Qed.

Lemma p_soft_honoured allow rg : NoDup (keys rg) -> resolvable allow rg ->
  ~ cyclic (rF rg) ->
  exists o, sort_ex allow rg = Sorted o /\ forall k d, rsoft rg k d -> before d k o.
Proof.
  intros H Hr Hc.
  assert (HcE : ~ cyclic (rE rg)) by (intros [x Hx]; apply Hc; exists x; apply rE_rF; exact Hx).
  destruct (p_soft_never_fail allow rg H Hr HcE) as [o [Ho _]].
  exists o. split; [exact Ho|].
  pose proof (sort_ex_spec allow rg H) as S. rewrite Ho in S. apply S. exact Hc.
Qed.

(* without loop-control entries, "cyclic" is about hard (merge + deps) edges alone *)
Lemma p_no_lctl rg : (forall k rn, In (k, rn) rg -> r_lctl rn = []) ->
  (cyclic (rE rg) <-> cyclic (rhard rg)).
Proof.
  intros Hn. apply cyclic_iff. intros a b. unfold rE. split; [|auto].
  intros [H|[rn [H1 [H2 _]]]]; [exact H|]. rewrite (Hn _ _ H1) in H2. inversion H2.
Qed.

(* the order is a function of the ordered input: trivially, sort_ex is a Coq function *)
Lemma p_deterministic allow rg rg' : rg = rg' -> sort_ex allow rg = sort_ex allow rg'.
Proof. intros ->. reflexivity. Qed.
