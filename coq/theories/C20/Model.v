(* C20 — model of edb/common/topological.py::sort_ex.
   Executable definitions only; proofs live in Proofs.v, statements in Props.v.
   Hand-written; tied to the source by the correspondence check (harness/props/c20.py). *)
From Coq Require Import List NArith Bool Arith.
Import ListNotations.

Definition key := N.

Definition memk (k : key) (l : list key) : bool := existsb (N.eqb k) l.

(* OrderedSet.add : append unless already present *)
Definition oset_add (acc : list key) (k : key) : list key :=
  if memk k acc then acc else acc ++ [k].

(* ---- raw input: what the caller passes (a dict of DepGraphEntry) ---- *)
Record rnode := { r_weak : list key;            (* weak_deps, iteration order *)
                  r_merge : option (list key);  (* merge (may be None) *)
                  r_deps : list key;            (* deps *)
                  r_lctl : list key }.          (* loop_control *)
Definition rgraph := list (key * rnode).        (* dict: insertion order, distinct keys *)

(* ---- resolved adjacency: adj / weak_adj / loop_control of sort_ex ---- *)
Record node := { deps : list key;   (* adj = merge then deps, OrderedSet *)
                 weak : list key;   (* weak_adj *)
                 lctl : list key }. (* loop_control *)
Definition graph := list (key * node).
Definition empty_node := {| deps := []; weak := []; lctl := [] |}.

Definition keys {A} (g : list (key * A)) : list key := map fst g.

Fixpoint find (g : graph) (k : key) : node :=
  match g with
  | [] => empty_node            (* defaultdict(OrderedSet) *)
  | (k', n) :: g' => if N.eqb k k' then n else find g' k
  end.

(* one "for dep in xs: if dep in graph: acc.add(dep) elif not allow: raise" loop.
   inr dep = UnresolvedReferenceError on dep *)
Fixpoint resolve_list (ks : list key) (allow : bool) (l : list key) (acc : list key)
  : list key + key :=
  match l with
  | [] => inl acc
  | d :: l' =>
      if memk d ks then resolve_list ks allow l' (oset_add acc d)
      else if allow then resolve_list ks allow l' acc
      else inr d
  end.

Inductive outcome :=
| Sorted (o : list key)
| Cycle (item : key)
| Unresolved (dep item : key)
| Fuel.

Definition resolve_node (ks : list key) (allow : bool) (rn : rnode) : node + key :=
  match resolve_list ks allow (r_weak rn) [] with
  | inr d => inr d
  | inl w =>
    match resolve_list ks allow (match r_merge rn with Some m => m | None => [] end) [] with
    | inr d => inr d
    | inl a1 =>
      match resolve_list ks allow (r_deps rn) a1 with
      | inr d => inr d
      | inl a2 =>
        match resolve_list ks allow (r_lctl rn) [] with
        | inr d => inr d
        | inl c => inl {| deps := a2; weak := w; lctl := c |}
        end
      end
    end
  end.

(* the pre-pass over graph.items(); inr (dep, item) = UnresolvedReferenceError *)
Fixpoint prepass (ks : list key) (allow : bool) (rg : rgraph) : graph + (key * key) :=
  match rg with
  | [] => inl []
  | (k, rn) :: rg' =>
      match resolve_node ks allow rn with
      | inr d => inr (d, k)
      | inl n =>
          match prepass ks allow rg' with
          | inr e => inr e
          | inl g => inl ((k, n) :: g)
          end
      end
  end.

(* ---- the DFS ---- *)
(* stack = `visiting` (newest first), each frame with the weak_link flag it was
   entered with; `visiting_weak` is exactly the set of frames whose flag is true,
   only its len() is ever used.  order = `order` reversed; `visited` = set(order). *)
Record st := { stack : list (key * bool); order : list key }.
Definition init : st := {| stack := []; order := [] |}.

Definition nweak (s : st) : nat := length (filter (fun f => snd f) (stack s)).
Definition push (k : key) (wl : bool) (s : st) : st :=
  {| stack := (k, wl) :: stack s; order := order s |}.
Definition pop (s : st) : st := {| stack := tl (stack s); order := order s |}.
Definition append (k : key) (s : st) : st := {| stack := stack s; order := k :: order s |}.

Inductive res := ROk | RCycle (item : key) | RFuel.

(* for n in xs: f(n)   -- stops at the first exception *)
Fixpoint iter (f : st -> key -> st * res) (l : list key) (s : st) : st * res :=
  match l with
  | [] => (s, ROk)
  | n :: l' =>
      let '(s', r) := f s n in
      match r with ROk => iter f l' s' | _ => (s', r) end
  end.

(* for n in weak_adj[item]:
     try: visit(n, weak_link=True)
     except CycleError: if len(visiting_weak) == 0: pass else: raise *)
Fixpoint iter_weak (f : st -> key -> st * res) (l : list key) (s : st) : st * res :=
  match l with
  | [] => (s, ROk)
  | n :: l' =>
      let '(s', r) := f s n in
      match r with
      | ROk => iter_weak f l' s'
      | RCycle _ => if Nat.eqb (nweak s') 0 then iter_weak f l' s' else (s', r)
      | RFuel => (s', r)
      end
  end.

Fixpoint visit (fuel : nat) (g : graph) (s : st) (item : key)
         (for_control weak_link : bool) {struct fuel} : st * res :=
  match fuel with
  | O => (s, RFuel)
  | S f =>
    if memk item (keys (stack s)) then (s, RCycle item)          (* raise CycleError *)
    else if memk item (order s) then (s, ROk)                    (* item in visited *)
    else
      let nd := find g item in
      let s1 := push item weak_link s in
      let '(sb, rb) :=
        let '(s2, r2) := iter_weak (fun s n => visit f g s n false true) (weak nd) s1 in
        match r2 with
        | ROk =>
          let '(s3, r3) := iter (fun s n => visit f g s n false weak_link) (deps nd) s2 in
          match r3 with
          | ROk =>
            let '(s4, r4) := iter (fun s n => visit f g s n true weak_link) (lctl nd) s3 in
            match r4 with
            | ROk => (if for_control then s4 else append item s4, ROk)
            | _ => (s4, r4)
            end
          | _ => (s3, r3)
          end
        | _ => (s2, r2)
        end in
      (* except CycleError: if len(visiting_weak) == 1: pass else: raise ; finally: pop *)
      let r' := match rb with
                | RCycle _ => if Nat.eqb (nweak sb) 1 then ROk else rb
                | _ => rb
                end in
      (pop sb, r')
  end.

Definition sort_resolved (g : graph) : outcome :=
  match iter (fun s k => visit (S (length g)) g s k false false) (keys g) init with
  | (s, ROk) => Sorted (rev (order s))
  | (_, RCycle c) => Cycle c
  | (_, RFuel) => Fuel
  end.

Definition sort_ex (allow_unresolved : bool) (rg : rgraph) : outcome :=
  match prepass (keys rg) allow_unresolved rg with
  | inr (d, k) => Unresolved d k
  | inl g => sort_resolved g
  end.
