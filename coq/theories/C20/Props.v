(* C20 — Dependency ordering respects every dependency and finds real cycles.
   Statements only; each is closed by [exact] of a lemma of Proofs.v and followed
   by Print Assumptions (audited by the check on every run).

   Vocabulary (Proofs.v):  rg : rgraph is the caller's mapping (distinct keys, each
   with weak_deps / merge / deps / loop_control in iteration order);
   rhard = merge ∪ deps edges between existing keys, rsoft = weak_deps edges,
   rctl = loop_control edges, rE = rhard ∪ rctl, rF = rE ∪ rsoft;
   dangling rg d k = k lists d and d is not a key;
   resolvable allow rg = allow_unresolved or nothing dangles;
   before a b o = a occurs strictly before b in o. *)
From Coq Require Import List NArith Permutation Relations.
From Verif.C20 Require Import Model Proofs.
Import ListNotations.

(* the fuel the model runs with is always enough: Fuel is not a real outcome *)
Theorem C20_fuel_enough : forall allow rg, NoDup (keys rg) -> sort_ex allow rg <> Fuel.
Proof. exact p_fuel. Qed.
Print Assumptions C20_fuel_enough.

(* every item exactly once *)
Theorem C20_perm : forall allow rg o, NoDup (keys rg) ->
  sort_ex allow rg = Sorted o -> Permutation o (keys rg).
Proof. exact p_perm. Qed.
Print Assumptions C20_perm.

(* each item after all of its hard dependencies *)
Theorem C20_hard : forall allow rg o, NoDup (keys rg) ->
  sort_ex allow rg = Sorted o -> forall k d, rhard rg k d -> before d k o.
Proof. exact p_hard. Qed.
Print Assumptions C20_hard.

(* a reported cycle is real ... *)
Theorem C20_cycle_sound : forall allow rg c, NoDup (keys rg) ->
  sort_ex allow rg = Cycle c -> cyclic (rE rg).
Proof. exact p_cycle_sound. Qed.
Print Assumptions C20_cycle_sound.

(* ... and every real cycle is reported *)
Theorem C20_cycle_complete : forall allow rg, NoDup (keys rg) -> resolvable allow rg ->
  cyclic (rE rg) -> exists c, sort_ex allow rg = Cycle c.
Proof. exact p_cycle_complete. Qed.
Print Assumptions C20_cycle_complete.

(* with no loop_control entries the cycle criterion is exactly "hard edges cyclic" *)
Theorem C20_cycle_hard_only : forall rg, (forall k rn, In (k, rn) rg -> r_lctl rn = []) ->
  (cyclic (rE rg) <-> cyclic (rhard rg)).
Proof. exact p_no_lctl. Qed.
Print Assumptions C20_cycle_hard_only.

(* soft edges never cause a failure or a violated hard dependency *)
Theorem C20_soft_never_fail : forall allow rg, NoDup (keys rg) -> resolvable allow rg ->
  ~ cyclic (rE rg) ->
  exists o, sort_ex allow rg = Sorted o /\ Permutation o (keys rg)
            /\ forall k d, rhard rg k d -> before d k o.
Proof. exact p_soft_never_fail. Qed.
Print Assumptions C20_soft_never_fail.

(* soft edges are honoured whenever hard and soft edges together are acyclic *)
Theorem C20_soft_honoured : forall allow rg, NoDup (keys rg) -> resolvable allow rg ->
  ~ cyclic (rF rg) ->
  exists o, sort_ex allow rg = Sorted o /\ forall k d, rsoft rg k d -> before d k o.
Proof. exact p_soft_honoured. Qed.
Print Assumptions C20_soft_honoured.

(* references to missing items: reported iff not allowed and something dangles *)
Theorem C20_unresolved_sound : forall allow rg d k, NoDup (keys rg) ->
  sort_ex allow rg = Unresolved d k -> allow = false /\ dangling rg d k.
Proof. exact p_unresolved_sound. Qed.
Print Assumptions C20_unresolved_sound.

Theorem C20_unresolved_complete : forall allow rg, NoDup (keys rg) ->
  allow = false -> (exists d k, dangling rg d k) -> exists d k, sort_ex allow rg = Unresolved d k.
Proof. exact p_unresolved_complete. Qed.
Print Assumptions C20_unresolved_complete.

(* non-vacuity: concrete graphs meeting the hypotheses, evaluated by the kernel *)
Definition ex_soft_cycle : rgraph :=   (* 1 -weak-> 2 -> 3 -> 1 : soft cycle, hard acyclic *)
  [(1%N, {| r_weak := [2%N]; r_merge := None; r_deps := []; r_lctl := [] |});
   (2%N, {| r_weak := []; r_merge := None; r_deps := [3%N]; r_lctl := [] |});
   (3%N, {| r_weak := []; r_merge := Some [1%N]; r_deps := []; r_lctl := [] |})].
Example ex_soft_cycle_sorted : sort_ex false ex_soft_cycle = Sorted [1%N; 3%N; 2%N].
Proof. vm_compute. reflexivity. Qed.
Example ex_hard_cycle : sort_ex false
  [(1%N, {| r_weak := []; r_merge := None; r_deps := [2%N]; r_lctl := [] |});
   (2%N, {| r_weak := []; r_merge := None; r_deps := []; r_lctl := [1%N] |})] = Cycle 1%N.
Proof. vm_compute. reflexivity. Qed.
Example ex_dangling : sort_ex false
  [(1%N, {| r_weak := []; r_merge := None; r_deps := [9%N]; r_lctl := [] |})] = Unresolved 9%N 1%N.
Proof. vm_compute. reflexivity. Qed.
Example ex_nodup : NoDup (keys ex_soft_cycle).
Proof. repeat constructor; simpl; intuition discriminate. Qed.
