(* C03 — DESCRIBE output rebuilds the same schema.
   Statements only; each is closed by [exact] of a lemma of Proofs.v (or Verif.Decl.Proofs) and
   followed by Print Assumptions (audited by the check on every run).

   Vocabulary (Model.v / Proofs.v):
     search / classname / resolve_name / apply_module_aliases  exact transliterations of the repo's
        name-resolution functions (tied by correspondence on every run);
     mod_untouched al m   the session's alias map [al] has no alias NAMED like the first component
        of module m (or like m itself), and m is not `__std__` / `__current__::...`;
     schema               finite map fully-qualified name -> (class, data, referenced names);
     wf base s            distinct names, disjoint from the base (std) names, references closed;
     describe_ddl s       CREATE statements with fully-qualified names in an order computed by
        the C20 model of topological.sort over the reference graph;
     replay base hasmod dis al [] t   the text applied statement by statement to a database
        holding only the base names, in a session with alias map al (None -> current module);
        hasmod / dis are the remaining inputs of the lookup (which modules exist, which are
        disallowed) - the theorems hold for all of them;
     session_ok al s      mod_untouched for the module of every name occurring in s.
   NOT proved: that the repo's printer (per-class _get_ast, codegen, expression normalisation of
   ~40 object classes) prints every field and qualifies every name; that is decided on the real
   code by the differential monitors of harness/props/c03.py.  The side condition session_ok is
   necessary: see Refuted.v (known finding C03-alias-shadows-module). *)
From Coq Require Import List NArith Bool Permutation Relations.
From Verif.C20 Require Import Model Proofs.
From Verif.Decl Require Import Model Proofs.
From Verif.C03 Require Import Model Proofs.
Import ListNotations.

(* the abstract C03: whatever schema is held, the printed text is accepted by replay in every
   session that leaves its module names alone and rebuilds exactly the schema (same declarations,
   hence the same finite map); the result does not depend on the session at all *)
Theorem C03_describe_rebuilds : forall base s t,
  wf base s -> describe_ddl s = DText t ->
  exists s', Permutation s' s /\
    forall hasmod dis al, session_ok al s -> replay base hasmod dis al [] t = inl s'.
Proof. exact p_session_independent. Qed.
Print Assumptions C03_describe_rebuilds.

Theorem C03_same_map : forall s s', Permutation s' s -> NoDup (names s) ->
  forall q, lookup q s' = lookup q s.
Proof. exact p_perm_same_map. Qed.
Print Assumptions C03_same_map.

(* describe never fails on a schema with distinct names: text, or a reported reference cycle *)
Theorem C03_describe_total : forall s, NoDup (names s) -> exists x, ordered s = inl x.
Proof. exact ordered_total. Qed.
Print Assumptions C03_describe_total.

(* name level: a fully-qualified name that exists is found as itself in every session that
   leaves its module alone - no part of it is resolved through session state *)
Theorem C03_fq_name_self_contained : forall e al q,
  mod_untouched al (q_mod q) -> s_exists e q = true ->
  search e (Some al) (Some (q_mod q)) (q_name q) = Some q.
Proof. exact search_fq. Qed.
Print Assumptions C03_fq_name_self_contained.

(* for ANY qualified name, existing or not (std fallbacks included), two such sessions agree *)
Theorem C03_lookup_session_independent : forall e al1 al2 m n,
  mod_untouched al1 m -> mod_untouched al2 m ->
  search e (Some al1) (Some m) n = search e (Some al2) (Some m) n.
Proof. exact search_independent. Qed.
Print Assumptions C03_lookup_session_independent.

(* the name a CREATE statement gives to the new object *)
Theorem C03_created_name_self_contained : forall al q,
  mod_untouched al (q_mod q) -> classname al (Some (q_mod q)) (q_name q) = Some q.
Proof. exact classname_fq. Qed.
Print Assumptions C03_created_name_self_contained.

(* SDL side: a text that lists the declarations in ANY order is accepted through the SDL pipeline
   (model of sdl_to_ddl + apply_sdl, which takes no session aliases) and yields exactly them *)
Theorem C03_sdl_rebuilds : forall base d,
  disjoint_base base d -> NoDup (dkeys d) -> no_dangling base d -> ~ cyclic (ref_rel d) ->
  exists s, sdl_apply base d = SOk s /\ Permutation s d.
Proof. exact p_accepts. Qed.
Print Assumptions C03_sdl_rebuilds.

(* the SDL tracer resolves names against the SET of declared names: declaration order is invisible *)
Theorem C03_tracer_resolution_order_free : forall e e' al cur decl m n,
  (forall q, t_objects e q = t_objects e' q) -> t_schema e = t_schema e' ->
  (forall x, t_local e x = t_local e' x) ->
  resolve_name e al cur decl m n = resolve_name e' al cur decl m n.
Proof. exact resolve_name_ext. Qed.
Print Assumptions C03_tracer_resolution_order_free.

(* ---- non-vacuity ---- *)
(* components: 1 std, 4 default, 5 other, 6 sub.  base = std::str (9), std::Object (8) *)
Definition q (m : list N) (n : N) := mkQ m n.
Definition ex_base : list qname := [q [1] 9; q [1] 8]%N.
(* default::User (refs std::Object), default::sub::Post (refs User, std::str), other::View (refs Post, User) *)
Definition ex_s : schema :=
  [(q [5] 30, mkObj 3 7 [q [4; 6] 20; q [4] 10]);
   (q [4; 6] 20, mkObj 1 5 [q [4] 10; q [1] 9]);
   (q [4] 10, mkObj 1 2 [q [1] 8])]%N.
Definition ex_al1 : aliases := [(None, [4])]%N.                                (* current module default *)
Definition ex_al2 : aliases := [(None, [5]); (Some [7], [4]); (Some [8], [1])]%N.  (* current other; aliases x -> default, y -> std *)
Definition ex_al3 : aliases := [].                                             (* no current module *)
Definition nomod (c : comp) := false.
Example ex_text : exists t, describe_ddl ex_s = DText t /\ length t = 3.
Proof. eexists. split; vm_compute; reflexivity. Qed.
Example ex_roundtrips :
  roundtrip ex_base nomod nomod ex_al1 ex_s = true /\
  roundtrip ex_base nomod nomod ex_al2 ex_s = true /\
  roundtrip ex_base nomod nomod ex_al3 ex_s = true.
Proof. repeat split; vm_compute; reflexivity. Qed.
Example ex_wf : wf ex_base ex_s.
Proof.
  split; [|split].
  - repeat constructor; simpl; intuition discriminate.
  - intros x Hx Hb. simpl in Hx, Hb. intuition (subst; discriminate).
  - intros x o r Hin Hr. simpl in Hin. simpl.
    destruct Hin as [E|[E|[E|[]]]]; inversion E; subst; simpl in Hr; intuition (subst; auto).
Qed.
Example ex_session_ok : session_ok ex_al2 ex_s.
Proof.
  intros x Hx. simpl in Hx.
  repeat (destruct Hx as [<-|Hx]; [vm_compute; repeat split; intros; discriminate|]). contradiction.
Qed.
