(* C03 — witnesses, computed by the kernel, that the side condition of C03_describe_rebuilds is
   necessary in the faithful model of the repo's name resolution.  Each is replayed on the real
   code by harness/props/c03.py (collision stream) and is recorded as known finding
   C03-alias-shadows-module. *)
From Coq Require Import List NArith Bool.
From Verif.C03 Require Import Model.
Import ListNotations.

Definition q (m : list N) (n : N) := mkQ m n.
Definition base : list qname := [q [1] 9; q [1] 8]%N.
Definition s1 : schema := [(q [4] 10, mkObj 1 2 [q [1] 8]); (q [4] 11, mkObj 1 3 [q [4] 10])]%N.
Definition nomod (c : comp) := false.

(* SET ALIAS default AS MODULE other: `create type default::A` creates other::A *)
Theorem C03_alias_shadows_module_refuted :
  exists al, roundtrip base nomod nomod al s1 = false /\
             roundtrip base nomod nomod [(None, [4%N])] s1 = true.
Proof. exists [(Some [4%N], [5%N]); (None, [4%N])]. split; vm_compute; reflexivity. Qed.

(* an alias named std: std::Object is looked up as default::Object *)
Theorem C03_alias_shadows_std_refuted :
  exists al, roundtrip base nomod nomod al s1 = false.
Proof. exists [(Some [1%N], [4%N])]. vm_compute. reflexivity. Qed.

(* the created name and the looked-up name go through DIFFERENT alias lookups: with a nested module
   a::b and an alias named a, CREATE keeps a::b::T but a reference a::b::T is sought in x::b *)
Theorem C03_alias_lookups_differ_refuted :
  exists al m n,
    classname al (Some m) n = Some (mkQ m n) /\
    search (mkSenv (fun x => qname_eqb x (mkQ m n)) nomod nomod) (Some al) (Some m) n = None.
Proof. exists [(Some [4%N], [5%N])], [4%N; 6%N], 10%N. split; vm_compute; reflexivity. Qed.

(* necessity of full qualification (hypothetical printer, NOT the repo's): names of the describing
   session's current module printed bare are rebuilt only in sessions with the same current module *)
Definition describe_rel (cur : modname) (s : schema) : list stmt :=
  map (fun p => mkStmt (print_q_rel cur (fst p)) (o_cls (snd p)) (o_data (snd p))
                       (map (print_q_rel cur) (o_refs (snd p)))) s.
Theorem C03_unqualified_text_depends_on_session :
  replay base nomod nomod [(None, [4%N])] [] (describe_rel [4%N] s1) = inl s1 /\
  replay base nomod nomod [(None, [5%N])] [] (describe_rel [4%N] s1) <> inl s1.
Proof. split; vm_compute; [reflexivity | discriminate]. Qed.
