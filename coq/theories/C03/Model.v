(* C03 — model of name resolution and of DESCRIBE / replay.  Executable definitions only.

   Part I (exact transliterations, tied to /repo by correspondence: harness/impl/c03_impl.py mode
   `resolve` runs the real functions on the same generated inputs):
     * [apply_module_aliases]  edb/schema/schema.py::apply_module_aliases
     * [search]                edb/schema/schema.py::FlatSchema._search_with_getter
                               (how every name inside DDL text / stored expressions is looked up)
     * [resolve_name]          edb/edgeql/tracer.py::resolve_name (SDL dependency tracing, C11)
     * [classname]             edb/schema/delta.py::QualifiedObjectCommand._classname_from_ast
                               (the name a CREATE statement gives to the new object)
   A module name 'a::b' is the list of its components [a; b]; components are numbers; the three
   components the code treats specially are [c_std] = 'std', [c_current] = '__current__',
   [c_dstd] = '__std__'.  A module-alias map (Python dict) is an association list whose keys are
   None (the session's current module) or an alias name.

   Part II (abstract): a schema is a finite map fully-qualified name -> (class, data, referenced
   names); [describe_ddl] prints it as CREATE statements with fully-qualified names in a dependency
   order computed by the C20 model of topological.sort; [replay] applies such a text to a database
   that holds only the base (standard library) names, in a session with arbitrary module aliases,
   resolving every name with the functions of Part I.
   NOT modelled: the per-class _get_ast / codegen / expression normalisation code that actually
   prints ~40 object classes; that is checked on the real code by harness/props/c03.py. *)
From Coq Require Import List NArith Bool Arith.
From Verif.C20 Require Import Model.
Import ListNotations.

Definition comp := N.
Definition c_std : comp := 1%N.
Definition c_current : comp := 2%N.
Definition c_dstd : comp := 3%N.

Definition modname := list comp.

Fixpoint mod_eqb (a b : modname) : bool :=
  match a, b with
  | [], [] => true
  | x :: a', y :: b' => N.eqb x y && mod_eqb a' b'
  | _, _ => false
  end.

Definition omod_eqb (a b : option modname) : bool :=
  match a, b with
  | None, None => true
  | Some x, Some y => mod_eqb x y
  | _, _ => false
  end.

Record qname := mkQ { q_mod : modname; q_name : N }.
Definition qname_eqb (a b : qname) : bool := mod_eqb (q_mod a) (q_mod b) && N.eqb (q_name a) (q_name b).
Definition memq (q : qname) (l : list qname) : bool := existsb (qname_eqb q) l.

(* Mapping[Optional[str], str] *)
Definition aliases := list (option modname * modname).

Fixpoint al_get (al : aliases) (k : option modname) : option modname :=
  match al with
  | [] => None
  | (k', v) :: t => if omod_eqb k k' then Some v else al_get t k
  end.

(* Python truthiness of Optional[str] *)
Definition truthy (m : option modname) : bool :=
  match m with Some (_ :: _) => true | _ => false end.

(* def apply_module_aliases(module, module_aliases, current_module) -> (is_current, module) *)
Definition apply_module_aliases (module : option modname) (al : option aliases)
           (cur : option modname) : bool * option modname :=
  match module with
  | Some (c :: ((_ :: _) as rest)) =>
      if N.eqb c c_current
      then (true, match cur with Some cm => Some (cm ++ rest) | None => None end)
      else match al with
           | None => (false, module)
           | Some a => match al_get a (Some [c]) with
                       | Some fq => (false, Some (fq ++ rest))
                       | None => (false, module)
                       end
           end
  | Some [c] =>
      match al with
      | None => (false, module)
      | Some a => match al_get a (Some [c]) with
                  | Some fq => (false, Some fq)
                  | None => (false, module)
                  end
      end
  | Some [] =>
      match al with
      | None => (false, module)
      | Some a => match al_get a (Some []) with
                  | Some fq => (false, Some fq)
                  | None => (false, module)
                  end
      end
  | None =>
      match al with
      | None => (false, None)
      | Some a => match al_get a None with
                  | Some fq => (false, Some fq)
                  | None => (false, None)
                  end
      end
  end.

(* what _search_with_getter can see of the schema *)
Record senv := mkSenv {
  s_exists : qname -> bool;          (* getter(self, fqname) is not None *)
  s_has_module : comp -> bool;       (* self.has_module(<first component>) *)
  s_disallow : comp -> bool }.       (* disallow_module(<first component>), false when not given *)

Definition try_name (e : senv) (m : modname) (short : N) : option qname :=
  if s_exists e (mkQ m short) then Some (mkQ m short) else None.

(* FlatSchema._search_with_getter; None = `default` *)
Definition search (e : senv) (al : option aliases) (module : option modname) (short : N) : option qname :=
  if omod_eqb module (Some [c_dstd]) then try_name e [c_std] short
  else
    let cur := match al with Some a => al_get a None | None => None end in
    let '(is_cur, m) := apply_module_aliases module al cur in
    if is_cur && (match cur with None => true | Some _ => false end) then None
    else
      match (match m with Some mm => try_name e mm short | None => None end) with
      | Some r => Some r
      | None =>
        if is_cur then None
        else
          match (match module with None => try_name e [c_std] short | Some _ => None end) with
          | Some r => Some r
          | None =>
            match m with
            | Some ((f :: _) as mm) =>
                if negb (s_has_module e f || s_disallow e f) then try_name e (c_std :: mm) short else None
            | _ => None
            end
          end
      end.

(* tracer.resolve_name *)
Record tenv := mkTenv {
  t_objects : qname -> bool;         (* objects.get(name) is not None *)
  t_schema : senv;                   (* schema.get(name, default=None) goes through search with no aliases *)
  t_local : modname -> bool }.       (* module in local_modules *)

Definition t_exists (e : tenv) (q : qname) : bool :=
  t_objects e q || match search (t_schema e) None (Some (q_mod q)) (q_name q) with Some _ => true | None => false end.

Definition t_try (e : tenv) (m : modname) (short : N) : option qname :=
  if t_exists e (mkQ m short) then Some (mkQ m short) else None.

Definition first_truthy (a b : option modname) (c : modname) : modname :=
  match a with
  | Some ((_ :: _) as x) => x
  | _ => match b with Some ((_ :: _) as y) => y | _ => c end
  end.

Definition resolve_name (e : tenv) (al : option aliases) (cur : modname) (declaration : bool)
           (module : option modname) (short : N) : qname :=
  let '(is_cur, m) := apply_module_aliases module al (Some cur) in
  let no_std := declaration || is_cur in
  match (match m with
         | Some mm => t_try e mm short
         | None => match module with None => t_try e cur short | Some _ => None end
         end) with
  | Some r => r
  | None =>
    match (if no_std then None
           else match (match module with None => t_try e [c_std] short | Some _ => None end) with
                | Some r => Some r
                | None => match m with
                          | Some ((_ :: _) as mm) =>
                              if negb (t_local e mm) then t_try e (c_std :: mm) short else None
                          | _ => None
                          end
                end) with
    | Some r => r
    | None => mkQ (first_truthy m module cur) short
    end
  end.

(* QualifiedObjectCommand._classname_from_ast: context.modaliases.get(objref.module, objref.module) *)
Definition classname (al : aliases) (module : option modname) (short : N) : option qname :=
  match (match al_get al module with Some m => Some m | None => module end) with
  | Some m => Some (mkQ m short)
  | None => None            (* SchemaDefinitionError: unqualified name and no default module set *)
  end.

(* ========================================================================= *)
(* Part II — describe and replay                                             *)
(* ========================================================================= *)

Record obj := mkObj { o_cls : N; o_data : N; o_refs : list qname }.
Definition schema := list (qname * obj).
Definition names (s : schema) : list qname := map fst s.

(* qlast.ObjectRef *)
Record oref := mkRef { r_mod : option modname; r_name : N }.
Record stmt := mkStmt { st_name : oref; st_cls : N; st_data : N; st_refs : list oref }.

(* the printer: every name fully qualified *)
Definition print_q (q : qname) : oref := mkRef (Some (q_mod q)) (q_name q).
Definition print_obj (p : qname * obj) : stmt :=
  mkStmt (print_q (fst p)) (o_cls (snd p)) (o_data (snd p)) (map print_q (o_refs (snd p))).

(* a (hypothetical) printer that drops the module of names that live in the describing session's
   current module; used for the refutation witness only *)
Definition print_q_rel (cur : modname) (q : qname) : oref :=
  if mod_eqb (q_mod q) cur then mkRef None (q_name q) else print_q q.

Fixpoint index_of (q : qname) (l : list qname) (i : N) : option N :=
  match l with
  | [] => None
  | h :: t => if qname_eqb q h then Some i else index_of q t (N.succ i)
  end.

Definition ref_indexes (tbl : list qname) (refs : list qname) : list N :=
  flat_map (fun r => match index_of r tbl 0%N with Some i => [i] | None => [] end) refs.

Fixpoint desc_graph (tbl : list qname) (s : schema) (i : N) : rgraph :=
  match s with
  | [] => []
  | (_, o) :: t =>
      (i, {| r_weak := []; r_merge := None; r_deps := ref_indexes tbl (o_refs o); r_lctl := [] |})
      :: desc_graph tbl t (N.succ i)
  end.

Definition nth_obj (s : schema) (i : N) : list (qname * obj) :=
  match nth_error s (N.to_nat i) with Some p => [p] | None => [] end.

Inductive desc_result := DText (t : list stmt) | DCycle | DBad.

(* delta_schemas(None, S) + linearize_delta + text_from_delta, abstractly *)
Definition ordered (s : schema) : option (list (qname * obj)) + unit :=
  match sort_ex true (desc_graph (names s) s 0%N) with
  | Sorted o => inl (Some (flat_map (nth_obj s) o))
  | Cycle _ => inl None
  | _ => inr tt
  end.

Definition describe_ddl (s : schema) : desc_result :=
  match ordered s with
  | inl (Some l) => DText (map print_obj l)
  | inl None => DCycle
  | inr _ => DBad
  end.

Inductive rerr :=
| RNoModule (r : oref)             (* unqualified name and no default module set *)
| RExists (q : qname)              (* already exists *)
| RBadRef (r : oref).              (* ... does not exist *)

(* the schema a statement is compiled against: base (std) names + what was created so far *)
Definition env_of (base : list qname) (hasmod dis : comp -> bool) (cur : schema) : senv :=
  mkSenv (fun q => memq q base || memq q (names cur)) hasmod dis.

Fixpoint resolve_refs (e : senv) (al : aliases) (rs : list oref) : list qname + rerr :=
  match rs with
  | [] => inl []
  | r :: t =>
      match search e (Some al) (r_mod r) (r_name r) with
      | None => inr (RBadRef r)
      | Some q => match resolve_refs e al t with
                  | inl qs => inl (q :: qs)
                  | inr err => inr err
                  end
      end
  end.

Definition replay_stmt (base : list qname) (hasmod dis : comp -> bool) (al : aliases)
           (cur : schema) (st : stmt) : schema + rerr :=
  match classname al (r_mod (st_name st)) (r_name (st_name st)) with
  | None => inr (RNoModule (st_name st))
  | Some q =>
      if memq q base || memq q (names cur) then inr (RExists q)
      else match resolve_refs (env_of base hasmod dis cur) al (st_refs st) with
           | inr e => inr e
           | inl qs => inl (cur ++ [(q, mkObj (st_cls st) (st_data st) qs)])
           end
  end.

Fixpoint replay (base : list qname) (hasmod dis : comp -> bool) (al : aliases)
         (cur : schema) (t : list stmt) : schema + rerr :=
  match t with
  | [] => inl cur
  | st :: t' => match replay_stmt base hasmod dis al cur st with
                | inl c => replay base hasmod dis al c t'
                | inr e => inr e
                end
  end.

Fixpoint lookup (q : qname) (s : schema) : option obj :=
  match s with
  | [] => None
  | (k, o) :: t => if qname_eqb q k then Some o else lookup q t
  end.

(* executable checks used by the harness *)
Fixpoint refs_eqb (a b : list qname) : bool :=
  match a, b with
  | [], [] => true
  | x :: a', y :: b' => qname_eqb x y && refs_eqb a' b'
  | _, _ => false
  end.
Definition obj_eqb (a b : obj) : bool :=
  N.eqb (o_cls a) (o_cls b) && N.eqb (o_data a) (o_data b) && refs_eqb (o_refs a) (o_refs b).
Definition sub_schema (s t : schema) : bool :=
  forallb (fun p => match lookup (fst p) t with Some o => obj_eqb (snd p) o | None => false end) s.
Definition schema_eqb (s t : schema) : bool := sub_schema s t && sub_schema t s.

(* describe, then replay in a session: true iff the schema is rebuilt *)
Definition roundtrip (base : list qname) (hasmod dis : comp -> bool) (al : aliases) (s : schema) : bool :=
  match describe_ddl s with
  | DText t => match replay base hasmod dis al [] t with
               | inl s' => schema_eqb s' s
               | inr _ => false
               end
  | _ => false
  end.
