(* C03 — proofs about name resolution and describe / replay. *)
From Coq Require Import List NArith Bool Arith Lia Permutation Relations.
From Verif.C20 Require Import Model Proofs Props.
From Verif.Decl Require Import Proofs.
From Verif.C03 Require Import Model.
Import ListNotations.

(* ------------------------------------------------------------------------- *)
(* boolean equalities                                                        *)
(* ------------------------------------------------------------------------- *)

Lemma mod_eqb_eq a : forall b, mod_eqb a b = true <-> a = b.
Proof.
  induction a as [|x a IH]; intros [|y b]; simpl; try (split; [discriminate | discriminate]).
  - split; reflexivity.
  - rewrite andb_true_iff, N.eqb_eq, IH. split; [intros [-> ->]; reflexivity | intros H; inversion H; auto].
Qed.

Lemma mod_eqb_refl a : mod_eqb a a = true.
Proof. apply mod_eqb_eq. reflexivity. Qed.

Lemma omod_eqb_eq a b : omod_eqb a b = true <-> a = b.
Proof.
  destruct a as [a|], b as [b|]; simpl; try (split; [discriminate | discriminate]).
  - rewrite mod_eqb_eq. split; [intros ->; reflexivity | intros H; inversion H; reflexivity].
  - split; reflexivity.
Qed.

Lemma qname_eqb_eq a b : qname_eqb a b = true <-> a = b.
Proof.
  destruct a as [ma na], b as [mb nb]. unfold qname_eqb. simpl.
  rewrite andb_true_iff, mod_eqb_eq, N.eqb_eq.
  split; [intros [-> ->]; reflexivity | intros H; inversion H; auto].
Qed.

Lemma qname_eqb_refl a : qname_eqb a a = true.
Proof. apply qname_eqb_eq. reflexivity. Qed.

Lemma memq_In q l : memq q l = true <-> In q l.
Proof.
  unfold memq. rewrite existsb_exists. split.
  - intros [x [Hx He]]. apply qname_eqb_eq in He. subst. exact Hx.
  - intros H. exists q. split; [exact H | apply qname_eqb_refl].
Qed.

Lemma memq_nIn q l : memq q l = false <-> ~ In q l.
Proof. rewrite <- memq_In. destruct (memq q l); split; intros; try congruence; intuition. Qed.

(* ------------------------------------------------------------------------- *)
(* Part I: when does a session leave a qualified name alone?                 *)
(* ------------------------------------------------------------------------- *)

(* the module of the name is not `__std__`, does not start with `__current__::`, and neither its
   first component nor the whole module string is the NAME of a module alias of the session *)
Definition mod_untouched (al : aliases) (m : modname) : Prop :=
  match m with
  | [] => False
  | c :: rest =>
      (rest <> [] -> c <> c_current) /\ m <> [c_dstd] /\
      al_get al (Some [c]) = None /\ al_get al (Some m) = None
  end.

Lemma untouched_aliases al m : mod_untouched al m ->
  forall cur, apply_module_aliases (Some m) (Some al) cur = (false, Some m).
Proof.
  intros H cur. destruct m as [|c rest]; [contradiction|].
  destruct H as [H1 [H2 [H3 H4]]]. simpl.
  destruct rest as [|d rest'].
  - rewrite H3. reflexivity.
  - destruct (N.eqb c c_current) eqn:E.
    + apply N.eqb_eq in E. exfalso. apply H1; [discriminate | exact E].
    + rewrite H3. reflexivity.
Qed.

Lemma untouched_not_dstd al m : mod_untouched al m -> omod_eqb (Some m) (Some [c_dstd]) = false.
Proof.
  intros H. destruct (omod_eqb (Some m) (Some [c_dstd])) eqn:E; [|reflexivity].
  apply omod_eqb_eq in E. inversion E. subst. destruct H as [_ [H _]]. exfalso. apply H. reflexivity.
Qed.

(* a qualified name whose module the session leaves alone resolves to the object of exactly that
   name whenever it exists, whatever the session's current module and other aliases are *)
Lemma search_fq e al q :
  mod_untouched al (q_mod q) -> s_exists e q = true ->
  search e (Some al) (Some (q_mod q)) (q_name q) = Some q.
Proof.
  intros Hu He. unfold search.
  rewrite (untouched_not_dstd al _ Hu).
  rewrite (untouched_aliases al _ Hu). simpl.
  unfold try_name. destruct q as [m n]. simpl in *. rewrite He. reflexivity.
Qed.

(* for ANY qualified name (existing or not) the outcome is the same in any two sessions that
   leave its module alone *)
Lemma search_independent e al1 al2 m n :
  mod_untouched al1 m -> mod_untouched al2 m ->
  search e (Some al1) (Some m) n = search e (Some al2) (Some m) n.
Proof.
  intros H1 H2. unfold search.
  rewrite (untouched_not_dstd al1 _ H1).
  rewrite (untouched_aliases al1 _ H1), (untouched_aliases al2 _ H2). reflexivity.
Qed.

Lemma classname_fq al q : mod_untouched al (q_mod q) ->
  classname al (Some (q_mod q)) (q_name q) = Some q.
Proof.
  intros H. unfold classname. destruct (q_mod q) as [|c rest] eqn:E; [contradiction|].
  destruct H as [_ [_ [_ H4]]]. rewrite H4. destruct q as [m n]. simpl in *. subst m. reflexivity.
Qed.

(* the tracer's resolution depends on the declared names only as a set (not on declaration order) *)
Lemma resolve_name_ext e e' al cur decl m n :
  (forall q, t_objects e q = t_objects e' q) -> t_schema e = t_schema e' ->
  (forall x, t_local e x = t_local e' x) ->
  resolve_name e al cur decl m n = resolve_name e' al cur decl m n.
Proof.
  intros Ho Hs Hl. unfold resolve_name.
  assert (Ht : forall x y, t_try e x y = t_try e' x y).
  { intros x y. unfold t_try, t_exists. rewrite Ho, Hs. reflexivity. }
  destruct (apply_module_aliases m al (Some cur)) as [ic mm].
  destruct mm as [[|f r]|]; destruct m as [x|]; simpl; repeat rewrite Ht; repeat rewrite Hl; reflexivity.
Qed.

(* ------------------------------------------------------------------------- *)
(* Part II: replaying an ordered, fully-qualified text                       *)
(* ------------------------------------------------------------------------- *)

Definition obj_names (l : schema) : list qname := flat_map (fun p => o_refs (snd p)) l.

Lemma resolve_refs_fq e al : forall rs,
  (forall r, In r rs -> mod_untouched al (q_mod r) /\ s_exists e r = true) ->
  resolve_refs e al (map print_q rs) = inl rs.
Proof.
  induction rs as [|r t IH]; intros H; [reflexivity|].
  simpl. destruct (H r (or_introl eq_refl)) as [Hu He].
  rewrite (search_fq e al r Hu He). rewrite IH; [reflexivity|].
  intros x Hx. apply H. right; exact Hx.
Qed.

Lemma obj_eta (o : obj) : mkObj (o_cls o) (o_data o) (o_refs o) = o.
Proof. destruct o; reflexivity. Qed.

Lemma replay_ok base hasmod dis al : forall l cur,
  NoDup (names cur ++ names l) ->
  (forall q, In q (names l) -> ~ In q base) ->
  (forall q, In q (names l ++ obj_names l) -> mod_untouched al (q_mod q)) ->
  (forall l1 p l2, l = l1 ++ p :: l2 -> forall r, In r (o_refs (snd p)) ->
      In r (names cur ++ names l1) \/ In r base) ->
  replay base hasmod dis al cur (map print_obj l) = inl (cur ++ l).
Proof.
  induction l as [|[q o] t IH]; intros cur Hnd Hb Hu Href; simpl.
  - rewrite app_nil_r. reflexivity.
  - unfold replay_stmt. simpl.
    rewrite (classname_fq al q) by (apply Hu; left; reflexivity).
    assert (Hq1 : memq q base = false) by (apply memq_nIn; apply Hb; left; reflexivity).
    assert (Hq2 : memq q (names cur) = false).
    { apply memq_nIn. intros Hin. simpl in Hnd. apply NoDup_remove_2 in Hnd. apply Hnd.
      apply in_or_app. left. exact Hin. }
    rewrite Hq1, Hq2. simpl.
    rewrite resolve_refs_fq.
    + rewrite obj_eta. rewrite IH.
      * rewrite <- app_assoc. reflexivity.
      * unfold names in *. rewrite map_app. simpl. rewrite <- app_assoc. simpl. exact Hnd.
      * intros x Hx. apply Hb. right; exact Hx.
      * intros x Hx. apply Hu. simpl. apply in_app_or in Hx. destruct Hx as [Hx|Hx].
        -- right. apply in_or_app. left. exact Hx.
        -- right. apply in_or_app. right. unfold obj_names. simpl. apply in_or_app. right. exact Hx.
      * intros l1 p l2 E r Hr. subst t.
        destruct (Href ((q, o) :: l1) p l2 eq_refl r Hr) as [H1|H1]; [left | right; exact H1].
        unfold names in *. rewrite map_app. simpl in *. rewrite <- app_assoc. simpl. exact H1.
    + intros r Hr. split.
      * apply Hu. simpl. right. apply in_or_app. right. unfold obj_names. simpl. apply in_or_app. left. exact Hr.
      * unfold env_of. simpl.
        destruct (Href [] (q, o) t eq_refl r Hr) as [H1|H1].
        -- simpl in H1. rewrite app_nil_r in H1. rewrite (proj2 (memq_In r (names cur)) H1). apply orb_true_r.
        -- rewrite (proj2 (memq_In r base) H1). reflexivity.
Qed.

(* ------------------------------------------------------------------------- *)
(* the order computed by describe                                            *)
(* ------------------------------------------------------------------------- *)

Fixpoint idxs (n : nat) (i : N) : list N :=
  match n with O => [] | S n' => i :: idxs n' (N.succ i) end.

Lemma keys_desc_graph tbl : forall s i, keys (desc_graph tbl s i) = idxs (length s) i.
Proof.
  induction s as [|[q o] t IH]; intros i; simpl; [reflexivity|]. rewrite IH. reflexivity.
Qed.

Lemma In_idxs : forall n i k, In k (idxs n i) <-> (i <= k /\ k < i + N.of_nat n)%N.
Proof.
  induction n as [|n IH]; intros i k; simpl.
  - split; [contradiction | lia].
  - rewrite IH. lia.
Qed.

Lemma NoDup_idxs : forall n i, NoDup (idxs n i).
Proof.
  induction n as [|n IH]; intros i; simpl; constructor; [|apply IH].
  rewrite In_idxs. lia.
Qed.

Lemma nth_obj_idxs : forall s pre,
  flat_map (nth_obj (pre ++ s)) (idxs (length s) (N.of_nat (length pre))) = s.
Proof.
  induction s as [|p t IH]; intros pre; simpl; [reflexivity|].
  unfold nth_obj at 1. rewrite Nnat.Nat2N.id.
  rewrite nth_error_app2 by lia. rewrite Nat.sub_diag. simpl. f_equal.
  specialize (IH (pre ++ [p])). rewrite <- app_assoc in IH. simpl in IH.
  rewrite app_length in IH. simpl in IH.
  replace (N.of_nat (length pre + 1)) with (N.succ (N.of_nat (length pre))) in IH by lia.
  exact IH.
Qed.

Lemma desc_graph_In tbl : forall s i k q o,
  nth_error s k = Some (q, o) ->
  In (i + N.of_nat k, {| r_weak := []; r_merge := None; r_deps := ref_indexes tbl (o_refs o); r_lctl := [] |})%N
     (desc_graph tbl s i).
Proof.
  induction s as [|[q' o'] t IH]; intros i k q o H; [destruct k; discriminate|].
  destruct k as [|k]; simpl in *.
  - inversion H. subst. left. f_equal. lia.
  - right. replace (i + N.pos (Pos.of_succ_nat k))%N with (N.succ i + N.of_nat k)%N by lia.
    apply IH with (q := q). exact H.
Qed.

Lemma index_of_spec q : forall l i j, index_of q l i = Some j ->
  (i <= j)%N /\ nth_error l (N.to_nat (j - i)) = Some q.
Proof.
  induction l as [|h t IH]; intros i j H; simpl in H; [discriminate|].
  destruct (qname_eqb q h) eqn:E.
  - inversion H. subst. apply qname_eqb_eq in E. subst. split; [lia|]. rewrite N.sub_diag. reflexivity.
  - destruct (IH _ _ H) as [H1 H2]. split; [lia|].
    replace (N.to_nat (j - i)) with (S (N.to_nat (j - N.succ i))) by lia. exact H2.
Qed.

Lemma index_of_some q : forall l i, In q l -> exists j, index_of q l i = Some j.
Proof.
  induction l as [|h t IH]; intros i Hin; [contradiction|]. simpl.
  destruct (qname_eqb q h) eqn:E; [eexists; reflexivity|].
  destruct Hin as [->|Hin]; [rewrite qname_eqb_refl in E; discriminate | apply IH; exact Hin].
Qed.

Lemma In_ref_indexes tbl refs r j : In r refs -> index_of r tbl 0%N = Some j -> In j (ref_indexes tbl refs).
Proof.
  intros Hr Hj. unfold ref_indexes. apply in_flat_map. exists r. split; [exact Hr|]. rewrite Hj. left. reflexivity.
Qed.

(* splitting the image of a flat_map whose pieces are empty or singletons *)
Lemma flat_map_split {A B} (f : A -> list B) :
  (forall a, length (f a) <= 1) ->
  forall o l1 p l2, flat_map f o = l1 ++ p :: l2 ->
  exists o1 i o2, o = o1 ++ i :: o2 /\ flat_map f o1 = l1 /\ f i = [p] /\ flat_map f o2 = l2.
Proof.
  intros Hf. induction o as [|a o IH]; intros l1 p l2 E; simpl in E.
  - destruct l1; discriminate.
  - pose proof (Hf a) as Ha. destruct (f a) as [|x [|y t]] eqn:Ea; simpl in *; [| |lia].
    + destruct (IH _ _ _ E) as [o1 [i [o2 [H1 [H2 [H3 H4]]]]]].
      exists (a :: o1), i, o2. subst. simpl. rewrite Ea. simpl. auto.
    + destruct l1 as [|z l1]; simpl in E.
      * inversion E. subst. exists [], a, o. simpl. auto.
      * inversion E as [[Ez Et]].
        destruct (IH _ _ _ Et) as [o1 [i [o2 [H1 [H2 [H3 H4]]]]]].
        exists (a :: o1), i, o2. subst. simpl. rewrite Ea. simpl. auto.
Qed.

Lemma nth_obj_len s i : length (nth_obj s i) <= 1.
Proof. unfold nth_obj. destruct (nth_error s (N.to_nat i)); simpl; lia. Qed.

(* well-formed schema over a base: distinct names, disjoint from the base, closed under references *)
Definition wf (base : list qname) (s : schema) : Prop :=
  NoDup (names s) /\ (forall q, In q (names s) -> ~ In q base) /\
  (forall q o r, In (q, o) s -> In r (o_refs o) -> In r (names s) \/ In r base).

Definition session_ok (al : aliases) (s : schema) : Prop :=
  forall q, In q (names s ++ obj_names s) -> mod_untouched al (q_mod q).

Lemma nth_names (s : schema) j r : nth_error (names s) j = Some r -> exists o, nth_error s j = Some (r, o).
Proof.
  unfold names. revert j. induction s as [|[q o] t IH]; intros [|j] H; simpl in *; try discriminate.
  - inversion H. subst. eexists; reflexivity.
  - apply IH. exact H.
Qed.

Lemma in_dec_q (q : qname) l : In q l \/ ~ In q l.
Proof. destruct (memq q l) eqn:E; [left; apply memq_In | right; apply memq_nIn]; exact E. Qed.

(* the main lemma: the text printed by describe_ddl, replayed in ANY session that leaves the
   schema's module names alone, on a database holding only the base names, rebuilds the schema *)
Lemma p_describe_rebuilds base s l :
  wf base s -> ordered s = inl (Some l) ->
  Permutation l s /\
  forall hasmod dis al, session_ok al s -> replay base hasmod dis al [] (map print_obj l) = inl l.
Proof.
  intros [Hnd [Hdis Hcl]] Ho. unfold ordered in Ho.
  destruct (sort_ex true (desc_graph (names s) s 0%N)) as [o|c|x k|] eqn:Es; try discriminate.
  inversion Ho. subst l. clear Ho.
  set (g := desc_graph (names s) s 0%N) in *.
  assert (Hk : keys g = idxs (length s) 0%N) by apply keys_desc_graph.
  assert (Hndg : NoDup (keys g)) by (rewrite Hk; apply NoDup_idxs).
  pose proof (C20_perm true g o Hndg Es) as Hperm.
  pose proof (C20_hard true g o Hndg Es) as Hhard.
  assert (Hndo : NoDup o) by (eapply Permutation_NoDup; [apply Permutation_sym; exact Hperm | exact Hndg]).
  assert (Hpl : Permutation (flat_map (nth_obj s) o) s).
  { pose proof (nth_obj_idxs s []) as H. simpl in H. rewrite <- H at 2. rewrite <- Hk.
    apply Permutation_flat_map. exact Hperm. }
  split; [exact Hpl|].
  intros hasmod dis al Hses.
  change (flat_map (nth_obj s) o) with ([] ++ flat_map (nth_obj s) o) at 2.
  assert (Hpn : Permutation (names (flat_map (nth_obj s) o)) (names s))
    by (unfold names; apply Permutation_map; exact Hpl).
  apply replay_ok.
  - simpl. eapply Permutation_NoDup; [apply Permutation_sym; exact Hpn | exact Hnd].
  - intros q Hq. apply Hdis. eapply Permutation_in; eassumption.
  - intros q Hq. apply Hses. apply in_app_or in Hq. apply in_or_app. destruct Hq as [Hq|Hq].
    + left. eapply Permutation_in; eassumption.
    + right. unfold obj_names in *. apply in_flat_map in Hq. destruct Hq as [p [Hp Hr]].
      apply in_flat_map. exists p. split; [eapply Permutation_in; eassumption | exact Hr].
  - intros l1 p l2 E r Hr. simpl.
    destruct (flat_map_split (nth_obj s) (nth_obj_len s) o l1 p l2 E) as [o1 [i [o2 [Eo [E1 [Ei E2]]]]]].
    destruct p as [q ob]. simpl in Hr.
    assert (Hi : nth_error s (N.to_nat i) = Some (q, ob)).
    { unfold nth_obj in Ei. destruct (nth_error s (N.to_nat i)); inversion Ei. reflexivity. }
    assert (Hin : In (q, ob) s) by (eapply nth_error_In; exact Hi).
    destruct (Hcl q ob r Hin Hr) as [Hrs|Hrb]; [left | right; exact Hrb].
    destruct (index_of_some r (names s) 0%N Hrs) as [j Hj].
    destruct (index_of_spec r _ _ _ Hj) as [_ Hnj]. rewrite N.sub_0_r in Hnj.
    destruct (nth_names s _ _ Hnj) as [oj Hsj].
    assert (Hjk : In j (keys g)).
    { rewrite Hk. apply In_idxs. split; [lia|].
      assert (N.to_nat j < length s) by (apply nth_error_Some; rewrite Hsj; discriminate). lia. }
    assert (Hb : before j i o).
    { apply Hhard. exists {| r_weak := []; r_merge := None; r_deps := ref_indexes (names s) (o_refs ob); r_lctl := [] |}.
      split; [|split; [|exact Hjk]].
      - pose proof (desc_graph_In (names s) s 0%N (N.to_nat i) q ob Hi) as H.
        rewrite Nnat.N2Nat.id in H. simpl in H. exact H.
      - right. simpl. eapply In_ref_indexes; eassumption. }
    destruct Hb as [a [b [c Eb]]].
    assert (E3 : o = (a ++ j :: b) ++ i :: c) by (rewrite Eb; rewrite <- app_assoc; reflexivity).
    pose proof (nodup_split_unique i o _ _ _ _ Hndo Eo E3) as Eo1.
    assert (Hl1 : In (r, oj) l1).
    { rewrite <- E1. apply in_flat_map. exists j. split.
      - rewrite Eo1. apply in_or_app. right. left. reflexivity.
      - unfold nth_obj. rewrite Hsj. left. reflexivity. }
    unfold names. change r with (fst (r, oj)). apply in_map. exact Hl1.
Qed.

Lemma ordered_total s : NoDup (names s) -> exists x, ordered s = inl x.
Proof.
  intros _. unfold ordered.
  assert (Hndg : NoDup (keys (desc_graph (names s) s 0%N))) by (rewrite keys_desc_graph; apply NoDup_idxs).
  destruct (sort_ex true (desc_graph (names s) s 0%N)) as [o|c|x k|] eqn:Es.
  - eexists; reflexivity.
  - eexists; reflexivity.
  - exfalso. destruct (C20_unresolved_sound true _ x k Hndg Es) as [H _]. discriminate.
  - exfalso. eapply C20_fuel_enough; eassumption.
Qed.

(* two sessions that both leave the module names alone rebuild literally the same schema *)
Lemma p_session_independent base s t :
  wf base s -> describe_ddl s = DText t ->
  exists s', Permutation s' s /\
    forall hasmod dis al, session_ok al s -> replay base hasmod dis al [] t = inl s'.
Proof.
  intros Hwf Hd. unfold describe_ddl in Hd.
  destruct (ordered s) as [[l|]|] eqn:Eo; try discriminate.
  inversion Hd. subst t.
  destruct (p_describe_rebuilds base s l Hwf Eo) as [Hp Hr].
  exists l. split; [exact Hp | exact Hr].
Qed.

(* a permutation of a duplicate-free schema is the same finite map *)
Lemma lookup_In q o : forall s, NoDup (names s) -> In (q, o) s -> lookup q s = Some o.
Proof.
  induction s as [|[k v] t IH]; intros Hnd Hin; [contradiction|].
  simpl in *. inversion Hnd as [|? ? Hni Hnd']. subst.
  destruct Hin as [E|Hin].
  - inversion E. subst. rewrite qname_eqb_refl. reflexivity.
  - destruct (qname_eqb q k) eqn:E.
    + apply qname_eqb_eq in E. subst. exfalso. apply Hni. change k with (fst (k, o)). apply in_map. exact Hin.
    + apply IH; assumption.
Qed.

Lemma lookup_Some q o : forall s, lookup q s = Some o -> In (q, o) s.
Proof.
  induction s as [|[k v] t IH]; simpl; [discriminate|].
  destruct (qname_eqb q k) eqn:E.
  - intros H. inversion H. subst. apply qname_eqb_eq in E. subst. left. reflexivity.
  - intros H. right. apply IH. exact H.
Qed.

Lemma p_perm_same_map s s' : Permutation s' s -> NoDup (names s) -> forall q, lookup q s' = lookup q s.
Proof.
  intros Hp Hnd q.
  assert (Hnd' : NoDup (names s')).
  { eapply Permutation_NoDup; [|exact Hnd]. unfold names. apply Permutation_map. apply Permutation_sym. exact Hp. }
  destruct (lookup q s) as [o|] eqn:E.
  - apply lookup_Some in E. apply lookup_In; [exact Hnd'|]. eapply Permutation_in; [apply Permutation_sym; exact Hp | exact E].
  - destruct (lookup q s') as [o|] eqn:E'; [|reflexivity].
    apply lookup_Some in E'. assert (In (q, o) s) by (eapply Permutation_in; eassumption).
    rewrite (lookup_In q o s Hnd H) in E. discriminate.
Qed.
