(* C02 — A computed migration turns the old schema into exactly the new one.
   Statements only; each is closed by [exact] of a lemma of Verif.Evo and followed by
   Print Assumptions (audited by the check on every run).

   What is proved (abstract model, Evo/Model.v):  a schema is a finite map
   name -> (class, data, referenced names); commands Create / Alter(+rename) / Delete carry the
   applicability conditions of the real commands.  [partition_okb A B cs] is the partition
   property the diff engine's output must have (every new object created xor altered from exactly
   one old object, every old object altered xor deleted, renames only between names not shared by
   both sides); [deps_okb] is the dependency order.  The theorems hold for EVERY such command
   list, i.e. whichever plan (alter, rename, drop+create; any similarity tie-break) is picked.
   [dobj] is a transliteration of the real delta_objects (tied by exact correspondence on stub
   objects); its output has the partition property.
   NOT proved here: the real per-class compare / as_alter_delta / ordering / apply code of ~40
   object classes; that is decided on the real code by the differential monitors of
   harness/props/c02.py. *)
From Coq Require Import List NArith Bool.
From Verif.C20 Require Import Model.
From Coq Require Import Permutation.
From Verif.Evo Require Import Model ProofsBase ProofsEvo ProofsTop ProofsDObj ProofsDiff.
Import ListNotations.

(* any command list with the partition property, in any dependency-respecting order, applied to
   the actual schema A, succeeds and yields exactly B (as a finite map) *)
Theorem C02_apply_partition : forall A B cs,
  NoDup (names A) -> wfb B = true ->
  partition_okb A B cs = true -> deps_okb A [] cs = true ->
  exists S, apply_all cs A = inl S /\ sch_equiv S B.
Proof. exact p_apply_partition. Qed.
Print Assumptions C02_apply_partition.

(* "whichever plan the diff engine picks": for EVERY valid matching m (class-preserving partial
   bijection; unmatched old objects are dropped, unmatched new ones created, matched ones altered /
   renamed) and EVERY dependency-respecting order of the induced commands, the result is B *)
Theorem C02_diff_any_order : forall m A B cs,
  wfb A = true -> wfb B = true -> valid_mb m A B = true ->
  Permutation cs (diff m A B) -> deps_okb A [] cs = true ->
  exists S, apply_all cs A = inl S /\ sch_equiv S B.
Proof. exact p_diff_any_order. Qed.
Print Assumptions C02_diff_any_order.

(* for every matching m: if the planner returns a plan, applying it gives B *)
Theorem C02_diff_apply : forall m A B cs, plan m A B = Plan cs ->
  exists S, apply_all cs A = inl S /\ sch_equiv S B.
Proof. exact p_diff_apply. Qed.
Print Assumptions C02_diff_apply.

Theorem C02_migrate_ok : forall m A B S, migrate m A B = MigOk S -> sch_equiv S B.
Proof. exact p_migrate_ok. Qed.
Print Assumptions C02_migrate_ok.

(* a planned migration is never rejected by apply *)
Theorem C02_migrate_no_error : forall m A B e, migrate m A B <> MigErr e.
Proof. exact p_migrate_no_error. Qed.
Print Assumptions C02_migrate_no_error.

(* nothing of A that B does not contain is left behind, and everything of B is present *)
Theorem C02_nothing_left : forall S B, sch_equiv S B -> forall n, In n (names S) <-> In n (names B).
Proof. exact p_nothing_left. Qed.
Print Assumptions C02_nothing_left.

(* the boolean equivalence used by the extracted model is the map equality of the theorems *)
Theorem C02_sch_eqb_iff : forall S T, sch_eqb S T = true <-> sch_equiv S T.
Proof. intros S T. split; [exact (sch_eqb_sound S T) | exact (sch_eqb_complete S T)]. Qed.
Print Assumptions C02_sch_eqb_iff.

(* ---- the partition computed by (the model of) delta_objects ---- *)
(* the pairing is a partial bijection between new and old objects ... *)
Theorem C02_partition_injective : forall i,
  NoDup (map fst (alter_pairs i)) /\ NoDup (map snd (alter_pairs i)).
Proof. exact p_pairs_injective. Qed.
Print Assumptions C02_partition_injective.

(* ... that relates new to old objects, and a name present on both sides only to itself *)
Theorem C02_partition_wellformed : forall i x y, In (x, y) (alter_pairs i) ->
  In x (d_new i) /\ In y (d_old i) /\ (x <> y -> ~ In x (d_old i) /\ ~ In y (d_new i)).
Proof. exact p_pairs_wellformed. Qed.
Print Assumptions C02_partition_wellformed.

(* without guidance / pre-decided renames: every new object is created xor paired, every old
   object is deleted xor paired *)
Theorem C02_partition : forall i, d_guid i = None -> d_ren i = [] ->
  (forall x, In x (d_new i) ->
     ((exists c, In (DCreate x c) (dobj i)) <-> ~ In x (map fst (alter_pairs i)))) /\
  (forall y, In y (d_old i) ->
     ((exists c, In (DDelete y c) (dobj i)) <-> ~ In y (map snd (alter_pairs i)))).
Proof. exact p_partition. Qed.
Print Assumptions C02_partition.

(* always (guidance and renames included): no object gets two commands *)
Theorem C02_partition_disjoint : forall i,
  (forall x c, In (DCreate x c) (dobj i) -> In x (d_new i) /\ ~ In x (map fst (alter_pairs i))) /\
  (forall y c, In (DDelete y c) (dobj i) -> In y (d_old i) /\ ~ In y (map snd (alter_pairs i))).
Proof. exact p_disjoint. Qed.
Print Assumptions C02_partition_disjoint.

Theorem C02_alter_is_pair : forall i y x c, In (DAlter y x c) (dobj i) -> In (x, y) (alter_pairs i).
Proof. exact p_alter_is_pair. Qed.
Print Assumptions C02_alter_is_pair.

Theorem C02_alter_threshold : forall i y x c, d_guid i = None -> d_ren i = [] ->
  In (DAlter y x c) (dobj i) ->
  exists s, In (x, y, s) (comparison_map i) /\ (60 < s)%N /\ (s < 100)%N.
Proof. exact p_alter_threshold. Qed.
Print Assumptions C02_alter_threshold.

(* ---- non-vacuity: the hypotheses are satisfiable on non-trivial schemas ---- *)
Definition o (c d : N) (r : list N) := mkObj c d r.
(* A: 1 <- 2 <- 3 ;  B: 1 (changed), 4 (= 2 renamed, now also refers to 5), 5 new ; 3 dropped *)
Definition exA : schema := [(1, o 1 10 []); (2, o 1 20 [1]); (3, o 2 30 [2])]%N.
Definition exB : schema := [(1, o 1 11 []); (5, o 3 50 [1]); (4, o 1 21 [1; 5])]%N.
Definition exM : list (name * name) := [(1, 1); (2, 4)]%N.
Example ex_plan_is_plan : exists cs, plan exM exA exB = Plan cs /\ length cs = 4.
Proof. eexists. split; vm_compute; reflexivity. Qed.
Example ex_migrate : exists S, migrate exM exA exB = MigOk S /\ sch_eqb S exB = true.
Proof. eexists. split; vm_compute; reflexivity. Qed.
(* drop + create instead of rename (another plan for the same pair) also works *)
Example ex_migrate_dropcreate : exists S, migrate [(1, 1)]%N exA exB = MigOk S /\ sch_eqb S exB = true.
Proof. eexists. split; vm_compute; reflexivity. Qed.
(* same name re-created while an altered object keeps referring to it: the one-command-per-object
   plan is cyclic, and the model says so instead of producing a wrong schema *)
Example ex_cycle : migrate [(2, 2)]%N [(1, o 1 10 []); (2, o 1 20 [1])]%N [(1, o 2 99 []); (2, o 1 20 [1])]%N = MigCycle.
Proof. vm_compute. reflexivity. Qed.
(* a wrongly ordered command list is rejected by apply, exactly like the real commands *)
Example ex_bad_order : apply_all [Create 4 (o 1 21 [1; 5]); Create 5 (o 3 50 [1])]%N [(1, o 1 11 [])]%N
                       = inr (EDangling 4 5)%N.
Proof. vm_compute. reflexivity. Qed.
Definition exI : dinput :=
  {| d_old := [1; 2; 3]%N; d_new := [2; 3; 4]%N;
     d_sim := [((2, 2), 100); ((3, 3), 80); ((4, 1), 80)]%N; d_sub := [];
     d_ren := []; d_guid := None; d_pc := PNone |}.
Example ex_dobj : dobj exI = [DAlter 3 3 100; DAlter 1 4 80]%N /\ alter_pairs exI = [(2, 2); (3, 3); (4, 1)]%N.
Proof. split; vm_compute; reflexivity. Qed.
