(* C17 — compiler workers always compile against the caller's current state.
   Statements only; each is closed by [exact] of a lemma of Proofs.v and followed by
   Print Assumptions (audited by the check on every run).

   Vocabulary (Model.v).  A history [h : list op] is any sequence of
     ORestart w dbs gs sc              a new worker process w, initialised from these init args
     OCompile w m db us gs rc dc sc f  compile / compile_notebook / _sql / _graphql served by w
     OTx avail db us ps f              compile_in_tx; [avail] = the queue of free workers
   over any number of workers and databases.  The five values (us gs rc dc sc = user schema
   pickle, global schema pickle, reflection cache, database config, system config) and the
   pickled transaction state [ps] are OBJECT IDENTITIES (N; 0 = None) on the server side;
   [cont x] is the content of object x (what the worker gets by unpickling it), [fal x] says
   that x is falsy (empty map / b'').  Both functions are arbitrary: every theorem holds for
   all of them.  [f] places a fault in the request: request lost, pickle.loads of field i
   fails inside the worker, the compiler raises, the reply is unusable (status 2).
   [run true true fal cont sys0 h] = the list of (request, outcome); the outcome of a compile request is
   [OutC x (ObsC a b c d e) re]: x = what was put on the wire, a..e = the CONTENTS with which
   the worker-side compiler entry point was entered (user schema, global schema, reflection
   cache, database config, system config), re = the reply; of compile_in_tx
   [OutT w reuse (ObsT sid root) re]: serving worker, marker sent?, state id and root user
   schema content the compiler was entered with.
   [run true true ...] / [step true true ...]: the two booleans select the code as pinned (both
   repairs of commits ab51dc9 and 8dbc525 present; the older variants exist for Refuted.v).
   [clean_hist h] (executable, Model.v): no request supplies None for one of the five values,
   compile_in_tx never supplies None as state, and no compile* request gets an unusable
   (status 2) reply.  EVERY other fault placement is allowed (request lost, unpickle failure
   of any of the six fields, compiler exception), as are falsy (empty) objects.  Status-2
   replies are where the full statement FAILS of the pinned code: Refuted.v (known finding
   C17-status2-unacked).
   Vocabulary (Proofs.v): [in_sync cont b r] = every database the server believes worker to
   hold is held with exactly the believed contents, same for global schema, system config,
   and the believed LAST_STATE. *)
From Coq Require Import List NArith Bool.
From Verif.C17 Require Import Model Proofs NoReturn.
Import ListNotations.
Local Open Scope N_scope.

(* whatever the history: the compiler is entered with exactly the five values supplied *)
Theorem C17_args_exact : forall (fal : N -> bool) (cont : N -> N) h
    w m db us gs rc dc sc f x a b c d e re,
  clean_hist h = true ->
  In (OCompile w m db us gs rc dc sc f, OutC x (ObsC a b c d e) re) (run true true fal cont sys0 h) ->
  a = cont us /\ b = cont gs /\ c = cont rc /\ d = cont dc /\ e = cont sc.
Proof. exact p_args_exact. Qed.
Print Assumptions C17_args_exact.

(* compile_in_tx: the state is the one supplied; unless the marker was sent, the root user
   schema is the one supplied (with the marker the worker's cached state object is used) *)
Theorem C17_tx_exact : forall (fal : N -> bool) (cont : N -> N) h
    avail db us ps f w reuse sid root re,
  clean_hist h = true ->
  In (OTx avail db us ps f, OutT w reuse (ObsT sid root) re) (run true true fal cont sys0 h) ->
  sid = ps /\ (reuse = false -> root = cont us).
Proof. exact p_tx_exact. Qed.
Print Assumptions C17_tx_exact.

(* after every request the server's belief about every worker is what the worker holds *)
Theorem C17_belief_sound : forall (fal : N -> bool) (cont : N -> N) h w b r,
  clean_hist h = true ->
  find w (ws (final true true fal cont sys0 h)) = Some (b, r) -> in_sync cont b r.
Proof. exact p_belief_sound. Qed.
Print Assumptions C17_belief_sound.

(* NO hypothesis on the state, the values or the fault: every value that is transmitted is
   the one the compiler is entered with *)
Theorem C17_sent_exact : forall (fal : N -> bool) (cont : N -> N) s
    w m db us gs rc dc sc f s' x a b c d e re,
  step true true fal cont s (OCompile w m db us gs rc dc sc f) = (s', OutC x (ObsC a b c d e) re) ->
  (x_us x <> None -> a = cont us) /\ (x_gs x <> None -> b = cont gs) /\
  (x_rc x <> None -> c = cont rc) /\ (x_dc x <> None -> d = cont dc) /\
  (x_sc x <> None -> e = cont sc).
Proof. exact sent_exact. Qed.
Print Assumptions C17_sent_exact.

(* database switch: for a database the server does not believe the worker to have,
   everything is transmitted and used, whatever state the worker is in *)
Theorem C17_unknown_db_sends_all : forall (fal : N -> bool) (cont : N -> N) s w b r
    m db us gs rc dc sc f s' x a bb c d e re,
  find w (ws s) = Some (b, r) -> find db (b_dbs b) = None ->
  is_none us = false -> is_none gs = false ->
  step true true fal cont s (OCompile w m db us gs rc dc sc f) = (s', OutC x (ObsC a bb c d e) re) ->
  a = cont us /\ bb = cont gs /\ c = cont rc /\ d = cont dc /\ e = cont sc.
Proof. exact unknown_db_exact. Qed.
Print Assumptions C17_unknown_db_sends_all.

(* every history, every fault, every value: the server never believes a worker to have a
   database that the worker does not have (compile_in_tx by name cannot hit a KeyError) *)
Theorem C17_keys_sound : forall (fal : N -> bool) (cont : N -> N) h w b r db,
  find w (ws (final true true fal cont sys0 h)) = Some (b, r) ->
  find db (b_dbs b) <> None -> find db (w_dbs r) <> None.
Proof. exact p_keys_sound. Qed.
Print Assumptions C17_keys_sound.

(* EVERY fault placement, status-2 replies included: if no request supplies None and the caller
   never returns to an object it has left ([no_return h], executable, Model.v: per database and
   field, and for the global schema / system config, the sequence of supplied identities -
   init args of worker starts and compile_in_tx root schemas included - never comes back to an
   identity after a different one), the compiler is entered with exactly the values supplied.
   (So the known finding C17-status2-unacked can only surface as a stale argument when a
   caller re-supplies an earlier object, or through the cached transaction state.) *)
Theorem C17_noreturn_args_exact : forall (fal : N -> bool) (cont : N -> N) h
    w m db us gs rc dc sc f x a b c d e re,
  forallb nn_req h = true -> no_return h = true ->
  In (OCompile w m db us gs rc dc sc f, OutC x (ObsC a b c d e) re) (run true true fal cont sys0 h) ->
  a = cont us /\ b = cont gs /\ c = cont rc /\ d = cont dc /\ e = cont sc.
Proof. exact p_noreturn_args_exact. Qed.
Print Assumptions C17_noreturn_args_exact.

(* ... and compile_in_tx, whenever the state is transmitted (no marker), runs on the supplied
   state with the supplied root user schema *)
Theorem C17_noreturn_tx_exact : forall (fal : N -> bool) (cont : N -> N) h
    avail db us ps f w sid root re,
  forallb nn_req h = true -> no_return h = true ->
  In (OTx avail db us ps f, OutT w false (ObsT sid root) re) (run true true fal cont sys0 h) ->
  sid = ps /\ root = cont us.
Proof. exact p_noreturn_tx_exact. Qed.
Print Assumptions C17_noreturn_tx_exact.

(* ------------------------------------------------------------------ *)
(* the hypotheses are satisfiable on non-trivial histories             *)

Definition ex_h : list op :=
  [ORestart 1 [(1, mkP 2 8 10)] 4 6; ORestart 2 [] 4 6;
   OCompile 1 (MCompile true) 1 2 4 8 20 6 FNone;         (* only the changed config travels *)
   OCompile 2 MOther 1 2 4 8 20 6 (FUnpickle 3);          (* failed transfer, nothing stored *)
   OCompile 2 MOther 1 3 4 8 20 6 FCompiler;              (* compiler error: still acknowledged *)
   OTx [2; 1] 1 2 3 FNone;                                (* queue prefers the worker with the state *)
   OCompile 1 MOther 1 12 14 8 20 16 FNone;
   OTx [2] 1 2 6 FNone;                                   (* other worker: state + root schema sent *)
   OCompile 1 MOther 1 13 15 8 100 16 (FUnpickle 2);      (* global schema fails: nothing stored *)
   OCompile 1 MOther 1 12 14 8 100 16 FNone;              (* empty config: sent and recorded *)
   OCompile 1 MOther 1 12 14 8 20 16 FNone].              (* back to object 20: sent again *)

Example C17_clean_nonvacuous :
  clean_hist ex_h = true /\
  map snd (run true true fal0 cont0 sys0 ex_h) =
  [OutR true; OutR true;
   OutC (mkWire None None None (Some 20) None) (ObsC 1 2 4 10 3) (ROk 3);
   OutC (mkWire (Some 2) (Some 8) (Some 4) (Some 20) (Some 6)) ObsNone (RErr ESync);
   OutC (mkWire (Some 3) (Some 8) (Some 4) (Some 20) (Some 6)) (ObsC 1 2 4 10 3) (RErr EComp);
   OutT 1 true (ObsT 3 1) (ROk 6);
   OutC (mkWire (Some 12) None (Some 14) None (Some 16)) (ObsC 6 7 4 10 8) (ROk 0);
   OutT 2 false (ObsT 6 1) (ROk 8);
   OutC (mkWire (Some 13) None (Some 15) (Some 100) None) ObsNone (RErr ESync);
   OutC (mkWire None None None (Some 100) None) (ObsC 6 7 4 50 8) (ROk 0);
   OutC (mkWire None None None (Some 20) None) (ObsC 6 7 4 10 8) (ROk 0)].
Proof. split; vm_compute; reflexivity. Qed.

Definition ex_nr : list op :=
  [ORestart 1 [(1, mkP 2 8 10)] 4 6;
   OCompile 1 MOther 1 2 4 8 20 6 FReplyLost;        (* worker has config 20, server not told *)
   OCompile 1 MOther 1 2 4 8 20 6 FNone;             (* same object again: re-sent *)
   OCompile 1 MOther 1 12 4 8 22 6 FReplyLost;
   OCompile 1 MOther 1 12 4 8 100 6 (FUnpickle 4);
   OCompile 1 MOther 1 14 4 8 100 16 FNone].

Example C17_noreturn_nonvacuous :
  forallb nn_req ex_nr = true /\ no_return ex_nr = true /\ clean_hist ex_nr = false /\
  map snd (run true true fal0 cont0 sys0 ex_nr) =
  [OutR true;
   OutC (mkWire None None None (Some 20) None) (ObsC 1 2 4 10 3) (RErr EReply);
   OutC (mkWire None None None (Some 20) None) (ObsC 1 2 4 10 3) (ROk 0);
   OutC (mkWire (Some 12) None None (Some 22) None) (ObsC 6 2 4 11 3) (RErr EReply);
   OutC (mkWire (Some 12) None None (Some 100) None) (ObsC 6 2 4 50 3) (ROk 0);
   OutC (mkWire (Some 14) None None None (Some 16)) (ObsC 7 2 4 50 8) (ROk 0)].
Proof. repeat split; vm_compute; reflexivity. Qed.
