(* C17 — the FULL statement (every history over non-None values, every fault placement) is
   false of the faithful model of the pinned code, and two older defects are kept as refuted
   model variants (they were repaired in /repo by `fix:` commits; the check alarms if the real
   code reproduces them again).  Each witness is computed by vm_compute and replayed on the real
   code by harness/props/c17.py (WITNESSES):
     status 2     [pinned code: run true true]  the worker synced, compiled and replaced
                  LAST_STATE, the reply could not be serialised (status 2): BaseWorker.call
                  raises without the callback and AbstractPool.compile does not touch
                  _last_pickled_state.  The server still believes the worker holds the older
                  values / caches the older state; it sends nothing / REUSE_LAST_STATE_MARKER
                  for them.                                   (known finding C17-status2-unacked)
     falsy        [variant run false true, before commit ab51dc9]  an empty (falsy) database
                  config is transmitted but, because of the `database_config or
                  worker_db.database_config` merge in sync_worker_state_cb, not recorded; when the
                  caller returns to the earlier object nothing is sent.
     partial sync [variant run true false, before commit 8dbc525]  __sync__ stores the
                  per-database part, then fails on the global schema: FailedStateSync, the
                  server keeps its old belief, the worker has moved.
   [fal0]/[cont0] are the concrete truthiness/content functions of the correspondence check. *)
From Coq Require Import List NArith Bool.
From Verif.C17 Require Import Model Proofs.
Import ListNotations.
Local Open Scope N_scope.

Definition args_exact_at (fx1 fx2 : bool) (fal : N -> bool) (cont : N -> N) (h : list op) : Prop :=
  forall w m db us gs rc dc sc f x a b c d e re,
  In (OCompile w m db us gs rc dc sc f, OutC x (ObsC a b c d e) re) (run fx1 fx2 fal cont sys0 h) ->
  a = cont us /\ b = cont gs /\ c = cont rc /\ d = cont dc /\ e = cont sc.

Definition tx_exact_at (fx1 fx2 : bool) (fal : N -> bool) (cont : N -> N) (h : list op) : Prop :=
  forall avail db us ps f w reuse sid root re,
  In (OTx avail db us ps f, OutT w reuse (ObsT sid root) re) (run fx1 fx2 fal cont sys0 h) ->
  sid = ps /\ (reuse = false -> root = cont us).

(* no request supplies None *)
Definition nn_op (o : op) : bool :=
  match o with
  | OCompile w m db us gs rc dc sc f => nn us && nn gs && nn rc && nn dc && nn sc
  | OTx avail db us ps f => nn us && nn ps
  | ORestart w dbs gs sc =>
    nn gs && nn sc && forallb (fun e => nn (p_us (snd e)) && nn (p_rc (snd e)) && nn (p_dc (snd e))) dbs
  end.
Definition no_fault (o : op) : bool :=
  match o with
  | OCompile _ _ _ _ _ _ _ _ FNone | OTx _ _ _ _ FNone | ORestart _ _ _ _ => true
  | _ => false
  end.
Definition all_truthy (fal : N -> bool) (o : op) : bool :=
  match o with
  | OCompile w m db us gs rc dc sc f =>
    truthy fal us && truthy fal gs && truthy fal rc && truthy fal dc && truthy fal sc
  | OTx avail db us ps f => truthy fal us && nn ps
  | ORestart w dbs gs sc => true
  end.

(* the full statement of the property over the model of the pinned code *)
Definition C17_full : Prop :=
  forall fal cont h, forallb nn_op h = true ->
    args_exact_at true true fal cont h /\ tx_exact_at true true fal cont h /\
    (forall w b r, find w (ws (final true true fal cont sys0 h)) = Some (b, r) -> in_sync cont b r).

(* ---- pinned code: status-2 replies ---- *)

Definition wit_status2 : list op :=
  [ORestart 1 [(1, mkP 2 8 10)] 4 6;
   OCompile 1 (MCompile true) 1 2 4 8 10 6 FNone;         (* returns state 2: cached by worker 1 *)
   OCompile 1 (MCompile true) 1 2 4 8 10 6 FReplyLost;    (* worker now caches state 3; reply unusable *)
   OTx [1] 1 2 2 FNone].                                  (* state 2 supplied: marker sent, state 3 used *)

Theorem C17_status2_refuted : exists h,
  forallb nn_op h = true /\ forallb (all_truthy fal0) h = true /\
  ~ tx_exact_at true true fal0 cont0 h.
Proof.
  exists wit_status2. split; [reflexivity|]. split; [reflexivity|]. intro H.
  specialize (H [1] 1 2 2 FNone 1 true 3 1 (ROk 4)).
  assert (X : 3 = 2) by (apply H; vm_compute; auto).
  discriminate X.
Qed.

Definition wit_status2_args : list op :=
  [ORestart 1 [(1, mkP 2 8 10)] 4 6;
   OCompile 1 MOther 1 2 4 8 20 6 FReplyLost;    (* new database config stored by the worker, reply unusable *)
   OCompile 1 MOther 1 2 4 8 10 6 FNone].        (* the earlier object: nothing is sent *)

Theorem C17_status2_args_refuted : exists h,
  forallb (all_truthy fal0) h = true /\ ~ args_exact_at true true fal0 cont0 h.
Proof.
  exists wit_status2_args. split; [reflexivity|]. intro H.
  specialize (H 1 MOther 1 2 4 8 10 6 FNone (mkWire None None None None None) 1 2 4 10 3 (ROk 0)).
  assert (X : 10 = cont0 10) by (apply H; vm_compute; auto).
  vm_compute in X. discriminate X.
Qed.

Theorem C17_belief_refuted : exists h w b r,
  forallb (all_truthy fal0) h = true /\
  find w (ws (final true true fal0 cont0 sys0 h)) = Some (b, r) /\ ~ in_sync cont0 b r.
Proof.
  exists [ORestart 1 [(1, mkP 2 8 10)] 4 6; OCompile 1 MOther 1 2 4 8 20 6 FReplyLost].
  eexists 1, _, _. split; [reflexivity|]. split; [vm_compute; reflexivity|].
  intros (Hd & _). specialize (Hd 1 (mkP 2 8 10) eq_refl). vm_compute in Hd. discriminate Hd.
Qed.

Theorem C17_full_refuted : ~ C17_full.
Proof.
  intro H. destruct C17_status2_refuted as (h & Hn & _ & Hx).
  apply Hx. exact (proj1 (proj2 (H fal0 cont0 h Hn))).
Qed.

(* ---- older variants (repaired in /repo) ---- *)

Definition wit_falsy : list op :=
  [ORestart 1 [(1, mkP 2 8 10)] 4 6;
   OCompile 1 MOther 1 2 4 8 100 6 FNone;      (* database config := an empty map (object 100) *)
   OCompile 1 MOther 1 2 4 8 10 6 FNone].      (* back to object 10: nothing is sent *)

Theorem C17_falsy_refuted : exists h,
  forallb nn_op h = true /\ forallb no_fault h = true /\ ~ args_exact_at false true fal0 cont0 h.
Proof.
  exists wit_falsy. split; [reflexivity|]. split; [reflexivity|]. intro H.
  specialize (H 1 MOther 1 2 4 8 10 6 FNone (mkWire None None None None None) 1 2 4 50 3 (ROk 0)).
  assert (X : 50 = cont0 10) by (apply H; vm_compute; auto).
  vm_compute in X. discriminate X.
Qed.

Definition wit_partial : list op :=
  [ORestart 1 [(1, mkP 2 8 10)] 4 6;
   OCompile 1 MOther 1 12 14 8 10 6 (FUnpickle 2);   (* new user schema stored, global schema fails *)
   OCompile 1 MOther 1 2 4 8 10 6 FNone].            (* the earlier objects: nothing is sent *)

Theorem C17_partial_sync_refuted : exists h,
  forallb (all_truthy fal0) h = true /\ ~ args_exact_at true false fal0 cont0 h.
Proof.
  exists wit_partial. split; [reflexivity|]. intro H.
  specialize (H 1 MOther 1 2 4 8 10 6 FNone (mkWire None None None None None) 6 2 4 5 3 (ROk 0)).
  assert (X : 6 = cont0 2) by (apply H; vm_compute; auto).
  vm_compute in X. discriminate X.
Qed.

(* with both repairs the two older witnesses are exact again *)
Example C17_repaired_witnesses :
  map snd (run true true fal0 cont0 sys0 wit_falsy) =
    [OutR true;
     OutC (mkWire None None None (Some 100) None) (ObsC 1 2 4 50 3) (ROk 0);
     OutC (mkWire None None None (Some 10) None) (ObsC 1 2 4 5 3) (ROk 0)] /\
  map snd (run true true fal0 cont0 sys0 wit_partial) =
    [OutR true;
     OutC (mkWire (Some 12) None (Some 14) None None) ObsNone (RErr ESync);
     OutC (mkWire None None None None None) (ObsC 1 2 4 5 3) (ROk 0)].
Proof. split; vm_compute; reflexivity. Qed.

Print Assumptions C17_status2_refuted.
Print Assumptions C17_status2_args_refuted.
Print Assumptions C17_belief_refuted.
Print Assumptions C17_full_refuted.
Print Assumptions C17_falsy_refuted.
Print Assumptions C17_partial_sync_refuted.
