(* C17 — lemmas.  See Props.v for the statements that count. *)
From Coq Require Import List NArith Bool Lia.
From Verif.C17 Require Import Model.
Import ListNotations.
Local Open Scope N_scope.

(* ------------------------------------------------------------------ *)
(* association lists                                                   *)

Lemma find_upsert_same : forall A k (v : A) l, find k (upsert k v l) = Some v.
Proof.
  induction l as [|[k' v'] t IH]; cbn.
  - now rewrite N.eqb_refl.
  - destruct (k =? k') eqn:E; cbn.
    + now rewrite N.eqb_refl.
    + now rewrite E.
Qed.

Lemma find_upsert_other : forall A k k' (v : A) l, k' <> k -> find k' (upsert k v l) = find k' l.
Proof.
  induction l as [|[k2 v2] t IH]; cbn; intros Hn.
  - destruct (k' =? k) eqn:E; [apply N.eqb_eq in E; congruence | reflexivity].
  - destruct (k =? k2) eqn:E; cbn.
    + apply N.eqb_eq in E; subst k2.
      destruct (k' =? k) eqn:E2; [apply N.eqb_eq in E2; congruence | reflexivity].
    + destruct (k' =? k2); [reflexivity | now apply IH].
Qed.

Lemma find_upsert : forall A k k' (v : A) l,
  find k' (upsert k v l) = if k' =? k then Some v else find k' l.
Proof.
  intros. destruct (k' =? k) eqn:E.
  - apply N.eqb_eq in E; subst. apply find_upsert_same.
  - apply find_upsert_other. intro; subst. now rewrite N.eqb_refl in E.
Qed.

Lemma find_remove : forall A k k' (l : list (N * A)),
  find k' (remove k l) = if k' =? k then None else find k' l.
Proof.
  induction l as [|[k2 v2] t IH]; cbn.
  - now destruct (k' =? k).
  - destruct (k =? k2) eqn:E; cbn.
    + apply N.eqb_eq in E; subst k2. rewrite IH. now destruct (k' =? k).
    + destruct (k' =? k2) eqn:E2.
      * apply N.eqb_eq in E2; subst k2.
        destruct (k' =? k) eqn:E3; [|reflexivity].
        apply N.eqb_eq in E3; subst. now rewrite N.eqb_refl in E.
      * apply IH.
Qed.

Lemma find_map : forall A B (g : A -> B) k (l : list (N * A)),
  find k (map (fun e => (fst e, g (snd e))) l) = option_map g (find k l).
Proof.
  induction l as [|[k2 v2] t IH]; cbn; [reflexivity|].
  destruct (k =? k2); [reflexivity | apply IH].
Qed.

Ltac dmatch :=
  match goal with
  | H : context [match ?x with _ => _ end] |- _ =>
      let E := fresh "E" in destruct x eqn:E
  end.

Ltac inv H := inversion H; subst; clear H.

Section Lemmas.
Variable fal : N -> bool.
Variable cont : N -> N.

Notation falsy := (falsy fal).
Notation unp_raw := (unp_raw fal cont).
Notation unp_map := (unp_map fal cont).
Notation sync_db := (sync_db fal cont).
(* the code as pinned: both repairs present (Model.v, variants fx1 fx2) *)
Notation sync := (sync true fal cont).
Notation ack := (ack true fal).
Notation compile_op := (compile_op true true fal cont).
Notation tx_op := (tx_op fal cont).
Notation init_worker := (init_worker fal cont).
Notation step := (step true true fal cont).
Notation run := (run true true fal cont).
Notation final := (final true true fal cont).

(* ------------------------------------------------------------------ *)
(* what the worker stores: true of every state and every fault         *)

Lemma unp_raw_some : forall f i v c, unp_raw f i v = Some c -> c = cont v.
Proof. unfold Model.unp_raw; intros. repeat dmatch; congruence. Qed.

Lemma unp_map_some : forall f i v c, unp_map f i v = Some c -> c = cont v.
Proof. unfold Model.unp_map; intros. repeat dmatch; congruence. Qed.

Lemma opt_unp_raw_spec : forall f i w old c, opt_unp (unp_raw f i) w old = Some c ->
  (forall v, w = Some v -> c = cont v) /\ (w = None -> c = old).
Proof.
  intros f i [v|] old c H; cbn in H; split; intros; try congruence.
  - inv H0. eapply unp_raw_some; eauto.
Qed.

Lemma opt_unp_map_spec : forall f i w old c, opt_unp (unp_map f i) w old = Some c ->
  (forall v, w = Some v -> c = cont v) /\ (w = None -> c = old).
Proof.
  intros f i [v|] old c H; cbn in H; split; intros; try congruence.
  - inv H0. eapply unp_map_some; eauto.
Qed.

Lemma sync_db_spec : forall f r db x r1 d, sync_db f r db x = Some (r1, d) ->
  r1 = set_wdbs r (upsert db d (w_dbs r)) /\
  (forall v, x_us x = Some v -> d_us d = cont v) /\
  (forall v, x_rc x = Some v -> d_rc d = cont v) /\
  (forall v, x_dc x = Some v -> d_dc d = cont v) /\
  (forall d0, find db (w_dbs r) = Some d0 ->
     (x_us x = None -> d_us d = d_us d0) /\ (x_rc x = None -> d_rc d = d_rc d0) /\
     (x_dc x = None -> d_dc d = d_dc d0)).
Proof.
  unfold Model.sync_db; intros f r db x r1 d H.
  destruct (find db (w_dbs r)) as [d0|] eqn:Ef.
  - destruct (opt_unp (unp_raw f 0) (x_us x) (d_us d0)) as [cu|] eqn:E1; [|discriminate].
    destruct (opt_unp (unp_map f 1) (x_rc x) (d_rc d0)) as [cr|] eqn:E2; [|discriminate].
    destruct (opt_unp (unp_map f 3) (x_dc x) (d_dc d0)) as [cd|] eqn:E3; [|discriminate].
    inv H. apply opt_unp_raw_spec in E1. apply opt_unp_map_spec in E2. apply opt_unp_map_spec in E3.
    cbn. repeat split; intros; try (now apply E1) || (now apply E2) || (now apply E3);
      match goal with H : Some _ = Some _ |- _ => inv H end; intuition.
  - destruct (x_us x) as [us|]; [|discriminate].
    destruct (x_rc x) as [rc|]; [|discriminate].
    destruct (x_dc x) as [dc|]; [|discriminate].
    destruct (unp_raw f 0 us) eqn:E1; [|discriminate].
    destruct (unp_map f 1 rc) eqn:E2; [|discriminate].
    destruct (unp_map f 3 dc) eqn:E3; [|discriminate].
    inv H. apply unp_raw_some in E1. apply unp_map_some in E2. apply unp_map_some in E3.
    cbn. repeat split; intros; try congruence.
Qed.

Lemma sync_ok_spec : forall f r db x r' d, sync f r db x = SOk r' d ->
  exists r1, sync_db f r db x = Some (r1, d) /\
    w_dbs r' = w_dbs r1 /\ w_last r' = w_last r /\
    (forall v, x_gs x = Some v -> w_gs r' = cont v) /\ (x_gs x = None -> w_gs r' = w_gs r) /\
    (forall v, x_sc x = Some v -> w_sc r' = cont v) /\ (x_sc x = None -> w_sc r' = w_sc r).
Proof.
  unfold Model.sync; intros f r db x r' d H.
  destruct (sync_db f r db x) as [[r1 d1]|] eqn:E; [|discriminate].
  destruct (opt_unp (unp_raw f 2) (x_gs x) (w_gs r1)) as [cg|] eqn:Eg; [|discriminate].
  destruct (opt_unp (unp_map f 4) (x_sc x) (w_sc (set_wgs r1 cg))) as [cs|] eqn:Es; [|discriminate].
  inv H. exists r1. apply sync_db_spec in E as E'. destruct E' as [-> _].
  apply opt_unp_raw_spec in Eg. apply opt_unp_map_spec in Es. cbn in *.
  intuition.
Qed.

Lemma sync_find : forall f r db x r' d, sync f r db x = SOk r' d ->
  find db (w_dbs r') = Some d /\ forall db', db' <> db -> find db' (w_dbs r') = find db' (w_dbs r).
Proof.
  intros. apply sync_ok_spec in H as (r1 & E & Hd & _). apply sync_db_spec in E as [-> _].
  rewrite Hd. cbn. split; [apply find_upsert_same | intros; now apply find_upsert_other].
Qed.

(* the wire carries the supplied objects *)
Lemma preargs_wire : forall b db us gs rc dc sc x u, preargs b db us gs rc dc sc = (x, u) ->
  (forall v, x_us x = Some v -> v = us) /\ (forall v, x_rc x = Some v -> v = rc) /\
  (forall v, x_gs x = Some v -> v = gs) /\ (forall v, x_dc x = Some v -> v = dc) /\
  (forall v, x_sc x = Some v -> v = sc).
Proof.
  unfold preargs, raw_wire; intros.
  destruct (find db (b_dbs b)) as [pd|]; inv H; cbn;
    repeat split; intros v Hv; repeat dmatch; congruence.
Qed.


(* ------------------------------------------------------------------ *)
(* vocabulary of Props.v                                               *)

(* the server's belief about a worker is what the worker holds *)
Definition in_sync (b : srv) (r : wrk) : Prop :=
  (forall db pd, find db (b_dbs b) = Some pd ->
     find db (w_dbs r) = Some (mkD (cont (p_us pd)) (cont (p_rc pd)) (cont (p_dc pd)))) /\
  w_gs r = cont (b_gs b) /\ w_sc r = cont (b_sc b) /\
  (b_last b <> 0 -> exists root, w_last r = Some (b_last b, root)).

Definition sys_sync (s : sys) : Prop :=
  forall w b r, find w (ws s) = Some (b, r) -> in_sync b r.

(* the compiler entry point saw exactly what the request supplied *)
Definition exact (o : op) (ou : out) : Prop :=
  match o, ou with
  | OCompile w m db us gs rc dc sc f, OutC x (ObsC a b c d e) _ =>
    a = cont us /\ b = cont gs /\ c = cont rc /\ d = cont dc /\ e = cont sc
  | OTx avail db us ps f, OutT w reuse (ObsT sid root) _ =>
    sid = ps /\ (reuse = false -> root = cont us)
  | _, _ => True
  end.

Lemma nn_spec : forall x, nn x = true -> is_none x = false.
Proof. unfold nn; intros x H. now apply negb_true_iff in H. Qed.

Lemma changed_false : forall a b, changed a b = false -> a = b.
Proof. unfold changed; intros. apply negb_false_iff in H. now apply N.eqb_eq. Qed.

Lemma raw_wire_nn : forall x, is_none x = false -> raw_wire x = Some x.
Proof. unfold raw_wire; intros; now rewrite H. Qed.

(* a value that is not transmitted is one the server believes the worker has *)
Lemma preargs_unsent : forall b db us gs rc dc sc x u,
  preargs b db us gs rc dc sc = (x, u) -> is_none us = false -> is_none gs = false ->
  (x_us x = None -> exists pd, find db (b_dbs b) = Some pd /\ p_us pd = us) /\
  (x_rc x = None -> exists pd, find db (b_dbs b) = Some pd /\ p_rc pd = rc) /\
  (x_dc x = None -> exists pd, find db (b_dbs b) = Some pd /\ p_dc pd = dc) /\
  (x_gs x = None -> b_gs b = gs) /\ (x_sc x = None -> b_sc b = sc).
Proof.
  unfold preargs; intros b db us gs rc dc sc x u H Hu Hg.
  rewrite (raw_wire_nn _ Hu), (raw_wire_nn _ Hg) in H.
  destruct (find db (b_dbs b)) as [pd|]; inv H; cbn.
  - repeat split; intros Hn;
      match goal with
      | H : (if ?c then _ else _) = None |- _ => destruct c eqn:Ec; [discriminate|]
      end; apply changed_false in Ec; eauto.
  - repeat split; discriminate.
Qed.

(* all-or-nothing: a failed __sync__ leaves the worker as it was *)
Lemma sync_fail_atomic : forall f r db x r', sync f r db x = SFail r' -> r' = r.
Proof.
  intros f r db x r' H. unfold Model.sync in H.
  destruct (sync_db f r db x) as [[r1 d1]|]; [|now inv H].
  destruct (opt_unp _ (x_gs x) _); [|now inv H].
  destruct (opt_unp _ (x_sc x) _); [discriminate | now inv H].
Qed.

(* what exactness of one request needs: every value the server will NOT transmit (believed
   identical) is held by the worker with the supplied content *)
Definition fresh_ok (b : srv) (r : wrk) (db us gs rc dc sc : N) : Prop :=
  (forall pd, find db (b_dbs b) = Some pd ->
     exists d, find db (w_dbs r) = Some d /\
       (p_us pd = us -> d_us d = cont us) /\ (p_rc pd = rc -> d_rc d = cont rc) /\
       (p_dc pd = dc -> d_dc d = cont dc)) /\
  (b_gs b = gs -> w_gs r = cont gs) /\ (b_sc b = sc -> w_sc r = cont sc).

Lemma in_sync_fresh : forall b r db us gs rc dc sc, in_sync b r -> fresh_ok b r db us gs rc dc sc.
Proof.
  intros b r db us gs rc dc sc (Sdb & Sg & Ss & _). split; [|split].
  - intros pd Hp. eexists; split; [apply (Sdb _ _ Hp)|]. cbn.
    repeat split; intros <-; reflexivity.
  - intros <-; exact Sg.
  - intros <-; exact Ss.
Qed.

Section CompileClean.
Variables (b : srv) (r : wrk) (db us gs rc dc sc : N) (f : fault) (x u : wire).
Hypothesis Hfresh : fresh_ok b r db us gs rc dc sc.
Hypothesis Tus : nn us = true.
Hypothesis Tgs : nn gs = true.
Hypothesis Trc : nn rc = true.
Hypothesis Tdc : nn dc = true.
Hypothesis Tsc : nn sc = true.
Hypothesis Ep : preargs b db us gs rc dc sc = (x, u).

Lemma cc_ok : forall r' d, sync f r db x = SOk r' d ->
  d = mkD (cont us) (cont rc) (cont dc) /\ w_gs r' = cont gs /\ w_sc r' = cont sc /\
  w_last r' = w_last r /\ find db (w_dbs r') = Some d /\
  (forall db', db' <> db -> find db' (w_dbs r') = find db' (w_dbs r)).
Proof.
  intros r' d H.
  destruct (sync_find _ _ _ _ _ _ H) as [Hfd Hfo].
  apply sync_ok_spec in H as (r1 & E & _ & Hl & Hg1 & Hg2 & Hs1 & Hs2).
  apply sync_db_spec in E as (_ & Hu1 & Hr1 & Hd1 & Hold).
  destruct (preargs_wire _ _ _ _ _ _ _ _ _ Ep) as (Wu & Wr & Wg & Wd & Ws).
  pose proof (nn_spec _ Tus) as Nu. pose proof (nn_spec _ Tgs) as Ng.
  destruct (preargs_unsent _ _ _ _ _ _ _ _ _ Ep Nu Ng) as (Uu & Ur & Ud & Ug & Us).
  destruct Hfresh as (Sdb & Sg & Ss).
  repeat split; auto.
  - destruct d as [a c e]; cbn in *. f_equal.
    + destruct (x_us x) as [v|] eqn:Ev.
      * rewrite (Hu1 v eq_refl). now rewrite (Wu v eq_refl).
      * destruct (Uu eq_refl) as (pd & Hp & Hpu). destruct (Sdb _ Hp) as (d0 & Hd0 & Fu & _ & _).
        destruct (Hold _ Hd0) as (Ho & _ & _). rewrite (Ho eq_refl). now apply Fu.
    + destruct (x_rc x) as [v|] eqn:Ev.
      * rewrite (Hr1 v eq_refl). now rewrite (Wr v eq_refl).
      * destruct (Ur eq_refl) as (pd & Hp & Hpu). destruct (Sdb _ Hp) as (d0 & Hd0 & _ & Fr & _).
        destruct (Hold _ Hd0) as (_ & Ho & _). rewrite (Ho eq_refl). now apply Fr.
    + destruct (x_dc x) as [v|] eqn:Ev.
      * rewrite (Hd1 v eq_refl). now rewrite (Wd v eq_refl).
      * destruct (Ud eq_refl) as (pd & Hp & Hpu). destruct (Sdb _ Hp) as (d0 & Hd0 & _ & _ & Fd).
        destruct (Hold _ Hd0) as (_ & _ & Ho). rewrite (Ho eq_refl). now apply Fd.
  - destruct (x_gs x) as [v|] eqn:Ev.
    + rewrite (Hg1 v eq_refl). now rewrite (Wg v eq_refl).
    + rewrite (Hg2 eq_refl). apply Sg. now apply Ug.
  - destruct (x_sc x) as [v|] eqn:Ev.
    + rewrite (Hs1 v eq_refl). now rewrite (Ws v eq_refl).
    + rewrite (Hs2 eq_refl). apply Ss. now apply Us.
Qed.


Lemma cc_ack : exists b1, ack b db u = Some b1 /\
  find db (b_dbs b1) = Some (mkP us rc dc) /\
  (forall db', db' <> db -> find db' (b_dbs b1) = find db' (b_dbs b)) /\
  b_gs b1 = gs /\ b_sc b1 = sc /\ b_last b1 = b_last b.
Proof.
  clear Hfresh.
  pose proof (nn_spec _ Tus) as Nu. pose proof (nn_spec _ Tgs) as Ng.
  pose proof (nn_spec _ Trc) as Nr. pose proof (nn_spec _ Tdc) as Nd.
  pose proof (nn_spec _ Tsc) as Ns.
  unfold preargs in Ep. rewrite (raw_wire_nn _ Nu), (raw_wire_nn _ Ng) in Ep.
  destruct (find db (b_dbs b)) as [pd|] eqn:E.
  - destruct pd as [pu pr pc]; cbn in Ep.
    destruct (changed pu us) eqn:C1; destruct (changed pr rc) eqn:C2;
    destruct (changed (b_gs b) gs) eqn:C3; destruct (changed pc dc) eqn:C4;
    destruct (changed (b_sc b) sc) eqn:C5; inv Ep;
    unfold Model.ack; cbn; rewrite ?E; cbn; unfold given, pick, pick_nn; cbn;
    rewrite ?Nu, ?Ng, ?Nr, ?Nd, ?Ns; cbn;
    repeat match goal with H : changed _ _ = false |- _ => apply changed_false in H; subst end;
    (eexists; split; [reflexivity|]); cbn;
    rewrite ?find_upsert_same; repeat split; auto; intros; now apply find_upsert_other.
  - inv Ep. unfold Model.ack; cbn. rewrite E. unfold given; cbn.
    rewrite Nu, Ng, Nr, Nd, Ns; cbn.
    eexists; split; [reflexivity|]; cbn. rewrite find_upsert_same.
    repeat split; auto; intros; now apply find_upsert_other.
Qed.

End CompileClean.


Lemma in_sync_build : forall b r b1 r1 db us gs rc dc sc,
  in_sync b r ->
  find db (b_dbs b1) = Some (mkP us rc dc) ->
  (forall db', db' <> db -> find db' (b_dbs b1) = find db' (b_dbs b)) ->
  b_gs b1 = gs -> b_sc b1 = sc -> b_last b1 = b_last b ->
  find db (w_dbs r1) = Some (mkD (cont us) (cont rc) (cont dc)) ->
  (forall db', db' <> db -> find db' (w_dbs r1) = find db' (w_dbs r)) ->
  w_gs r1 = cont gs -> w_sc r1 = cont sc -> w_last r1 = w_last r ->
  in_sync b1 r1.
Proof.
  intros b r b1 r1 db us gs rc dc sc (Sdb & Sg & Ss & Sl) Hb Hbo Hg Hs Hl Hw Hwo Hwg Hws Hwl.
  split; [|split; [|split]].
  - intros db0 pd0 H0. destruct (N.eq_dec db0 db) as [->|Hn].
    + rewrite Hb in H0. inv H0. exact Hw.
    + rewrite Hbo in H0 by exact Hn. rewrite Hwo by exact Hn. now apply Sdb.
  - congruence.
  - congruence.
  - rewrite Hl, Hwl. exact Sl.
Qed.

Lemma in_sync_last : forall b r p l, in_sync b r ->
  (p <> 0 -> exists root, l = Some (p, root)) ->
  in_sync (set_blast b p) (set_wlast r l).
Proof. intros b r p l (Sdb & Sg & Ss & Sl) H. repeat split; cbn; auto. Qed.

Lemma in_sync_blast0 : forall b r, in_sync b r -> in_sync (set_blast b 0) r.
Proof. intros b r (Sdb & Sg & Ss & Sl). repeat split; cbn; auto. intros H; now elim H. Qed.

Lemma set_wlast_id : forall r, set_wlast r (w_last r) = r.
Proof. now destruct r. Qed.

Lemma clean_compile : forall b r n m db us gs rc dc sc f b' r' x o re,
  in_sync b r ->
  nn us = true -> nn gs = true -> nn rc = true -> nn dc = true ->
  nn sc = true -> clean_fault f = true ->
  compile_op b r n m db us gs rc dc sc f = (b', r', x, o, re) ->
  in_sync b' r' /\
  (o = ObsNone \/ o = ObsC (cont us) (cont gs) (cont rc) (cont dc) (cont sc)).
Proof.
  intros b r n m db us gs rc dc sc f b' r' x o re Hs Tu Tg Tr Td Tc Hf H.
  unfold Model.compile_op in H.
  destruct (preargs b db us gs rc dc sc) as [x0 u] eqn:Ep.
  assert (Hfail : forall r1, sync f r db x0 = SFail r1 -> r1 = r)
    by (intros r1; apply sync_fail_atomic).
  assert (Hok : forall r1 d, sync f r db x0 = SOk r1 d ->
            d = mkD (cont us) (cont rc) (cont dc) /\ w_gs r1 = cont gs /\ w_sc r1 = cont sc /\
            w_last r1 = w_last r /\ find db (w_dbs r1) = Some d /\
            (forall db', db' <> db -> find db' (w_dbs r1) = find db' (w_dbs r)))
    by (intros r1 d; apply (cc_ok b r db us gs rc dc sc f x0 u (in_sync_fresh _ _ _ _ _ _ _ _ Hs) Tu Tg Ep)).
  destruct (cc_ack b db us gs rc dc sc x0 u Tu Tg Tr Td Tc Ep)
    as (b1 & Hack & Hb & Hbo & Hbg & Hbs & Hbl).
  assert (Hbuild : forall r1 d, sync f r db x0 = SOk r1 d -> in_sync b1 r1).
  { intros r1 d Es. destruct (Hok _ _ Es) as (-> & Hg & Hc & Hl & Hfd & Hfo).
    eapply in_sync_build; eauto. }
  destruct f; cbn in Hf; try discriminate.
  - (* FNone *)
    destruct (sync FNone r db x0) as [r1 d|r1] eqn:Es.
    + destruct (Hok _ _ eq_refl) as (-> & Hg & Hc & Hl & Hfd & Hfo). specialize (Hbuild _ _ eq_refl).
      rewrite Hack in H. cbn in H.
      destruct m as [[|]|]; inv H; (split; [|right; congruence]).
      * apply in_sync_last; eauto.
      * apply in_sync_last; auto. intros X; now elim X.
      * exact Hbuild.
    + rewrite (Hfail _ eq_refl) in *. inv H. auto.
  - (* FReqLost *) inv H. auto.
  - (* FUnpickle *)
    destruct (sync (FUnpickle i) r db x0) as [r1 d|r1] eqn:Es.
    + destruct (Hok _ _ eq_refl) as (-> & Hg & Hc & Hl & Hfd & Hfo). specialize (Hbuild _ _ eq_refl).
      rewrite Hack in H. cbn in H.
      destruct m as [[|]|]; inv H; (split; [|right; congruence]).
      * apply in_sync_last; eauto.
      * apply in_sync_last; auto. intros X; now elim X.
      * exact Hbuild.
    + rewrite (Hfail _ eq_refl) in *. inv H. auto.
  - (* FCompiler *)
    destruct (sync FCompiler r db x0) as [r1 d|r1] eqn:Es.
    + destruct (Hok _ _ eq_refl) as (-> & Hg & Hc & Hl & Hfd & Hfo). specialize (Hbuild _ _ eq_refl).
      rewrite Hack in H. inv H. split; [exact Hbuild | right; congruence].
    + rewrite (Hfail _ eq_refl) in *. inv H. auto.
Qed.


Lemma tx_state_spec : forall b r db us ps f sid root,
  in_sync b r -> is_none ps = false ->
  tx_state fal cont b r db us ps f = Some (sid, root) ->
  sid = ps /\ ((b_last b =? ps) = false -> root = cont us).
Proof.
  unfold Model.tx_state; intros b r db us ps f sid root (Sdb & _ & _ & Sl) Hp H.
  destruct (b_last b =? ps) eqn:Er.
  - apply N.eqb_eq in Er. destruct Sl as [root' Hl].
    + rewrite Er. intro X. rewrite X in Hp. discriminate Hp.
    + rewrite Hl, Er in H. inv H. split; [reflexivity | discriminate].
  - rewrite Hp in H. destruct (fault_is f 5); [discriminate|].
    destruct (find db (b_dbs b)) as [pd|] eqn:Ef.
    + destruct (p_us pd =? us) eqn:Eu.
      * apply N.eqb_eq in Eu. rewrite (Sdb _ _ Ef) in H. inv H. cbn. auto.
      * unfold raw_wire in H. destruct (is_none us); [discriminate|].
        destruct (unp_raw f 0 us) eqn:E; [|discriminate]. inv H.
        apply unp_raw_some in E. auto.
    + unfold raw_wire in H. destruct (is_none us); [discriminate|].
      destruct (unp_raw f 0 us) eqn:E; [|discriminate]. inv H.
      apply unp_raw_some in E. auto.
Qed.

Lemma clean_tx : forall b r n db us ps f b' r' reuse o re,
  in_sync b r -> is_none ps = false ->
  tx_op b r n db us ps f = (b', r', reuse, o, re) ->
  in_sync b' r' /\
  (o = ObsNone \/ exists root, o = ObsT ps root /\ (reuse = false -> root = cont us)).
Proof.
  intros b r n db us ps f b' r' reuse o re Hs Hp H. unfold Model.tx_op in H.
  pose proof (tx_state_spec b r db us ps f) as Hst.
  destruct f; try (inv H; split; [now apply in_sync_blast0 | now left]);
    (destruct (tx_state fal cont b r db us ps _) as [[sid root]|];
     [destruct (Hst _ _ Hs Hp eq_refl) as [-> Hr] |
      inv H; split; [now apply in_sync_blast0 | now left]]);
    inv H; (split; [| right; exists root; auto]).
  - apply in_sync_last; eauto.
  - apply in_sync_last; eauto.
  - now apply in_sync_blast0.
  - apply in_sync_last; auto. intro X; now elim X.
Qed.


Lemma init_sync : forall dbs gs sc b r, init_worker dbs gs sc = Some (b, r) -> in_sync b r.
Proof.
  unfold Model.init_worker; intros dbs gs sc b r H.
  destruct (_ || _); [discriminate|]. inv H.
  repeat split; cbn; auto.
  - intros db pd Hf.
    pose proof (find_map pdb wdb (fun p => mkD (cont (p_us p)) (cont (p_rc p)) (cont (p_dc p)))
                         db (norm_dbs dbs)) as Hm.
    cbn beta in Hm. rewrite Hm, Hf. reflexivity.
  - intros X; now elim X.
Qed.

Lemma sys_sync_upsert : forall s w b r n, sys_sync s -> in_sync b r ->
  sys_sync (mkSys (upsert w (b, r) (ws s)) n).
Proof.
  intros s w b r n Hs Hi w0 b0 r0 Hf. cbn in Hf. rewrite find_upsert in Hf.
  destruct (w0 =? w); [inv Hf; exact Hi | eapply Hs; eauto].
Qed.

Lemma sys_sync_same : forall s n, sys_sync s -> sys_sync (mkSys (ws s) n).
Proof. intros s n Hs w b r Hf. eapply Hs; eauto. Qed.


Lemma step_sync : forall s o s' ou, sys_sync s -> clean_op o = true -> step s o = (s', ou) ->
  sys_sync s' /\ exact o ou.
Proof.
  intros s o s' ou Hs Hc H. destruct o as [w m db us gs rc dc sc f | avail db us ps f | w dbs gs sc];
    unfold Model.step in H.
  - destruct (find w (ws s)) as [[b r]|] eqn:Ew.
    + destruct (compile_op b r (nxt s) m db us gs rc dc sc f) as [[[[b' r'] x] ob] re] eqn:Ec.
      inv H. cbn in Hc. repeat (apply andb_true_iff in Hc; destruct Hc as [Hc ?]).
      destruct (clean_compile _ _ _ _ _ _ _ _ _ _ _ _ _ _ _ _ (Hs _ _ _ Ew) Hc H3 H2 H1 H0 H Ec)
        as [Hi Ho].
      split; [now apply sys_sync_upsert|].
      destruct Ho as [-> | ->]; cbn; auto.
    + inv H. split; [now apply sys_sync_same | exact I].
  - destruct (acquire s avail ps) as [w|]; [|inv H; split; [now apply sys_sync_same | exact I]].
    destruct (find w (ws s)) as [[b r]|] eqn:Ew;
      [|inv H; split; [now apply sys_sync_same | exact I]].
    destruct (tx_op b r (nxt s) db us ps f) as [[[[b' r'] reuse] ob] re] eqn:Ec.
    inv H. cbn in Hc. apply negb_true_iff in Hc.
    destruct (clean_tx _ _ _ _ _ _ _ _ _ _ _ _ (Hs _ _ _ Ew) Hc Ec) as [Hi Ho].
    split; [now apply sys_sync_upsert|].
    destruct Ho as [-> | (root & -> & Hr)]; cbn; auto.
  - destruct (init_worker dbs gs sc) as [[b r]|] eqn:Ei; inv H; (split; [|exact I]).
    + apply sys_sync_upsert; auto. eapply init_sync; eauto.
    + intros w0 b0 r0 Hf. cbn in Hf. rewrite find_remove in Hf.
      destruct (w0 =? w); [discriminate | eapply Hs; eauto].
Qed.

Lemma run_sync : forall h s, sys_sync s -> clean_hist h = true ->
  Forall (fun p => exact (fst p) (snd p)) (run s h) /\ sys_sync (final s h).
Proof.
  induction h as [|o t IH]; intros s Hs Hc; cbn.
  - split; [constructor | exact Hs].
  - cbn in Hc. apply andb_true_iff in Hc as [Ho Ht].
    destruct (step s o) as [s' ou] eqn:E.
    destruct (step_sync _ _ _ _ Hs Ho E) as [Hs' He].
    destruct (IH _ Hs' Ht) as [Hf Hfin]. cbn.
    split; [constructor; [exact He | exact Hf] | exact Hfin].
Qed.

Lemma sys0_sync : sys_sync sys0.
Proof. intros w b r H. discriminate. Qed.


(* ------------------------------------------------------------------ *)
(* true of EVERY state, fault and value: what is transmitted is used   *)

Lemma compile_op_obs : forall b r n m db us gs rc dc sc f b' r' x a bb c d e re,
  compile_op b r n m db us gs rc dc sc f = (b', r', x, ObsC a bb c d e, re) ->
  exists u r1 dd, preargs b db us gs rc dc sc = (x, u) /\ sync f r db x = SOk r1 dd /\
    a = d_us dd /\ bb = w_gs r1 /\ c = d_rc dd /\ d = d_dc dd /\ e = w_sc r1.
Proof.
  intros until re. intros H. unfold Model.compile_op in H.
  destruct (preargs b db us gs rc dc sc) as [x0 u] eqn:Ep.
  destruct f; try discriminate;
    (destruct (sync _ r db x0) as [r1 dd|r1] eqn:Es; [|discriminate]);
    repeat dmatch; inv H; do 3 eexists; (split; [reflexivity|]); (split; [exact Es|]);
    repeat split; reflexivity.
Qed.

Lemma sent_exact : forall s w m db us gs rc dc sc f s' x a b c d e re,
  step s (OCompile w m db us gs rc dc sc f) = (s', OutC x (ObsC a b c d e) re) ->
  (x_us x <> None -> a = cont us) /\ (x_gs x <> None -> b = cont gs) /\
  (x_rc x <> None -> c = cont rc) /\ (x_dc x <> None -> d = cont dc) /\
  (x_sc x <> None -> e = cont sc).
Proof.
  intros until re. intros H. unfold Model.step in H.
  destruct (find w (ws s)) as [[b0 r0]|]; [|discriminate].
  destruct (compile_op b0 r0 (nxt s) m db us gs rc dc sc f) as [[[[b' r'] x0] ob] re0] eqn:Ec.
  inv H. apply compile_op_obs in Ec as (u & r1 & dd & Ep & Es & -> & -> & -> & -> & ->).
  apply sync_ok_spec in Es as (r2 & Ed & _ & _ & Hg & _ & Hs & _).
  apply sync_db_spec in Ed as (_ & Hu & Hr & Hd & _).
  destruct (preargs_wire _ _ _ _ _ _ _ _ _ Ep) as (Wu & Wr & Wg & Wd & Ws).
  repeat split; intros Hn.
  - destruct (x_us x) as [v|] eqn:E; [|congruence]. rewrite (Hu v eq_refl). now rewrite (Wu v eq_refl).
  - destruct (x_gs x) as [v|] eqn:E; [|congruence]. rewrite (Hg v eq_refl). now rewrite (Wg v eq_refl).
  - destruct (x_rc x) as [v|] eqn:E; [|congruence]. rewrite (Hr v eq_refl). now rewrite (Wr v eq_refl).
  - destruct (x_dc x) as [v|] eqn:E; [|congruence]. rewrite (Hd v eq_refl). now rewrite (Wd v eq_refl).
  - destruct (x_sc x) as [v|] eqn:E; [|congruence]. rewrite (Hs v eq_refl). now rewrite (Ws v eq_refl).
Qed.

(* a database the server does not believe the worker to have: everything is transmitted,
   whatever the worker held before (no assumption on the state) *)
Lemma unknown_db_exact : forall s w b r m db us gs rc dc sc f s' x a bb c d e re,
  find w (ws s) = Some (b, r) -> find db (b_dbs b) = None ->
  is_none us = false -> is_none gs = false ->
  step s (OCompile w m db us gs rc dc sc f) = (s', OutC x (ObsC a bb c d e) re) ->
  a = cont us /\ bb = cont gs /\ c = cont rc /\ d = cont dc /\ e = cont sc.
Proof.
  intros until re. intros Hw Hdb Nu Ng H.
  pose proof (sent_exact _ _ _ _ _ _ _ _ _ _ _ _ _ _ _ _ _ _ H) as (A & B & C & D & E).
  unfold Model.step in H. rewrite Hw in H.
  destruct (compile_op b r (nxt s) m db us gs rc dc sc f) as [[[[b' r'] x0] ob] re0] eqn:Ec.
  inv H. apply compile_op_obs in Ec as (u & _ & _ & Ep & _).
  unfold preargs in Ep. rewrite Hdb, (raw_wire_nn _ Nu), (raw_wire_nn _ Ng) in Ep. inv Ep. cbn in *.
  repeat split; [apply A | apply B | apply C | apply D | apply E]; discriminate.
Qed.

(* ------------------------------------------------------------------ *)
(* true of every history: the server never believes the worker has a   *)
(* database it does not have                                           *)

Definition keys_ok (b : srv) (r : wrk) : Prop :=
  forall db, find db (b_dbs b) <> None -> find db (w_dbs r) <> None.
Definition sys_keys (s : sys) : Prop :=
  forall w b r, find w (ws s) = Some (b, r) -> keys_ok b r.

Lemma sync_db_dbs : forall f r db x r1 d, sync_db f r db x = Some (r1, d) ->
  w_dbs r1 = upsert db d (w_dbs r).
Proof. intros. apply sync_db_spec in H as [-> _]. reflexivity. Qed.

Lemma sync_shape : forall f r db x,
  match sync f r db x with
  | SOk r1 d => w_dbs r1 = upsert db d (w_dbs r)
  | SFail r1 => w_dbs r1 = w_dbs r \/ exists d, w_dbs r1 = upsert db d (w_dbs r)
  end.
Proof.
  intros. unfold Model.sync.
  destruct (sync_db f r db x) as [[r1 d]|] eqn:E; [|now left].
  apply sync_db_dbs in E.
  destruct (opt_unp _ (x_gs x) _); [|now left].
  destruct (opt_unp _ (x_sc x) _); cbn; [exact E | now left].
Qed.

Lemma upsert_grows : forall A k (v : A) l k', find k' l <> None -> find k' (upsert k v l) <> None.
Proof. intros. rewrite find_upsert. destruct (k' =? k); [discriminate | exact H]. Qed.

Lemma ack_keys : forall b db u b1, ack b db u = Some b1 ->
  forall db', find db' (b_dbs b1) <> None -> db' = db \/ find db' (b_dbs b) <> None.
Proof.
  unfold Model.ack; intros b db u b1 H db' Hf.
  destruct (negb (has_key u)); [inv H; now right|].
  destruct (find db (b_dbs b)) as [pd|] eqn:E.
  - inv H. cbn in Hf. destruct (_ || _); [|now right].
    rewrite find_upsert in Hf. destruct (db' =? db) eqn:E2; [left; now apply N.eqb_eq | now right].
  - destruct (_ && _); [|discriminate]. inv H. cbn in Hf.
    rewrite find_upsert in Hf. destruct (db' =? db) eqn:E2; [left; now apply N.eqb_eq | now right].
Qed.

Lemma compile_keys : forall b r n m db us gs rc dc sc f b' r' x o re,
  keys_ok b r -> compile_op b r n m db us gs rc dc sc f = (b', r', x, o, re) -> keys_ok b' r'.
Proof.
  intros until re. intros Hk H. unfold Model.compile_op in H.
  destruct (preargs b db us gs rc dc sc) as [x0 u] eqn:Ep.
  pose proof (sync_shape f r db x0) as Hsh.
  assert (Kfail : forall r1, (w_dbs r1 = w_dbs r \/ exists d, w_dbs r1 = upsert db d (w_dbs r)) ->
                             keys_ok b r1).
  { intros r1 [E|[d E]] db' Hf; rewrite E; [now apply Hk | apply upsert_grows; now apply Hk]. }
  assert (Kok : forall r1 d b1, w_dbs r1 = upsert db d (w_dbs r) ->
                (b1 = b \/ ack b db u = Some b1) -> keys_ok b1 r1).
  { intros r1 d b1 E [->|Ha] db' Hf; rewrite E.
    - apply upsert_grows; now apply Hk.
    - destruct (ack_keys _ _ _ _ Ha _ Hf) as [->|Hb].
      + rewrite find_upsert_same; discriminate.
      + apply upsert_grows; now apply Hk. }
  assert (Kl : forall b1 r1 p l, keys_ok b1 r1 -> keys_ok (set_blast b1 p) (set_wlast r1 l))
    by (intros b1 r1 p l K db' Hf; apply K; exact Hf).
  assert (Kl2 : forall b1 r1 l, keys_ok b1 r1 -> keys_ok b1 (set_wlast r1 l))
    by (intros b1 r1 l K db' Hf; apply K; exact Hf).
  destruct f; try (inv H; exact Hk);
    (destruct (sync _ r db x0) as [r1 d|r1] eqn:Es; [|inv H; now apply Kfail]);
    destruct (ack b db u) as [b1|] eqn:Ea; destruct m as [[|]|]; inv H;
    try (apply Kl); try (apply Kl2); eapply Kok; eauto.
Qed.

Lemma tx_keys : forall b r n db us ps f b' r' reuse o re,
  keys_ok b r -> tx_op b r n db us ps f = (b', r', reuse, o, re) -> keys_ok b' r'.
Proof.
  intros until re. intros Hk H. unfold Model.tx_op in H.
  destruct f; repeat dmatch; inv H; intros db' Hf; apply Hk; exact Hf.
Qed.

Lemma init_keys : forall dbs gs sc b r, init_worker dbs gs sc = Some (b, r) -> keys_ok b r.
Proof.
  unfold Model.init_worker; intros. destruct (_ || _); [discriminate|]. inv H.
  intros db Hf. cbn in *.
  pose proof (find_map pdb wdb (fun p => mkD (cont (p_us p)) (cont (p_rc p)) (cont (p_dc p)))
                       db (norm_dbs dbs)) as Hm.
  cbn beta in Hm. rewrite Hm. destruct (find db (norm_dbs dbs)); [discriminate | congruence].
Qed.

Lemma step_keys : forall s o, sys_keys s -> sys_keys (fst (step s o)).
Proof.
  intros s o Hs. destruct o as [w m db us gs rc dc sc f | avail db us ps f | w dbs gs sc];
    unfold Model.step.
  - destruct (find w (ws s)) as [[b r]|] eqn:Ew; [|exact Hs].
    destruct (compile_op b r (nxt s) m db us gs rc dc sc f) as [[[[b' r'] x] ob] re] eqn:Ec.
    cbn. intros w0 b0 r0 Hf. cbn in Hf. rewrite find_upsert in Hf.
    destruct (w0 =? w); [inv Hf; eapply compile_keys; eauto | eapply Hs; eauto].
  - destruct (acquire s avail ps) as [w|]; [|exact Hs].
    destruct (find w (ws s)) as [[b r]|] eqn:Ew; [|exact Hs].
    destruct (tx_op b r (nxt s) db us ps f) as [[[[b' r'] reuse] ob] re] eqn:Ec.
    cbn. intros w0 b0 r0 Hf. cbn in Hf. rewrite find_upsert in Hf.
    destruct (w0 =? w); [inv Hf; eapply tx_keys; eauto | eapply Hs; eauto].
  - destruct (init_worker dbs gs sc) as [[b r]|] eqn:Ei; cbn; intros w0 b0 r0 Hf; cbn in Hf.
    + rewrite find_upsert in Hf.
      destruct (w0 =? w); [inv Hf; eapply init_keys; eauto | eapply Hs; eauto].
    + rewrite find_remove in Hf. destruct (w0 =? w); [discriminate | eapply Hs; eauto].
Qed.

Lemma final_keys : forall h s, sys_keys s -> sys_keys (final s h).
Proof. induction h; intros; cbn; [assumption | apply IHh; now apply step_keys]. Qed.


(* ------------------------------------------------------------------ *)
(* the statements of Props.v                                           *)

Lemma p_args_exact : forall h w m db us gs rc dc sc f x a b c d e re,
  clean_hist h = true ->
  In (OCompile w m db us gs rc dc sc f, OutC x (ObsC a b c d e) re) (run sys0 h) ->
  a = cont us /\ b = cont gs /\ c = cont rc /\ d = cont dc /\ e = cont sc.
Proof.
  intros until re. intros Hc Hin.
  destruct (run_sync h sys0 sys0_sync Hc) as [Hf _].
  rewrite Forall_forall in Hf. exact (Hf _ Hin).
Qed.

Lemma p_tx_exact : forall h avail db us ps f w reuse sid root re,
  clean_hist h = true ->
  In (OTx avail db us ps f, OutT w reuse (ObsT sid root) re) (run sys0 h) ->
  sid = ps /\ (reuse = false -> root = cont us).
Proof.
  intros until re. intros Hc Hin.
  destruct (run_sync h sys0 sys0_sync Hc) as [Hf _].
  rewrite Forall_forall in Hf. exact (Hf _ Hin).
Qed.

Lemma p_belief_sound : forall h w b r,
  clean_hist h = true -> find w (ws (final sys0 h)) = Some (b, r) -> in_sync b r.
Proof.
  intros h w b r Hc Hf. destruct (run_sync h sys0 sys0_sync Hc) as [_ Hs]. eapply Hs; eauto.
Qed.

Lemma p_keys_sound : forall h w b r db,
  find w (ws (final sys0 h)) = Some (b, r) ->
  find db (b_dbs b) <> None -> find db (w_dbs r) <> None.
Proof.
  intros h w b r db Hf. assert (K : sys_keys sys0) by (intros ? ? ? X; discriminate).
  exact (final_keys h sys0 K w b r Hf db).
Qed.

End Lemmas.
