(* C17 — callers that never return to an earlier object: exact arguments under EVERY fault
   placement, status-2 replies included.  (Lemmas; statement in Props.v.) *)
From Coq Require Import List NArith Bool Lia.
From Verif.C17 Require Import Model Proofs.
Import ListNotations.
Local Open Scope N_scope.

(* ------------------------------------------------------------------ *)
(* tracker facts                                                        *)

Definition closed (t : trk) (k x : N) : Prop :=
  exists c cl, find k t = Some (c, cl) /\ In x cl.
Definition supplied (t : trk) (k x : N) : Prop :=
  exists c cl, find k t = Some (c, cl) /\ (c = x \/ In x cl).
Definition mono (t t' : trk) : Prop :=
  (forall k y, closed t k y -> closed t' k y) /\ (forall k y, supplied t k y -> supplied t' k y).
(* object x was supplied for scope k between t and t' *)
Definition stepped (t t' : trk) (k x : N) : Prop :=
  ~ closed t k x /\ supplied t' k x /\ (forall y, supplied t k y -> y <> x -> closed t' k y).

Lemma mono_refl : forall t, mono t t.
Proof. split; auto. Qed.
Lemma mono_trans : forall a b c, mono a b -> mono b c -> mono a c.
Proof. intros a b c [A1 A2] [B1 B2]. split; auto. Qed.

Lemma stepped_weaken : forall t0 t1 t2 t3 k x,
  mono t0 t1 -> stepped t1 t2 k x -> mono t2 t3 -> stepped t0 t3 k x.
Proof.
  intros t0 t1 t2 t3 k x [A1 A2] (N1 & S1 & C1) [B1 B2]. repeat split.
  - intro H. apply N1. now apply A1.
  - now apply B2.
  - intros y Hy Hn. apply B1. apply C1; auto.
Qed.

Lemma mem_In : forall x l, mem x l = true <-> In x l.
Proof.
  unfold mem; intros. rewrite existsb_exists. split.
  - intros (y & Hy & E). apply N.eqb_eq in E. now subst.
  - intros H. exists x. split; [exact H | apply N.eqb_refl].
Qed.

Lemma nr_supply_spec : forall t k x t', nr_supply t k x = Some t' ->
  mono t t' /\ stepped t t' k x.
Proof.
  unfold nr_supply; intros t k x t' H.
  destruct (find k t) as [[c cl]|] eqn:E.
  - destruct (mem x cl) eqn:Em; [discriminate|].
    assert (Hnc : ~ closed t k x).
    { intros (c' & cl' & E' & Hin). rewrite E in E'. injection E' as E1 E2; subst c' cl'.
      apply mem_In in Hin. congruence. }
    destruct (c =? x) eqn:Ec.
    + apply N.eqb_eq in Ec. rewrite Ec in *. injection H as <-. split; [apply mono_refl|].
      repeat split; auto.
      * exists x, cl. auto.
      * intros y (c' & cl' & E' & Hy) Hn. rewrite E in E'. injection E' as E1 E2; subst c' cl'.
        destruct Hy as [->|Hy]; [congruence|]. exists x, cl. auto.
    + injection H as <-.
      assert (Hf : forall k', find k' (upsert k (x, c :: cl) t) =
                              if k' =? k then Some (x, c :: cl) else find k' t)
        by (intros; apply find_upsert).
      split; [split|repeat split; auto].
      * intros k' y (c' & cl' & E' & Hy). unfold closed. rewrite Hf.
        destruct (k' =? k) eqn:Ek.
        -- apply N.eqb_eq in Ek; subst k'. rewrite E in E'. injection E' as E1 E2; subst c' cl'.
           exists x, (c :: cl). split; [reflexivity | now right].
        -- exists c', cl'. auto.
      * intros k' y (c' & cl' & E' & Hy). unfold supplied. rewrite Hf.
        destruct (k' =? k) eqn:Ek.
        -- apply N.eqb_eq in Ek; subst k'. rewrite E in E'. injection E' as E1 E2; subst c' cl'.
           exists x, (c :: cl). split; [reflexivity|]. right.
           destruct Hy as [->|Hy]; [now left | now right].
        -- exists c', cl'. auto.
      * unfold supplied. rewrite Hf, N.eqb_refl. exists x, (c :: cl). auto.
      * intros y (c' & cl' & E' & Hy) Hn. rewrite E in E'. injection E' as E1 E2; subst c' cl'.
        unfold closed. rewrite Hf, N.eqb_refl. exists x, (c :: cl). split; [reflexivity|].
        destruct Hy as [->|Hy]; [now left | now right].
  - injection H as <-.
    assert (Hf : forall k', find k' (upsert k (x, []) t) =
                            if k' =? k then Some (x, []) else find k' t)
      by (intros; apply find_upsert).
    split; [split|repeat split].
    + intros k' y (c' & cl' & E' & Hy). unfold closed. rewrite Hf.
      destruct (k' =? k) eqn:Ek; [apply N.eqb_eq in Ek; subst; congruence|].
      exists c', cl'. auto.
    + intros k' y (c' & cl' & E' & Hy). unfold supplied. rewrite Hf.
      destruct (k' =? k) eqn:Ek; [apply N.eqb_eq in Ek; subst; congruence|].
      exists c', cl'. auto.
    + intros (c' & cl' & E' & _). congruence.
    + unfold supplied. rewrite Hf, N.eqb_refl. exists x, []. auto.
    + intros y (c' & cl' & E' & _). congruence.
Qed.

(* the five values of one request *)
Definition five_stepped (t t' : trk) (db us gs rc dc sc : N) : Prop :=
  mono t t' /\ stepped t t' (k_us db) us /\ stepped t t' k_gs gs /\ stepped t t' (k_rc db) rc /\
  stepped t t' (k_dc db) dc /\ stepped t t' k_sc sc.

Lemma nr_five_spec : forall t db us gs rc dc sc t', nr_five t db us gs rc dc sc = Some t' ->
  five_stepped t t' db us gs rc dc sc.
Proof.
  unfold nr_five, obind; intros t db us gs rc dc sc t' H.
  destruct (nr_supply t (k_us db) us) as [t1|] eqn:E1; [|discriminate].
  destruct (nr_supply t1 k_gs gs) as [t2|] eqn:E2; [|discriminate].
  destruct (nr_supply t2 (k_rc db) rc) as [t3|] eqn:E3; [|discriminate].
  destruct (nr_supply t3 (k_dc db) dc) as [t4|] eqn:E4; [|discriminate].
  apply nr_supply_spec in E1 as [M1 S1]. apply nr_supply_spec in E2 as [M2 S2].
  apply nr_supply_spec in E3 as [M3 S3]. apply nr_supply_spec in E4 as [M4 S4].
  apply nr_supply_spec in H as [M5 S5].
  pose proof (mono_trans _ _ _ M1 M2) as M12. pose proof (mono_trans _ _ _ M12 M3) as M13.
  pose proof (mono_trans _ _ _ M13 M4) as M14. pose proof (mono_trans _ _ _ M14 M5) as M15.
  pose proof (mono_trans _ _ _ M2 (mono_trans _ _ _ M3 (mono_trans _ _ _ M4 M5))) as M25.
  pose proof (mono_trans _ _ _ M3 (mono_trans _ _ _ M4 M5)) as M35.
  pose proof (mono_trans _ _ _ M4 M5) as M45.
  split; [exact M15|].
  split; [eapply stepped_weaken; [apply mono_refl | exact S1 | exact M25]|].
  split; [eapply stepped_weaken; [exact M1 | exact S2 | exact M35]|].
  split; [eapply stepped_weaken; [exact M12 | exact S3 | exact M45]|].
  split; [eapply stepped_weaken; [exact M13 | exact S4 | exact M5]|].
  eapply stepped_weaken; [exact M14 | exact S5 | apply mono_refl].
Qed.

Section NR.
Variable fal : N -> bool.
Variable cont : N -> N.

Notation compile_op := (compile_op true true fal cont).
Notation tx_op := (tx_op fal cont).
Notation init_worker := (init_worker fal cont).
Notation step := (step true true fal cont).
Notation run := (run true true fal cont).
Notation sync := (sync true fal cont).
Notation ack := (ack true fal).

(* for one believed identity: the worker holds its content, or the caller has left that
   identity behind (and will, by no_return, never supply it again) *)
Definition fieldJ (t : trk) (k believed held : N) : Prop :=
  (held = cont believed \/ closed t k believed) /\ supplied t k believed.

Definition J (t : trk) (b : srv) (r : wrk) : Prop :=
  (forall db pd, find db (b_dbs b) = Some pd -> exists d, find db (w_dbs r) = Some d /\
      fieldJ t (k_us db) (p_us pd) (d_us d) /\ fieldJ t (k_rc db) (p_rc pd) (d_rc d) /\
      fieldJ t (k_dc db) (p_dc pd) (d_dc d)) /\
  fieldJ t k_gs (b_gs b) (w_gs r) /\ fieldJ t k_sc (b_sc b) (w_sc r).

Definition sysJ (t : trk) (s : sys) : Prop :=
  forall w b r, find w (ws s) = Some (b, r) -> J t b r.

Lemma fieldJ_mono : forall t t' k b h, mono t t' -> fieldJ t k b h -> fieldJ t' k b h.
Proof. intros t t' k b h [M1 M2] [[E|C] S]; split; auto. Qed.

Lemma J_mono : forall t t' b r, mono t t' -> J t b r -> J t' b r.
Proof.
  intros t t' b r M (Hd & Hg & Hs). split; [|split; eapply fieldJ_mono; eauto].
  intros db pd Hf. destruct (Hd _ _ Hf) as (d & Hw & A & B & C).
  exists d. repeat split; try assumption; eapply fieldJ_mono; eauto.
Qed.

Lemma fieldJ_fresh : forall t t' k b h x, fieldJ t k b h -> stepped t t' k x -> b = x -> h = cont x.
Proof. intros t t' k b h x [[E|C] _] (N1 & _) <-; [exact E | contradiction]. Qed.

Lemma fieldJ_acked : forall t t' k x, stepped t t' k x -> fieldJ t' k x (cont x).
Proof. intros t t' k x (_ & S & _). split; auto. Qed.

Lemma fieldJ_unacked : forall t t' k b h x, mono t t' -> fieldJ t k b h -> stepped t t' k x ->
  fieldJ t' k b (cont x).
Proof.
  intros t t' k b h x [M1 M2] [_ S] (_ & _ & C). split; [|now apply M2].
  destruct (N.eq_dec b x) as [->|Hn]; [now left | right; now apply C].
Qed.

Lemma J_fresh : forall t t' b r db us gs rc dc sc,
  J t b r -> five_stepped t t' db us gs rc dc sc -> fresh_ok cont b r db us gs rc dc sc.
Proof.
  intros t t' b r db us gs rc dc sc (Hd & Hg & Hs) (_ & Su & Sg & Sr & Sd & Sc).
  split; [|split].
  - intros pd Hf. destruct (Hd _ _ Hf) as (d & Hw & A & B & C). exists d. split; [exact Hw|].
    repeat split; intros E; eapply fieldJ_fresh; eauto.
  - intros E; eapply fieldJ_fresh; eauto.
  - intros E; eapply fieldJ_fresh; eauto.
Qed.

Lemma J_last : forall t b r p l, J t b r -> J t (set_blast b p) (set_wlast r l).
Proof. intros t b r p l H. exact H. Qed.
Lemma J_wlast : forall t b r l, J t b r -> J t b (set_wlast r l).
Proof. intros t b r l H. exact H. Qed.
Lemma J_blast : forall t b r p, J t b r -> J t (set_blast b p) r.
Proof. intros t b r p H. exact H. Qed.

Lemma J_acked : forall t t' b r b1 r1 db us gs rc dc sc,
  J t b r -> five_stepped t t' db us gs rc dc sc ->
  find db (b_dbs b1) = Some (mkP us rc dc) ->
  (forall db', db' <> db -> find db' (b_dbs b1) = find db' (b_dbs b)) ->
  b_gs b1 = gs -> b_sc b1 = sc ->
  find db (w_dbs r1) = Some (mkD (cont us) (cont rc) (cont dc)) ->
  (forall db', db' <> db -> find db' (w_dbs r1) = find db' (w_dbs r)) ->
  w_gs r1 = cont gs -> w_sc r1 = cont sc ->
  J t' b1 r1.
Proof.
  intros t t' b r b1 r1 db us gs rc dc sc HJ (M & Su & Sg & Sr & Sd & Sc) Hb Hbo Hbg Hbs Hw Hwo Hwg Hws.
  pose proof (J_mono _ _ _ _ M HJ) as (Hd' & _ & _).
  split; [|split].
  - intros db0 pd0 H0. destruct (N.eq_dec db0 db) as [->|Hn].
    + rewrite Hb in H0. injection H0 as <-. eexists; split; [exact Hw|]. cbn.
      repeat split; eapply fieldJ_acked; eauto.
    + rewrite Hbo in H0 by exact Hn. rewrite Hwo by exact Hn. now apply Hd'.
  - rewrite Hbg, Hwg. eapply fieldJ_acked; eauto.
  - rewrite Hbs, Hws. eapply fieldJ_acked; eauto.
Qed.

Lemma J_unacked : forall t t' b r r1 db us gs rc dc sc,
  J t b r -> five_stepped t t' db us gs rc dc sc ->
  find db (w_dbs r1) = Some (mkD (cont us) (cont rc) (cont dc)) ->
  (forall db', db' <> db -> find db' (w_dbs r1) = find db' (w_dbs r)) ->
  w_gs r1 = cont gs -> w_sc r1 = cont sc ->
  J t' b r1.
Proof.
  intros t t' b r r1 db us gs rc dc sc HJ (M & Su & Sg & Sr & Sd & Sc) Hw Hwo Hwg Hws.
  pose proof (J_mono _ _ _ _ M HJ) as (Hd' & _ & _).
  destruct HJ as (Hd & Hg & Hs).
  split; [|split].
  - intros db0 pd0 H0. destruct (N.eq_dec db0 db) as [->|Hn].
    + destruct (Hd _ _ H0) as (d & _ & A & B & C).
      eexists; split; [exact Hw|]. cbn.
      repeat split; eapply fieldJ_unacked; eauto.
    + rewrite Hwo by exact Hn. now apply Hd'.
  - rewrite Hwg. eapply fieldJ_unacked; eauto.
  - rewrite Hws. eapply fieldJ_unacked; eauto.
Qed.

Lemma nr_compile : forall t t' b r n m db us gs rc dc sc f b' r' x o re,
  J t b r ->
  nn us = true -> nn gs = true -> nn rc = true -> nn dc = true -> nn sc = true ->
  five_stepped t t' db us gs rc dc sc ->
  compile_op b r n m db us gs rc dc sc f = (b', r', x, o, re) ->
  J t' b' r' /\
  (o = ObsNone \/ o = ObsC (cont us) (cont gs) (cont rc) (cont dc) (cont sc)).
Proof.
  intros t t' b r n m db us gs rc dc sc f b' r' x o re HJ Tu Tg Tr Td Tc H5 H.
  unfold Model.compile_op in H.
  destruct (preargs b db us gs rc dc sc) as [x0 u] eqn:Ep.
  pose proof (J_fresh _ _ _ _ _ _ _ _ _ _ HJ H5) as Hfr.
  assert (Hfail : forall r1, sync f r db x0 = SFail r1 -> r1 = r)
    by (intros r1; apply sync_fail_atomic).
  assert (Hok : forall r1 d, sync f r db x0 = SOk r1 d ->
            d = mkD (cont us) (cont rc) (cont dc) /\ w_gs r1 = cont gs /\ w_sc r1 = cont sc /\
            w_last r1 = w_last r /\ find db (w_dbs r1) = Some d /\
            (forall db', db' <> db -> find db' (w_dbs r1) = find db' (w_dbs r)))
    by (intros r1 d; apply (cc_ok fal cont b r db us gs rc dc sc f x0 u Hfr Tu Tg Ep)).
  destruct (cc_ack fal b db us gs rc dc sc x0 u Tu Tg Tr Td Tc Ep)
    as (b1 & Hack & Hb & Hbo & Hbg & Hbs & Hbl).
  pose proof (J_mono _ _ _ _ (proj1 H5) HJ) as Jsame.
  assert (Jack : forall r1 d, sync f r db x0 = SOk r1 d -> J t' b1 r1).
  { intros r1 d Es. destruct (Hok _ _ Es) as (-> & Hg & Hc & Hl & Hfd & Hfo).
    eapply (J_acked t t' b r); eauto. }
  assert (Jun : forall r1 d, sync f r db x0 = SOk r1 d -> J t' b r1).
  { intros r1 d Es. destruct (Hok _ _ Es) as (-> & Hg & Hc & Hl & Hfd & Hfo).
    eapply (J_unacked t t' b r); eauto. }
  destruct f.
  - destruct (sync FNone r db x0) as [r1 d|r1] eqn:Es.
    + destruct (Hok _ _ eq_refl) as (-> & Hg & Hc & Hl & Hfd & Hfo).
      specialize (Jack _ _ eq_refl). rewrite Hack in H. cbn in H.
      destruct m as [[|]|]; inv H; (split; [|right; congruence]); try apply J_last; exact Jack.
    + rewrite (Hfail _ eq_refl) in *. inv H. auto.
  - inv H. auto.
  - destruct (sync (FUnpickle i) r db x0) as [r1 d|r1] eqn:Es.
    + destruct (Hok _ _ eq_refl) as (-> & Hg & Hc & Hl & Hfd & Hfo).
      specialize (Jack _ _ eq_refl). rewrite Hack in H. cbn in H.
      destruct m as [[|]|]; inv H; (split; [|right; congruence]); try apply J_last; exact Jack.
    + rewrite (Hfail _ eq_refl) in *. inv H. auto.
  - destruct (sync FCompiler r db x0) as [r1 d|r1] eqn:Es.
    + destruct (Hok _ _ eq_refl) as (-> & Hg & Hc & Hl & Hfd & Hfo).
      specialize (Jack _ _ eq_refl). rewrite Hack in H. inv H. split; [exact Jack | right; congruence].
    + rewrite (Hfail _ eq_refl) in *. inv H. auto.
  - destruct (sync FReplyLost r db x0) as [r1 d|r1] eqn:Es.
    + destruct (Hok _ _ eq_refl) as (-> & Hg & Hc & Hl & Hfd & Hfo).
      specialize (Jun _ _ eq_refl). cbn in H.
      destruct m as [[|]|]; inv H; (split; [|right; congruence]); try apply J_wlast; exact Jun.
    + rewrite (Hfail _ eq_refl) in *. inv H. auto.
Qed.

End NR.

Section NR2.
Variable fal : N -> bool.
Variable cont : N -> N.

Notation tx_op := (tx_op fal cont).
Notation init_worker := (init_worker fal cont).
Notation step := (step true true fal cont).
Notation run := (run true true fal cont).
Notation J := (J cont).
Notation sysJ := (sysJ cont).

Lemma nr_tx : forall t t' b r n db us ps f b' r' reuse o re,
  J t b r -> mono t t' -> stepped t t' (k_us db) us ->
  tx_op b r n db us ps f = (b', r', reuse, o, re) ->
  J t' b' r' /\
  (o = ObsNone \/ exists sid root, o = ObsT sid root /\
                    (reuse = false -> sid = ps /\ root = cont us)).
Proof.
  intros t t' b r n db us ps f b' r' reuse o re HJ M S H. unfold Model.tx_op in H.
  pose proof (J_mono _ _ _ _ _ M HJ) as Jsame.
  assert (Hst : forall sid root, tx_state fal cont b r db us ps f = Some (sid, root) ->
                (b_last b =? ps) = false -> sid = ps /\ root = cont us).
  { unfold Model.tx_state. intros sid root Hs Hr. rewrite Hr in Hs.
    destruct (is_none ps); [discriminate|]. destruct (fault_is f 5); [discriminate|].
    assert (Hraw : match raw_wire us with
                   | Some u0 => match unp_raw fal cont f 0 u0 with Some c => Some (ps, c) | None => None end
                   | None => None end = Some (sid, root) -> sid = ps /\ root = cont us).
    { unfold raw_wire. destruct (is_none us); [discriminate|].
      destruct (unp_raw fal cont f 0 us) eqn:E; [|discriminate]. intros X; inv X.
      apply unp_raw_some in E. auto. }
    destruct (find db (b_dbs b)) as [pd|] eqn:Ef; [|now apply Hraw].
    destruct (p_us pd =? us) eqn:Eu; [|now apply Hraw].
    apply N.eqb_eq in Eu. destruct HJ as (Hd & _). destruct (Hd _ _ Ef) as (d & Hw & A & _).
    rewrite Hw in Hs. inv Hs. split; [reflexivity|]. eapply fieldJ_fresh; eauto. }
  destruct f; try (inv H; split; [exact Jsame | now left]);
    (destruct (tx_state fal cont b r db us ps _) as [[sid root]|] eqn:Et;
     [| inv H; split; [exact Jsame | now left]]);
    inv H; (split; [exact Jsame | right; exists sid, root; split; [reflexivity|]; intros Hr; now apply Hst]).
Qed.

(* a new worker: belief and state agree, and every believed identity was just supplied *)
Lemma fold_none : forall (dbs : list (N * pdb)) gs sc,
  fold_left (fun acc e => obind acc (fun t => nr_five t (fst e) (p_us (snd e)) gs (p_rc (snd e))
                                                  (p_dc (snd e)) sc)) dbs None = None.
Proof. induction dbs; cbn; auto. Qed.

Lemma fold_supplied : forall (dbs : list (N * pdb)) gs sc t0 t',
  fold_left (fun acc e => obind acc (fun t => nr_five t (fst e) (p_us (snd e)) gs (p_rc (snd e))
                                                  (p_dc (snd e)) sc)) dbs (Some t0) = Some t' ->
  mono t0 t' /\
  forall db pd, In (db, pd) dbs ->
    supplied t' (k_us db) (p_us pd) /\ supplied t' (k_rc db) (p_rc pd) /\ supplied t' (k_dc db) (p_dc pd).
Proof.
  induction dbs as [|[db0 pd0] tl IH]; cbn; intros gs sc t0 t' H.
  - inv H. split; [apply mono_refl | intros ? ? []].
  - destruct (nr_five t0 db0 (p_us pd0) gs (p_rc pd0) (p_dc pd0) sc) as [t1|] eqn:E;
      [|rewrite fold_none in H; discriminate].
    apply nr_five_spec in E as (M1 & (_ & Su & _) & _ & (_ & Sr & _) & (_ & Sd & _) & _).
    destruct (IH _ _ _ _ H) as [M2 Hin].
    split; [eapply mono_trans; eauto|].
    intros db pd [X|X].
    + inv X. destruct M2 as [_ M2s]. repeat split; now apply M2s.
    + now apply Hin.
Qed.

Lemma norm_in_aux : forall (l : list (N * pdb)) acc db pd,
  find db (fold_left (fun a e => upsert (fst e) (snd e) a) l acc) = Some pd ->
  In (db, pd) l \/ find db acc = Some pd.
Proof.
  induction l as [|[k v] tl IH]; cbn; intros acc db pd H; [now right|].
  destruct (IH _ _ _ H) as [X|X]; [left; now right|].
  rewrite find_upsert in X. destruct (db =? k) eqn:E.
  - apply N.eqb_eq in E; subst. inv X. left; now left.
  - now right.
Qed.

Lemma norm_in : forall l db pd, find db (norm_dbs l) = Some pd -> In (db, pd) l.
Proof. intros l db pd H. destruct (norm_in_aux l [] db pd H) as [X|X]; [exact X | discriminate]. Qed.

Lemma nr_restart : forall t t' w dbs gs sc b r,
  nr_op t (ORestart w dbs gs sc) = Some t' -> init_worker dbs gs sc = Some (b, r) ->
  mono t t' /\ J t' b r.
Proof.
  intros t t' w dbs gs sc b r Hn Hi. cbn in Hn.
  destruct (nr_supply t k_gs gs) as [t1|] eqn:E1; [|cbn in Hn; rewrite fold_none in Hn; discriminate].
  cbn in Hn.
  destruct (nr_supply t1 k_sc sc) as [t2|] eqn:E2; [|rewrite fold_none in Hn; discriminate].
  apply nr_supply_spec in E1 as [M1 (_ & Sg & _)]. apply nr_supply_spec in E2 as [M2 (_ & Ss & _)].
  destruct (fold_supplied _ _ _ _ _ Hn) as [M3 Hin].
  assert (M : mono t t') by (eapply mono_trans; [eapply mono_trans|]; eauto).
  split; [exact M|].
  pose proof (init_sync fal cont _ _ _ _ _ Hi) as (Sdb & Sgs & Ssc & _).
  unfold Model.init_worker in Hi. destruct (_ || _); [discriminate|]. inv Hi. cbn in *.
  split; [|split].
  - intros db pd Hf. specialize (Sdb _ _ Hf). eexists; split; [exact Sdb|]. cbn.
    destruct (Hin _ _ (norm_in _ _ _ Hf)) as (A & B & C).
    repeat split; auto.
  - split; [now left|]. destruct M3 as [_ M3s]. apply M3s. destruct M2 as [_ M2s]. now apply M2s.
  - split; [now left|]. destruct M3 as [_ M3s]. now apply M3s.
Qed.

(* what exactness means here: the five values always; for compile_in_tx, state and root
   schema whenever the state was actually transmitted *)
Definition exactB (o : op) (ou : out) : Prop :=
  match o, ou with
  | OCompile w m db us gs rc dc sc f, OutC x (ObsC a b c d e) _ =>
    a = cont us /\ b = cont gs /\ c = cont rc /\ d = cont dc /\ e = cont sc
  | OTx avail db us ps f, OutT w reuse (ObsT sid root) _ =>
    reuse = false -> sid = ps /\ root = cont us
  | _, _ => True
  end.

Lemma sysJ_upsert : forall t s w b r n, sysJ t s -> J t b r ->
  sysJ t (mkSys (upsert w (b, r) (ws s)) n).
Proof.
  intros t s w b r n Hs Hi w0 b0 r0 Hf. cbn in Hf. rewrite find_upsert in Hf.
  destruct (w0 =? w); [inv Hf; exact Hi | eapply Hs; eauto].
Qed.

Lemma sysJ_mono : forall t t' s, mono t t' -> sysJ t s -> sysJ t' s.
Proof. intros t t' s M Hs w b r Hf. eapply J_mono; eauto. Qed.

Lemma nr_step : forall t t' s o s' ou,
  sysJ t s -> nn_req o = true -> nr_op t o = Some t' -> step s o = (s', ou) ->
  sysJ t' s' /\ exactB o ou.
Proof.
  intros t t' s o s' ou Hs Hc Hn H.
  destruct o as [w m db us gs rc dc sc f | avail db us ps f | w dbs gs sc]; unfold Model.step in H.
  - cbn in Hn. apply nr_five_spec in Hn. pose proof (proj1 Hn) as M.
    destruct (find w (ws s)) as [[b r]|] eqn:Ew.
    + destruct (compile_op true true fal cont b r (nxt s) m db us gs rc dc sc f)
        as [[[[b' r'] x] ob] re] eqn:Ec.
      inv H. cbn in Hc. repeat (apply andb_true_iff in Hc; destruct Hc as [Hc ?]).
      destruct (nr_compile fal cont _ _ _ _ _ _ _ _ _ _ _ _ _ _ _ _ _ _ (Hs _ _ _ Ew) Hc H2 H1 H0 H Hn Ec)
        as [Hi Ho].
      split; [apply sysJ_upsert; [eapply sysJ_mono; eauto | exact Hi]|].
      destruct Ho as [-> | ->]; cbn; auto.
    + inv H. split; [|exact I]. intros w0 b0 r0 Hf. eapply J_mono; eauto.
  - cbn in Hn. apply nr_supply_spec in Hn as [M S].
    assert (Hsame : forall n, sysJ t' (mkSys (ws s) n))
      by (intros n w0 b0 r0 Hf; eapply J_mono; eauto).
    destruct (acquire s avail ps) as [w|]; [|inv H; split; [apply Hsame | exact I]].
    destruct (find w (ws s)) as [[b r]|] eqn:Ew; [|inv H; split; [apply Hsame | exact I]].
    destruct (tx_op b r (nxt s) db us ps f) as [[[[b' r'] reuse] ob] re] eqn:Ec.
    inv H.
    destruct (nr_tx _ _ _ _ _ _ _ _ _ _ _ _ _ _ (Hs _ _ _ Ew) M S Ec) as [Hi Ho].
    split; [apply sysJ_upsert; [eapply sysJ_mono; eauto | exact Hi]|].
    destruct Ho as [-> | (sid & root & -> & Hr)]; cbn; auto.
  - destruct (init_worker dbs gs sc) as [[b r]|] eqn:Ei; inv H; (split; [|exact I]).
    + destruct (nr_restart _ _ _ _ _ _ _ _ Hn Ei) as [M HJ].
      apply sysJ_upsert; [eapply sysJ_mono; eauto | exact HJ].
    + assert (M : mono t t').
      { cbn in Hn.
        destruct (nr_supply t k_gs gs) as [t1|] eqn:E1; [|cbn in Hn; rewrite fold_none in Hn; discriminate].
        cbn in Hn.
        destruct (nr_supply t1 k_sc sc) as [t2|] eqn:E2; [|rewrite fold_none in Hn; discriminate].
        apply nr_supply_spec in E1 as [M1 _]. apply nr_supply_spec in E2 as [M2 _].
        destruct (fold_supplied _ _ _ _ _ Hn) as [M3 _].
        eapply mono_trans; [eapply mono_trans|]; eauto. }
      intros w0 b0 r0 Hf. cbn in Hf. rewrite find_remove in Hf.
      destruct (w0 =? w); [discriminate | eapply J_mono; eauto].
Qed.

Lemma nr_run : forall h t s, sysJ t s -> forallb nn_req h = true -> nr_ops t h <> None ->
  Forall (fun p => exactB (fst p) (snd p)) (run s h).
Proof.
  induction h as [|o tl IH]; intros t s Hs Hc Hn; cbn; [constructor|].
  cbn in Hc. apply andb_true_iff in Hc as [Ho Ht]. cbn in Hn.
  destruct (nr_op t o) as [t'|] eqn:En; [|congruence].
  destruct (step s o) as [s' ou] eqn:E.
  destruct (nr_step _ _ _ _ _ _ Hs Ho En E) as [Hs' He].
  constructor; [exact He | eapply IH; eauto].
Qed.

Lemma p_noreturn_args_exact : forall h w m db us gs rc dc sc f x a b c d e re,
  forallb nn_req h = true -> no_return h = true ->
  In (OCompile w m db us gs rc dc sc f, OutC x (ObsC a b c d e) re) (run sys0 h) ->
  a = cont us /\ b = cont gs /\ c = cont rc /\ d = cont dc /\ e = cont sc.
Proof.
  intros until re. intros Hc Hn Hin.
  assert (H0 : sysJ [] sys0) by (intros ? ? ? X; discriminate).
  assert (Hn' : nr_ops [] h <> None) by (unfold no_return in Hn; destruct (nr_ops [] h); congruence).
  pose proof (nr_run h [] sys0 H0 Hc Hn') as Hf.
  rewrite Forall_forall in Hf. exact (Hf _ Hin).
Qed.

Lemma p_noreturn_tx_exact : forall h avail db us ps f w sid root re,
  forallb nn_req h = true -> no_return h = true ->
  In (OTx avail db us ps f, OutT w false (ObsT sid root) re) (run sys0 h) ->
  sid = ps /\ root = cont us.
Proof.
  intros until re. intros Hc Hn Hin.
  assert (H0 : sysJ [] sys0) by (intros ? ? ? X; discriminate).
  assert (Hn' : nr_ops [] h <> None) by (unfold no_return in Hn; destruct (nr_ops [] h); congruence).
  pose proof (nr_run h [] sys0 H0 Hc Hn') as Hf.
  rewrite Forall_forall in Hf. exact (Hf _ Hin eq_refl).
Qed.

End NR2.
