(* C17 — compiler workers always compile against the caller's current state.
   Executable model of (single-tenant path)
     - edb/server/compiler_pool/pool.py  : AbstractPool._compute_compile_preargs and its
         sync_worker_state_cb (with the `new or old` merges), BaseWorker.call's acknowledge
         rule (callback on status 0, and on status 1 unless FailedStateSync; never on a lost
         request / status 2), AbstractPool.compile / compile_notebook / compile_sql /
         compile_graphql (`_last_pickled_state = result[1]` only in compile),
         AbstractPool.compile_in_tx (REUSE_LAST_STATE_MARKER / dbname / root-schema choice,
         `except Exception: _last_pickled_state = None` as in HEAD), BaseLocalPool._attach_worker
         (fresh Worker object from the init args), queue.WorkerQueue.acquire(condition=...)
     - edb/server/compiler_pool/worker.py: __init_worker__, __sync__ (db part first, then global
         schema, then system config; FailedStateSync wraps any failure), compile (LAST_STATE :=
         returned state, even None), compile_in_tx, compile_notebook / _sql / _graphql.
   Values:  the SERVER side holds object identities (N; 0 = None), compared with `is`;
            the WORKER side holds contents ([cont x] = what unpickling object x yields).
            [fal x] = the object is falsy in Python's sense (empty immutables.Map, b'').
   Hand-written; tied to the code by the correspondence check harness/props/c17.py. *)
From Coq Require Import List NArith Bool.
Import ListNotations.
Local Open Scope N_scope.

(* ------------------------------------------------------------------ *)
(* data                                                                *)

Record pdb := mkP { p_us : N; p_rc : N; p_dc : N }.      (* state.PickledDatabaseState: identities *)
Record wdb := mkD { d_us : N; d_rc : N; d_dc : N }.      (* state.DatabaseState: contents *)

(* what the server believes a worker holds: BaseWorker._dbs / _global_schema_pickle /
   _system_config / _last_pickled_state (identity of the pickled state; 0 = None) *)
Record srv := mkS { b_dbs : list (N * pdb); b_gs : N; b_sc : N; b_last : N }.

(* what the worker holds: DBS / GLOBAL_SCHEMA / INSTANCE_CONFIG / LAST_STATE
   (LAST_STATE = state id + the root user schema set in the state object) *)
Record wrk := mkW { w_dbs : list (N * wdb); w_gs : N; w_sc : N; w_last : option (N * N) }.

Fixpoint find {A : Type} (k : N) (l : list (N * A)) : option A :=
  match l with
  | [] => None
  | (k', v) :: t => if k =? k' then Some v else find k t
  end.

Fixpoint upsert {A : Type} (k : N) (v : A) (l : list (N * A)) : list (N * A) :=
  match l with
  | [] => [(k, v)]
  | (k', v') :: t => if k =? k' then (k, v) :: t else (k', v') :: upsert k v t
  end.

Fixpoint remove {A : Type} (k : N) (l : list (N * A)) : list (N * A) :=
  match l with
  | [] => []
  | (k', v') :: t => if k =? k' then remove k t else (k', v') :: remove k t
  end.

Inductive fault :=
  | FNone
  | FReqLost                 (* the request never reaches the worker (connection error)        *)
  | FUnpickle (i : N)        (* pickle.loads of field i raises inside the worker:
                                0 user schema, 1 reflection cache, 2 global schema,
                                3 database config, 4 system config, 5 compiler state (in tx)    *)
  | FCompiler                (* the compiler entry point raises (status 1, not FailedStateSync) *)
  | FReplyLost.              (* the worker did everything, the reply is unusable (status 2)     *)

Inductive meth :=
  | MCompile (ret : bool)    (* "compile"; ret = the compiler returns a connection state        *)
  | MOther.                  (* compile_notebook / compile_sql / compile_graphql                *)

Inductive err := EReq | ESync | EComp | EReply | EAssert | EWorker.
Inductive res := ROk (p : N) | RErr (e : err).
Inductive obs :=
  | ObsNone
  | ObsC (us gs rc dc sc : N)     (* contents the compiler entry point was called with *)
  | ObsT (sid root : N).          (* compile_in_tx: state id and root user schema content *)

(* wire values of the five state arguments (None = not transmitted) and the keys of to_update *)
Record wire := mkWire { x_us : option N; x_rc : option N; x_gs : option N;
                        x_dc : option N; x_sc : option N }.

Definition is_none (x : N) : bool := x =? 0.

Definition fault_is (f : fault) (i : N) : bool :=
  match f with FUnpickle j => i =? j | _ => false end.

Section Model.
(* variants: fx1 = sync_worker_state_cb merges with `x if x is not None else old` (HEAD, commit
   ab51dc9) instead of `x or old`; fx2 = worker.__sync__ is all-or-nothing (HEAD, commit 8dbc525)
   instead of storing the per-database part / the global schema before the later loads.
   fx1 = fx2 = true is the code as pinned; the old variants are kept for Refuted.v. *)
Variable fx1 : bool.
Variable fx2 : bool.
Variable fal : N -> bool.
Variable cont : N -> N.

Definition falsy (x : N) : bool := is_none x || fal x.

(* user_schema_pickle / global_schema_pickle are passed as they are (None stays None);
   the other three go through _pickle_memoized (None becomes a pickle of None) *)
Definition raw_wire (x : N) : option N := if is_none x then None else Some x.

Definition changed (old new : N) : bool := negb (old =? new).

(* _compute_compile_preargs: (wire, to_update).  to_update has the same shape as the wire
   except that a raw None is still a key of to_update. *)
Definition preargs (b : srv) (db us gs rc dc sc : N) : wire * wire :=
  match find db (b_dbs b) with
  | None =>
    (mkWire (raw_wire us) (Some rc) (raw_wire gs) (Some dc) (Some sc),
     mkWire (Some us) (Some rc) (Some gs) (Some dc) (Some sc))
  | Some pd =>
    let s (c : bool) (x : N) := if c then Some x else None in
    let r (c : bool) (x : N) := if c then raw_wire x else None in
    (mkWire (r (changed (p_us pd) us) us) (s (changed (p_rc pd) rc) rc)
            (r (changed (b_gs b) gs) gs) (s (changed (p_dc pd) dc) dc)
            (s (changed (b_sc b) sc) sc),
     mkWire (s (changed (p_us pd) us) us) (s (changed (p_rc pd) rc) rc)
            (s (changed (b_gs b) gs) gs) (s (changed (p_dc pd) dc) dc)
            (s (changed (b_sc b) sc) sc))
  end.

Definition has_key (u : wire) : bool :=
  match x_us u, x_rc u, x_gs u, x_dc u, x_sc u with
  | None, None, None, None, None => false
  | _, _, _, _, _ => true
  end.

(* pickle.loads in the worker; None = raises.  A bytes object that is falsy is b'' (EOFError).
   An injected failure cannot hit a pickled None / empty map (harness convention). *)
Definition unp_raw (f : fault) (i : N) (x : N) : option N :=
  if fal x then None else if fault_is f i then None else Some (cont x).

Definition unp_map (f : fault) (i : N) (x : N) : option N :=
  if falsy x then Some (cont x) else if fault_is f i then None else Some (cont x).

Definition opt_unp (unp : N -> option N) (w : option N) (old : N) : option N :=
  match w with None => Some old | Some x => unp x end.

Definition set_wdbs (r : wrk) (l : list (N * wdb)) : wrk := mkW l (w_gs r) (w_sc r) (w_last r).
Definition set_wgs (r : wrk) (g : N) : wrk := mkW (w_dbs r) g (w_sc r) (w_last r).
Definition set_wsc (r : wrk) (c : N) : wrk := mkW (w_dbs r) (w_gs r) c (w_last r).
Definition set_wlast (r : wrk) (l : option (N * N)) : wrk := mkW (w_dbs r) (w_gs r) (w_sc r) l.
Definition set_blast (b : srv) (p : N) : srv := mkS (b_dbs b) (b_gs b) (b_sc b) p.

Inductive sres := SOk (r : wrk) (d : wdb) | SFail (r : wrk).

(* the per-database part of worker.__sync__: nothing is stored unless all three loads succeed *)
Definition sync_db (f : fault) (r : wrk) (db : N) (x : wire) : option (wrk * wdb) :=
  match find db (w_dbs r) with
  | None =>
    match x_us x, x_rc x, x_dc x with
    | Some us, Some rc, Some dc =>
      match unp_raw f 0 us with None => None | Some cu =>
      match unp_map f 1 rc with None => None | Some cr =>
      match unp_map f 3 dc with None => None | Some cd =>
        let d := mkD cu cr cd in Some (set_wdbs r (upsert db d (w_dbs r)), d)
      end end end
    | _, _, _ => None                          (* the asserts *)
    end
  | Some d =>
    match opt_unp (unp_raw f 0) (x_us x) (d_us d) with None => None | Some cu =>
    match opt_unp (unp_map f 1) (x_rc x) (d_rc d) with None => None | Some cr =>
    match opt_unp (unp_map f 3) (x_dc x) (d_dc d) with None => None | Some cd =>
      let d' := mkD cu cr cd in Some (set_wdbs r (upsert db d' (w_dbs r)), d')
    end end end
  end.

(* worker.__sync__ : db part, then global schema, then system config are unpickled; any
   failure raises FailedStateSync.  HEAD (fx2) stores DBS / GLOBAL_SCHEMA / INSTANCE_CONFIG only
   after all loads succeeded; the old code kept what was already stored. *)
Definition sync (f : fault) (r : wrk) (db : N) (x : wire) : sres :=
  match sync_db f r db x with
  | None => SFail r
  | Some (r1, d) =>
    match opt_unp (unp_raw f 2) (x_gs x) (w_gs r1) with
    | None => SFail (if fx2 then r else r1)
    | Some cg =>
      let r2 := set_wgs r1 cg in
      match opt_unp (unp_map f 4) (x_sc x) (w_sc r2) with
      | None => SFail (if fx2 then r else r2)
      | Some cs => SOk (set_wsc r2 cs) d
      end
    end
  end.

(* sync_worker_state_cb; None = AssertionError *)
Definition given (o : option N) : bool :=
  match o with Some x => negb (is_none x) | None => false end.
Definition pick (o : option N) (old : N) : N :=
  match o with
  | Some x => if (if fx1 then is_none x else falsy x) then old else x
  | None => old
  end.
Definition pick_nn (o : option N) (old : N) : N :=
  match o with Some x => if is_none x then old else x | None => old end.

Definition ack (b : srv) (db : N) (u : wire) : option srv :=
  if negb (has_key u) then Some b else
  match find db (b_dbs b) with
  | None =>
    if given (x_us u) && given (x_rc u) && given (x_gs u) && given (x_dc u) && given (x_sc u)
    then Some (mkS (upsert db (mkP (pick_nn (x_us u) 0) (pick_nn (x_rc u) 0) (pick_nn (x_dc u) 0))
                           (b_dbs b))
                   (pick_nn (x_gs u) 0) (pick_nn (x_sc u) 0) (b_last b))
    else None
  | Some pd =>
    let dbs := if given (x_us u) || given (x_rc u) || given (x_dc u)
               then upsert db (mkP (pick (x_us u) (p_us pd)) (pick (x_rc u) (p_rc pd))
                                   (pick (x_dc u) (p_dc pd))) (b_dbs b)
               else b_dbs b in
    Some (mkS dbs (pick_nn (x_gs u) (b_gs b)) (pick_nn (x_sc u) (b_sc b)) (b_last b))
  end.

(* one request through AbstractPool.compile* -> BaseWorker.call -> worker.compile*.
   [n] = the identity (= content) of the connection state the compiler would return; the
   harness uses the 1-based position of the request in the history, so it is unique. *)
Definition compile_op (b : srv) (r : wrk) (n : N) (m : meth)
           (db us gs rc dc sc : N) (f : fault) : srv * wrk * wire * obs * res :=
  let (x, u) := preargs b db us gs rc dc sc in
  match f with
  | FReqLost => (b, r, x, ObsNone, RErr EReq)
  | _ =>
    match sync f r db x with
    | SFail r' => (b, r', x, ObsNone, RErr ESync)
    | SOk r' d =>
      let o := ObsC (d_us d) (w_gs r') (d_rc d) (d_dc d) (w_sc r') in
      match f with
      | FCompiler =>
        match ack b db u with
        | Some b' => (b', r', x, o, RErr EComp)
        | None => (b, r', x, o, RErr EAssert)
        end
      | _ =>
        let (r'', p) :=
          match m with
          | MCompile true => (set_wlast r' (Some (n, d_us d)), n)
          | MCompile false => (set_wlast r' None, 0)
          | MOther => (r', 0)
          end in
        match f with
        | FReplyLost => (b, r'', x, o, RErr EReply)
        | _ =>
          match ack b db u with
          | None => (b, r'', x, o, RErr EAssert)
          | Some b' =>
            (match m with MCompile _ => set_blast b' p | MOther => b' end, r'', x, o, ROk p)
          end
        end
      end
    end
  end.

(* AbstractPool.compile_in_tx -> worker.compile_in_tx: the state object and its root user
   schema that the compiler is entered with; None = the worker raises before that *)
Definition tx_state (b : srv) (r : wrk) (db us ps : N) (f : fault) : option (N * N) :=
  if b_last b =? ps then w_last r                            (* marker; assert LAST_STATE is not None *)
  else if is_none ps then None                               (* pickle.loads(None) *)
  else if fault_is f 5 then None
  else
    let by_name :=
      match find db (b_dbs b) with
      | None => false
      | Some pd => p_us pd =? us
      end in
    if by_name then
      match find db (w_dbs r) with                            (* DBS[dbname] *)
      | None => None
      | Some wd => Some (ps, d_us wd)
      end
    else
      match raw_wire us with
      | None => None                                         (* assert user_schema is not None *)
      | Some u => match unp_raw f 0 u with None => None | Some c => Some (ps, c) end
      end.

(* The bool = REUSE_LAST_STATE_MARKER sent *)
Definition tx_op (b : srv) (r : wrk) (n : N) (db us ps : N) (f : fault)
  : srv * wrk * bool * obs * res :=
  let reuse := b_last b =? ps in
  match f with
  | FReqLost => (set_blast b 0, r, reuse, ObsNone, RErr EReq)
  | _ =>
    match tx_state b r db us ps f with
    | None => (set_blast b 0, r, reuse, ObsNone, RErr EWorker)
    | Some (sid, root) =>
      let o := ObsT sid root in
      match f with
      | FCompiler => (set_blast b 0, r, reuse, o, RErr EComp)
      | FReplyLost => (set_blast b 0, set_wlast r (Some (n, root)), reuse, o, RErr EReply)
      | _ => (set_blast b n, set_wlast r (Some (n, root)), reuse, o, ROk n)
      end
    end
  end.

(* a new worker process + Worker object from the server's current init args
   (BaseLocalPool._attach_worker, worker.__init_worker__); None = __init_worker__ raises *)
Definition norm_dbs (dbs : list (N * pdb)) : list (N * pdb) :=
  fold_left (fun acc e => upsert (fst e) (snd e) acc) dbs [].

Definition init_worker (dbs : list (N * pdb)) (gs sc : N) : option (srv * wrk) :=
  let bd := norm_dbs dbs in
  if falsy gs || existsb (fun e => negb (is_none (p_us (snd e))) && fal (p_us (snd e))) bd
  then None
  else Some (mkS bd gs sc 0,
             mkW (map (fun e => (fst e, mkD (cont (p_us (snd e))) (cont (p_rc (snd e)))
                                           (cont (p_dc (snd e))))) bd)
                 (cont gs) (cont sc) None).

(* ------------------------------------------------------------------ *)
(* the pool: several workers                                           *)

Record sys := mkSys { ws : list (N * (srv * wrk)); nxt : N }.

Inductive op :=
  | OCompile (w : N) (m : meth) (db us gs rc dc sc : N) (f : fault)
  | OTx (avail : list N) (db us ps : N) (f : fault)    (* avail = the queue of free workers *)
  | ORestart (w : N) (dbs : list (N * pdb)) (gs sc : N).

Inductive out :=
  | OutNW                                             (* no such worker / empty queue *)
  | OutC (x : wire) (o : obs) (r : res)
  | OutT (w : N) (reuse : bool) (o : obs) (r : res)
  | OutR (ok : bool).

(* WorkerQueue.acquire(condition): first queued worker satisfying the condition, else the head *)
Fixpoint live (s : sys) (l : list N) : list N :=
  match l with
  | [] => []
  | w :: t => match find w (ws s) with Some _ => w :: live s t | None => live s t end
  end.

Definition acquire (s : sys) (avail : list N) (ps : N) : option N :=
  let q := live s avail in
  match List.find (fun w => match find w (ws s) with
                             | Some (b, _) => b_last b =? ps
                             | None => false end) q with
  | Some w => Some w
  | None => match q with [] => None | w :: _ => Some w end
  end.

(* [nxt s] = 1-based position of the request being executed *)
Definition step (s : sys) (o : op) : sys * out :=
  let n := nxt s in
  match o with
  | OCompile w m db us gs rc dc sc f =>
    match find w (ws s) with
    | None => (mkSys (ws s) (n + 1), OutNW)
    | Some (b, r) =>
      let '(b', r', x, ob, re) := compile_op b r n m db us gs rc dc sc f in
      (mkSys (upsert w (b', r') (ws s)) (n + 1), OutC x ob re)
    end
  | OTx avail db us ps f =>
    match acquire s avail ps with
    | None => (mkSys (ws s) (n + 1), OutNW)
    | Some w =>
      match find w (ws s) with
      | None => (mkSys (ws s) (n + 1), OutNW)
      | Some (b, r) =>
        let '(b', r', reuse, ob, re) := tx_op b r n db us ps f in
        (mkSys (upsert w (b', r') (ws s)) (n + 1), OutT w reuse ob re)
      end
    end
  | ORestart w dbs gs sc =>
    match init_worker dbs gs sc with
    | None => (mkSys (remove w (ws s)) (n + 1), OutR false)
    | Some br => (mkSys (upsert w br (ws s)) (n + 1), OutR true)
    end
  end.

Fixpoint run (s : sys) (h : list op) : list (op * out) :=
  match h with
  | [] => []
  | o :: t => let (s', ou) := step s o in (o, ou) :: run s' t
  end.

Fixpoint final (s : sys) (h : list op) : sys :=
  match h with
  | [] => s
  | o :: t => final (fst (step s o)) t
  end.

(* the same with the state after every step (what the correspondence check prints) *)
Fixpoint trace (s : sys) (h : list op) : list (out * sys) :=
  match h with
  | [] => []
  | o :: t => let (s', ou) := step s o in (ou, s') :: trace s' t
  end.


(* ------------------------------------------------------------------ *)
(* hypotheses of the theorems, as executable predicates on histories   *)

Definition truthy (x : N) : bool := negb (falsy x).
Definition nn (x : N) : bool := negb (is_none x).

(* HEAD: every fault placement except an unusable (status 2) reply to a compile* request, and
   every value except None, keeps server belief and worker state in agreement *)
Definition clean_fault (f : fault) : bool :=
  match f with FReplyLost => false | _ => true end.

Definition clean_op (o : op) : bool :=
  match o with
  | OCompile w m db us gs rc dc sc f => nn us && nn gs && nn rc && nn dc && nn sc && clean_fault f
  | OTx avail db us ps f => nn ps
  | ORestart w dbs gs sc => true
  end.

Definition clean_hist (h : list op) : bool := forallb clean_op h.

End Model.

(* ------------------------------------------------------------------ *)
(* "the caller never returns to an earlier object": per scope (database x field, or the global  *)
(* schema / system config) the sequence of supplied object identities never comes back to an    *)
(* identity it has left.  Tracker: scope -> (current identity, identities left behind).         *)

Definition trk := list (N * (N * list N)).
Definition mem (x : N) (l : list N) : bool := existsb (N.eqb x) l.
Definition nr_supply (t : trk) (k x : N) : option trk :=
  match find k t with
  | None => Some (upsert k (x, []) t)
  | Some (cur, cl) =>
    if mem x cl then None
    else if cur =? x then Some t
    else Some (upsert k (x, cur :: cl) t)
  end.
Definition k_gs : N := 0.
Definition k_sc : N := 1.
Definition k_us (db : N) : N := 3 * db + 2.
Definition k_rc (db : N) : N := 3 * db + 3.
Definition k_dc (db : N) : N := 3 * db + 4.
Definition obind {A : Type} (o : option A) (f : A -> option A) : option A :=
  match o with None => None | Some a => f a end.
Definition nr_five (t : trk) (db us gs rc dc sc : N) : option trk :=
  obind (obind (obind (obind (nr_supply t (k_us db) us) (fun t => nr_supply t k_gs gs))
                      (fun t => nr_supply t (k_rc db) rc))
               (fun t => nr_supply t (k_dc db) dc))
        (fun t => nr_supply t k_sc sc).
Definition nr_op (t : trk) (o : op) : option trk :=
  match o with
  | OCompile w m db us gs rc dc sc f => nr_five t db us gs rc dc sc
  | OTx avail db us ps f => nr_supply t (k_us db) us
  | ORestart w dbs gs sc =>
    fold_left (fun acc e => obind acc (fun t => nr_five t (fst e) (p_us (snd e)) gs (p_rc (snd e))
                                                    (p_dc (snd e)) sc))
              dbs (obind (nr_supply t k_gs gs) (fun t => nr_supply t k_sc sc))
  end.
Fixpoint nr_ops (t : trk) (h : list op) : option trk :=
  match h with
  | [] => Some t
  | o :: r => match nr_op t o with None => None | Some t' => nr_ops t' r end
  end.
Definition no_return (h : list op) : bool :=
  match nr_ops [] h with Some _ => true | None => false end.

(* no None among the values of a request (the server never supplies None) *)
Definition nn_req (o : op) : bool :=
  match o with
  | OCompile w m db us gs rc dc sc f => nn us && nn gs && nn rc && nn dc && nn sc
  | OTx avail db us ps f => true
  | ORestart w dbs gs sc => true
  end.

Definition sys0 : sys := mkSys [] 1.

(* the instance the correspondence check runs: identities >= 100 are falsy objects (all of
   content 50), identities 2k and 2k+1 are two objects of equal content k *)
Definition fal0 (x : N) : bool := 100 <=? x.
Definition cont0 (x : N) : N := if x =? 0 then 0 else if 100 <=? x then 50 else x / 2.
Definition clean0 (h : list op) : bool := clean_hist h.
Definition noret0 (h : list op) : bool := forallb nn_req h && no_return h.
Definition trace0 (h : list op) : list (out * sys) := trace true true fal0 cont0 sys0 h.

(* flat numeric rendering of a trace: compared between vm_compute and the extracted binary *)
Definition fl_opt (o : option N) : list N := match o with None => [0] | Some x => [1; x] end.
Definition fl_wire (x : wire) : list N :=
  fl_opt (x_us x) ++ fl_opt (x_rc x) ++ fl_opt (x_gs x) ++ fl_opt (x_dc x) ++ fl_opt (x_sc x).
Definition fl_obs (o : obs) : list N :=
  match o with ObsNone => [0] | ObsC a b c d e => [1; a; b; c; d; e] | ObsT s r => [2; s; r] end.
Definition fl_err (e : err) : N :=
  match e with EReq => 0 | ESync => 1 | EComp => 2 | EReply => 3 | EAssert => 4 | EWorker => 5 end.
Definition fl_res (r : res) : list N := match r with ROk p => [0; p] | RErr e => [1; fl_err e] end.
Definition fl_bool (b : bool) : N := if b then 1 else 0.
Definition fl_out (o : out) : list N :=
  match o with
  | OutNW => [0]
  | OutC x ob r => 1 :: fl_wire x ++ fl_obs ob ++ fl_res r
  | OutT w re ob r => [2; w; fl_bool re] ++ fl_obs ob ++ fl_res r
  | OutR ok => [3; fl_bool ok]
  end.
Definition fl_srv (b : srv) : list N :=
  [b_gs b; b_sc b; b_last b; N.of_nat (length (b_dbs b))] ++
  flat_map (fun e => [fst e; p_us (snd e); p_rc (snd e); p_dc (snd e)]) (b_dbs b).
Definition fl_wrk (r : wrk) : list N :=
  [w_gs r; w_sc r] ++ (match w_last r with None => [0] | Some (a, c) => [1; a; c] end) ++
  [N.of_nat (length (w_dbs r))] ++
  flat_map (fun e => [fst e; d_us (snd e); d_rc (snd e); d_dc (snd e)]) (w_dbs r).
Definition fl_sys (s : sys) : list N :=
  [nxt s; N.of_nat (length (ws s))] ++
  flat_map (fun e => fst e :: fl_srv (fst (snd e)) ++ fl_wrk (snd (snd e))) (ws s).
Definition digest0 (h : list op) : list N :=
  flat_map (fun e => fl_out (fst e) ++ fl_sys (snd e)) (trace0 h).
