(* C10 — Step-by-step migration equals direct migration.
   Statements only (see C02/Props.v for the model and its partiality).
   A history is a chain of accepted migration steps; in every step the diff engine may pick ANY
   command list with the partition property in ANY dependency-respecting order ([mstep]), computed
   from the ACTUAL schema left by the previous step (so residue of earlier steps would matter). *)
From Coq Require Import List NArith Bool.
From Verif.C20 Require Import Model.
From Verif.Evo Require Import Model ProofsBase ProofsEvo ProofsTop.
Import ListNotations.

(* after any chain of accepted steps the database holds exactly the last target *)
Theorem C10_chain_reaches_last : forall targets A S, NoDup (names A) -> chain A targets S ->
  targets <> [] -> sch_equiv S (last targets []).
Proof. exact chain_last. Qed.
Print Assumptions C10_chain_reaches_last.

(* chain S1..Sn from the empty database = direct migration of the empty database to Sn *)
Theorem C10_path_independent : forall targets S S',
  targets <> [] -> chain [] targets S -> mstep [] (last targets []) S' -> sch_equiv S S'.
Proof. exact p_path_independent. Qed.
Print Assumptions C10_path_independent.

(* the outcome does not depend on the path taken *)
Theorem C10_two_paths : forall t1 t2 S1 S2, t1 <> [] -> t2 <> [] -> last t1 [] = last t2 [] ->
  chain [] t1 S1 -> chain [] t2 S2 -> sch_equiv S1 S2.
Proof. exact p_two_paths. Qed.
Print Assumptions C10_two_paths.

(* a final migration to the empty schema removes everything that was created *)
Theorem C10_to_empty : forall targets S S', chain [] targets S -> mstep S [] S' -> S' = [].
Proof. exact p_chain_then_empty. Qed.
Print Assumptions C10_to_empty.

(* executable form: each computed migration either reaches its target or is not produced *)
Theorem C10_migrate_step : forall m A B S, migrate m A B = MigOk S -> sch_equiv S B.
Proof. exact p_migrate_ok. Qed.
Print Assumptions C10_migrate_step.

(* ---- non-vacuity ---- *)
Definition o (c d : N) (r : list N) := mkObj c d r.
Definition s1 : schema := [(1, o 1 10 []); (2, o 1 20 [1])]%N.
Definition s2 : schema := [(1, o 1 10 []); (3, o 1 20 [1]); (4, o 2 40 [3])]%N.   (* 2 renamed to 3; 4 added *)
Definition s3 : schema := [(4, o 2 41 []); (1, o 1 10 [])]%N.                      (* 3 dropped, 4 re-typed *)
Definition run3 : option schema :=
  match migrate [] [] s1 with
  | MigOk a => match migrate [(1, 1); (2, 3)]%N a s2 with
               | MigOk b => match migrate [(1, 1); (4, 4)]%N b s3 with MigOk c => Some c | _ => None end
               | _ => None end
  | _ => None end.
Example ex_chain_vs_direct :
  exists c d, run3 = Some c /\ migrate [] [] s3 = MigOk d /\ sch_eqb c d = true.
Proof. eexists. eexists. repeat split; vm_compute; reflexivity. Qed.
Example ex_back_to_empty : exists c, run3 = Some c /\ migrate [] c [] = MigOk [].
Proof. eexists. split; vm_compute; reflexivity. Qed.
Example ex_chain_rel : exists S, chain [] [s1] S.
Proof.
  eexists. eapply chain_cons; [|apply chain_nil].
  split; [vm_compute; reflexivity|].
  exists [Create 1 (o 1 10 []); Create 2 (o 1 20 [1])]%N. repeat split; vm_compute; reflexivity.
Qed.
