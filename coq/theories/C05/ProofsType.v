(* C05 -- the type-level flat commands (create / drop an object type) preserve the invariant. *)
From Coq Require Import List NArith Bool Lia.
From Verif.C05 Require Import Gen_Layout Model Proofs.
Import ListNotations.
Open Scope N_scope.

Arguments run_gops : simpl never.
Arguments apply_gop : simpl never.
Arguments has_tab : simpl never.
Arguments has_col : simpl never.
Arguments tab_eqb : simpl nomatch.
Arguments col_eqb : simpl nomatch.

#[local] Hint Rewrite has_tab_cons has_col_cons has_tab_remove has_col_remove has_tab_update
     has_col_add has_col_rm : catT.

Lemma no_inst_of_missing_type fs t q :
  fwf fs -> mem_id t (f_types fs) = false -> find_inst (f_insts fs) t q = None.
Proof.
  intros [_ W] H. destruct (find_inst (f_insts fs) t q) as [i|] eqn:E; auto.
  pose proof (find_inst_in _ _ _ _ E) as HIn. apply find_inst_key in E. destruct E as [E1 _].
  apply W in HIn. rewrite E1 in HIn. congruence.
Qed.

Lemma create_type_ok fs c t :
  fwf fs -> Inv fs c -> mem_id t (f_types fs) = false ->
  exists c', run_gops c [Do (CreateTable (TT t) []); Do (AddCol (TT t) CId)] = Some c' /\
             Inv (mkF (t :: f_types fs) (f_insts fs)) c'.
Proof.
  intros W [IT IC] Ht.
  assert (H0 : has_tab c (TT t) = false) by (rewrite IT; exact Ht).
  rewrite run_create by exact H0.
  rewrite run_add.
  2:{ rewrite has_tab_cons, tab_eqb_refl. reflexivity. }
  2:{ rewrite has_col_cons, tab_eqb_refl. reflexivity. }
  eexists. split; [reflexivity|]. split.
  - intro x. rewrite has_tab_update, has_tab_cons, IT.
    destruct x as [u|u q]; simpl.
    + rewrite (N.eqb_sym u t). reflexivity.
    + reflexivity.
  - intros x k. rewrite has_col_add, has_col_cons, has_tab_cons, IC.
    destruct x as [u|u q]; simpl.
    + destruct (N.eqb_spec t u) as [<-|N]; simpl.
      * rewrite N.eqb_refl. destruct k; simpl; auto.
        rewrite (no_inst_of_missing_type fs t p W Ht). reflexivity.
      * assert (N.eqb u t = false) as -> by (apply N.eqb_neq; congruence).
        destruct k; reflexivity.
    + destruct k; reflexivity.
Qed.

(* ---- dropping a type: the loop over its pointers *)
Section DropType.
  Variables (fs : fschema) (c0 : catalog) (t : id).
  Hypothesis HI : Inv fs c0.

  Record J (l : list inst) (c : catalog) : Prop := mkJ {
    jA : forall x, (forall p, x <> TP t p) -> has_tab c x = has_tab c0 x;
    jB : forall x k, (forall p, x <> TP t p) -> x <> TT t -> has_col c x k = has_col c0 x k;
    jC : has_tab c (TT t) = true /\ has_col c (TT t) CId = true;
    jD : forall p, has_tab c (TP t p) = inst_tab (find_inst l t p);
    jE : forall p, match find_inst l t p with
                   | Some i => negb (i_link i) && inst_in_source i
                   | None => false
                   end = true -> has_col c (TT t) (CP p) = true }.

  Lemma tp_neq_sym x p : x <> TP t p -> tab_eqb (TP t p) x = false.
  Proof. intro H. destruct (tab_eqb_spec (TP t p) x); auto. congruence. Qed.

  (* one instance of the type is processed: what the catalog after it must satisfy *)
  Lemma J_step c c' i r :
    i_t i = t -> find_inst r t (i_p i) = None -> J (i :: r) c ->
    (forall x, (forall p, x <> TP t p) -> has_tab c' x = has_tab c x) ->
    (forall x k, (forall p, x <> TP t p) -> x <> TT t -> has_col c' x k = has_col c x k) ->
    has_tab c' (TT t) = has_tab c (TT t) ->
    has_col c' (TT t) CId = has_col c (TT t) CId ->
    (forall p, p <> i_p i -> has_tab c' (TP t p) = has_tab c (TP t p)) ->
    has_tab c' (TP t (i_p i)) = false ->
    (forall p, p <> i_p i -> has_col c' (TT t) (CP p) = has_col c (TT t) (CP p)) ->
    J r c'.
  Proof.
    intros Ht Hn [A B [C1 C2] D E] a b c1 c2 d d' e.
    assert (FI : forall p, find_inst (i :: r) t p =
                           if N.eqb p (i_p i) then Some i else find_inst r t p).
    { intro p. simpl. unfold is_inst. rewrite Ht, N.eqb_refl. reflexivity. }
    constructor.
    - intros x Hx. rewrite a by exact Hx. apply A. exact Hx.
    - intros x k Hx Hx2. rewrite b by assumption. apply B; assumption.
    - split; congruence.
    - intro p. destruct (N.eqb_spec p (i_p i)) as [->|Np].
      + rewrite d', Hn. reflexivity.
      + rewrite d by exact Np. rewrite D, FI.
        assert (N.eqb p (i_p i) = false) as -> by (apply N.eqb_neq; congruence). reflexivity.
    - intros p Hp. destruct (N.eqb_spec p (i_p i)) as [->|Np].
      + rewrite Hn in Hp. discriminate.
      + rewrite e by exact Np. apply E. rewrite FI.
        assert (N.eqb p (i_p i) = false) as -> by (apply N.eqb_neq; congruence). exact Hp.
  Qed.

  Ltac jfacts :=
    intros; autorewrite with catT; simpl; rewrite ?N.eqb_refl; simpl;
    repeat match goal with
           | H : forall p, ?x <> TP t p |- context [tab_eqb (TP t ?q) ?x] =>
               rewrite (tp_neq_sym x q (H q))
           | H : ?x <> TT t |- context [tab_eqb (TT t) ?x] =>
               let E := fresh in destruct (tab_eqb_spec (TT t) x) as [E|E]; [congruence|]
           | H : ?p <> ?q |- context [N.eqb ?q ?p] =>
               replace (N.eqb q p) with false by (symmetry; apply N.eqb_neq; congruence)
           | H : ?p <> ?q |- context [N.eqb ?p ?q] =>
               replace (N.eqb p q) with false by (symmetry; apply N.eqb_neq; congruence)
           end;
    simpl; rewrite ?N.eqb_refl, ?andb_false_r, ?andb_true_r; simpl; auto.

  Lemma J_loop l :
    keys_nodup l -> forall c, J l c ->
    exists c', run_gops c (flat_map (fun i => if N.eqb t (i_t i) then delete_ptr_ops i true else []) l)
               = Some c' /\ J [] c'.
  Proof.
    induction l as [|i r IH]; intros ND c HJ.
    - exists c. split; [reflexivity | exact HJ].
    - destruct ND as [Hn ND]. cbn [flat_map].
      destruct (N.eqb_spec t (i_t i)) as [Et|Nt].
      2:{ (* an instance of another type: nothing emitted *)
        cbn [app]. apply IH; auto. destruct HJ as [A B C D E]. constructor; auto.
        - intro p. rewrite D. simpl. unfold is_inst.
          assert (N.eqb t (i_t i) = false) as -> by (apply N.eqb_neq; congruence). reflexivity.
        - intros p Hp. apply E. simpl. unfold is_inst.
          assert (N.eqb t (i_t i) = false) as -> by (apply N.eqb_neq; congruence). exact Hp. }
      symmetry in Et. rewrite Et in Hn.
      rewrite run_app.
      assert (FI : forall p, find_inst (i :: r) t p =
                             if N.eqb p (i_p i) then Some i else find_inst r t p).
      { intro p. simpl. unfold is_inst. rewrite Et, N.eqb_refl. reflexivity. }
      assert (Dp : has_tab c (TP t (i_p i)) = inst_has_table i).
      { rewrite (jD _ _ HJ). rewrite FI, N.eqb_refl. reflexivity. }
      unfold delete_ptr_ops, ttab, pcol, ptab. rewrite Et.
      destruct (i_comp i) eqn:Ecomp.
      { (* computed: nothing stored *)
        rewrite run_nil. apply IH; auto.
        apply (J_step c c i r Et Hn HJ); auto.
        rewrite Dp. unfold inst_has_table. rewrite Ecomp. reflexivity. }
      destruct (i_link i) eqn:Elink.
      + (* link under type deletion: its column goes with the table of the type *)
        rewrite andb_false_r. cbn [app].
        destruct (inst_has_table i) eqn:Eht.
        * rewrite run_drop_if, Dp, run_nil. apply IH; auto.
          apply (J_step c _ i r Et Hn HJ); jfacts.
        * rewrite run_nil. apply IH; auto.
          apply (J_step c c i r Et Hn HJ); auto.
      + (* property *)
        destruct (inst_in_source i) eqn:Esrc.
        * assert (Hc : has_col c (TT t) (CP (i_p i)) = true).
          { apply (jE _ _ HJ). rewrite FI, N.eqb_refl, Elink, Esrc. reflexivity. }
          cbn [app]. rewrite run_dropcol by exact Hc.
          destruct (inst_has_table i) eqn:Eht.
          -- rewrite run_drop by (rewrite has_tab_update; exact Dp). rewrite run_nil.
             apply IH; auto. apply (J_step c _ i r Et Hn HJ); jfacts.
          -- rewrite run_nil. apply IH; auto.
             apply (J_step c _ i r Et Hn HJ); jfacts.
        * cbn [app]. destruct (inst_has_table i) eqn:Eht.
          -- rewrite run_drop by exact Dp. rewrite run_nil.
             apply IH; auto. apply (J_step c _ i r Et Hn HJ); jfacts.
          -- rewrite run_nil. apply IH; auto.
             apply (J_step c c i r Et Hn HJ); auto.
  Qed.
End DropType.

Lemma drop_type_ok fs c t :
  fwf fs -> Inv fs c -> mem_id t (f_types fs) = true ->
  exists c', run_gops c (drop_type_ops fs t) = Some c' /\
             Inv (mkF (filter (fun u => negb (N.eqb t u)) (f_types fs))
                      (filter (fun i => negb (N.eqb t (i_t i))) (f_insts fs))) c'.
Proof.
  intros [ND W] HI Ht. pose proof HI as [IT IC].
  assert (J0 : J c t (f_insts fs) c).
  { constructor; auto.
    - split.
      + rewrite IT. exact Ht.
      + rewrite IC. exact Ht.
    - intro p. rewrite IT. simpl. destruct (find_inst (f_insts fs) t p); reflexivity.
    - intros p Hp. rewrite IC. simpl. destruct (find_inst (f_insts fs) t p); try discriminate.
      apply andb_true_iff in Hp. tauto. }
  destruct (J_loop c t (f_insts fs) ND c J0) as (c1 & R1 & [A B [C1 C2] D E]).
  unfold drop_type_ops. rewrite run_app, R1.
  rewrite run_dropcol by exact C2.
  rewrite run_drop by (rewrite has_tab_update; exact C1).
  eexists. split; [reflexivity|].
  assert (NTP : forall u q p, u <> t -> TP u q <> TP t p) by (intros; congruence).
  split.
  - intro x. rewrite has_tab_remove, has_tab_update.
    destruct x as [u|u q]; simpl.
    + rewrite mem_id_filter. destruct (N.eqb_spec t u) as [<-|N]; simpl; auto.
      rewrite A by (intros; discriminate). apply IT.
    + rewrite find_inst_filter_t. destruct (N.eqb_spec t u) as [<-|N]; simpl.
      * rewrite D. reflexivity.
      * rewrite A by (intro; apply NTP; congruence). apply IT.
  - intros x k. rewrite has_col_remove, has_col_rm.
    destruct x as [u|u q]; simpl.
    + destruct (N.eqb_spec t u) as [<-|N]; simpl.
      * destruct k; simpl; rewrite ?mem_id_filter, ?find_inst_filter_t, ?N.eqb_refl; reflexivity.
      * rewrite B; [ | intros; discriminate | congruence ].
        rewrite IC. destruct k; simpl; rewrite ?mem_id_filter, ?find_inst_filter_t; auto;
          assert (N.eqb t u = false) as -> by (apply N.eqb_neq; congruence); reflexivity.
    + destruct (N.eqb_spec t u) as [<-|N].
      * assert (H0 : has_col c1 (TP t q) k = false).
        { destruct (has_col c1 (TP t q) k) eqn:E0; auto.
          apply has_col_has_tab in E0. rewrite D in E0. discriminate. }
        rewrite H0. destruct k; simpl; rewrite ?find_inst_filter_t, ?N.eqb_refl; reflexivity.
      * rewrite B; [ | intro; apply NTP; congruence | discriminate ].
        rewrite IC. destruct k; simpl; rewrite ?find_inst_filter_t; auto;
          assert (N.eqb t u = false) as -> by (apply N.eqb_neq; congruence); reflexivity.
Qed.
