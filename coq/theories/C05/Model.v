(* C05 -- backend tables and columns track the schema through every migration.

   Executable model of the part of edb/pgsql/delta.py that decides, per schema command, which
   tables and columns are created and dropped, of the layout functions of edb/pgsql/types.py
   (Gen_Layout.v is regenerated from that file), and of a PostgreSQL-like catalog on which the
   emitted operations run (CREATE of something that exists / DROP or ALTER of something missing
   is an error, exactly as in the backend).

   Two layers:

   * FLAT layer (what the theorems are proved about).  The state is the set of object types that
     have a table and the set of pointer INSTANCES: one per (object type, pointer) pair, own or
     inherited -- in the real schema every inherited pointer is a separate derived pointer object
     with its own uuid, its own column / link table.  A flat command is one adapted command of
     pgsql/delta.py on one object: CreateObjectType, DeleteObjectType, CreateLink/CreateProperty,
     DeleteLink/DeleteProperty, Alter*UpperCardinality, AlterLink/AlterProperty computed<->stored,
     Create/Delete/Alter of a link property.  [fstep] emits the guarded dbops commands the real
     handlers emit (references to delta.py are given at each definition).

   * USER layer (executable, tested against the real schema machinery by the correspondence run,
     not reasoned about): object types with names, bases, own pointers; DDL-level events;
     [ustep] decides accepted / rejected / out of the modelled fragment and expands an accepted
     event into flat commands for every type of the inheritance cone.  The theorems hold for
     EVERY sequence of flat commands, hence for whatever [ustep] produces.

   Not modelled (see Props.v header): constraints, indexes, triggers, views, data-copy queries,
   column types / NOT NULL / defaults, abstract links, multiple inheritance that merges pointers. *)
From Coq Require Import List NArith Bool.
From Verif.C05 Require Import Gen_Layout.
Import ListNotations.
Open Scope N_scope.

Definition id := N.

(* ================================================================== catalog *)

Inductive tab := TT (t : id) | TP (t p : id).
Inductive col := CId | CSrc | CTgt | CP (p : id) | CL (q : id).

Definition tab_eqb (a b : tab) : bool :=
  match a, b with
  | TT t, TT u => N.eqb t u
  | TP t p, TP u q => N.eqb t u && N.eqb p q
  | _, _ => false
  end.

Definition col_eqb (a b : col) : bool :=
  match a, b with
  | CId, CId | CSrc, CSrc | CTgt, CTgt => true
  | CP p, CP q => N.eqb p q
  | CL p, CL q => N.eqb p q
  | _, _ => false
  end.

Definition catalog := list (tab * list col).

Fixpoint cat_find (c : catalog) (x : tab) : option (list col) :=
  match c with
  | [] => None
  | (y, cs) :: r => if tab_eqb x y then Some cs else cat_find r x
  end.

Definition mem_col (k : col) (cs : list col) : bool := existsb (col_eqb k) cs.
Definition has_tab (c : catalog) (x : tab) : bool :=
  match cat_find c x with Some _ => true | None => false end.
Definition has_col (c : catalog) (x : tab) (k : col) : bool :=
  match cat_find c x with Some cs => mem_col k cs | None => false end.

Definition cat_remove (c : catalog) (x : tab) : catalog :=
  filter (fun e => negb (tab_eqb x (fst e))) c.
Definition cat_update (c : catalog) (x : tab) (f : list col -> list col) : catalog :=
  map (fun e => if tab_eqb x (fst e) then (fst e, f (snd e)) else e) c.
Definition rm_col (k : col) (cs : list col) : list col :=
  filter (fun k' => negb (col_eqb k k')) cs.

(* dbops.CreateTable / DropTable / AlterTableAddColumn / AlterTableDropColumn *)
Inductive op :=
| CreateTable (x : tab) (cs : list col)
| DropTable (x : tab)
| AddCol (x : tab) (k : col)
| DropCol (x : tab) (k : col).

(* None = the backend raises *)
Definition apply_op (c : catalog) (o : op) : option catalog :=
  match o with
  | CreateTable x cs => if has_tab c x then None else Some ((x, cs) :: c)
  | DropTable x => if has_tab c x then Some (cat_remove c x) else None
  | AddCol x k =>
      if has_tab c x then
        if has_col c x k then None else Some (cat_update c x (cons k))
      else None
  | DropCol x k =>
      if has_col c x k then Some (cat_update c x (rm_col k)) else None
  end.

(* dbops conditions= / neg_conditions=: TableExists, ColumnExists *)
Inductive cond := TabEx (x : tab) | ColEx (x : tab) (k : col).
Definition eval_cond (c : catalog) (cd : cond) : bool :=
  match cd with TabEx x => has_tab c x | ColEx x k => has_col c x k end.

Inductive gop := Do (o : op) | IfEx (cd : cond) (o : op) | IfNotEx (cd : cond) (o : op).

Definition apply_gop (c : catalog) (g : gop) : option catalog :=
  match g with
  | Do o => apply_op c o
  | IfEx cd o => if eval_cond c cd then apply_op c o else Some c
  | IfNotEx cd o => if eval_cond c cd then Some c else apply_op c o
  end.

Fixpoint run_gops (c : catalog) (gs : list gop) : option catalog :=
  match gs with
  | [] => Some c
  | g :: r => match apply_gop c g with Some c' => run_gops c' r | None => None end
  end.

(* what took effect (only used by the correspondence run) *)
Inductive eff := ECT (x : tab) | EDT (x : tab) | EAC (x : tab) (k : col) | EDC (x : tab) (k : col).

Definition op_effects (c : catalog) (o : op) : list eff :=
  match o with
  | CreateTable x cs => ECT x :: map (EAC x) cs
  | DropTable x =>
      match cat_find c x with Some cs => map (EDC x) cs ++ [EDT x] | None => [] end
  | AddCol x k => [EAC x k]
  | DropCol x k => [EDC x k]
  end.

Definition gop_effects (c : catalog) (g : gop) : list eff :=
  match g with
  | Do o => op_effects c o
  | IfEx cd o => if eval_cond c cd then op_effects c o else []
  | IfNotEx cd o => if eval_cond c cd then [] else op_effects c o
  end.

Fixpoint log_gops (c : catalog) (gs : list gop) : list eff :=
  match gs with
  | [] => []
  | g :: r => match apply_gop c g with
              | Some c' => gop_effects c g ++ log_gops c' r
              | None => []
              end
  end.

(* ================================================================== flat schema *)

(* one pointer as seen in one object type.  i_lps: link properties (id, computed?) *)
Record inst := mkInst {
  i_t : id; i_p : id; i_link : bool; i_multi : bool; i_comp : bool; i_lps : list (id * bool) }.

Record fschema := mkF { f_types : list id; f_insts : list inst }.

Definition mem_id (x : id) (l : list id) : bool := existsb (N.eqb x) l.
Definition is_inst (t p : id) (i : inst) : bool := N.eqb t (i_t i) && N.eqb p (i_p i).

Fixpoint find_inst (l : list inst) (t p : id) : option inst :=
  match l with
  | [] => None
  | i :: r => if is_inst t p i then Some i else find_inst r t p
  end.
Definition remove_inst (l : list inst) (t p : id) : list inst :=
  filter (fun i => negb (is_inst t p i)) l.
Definition set_inst (l : list inst) (i : inst) : list inst :=
  i :: remove_inst l (i_t i) (i_p i).

Fixpoint find_lp (l : list (id * bool)) (q : id) : option bool :=
  match l with
  | [] => None
  | (q', b) :: r => if N.eqb q q' then Some b else find_lp r q
  end.
Definition remove_lp (l : list (id * bool)) (q : id) : list (id * bool) :=
  filter (fun e => negb (N.eqb q (fst e))) l.

(* Link.has_user_defined_properties: some non-computed link property other than source/target *)
Definition has_stored (i : inst) : bool := existsb (fun e => negb (snd e)) (i_lps i).
Definition lp_stored (q : id) (i : inst) : bool :=
  match find_lp (i_lps i) q with Some b => negb b | None => false end.

(* types.get_pointer_storage_info (no link_bias): column in the source table *)
Definition inst_in_source (i : inst) : bool :=
  negb (i_comp i) && ptr_in_source (negb (i_multi i)) (has_stored i).
(* types.has_table(pointer): not pure computable, and with link_bias the storage is the
   pointer's own table *)
Definition inst_has_table (i : inst) : bool :=
  negb (i_comp i) && ptr_in_pointer (negb (i_multi i)) (has_stored i).

(* ---- the layout the query compiler assumes, as predicates on the flat schema *)
Definition L_tab (fs : fschema) (x : tab) : bool :=
  match x with
  | TT t => mem_id t (f_types fs)
  | TP t p => match find_inst (f_insts fs) t p with
              | Some i => inst_has_table i
              | None => false
              end
  end.

Definition L_col (fs : fschema) (x : tab) (k : col) : bool :=
  match x, k with
  | TT t, CId => mem_id t (f_types fs)
  | TT t, CP p => match find_inst (f_insts fs) t p with
                  | Some i => inst_in_source i
                  | None => false
                  end
  | TP t p, CSrc => L_tab fs (TP t p)
  | TP t p, CTgt => L_tab fs (TP t p)
  | TP t p, CL q => match find_inst (f_insts fs) t p with
                    | Some i => inst_has_table i && lp_stored q i
                    | None => false
                    end
  | _, _ => false
  end.

(* ---- and as a catalog *)
Definition stored_lp_cols (i : inst) : list col :=
  map (fun e => CL (fst e)) (filter (fun e => negb (snd e)) (i_lps i)).
Definition type_cols (fs : fschema) (t : id) : list col :=
  CId :: map (fun i => CP (i_p i))
             (filter (fun i => N.eqb t (i_t i) && inst_in_source i) (f_insts fs)).
Definition layout (fs : fschema) : catalog :=
  map (fun t => (TT t, type_cols fs t)) (f_types fs)
  ++ flat_map (fun i => if inst_has_table i
                        then [(TP (i_t i) (i_p i), CSrc :: CTgt :: stored_lp_cols i)]
                        else []) (f_insts fs).

(* ================================================================== flat commands *)

Inductive fcmd :=
| FCreateType (t : id)
| FDropType (t : id)
| FCreatePtr (t p : id) (link multi comp : bool)
| FDeletePtr (t p : id)
| FCreateLP (t p q : id) (comp : bool)
| FDeleteLP (t p q : id)
| FSetMulti (t p : id) (b : bool)
| FSetComp (t p : id) (b : bool)
| FSetLPComp (t p q : id) (b : bool).

Definition ptab (i : inst) : tab := TP (i_t i) (i_p i).
Definition ttab (i : inst) : tab := TT (i_t i).
Definition pcol (i : inst) : col := CP (i_p i).

(* PointerMetaCommand.create_table: `if types.has_table(ptr, schema)` ->
   Link/PropertyMetaCommand._create_table(conditional=True): CommandGroup(neg_conditions=
   [TableExists]) { CreateTable(source, target) ... }.  (The conditional creations for the
   pointer's descendants, create_children=True, are not modelled: they are guarded by
   NOT TableExists and every descendant that has_table already has its table.) *)
Definition create_table_ops (i : inst) : list gop :=
  if inst_has_table i then [IfNotEx (TabEx (ptab i)) (CreateTable (ptab i) [CSrc; CTgt])] else [].

(* LinkMetaCommand._create_link / PropertyMetaCommand._create_property (object type source):
   create_table(); if not pure computable and storage table_type == 'ObjectType':
   AlterTableAddColumn on the source table. *)
Definition create_ptr_ops (i : inst) : list gop :=
  create_table_ops i ++ (if inst_in_source i then [Do (AddCol (ttab i) (pcol i))] else []).

(* LinkMetaCommand._delete_link(link, schema, orig_schema) resp.
   PropertyMetaCommand._delete_property (object type source), on the instance state [i] before
   the deletion; itd = the enclosing command is DeleteObjectType.
   link:      not computed: column dropped unless the type is being deleted;
              has_table(link, orig): DropTable(conditions=[TableExists])
   property:  not computed: table_type ObjectType -> AlterTableDropColumn (also under type
              deletion); has_table(prop, orig) -> DropTable (unconditional)
   (The deletions of the link's own link properties, which precede the link deletion and drop
    columns of / the whole link table first, are folded into the table drop: same effects.) *)
Definition delete_ptr_ops (i : inst) (itd : bool) : list gop :=
  if i_comp i then [] else
  if i_link i then
    (if inst_in_source i && negb itd then [Do (DropCol (ttab i) (pcol i))] else [])
    ++ (if inst_has_table i then [IfEx (TabEx (ptab i)) (DropTable (ptab i))] else [])
  else
    (if inst_in_source i then [Do (DropCol (ttab i) (pcol i))] else [])
    ++ (if inst_has_table i then [Do (DropTable (ptab i))] else []).

(* PropertyMetaCommand._create_property, source is a link; i = link before, i' = link with the
   new stored link property:  `if has_table(link, schema)`: { `if not has_table(link,
   orig_schema)`: _create_table(link) (UNconditional) }; AlterTableAddColumn on the link table *)
Definition create_lp_ops (i i' : inst) (q : id) : list gop :=
  if inst_has_table i' then
    (if inst_has_table i then [] else [Do (CreateTable (ptab i) [CSrc; CTgt])])
    ++ [Do (AddCol (ptab i) (CL q))]
  else [].

(* PropertyMetaCommand._delete_property, source is a link; i = before, i' = without the stored
   link property:  `if has_table(link, schema)`: AlterTableDropColumn;
   `elif has_table(link, orig_schema)`: DropTable (unconditional) *)
Definition delete_lp_ops (i i' : inst) (q : id) : list gop :=
  if inst_has_table i' then [Do (DropCol (ptab i) (CL q))]
  else if inst_has_table i then [Do (DropTable (ptab i))] else [].

(* PointerMetaCommand._alter_pointer_cardinality; only reached for non-computed pointers
   (Alter{Link,Property}UpperCardinality._alter_innards).  i' = i with the new cardinality.
   single -> multi: create_table(); AlterTableDropColumn on the source table
   multi -> single: AlterTableAddColumn under neg_conditions=[ColumnExists];
                    `if not has_table(ptr, schema)`: DropTable(conditions=[TableExists]) *)
Definition set_multi_ops (i i' : inst) (b : bool) : list gop :=
  if i_comp i then [] else
  if b then create_table_ops i' ++ [Do (DropCol (ttab i) (pcol i))]
  else [IfNotEx (ColEx (ttab i) (pcol i)) (AddCol (ttab i) (pcol i))]
       ++ (if inst_has_table i' then [] else [IfEx (TabEx (ptab i)) (DropTable (ptab i))]).

(* AlterLink._alter_innards / AlterProperty._alter_innards.
   stored -> computed:  link: _delete_link(link, schema, orig_schema);
                        property: _delete_property(prop, ..., schema, orig_schema), where the
                        storage kind is read from the NEW schema and has_table from the old one
   computed -> stored:  _create_link / _create_property on the pointer as it is now -- existing
                        link properties are NOT given their columns back. *)
Definition set_comp_ops (i i' : inst) (b : bool) : list gop :=
  if b then
    if i_link i then
      (if inst_in_source i then [Do (DropCol (ttab i) (pcol i))] else [])
      ++ (if inst_has_table i then [IfEx (TabEx (ptab i)) (DropTable (ptab i))] else [])
    else
      (if negb (i_multi i') then [Do (DropCol (ttab i) (pcol i))] else [])
      ++ (if inst_has_table i then [Do (DropTable (ptab i))] else [])
  else create_ptr_ops i'.

Definition with_multi (i : inst) (b : bool) : inst :=
  mkInst (i_t i) (i_p i) (i_link i) b (i_comp i) (i_lps i).
Definition with_comp (i : inst) (b : bool) : inst :=
  mkInst (i_t i) (i_p i) (i_link i) (i_multi i) b (i_lps i).
Definition with_lps (i : inst) (l : list (id * bool)) : inst :=
  mkInst (i_t i) (i_p i) (i_link i) (i_multi i) (i_comp i) l.

(* CreateObjectType._create_begin: CreateTable(columns=[]); the `id` property created inside adds
   its column.  DeleteObjectType: pointers are deleted first (itd = true), the id property drops
   its column, then DropTable. *)
Definition drop_type_ops (fs : fschema) (t : id) : list gop :=
  flat_map (fun i => if N.eqb t (i_t i) then delete_ptr_ops i true else []) (f_insts fs)
  ++ [Do (DropCol (TT t) CId); Do (DropTable (TT t))].

(* None = the command does not apply to the state (never produced by [ustep]; reported as a
   model defect by the check if it ever happens) *)
Definition fstep (fs : fschema) (cm : fcmd) : option (fschema * list gop) :=
  match cm with
  | FCreateType t =>
      if mem_id t (f_types fs) then None
      else Some (mkF (t :: f_types fs) (f_insts fs),
                 [Do (CreateTable (TT t) []); Do (AddCol (TT t) CId)])
  | FDropType t =>
      if mem_id t (f_types fs) then
        Some (mkF (filter (fun u => negb (N.eqb t u)) (f_types fs))
                  (filter (fun i => negb (N.eqb t (i_t i))) (f_insts fs)),
              drop_type_ops fs t)
      else None
  | FCreatePtr t p link multi comp =>
      if mem_id t (f_types fs) then
        match find_inst (f_insts fs) t p with
        | Some _ => None
        | None => let i := mkInst t p link multi comp [] in
                  Some (mkF (f_types fs) (i :: f_insts fs), create_ptr_ops i)
        end
      else None
  | FDeletePtr t p =>
      match find_inst (f_insts fs) t p with
      | None => None
      | Some i => Some (mkF (f_types fs) (remove_inst (f_insts fs) t p), delete_ptr_ops i false)
      end
  | FCreateLP t p q comp =>
      match find_inst (f_insts fs) t p with
      | None => None
      | Some i =>
          if i_link i then
            match find_lp (i_lps i) q with
            | Some _ => None
            | None => let i' := with_lps i ((q, comp) :: i_lps i) in
                      Some (mkF (f_types fs) (set_inst (f_insts fs) i'),
                            if comp then [] else create_lp_ops i i' q)
            end
          else None
      end
  | FDeleteLP t p q =>
      match find_inst (f_insts fs) t p with
      | None => None
      | Some i =>
          match find_lp (i_lps i) q with
          | None => None
          | Some comp => let i' := with_lps i (remove_lp (i_lps i) q) in
                         Some (mkF (f_types fs) (set_inst (f_insts fs) i'),
                               if comp then [] else delete_lp_ops i i' q)
          end
      end
  | FSetLPComp t p q b =>
      match find_inst (f_insts fs) t p with
      | None => None
      | Some i =>
          match find_lp (i_lps i) q with
          | None => None
          | Some comp =>
              if Bool.eqb comp b then None
              else let i' := with_lps i ((q, b) :: remove_lp (i_lps i) q) in
                   Some (mkF (f_types fs) (set_inst (f_insts fs) i'),
                         if b then delete_lp_ops i i' q else create_lp_ops i i' q)
          end
      end
  | FSetMulti t p b =>
      match find_inst (f_insts fs) t p with
      | None => None
      | Some i =>
          if Bool.eqb (i_multi i) b then None
          else let i' := with_multi i b in
               Some (mkF (f_types fs) (set_inst (f_insts fs) i'), set_multi_ops i i' b)
      end
  | FSetComp t p b =>
      match find_inst (f_insts fs) t p with
      | None => None
      | Some i =>
          if Bool.eqb (i_comp i) b then None
          else let i' := with_comp i b in
               Some (mkF (f_types fs) (set_inst (f_insts fs) i'), set_comp_ops i i' b)
      end
  end.

(* the one decision of delta.py that loses storage: computed -> stored on a link that has stored
   link properties (see Refuted.v) *)
Definition unsafe (fs : fschema) (cm : fcmd) : bool :=
  match cm with
  | FSetComp t p false =>
      match find_inst (f_insts fs) t p with
      | Some i => has_stored i
      | None => false
      end
  | _ => false
  end.

Inductive fres :=
| FOk (fs : fschema) (c : catalog)
| FStuck            (* a flat command did not apply *)
| FPgError          (* the backend would raise on an emitted command *)
| FExcluded.        (* only [frun_safe]: an [unsafe] command was met *)

Fixpoint frun (fs : fschema) (c : catalog) (cms : list fcmd) : fres :=
  match cms with
  | [] => FOk fs c
  | cm :: r =>
      match fstep fs cm with
      | None => FStuck
      | Some (fs', gs) =>
          match run_gops c gs with
          | None => FPgError
          | Some c' => frun fs' c' r
          end
      end
  end.

Fixpoint frun_safe (fs : fschema) (c : catalog) (cms : list fcmd) : fres :=
  match cms with
  | [] => FOk fs c
  | cm :: r =>
      if unsafe fs cm then FExcluded else
      match fstep fs cm with
      | None => FStuck
      | Some (fs', gs) =>
          match run_gops c gs with
          | None => FPgError
          | Some c' => frun_safe fs' c' r
          end
      end
  end.

(* effects of a flat command sequence (correspondence only) *)
Fixpoint flog (fs : fschema) (c : catalog) (cms : list fcmd) : list eff :=
  match cms with
  | [] => []
  | cm :: r =>
      match fstep fs cm with
      | None => []
      | Some (fs', gs) =>
          match run_gops c gs with
          | None => []
          | Some c' => log_gops c gs ++ flog fs' c' r
          end
      end
  end.

Definition f_empty : fschema := mkF [] [].

(* ================================================================== user layer *)

Record ulp := mkLP { lp_id : id; lp_name : N; lp_comp : bool }.
Record uptr := mkPtr {
  up_id : id; up_name : N; up_link : bool; up_target : id;
  up_multi : bool; up_req : bool; up_comp : bool; up_lps : list ulp }.
Record utype := mkType {
  ut_id : id; ut_name : N; ut_abstract : bool; ut_bases : list id; ut_own : list uptr }.
Record uschema := mkU { u_types : list utype; u_next : id }.

Definition u_empty : uschema := mkU [] 1.

Definition find_type (us : uschema) (n : N) : option utype :=
  find (fun ty => N.eqb n (ut_name ty)) (u_types us).
Definition find_type_id (us : uschema) (t : id) : option utype :=
  find (fun ty => N.eqb t (ut_id ty)) (u_types us).

(* proper ancestors, nearest first (fuel = number of types) *)
Fixpoint anc (fuel : nat) (us : uschema) (t : id) : list id :=
  match fuel with
  | O => []
  | S f => match find_type_id us t with
           | None => []
           | Some ty => ut_bases ty ++ flat_map (anc f us) (ut_bases ty)
           end
  end.
Definition ancestors (us : uschema) (t : id) : list id := anc (length (u_types us)) us t.
Definition descendants (us : uschema) (t : id) : list id :=
  map ut_id (filter (fun ty => mem_id t (ancestors us (ut_id ty))) (u_types us)).
Definition cone (us : uschema) (t : id) : list id := t :: descendants us t.

Definition own_of (us : uschema) (t : id) : list uptr :=
  match find_type_id us t with Some ty => ut_own ty | None => [] end.
(* pointers visible in t: own first, then inherited *)
Definition vis (us : uschema) (t : id) : list uptr :=
  own_of us t ++ flat_map (own_of us) (ancestors us t).
Definition vis_names (us : uschema) (t : id) : list N := map up_name (vis us t).
Definition find_ptr (l : list uptr) (n : N) : option uptr :=
  find (fun p => N.eqb n (up_name p)) l.

Definition disjoint (a b : list N) : bool := forallb (fun x => negb (mem_id x b)) a.
Fixpoint pairwise_disjoint (l : list (list N)) : bool :=
  match l with
  | [] => true
  | a :: r => forallb (disjoint a) r && pairwise_disjoint r
  end.
Fixpoint nodup_ids (l : list id) : bool :=
  match l with [] => true | a :: r => negb (mem_id a r) && nodup_ids r end.

(* flat commands that give type t an instance of pointer p (own or inherited) *)
Definition inst_cmds (t : id) (p : uptr) : list fcmd :=
  FCreatePtr t (up_id p) (up_link p) (up_multi p) (up_comp p)
  :: map (fun l => FCreateLP t (up_id p) (lp_id l) (lp_comp l)) (rev (up_lps p)).

Definition upd_type (us : uschema) (ty : utype) : uschema :=
  mkU (map (fun y => if N.eqb (ut_id y) (ut_id ty) then ty else y) (u_types us)) (u_next us).
Definition upd_own (ty : utype) (l : list uptr) : utype :=
  mkType (ut_id ty) (ut_name ty) (ut_abstract ty) (ut_bases ty) l.
Definition upd_ptr (l : list uptr) (p : uptr) : list uptr :=
  map (fun y => if N.eqb (up_id y) (up_id p) then p else y) l.

Definition all_ptrs (us : uschema) : list uptr := flat_map ut_own (u_types us).

(* pointer names are numbers; the harness renders every 4th one (3, 7, ...) as an identifier that
   starts with two underscores.  For such names (and `id`) the column in the source table is named
   after the pointer, not after its id (Gen_Layout.ptr_col_by_name): a rename from / to such a name
   is NOT free.  The model makes no statement about those renames (finding C05-F4 of the check). *)
Definition dunder (p : N) : bool := N.eqb (N.modulo p 4) 3.
Definition named_column (p : N) : bool := ptr_col_by_name (dunder p) false.

Inductive uev :=
| UCreateType (n : N) (abstract : bool) (bases : list N)
| UDropType (n : N)
| URenameType (n m : N)
| USetAbstract (n : N) (b : bool)
| UAddBase (n b : N)
| UDropBase (n b : N)
| UCreatePtr (n p : N) (link : bool) (target : N) (multi req comp : bool)
| UDropPtr (n p : N)
| URenamePtr (n p p' : N)
| USetMulti (n p : N) (b : bool)
| USetReq (n p : N) (b : bool)
| USetComp (n p : N) (b : bool) (em : bool) (tg : N)   (* em, tg: cardinality / link target of the USING expression *)
| UCreateLP (n p q : N) (comp : bool)
| UDropLP (n p q : N)
| URenameLP (n p q q' : N)
| USetLPComp (n p q : N) (b : bool)
| USetType (n p : N) (tg : N).      (* SET TYPE <str | T tg> USING (...): same storage, new target *)

Inductive ures :=
| UOk (us : uschema) (cms : list fcmd)
| URejected          (* the schema layer refuses the command *)
| UOutOfScope.       (* accepted or not, the model makes no statement (fragment left) *)

Fixpoint all_some {A} (l : list (option A)) : option (list A) :=
  match l with
  | [] => Some []
  | Some a :: r => match all_some r with Some r' => Some (a :: r') | None => None end
  | None :: _ => None
  end.

Definition find_lp_name (l : list ulp) (q : N) : option ulp :=
  find (fun x => N.eqb q (lp_name x)) l.

(* a link of some OTHER type (or inherited by it) points to t *)
Definition targeted (us : uschema) (t : id) : bool :=
  existsb (fun ty => negb (N.eqb (ut_id ty) t)
                     && existsb (fun p => up_link p && N.eqb (up_target p) t) (ut_own ty))
          (u_types us).

Definition ustep (us : uschema) (e : uev) : ures :=
  match e with
  | UCreateType n abstract bases =>
      match find_type us n with
      | Some _ => URejected
      | None =>
          match all_some (map (find_type us) bases) with
          | None => URejected
          | Some bts =>
              let bids := map ut_id bts in
              if negb (nodup_ids bids) then UOutOfScope
              else if negb (pairwise_disjoint (map (fun b => b :: ancestors us b) bids)) then UOutOfScope
              else if negb (pairwise_disjoint (map (fun b => vis_names us b) bids)) then UOutOfScope
              else
                let t := u_next us in
                let ty := mkType t n abstract bids [] in
                UOk (mkU (u_types us ++ [ty]) (t + 1))
                    (FCreateType t :: flat_map (fun b => flat_map (inst_cmds t) (vis us b)) bids)
          end
      end
  | UDropType n =>
      match find_type us n with
      | None => URejected
      | Some ty =>
          let t := ut_id ty in
          if negb (match descendants us t with [] => true | _ => false end) then URejected
          else if targeted us t then URejected
          else UOk (mkU (filter (fun y => negb (N.eqb (ut_id y) t)) (u_types us)) (u_next us))
                   [FDropType t]
      end
  | URenameType n m =>
      if N.eqb n m then (match find_type us n with Some _ => UOk us [] | None => URejected end) else
      match find_type us n, find_type us m with
      | Some ty, None =>
          (* expressions of computed pointers / link properties mention types by name: rewriting them
             on a type rename is schema-layer work (and fails in several situations) *)
          if existsb (fun p => up_comp p || existsb lp_comp (up_lps p)) (all_ptrs us)
          then UOutOfScope else
          UOk (upd_type us (mkType (ut_id ty) m (ut_abstract ty) (ut_bases ty) (ut_own ty))) []
      | _, _ => URejected
      end
  | USetAbstract n b =>
      match find_type us n with
      | None => URejected
      | Some ty => UOk (upd_type us (mkType (ut_id ty) (ut_name ty) b (ut_bases ty) (ut_own ty))) []
      end
  | UAddBase n b =>
      match find_type us n, find_type us b with
      | Some ty, Some bty =>
          let t := ut_id ty in
          let bt := ut_id bty in
          if mem_id bt (cone us t) then URejected
          else if mem_id bt (ut_bases ty) then UOutOfScope
          else if negb (forallb (fun d => disjoint (bt :: ancestors us bt) (ancestors us d)) (cone us t))
          then UOutOfScope
          else if negb (forallb (fun d => disjoint (vis_names us bt) (vis_names us d)) (cone us t))
          then UOutOfScope
          else UOk (upd_type us (mkType t (ut_name ty) (ut_abstract ty) (ut_bases ty ++ [bt]) (ut_own ty)))
                   (flat_map (fun d => flat_map (inst_cmds d) (vis us bt)) (cone us t))
      | _, _ => URejected
      end
  | UDropBase n b =>
      match find_type us n, find_type us b with
      | Some _, None => UOk us []        (* DROP EXTENDING of an unknown name is accepted as a no-op *)
      | Some ty, Some bty =>
          let t := ut_id ty in
          let bt := ut_id bty in
          if negb (mem_id bt (ut_bases ty)) then UOk us []     (* accepted, nothing to do *)
          else UOk (upd_type us (mkType t (ut_name ty) (ut_abstract ty)
                                        (filter (fun x => negb (N.eqb bt x)) (ut_bases ty)) (ut_own ty)))
                   (flat_map (fun d => map (fun p => FDeletePtr d (up_id p)) (vis us bt)) (cone us t))
      | _, _ => URejected
      end
  | UCreatePtr n p link target multi req comp =>
      match find_type us n with
      | None => URejected
      | Some ty =>
          let t := ut_id ty in
          let tgt := if link then option_map ut_id (find_type us target) else Some 0 in
          match tgt with
          | None => URejected
          | Some tg =>
              if mem_id p (vis_names us t) then URejected
              else if existsb (fun d => mem_id p (vis_names us d)) (descendants us t) then UOutOfScope
              else
                let pid := u_next us in
                let pt := mkPtr pid p link tg multi req comp [] in
                UOk (mkU (u_types (upd_type us (upd_own ty (ut_own ty ++ [pt])))) (pid + 1))
                    (map (fun d => FCreatePtr d pid link multi comp) (cone us t))
          end
      end
  | UDropPtr n p =>
      match find_type us n with
      | None => URejected
      | Some ty =>
          match find_ptr (ut_own ty) p with
          | Some pt =>
              UOk (upd_type us (upd_own ty (filter (fun y => negb (N.eqb (up_id y) (up_id pt))) (ut_own ty))))
                  (map (fun d => FDeletePtr d (up_id pt)) (cone us (ut_id ty)))
          | None => URejected      (* missing, or inherited: cannot drop inherited *)
          end
      end
  | URenamePtr n p p' =>
      match find_type us n with
      | None => URejected
      | Some ty =>
          (* RENAME TO the same name is an accepted no-op, also on an inherited pointer *)
          if N.eqb p p' then (if mem_id p (vis_names us (ut_id ty)) then UOk us [] else URejected) else
          if named_column p || named_column p' then UOutOfScope else
          match find_ptr (ut_own ty) p with
          | None => URejected
          | Some pt =>
              if N.eqb p p' then UOk us [] else      (* RENAME TO the same name: accepted no-op *)
              if mem_id p' (vis_names us (ut_id ty)) then URejected
              else if existsb (fun d => mem_id p' (vis_names us d)) (descendants us (ut_id ty))
              then UOutOfScope
              else UOk (upd_type us (upd_own ty (upd_ptr (ut_own ty)
                          (mkPtr (up_id pt) p' (up_link pt) (up_target pt) (up_multi pt)
                                 (up_req pt) (up_comp pt) (up_lps pt))))) []
          end
      end
  | USetMulti n p b =>
      match find_type us n with
      | None => URejected
      | Some ty =>
          match find_ptr (ut_own ty) p with
          | None => if mem_id p (vis_names us (ut_id ty)) then UOutOfScope else URejected
          | Some pt =>
              if Bool.eqb (up_multi pt) b then UOutOfScope
              else if up_comp pt then UOutOfScope    (* the cardinality of a computed pointer is inferred *)
              else UOk (upd_type us (upd_own ty (upd_ptr (ut_own ty)
                          (mkPtr (up_id pt) (up_name pt) (up_link pt) (up_target pt) b
                                 (up_req pt) (up_comp pt) (up_lps pt)))))
                       (map (fun d => FSetMulti d (up_id pt) b) (cone us (ut_id ty)))
          end
      end
  | USetReq n p b =>
      match find_type us n with
      | None => URejected
      | Some ty =>
          match find_ptr (ut_own ty) p with
          | None => if mem_id p (vis_names us (ut_id ty)) then UOutOfScope else URejected
          | Some pt =>
              if b && up_comp pt then UOutOfScope   (* inferred optionality may contradict `required` *)
              else
              UOk (upd_type us (upd_own ty (upd_ptr (ut_own ty)
                     (mkPtr (up_id pt) (up_name pt) (up_link pt) (up_target pt) (up_multi pt)
                            b (up_comp pt) (up_lps pt))))) []
          end
      end
  | USetComp n p b em tg =>
      match find_type us n with
      | None => URejected
      | Some ty =>
          match find_ptr (ut_own ty) p with
          | None => if mem_id p (vis_names us (ut_id ty)) then UOutOfScope else URejected
          | Some pt =>
              (* a USING expression of another cardinality / target changes more than computed-ness *)
              if b && negb (Bool.eqb em (up_multi pt)) then UOutOfScope
              else if b && up_req pt then UOutOfScope   (* inferred optionality may contradict `required` *)
              else if b && up_link pt
                      && negb (match find_type us tg with
                               | Some tgt => N.eqb (ut_id tgt) (up_target pt)
                               | None => false
                               end) then UOutOfScope
              else if Bool.eqb (up_comp pt) b then UOk us []
              else UOk (upd_type us (upd_own ty (upd_ptr (ut_own ty)
                          (mkPtr (up_id pt) (up_name pt) (up_link pt) (up_target pt) (up_multi pt)
                                 (up_req pt) b (up_lps pt)))))
                       (map (fun d => FSetComp d (up_id pt) b) (cone us (ut_id ty)))
          end
      end
  | UCreateLP n p q comp =>
      match find_type us n with
      | None => URejected
      | Some ty =>
          match find_ptr (ut_own ty) p with
          | None => if mem_id p (vis_names us (ut_id ty)) then UOutOfScope else URejected
          | Some pt =>
              if negb (up_link pt) then URejected
              else match find_lp_name (up_lps pt) q with
                   | Some _ => URejected
                   | None =>
                       let qid := u_next us in
                       UOk (mkU (u_types (upd_type us (upd_own ty (upd_ptr (ut_own ty)
                                   (mkPtr (up_id pt) (up_name pt) (up_link pt) (up_target pt)
                                          (up_multi pt) (up_req pt) (up_comp pt)
                                          (mkLP qid q comp :: up_lps pt)))))) (qid + 1))
                           (map (fun d => FCreateLP d (up_id pt) qid comp) (cone us (ut_id ty)))
                   end
          end
      end
  | UDropLP n p q =>
      match find_type us n with
      | None => URejected
      | Some ty =>
          match find_ptr (ut_own ty) p with
          | None => if mem_id p (vis_names us (ut_id ty)) then UOutOfScope else URejected
          | Some pt =>
              match find_lp_name (up_lps pt) q with
              | None => URejected
              | Some l =>
                  UOk (upd_type us (upd_own ty (upd_ptr (ut_own ty)
                         (mkPtr (up_id pt) (up_name pt) (up_link pt) (up_target pt) (up_multi pt)
                                (up_req pt) (up_comp pt)
                                (filter (fun x => negb (N.eqb (lp_id x) (lp_id l))) (up_lps pt))))))
                      (map (fun d => FDeleteLP d (up_id pt) (lp_id l)) (cone us (ut_id ty)))
              end
          end
      end
  | URenameLP n p q q' =>
      match find_type us n with
      | None => URejected
      | Some ty =>
          match find_ptr (ut_own ty) p with
          | None => if mem_id p (vis_names us (ut_id ty)) then UOutOfScope else URejected
          | Some pt =>
              if N.eqb q q' then (match find_lp_name (up_lps pt) q with
                                  | Some _ => UOk us [] | None => URejected end) else
              match find_lp_name (up_lps pt) q, find_lp_name (up_lps pt) q' with
              | Some l, None =>
                  UOk (upd_type us (upd_own ty (upd_ptr (ut_own ty)
                         (mkPtr (up_id pt) (up_name pt) (up_link pt) (up_target pt) (up_multi pt)
                                (up_req pt) (up_comp pt)
                                (map (fun x => if N.eqb (lp_id x) (lp_id l)
                                               then mkLP (lp_id l) q' (lp_comp l) else x)
                                     (up_lps pt)))))) []
              | _, _ => URejected
              end
          end
      end
  | USetLPComp n p q b =>
      match find_type us n with
      | None => URejected
      | Some ty =>
          match find_ptr (ut_own ty) p with
          | None => if mem_id p (vis_names us (ut_id ty)) then UOutOfScope else URejected
          | Some pt =>
              match find_lp_name (up_lps pt) q with
              | None => URejected
              | Some l =>
                  if Bool.eqb (lp_comp l) b then UOk us []
                  else
                  UOk (upd_type us (upd_own ty (upd_ptr (ut_own ty)
                         (mkPtr (up_id pt) (up_name pt) (up_link pt) (up_target pt) (up_multi pt)
                                (up_req pt) (up_comp pt)
                                (map (fun x => if N.eqb (lp_id x) (lp_id l)
                                               then mkLP (lp_id l) (lp_name l) b else x)
                                     (up_lps pt))))))
                      (map (fun d => FSetLPComp d (up_id pt) (lp_id l) b) (cone us (ut_id ty)))
              end
          end
      end
  | USetType n p tg =>
      (* PointerMetaCommand._alter_pointer_type: data is converted in place (through a temporary
         column that is added and dropped within the command -- not modelled; the harness checks
         that it is gone); no table or column is created or dropped *)
      match find_type us n with
      | None => URejected
      | Some ty =>
          match find_ptr (ut_own ty) p with
          | None => if mem_id p (vis_names us (ut_id ty)) then UOutOfScope else URejected
          | Some pt =>
              if up_comp pt then UOutOfScope
              else if up_link pt then
                match find_type us tg with
                | None => URejected
                | Some tty =>
                    UOk (upd_type us (upd_own ty (upd_ptr (ut_own ty)
                           (mkPtr (up_id pt) (up_name pt) (up_link pt) (ut_id tty) (up_multi pt)
                                  (up_req pt) (up_comp pt) (up_lps pt))))) []
                end
              else UOk us []
          end
      end
  end.

(* ---- histories *)
Record state := mkS { s_u : uschema; s_f : fschema; s_c : catalog }.
Definition s_empty : state := mkS u_empty f_empty [].

Inductive sres :=
| SOk (s : state)         (* accepted, executed *)
| SRejected               (* refused by the schema layer: state unchanged *)
| SOutOfScope
| SStuck
| SPgError.

Definition sstep (s : state) (e : uev) : sres :=
  match ustep (s_u s) e with
  | URejected => SRejected
  | UOutOfScope => SOutOfScope
  | UOk us cms =>
      match frun (s_f s) (s_c s) cms with
      | FOk fs c => SOk (mkS us fs c)
      | FStuck => SStuck
      | FPgError => SPgError
      | FExcluded => SStuck
      end
  end.

(* runs a history; stops at the first event that is out of scope / stuck / a backend error
   (returned as the final verdict together with the last good state) *)
Fixpoint srun (s : state) (h : list uev) : state * sres :=
  match h with
  | [] => (s, SOk s)
  | e :: r =>
      match sstep s e with
      | SOk s' => srun s' r
      | SRejected => srun s r
      | x => (s, x)
      end
  end.

(* names for the correspondence printout *)
Definition type_name (us : uschema) (t : id) : option N :=
  option_map ut_name (find_type_id us t).
Definition ptr_name (us : uschema) (p : id) : option N :=
  option_map up_name (find (fun x => N.eqb p (up_id x)) (all_ptrs us)).
Definition lp_name_of (us : uschema) (q : id) : option N :=
  option_map lp_name (find (fun x => N.eqb q (lp_id x)) (flat_map up_lps (all_ptrs us))).
Definition step_effects (s : state) (e : uev) : list eff :=
  match ustep (s_u s) e with
  | UOk _ cms => flog (s_f s) (s_c s) cms
  | _ => []
  end.

(* numeric digest of a run, for the vm_compute cross-check of the extracted program *)
Definition onm (o : option N) : N := match o with Some n => n | None => 999999 end.
Definition tab_code (us : uschema) (x : tab) : list N :=
  match x with
  | TT t => [0; onm (type_name us t)]
  | TP t p => [1; onm (type_name us t); onm (ptr_name us p)]
  end.
Definition col_code (us : uschema) (k : col) : list N :=
  match k with
  | CId => [0] | CSrc => [1] | CTgt => [2]
  | CP p => [3; onm (ptr_name us p)]
  | CL q => [4; onm (lp_name_of us q)]
  end.
Definition summary (s : state) : list (list N) :=
  map (fun e => tab_code (s_u s) (fst e) ++ flat_map (col_code (s_u s)) (snd e)) (s_c s).
Definition res_code (r : sres) : N :=
  match r with SOk _ => 0 | SRejected => 1 | SOutOfScope => 2 | SStuck => 3 | SPgError => 4 end.
Definition final_summary (h : list uev) : list (list N) :=
  let '(s, r) := srun s_empty h in [res_code r] :: summary s.
