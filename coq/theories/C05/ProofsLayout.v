(* C05 -- the executable [layout] (schema -> catalog) satisfies the layout predicates, so
   "Inv fs c" is literally "c and layout fs have the same tables and columns". *)
From Coq Require Import List NArith Bool Lia.
From Verif.C05 Require Import Gen_Layout Model Proofs ProofsCmd ProofsType ProofsMain.
Import ListNotations.
Open Scope N_scope.

Lemma cat_find_app a b x :
  cat_find (a ++ b) x = match cat_find a x with Some v => Some v | None => cat_find b x end.
Proof.
  induction a as [|[y cs] r IH]; simpl; auto.
  destruct (tab_eqb x y); auto.
Qed.

Lemma find_types_TT (f : id -> list col) l u :
  cat_find (map (fun t => (TT t, f t)) l) (TT u) = if mem_id u l then Some (f u) else None.
Proof.
  unfold mem_id. induction l as [|t r IH]; simpl; auto.
  destruct (N.eqb_spec u t) as [->|N]; simpl; auto.
Qed.

Lemma find_types_TP (f : id -> list col) l u q :
  cat_find (map (fun t => (TT t, f t)) l) (TP u q) = None.
Proof. induction l as [|t r IH]; simpl; auto. Qed.

Definition inst_entry (i : inst) : catalog :=
  if inst_has_table i then [(TP (i_t i) (i_p i), CSrc :: CTgt :: stored_lp_cols i)] else [].

Lemma find_insts_TT l u : cat_find (flat_map inst_entry l) (TT u) = None.
Proof.
  induction l as [|i r IH]; simpl; auto.
  rewrite cat_find_app. unfold inst_entry. destruct (inst_has_table i); simpl; auto.
Qed.

Lemma find_insts_TP l u q :
  keys_nodup l ->
  cat_find (flat_map inst_entry l) (TP u q) =
  match find_inst l u q with
  | Some i => if inst_has_table i then Some (CSrc :: CTgt :: stored_lp_cols i) else None
  | None => None
  end.
Proof.
  induction l as [|i r IH]; simpl; auto.
  intros [Hn ND]. rewrite cat_find_app. unfold inst_entry at 1.
  destruct (is_inst u q i) eqn:E.
  - pose proof E as E'. unfold is_inst in E'. apply andb_true_iff in E'. destruct E' as [E1 E2].
    apply N.eqb_eq in E1. apply N.eqb_eq in E2. subst u q.
    destruct (inst_has_table i); simpl.
    + rewrite !N.eqb_refl. reflexivity.
    + rewrite (IH ND), Hn. reflexivity.
  - destruct (inst_has_table i); simpl.
    + unfold is_inst in E. rewrite E. apply IH. exact ND.
    + apply IH. exact ND.
Qed.

Lemma source_cols_spec l u p :
  keys_nodup l ->
  existsb (fun i => N.eqb p (i_p i)) (filter (fun i => N.eqb u (i_t i) && inst_in_source i) l) =
  match find_inst l u p with Some i => inst_in_source i | None => false end.
Proof.
  induction l as [|i r IH]; simpl; auto.
  intros [Hn ND]. destruct (is_inst u p i) eqn:E.
  - pose proof E as E'. unfold is_inst in E'. apply andb_true_iff in E'. destruct E' as [E1 E2].
    apply N.eqb_eq in E1. apply N.eqb_eq in E2. subst u p.
    rewrite N.eqb_refl. simpl. destruct (inst_in_source i); simpl.
    + rewrite N.eqb_refl. reflexivity.
    + rewrite (IH ND), Hn. reflexivity.
  - destruct (N.eqb u (i_t i) && inst_in_source i) eqn:F; simpl.
    + apply andb_true_iff in F. destruct F as [F1 _]. unfold is_inst in E. rewrite F1 in E.
      simpl in E. rewrite E. simpl. apply IH. exact ND.
    + apply IH. exact ND.
Qed.

Lemma stored_cols_spec l x :
  lps_nodup l ->
  existsb (fun e : id * bool => N.eqb x (fst e)) (filter (fun e => negb (snd e)) l) =
  match find_lp l x with Some b => negb b | None => false end.
Proof.
  induction l as [|[a b] r IH]; simpl; auto.
  intros [Hn ND]. simpl in Hn. destruct (N.eqb x a) eqn:E.
  - apply N.eqb_eq in E. subst a. destruct b; simpl.
    + rewrite (IH ND), Hn. reflexivity.
    + rewrite N.eqb_refl. reflexivity.
  - destruct b; simpl.
    + apply IH. exact ND.
    + rewrite E. simpl. apply IH. exact ND.
Qed.

Lemma mem_col_CP p (l : list inst) :
  mem_col (CP p) (map (fun i => CP (i_p i)) l) = existsb (fun i => N.eqb p (i_p i)) l.
Proof. unfold mem_col. induction l as [|i r IH]; simpl; auto. rewrite IH. reflexivity. Qed.

Lemma mem_col_CL x (l : list (id * bool)) :
  mem_col (CL x) (map (fun e => CL (fst e)) l) = existsb (fun e => N.eqb x (fst e)) l.
Proof. unfold mem_col. induction l as [|i r IH]; simpl; auto. rewrite IH. reflexivity. Qed.

Lemma mem_col_other k (l : list inst) :
  (forall p, k <> CP p) -> mem_col k (map (fun i => CP (i_p i)) l) = false.
Proof.
  intro H. unfold mem_col. induction l as [|i r IH]; simpl; auto. rewrite IH.
  destruct k; simpl; auto. exfalso. apply (H p). reflexivity.
Qed.

Lemma mem_col_other_CL k (l : list (id * bool)) :
  (forall q, k <> CL q) -> mem_col k (map (fun e => CL (fst e)) l) = false.
Proof.
  intro H. unfold mem_col. induction l as [|i r IH]; simpl; auto. rewrite IH.
  destruct k; simpl; auto. exfalso. apply (H q). reflexivity.
Qed.

Lemma p_layout_spec fs : fwf2 fs -> Inv fs (layout fs).
Proof.
  intros [[ND W] LN]. assert (WF : fwf fs) by (split; assumption).
  unfold layout. fold inst_entry.
  change (flat_map (fun i : inst => if inst_has_table i
                                    then [(TP (i_t i) (i_p i), CSrc :: CTgt :: stored_lp_cols i)]
                                    else []) (f_insts fs))
    with (flat_map inst_entry (f_insts fs)).
  split.
  - intros [u|u q]; unfold has_tab; rewrite cat_find_app.
    + rewrite find_types_TT. simpl. destruct (mem_id u (f_types fs)); auto.
      rewrite find_insts_TT. reflexivity.
    + rewrite find_types_TP, (find_insts_TP _ _ _ ND). simpl.
      destruct (find_inst (f_insts fs) u q) as [i|]; auto. destruct (inst_has_table i); reflexivity.
  - intros [u|u q] k; unfold has_col; rewrite cat_find_app.
    + rewrite find_types_TT. destruct (mem_id u (f_types fs)) eqn:Eu.
      * unfold type_cols. rewrite mem_col_cons.
        destruct k as [| | |p|x]; simpl; auto;
          try (apply mem_col_other; intros; discriminate).
        rewrite mem_col_CP. apply source_cols_spec. exact ND.
      * rewrite find_insts_TT. destruct k as [| | |p|x]; simpl; auto.
        rewrite (no_inst_of_missing_type fs u p WF Eu). reflexivity.
    + rewrite find_types_TP, (find_insts_TP _ _ _ ND). simpl.
      destruct (find_inst (f_insts fs) u q) as [i|] eqn:Ef.
      * destruct (inst_has_table i) eqn:Eh.
        -- rewrite !mem_col_cons. unfold stored_lp_cols.
           destruct k as [| | |p|x]; simpl; auto.
           ++ apply mem_col_other_CL. intros; discriminate.
           ++ apply mem_col_other_CL. intros; discriminate.
           ++ rewrite mem_col_CL. unfold lp_stored. apply stored_cols_spec.
              apply LN. eapply find_inst_in. exact Ef.
        -- destruct k; reflexivity.
      * destruct k; reflexivity.
Qed.

Lemma p_tracks_layout fs c : fwf2 fs -> Inv fs c -> cat_equiv c (layout fs).
Proof.
  intros W [A B]. destruct (p_layout_spec fs W) as [A' B'].
  split; intros; [rewrite A, A' | rewrite B, B']; reflexivity.
Qed.

Lemma p_tracks_layout_run cms fs c fs' c' :
  fwf2 fs -> Inv fs c -> frun_safe fs c cms = FOk fs' c' -> cat_equiv c' (layout fs').
Proof.
  intros W HI H. pose proof (frun_safe_inv cms fs c W HI) as P. rewrite H in P.
  destruct P as [I' W']. apply p_tracks_layout; assumption.
Qed.
