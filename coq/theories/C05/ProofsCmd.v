(* C05 -- every flat command preserves the invariant (and never makes the backend raise). *)
From Coq Require Import List NArith Bool Lia.
From Verif.C05 Require Import Gen_Layout Model Proofs.
Import ListNotations.
Open Scope N_scope.

Hint Rewrite has_tab_cons has_col_cons has_tab_remove has_col_remove has_tab_update
     has_col_add has_col_rm : cat.

Arguments run_gops : simpl never.
Arguments apply_gop : simpl never.
Arguments has_tab : simpl never.
Arguments has_col : simpl never.

Lemma Inv_at fs c t p :
  Inv fs c ->
  has_tab c (TP t p) = inst_tab (find_inst (f_insts fs) t p) /\
  has_col c (TT t) (CP p) = inst_src (find_inst (f_insts fs) t p) /\
  (forall k, has_col c (TP t p) k = inst_col (find_inst (f_insts fs) t p) k) /\
  has_tab c (TT t) = mem_id t (f_types fs).
Proof.
  intros [IT IC]. repeat split.
  - rewrite IT. simpl. destruct (find_inst (f_insts fs) t p); reflexivity.
  - rewrite IC. simpl. destruct (find_inst (f_insts fs) t p); reflexivity.
  - intro k. rewrite IC. unfold inst_col.
    destruct k; simpl; destruct (find_inst (f_insts fs) t p); simpl;
      rewrite ?andb_true_r, ?andb_false_r; auto.
  - rewrite IT. reflexivity.
Qed.

Lemma not_stored_lp i q : has_stored i = false -> lp_stored q i = false.
Proof.
  intro H. destruct (lp_stored q i) eqn:E; auto.
  apply lp_stored_has_stored in E. congruence.
Qed.

Ltac crush_eq :=
  repeat match goal with x : tab |- _ => destruct x end;
  repeat match goal with k : col |- _ => destruct k end;
  simpl;
  repeat match goal with
         | |- context [N.eqb ?a ?b] => destruct (N.eqb_spec a b); subst; simpl
         end;
  rewrite ?andb_true_r, ?andb_false_r, ?orb_false_r, ?orb_true_r;
  try reflexivity; try congruence; try discriminate;
  try (exfalso; match goal with H : ~ (_ /\ _) |- _ => apply H; split; congruence end);
  try (exfalso; match goal with H : ?a <> ?a |- _ => apply H; reflexivity end).

(* after the catalog term is explicit: the five facts of Inv_local *)
Ltac elsewhere := intros; autorewrite with cat; crush_eq.

(* the facts Inv_local asks for, on an explicit catalog term; HT HC HK HTT are the facts about the
   old catalog at the key under consideration *)
Ltac unfold_inst :=
  repeat match goal with v := _ : inst |- _ => subst v end;
  unfold inst_col, inst_tab, inst_src, inst_has_table, inst_in_source, ptr_in_source, ptr_in_pointer,
    has_stored, lp_stored, with_multi, with_comp, with_lps; simpl;
  rewrite ?find_lp_remove;
  repeat match goal with H : existsb _ _ = _ |- _ => rewrite ?H end; simpl.

Ltac fact HT HC HK HTT :=
  intros; autorewrite with cat; rewrite ?tab_eqb_refl, ?col_eqb_refl;
  rewrite ?HT, ?HC, ?HK, ?HTT; unfold_inst;
  crush_eq.

(* side conditions of the run_* lemmas, and the tests of conditional commands *)
Ltac side HT HC HK HTT :=
  first [ assumption |
  autorewrite with cat; rewrite ?tab_eqb_refl, ?col_eqb_refl;
  rewrite ?HT, ?HC, ?HK, ?HTT; unfold inst_col, inst_tab, inst_src;
  repeat match goal with H : find_lp _ _ = _ |- _ => rewrite ?H end;
  crush_eq ].

Ltac runs HT HC HK HTT :=
  repeat first
    [ rewrite run_create_ifnot; autorewrite with cat; rewrite ?tab_eqb_refl, ?HT; simpl
    | rewrite run_drop_if; autorewrite with cat; rewrite ?tab_eqb_refl, ?HT; simpl
    | rewrite run_add_ifnot by (side HT HC HK HTT);
      autorewrite with cat; rewrite ?tab_eqb_refl, ?col_eqb_refl, ?HC; simpl
    | rewrite run_create by (side HT HC HK HTT)
    | rewrite run_drop by (side HT HC HK HTT)
    | rewrite run_add by (side HT HC HK HTT)
    | rewrite run_dropcol by (side HT HC HK HTT) ].

Ltac fin Hq :=
  try (rewrite ?find_lp_remove;
       repeat match goal with
              | |- context [N.eqb ?a ?b] => destruct (N.eqb_spec a b); subst; simpl
              end;
       rewrite ?Hq; simpl; rewrite ?andb_true_r, ?andb_false_r;
       first [ reflexivity | congruence ]).

Section PtrCmd.
  Variables (fs : fschema) (c : catalog) (t p : id).
  Hypothesis HI : Inv fs c.
  Hypothesis HTy : mem_id t (f_types fs) = true.

  Let HTT : has_tab c (TT t) = true.
  Proof. destruct (Inv_at fs c t p HI) as (_ & _ & _ & H). rewrite H. exact HTy. Qed.

  Ltac loc o FF :=
    lazymatch goal with
    | HI : Inv ?f0 ?c0, HT : has_tab _ (TP ?t0 ?p0) = _, HC : has_col _ (TT _) (CP _) = _,
      HK : forall k, has_col _ (TP _ _) k = _, HTT : has_tab _ (TT _) = true |- Inv _ _ =>
        eapply Inv_local with (fs := f0) (c := c0) (t := t0) (p := p0) (o' := o);
        [ reflexivity | exact FF | exact HI
        | fact HT HC HK HTT | fact HT HC HK HTT | fact HT HC HK HTT | fact HT HC HK HTT
        | fact HT HC HK HTT ]
    end.

  (* ---- FCreatePtr *)
  Lemma create_ptr_ok link multi comp :
    find_inst (f_insts fs) t p = None ->
    let i := mkInst t p link multi comp [] in
    exists c', run_gops c (create_ptr_ops i) = Some c' /\
               Inv (mkF (f_types fs) (i :: f_insts fs)) c'.
  Proof.
    intros HF i.
    destruct (Inv_at fs c t p HI) as (HT & HC & HK & _). rewrite HF in HT, HC, HK.
    simpl in HT, HC. unfold inst_col in HK.
    assert (FF : forall u q, find_inst (f_insts (mkF (f_types fs) (i :: f_insts fs))) u q =
                 if N.eqb u t && N.eqb q p then Some i else find_inst (f_insts fs) u q).
    { intros u q. simpl. unfold is_inst. simpl. destruct (N.eqb u t && N.eqb q p); reflexivity. }
    unfold create_ptr_ops, create_table_ops, inst_has_table, inst_in_source, ptr_in_source, ptr_in_pointer,
      has_stored, ptab, ttab, pcol. simpl.
    destruct comp, multi; simpl; runs HT HC HK HTT;
      (eexists; split; [reflexivity|]; loc (Some i) FF).
  Qed.

  (* ---- commands on an existing instance *)
  Section Existing.
    Variables (il im ic : bool) (lps : list (id * bool)).
    Let i := mkInst t p il im ic lps.
    Hypothesis HF : find_inst (f_insts fs) t p = Some i.

    Let FFrm : forall u q, find_inst (f_insts (mkF (f_types fs) (remove_inst (f_insts fs) t p))) u q =
                           if N.eqb u t && N.eqb q p then None else find_inst (f_insts fs) u q.
    Proof. intros. cbn [f_insts]. apply find_inst_remove. Qed.

    Let FFset : forall i', i_t i' = t -> i_p i' = p ->
        forall u q, find_inst (f_insts (mkF (f_types fs) (set_inst (f_insts fs) i'))) u q =
                    if N.eqb u t && N.eqb q p then Some i' else find_inst (f_insts fs) u q.
    Proof. intros i' E1 E2 u q. cbn [f_insts]. rewrite find_inst_set, E1, E2. reflexivity. Qed.

    Lemma delete_ptr_ok :
      exists c', run_gops c (delete_ptr_ops i false) = Some c' /\
                 Inv (mkF (f_types fs) (remove_inst (f_insts fs) t p)) c'.
    Proof.
      destruct (Inv_at fs c t p HI) as (HT & HC & HK & _). rewrite HF in HT, HC, HK.
      unfold inst_tab, inst_src, inst_col in HT, HC, HK.
      unfold delete_ptr_ops, inst_has_table, inst_in_source, ptr_in_source, ptr_in_pointer,
        has_stored, ptab, ttab, pcol in *. simpl in *.
      destruct (existsb (fun e : id * bool => negb (snd e)) lps) eqn:Ehs;
      destruct ic, il, im; simpl in *; runs HT HC HK HTT;
        (eexists; split; [reflexivity|]; loc (@None inst) FFrm).
    Qed.

    Lemma set_multi_ok b :
      Bool.eqb im b = false ->
      let i' := with_multi i b in
      exists c', run_gops c (set_multi_ops i i' b) = Some c' /\
                 Inv (mkF (f_types fs) (set_inst (f_insts fs) i')) c'.
    Proof.
      intros Hb i'.
      destruct (Inv_at fs c t p HI) as (HT & HC & HK & _). rewrite HF in HT, HC, HK.
      unfold inst_tab, inst_src, inst_col in HT, HC, HK.
      pose proof (FFset i' eq_refl eq_refl) as FF.
      assert (NS : forall q, has_stored i = false -> lp_stored q i = false)
        by (intros; apply not_stored_lp; assumption).
      unfold set_multi_ops, create_table_ops, inst_has_table, inst_in_source, ptr_in_source,
        ptr_in_pointer, has_stored, lp_stored, ptab, ttab, pcol, i', with_multi in *. simpl in *.
      destruct (existsb (fun e : id * bool => negb (snd e)) lps) eqn:Ehs;
      destruct ic, im, b; simpl in *; try discriminate; runs HT HC HK HTT;
        (eexists; split; [reflexivity|]; loc (Some i') FF);
        try (rewrite NS by reflexivity; reflexivity).
    Qed.

    Lemma set_comp_ok b :
      Bool.eqb ic b = false ->
      (b = false -> has_stored i = false) ->
      let i' := with_comp i b in
      exists c', run_gops c (set_comp_ops i i' b) = Some c' /\
                 Inv (mkF (f_types fs) (set_inst (f_insts fs) i')) c'.
    Proof.
      intros Hb Hsafe i'.
      destruct (Inv_at fs c t p HI) as (HT & HC & HK & _). rewrite HF in HT, HC, HK.
      unfold inst_tab, inst_src, inst_col in HT, HC, HK.
      pose proof (FFset i' eq_refl eq_refl) as FF.
      assert (NS : forall q, has_stored i = false -> lp_stored q i = false)
        by (intros; apply not_stored_lp; assumption).
      unfold set_comp_ops, create_ptr_ops, create_table_ops, inst_has_table, inst_in_source,
        ptr_in_source, ptr_in_pointer, has_stored, lp_stored, ptab, ttab, pcol, i', with_comp in *.
      simpl in *.
      destruct (existsb (fun e : id * bool => negb (snd e)) lps) eqn:Ehs;
      destruct ic, b; simpl in *; try discriminate;
        try (specialize (Hsafe eq_refl); discriminate);
      destruct il, im; simpl in *; runs HT HC HK HTT;
        (eexists; split; [reflexivity|]; loc (Some i') FF);
        try (rewrite NS by reflexivity; reflexivity).
    Qed.

    (* ---- link properties *)
    Hypothesis HND : lps_nodup lps.

    Lemma create_lp_ok q comp :
      find_lp lps q = None ->
      let i' := with_lps i ((q, comp) :: lps) in
      exists c', run_gops c (if comp then [] else create_lp_ops i i' q) = Some c' /\
                 Inv (mkF (f_types fs) (set_inst (f_insts fs) i')) c'.
    Proof.
      intros Hq i'.
      destruct (Inv_at fs c t p HI) as (HT & HC & HK & _). rewrite HF in HT, HC, HK.
      unfold inst_tab, inst_src, inst_col in HT, HC, HK.
      pose proof (FFset i' eq_refl eq_refl) as FF.
      assert (NS : forall q, has_stored i = false -> lp_stored q i = false)
        by (intros; apply not_stored_lp; assumption).
      assert (HKq : has_col c (TP t p) (CL q) = false).
      { rewrite HK. unfold lp_stored. simpl. rewrite Hq. apply andb_false_r. }
      unfold create_lp_ops, inst_has_table, inst_in_source,
        ptr_in_source, ptr_in_pointer, has_stored, lp_stored, ptab, ttab, pcol, i', with_lps in *.
      simpl in *.
      destruct (existsb (fun e : id * bool => negb (snd e)) lps) eqn:Ehs;
      destruct comp, ic, im; simpl in *; runs HT HC HK HTT;
        (eexists; split; [reflexivity|]; loc (Some i') FF);
        try (rewrite NS by reflexivity; reflexivity);
        try (rewrite Hq; reflexivity).
    Qed.

    Lemma delete_lp_ok q comp :
      find_lp lps q = Some comp ->
      let i' := with_lps i (remove_lp lps q) in
      exists c', run_gops c (if comp then [] else delete_lp_ops i i' q) = Some c' /\
                 Inv (mkF (f_types fs) (set_inst (f_insts fs) i')) c'.
    Proof.
      intros Hq i'.
      destruct (Inv_at fs c t p HI) as (HT & HC & HK & _). rewrite HF in HT, HC, HK.
      unfold inst_tab, inst_src, inst_col in HT, HC, HK.
      pose proof (FFset i' eq_refl eq_refl) as FF.
      assert (HKq : has_col c (TP t p) (CL q) = inst_has_table i && negb comp).
      { rewrite HK. unfold lp_stored. simpl. rewrite Hq. reflexivity. }
      assert (R1 : comp = true -> existsb (fun e : id * bool => negb (snd e)) (remove_lp lps q) =
                                  existsb (fun e : id * bool => negb (snd e)) lps).
      { intros ->. apply stored_remove_computed; assumption. }
      assert (R2 : comp = false -> existsb (fun e : id * bool => negb (snd e)) lps = true).
      { intros ->. eapply find_lp_stored. exact Hq. }
      unfold delete_lp_ops, inst_has_table, inst_in_source,
        ptr_in_source, ptr_in_pointer, has_stored, lp_stored, ptab, ttab, pcol, i', with_lps in *.
      simpl in *.
      destruct comp.
      - pose proof (R1 eq_refl) as Ehs'.
        destruct (existsb (fun e : id * bool => negb (snd e)) lps) eqn:Ehs;
        destruct ic, im; simpl in *;
          (eexists; split; [reflexivity|]; loc (Some i') FF);
          try (rewrite R1 by reflexivity; rewrite ?Ehs; reflexivity);
          try (rewrite Hq; reflexivity); fin Hq.
      - rewrite (R2 eq_refl) in *.
        destruct (existsb (fun e : id * bool => negb (snd e)) (remove_lp lps q)) eqn:Ehs';
        destruct ic, im; simpl in *; runs HT HC HK HTT;
          (eexists; split; [reflexivity|]; loc (Some i') FF);
          try (rewrite Hq; reflexivity); fin Hq.
    Qed.

    Lemma set_lp_comp_ok q comp b :
      find_lp lps q = Some comp -> Bool.eqb comp b = false ->
      let i' := with_lps i ((q, b) :: remove_lp lps q) in
      exists c', run_gops c (if b then delete_lp_ops i i' q else create_lp_ops i i' q) = Some c' /\
                 Inv (mkF (f_types fs) (set_inst (f_insts fs) i')) c'.
    Proof.
      intros Hq Hb i'.
      destruct (Inv_at fs c t p HI) as (HT & HC & HK & _). rewrite HF in HT, HC, HK.
      unfold inst_tab, inst_src, inst_col in HT, HC, HK.
      pose proof (FFset i' eq_refl eq_refl) as FF.
      assert (NS : forall q, has_stored i = false -> lp_stored q i = false)
        by (intros; apply not_stored_lp; assumption).
      assert (HKq : has_col c (TP t p) (CL q) = inst_has_table i && negb comp).
      { rewrite HK. unfold lp_stored. simpl. rewrite Hq. reflexivity. }
      assert (R2 : comp = false -> existsb (fun e : id * bool => negb (snd e)) lps = true).
      { intros ->. eapply find_lp_stored. exact Hq. }
      unfold delete_lp_ops, create_lp_ops, inst_has_table, inst_in_source,
        ptr_in_source, ptr_in_pointer, has_stored, lp_stored, ptab, ttab, pcol, i', with_lps in *.
      simpl in *.
      destruct comp, b; simpl in *; try discriminate.
      - (* computed -> stored *)
        destruct (existsb (fun e : id * bool => negb (snd e)) lps) eqn:Ehs;
        destruct ic, im; simpl in *; runs HT HC HK HTT;
          (eexists; split; [reflexivity|]; loc (Some i') FF);
          try (rewrite NS by reflexivity; reflexivity);
          try (rewrite Hq; reflexivity); fin Hq;
          try (rewrite find_lp_remove;
               match goal with |- context [N.eqb ?a ?b] => destruct (N.eqb_spec a b) end;
               [reflexivity | symmetry; apply NS; reflexivity]).
      - (* stored -> computed *)
        rewrite (R2 eq_refl) in *.
        destruct (existsb (fun e : id * bool => negb (snd e)) (remove_lp lps q)) eqn:Ehs';
        destruct ic, im; simpl in *; runs HT HC HK HTT;
          (eexists; split; [reflexivity|]; loc (Some i') FF);
          try (rewrite Hq; reflexivity); fin Hq.
    Qed.
  End Existing.
End PtrCmd.
