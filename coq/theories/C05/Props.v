(* C05 -- Backend tables and columns track the schema through every migration.
   Statements only; each is closed by [exact] of a lemma of Proofs*.v and followed by
   Print Assumptions (audited by the check on every run).

   Vocabulary (Model.v).  A flat schema [fs] is the set of object types that own a table plus one
   pointer INSTANCE per (object type, pointer) pair (own or inherited), each with its kind,
   cardinality, computed flag and link properties.  [L_tab fs x] / [L_col fs x k] say whether the
   query compiler's layout functions (edb/pgsql/types.py: has_table, get_pointer_storage_info;
   Gen_Layout.v is regenerated from them) address table x / column k of table x for that schema.
   A catalog [c] is what the emitted CREATE/DROP TABLE, ADD/DROP COLUMN commands have built;
   [Inv fs c] = for every table and column, "exists in c" <-> "addressed by the layout of fs".
   A flat command [fcmd] is one adapted command of edb/pgsql/delta.py on one object; [fstep] emits
   its guarded dbops commands; [frun] executes a sequence (FPgError = the backend would raise,
   FStuck = a command that does not apply to the state).  [unsafe fs cm] singles out the one
   decision of delta.py that is wrong (a computed link that has stored link properties made
   stored again: Refuted.v); [frun_safe] is [frun] restricted to histories that never take it.
   The user layer ([uev], [ustep], [sstep], [srun]) expands DDL-level events (create/drop/rename
   of types and pointers, single<->multi, required<->optional, link properties, bases,
   abstract<->concrete, computed<->stored) over the inheritance cone into flat commands.

   The theorems quantify over ALL sequences of flat commands / ALL user-level histories, of any
   length.  What is only tested (correspondence run, not proved): that [ustep] mirrors the
   schema layer's expansion and acceptance, and that [fstep] mirrors pgsql/delta.py. *)
From Coq Require Import List NArith Bool.
From Verif.C05 Require Import Gen_Layout Model Proofs ProofsCmd ProofsType ProofsMain ProofsLayout.
Import ListNotations.

(* after any history of flat commands that avoids the refuted decision, the catalog is exactly
   the layout of the resulting schema *)
Theorem C05_tracks : forall cms fs c fs' c',
  fwf2 fs -> Inv fs c -> frun_safe fs c cms = FOk fs' c' -> Inv fs' c'.
Proof. exact p_tracks. Qed.
Print Assumptions C05_tracks.

(* the same with the layout as a catalog: [layout fs] is the executable function schema -> catalog
   (a table per object type with `id` and one column per stored single pointer; a table
   (source, target, stored link properties) per pointer that has_table) *)
Theorem C05_layout_spec : forall fs, fwf2 fs -> Inv fs (layout fs).
Proof. exact p_layout_spec. Qed.
Print Assumptions C05_layout_spec.

Theorem C05_tracks_layout : forall cms fs c fs' c',
  fwf2 fs -> Inv fs c -> frun_safe fs c cms = FOk fs' c' -> cat_equiv c' (layout fs').
Proof. exact p_tracks_layout_run. Qed.
Print Assumptions C05_tracks_layout.

(* ... and no emitted command fails in the backend (nothing is created twice, nothing missing
   is dropped or altered) *)
Theorem C05_no_backend_error : forall cms fs c,
  fwf2 fs -> Inv fs c -> frun_safe fs c cms <> FPgError.
Proof. exact p_no_backend_error. Qed.
Print Assumptions C05_no_backend_error.

(* no storage is left for objects that no longer exist / are no longer stored that way *)
Theorem C05_no_orphans : forall cms fs c fs' c',
  fwf2 fs -> Inv fs c -> frun_safe fs c cms = FOk fs' c' ->
  (forall x, has_tab c' x = true -> L_tab fs' x = true) /\
  (forall x k, has_col c' x k = true -> L_col fs' x k = true).
Proof. exact p_no_orphans. Qed.
Print Assumptions C05_no_orphans.

(* no storage that is still in use is dropped, everything the layout addresses was created *)
Theorem C05_no_missing : forall cms fs c fs' c',
  fwf2 fs -> Inv fs c -> frun_safe fs c cms = FOk fs' c' ->
  (forall x, L_tab fs' x = true -> has_tab c' x = true) /\
  (forall x k, L_col fs' x k = true -> has_col c' x k = true).
Proof. exact p_no_missing. Qed.
Print Assumptions C05_no_missing.

(* the restricted run is the faithful run on the histories it accepts *)
Theorem C05_safe_run_is_run : forall cms fs c,
  frun_safe fs c cms <> FExcluded -> frun fs c cms = frun_safe fs c cms.
Proof. exact p_safe_run_is_run. Qed.
Print Assumptions C05_safe_run_is_run.

(* user-level histories from any good state (the empty database is one): whatever mix of accepted,
   rejected events, the state stays good and the backend never raises; the run stops only at an
   event outside the modelled fragment *)
Theorem C05_history_tracks : forall h s,
  state_ok s -> hist_safe s h ->
  state_ok (fst (srun s h)) /\ snd (srun s h) <> SPgError.
Proof. exact p_history. Qed.
Print Assumptions C05_history_tracks.

Theorem C05_empty_ok : state_ok s_empty.
Proof. exact p_empty_ok. Qed.
Print Assumptions C05_empty_ok.

(* renames (of types, of link properties, of pointers whose column is id-named), abstract<->concrete,
   required<->optional and SET TYPE .. USING emit no lasting table/column command: storage is neither
   orphaned nor moved (the transient temporary column of _alter_pointer_type is not modelled) *)
Theorem C05_rename_free : forall s e s',
  storage_neutral e = true -> sstep s e = SOk s' -> s_f s' = s_f s /\ s_c s' = s_c s.
Proof. exact p_rename_free. Qed.
Print Assumptions C05_rename_free.

(* the compiler's IR-level copy of the storage decision (the _ptrref_storable_in_... functions of
   types.py) is the same function as the schema-level one (_pointer_storable_in_...), both as
   regenerated from source *)
Theorem C05_ptrref_agrees : forall a b,
  ref_in_source a b = ptr_in_source a b /\
  ref_in_pointer a b = ptr_in_pointer a b /\
  ref_col_by_name a b = ptr_col_by_name a b.
Proof. exact p_ptrref_agrees. Qed.
Print Assumptions C05_ptrref_agrees.

(* the column of a pointer other than `id` is named after the pointer (so a rename is not free)
   exactly for names starting with two underscores; the model leaves those renames out of scope *)
Theorem C05_named_column_dunder : forall p, named_column p = dunder p.
Proof. exact p_named_column_dunder. Qed.
Print Assumptions C05_named_column_dunder.

(* ---- non-vacuity: the hypotheses are satisfiable on non-trivial histories *)

(* a history with inheritance, a multi property, a link with a link property, single<->multi and
   computed<->stored switches, a rebase and drops runs to the end in the safe fragment *)
Example C05_ex_history :
  let h := [UCreateType 0 false []; UCreateType 1 false [];
            UCreatePtr 1 0 false 0 true false false;            (* multi property p0 *)
            UCreatePtr 1 4 true 0 false false false;            (* single link p4 -> T0 *)
            UCreateLP 1 4 0 false;                              (* link property q0 *)
            UCreateType 2 false [1];                            (* T2 extending T1 *)
            USetMulti 1 4 true; USetMulti 1 0 false;
            USetComp 1 0 true false 0; USetComp 1 0 false false 0;
            URenamePtr 1 4 5; URenameType 1 3;
            UDropLP 3 5 0; UDropBase 2 3; UAddBase 2 3; UDropType 2; UDropPtr 3 5; UDropType 3] in
  hist_safe s_empty h /\ (exists s, srun s_empty h = (s, SOk s) /\ s_c s = [(TT 1, [CId])]).
Proof.
  cbv zeta. split.
  - vm_compute. repeat split; discriminate.
  - eexists. split; vm_compute; reflexivity.
Qed.

Example C05_ex_flat :
  exists fs c, frun_safe f_empty []
    [FCreateType 1; FCreatePtr 1 2 true true false; FCreateLP 1 2 3 false; FSetMulti 1 2 false;
     FSetComp 1 2 true] = FOk fs c /\ has_tab c (TT 1) = true /\ has_tab c (TP 1 2) = false.
Proof. eexists. eexists. vm_compute. repeat split. Qed.
