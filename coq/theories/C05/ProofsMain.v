(* C05 -- assembly: every safe run of flat commands keeps catalog = layout(schema). *)
From Coq Require Import List NArith Bool Lia.
From Verif.C05 Require Import Gen_Layout Model Proofs ProofsCmd ProofsType.
Import ListNotations.
Open Scope N_scope.

Lemma In_filter_t (l : list inst) t i :
  In i (filter (fun i => negb (N.eqb t (i_t i))) l) -> In i l /\ i_t i <> t.
Proof.
  intro H. apply filter_In in H. destruct H as [H1 H2]. split; auto.
  intro E. rewrite E, N.eqb_refl in H2. discriminate.
Qed.

Lemma find_inst_none_notin l t p :
  find_inst l t p = None -> forall i, In i l -> ~ (i_t i = t /\ i_p i = p).
Proof.
  induction l as [|a r IH]; simpl; intros H i Hi [E1 E2]; auto.
  destruct (is_inst t p a) eqn:E; try discriminate.
  destruct Hi as [->|Hi].
  - unfold is_inst in E. rewrite E1, E2, !N.eqb_refl in E. discriminate.
  - apply (IH H i Hi). auto.
Qed.

Lemma fwf2_intro fs :
  keys_nodup (f_insts fs) ->
  (forall i, In i (f_insts fs) -> mem_id (i_t i) (f_types fs) = true) ->
  (forall i, In i (f_insts fs) -> lps_nodup (i_lps i)) -> fwf2 fs.
Proof. intros A B C. split; [split|]; assumption. Qed.

(* one flat command *)
Lemma fstep_inv fs c cm fs' gs :
  fwf2 fs -> Inv fs c -> unsafe fs cm = false -> fstep fs cm = Some (fs', gs) ->
  exists c', run_gops c gs = Some c' /\ Inv fs' c' /\ fwf2 fs'.
Proof.
  intros [[ND W] LN] HI HS HStep.
  assert (WF : fwf fs) by (split; assumption).
  destruct cm as [t|t|t p link multi comp|t p|t p q comp|t p q|t p b|t p b|t p q b]; simpl in HStep.
  - (* FCreateType *)
    destruct (mem_id t (f_types fs)) eqn:Et; try discriminate. inversion HStep; subst.
    destruct (create_type_ok fs c t WF HI Et) as (c' & R & I'). exists c'. split; [exact R|]. split; [exact I'|]. apply fwf2_intro; cbn [f_insts f_types].
    + exact ND.
    + intros i Hi.
      change (mem_id (i_t i) (t :: f_types fs)) with (N.eqb (i_t i) t || mem_id (i_t i) (f_types fs)).
      rewrite (W i Hi). apply orb_true_r.
    + exact LN.
  - (* FDropType *)
    destruct (mem_id t (f_types fs)) eqn:Et; try discriminate. inversion HStep; subst.
    destruct (drop_type_ok fs c t WF HI Et) as (c' & R & I'). exists c'. split; [exact R|]. split; [exact I'|]. apply fwf2_intro; cbn [f_insts f_types].
    + apply keys_nodup_filter_t. exact ND.
    + intros i Hi. apply In_filter_t in Hi. destruct Hi as [Hi Ne].
      rewrite mem_id_filter. rewrite (W i Hi).
      assert (N.eqb t (i_t i) = false) as -> by (apply N.eqb_neq; congruence). reflexivity.
    + intros i Hi. apply In_filter_t in Hi. apply LN. tauto.
  - (* FCreatePtr *)
    destruct (mem_id t (f_types fs)) eqn:Et; try discriminate.
    destruct (find_inst (f_insts fs) t p) eqn:Ef; try discriminate. inversion HStep; subst.
    destruct (create_ptr_ok fs c t p HI Et link multi comp Ef) as (c' & R & I').
    exists c'. split; [exact R|]. split; [exact I'|]. apply fwf2_intro; cbn [f_insts f_types].
    + split; [exact Ef | exact ND].
    + intros i [<-|Hi]; auto.
    + intros i [<-|Hi]; simpl; auto.
  - (* FDeletePtr *)
    destruct (find_inst (f_insts fs) t p) as [i|] eqn:Ef; try discriminate. inversion HStep; subst.
    pose proof (find_inst_key _ _ _ _ Ef) as [K1 K2].
    pose proof (W i (find_inst_in _ _ _ _ Ef)) as Et. rewrite K1 in Et.
    destruct i as [it ip il im ic lps]. simpl in K1, K2. subst it ip.
    destruct (delete_ptr_ok fs c t p HI Et il im ic lps Ef) as (c' & R & I').
    exists c'. split; [exact R|]. split; [exact I'|]. apply fwf2_intro; cbn [f_insts f_types].
    + apply keys_nodup_remove. exact ND.
    + intros i Hi. apply W. eapply In_remove_inst. exact Hi.
    + intros i Hi. apply LN. eapply In_remove_inst. exact Hi.
  - (* FCreateLP *)
    destruct (find_inst (f_insts fs) t p) as [i|] eqn:Ef; try discriminate.
    destruct (i_link i) eqn:El; try discriminate.
    destruct (find_lp (i_lps i) q) eqn:Eq; try discriminate. inversion HStep; subst.
    pose proof (find_inst_key _ _ _ _ Ef) as [K1 K2].
    pose proof (find_inst_in _ _ _ _ Ef) as HIn.
    pose proof (W i HIn) as Et. rewrite K1 in Et. pose proof (LN i HIn) as Hl.
    destruct i as [it ip il im ic lps]. simpl in K1, K2, Hl, Eq. subst it ip.
    edestruct (create_lp_ok fs c t p HI Et il im ic lps) with (q := q) (comp := comp) as (c' & R & I'); eauto.
    exists c'. split; [exact R|]. split; [exact I'|]. apply fwf2_intro; cbn [f_insts f_types].
    + apply keys_nodup_set. exact ND.
    + intros i Hi. apply In_set_inst in Hi. destruct Hi as [->|Hi]; auto.
    + intros i Hi. apply In_set_inst in Hi. destruct Hi as [->|Hi]; auto.
      simpl. split; auto.
  - (* FDeleteLP *)
    destruct (find_inst (f_insts fs) t p) as [i|] eqn:Ef; try discriminate.
    destruct (find_lp (i_lps i) q) as [comp|] eqn:Eq; try discriminate. inversion HStep; subst.
    pose proof (find_inst_key _ _ _ _ Ef) as [K1 K2].
    pose proof (find_inst_in _ _ _ _ Ef) as HIn.
    pose proof (W i HIn) as Et. rewrite K1 in Et. pose proof (LN i HIn) as Hl.
    destruct i as [it ip il im ic lps]. simpl in K1, K2, Hl, Eq. subst it ip.
    edestruct (delete_lp_ok fs c t p HI Et il im ic lps) with (q := q) (comp := comp) as (c' & R & I'); eauto.
    exists c'. split; [exact R|]. split; [exact I'|]. apply fwf2_intro; cbn [f_insts f_types].
    + apply keys_nodup_set. exact ND.
    + intros i Hi. apply In_set_inst in Hi. destruct Hi as [->|Hi]; auto.
    + intros i Hi. apply In_set_inst in Hi. destruct Hi as [->|Hi]; auto.
      simpl. apply lps_nodup_remove. exact Hl.
  - (* FSetMulti *)
    destruct (find_inst (f_insts fs) t p) as [i|] eqn:Ef; try discriminate.
    destruct (Bool.eqb (i_multi i) b) eqn:Eb; try discriminate. inversion HStep; subst.
    pose proof (find_inst_key _ _ _ _ Ef) as [K1 K2].
    pose proof (find_inst_in _ _ _ _ Ef) as HIn.
    pose proof (W i HIn) as Et. rewrite K1 in Et. pose proof (LN i HIn) as Hl.
    destruct i as [it ip il im ic lps]. simpl in K1, K2, Hl, Eb. subst it ip.
    destruct (set_multi_ok fs c t p HI Et il im ic lps Ef b Eb) as (c' & R & I').
    exists c'. split; [exact R|]. split; [exact I'|]. apply fwf2_intro; cbn [f_insts f_types].
    + apply keys_nodup_set. exact ND.
    + intros i Hi. apply In_set_inst in Hi. destruct Hi as [->|Hi]; auto.
    + intros i Hi. apply In_set_inst in Hi. destruct Hi as [->|Hi]; auto.
  - (* FSetComp *)
    destruct (find_inst (f_insts fs) t p) as [i|] eqn:Ef; try discriminate.
    destruct (Bool.eqb (i_comp i) b) eqn:Eb; try discriminate. inversion HStep; subst.
    pose proof (find_inst_key _ _ _ _ Ef) as [K1 K2].
    pose proof (find_inst_in _ _ _ _ Ef) as HIn.
    pose proof (W i HIn) as Et. rewrite K1 in Et. pose proof (LN i HIn) as Hl.
    assert (Hsafe : b = false -> has_stored i = false).
    { intros ->. simpl in HS. rewrite Ef in HS. exact HS. }
    destruct i as [it ip il im ic lps]. simpl in K1, K2, Hl, Eb. subst it ip.
    destruct (set_comp_ok fs c t p HI Et il im ic lps Ef b Eb Hsafe) as (c' & R & I').
    exists c'. split; [exact R|]. split; [exact I'|]. apply fwf2_intro; cbn [f_insts f_types].
    + apply keys_nodup_set. exact ND.
    + intros i Hi. apply In_set_inst in Hi. destruct Hi as [->|Hi]; auto.
    + intros i Hi. apply In_set_inst in Hi. destruct Hi as [->|Hi]; auto.
  - (* FSetLPComp *)
    destruct (find_inst (f_insts fs) t p) as [i|] eqn:Ef; try discriminate.
    destruct (find_lp (i_lps i) q) as [comp|] eqn:Eq; try discriminate.
    destruct (Bool.eqb comp b) eqn:Eb; try discriminate. inversion HStep; subst.
    pose proof (find_inst_key _ _ _ _ Ef) as [K1 K2].
    pose proof (find_inst_in _ _ _ _ Ef) as HIn.
    pose proof (W i HIn) as Et. rewrite K1 in Et. pose proof (LN i HIn) as Hl.
    destruct i as [it ip il im ic lps]. simpl in K1, K2, Hl, Eq. subst it ip.
    edestruct (set_lp_comp_ok fs c t p HI Et il im ic lps) with (q := q) (comp := comp) (b := b) as (c' & R & I'); eauto.
    exists c'. split; [exact R|]. split; [exact I'|]. apply fwf2_intro; cbn [f_insts f_types].
    + apply keys_nodup_set. exact ND.
    + intros i Hi. apply In_set_inst in Hi. destruct Hi as [->|Hi]; auto.
    + intros i Hi. apply In_set_inst in Hi. destruct Hi as [->|Hi]; auto.
      simpl. split.
      * rewrite find_lp_remove, N.eqb_refl. reflexivity.
      * apply lps_nodup_remove. exact Hl.
Qed.

(* ---- runs *)
Lemma frun_safe_inv cms : forall fs c,
  fwf2 fs -> Inv fs c ->
  match frun_safe fs c cms with
  | FOk fs' c' => Inv fs' c' /\ fwf2 fs'
  | FPgError => False
  | _ => True
  end.
Proof.
  induction cms as [|cm r IH]; intros fs c W HI; simpl.
  - auto.
  - destruct (unsafe fs cm) eqn:EU; auto.
    destruct (fstep fs cm) as [[fs' gs]|] eqn:ES; auto.
    destruct (fstep_inv fs c cm fs' gs W HI EU ES) as (c' & R & I' & W').
    rewrite R. apply IH; assumption.
Qed.

Lemma p_tracks cms fs c fs' c' :
  fwf2 fs -> Inv fs c -> frun_safe fs c cms = FOk fs' c' -> Inv fs' c'.
Proof.
  intros W HI H. pose proof (frun_safe_inv cms fs c W HI) as P. rewrite H in P. tauto.
Qed.

Lemma p_no_backend_error cms fs c :
  fwf2 fs -> Inv fs c -> frun_safe fs c cms <> FPgError.
Proof.
  intros W HI H. pose proof (frun_safe_inv cms fs c W HI) as P. rewrite H in P. exact P.
Qed.

Lemma p_no_orphans cms fs c fs' c' :
  fwf2 fs -> Inv fs c -> frun_safe fs c cms = FOk fs' c' ->
  (forall x, has_tab c' x = true -> L_tab fs' x = true) /\
  (forall x k, has_col c' x k = true -> L_col fs' x k = true).
Proof.
  intros W I R. destruct (p_tracks cms fs c fs' c' W I R) as [A B].
  split; intros; [rewrite <- A | rewrite <- B]; assumption.
Qed.

Lemma p_no_missing cms fs c fs' c' :
  fwf2 fs -> Inv fs c -> frun_safe fs c cms = FOk fs' c' ->
  (forall x, L_tab fs' x = true -> has_tab c' x = true) /\
  (forall x k, L_col fs' x k = true -> has_col c' x k = true).
Proof.
  intros W I R. destruct (p_tracks cms fs c fs' c' W I R) as [A B].
  split; intros; [rewrite A | rewrite B]; assumption.
Qed.

Lemma p_safe_run_is_run cms : forall fs c,
  frun_safe fs c cms <> FExcluded -> frun fs c cms = frun_safe fs c cms.
Proof.
  induction cms as [|cm r IH]; intros fs c H; simpl in *; auto.
  destruct (unsafe fs cm); try congruence.
  destruct (fstep fs cm) as [[fs' gs]|]; auto.
  destruct (run_gops c gs); auto.
Qed.

Lemma wf_empty : fwf2 f_empty.
Proof. repeat split; simpl; auto; intros i []. Qed.

Lemma inv_empty : Inv f_empty [].
Proof. split; [intro x | intros x k]; destruct x; try destruct k; reflexivity. Qed.

(* ---- the user layer: histories *)
Definition state_ok (s : state) : Prop := fwf2 (s_f s) /\ Inv (s_f s) (s_c s).

Lemma p_empty_ok : state_ok s_empty.
Proof. split; [exact wf_empty | exact inv_empty]. Qed.

(* an accepted event none of whose flat commands is the excluded one *)
Definition ev_safe (s : state) (e : uev) : Prop :=
  match ustep (s_u s) e with
  | UOk _ cms => frun_safe (s_f s) (s_c s) cms <> FExcluded
  | _ => True
  end.

Fixpoint hist_safe (s : state) (h : list uev) : Prop :=
  match h with
  | [] => True
  | e :: r => ev_safe s e /\
              match sstep s e with
              | SOk s' => hist_safe s' r
              | SRejected => hist_safe s r
              | _ => True
              end
  end.

Lemma sstep_ok s e :
  state_ok s -> ev_safe s e ->
  match sstep s e with
  | SOk s' => state_ok s'
  | SPgError => False
  | _ => True
  end.
Proof.
  intros [W HI] HS. unfold sstep, ev_safe in *.
  destruct (ustep (s_u s) e) as [us cms| |]; auto.
  rewrite (p_safe_run_is_run cms _ _ HS).
  pose proof (frun_safe_inv cms (s_f s) (s_c s) W HI) as P.
  destruct (frun_safe (s_f s) (s_c s) cms); auto; try congruence.
  unfold state_ok. simpl. tauto.
Qed.

Lemma p_history h : forall s,
  state_ok s -> hist_safe s h ->
  state_ok (fst (srun s h)) /\ snd (srun s h) <> SPgError.
Proof.
  induction h as [|e r IH]; intros s Hs Hh; simpl.
  - split; auto. discriminate.
  - destruct Hh as [He Hr]. pose proof (sstep_ok s e Hs He) as P.
    destruct (sstep s e) eqn:E; simpl; try (split; [exact Hs | discriminate]).
    + apply IH; assumption.
    + apply IH; assumption.
    + contradiction.
Qed.

(* renames, abstract <-> concrete, required <-> optional expand to no flat command at all *)
Definition storage_neutral (e : uev) : bool :=
  match e with
  | URenameType _ _ | URenamePtr _ _ _ | URenameLP _ _ _ _ | USetAbstract _ _ | USetReq _ _ _
  | USetType _ _ _ => true
  | _ => false
  end.

Lemma p_rename_free s e s' :
  storage_neutral e = true -> sstep s e = SOk s' -> s_f s' = s_f s /\ s_c s' = s_c s.
Proof.
  intros HN H. unfold sstep in H.
  assert (E : forall us cms, ustep (s_u s) e = UOk us cms -> cms = []).
  { intros us cms. destruct e; try discriminate HN; simpl;
      repeat match goal with
             | |- context [match ?x with _ => _ end] => destruct x
             | |- context [if ?x then _ else _] => destruct x
             end; intro Q; inversion Q; reflexivity. }
  destruct (ustep (s_u s) e) as [us cms| |] eqn:EU; try discriminate.
  rewrite (E us cms eq_refl) in H. simpl in H. inversion H. simpl. auto.
Qed.

Lemma p_ptrref_agrees singular has_props :
  ref_in_source singular has_props = ptr_in_source singular has_props /\
  ref_in_pointer singular has_props = ptr_in_pointer singular has_props /\
  ref_col_by_name singular has_props = ptr_col_by_name singular has_props.
Proof. destruct singular, has_props; repeat split; reflexivity. Qed.

(* a pointer that is not `id` gets a name-based column exactly when its name starts with `__` *)
Lemma p_named_column_dunder p : named_column p = dunder p.
Proof. unfold named_column. destruct (dunder p); reflexivity. Qed.
