(* C05 -- the full statement ("after ANY history of accepted DDL ...") is false of the faithful
   model, as it is of edb/pgsql/delta.py: AlterLink._alter_innards, on computed -> stored, calls
   _create_link, which re-creates the link table with (source, target) only; the link's stored
   link properties stay in the schema, get_pointer_storage_info addresses their columns, but the
   columns are gone.  The witness below is replayed on the real code by the check (finding
   C05-F1 in harness/props/c05.py). *)
From Coq Require Import List NArith Bool.
From Verif.C05 Require Import Gen_Layout Model Proofs.
Import ListNotations.

Theorem C05_full_refuted :
  exists cms fs c, frun f_empty [] cms = FOk fs c /\ ~ Inv fs c.
Proof.
  exists [FCreateType 1; FCreatePtr 1 2 true true false; FCreateLP 1 2 3 false;
          FSetComp 1 2 true; FSetComp 1 2 false].
  eexists. eexists. split.
  - vm_compute. reflexivity.
  - intros [_ IC]. specialize (IC (TP 1 2) (CL 3)). vm_compute in IC. discriminate.
Qed.
Print Assumptions C05_full_refuted.

(* the same at the DDL level: create type T1 { create multi link p4: T0 { create property q0 } };
   alter link p4 using (T0); alter link p4 reset expression *)
Theorem C05_full_refuted_history :
  exists h s, srun s_empty h = (s, SOk s) /\ ~ Inv (s_f s) (s_c s).
Proof.
  exists [UCreateType 0 false []; UCreateType 1 false []; UCreatePtr 1 4 true 0 true false false;
          UCreateLP 1 4 0 false; USetComp 1 4 true true 0; USetComp 1 4 false true 0].
  eexists. split.
  - vm_compute. reflexivity.
  - intros [_ IC]. specialize (IC (TP 2 3) (CL 4)). vm_compute in IC. discriminate.
Qed.
Print Assumptions C05_full_refuted_history.
