(* C05 -- lemmas.  The statements of the property are in Props.v. *)
From Coq Require Import List NArith Bool Lia.
From Verif.C05 Require Import Gen_Layout Model.
Import ListNotations.
Open Scope N_scope.

(* ------------------------------------------------------------------ equality tests *)

Lemma tab_eqb_eq a b : tab_eqb a b = true <-> a = b.
Proof.
  destruct a, b; simpl; split; intro H; try discriminate; try congruence.
  - apply N.eqb_eq in H. congruence.
  - inversion H. apply N.eqb_refl.
  - apply andb_true_iff in H. destruct H as [H1 H2].
    apply N.eqb_eq in H1. apply N.eqb_eq in H2. congruence.
  - inversion H. rewrite !N.eqb_refl. reflexivity.
Qed.

Lemma tab_eqb_refl a : tab_eqb a a = true.
Proof. apply tab_eqb_eq. reflexivity. Qed.

Lemma tab_eqb_sym a b : tab_eqb a b = tab_eqb b a.
Proof.
  destruct (tab_eqb a b) eqn:E.
  - apply tab_eqb_eq in E. subst. symmetry. apply tab_eqb_refl.
  - destruct (tab_eqb b a) eqn:E2; auto. apply tab_eqb_eq in E2. subst.
    rewrite tab_eqb_refl in E. discriminate.
Qed.

Lemma tab_eqb_spec a b : reflect (a = b) (tab_eqb a b).
Proof.
  destruct (tab_eqb a b) eqn:E; constructor.
  - apply tab_eqb_eq. exact E.
  - intro H. apply tab_eqb_eq in H. congruence.
Qed.

Lemma col_eqb_eq a b : col_eqb a b = true <-> a = b.
Proof.
  destruct a, b; simpl; split; intro H; try discriminate; try congruence;
    try (apply N.eqb_eq in H; congruence); try (inversion H; apply N.eqb_refl).
Qed.

Lemma col_eqb_refl a : col_eqb a a = true.
Proof. apply col_eqb_eq. reflexivity. Qed.

Lemma col_eqb_sym a b : col_eqb a b = col_eqb b a.
Proof.
  destruct (col_eqb a b) eqn:E.
  - apply col_eqb_eq in E. subst. symmetry. apply col_eqb_refl.
  - destruct (col_eqb b a) eqn:E2; auto. apply col_eqb_eq in E2. subst.
    rewrite col_eqb_refl in E. discriminate.
Qed.

Lemma col_eqb_spec a b : reflect (a = b) (col_eqb a b).
Proof.
  destruct (col_eqb a b) eqn:E; constructor.
  - apply col_eqb_eq. exact E.
  - intro H. apply col_eqb_eq in H. congruence.
Qed.

(* ------------------------------------------------------------------ catalog observations *)

Lemma mem_col_cons k k' cs : mem_col k (k' :: cs) = col_eqb k k' || mem_col k cs.
Proof. reflexivity. Qed.

Lemma mem_col_rm k k' cs : mem_col k (rm_col k' cs) = negb (col_eqb k' k) && mem_col k cs.
Proof.
  unfold mem_col, rm_col. induction cs as [|a r IH]; simpl.
  - rewrite andb_false_r. reflexivity.
  - destruct (col_eqb_spec k' a) as [->|N]; simpl.
    + rewrite IH. destruct (col_eqb_spec a k) as [->|N2]; simpl.
      * reflexivity.
      * assert (col_eqb k a = false) as ->.
        { destruct (col_eqb_spec k a); auto. subst. congruence. }
        reflexivity.
    + rewrite IH. destruct (col_eqb_spec k a) as [->|N2]; simpl.
      * assert (col_eqb k' a = false) as ->.
        { destruct (col_eqb_spec k' a); auto. congruence. }
        reflexivity.
      * reflexivity.
Qed.

Lemma find_cons x cs c y :
  cat_find ((x, cs) :: c) y = if tab_eqb y x then Some cs else cat_find c y.
Proof. reflexivity. Qed.

Lemma find_remove c x y :
  cat_find (cat_remove c x) y = if tab_eqb x y then None else cat_find c y.
Proof.
  unfold cat_remove. induction c as [|[z cs] r IH]; simpl.
  - destruct (tab_eqb x y); reflexivity.
  - destruct (tab_eqb_spec x z) as [->|N]; simpl.
    + rewrite IH. destruct (tab_eqb_spec z y) as [->|N2].
      * reflexivity.
      * assert (tab_eqb y z = false) as ->.
        { destruct (tab_eqb_spec y z); auto. subst. congruence. }
        reflexivity.
    + rewrite IH. destruct (tab_eqb_spec y z) as [->|N2].
      * assert (tab_eqb x z = false) as ->.
        { destruct (tab_eqb_spec x z); auto. congruence. }
        reflexivity.
      * reflexivity.
Qed.

Lemma find_update c x f y :
  cat_find (cat_update c x f) y =
  if tab_eqb x y then option_map f (cat_find c y) else cat_find c y.
Proof.
  unfold cat_update. induction c as [|[z cs] r IH]; simpl.
  - destruct (tab_eqb x y); reflexivity.
  - destruct (tab_eqb_spec x z) as [->|N]; simpl.
    + destruct (tab_eqb_spec y z) as [->|N2].
      * rewrite tab_eqb_refl. reflexivity.
      * rewrite IH. reflexivity.
    + destruct (tab_eqb_spec y z) as [->|N2].
      * assert (tab_eqb x z = false) as ->.
        { destruct (tab_eqb_spec x z); auto. congruence. }
        reflexivity.
      * rewrite IH. reflexivity.
Qed.

Lemma has_tab_cons x cs c y : has_tab ((x, cs) :: c) y = tab_eqb x y || has_tab c y.
Proof.
  unfold has_tab. rewrite find_cons. rewrite (tab_eqb_sym y x).
  destruct (tab_eqb x y); reflexivity.
Qed.

Lemma has_col_cons x cs c y k :
  has_col ((x, cs) :: c) y k = if tab_eqb x y then mem_col k cs else has_col c y k.
Proof.
  unfold has_col. rewrite find_cons. rewrite (tab_eqb_sym y x).
  destruct (tab_eqb x y); reflexivity.
Qed.

Lemma has_tab_remove c x y : has_tab (cat_remove c x) y = negb (tab_eqb x y) && has_tab c y.
Proof. unfold has_tab. rewrite find_remove. destruct (tab_eqb x y); reflexivity. Qed.

Lemma has_col_remove c x y k :
  has_col (cat_remove c x) y k = negb (tab_eqb x y) && has_col c y k.
Proof. unfold has_col. rewrite find_remove. destruct (tab_eqb x y); reflexivity. Qed.

Lemma has_tab_update c x f y : has_tab (cat_update c x f) y = has_tab c y.
Proof.
  unfold has_tab. rewrite find_update.
  destruct (tab_eqb x y); auto. destruct (cat_find c y); reflexivity.
Qed.

Lemma has_col_add c x k' y k :
  has_col (cat_update c x (cons k')) y k =
  (tab_eqb x y && col_eqb k k' && has_tab c y) || has_col c y k.
Proof.
  unfold has_col, has_tab. rewrite find_update.
  destruct (tab_eqb x y); simpl; auto.
  destruct (cat_find c y); simpl.
  - rewrite andb_true_r. reflexivity.
  - rewrite andb_false_r. reflexivity.
Qed.

Lemma has_col_rm c x k' y k :
  has_col (cat_update c x (rm_col k')) y k =
  negb (tab_eqb x y && col_eqb k' k) && has_col c y k.
Proof.
  unfold has_col. rewrite find_update.
  destruct (tab_eqb x y); cbn [andb negb option_map]; auto.
  destruct (cat_find c y); cbn [option_map].
  - apply mem_col_rm.
  - rewrite andb_false_r. reflexivity.
Qed.

Lemma has_col_has_tab c x k : has_col c x k = true -> has_tab c x = true.
Proof. unfold has_col, has_tab. destruct (cat_find c x); auto. Qed.

(* ------------------------------------------------------------------ running single commands *)

Lemma run_nil c : run_gops c [] = Some c.
Proof. reflexivity. Qed.

Lemma run_app c g1 g2 :
  run_gops c (g1 ++ g2) =
  match run_gops c g1 with Some c' => run_gops c' g2 | None => None end.
Proof.
  revert c. induction g1 as [|g r IH]; intro c; simpl; auto.
  destruct (apply_gop c g); auto.
Qed.

Lemma run_create c x cs gs :
  has_tab c x = false ->
  run_gops c (Do (CreateTable x cs) :: gs) = run_gops ((x, cs) :: c) gs.
Proof. intro H. simpl. rewrite H. reflexivity. Qed.

Lemma run_create_ifnot c x cs gs :
  run_gops c (IfNotEx (TabEx x) (CreateTable x cs) :: gs) =
  if has_tab c x then run_gops c gs else run_gops ((x, cs) :: c) gs.
Proof. simpl. destruct (has_tab c x) eqn:E; simpl; rewrite ?E; reflexivity. Qed.

Lemma run_drop c x gs :
  has_tab c x = true ->
  run_gops c (Do (DropTable x) :: gs) = run_gops (cat_remove c x) gs.
Proof. intro H. simpl. rewrite H. reflexivity. Qed.

Lemma run_drop_if c x gs :
  run_gops c (IfEx (TabEx x) (DropTable x) :: gs) =
  if has_tab c x then run_gops (cat_remove c x) gs else run_gops c gs.
Proof. simpl. destruct (has_tab c x) eqn:E; simpl; rewrite ?E; reflexivity. Qed.

Lemma run_add c x k gs :
  has_tab c x = true -> has_col c x k = false ->
  run_gops c (Do (AddCol x k) :: gs) = run_gops (cat_update c x (cons k)) gs.
Proof. intros H1 H2. simpl. rewrite H1, H2. reflexivity. Qed.

Lemma run_add_ifnot c x k gs :
  has_tab c x = true ->
  run_gops c (IfNotEx (ColEx x k) (AddCol x k) :: gs) =
  if has_col c x k then run_gops c gs else run_gops (cat_update c x (cons k)) gs.
Proof. intros H1. simpl. destruct (has_col c x k) eqn:E; simpl; rewrite ?H1, ?E; reflexivity. Qed.

Lemma run_dropcol c x k gs :
  has_col c x k = true ->
  run_gops c (Do (DropCol x k) :: gs) = run_gops (cat_update c x (rm_col k)) gs.
Proof. intros H. simpl. rewrite H. reflexivity. Qed.

(* ------------------------------------------------------------------ instances *)

Lemma find_inst_key l t p i : find_inst l t p = Some i -> i_t i = t /\ i_p i = p.
Proof.
  induction l as [|a r IH]; simpl; try discriminate.
  destruct (is_inst t p a) eqn:E.
  - intro H. inversion H. subst. unfold is_inst in E.
    apply andb_true_iff in E. destruct E as [E1 E2].
    apply N.eqb_eq in E1. apply N.eqb_eq in E2. auto.
  - exact IH.
Qed.

Lemma find_inst_in l t p i : find_inst l t p = Some i -> In i l.
Proof.
  induction l as [|a r IH]; simpl; try discriminate.
  destruct (is_inst t p a).
  - intro H. inversion H. auto.
  - auto.
Qed.

Lemma is_inst_keys t p t' p' a :
  is_inst t p a = true -> is_inst t' p' a = N.eqb t' t && N.eqb p' p.
Proof.
  unfold is_inst. intro H. apply andb_true_iff in H. destruct H as [H1 H2].
  apply N.eqb_eq in H1. apply N.eqb_eq in H2. subst. reflexivity.
Qed.

Lemma find_inst_remove l t p t' p' :
  find_inst (remove_inst l t p) t' p' =
  if N.eqb t' t && N.eqb p' p then None else find_inst l t' p'.
Proof.
  unfold remove_inst. induction l as [|a r IH]; simpl.
  - destruct (N.eqb t' t && N.eqb p' p); reflexivity.
  - destruct (is_inst t p a) eqn:E; simpl.
    + rewrite IH. rewrite (is_inst_keys _ _ t' p' _ E).
      destruct (N.eqb t' t && N.eqb p' p); reflexivity.
    + rewrite IH. destruct (is_inst t' p' a) eqn:E2; auto.
      destruct (N.eqb t' t && N.eqb p' p) eqn:E3; auto.
      apply andb_true_iff in E3. destruct E3 as [A B].
      apply N.eqb_eq in A. apply N.eqb_eq in B. subst. congruence.
Qed.

Lemma find_inst_set l i t' p' :
  find_inst (set_inst l i) t' p' =
  if N.eqb t' (i_t i) && N.eqb p' (i_p i) then Some i else find_inst l t' p'.
Proof.
  unfold set_inst. simpl. unfold is_inst at 1.
  destruct (N.eqb t' (i_t i) && N.eqb p' (i_p i)) eqn:E; auto.
  rewrite find_inst_remove. rewrite E. reflexivity.
Qed.

Lemma find_inst_filter_t l t t' p' :
  find_inst (filter (fun i => negb (N.eqb t (i_t i))) l) t' p' =
  if N.eqb t t' then None else find_inst l t' p'.
Proof.
  induction l as [|a r IH]; simpl.
  - destruct (N.eqb t t'); reflexivity.
  - destruct (N.eqb_spec t (i_t a)) as [E|N]; simpl.
    + rewrite IH. destruct (N.eqb_spec t t') as [E2|N2]; auto.
      unfold is_inst. destruct (N.eqb_spec t' (i_t a)); simpl; auto. congruence.
    + destruct (is_inst t' p' a) eqn:E2.
      * unfold is_inst in E2. apply andb_true_iff in E2. destruct E2 as [A B].
        apply N.eqb_eq in A. subst.
        destruct (N.eqb_spec t (i_t a)); auto. congruence.
      * exact IH.
Qed.

(* keys are unique, formulated through find_inst *)
Fixpoint keys_nodup (l : list inst) : Prop :=
  match l with
  | [] => True
  | i :: r => find_inst r (i_t i) (i_p i) = None /\ keys_nodup r
  end.

Lemma keys_nodup_remove l t p : keys_nodup l -> keys_nodup (remove_inst l t p).
Proof.
  induction l as [|a r IH]; simpl; auto.
  intros [H1 H2]. destruct (is_inst t p a) eqn:E; simpl; auto.
  split; auto.
  fold (remove_inst r t p). rewrite find_inst_remove. rewrite H1.
  destruct (N.eqb (i_t a) t && N.eqb (i_p a) p); reflexivity.
Qed.

Lemma keys_nodup_set l i : keys_nodup l -> keys_nodup (set_inst l i).
Proof.
  intro H. unfold set_inst. simpl. split.
  - rewrite find_inst_remove. rewrite !N.eqb_refl. reflexivity.
  - apply keys_nodup_remove. exact H.
Qed.

Lemma keys_nodup_filter_t l t :
  keys_nodup l -> keys_nodup (filter (fun i => negb (N.eqb t (i_t i))) l).
Proof.
  induction l as [|a r IH]; simpl; auto.
  intros [H1 H2]. destruct (N.eqb t (i_t a)) eqn:E; simpl; auto.
  split; auto. rewrite find_inst_filter_t. rewrite E. exact H1.
Qed.

(* well-formed flat schema *)
Definition fwf (fs : fschema) : Prop :=
  keys_nodup (f_insts fs) /\
  (forall i, In i (f_insts fs) -> mem_id (i_t i) (f_types fs) = true).

Lemma mem_id_filter t u l :
  mem_id u (filter (fun x => negb (N.eqb t x)) l) = negb (N.eqb t u) && mem_id u l.
Proof.
  unfold mem_id. induction l as [|a r IH]; simpl.
  - rewrite andb_false_r. reflexivity.
  - destruct (N.eqb t a) eqn:E; simpl.
    + rewrite IH. apply N.eqb_eq in E. subst a.
      rewrite (N.eqb_sym u t). destruct (N.eqb t u); reflexivity.
    + rewrite IH. destruct (N.eqb u a) eqn:E2; simpl.
      * apply N.eqb_eq in E2. subst a. rewrite E. reflexivity.
      * reflexivity.
Qed.

(* ------------------------------------------------------------------ the invariant *)

Definition Inv (fs : fschema) (c : catalog) : Prop :=
  (forall x, has_tab c x = L_tab fs x) /\ (forall x k, has_col c x k = L_col fs x k).

Definition cat_equiv (c1 c2 : catalog) : Prop :=
  (forall x, has_tab c1 x = has_tab c2 x) /\ (forall x k, has_col c1 x k = has_col c2 x k).

(* ------------------------------------------------------------------ link-property lists *)

Lemma find_lp_remove l q q' :
  find_lp (remove_lp l q) q' = if N.eqb q' q then None else find_lp l q'.
Proof.
  unfold remove_lp. induction l as [|[a b] r IH]; simpl.
  - destruct (N.eqb q' q); reflexivity.
  - destruct (N.eqb q a) eqn:E; simpl.
    + rewrite IH. apply N.eqb_eq in E. subst a.
      destruct (N.eqb q' q); reflexivity.
    + rewrite IH. destruct (N.eqb q' a) eqn:E2; auto.
      apply N.eqb_eq in E2. subst a. rewrite (N.eqb_sym q' q). rewrite E. reflexivity.
Qed.

Lemma stored_remove l q :
  existsb (fun e : id * bool => negb (snd e)) (remove_lp l q) = true ->
  existsb (fun e : id * bool => negb (snd e)) l = true.
Proof.
  unfold remove_lp. induction l as [|[a b] r IH]; simpl; auto.
  destruct (N.eqb q a); simpl.
  - intro H. rewrite (IH H). apply orb_true_r.
  - destruct b; simpl; auto.
Qed.

Lemma find_lp_stored l q :
  find_lp l q = Some false -> existsb (fun e : id * bool => negb (snd e)) l = true.
Proof.
  induction l as [|[a b] r IH]; simpl; try discriminate.
  destruct (N.eqb q a).
  - intro H. inversion H. subst. reflexivity.
  - intro H. rewrite (IH H). apply orb_true_r.
Qed.

Lemma lp_stored_has_stored q i : lp_stored q i = true -> has_stored i = true.
Proof.
  unfold lp_stored, has_stored. destruct (find_lp (i_lps i) q) as [[|]|] eqn:E; try discriminate.
  intros _. eapply find_lp_stored. exact E.
Qed.

(* ------------------------------------------------------------------ one instance changes *)

Definition inst_tab (o : option inst) : bool :=
  match o with Some i => inst_has_table i | None => false end.
Definition inst_src (o : option inst) : bool :=
  match o with Some i => inst_in_source i | None => false end.
Definition inst_col (o : option inst) (k : col) : bool :=
  match o with
  | None => false
  | Some i => inst_has_table i &&
              match k with CSrc => true | CTgt => true | CL q => lp_stored q i | _ => false end
  end.

Lemma Inv_local fs fs' c c' t p o' :
  f_types fs' = f_types fs ->
  (forall u q, find_inst (f_insts fs') u q =
               if N.eqb u t && N.eqb q p then o' else find_inst (f_insts fs) u q) ->
  Inv fs c ->
  (forall x, x <> TP t p -> has_tab c' x = has_tab c x) ->
  has_tab c' (TP t p) = inst_tab o' ->
  (forall x k, x <> TP t p -> ~ (x = TT t /\ k = CP p) -> has_col c' x k = has_col c x k) ->
  has_col c' (TT t) (CP p) = inst_src o' ->
  (forall k, has_col c' (TP t p) k = inst_col o' k) ->
  Inv fs' c'.
Proof.
  intros HT HF [IT IC] H1 H2 H3 H4 H5. split.
  - intro x. destruct (tab_eqb_spec x (TP t p)) as [->|N].
    + rewrite H2. simpl. rewrite HF. rewrite !N.eqb_refl. simpl.
      destruct o'; reflexivity.
    + rewrite (H1 x N). rewrite IT. destruct x as [u|u q]; simpl.
      * rewrite HT. reflexivity.
      * rewrite HF. destruct (N.eqb_spec u t) as [->|N1]; simpl; auto.
        destruct (N.eqb_spec q p) as [->|N2]; simpl; auto. congruence.
  - intros x k. destruct (tab_eqb_spec x (TP t p)) as [->|N].
    + rewrite H5. unfold inst_col.
      assert (F : find_inst (f_insts fs') t p = o') by (rewrite HF, !N.eqb_refl; reflexivity).
      destruct k; unfold L_col, L_tab; rewrite ?F; destruct o'; simpl;
        rewrite ?andb_true_r, ?andb_false_r; auto.
    + destruct x as [u|u q].
      * destruct k as [| | |q|q]; try (rewrite H3; [rewrite IC; simpl; rewrite ?HT; auto | exact N | intros [_ A]; discriminate]).
        destruct (N.eqb_spec u t) as [->|N1].
        -- destruct (N.eqb_spec q p) as [->|N2].
           ++ rewrite H4. simpl. rewrite HF. rewrite !N.eqb_refl. simpl. destruct o'; reflexivity.
           ++ rewrite H3; [| exact N | intros [_ A]; congruence].
              rewrite IC. simpl. rewrite HF.
              destruct (N.eqb_spec q p); try congruence. rewrite andb_false_r. reflexivity.
        -- rewrite H3; [| exact N | intros [A _]; congruence].
           rewrite IC. simpl. rewrite HF.
           destruct (N.eqb_spec u t); try congruence. reflexivity.
      * rewrite H3; [| exact N | intros [A _]; discriminate].
        rewrite IC.
        assert (E : find_inst (f_insts fs') u q = find_inst (f_insts fs) u q).
        { rewrite HF. destruct (N.eqb_spec u t) as [->|N1]; simpl; auto.
          destruct (N.eqb_spec q p) as [->|N2]; simpl; auto. congruence. }
        destruct k; simpl; rewrite ?E; reflexivity.
Qed.

(* ------------------------------------------------------------------ unique link-property ids *)

Fixpoint lps_nodup (l : list (id * bool)) : Prop :=
  match l with
  | [] => True
  | e :: r => find_lp r (fst e) = None /\ lps_nodup r
  end.

Lemma remove_lp_notin l q : find_lp l q = None -> remove_lp l q = l.
Proof.
  unfold remove_lp. induction l as [|[a b] r IH]; simpl; auto.
  destruct (N.eqb q a) eqn:E; try discriminate.
  intro H. simpl. rewrite (IH H). reflexivity.
Qed.

Lemma lps_nodup_remove l q : lps_nodup l -> lps_nodup (remove_lp l q).
Proof.
  induction l as [|[a b] r IH]; simpl; auto.
  intros [H1 H2]. destruct (N.eqb q a) eqn:E; simpl; auto.
  split; auto. fold (remove_lp r q). rewrite find_lp_remove. rewrite H1.
  destruct (N.eqb a q); reflexivity.
Qed.

Lemma stored_remove_computed l q :
  lps_nodup l -> find_lp l q = Some true ->
  existsb (fun e : id * bool => negb (snd e)) (remove_lp l q) =
  existsb (fun e : id * bool => negb (snd e)) l.
Proof.
  induction l as [|[a b] r IH]; simpl; try discriminate.
  intros [H1 H2]. destruct (N.eqb q a) eqn:E.
  - intro H. inversion H. subst b. simpl. apply N.eqb_eq in E. subst a.
    rewrite (remove_lp_notin r q H1). reflexivity.
  - intro H. simpl. rewrite (IH H2 H). reflexivity.
Qed.

Definition fwf2 (fs : fschema) : Prop :=
  fwf fs /\ (forall i, In i (f_insts fs) -> lps_nodup (i_lps i)).

Lemma In_remove_inst l t p i : In i (remove_inst l t p) -> In i l.
Proof. unfold remove_inst. intro H. apply filter_In in H. tauto. Qed.

Lemma In_set_inst l i' i : In i (set_inst l i') -> i = i' \/ In i l.
Proof.
  unfold set_inst. simpl. intros [H|H]; auto. right. eapply In_remove_inst. exact H.
Qed.
