(* C09 — Compiler session state follows the transaction / savepoint semantics.
   Statements only; each is closed by [exact] of a lemma of Proofs.v and followed by
   Print Assumptions (audited by the check on every run).

   Vocabulary (Model.v): [impl_step fixF1 fixF2 s pg r] = one client request against the
   implementation (compiler connection state of dbstate.py, server bookkeeping of
   dbview / protocol, the worker's cached state), [pg] being the backend's state before the
   request; [spec_step] = PostgreSQL-style semantics; [run] executes both in lock step and
   returns the pairs of replies; [hist_ok] excludes RELEASE of a savepoint group sharing a
   name with a savepoint that stays alive below it (known finding C09-F3, see Refuted.v).
   fixF1 = fixF2 = true is the code as pinned.
   Vocabulary (Proofs.v): [reach sch ali seed s p] = (s, p) is reached from the initial
   states by lock-step steps whose requests satisfy [req_ok]; [run_end] = the states after
   a lock-step run; [log_sufficient s] = in a block the stored compiler state exists, the
   worker cache (if any) equals it, [sync_tx] to the server's txid succeeds (EInternal /
   EStale unreachable) and the stateless [_try_compile_rollback] branch of compile_in_tx
   is not taken. *)
From Coq Require Import List NArith Bool.
From Verif.C09 Require Import Model Proofs.
Import ListNotations.
Local Open Scope N_scope.

(* the implementation answers every request exactly as the specification does *)
Theorem C09_refines : forall sch ali seed rs,
  hist_ok (spec_init sch ali) rs = true ->
  Forall (fun pr => fst pr = snd pr)
         (run true true (srv_init sch ali seed) (spec_init sch ali) rs).
Proof. exact p_refines. Qed.
Print Assumptions C09_refines.

Theorem C09_agree : forall sch ali seed rs,
  hist_ok (spec_init sch ali) rs = true -> agree true true sch ali seed rs = true.
Proof. exact p_agree. Qed.
Print Assumptions C09_agree.

(* the savepoint log always suffices to sync to the txid the server sends *)
Theorem C09_log_sufficient : forall sch ali seed s p,
  reach sch ali seed s p -> s_in_tx s = true ->
  exists c c', s_state s = Some c /\ (s_wk s = None \/ s_wk s = Some c) /\
               sync_tx c (s_txid s) = inl c' /\
               (negb (N.eqb (tx_id (c_tx c)) (s_txid s)) && negb (can_sync c (s_txid s))) = false.
Proof. exact p_log_sufficient. Qed.
Print Assumptions C09_log_sufficient.

Theorem C09_log_sufficient_run : forall sch ali seed rs,
  hist_ok (spec_init sch ali) rs = true ->
  log_sufficient (fst (run_end (srv_init sch ali seed) (spec_init sch ali) rs)).
Proof. exact p_log_sufficient_run. Qed.
Print Assumptions C09_log_sufficient_run.

(* every state after a lock-step run of an admissible history is reachable *)
Theorem C09_reach_run : forall sch ali seed rs s p, reach sch ali seed s p ->
  hist_ok p rs = true ->
  reach sch ali seed (fst (run_end s p rs)) (snd (run_end s p rs)).
Proof. exact reach_run_end. Qed.
Print Assumptions C09_reach_run.

(* COMMIT / SAVEPOINT / RELEASE / ROLLBACK TO outside a block: rejected, nothing changes.
   (p_abort p = false always holds outside a block.) *)
Theorem C09_reject_outside_block : forall p st befail,
  p_block p = false -> p_abort p = false -> block_only st = true ->
  spec_stmt p st befail = (p, Rejected).
Proof. exact p_reject_outside_block. Qed.
Print Assumptions C09_reject_outside_block.

Theorem C09_reject_outside_block_impl : forall sch ali seed s p st befail reuse,
  reach sch ali seed s p -> s_in_tx s = false -> block_only st = true ->
  let s' := fst (impl_step true true s p (Req (BStmt st) befail reuse None)) in
  snd (impl_step true true s p (Req (BStmt st) befail reuse None)) = Rejected /\
  s_in_tx s' = false /\ s_err s' = false /\ s_sps s' = [] /\
  s_sch s' = s_sch s /\ s_ali s' = s_ali s.
Proof. exact p_reject_outside_block_impl. Qed.
Print Assumptions C09_reject_outside_block_impl.

(* ROLLBACK: back to the committed baseline, block left (also from an aborted block) *)
Theorem C09_rollback_restores : forall p befail,
  spec_stmt p SRollback befail =
  ({| p_block := false; p_abort := false; p_base := p_base p; p_now := p_base p;
      p_stack := [] |}, Accepted (0, 0)).
Proof. exact p_rollback_restores. Qed.
Print Assumptions C09_rollback_restores.

(* ROLLBACK TO n: the snapshot taken at the newest savepoint called n is restored, newer
   savepoints are discarded, n itself is kept, an aborted block becomes usable again *)
Theorem C09_rollback_to_restores : forall p n befail q rest,
  p_block p = true -> find_stk n (p_stack p) = Some (q, rest) ->
  spec_stmt p (SRollbackTo n) befail =
  ({| p_block := true; p_abort := false; p_base := p_base p; p_now := q;
      p_stack := (n, q) :: rest |}, Accepted (0, 0)) /\
  exists newer, p_stack p = newer ++ (n, q) :: rest /\ forall e, In e newer -> fst e <> n.
Proof. exact p_rollback_to_restores. Qed.
Print Assumptions C09_rollback_to_restores.

Theorem C09_rollback_to_missing : forall p n befail,
  p_block p = true -> find_stk n (p_stack p) = None ->
  spec_stmt p (SRollbackTo n) befail = (abort_if_block p, Rejected).
Proof. exact p_rollback_to_missing. Qed.
Print Assumptions C09_rollback_to_missing.

(* RELEASE n keeps the visible state; n and everything newer is forgotten *)
Theorem C09_release_keeps : forall p n befail q rest,
  p_block p = true -> p_abort p = false -> find_stk n (p_stack p) = Some (q, rest) ->
  spec_stmt p (SRelease n) befail =
  ({| p_block := true; p_abort := false; p_base := p_base p; p_now := p_now p;
      p_stack := rest |}, Accepted (p_now p)) /\
  exists newer, p_stack p = newer ++ (n, q) :: rest /\ forall e, In e newer -> fst e <> n.
Proof. exact p_release_keeps. Qed.
Print Assumptions C09_release_keeps.

(* COMMIT: the visible state becomes the baseline; a failed COMMIT rolls back *)
Theorem C09_commit_baseline : forall p,
  p_block p = true -> p_abort p = false ->
  spec_stmt p SCommit false =
  ({| p_block := false; p_abort := false; p_base := p_now p; p_now := p_now p;
      p_stack := [] |}, Accepted (p_now p)) /\
  spec_stmt p SCommit true =
  ({| p_block := false; p_abort := false; p_base := p_base p; p_now := p_base p;
      p_stack := [] |}, BackendError (p_now p)).
Proof. exact p_commit_baseline. Qed.
Print Assumptions C09_commit_baseline.

(* an aborted block accepts nothing but ROLLBACK / ROLLBACK TO *)
Theorem C09_aborted_rejects : forall p st befail,
  p_abort p = true -> is_rollbackish st = false ->
  spec_stmt p st befail = (abort_if_block p, Rejected).
Proof. exact p_aborted_rejects. Qed.
Print Assumptions C09_aborted_rejects.

(* non-vacuity: an admissible history exercising nested / released / re-declared
   savepoints, state reuse, client-supplied aliases, backend and compile errors,
   recovery by ROLLBACK TO, evaluated by the kernel *)
Definition ex_hist : list req :=
  [ Req (BStmt (SDeclare 1)) false false None;        (* outside a block: rejected *)
    Req (BStmt SStart) false false (Some 3);
    Req (BStmt (SDeclare 1)) false false None;
    Req (BStmt (SDdl 5)) false true None;
    Req (BStmt (SDeclare 2)) false false None;
    Req (BStmt (SSetAlias 7)) false true None;
    Req (BStmt (SDeclare 3)) false false None;
    Req (BStmt (SRelease 2)) false false None;         (* 3 and 2 become stale on the server *)
    Req (BStmt (SDeclare 2)) false true None;          (* re-uses a stale name *)
    Req (BStmt (SRollbackTo 2)) false true None;
    Req (BStmt SQuery) false true (Some 11);
    Req (BStmt (SDdl 6)) true false None;              (* backend error: block aborted *)
    Req (BStmt SQuery) false true None;                (* rejected *)
    Req (BBadScript [SRelease 1]) false true None;
    Req (BStmt (SRollbackTo 3)) false true None;       (* released: rejected *)
    Req (BStmt (SRollbackTo 1)) false true None;       (* recovers *)
    Req (BStmt SQuery) false true None;
    Req (BBadScript [SDeclare 9; SRelease 1]) false true None;   (* compile error aborts *)
    Req (BStmt (SRollbackTo 1)) false true None;
    Req (BStmt SCommit) false true None;
    Req (BStmt SCommit) false false None;              (* outside a block: rejected *)
    Req (BStmt SQuery) false false None ].

Example ex_hist_ok : hist_ok (spec_init 1 1) ex_hist = true.
Proof. vm_compute. reflexivity. Qed.

Example ex_hist_replies :
  map snd (run true true (srv_init 1 1 100) (spec_init 1 1) ex_hist) =
  [Rejected; Accepted (1, 3); Accepted (1, 3); Accepted (1, 3); Accepted (5, 3);
   Accepted (5, 3); Accepted (5, 7); Accepted (5, 7); Accepted (5, 7); Accepted (0, 0);
   Accepted (5, 11); BackendError (5, 11); Rejected; Rejected; Rejected; Accepted (0, 0);
   Accepted (1, 3); Rejected; Accepted (0, 0); Accepted (1, 3); Rejected; Accepted (1, 3)].
Proof. vm_compute. reflexivity. Qed.

Example ex_hist_agree : agree true true 1 1 100 ex_hist = true.
Proof. vm_compute. reflexivity. Qed.

(* the same history separates the pinned code from both unfixed variants *)
Example ex_hist_needs_F1 : agree false true 1 1 100 ex_hist = false.
Proof. vm_compute. reflexivity. Qed.
Example ex_hist_needs_F2 : agree true false 1 1 100 ex_hist = false.
Proof. vm_compute. reflexivity. Qed.

(* the hypotheses of the one-step facts are met by a reachable specification state *)
Example ex_in_block :
  let p := snd (run_end (srv_init 1 1 100) (spec_init 1 1) (firstn 9 ex_hist)) in
  p_block p = true /\ p_abort p = false /\
  find_stk 1 (p_stack p) = Some ((1, 3), []) /\
  log_sufficient (fst (run_end (srv_init 1 1 100) (spec_init 1 1) (firstn 9 ex_hist))).
Proof.
  split; [vm_compute; reflexivity|]. split; [vm_compute; reflexivity|].
  split; [vm_compute; reflexivity|].
  apply p_log_sufficient_run. vm_compute. reflexivity.
Qed.
