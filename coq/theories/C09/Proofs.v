(* C09 — proofs.  The implementation (compiler state + server bookkeeping + worker
   cache, with both fixes) refines the PostgreSQL-style specification on every history
   accepted by [hist_ok]. *)
From Coq Require Import List NArith Bool Lia.
From Verif.C09 Require Import Model.
Import ListNotations.
Local Open Scope N_scope.

Arguments impl_step : simpl never.
Arguments compile_in_tx : simpl never.
Arguments comp_stmt : simpl never.
Arguments comp_prefix : simpl never.

(* ------------------------------------------------------------------ *)
(* impl_step split in its two phases (definitionally equal copies)     *)

Definition client (s0 : srv) (cali : option N) : srv :=
  match cali with None => s0 | Some v => srv_set_ali s0 v end.

Definition phase1 (fixF1 fixF2 : bool) (s : srv) (b : body) (reuse : bool)
  : srv * (unit_ + cerr) :=
    if s_in_tx s then
      match s_state s with
      | None => (s, inr EInternal)
      | Some pickled =>
          let reused := match s_wk s with Some _ => reuse | None => false end in
          let cst := match s_wk s with Some w => if reuse then w else pickled | None => pickled end in
          let '(c', res) := compile_in_tx fixF2 cst (s_txid s) (srv_ali s) (s_err s) b in
          match res with
          | inl u => (with_states s (Some c') (Some c') (s_seed s), res)
          | inr _ =>
              (with_states s (s_state s)
                 (if reused then (if fixF1 then None else Some c') else s_wk s) (s_seed s), res)
          end
      end
    else
      let c0 := new_comp (s_seed s) (s_sch s, s_ali s) in
      let '(c', res) := comp_body false c0 b in
      let seed' := (s_seed s + 1000)%N in
      match res with
      | inl u =>
          match u_txid u with
          | Some _ => (with_states s (Some c') (Some c') seed', res)
          | None => (with_states s (s_state s) (s_wk s) seed', res)
          end
      | inr _ => (with_states s (s_state s) (s_wk s) seed', res)
      end.

Definition phase2 (pg : spec) (befail : bool) (s1 : srv) (res : unit_ + cerr) : srv * reply :=
  match res with
  | inr _ => (srv_set_err s1, Rejected)
  | inl u =>
    let st := u_stmt u in
    if s_err s1 then
      if negb (is_rollbackish st) then (s1, Rejected)
      else if negb (backend_ok pg st befail) then (s1, Rejected)
      else match st with
           | SRollbackTo n =>
               match srv_rollback_to s1 n with
               | Some s2 => (s2, Accepted (norm_seen st (u_seen u)))
               | None => (s1, Rejected)
               end
           | _ => (srv_reset s1, Accepted (norm_seen st (u_seen u)))
           end
    else
      let s2 := match u_txid u with
                | Some i =>
                    {| s_in_tx := true; s_txid := i; s_err := false; s_sps := s_sps s1;
                       s_ali := s_ali s1; s_tx_ali := s_ali s1; s_sch := s_sch s1;
                       s_state := s_state s1; s_wk := s_wk s1; s_seed := s_seed s1 |}
                | None => s1
                end in
      if negb (backend_ok pg st befail) then
        match st with
        | SCommit => (srv_reset s2, BackendError (norm_seen st (u_seen u)))
        | SRelease _ | SRollbackTo _ => (srv_set_err s2, Rejected)
        | _ => (srv_set_err s2, BackendError (norm_seen st (u_seen u)))
        end
      else
        let s3 := match st with
                  | SRollbackTo n => match srv_rollback_to s2 n with Some x => x | None => srv_set_err s2 end
                  | SDeclare n =>
                      match u_spid u with
                      | Some i =>
                          {| s_in_tx := s_in_tx s2; s_txid := s_txid s2; s_err := s_err s2;
                             s_sps := (n, i, srv_ali s2) :: s_sps s2;
                             s_ali := s_ali s2; s_tx_ali := s_tx_ali s2; s_sch := s_sch s2;
                             s_state := s_state s2; s_wk := s_wk s2; s_seed := s_seed s2 |}
                      | None => s2
                      end
                  | _ => s2
                  end in
        let s4 := match u_ali u with Some v => srv_set_ali s3 v | None => s3 end in
        let s5 :=
          match st with
          | SCommit =>
              srv_reset {| s_in_tx := s_in_tx s4; s_txid := s_txid s4; s_err := s_err s4;
                           s_sps := s_sps s4; s_ali := s_tx_ali s4; s_tx_ali := s_tx_ali s4;
                           s_sch := match u_sch u with Some v => v | None => s_sch s4 end;
                           s_state := s_state s4; s_wk := s_wk s4; s_seed := s_seed s4 |}
          | SRollback => srv_reset s4
          | SDdl v =>
              if s_in_tx s4 then s4 else
              {| s_in_tx := false; s_txid := s_txid s4; s_err := s_err s4; s_sps := s_sps s4;
                 s_ali := s_ali s4; s_tx_ali := s_tx_ali s4; s_sch := v;
                 s_state := s_state s4; s_wk := s_wk s4; s_seed := s_seed s4 |}
          | _ => s4
          end in
        (s5, Accepted (norm_seen st (u_seen u)))
  end.

Lemma impl_step_eq : forall f1 f2 s0 pg b befail reuse cali,
  impl_step f1 f2 s0 pg (Req b befail reuse cali) =
  let '(s1, res) := phase1 f1 f2 (client s0 cali) b reuse in phase2 pg befail s1 res.
Proof. reflexivity. Qed.

Lemma spec_step_eq : forall p b befail reuse cali,
  spec_step p (Req b befail reuse cali) =
  spec_step (spec_client p cali) (Req b befail reuse None).
Proof. reflexivity. Qed.

(* ------------------------------------------------------------------ *)
(* the view of a compiler state                                        *)

(* live savepoints, newest first *)
Definition live (c : comp) : list tstate := rev (tx_sps (c_tx c)).

Definition R (sp : tstate) (e : name * pay) : Prop :=
  ts_name sp = Some (fst e) /\ ts_pay sp = snd e.

(* ids strictly decreasing (newest first) and below b *)
Fixpoint dec (b : N) (L : list tstate) : Prop :=
  match L with
  | [] => True
  | sp :: L' => ts_id sp < b /\ dec (ts_id sp) L'
  end.

Lemma dec_mono : forall L b b', dec b L -> b <= b' -> dec b' L.
Proof. destruct L; simpl; intros; auto. destruct H. split; auto. lia. Qed.

Lemma dec_lt : forall L b sp, dec b L -> In sp L -> ts_id sp < b.
Proof.
  induction L; simpl; intros b sp H Hin; [contradiction|].
  destruct H as [H1 H2]. destruct Hin as [->|Hin]; auto.
  specialize (IHL _ _ H2 Hin). lia.
Qed.

Lemma dec_tail : forall L b sp, dec b (sp :: L) -> dec b L.
Proof. simpl; intros L b sp [H1 H2]. eapply dec_mono; eauto. lia. Qed.

Lemma filter_id : forall (A : Type) (f : A -> bool) l,
  (forall x, In x l -> f x = true) -> filter f l = l.
Proof.
  induction l; simpl; intros H; auto.
  rewrite (H a) by auto. f_equal. apply IHl. auto.
Qed.

Lemma log_find_filter : forall i j l, i <= j ->
  log_find i (filter (fun e : tstate * N => N.leb (ts_id (fst e)) j) l) = log_find i l.
Proof.
  induction l as [|[sp o] l IH]; simpl; intros Hij; auto.
  destruct (N.leb_spec (ts_id sp) j); simpl.
  - destruct (N.eqb (ts_id sp) i); auto.
  - destruct (N.eqb_spec (ts_id sp) i); [lia|auto].
Qed.

Lemma log_find_app_some : forall i l l' e, log_find i l = Some e -> log_find i (l ++ l') = Some e.
Proof.
  induction l as [|[sp o] l IH]; simpl; intros l' e H; [discriminate|].
  destruct (N.eqb (ts_id sp) i); auto.
Qed.

Lemma log_find_app_none : forall i l l', (forall e, In e l -> ts_id (fst e) <> i) ->
  log_find i (l ++ l') = log_find i l'.
Proof.
  induction l as [|[sp o] l IH]; simpl; intros l' H; auto.
  destruct (N.eqb_spec (ts_id sp) i).
  - exfalso. apply (H (sp, o)); auto.
  - apply IH. auto.
Qed.

Record CI (c : comp) (base : pay) (stk : list (name * pay)) : Prop := mkCI {
  ci_impl : tx_implicit (c_tx c) = false;
  ci_st0 : ts_pay (tx_st0 (c_tx c)) = base;
  ci_rel : Forall2 R (live c) stk;
  ci_dec : dec (c_count c + 1) (live c);
  ci_inlog : forall sp, In sp (live c) ->
             log_find (ts_id sp) (c_log c) = Some (sp, tx_serial (c_tx c));
  ci_logbd : forall e, In e (c_log c) -> ts_id (fst e) <= c_count c }.

(* the txid the server will send next can be synced to *)
Definition pend (c : comp) (txid : N) : Prop :=
  txid = tx_id (c_tx c) \/
  exists older, live c = tx_cur (c_tx c) :: older /\ txid = ts_id (tx_cur (c_tx c)).

Lemma sync_ok : forall c base stk txid, CI c base stk -> pend c txid ->
  exists c2, sync_tx c txid = inl c2 /\ CI c2 base stk /\ tx_id (c_tx c2) = txid /\
             tx_cur (c_tx c2) = tx_cur (c_tx c) /\ live c2 = live c /\
             (negb (N.eqb (tx_id (c_tx c)) txid) && negb (can_sync c txid)) = false.
Proof.
  intros c base stk txid HC HP. unfold sync_tx, can_sync.
  destruct (N.eqb_spec (tx_id (c_tx c)) txid) as [E|NE].
  - exists c. repeat split; auto; apply HC.
  - destruct HP as [E|[older [HL E]]]; [congruence|].
    destruct HC as [H1 H2 H3 H4 H5 H6].
    assert (Hin : In (tx_cur (c_tx c)) (live c)) by (rewrite HL; left; auto).
    pose proof (H5 _ Hin) as Hlog. rewrite <- E in Hlog.
    rewrite Hlog. unfold sync_to_sp. rewrite Hlog. rewrite N.eqb_refl. cbn [negb].
    assert (Hle : forall x, In x (live c) -> ts_id x <= txid).
    { intros x Hx. rewrite HL in Hx. destruct Hx as [<-|Hx]; [lia|].
      pose proof H4 as Hd. rewrite HL in Hd. destruct Hd as [_ Hd].
      pose proof (dec_lt _ _ _ Hd Hx). lia. }
    assert (Hf : filter (fun s => N.leb (ts_id s) txid) (tx_sps (c_tx c)) = tx_sps (c_tx c)).
    { apply filter_id. intros x Hx. apply N.leb_le. apply Hle. unfold live.
      rewrite <- in_rev. auto. }
    eexists. split; [reflexivity|]. rewrite Hf.
    split; [|repeat split; auto].
    constructor; unfold live; cbn [c_tx c_count c_log tx_implicit tx_st0 tx_serial tx_sps]; auto.
    + intros sp Hsp. rewrite log_find_filter by (apply Hle; auto). apply H5; auto.
    + intros e He. apply filter_In in He. destruct He as [He _]. apply H6; auto.
Qed.

(* ------------------------------------------------------------------ *)
(* payload updates, echo                                               *)

Lemma CI_set_cur : forall c base stk p, CI c base stk -> CI (set_cur_pay c p) base stk.
Proof.
  intros c base stk p [H1 H2 H3 H4 H5 H6].
  constructor; [exact H1|exact H2|exact H3|exact H4|exact H5|exact H6].
Qed.

Lemma CI_echo : forall c base stk a, CI c base stk -> CI (echo c a) base stk.
Proof.
  intros. unfold echo. destruct (N.eqb _ _); auto. apply CI_set_cur; auto.
Qed.

Lemma echo_live : forall c a, live (echo c a) = live c.
Proof. intros. unfold echo. destruct (N.eqb _ _); reflexivity. Qed.

Lemma echo_txid : forall c a, tx_id (c_tx (echo c a)) = tx_id (c_tx c).
Proof. intros. unfold echo. destruct (N.eqb _ _); reflexivity. Qed.

Lemma echo_cur : forall c a, cur_pay (echo c a) = (fst (cur_pay c), a).
Proof.
  intros. unfold echo. destruct (N.eqb_spec (snd (cur_pay c)) a); [|reflexivity].
  subst a. destruct (cur_pay c); reflexivity.
Qed.

Lemma compile_ok : forall c base stk txid a erb b, CI c base stk -> pend c txid ->
  exists c3, compile_in_tx true c txid a erb b = comp_body erb c3 b /\
             CI c3 base stk /\ tx_id (c_tx c3) = txid /\ live c3 = live c /\
             cur_pay c3 = (fst (cur_pay c), a).
Proof.
  intros c base stk txid a erb b HC HP.
  destruct (sync_ok _ _ _ _ HC HP) as (c2 & Hs & HC2 & Hid & Hcur & Hl & Hg).
  exists (echo c2 a). unfold compile_in_tx.
  rewrite <- andb_assoc, Hg, andb_false_r. rewrite Hs.
  split; [reflexivity|]. split; [apply CI_echo; auto|].
  rewrite echo_txid, echo_live, echo_cur. repeat split; auto.
  unfold cur_pay. rewrite Hcur. reflexivity.
Qed.

(* ------------------------------------------------------------------ *)
(* savepoint lookup: compiler list vs. specification stack             *)

Lemma find_rel : forall n L stk, Forall2 R L stk ->
  match find_stk n stk with
  | None => find_sp n L = None
  | Some (p, rest) =>
      exists sp older, find_sp n L = Some (sp, older) /\ ts_name sp = Some n /\
                       ts_pay sp = p /\ Forall2 R older rest
  end.
Proof.
  induction 1 as [|sp0 [m q] L stk [Hn Hp] HF IH]; simpl; auto.
  unfold name_is. rewrite Hn. simpl in *.
  destruct (N.eqb_spec m n).
  - subst. exists sp0, L. auto.
  - exact IH.
Qed.

Lemma find_sp_in : forall n L sp older, find_sp n L = Some (sp, older) ->
  forall x, In x (sp :: older) -> In x L.
Proof.
  induction L as [|a L IH]; simpl; intros sp older H x Hx; [discriminate|].
  destruct (name_is n a).
  - inversion H; subst. exact Hx.
  - right. eapply IH; eauto.
Qed.

Lemma find_sp_dec : forall n L sp older b, find_sp n L = Some (sp, older) ->
  dec b L -> dec b (sp :: older).
Proof.
  induction L as [|a L IH]; simpl; intros sp older b H Hd; [discriminate|].
  destruct (name_is n a).
  - inversion H; subst. exact Hd.
  - apply IH; auto. apply (dec_tail _ _ a). exact Hd.
Qed.

Lemma F2_in : forall L stk y, Forall2 R L stk -> In y L -> exists e, In e stk /\ R y e.
Proof.
  induction 1 as [|x e L stk HR HF IH]; simpl; intros Hin; [contradiction|].
  destruct Hin as [<-|Hin].
  - exists e; auto.
  - destruct (IH Hin) as (e' & He & HR'). exists e'; auto.
Qed.

Lemma name_notin : forall m older rest y,
  negb (existsb (N.eqb m) (map fst rest)) = true -> Forall2 R older rest -> In y older ->
  ts_name y <> Some m.
Proof.
  intros m older rest y Hneg HF Hy Heq.
  destruct (F2_in _ _ _ HF Hy) as (e & He & [Hn _]).
  apply negb_true_iff in Hneg.
  assert (existsb (N.eqb m) (map fst rest) = true); [|congruence].
  apply existsb_exists. exists (fst e). split.
  - apply in_map; auto.
  - rewrite Hn in Heq. inversion Heq. apply N.eqb_refl.
Qed.

Lemma release_names : forall n L stk, Forall2 R L stk -> forall sp older g rest,
  find_sp n L = Some (sp, older) -> split_stk n stk = Some (g, rest) ->
  forallb (fun e => negb (existsb (N.eqb (fst e)) (map fst rest))) g = true ->
  exists pre, L = pre ++ sp :: older /\ Forall2 R older rest /\
    (forall x y, In x (pre ++ [sp]) -> In y older -> ts_name x <> ts_name y).
Proof.
  induction 1 as [|sp0 [m q] L stk [Hn Hp] HF IH]; simpl; intros sp older g rest Hf Hs Hall;
    [discriminate|].
  unfold name_is in Hf. rewrite Hn in Hf. simpl in *.
  destruct (N.eqb_spec m n).
  - inversion Hf; inversion Hs; subst. exists []. simpl. split; auto. split; auto.
    simpl in Hall. rewrite andb_true_r in Hall.
    intros x y [<-|[]] Hy Heq. rewrite Hn in Heq.
    eapply name_notin; eauto.
  - destruct (split_stk n stk) as [[g' r']|] eqn:Es; [|discriminate].
    inversion Hs; subst. simpl in Hall. apply andb_true_iff in Hall. destruct Hall as [Hm Hall].
    destruct (IH _ _ _ _ Hf eq_refl Hall) as (pre & -> & HF' & Hd).
    exists (sp0 :: pre). split; auto. split; auto.
    intros x y [<-|Hx] Hy; auto.
    rewrite Hn. intro Heq. eapply name_notin; eauto.
Qed.

(* ------------------------------------------------------------------ *)
(* the server's savepoint stack: live entries interleaved with stale ones *)

Inductive Stk : list (name * N * N) -> list tstate -> Prop :=
| Stk_nil : Stk [] []
| Stk_live : forall sp n S L, ts_name sp = Some n -> Stk S L ->
    Stk ((n, ts_id sp, snd (ts_pay sp)) :: S) (sp :: L)
| Stk_stale : forall m i a S L, Stk S L ->
    (forall sp, In sp L -> ts_name sp <> Some m) ->
    Stk ((m, i, a) :: S) L.

Lemma Stk_drop : forall S L0, Stk S L0 -> forall Lg Lrest, L0 = Lg ++ Lrest ->
  (forall x y, In x Lg -> In y Lrest -> ts_name x <> ts_name y) -> Stk S Lrest.
Proof.
  induction 1 as [|sp n S L Hn HS IH|m i a S L HS IH Hside]; intros Lg Lrest E Hd.
  - symmetry in E. apply app_eq_nil in E. destruct E; subst. constructor.
  - destruct Lg as [|x Lg]; simpl in E.
    + subst Lrest. constructor; auto.
    + inversion E; subst. apply Stk_stale.
      * apply (IH Lg Lrest eq_refl). intros; apply Hd; simpl; auto.
      * intros y Hy Heq. apply (Hd x y); simpl; auto. congruence.
  - apply Stk_stale.
    + apply (IH Lg Lrest E Hd).
    + intros y Hy. apply Hside. subst L. apply in_or_app; auto.
Qed.

Lemma Stk_pop : forall n S L, Stk S L -> forall sp older,
  find_sp n L = Some (sp, older) ->
  exists rest, pop_to n S = Some ((n, ts_id sp, snd (ts_pay sp)) :: rest) /\
               Stk ((n, ts_id sp, snd (ts_pay sp)) :: rest) (sp :: older).
Proof.
  induction 1 as [|sp0 n0 S L Hn HS IH|m i a S L HS IH Hside]; intros sp older Hf.
  - discriminate.
  - simpl in Hf. unfold name_is in Hf. rewrite Hn in Hf. simpl.
    destruct (N.eqb_spec n0 n).
    + inversion Hf; subst. exists S. split; auto. constructor; auto.
    + apply IH; auto.
  - simpl. destruct (N.eqb_spec m n).
    + exfalso. subst m. apply (Hside sp).
      * eapply find_sp_in; eauto. left; auto.
      * clear - Hf. induction L as [|a L IH]; simpl in Hf; [discriminate|].
        destruct (name_is n a) eqn:E.
        -- inversion Hf; subst. unfold name_is in E. destruct (ts_name sp); [|discriminate].
           apply N.eqb_eq in E. congruence.
        -- auto.
    + apply IH; auto.
Qed.

(* ------------------------------------------------------------------ *)
(* comp_stmt, statement by statement                                   *)

Lemma cs_reject_rb : forall c st, is_tx_stmt st = true -> is_rollbackish st = false ->
  comp_stmt true c st = (c, inr ETx).
Proof. intros c st H1 H2. unfold comp_stmt. rewrite H1, H2. reflexivity. Qed.

Lemma cs_start_in : forall c, tx_implicit (c_tx c) = false ->
  comp_stmt false c SStart = (c, inr ETx).
Proof. intros c H. unfold comp_stmt, start_tx. cbn [andb]. rewrite H. reflexivity. Qed.

Lemma cs_commit : forall c, tx_implicit (c_tx c) = false ->
  comp_stmt false c SCommit =
  (init_tx c (cur_pay c),
   inl {| u_stmt := SCommit; u_txid := None; u_spid := None;
          u_ali := Some (snd (cur_pay c));
          u_sch := if N.eqb (fst (cur_pay c)) (fst (ts_pay (tx_st0 (c_tx c)))) then None
                   else Some (fst (cur_pay c));
          u_seen := cur_pay c |}).
Proof. intros c H. unfold comp_stmt, commit_tx. cbn [andb]. rewrite H. reflexivity. Qed.

Lemma cs_rollback : forall erb c,
  comp_stmt erb c SRollback =
  (rollback_tx c,
   inl {| u_stmt := SRollback; u_txid := None; u_spid := None;
          u_ali := Some (snd (ts_pay (tx_st0 (c_tx c)))); u_sch := None; u_seen := cur_pay c |}).
Proof. destruct erb; reflexivity. Qed.

Lemma cs_setalias : forall erb c v,
  comp_stmt erb c (SSetAlias v) =
  (set_cur_pay c (set_ali (cur_pay c) v),
   inl {| u_stmt := SSetAlias v; u_txid := None; u_spid := None; u_ali := Some v;
          u_sch := None; u_seen := cur_pay c |}).
Proof. destruct erb; reflexivity. Qed.

Lemma cs_ddl : forall erb c v,
  comp_stmt erb c (SDdl v) =
  (set_cur_pay c (set_sch (cur_pay c) v),
   inl {| u_stmt := SDdl v; u_txid := None; u_spid := None; u_ali := None;
          u_sch := Some v; u_seen := cur_pay c |}).
Proof. destruct erb; reflexivity. Qed.

Lemma cs_query : forall erb c,
  comp_stmt erb c SQuery =
  (c, inl {| u_stmt := SQuery; u_txid := None; u_spid := None; u_ali := None;
             u_sch := None; u_seen := cur_pay c |}).
Proof. destruct erb; reflexivity. Qed.

Lemma cs_declare : forall c base stk n, CI c base stk ->
  exists c' sp,
    comp_stmt false c (SDeclare n) =
    (c', inl {| u_stmt := SDeclare n; u_txid := None; u_spid := Some (ts_id sp);
                u_ali := None; u_sch := None; u_seen := cur_pay c |}) /\
    CI c' base ((n, cur_pay c) :: stk) /\ live c' = sp :: live c /\
    ts_name sp = Some n /\ ts_pay sp = cur_pay c /\
    tx_id (c_tx c') = tx_id (c_tx c) /\ cur_pay c' = cur_pay c.
Proof.
  intros c base stk n [H1 H2 H3 H4 H5 H6].
  unfold comp_stmt, declare_sp. cbn [andb]. rewrite H1.
  eexists. exists {| ts_id := c_count c + 1; ts_name := Some n; ts_pay := ts_pay (tx_cur (c_tx c)) |}.
  split; [reflexivity|].
  assert (HL : forall t s0 i l, live {| c_count := i; c_tx :=
            {| tx_serial := tx_serial t; tx_id := tx_id t; tx_implicit := false;
               tx_cur := tx_cur t; tx_st0 := tx_st0 t; tx_sps := tx_sps t ++ [s0] |};
            c_log := l |} = s0 :: rev (tx_sps t)).
  { intros. unfold live. cbn [c_tx tx_sps]. apply rev_unit. }
  split; [|repeat split; try reflexivity; apply HL].
  constructor; rewrite ?HL; cbn [c_tx c_count c_log tx_implicit tx_st0 tx_serial ts_id]; auto.
  - constructor; auto. split; reflexivity.
  - simpl. split; [lia|exact H4].
  - intros sp [<-|Hsp].
    + cbn [ts_id]. rewrite log_find_app_none.
      * simpl. rewrite N.eqb_refl. reflexivity.
      * intros e He. specialize (H6 e He). lia.
    + apply log_find_app_some. apply H5. exact Hsp.
  - intros e He. apply in_app_or in He. destruct He as [He|[<-|[]]].
    + specialize (H6 e He). lia.
    + simpl. lia.
Qed.

Lemma cs_release : forall c base stk n, CI c base stk ->
  match find_stk n stk with
  | None => comp_stmt false c (SRelease n) = (c, inr ETx)
  | Some (p, rest) =>
      exists c' sp older, find_sp n (live c) = Some (sp, older) /\
        comp_stmt false c (SRelease n) =
        (c', inl {| u_stmt := SRelease n; u_txid := None; u_spid := None; u_ali := None;
                    u_sch := None; u_seen := cur_pay c |}) /\
        CI c' base rest /\ live c' = older /\
        tx_id (c_tx c') = tx_id (c_tx c) /\ cur_pay c' = cur_pay c
  end.
Proof.
  intros c base stk n [H1 H2 H3 H4 H5 H6].
  pose proof (find_rel n _ _ H3) as Hf.
  unfold comp_stmt, release_sp. cbn [andb]. rewrite H1. fold (live c).
  destruct (find_stk n stk) as [[p rest]|].
  - destruct Hf as (sp & older & Hf & Hn & Hp & HF). rewrite Hf.
    eexists. exists sp, older. split; [reflexivity|]. split; [reflexivity|].
    assert (HL : forall t cn l, live {| c_count := cn; c_tx :=
            {| tx_serial := tx_serial t; tx_id := tx_id t; tx_implicit := false;
               tx_cur := tx_cur t; tx_st0 := tx_st0 t; tx_sps := rev older |};
            c_log := l |} = older).
    { intros. unfold live. cbn [c_tx tx_sps]. apply rev_involutive. }
    unfold upd_tx. split; [|repeat split; try reflexivity; apply HL].
    pose proof (find_sp_dec _ _ _ _ _ Hf H4) as Hd. apply dec_tail in Hd.
    constructor; rewrite ?HL; cbn [c_tx c_count c_log tx_implicit tx_st0 tx_serial]; auto.
    intros x Hx. apply H5. eapply find_sp_in; eauto. right; auto.
  - rewrite Hf. reflexivity.
Qed.

Lemma cs_rollback_to : forall erb c base stk n, CI c base stk ->
  match find_stk n stk with
  | None => comp_stmt erb c (SRollbackTo n) = (c, inr ETx)
  | Some (p, rest) =>
      exists c' sp older, find_sp n (live c) = Some (sp, older) /\
        comp_stmt erb c (SRollbackTo n) =
        (c', inl {| u_stmt := SRollbackTo n; u_txid := None; u_spid := None;
                    u_ali := Some (snd p); u_sch := None; u_seen := cur_pay c |}) /\
        CI c' base ((n, p) :: rest) /\ live c' = sp :: older /\
        tx_cur (c_tx c') = sp /\ ts_pay sp = p /\ ts_name sp = Some n
  end.
Proof.
  intros erb c base stk n [H1 H2 H3 H4 H5 H6].
  pose proof (find_rel n _ _ H3) as Hf.
  assert (E : comp_stmt erb c (SRollbackTo n) = comp_stmt false c (SRollbackTo n))
    by (destruct erb; reflexivity).
  rewrite E. clear E.
  unfold comp_stmt, rollback_to_sp. cbn [andb]. rewrite H1. fold (live c).
  destruct (find_stk n stk) as [[p rest]|].
  - destruct Hf as (sp & older & Hf & Hn & Hp & HF). rewrite Hf.
    eexists. exists sp, older. split; [reflexivity|]. subst p. split; [reflexivity|].
    assert (HL : forall t cn l, live {| c_count := cn; c_tx :=
            {| tx_serial := tx_serial t; tx_id := tx_id t; tx_implicit := false;
               tx_cur := sp; tx_st0 := tx_st0 t; tx_sps := rev (sp :: older) |};
            c_log := l |} = sp :: older).
    { intros. unfold live. cbn [c_tx tx_sps]. apply rev_involutive. }
    unfold upd_tx. split; [|repeat split; try reflexivity; auto; apply HL].
    pose proof (find_sp_dec _ _ _ _ _ Hf H4) as Hd.
    constructor; rewrite ?HL; cbn [c_tx c_count c_log tx_implicit tx_st0 tx_serial]; auto.
    + constructor; auto. split; auto.
    + intros x Hx. apply H5. eapply find_sp_in; eauto.
  - rewrite Hf. reflexivity.
Qed.

(* ------------------------------------------------------------------ *)
(* the invariant                                                       *)

Definition InvA (s : srv) (p : spec) : Prop :=
  s_in_tx s = false /\ s_err s = false /\ s_sps s = [] /\
  p_block p = false /\ p_abort p = false /\ p_stack p = [] /\
  p_now p = (s_sch s, s_ali s) /\ p_base p = (s_sch s, s_ali s).

Record InvB (s : srv) (p : spec) (c : comp) : Prop := mkInvB {
  b_in : s_in_tx s = true;
  b_blk : p_block p = true;
  b_err : s_err s = p_abort p;
  b_base : p_base p = (s_sch s, s_ali s);
  b_ali : s_tx_ali s = snd (p_now p);
  b_state : s_state s = Some c;
  b_wk : s_wk s = None \/ s_wk s = Some c;
  b_ci : CI c (p_base p) (p_stack p);
  b_cur : p_abort p = false -> fst (cur_pay c) = fst (p_now p);
  b_stk : Stk (s_sps s) (live c);
  b_pend : pend c (s_txid s) }.

Inductive Inv (s : srv) (p : spec) : Prop :=
| Inv_out : InvA s p -> Inv s p
| Inv_in : forall c, InvB s p c -> Inv s p.

Lemma Inv_init : forall sch ali seed, Inv (srv_init sch ali seed) (spec_init sch ali).
Proof. intros. apply Inv_out. unfold InvA. simpl. repeat split. Qed.

Lemma Inv_client : forall s p cali, Inv s p -> Inv (client s cali) (spec_client p cali).
Proof.
  intros s p [v|] H; [|exact H]. simpl.
  destruct s as [intx txid err sps ali tali sch state wk seed].
  destruct p as [blk abt base now stk]. destruct H as [H|c H].
  - unfold InvA in *. simpl in *. destruct H as (-> & -> & -> & -> & -> & -> & E1 & E2).
    apply Inv_out. unfold InvA, srv_set_ali, spec_set, set_ali. simpl.
    inversion E1; subst. repeat split.
  - destruct H as [H1 H2 H3 H4 H5 H6 H7 H8 H9 H10 H11]. simpl in *. subst.
    apply Inv_in with c. unfold srv_set_ali, spec_set, set_ali.
    constructor; simpl; auto.
Qed.

Definition step_ok (s : srv) (pg p : spec) (r : req) : Prop :=
  snd (impl_step true true s pg r) = snd (spec_step p r) /\
  Inv (fst (impl_step true true s pg r)) (fst (spec_step p r)).

Lemma step_out : forall s p pg b befail reuse, InvA s p -> p_stack pg = p_stack p ->
  step_ok s pg p (Req b befail reuse None).
Proof.
  intros s p pg b befail reuse H Hpg. unfold step_ok. rewrite impl_step_eq.
  destruct s as [intx txid err sps ali tali sch state wk seed].
  destruct p as [blk abt base now stk]. destruct pg as [gblk gabt gbase gnow gstk].
  unfold InvA in H. simpl in *.
  destruct H as (-> & -> & -> & -> & -> & -> & E1 & E2). subst.
  unfold client, phase1. cbn [s_in_tx s_seed s_sch s_ali].
  destruct b as [st|pre].
  - destruct st; destruct befail; unfold comp_body, comp_stmt; cbn;
      (split; [reflexivity|]);
      try (apply Inv_out; unfold InvA; simpl; repeat split; fail).
    + eapply Inv_in. constructor; simpl; try reflexivity; auto.
      * constructor; simpl; auto; try reflexivity; try constructor; try contradiction.
      * constructor.
      * left; reflexivity.
    + eapply Inv_in. constructor; simpl; try reflexivity; auto.
      * constructor; simpl; auto; try reflexivity; try constructor; try contradiction.
      * constructor.
      * left; reflexivity.
  - unfold comp_body. cbn. split; [reflexivity|].
    apply Inv_out; unfold InvA; simpl; repeat split.
Qed.

Lemma phase1_in : forall s p c b reuse, InvB s p c ->
  exists c3 wk', (wk' = None \/ wk' = Some c) /\ CI c3 (p_base p) (p_stack p) /\
    tx_id (c_tx c3) = s_txid s /\ live c3 = live c /\
    cur_pay c3 = (fst (cur_pay c), snd (p_now p)) /\
    phase1 true true s b reuse =
      match comp_body (s_err s) c3 b with
      | (c', inl u) => (with_states s (Some c') (Some c') (s_seed s), inl u)
      | (c', inr e) => (with_states s (Some c) wk' (s_seed s), inr e)
      end.
Proof.
  intros s p c b reuse [H1 H2 H3 H4 H5 H6 H7 H8 H9 H10 H11].
  destruct (compile_ok c _ _ (s_txid s) (s_tx_ali s) (s_err s) b H8 H11)
    as (c3 & Hc & HC3 & Hid & Hl & Hcur).
  rewrite H5 in Hcur.
  assert (Hcst : match s_wk s with Some w => if reuse then w else c | None => c end = c).
  { destruct H7 as [-> | ->]; auto. destruct reuse; auto. }
  exists c3.
  exists (if match s_wk s with Some _ => reuse | None => false end then None else s_wk s).
  split; [|split; [exact HC3|split; [exact Hid|split; [exact Hl|split; [exact Hcur|]]]]].
  - destruct H7 as [E|E]; rewrite E; auto. destruct reuse; auto.
  - unfold phase1. rewrite H1, H6. cbv zeta. rewrite Hcst.
    unfold srv_ali. rewrite H1. rewrite Hc.
    destruct (comp_body (s_err s) c3 b) as [c' [u|e]]; reflexivity.
Qed.

Lemma find_split : forall n stk q rest, find_stk n stk = Some (q, rest) ->
  exists g, split_stk n stk = Some (g, rest).
Proof.
  induction stk as [|[m p] stk IH]; simpl; intros q rest H; [discriminate|].
  destruct (N.eqb m n).
  - inversion H; subst. eexists; reflexivity.
  - destruct (IH _ _ H) as (g & ->). eexists; reflexivity.
Qed.

Ltac err_case c :=
  split; [reflexivity|]; apply Inv_in with c; constructor; simpl; auto;
  try (intros; discriminate).

Lemma step_in : forall s p c pg b befail reuse, InvB s p c -> p_stack pg = p_stack p ->
  req_ok p (Req b befail reuse None) = true ->
  step_ok s pg p (Req b befail reuse None).
Proof.
  intros s p c pg b befail reuse HI Hpg Hok.
  destruct (phase1_in s p c b reuse HI) as (c3 & wk' & Hwk & HC3 & Hid & Hl & Hcur & Hph).
  unfold step_ok. rewrite impl_step_eq. unfold client. rewrite Hph. clear Hph.
  destruct s as [intx txid err sps ali tali sch state wk seed].
  destruct p as [blk abt base now stk]. destruct pg as [gblk gabt gbase gnow gstk].
  destruct HI as [H1 H2 H3 H4 H5 H6 H7 H8 H9 H10 H11]. simpl in *. subst.
  clear H7.
  destruct abt.
  - (* aborted block *)
    destruct b as [st|pre].
    + unfold comp_body. destruct st.
      * rewrite cs_reject_rb by reflexivity. cbn. err_case c.
      * rewrite cs_reject_rb by reflexivity. cbn. err_case c.
      * rewrite cs_rollback. cbn. split; [reflexivity|].
        apply Inv_out. unfold InvA. simpl. repeat split.
      * rewrite cs_reject_rb by reflexivity. cbn. err_case c.
      * rewrite cs_reject_rb by reflexivity. cbn. err_case c.
      * pose proof (cs_rollback_to true c3 _ _ n HC3) as Hrt.
        destruct (find_stk n stk) as [[q rest]|] eqn:Ef.
        -- destruct Hrt as (c' & sp & older & Hf & Hcs & HC' & Hl' & Hcur' & Hpay & Hname).
           rewrite Hcs. cbn. rewrite Ef. cbn.
           rewrite Hl in Hf. destruct (Stk_pop n _ _ H10 _ _ Hf) as (rest' & Hpop & HS').
           unfold srv_rollback_to. cbn. rewrite Hpop. cbn.
           split; [reflexivity|]. apply Inv_in with c'. constructor; simpl; auto.
           ++ rewrite Hpay. reflexivity.
           ++ intros _. unfold cur_pay. rewrite Hcur', Hpay. reflexivity.
           ++ rewrite Hl'. exact HS'.
           ++ right. exists older. rewrite Hcur'. auto.
        -- rewrite Hrt. cbn. rewrite Ef. err_case c.
      * rewrite cs_setalias. cbn. split; [reflexivity|].
        eapply Inv_in. constructor; simpl; try reflexivity; auto;
          try (apply CI_set_cur; exact HC3); try (intros; discriminate);
          try (left; reflexivity);
          try (change (Stk sps (live c3)); rewrite Hl; exact H10).
      * rewrite cs_ddl. cbn. split; [reflexivity|].
        eapply Inv_in. constructor; simpl; try reflexivity; auto;
          try (apply CI_set_cur; exact HC3); try (intros; discriminate);
          try (left; reflexivity);
          try (change (Stk sps (live c3)); rewrite Hl; exact H10).
      * rewrite cs_query. cbn. split; [reflexivity|].
        eapply Inv_in. constructor; simpl; try reflexivity; auto;
          try (apply CI_set_cur; exact HC3); try (intros; discriminate);
          try (left; reflexivity);
          try (change (Stk sps (live c3)); rewrite Hl; exact H10).
    + cbn. err_case c.
  - (* healthy block *)
    specialize (H9 eq_refl). rewrite H9 in Hcur. rewrite <- surjective_pairing in Hcur.
    pose proof (ci_impl _ _ _ HC3) as Himpl. pose proof (ci_st0 _ _ _ HC3) as Hst0.
    destruct b as [st|pre].
    + unfold comp_body. destruct st.
      * (* START inside a block *)
        rewrite cs_start_in by exact Himpl. cbn. err_case c.
      * (* COMMIT *)
        rewrite cs_commit by exact Himpl. rewrite Hcur, Hst0. cbn.
        destruct befail; cbn; (split; [reflexivity|]); apply Inv_out; unfold InvA; simpl.
        -- repeat split.
        -- destruct (N.eqb_spec (fst now) sch) as [E|E]; simpl;
             repeat split; try (rewrite <- E); destruct now; reflexivity.
      * (* ROLLBACK *)
        rewrite cs_rollback. rewrite Hst0. cbn. split; [reflexivity|].
        apply Inv_out. unfold InvA. simpl. repeat split.
      * (* SAVEPOINT n *)
        destruct (cs_declare c3 _ _ n HC3) as (c' & sp & Hcs & HC' & Hl' & Hname & Hpay & Hid' & Hcur').
        rewrite Hcs. rewrite Hcur in *. cbn. split; [reflexivity|].
        apply Inv_in with c'. constructor; simpl; auto.
        -- intros _. rewrite Hcur'. reflexivity.
        -- rewrite Hl', Hl. rewrite <- Hpay. apply Stk_live; auto.
        -- left. symmetry. exact Hid'.
      * (* RELEASE n *)
        pose proof (cs_release c3 _ _ n HC3) as Hrl. unfold release_safe in Hok. simpl in Hok.
        destruct (find_stk n stk) as [[q rest]|] eqn:Ef.
        -- destruct Hrl as (c' & sp & older & Hf & Hcs & HC' & Hl' & Hid' & Hcur').
           rewrite Hcs. rewrite Hcur in *. cbn. rewrite Ef. cbn. split; [reflexivity|].
           destruct (find_split _ _ _ _ Ef) as (g & Es). rewrite Es in Hok.
           destruct (release_names n _ _ (ci_rel _ _ _ HC3) _ _ _ _ Hf Es Hok)
             as (pre & HL & HF & Hnames).
           apply Inv_in with c'. constructor; simpl; auto.
           ++ intros _. rewrite Hcur'. reflexivity.
           ++ rewrite Hl'. apply (Stk_drop _ _ H10 (pre ++ [sp]) older).
              ** rewrite <- Hl, HL, <- app_assoc. reflexivity.
              ** exact Hnames.
           ++ left. symmetry. exact Hid'.
        -- rewrite Hrl. cbn. rewrite Ef. err_case c.
      * (* ROLLBACK TO n *)
        pose proof (cs_rollback_to false c3 _ _ n HC3) as Hrt.
        destruct (find_stk n stk) as [[q rest]|] eqn:Ef.
        -- destruct Hrt as (c' & sp & older & Hf & Hcs & HC' & Hl' & Hcur' & Hpay & Hname).
           rewrite Hcs. cbn. rewrite Ef. cbn.
           rewrite Hl in Hf. destruct (Stk_pop n _ _ H10 _ _ Hf) as (rest' & Hpop & HS').
           unfold srv_rollback_to. cbn. rewrite Hpop. cbn.
           split; [reflexivity|]. apply Inv_in with c'. constructor; simpl; auto.
           ++ intros _. unfold cur_pay. rewrite Hcur', Hpay. reflexivity.
           ++ rewrite Hl'. exact HS'.
           ++ right. exists older. rewrite Hcur'. auto.
        -- rewrite Hrt. cbn. rewrite Ef. err_case c.
      * (* SET ALIAS *)
        rewrite cs_setalias. rewrite Hcur. cbn. split; [reflexivity|].
        eapply Inv_in. constructor; simpl; try reflexivity; auto;
          try (apply CI_set_cur; exact HC3); try (left; reflexivity);
          try (change (Stk sps (live c3)); rewrite Hl; exact H10).
      * (* DDL *)
        rewrite cs_ddl. rewrite Hcur. cbn.
        destruct befail; cbn; (split; [reflexivity|]);
        eapply Inv_in; constructor; simpl; try reflexivity; auto;
          try (apply CI_set_cur; exact HC3); try (left; reflexivity);
          try (intros; discriminate);
          try (change (Stk sps (live c3)); rewrite Hl; exact H10).
      * (* QUERY *)
        rewrite cs_query. rewrite Hcur. cbn.
        destruct befail; cbn; (split; [reflexivity|]);
        eapply Inv_in; constructor; simpl; try reflexivity; auto;
          try exact HC3; try (left; reflexivity);
          try (intros; discriminate);
          try (rewrite Hl; exact H10);
          try (intros _; rewrite Hcur; reflexivity).
    + cbn. err_case c.
Qed.

(* ------------------------------------------------------------------ *)
(* one request, any state                                              *)

Lemma req_ok_client : forall p b befail reuse cali,
  req_ok p (Req b befail reuse cali) = true ->
  req_ok (spec_client p cali) (Req b befail reuse None) = true.
Proof.
  intros p b befail reuse cali H.
  assert (E : p_abort (spec_client p cali) = p_abort p) by (destruct cali; reflexivity).
  destruct b as [[]|]; simpl in *; auto. rewrite E. exact H.
Qed.

Lemma step : forall s p r, Inv s p -> req_ok p r = true -> step_ok s p p r.
Proof.
  intros s p [b befail reuse cali] HI Hok.
  unfold step_ok. rewrite spec_step_eq.
  change (impl_step true true s p (Req b befail reuse cali))
    with (impl_step true true (client s cali) p (Req b befail reuse None)).
  assert (Hpg : p_stack p = p_stack (spec_client p cali)) by (destruct cali; reflexivity).
  apply req_ok_client in Hok.
  destruct (Inv_client s p cali HI) as [HA|c HB].
  - apply step_out; auto.
  - eapply step_in; eauto.
Qed.

Lemma run_ok : forall rs s p, Inv s p -> hist_ok p rs = true ->
  Forall (fun pr => fst pr = snd pr) (run true true s p rs).
Proof.
  induction rs as [|r rs IH]; simpl; intros s p HI Hh; [constructor|].
  apply andb_true_iff in Hh. destruct Hh as [Hr Hh].
  destruct (step s p r HI Hr) as [E HI'].
  destruct (impl_step true true s p r) as [s' ri].
  destruct (spec_step p r) as [p' rp]. simpl in *.
  constructor; auto.
Qed.

Theorem p_refines : forall sch ali seed rs,
  hist_ok (spec_init sch ali) rs = true ->
  Forall (fun pr => fst pr = snd pr)
         (run true true (srv_init sch ali seed) (spec_init sch ali) rs).
Proof. intros. apply run_ok; auto. apply Inv_init. Qed.

Lemma reply_eqb_refl : forall r, reply_eqb r r = true.
Proof. destruct r; simpl; auto; rewrite !N.eqb_refl; reflexivity. Qed.

Theorem p_agree : forall sch ali seed rs,
  hist_ok (spec_init sch ali) rs = true -> agree true true sch ali seed rs = true.
Proof.
  intros. unfold agree. apply forallb_forall. intros [a b] Hin.
  pose proof (p_refines sch ali seed rs H) as HF.
  rewrite Forall_forall in HF. specialize (HF _ Hin). simpl in *. subst.
  apply reply_eqb_refl.
Qed.

(* ------------------------------------------------------------------ *)
(* reachable states; the savepoint log is always sufficient            *)

Inductive reach (sch ali seed : N) : srv -> spec -> Prop :=
| reach_init : reach sch ali seed (srv_init sch ali seed) (spec_init sch ali)
| reach_step : forall s p r, reach sch ali seed s p -> req_ok p r = true ->
    reach sch ali seed (fst (impl_step true true s p r)) (fst (spec_step p r)).

(* the states after a lock-step run *)
Fixpoint run_end (s : srv) (p : spec) (rs : list req) : srv * spec :=
  match rs with
  | [] => (s, p)
  | r :: rs' => run_end (fst (impl_step true true s p r)) (fst (spec_step p r)) rs'
  end.

Lemma reach_run_end : forall sch ali seed rs s p, reach sch ali seed s p ->
  hist_ok p rs = true ->
  reach sch ali seed (fst (run_end s p rs)) (snd (run_end s p rs)).
Proof.
  induction rs as [|r rs IH]; simpl; intros s p HR Hh; auto.
  apply andb_true_iff in Hh. destruct Hh as [Hr Hh].
  apply IH; auto. constructor; auto.
Qed.

Lemma reach_Inv : forall sch ali seed s p, reach sch ali seed s p -> Inv s p.
Proof.
  induction 1.
  - apply Inv_init.
  - apply step; auto.
Qed.

Lemma Inv_block : forall s p, Inv s p -> s_in_tx s = p_block p.
Proof.
  intros s p [H|c H].
  - destruct H as (-> & _ & _ & -> & _). reflexivity.
  - destruct H. congruence.
Qed.

Definition log_sufficient (s : srv) : Prop :=
  s_in_tx s = true ->
  exists c c', s_state s = Some c /\ (s_wk s = None \/ s_wk s = Some c) /\
               sync_tx c (s_txid s) = inl c' /\
               (negb (N.eqb (tx_id (c_tx c)) (s_txid s)) && negb (can_sync c (s_txid s))) = false.

Lemma Inv_log_sufficient : forall s p, Inv s p -> log_sufficient s.
Proof.
  intros s p [H|c H] Hin.
  - destruct H as (E & _). congruence.
  - destruct H as [H1 H2 H3 H4 H5 H6 H7 H8 H9 H10 H11].
    destruct (sync_ok _ _ _ _ H8 H11) as (c2 & Hs & _ & _ & _ & _ & Hg).
    exists c, c2. auto.
Qed.

Theorem p_log_sufficient : forall sch ali seed s p, reach sch ali seed s p -> log_sufficient s.
Proof. intros. eapply Inv_log_sufficient. eapply reach_Inv. eauto. Qed.

Theorem p_log_sufficient_run : forall sch ali seed rs,
  hist_ok (spec_init sch ali) rs = true ->
  log_sufficient (fst (run_end (srv_init sch ali seed) (spec_init sch ali) rs)).
Proof.
  intros. eapply p_log_sufficient. apply reach_run_end; eauto. constructor.
Qed.

(* ------------------------------------------------------------------ *)
(* what the specification says (one-step facts)                        *)

Definition block_only (st : stmt) : bool :=
  match st with SCommit | SDeclare _ | SRelease _ | SRollbackTo _ => true | _ => false end.

Theorem p_reject_outside_block : forall p st befail,
  p_block p = false -> p_abort p = false -> block_only st = true ->
  spec_stmt p st befail = (p, Rejected).
Proof.
  intros [blk abt base now stk] st befail Hb Ha Hs. simpl in *. subst.
  destruct st; try discriminate; reflexivity.
Qed.

(* ... and so does the implementation in every reachable state *)
Theorem p_reject_outside_block_impl : forall sch ali seed s p st befail reuse,
  reach sch ali seed s p -> s_in_tx s = false -> block_only st = true ->
  let s' := fst (impl_step true true s p (Req (BStmt st) befail reuse None)) in
  snd (impl_step true true s p (Req (BStmt st) befail reuse None)) = Rejected /\
  s_in_tx s' = false /\ s_err s' = false /\ s_sps s' = [] /\
  s_sch s' = s_sch s /\ s_ali s' = s_ali s.
Proof.
  intros sch ali seed s p st befail reuse HR Hin Hs.
  pose proof (reach_Inv _ _ _ _ _ HR) as HI.
  assert (HA : InvA s p).
  { destruct HI as [HA|c HB]; auto. destruct HB. congruence. }
  assert (Hok : req_ok p (Req (BStmt st) befail reuse None) = true).
  { destruct HA as (_ & _ & _ & _ & Ha & Hst & _).
    destruct st; simpl; auto. rewrite Ha. unfold release_safe. simpl. rewrite Hst. reflexivity. }
  destruct (step s p _ HI Hok) as [E HI'].
  assert (Hsp : spec_step p (Req (BStmt st) befail reuse None) = (p, Rejected)).
  { simpl. apply p_reject_outside_block; auto; apply HA. }
  rewrite Hsp in *. simpl in *. split; [exact E|].
  destruct HI' as [HA'|c HB].
  - destruct HA as (_ & _ & _ & _ & _ & _ & En & _).
    destruct HA' as (E1 & E2 & E3 & _ & _ & _ & En' & _).
    rewrite En in En'. inversion En'. auto.
  - destruct HB as [H1 H2]. destruct HA as (_ & _ & _ & Hb & _). congruence.
Qed.

Theorem p_rollback_restores : forall p befail,
  spec_stmt p SRollback befail =
  ({| p_block := false; p_abort := false; p_base := p_base p; p_now := p_base p;
      p_stack := [] |}, Accepted (0, 0)).
Proof. reflexivity. Qed.

Lemma find_stk_split : forall n stk q rest, find_stk n stk = Some (q, rest) ->
  exists newer, stk = newer ++ (n, q) :: rest /\ forall e, In e newer -> fst e <> n.
Proof.
  induction stk as [|[m p] stk IH]; simpl; intros q rest H; [discriminate|].
  destruct (N.eqb_spec m n).
  - inversion H; subst. exists []. split; [reflexivity|intros e []].
  - destruct (IH _ _ H) as (newer & -> & Hn). exists ((m, p) :: newer). split; auto.
    intros e [<-|He]; auto.
Qed.

Theorem p_rollback_to_restores : forall p n befail q rest,
  p_block p = true -> find_stk n (p_stack p) = Some (q, rest) ->
  spec_stmt p (SRollbackTo n) befail =
  ({| p_block := true; p_abort := false; p_base := p_base p; p_now := q;
      p_stack := (n, q) :: rest |}, Accepted (0, 0)) /\
  exists newer, p_stack p = newer ++ (n, q) :: rest /\ forall e, In e newer -> fst e <> n.
Proof.
  intros p n befail q rest Hb Hf. split.
  - unfold spec_stmt. rewrite Hb, Hf. reflexivity.
  - apply find_stk_split; auto.
Qed.

Theorem p_rollback_to_missing : forall p n befail,
  p_block p = true -> find_stk n (p_stack p) = None ->
  spec_stmt p (SRollbackTo n) befail = (abort_if_block p, Rejected).
Proof. intros p n befail Hb Hf. unfold spec_stmt. rewrite Hb, Hf. reflexivity. Qed.

Theorem p_release_keeps : forall p n befail q rest,
  p_block p = true -> p_abort p = false -> find_stk n (p_stack p) = Some (q, rest) ->
  spec_stmt p (SRelease n) befail =
  ({| p_block := true; p_abort := false; p_base := p_base p; p_now := p_now p;
      p_stack := rest |}, Accepted (p_now p)) /\
  exists newer, p_stack p = newer ++ (n, q) :: rest /\ forall e, In e newer -> fst e <> n.
Proof.
  intros p n befail q rest Hb Ha Hf. split.
  - unfold spec_stmt. rewrite Hb, Ha, Hf. reflexivity.
  - apply find_stk_split; auto.
Qed.

Theorem p_commit_baseline : forall p,
  p_block p = true -> p_abort p = false ->
  spec_stmt p SCommit false =
  ({| p_block := false; p_abort := false; p_base := p_now p; p_now := p_now p;
      p_stack := [] |}, Accepted (p_now p)) /\
  spec_stmt p SCommit true =
  ({| p_block := false; p_abort := false; p_base := p_base p; p_now := p_base p;
      p_stack := [] |}, BackendError (p_now p)).
Proof. intros p Hb Ha. unfold spec_stmt. rewrite Hb, Ha. split; reflexivity. Qed.

(* an aborted block accepts nothing but ROLLBACK / ROLLBACK TO *)
Theorem p_aborted_rejects : forall p st befail,
  p_abort p = true -> is_rollbackish st = false ->
  spec_stmt p st befail = (abort_if_block p, Rejected).
Proof.
  intros p st befail Ha Hs. destruct st; try discriminate; unfold spec_stmt; rewrite Ha; reflexivity.
Qed.
