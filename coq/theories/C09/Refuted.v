(* C09 — witnesses (evaluated by the kernel) showing why the two fixes and the side
   condition [hist_ok] of C09_refines are needed.
     F1: without "a failed compile_in_tx makes the pool forget the worker's cached state"
         the worker's mutated LAST_STATE is reused and the implementation diverges;
     F2: without "session differences are applied after sync_tx" the echoed aliases are
         written into the wrong savepoint state and are lost by the sync;
     F3: the server never learns about RELEASE: a released savepoint that shadows a live
         one of the same name makes a later ROLLBACK TO pick the wrong server entry
         (histories excluded by [hist_ok]; known finding C09-F3). *)
From Coq Require Import List NArith Bool.
From Verif.C09 Require Import Model.
Import ListNotations.
Local Open Scope N_scope.

Definition w_F1 : list req :=
  [ Req (BStmt SStart) false false None;
    Req (BStmt (SDeclare 1)) false false None;
    Req (BBadScript [SRelease 1]) false true None;
    Req (BStmt (SRollbackTo 1)) false true None ].

Theorem C09_F1_refuted :
  exists rs, hist_ok (spec_init 1 1) rs = true /\ agree false true 1 1 100 rs = false.
Proof. exists w_F1. split; vm_compute; reflexivity. Qed.
Print Assumptions C09_F1_refuted.

(* the same history is handled correctly once the fix is in *)
Example w_F1_fixed : agree true true 1 1 100 w_F1 = true.
Proof. vm_compute. reflexivity. Qed.

Definition w_F2 : list req :=
  [ Req (BStmt SStart) false false None;
    Req (BStmt (SDeclare 1)) false false None;
    Req (BStmt (SRollbackTo 1)) false true None;
    Req (BStmt SQuery) false true (Some 11);
    Req (BStmt SQuery) false false None ].

Theorem C09_F2_refuted :
  exists rs, hist_ok (spec_init 1 1) rs = true /\ agree true false 1 1 100 rs = false.
Proof. exists w_F2. split; vm_compute; reflexivity. Qed.
Print Assumptions C09_F2_refuted.

Example w_F2_fixed : agree true true 1 1 100 w_F2 = true.
Proof. vm_compute. reflexivity. Qed.

Definition w_F3 : list req :=
  [ Req (BStmt SStart) false false None;
    Req (BStmt (SDeclare 1)) false false None;
    Req (BStmt (SDdl 5)) false false None;
    Req (BStmt (SDeclare 1)) false false None;
    Req (BStmt (SRelease 1)) false false None;
    Req (BStmt (SRollbackTo 1)) false false None;
    Req (BStmt SQuery) false false None ].

Theorem C09_F3_refuted :
  exists rs, hist_ok (spec_init 1 1) rs = false /\ agree true true 1 1 100 rs = false.
Proof. exists w_F3. split; vm_compute; reflexivity. Qed.
Print Assumptions C09_F3_refuted.
