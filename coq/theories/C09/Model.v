(* C09 — compiler session state vs. transaction / savepoint semantics.
   Executable model of
     - edb/server/compiler/dbstate.py : Transaction, CompilerConnectionState      (layer Comp)
     - edb/server/compiler/compiler.py: Compiler.compile / compile_in_tx prelude,
                                        _compile_ql_transaction                   (layer Comp)
     - edb/server/compiler_pool/{pool,worker}.py : LAST_STATE / _last_pickled_state reuse
     - edb/server/dbview/dbview.pyx + protocol/{execute,binary}.pyx : the bookkeeping that
       picks the txid / state / aliases sent with the next request                (layer Srv)
   and of the specification: PostgreSQL-style transaction semantics                (layer Spec).
   Hand-written; tied to the code by the correspondence check harness/props/c09.py. *)
From Coq Require Import List NArith Bool.
Import ListNotations.

Definition name := N.
(* payload = (user schema version, module-alias / session-settings version).  The first
   component lives only in the compiler state while a block is open; the second is also
   kept by the server and echoed with every request. *)
Definition pay := (N * N)%type.
Definition set_sch (p : pay) (v : N) : pay := (v, snd p).
Definition set_ali (p : pay) (v : N) : pay := (fst p, v).

(* ------------------------------------------------------------------ *)
(* Comp: dbstate.py                                                    *)

Record tstate := { ts_id : N; ts_name : option name; ts_pay : pay }.

Record txrec := {
  tx_serial : N;            (* identity of the Transaction object *)
  tx_id : N;                (* Transaction._id *)
  tx_implicit : bool;
  tx_cur : tstate;          (* _current *)
  tx_st0 : tstate;          (* _state0 *)
  tx_sps : list tstate      (* _savepoints.values(), insertion order (oldest first) *)
}.

Record comp := {
  c_count : N;                       (* _tx_count *)
  c_tx : txrec;                      (* _current_tx *)
  c_log : list (tstate * N)          (* _savepoints_log: entry + serial of entry.tx *)
}.

Inductive cerr := ETx | EInternal | EStale.

Definition upd_tx (c : comp) (t : txrec) : comp :=
  {| c_count := c_count c; c_tx := t; c_log := c_log c |}.

(* Transaction.__init__ through _init_current_tx: consumes one id *)
Definition init_tx (c : comp) (p : pay) : comp :=
  let i := (c_count c + 1)%N in
  let st := {| ts_id := i; ts_name := None; ts_pay := p |} in
  {| c_count := i;
     c_tx := {| tx_serial := i; tx_id := i; tx_implicit := true;
                tx_cur := st; tx_st0 := st; tx_sps := [] |};
     c_log := c_log c |}.

(* CompilerConnectionState.__init__ ; [seed] stands for time.monotonic_ns() *)
Definition new_comp (seed : N) (p : pay) : comp :=
  init_tx {| c_count := seed;
             c_tx := {| tx_serial := 0; tx_id := 0; tx_implicit := true;
                        tx_cur := {| ts_id := 0; ts_name := None; ts_pay := p |};
                        tx_st0 := {| ts_id := 0; ts_name := None; ts_pay := p |};
                        tx_sps := [] |};
             c_log := [] |} p.

Definition cur_pay (c : comp) : pay := ts_pay (tx_cur (c_tx c)).

Definition set_cur_pay (c : comp) (p : pay) : comp :=
  let t := c_tx c in
  upd_tx c {| tx_serial := tx_serial t; tx_id := tx_id t; tx_implicit := tx_implicit t;
              tx_cur := {| ts_id := ts_id (tx_cur t); ts_name := ts_name (tx_cur t); ts_pay := p |};
              tx_st0 := tx_st0 t; tx_sps := tx_sps t |}.

Definition start_tx (c : comp) : comp + cerr :=
  let t := c_tx c in
  if tx_implicit t then
    inl (upd_tx c {| tx_serial := tx_serial t; tx_id := tx_id t; tx_implicit := false;
                     tx_cur := tx_cur t; tx_st0 := tx_st0 t; tx_sps := tx_sps t |})
  else inr ETx.

Definition commit_tx (c : comp) : comp + cerr :=
  if tx_implicit (c_tx c) then inr ETx else inl (init_tx c (cur_pay c)).

Definition rollback_tx (c : comp) : comp := init_tx c (ts_pay (tx_st0 (c_tx c))).

Definition declare_sp (c : comp) (n : name) : (comp * N) + cerr :=
  let t := c_tx c in
  if tx_implicit t then inr ETx else
  let i := (c_count c + 1)%N in
  let sp := {| ts_id := i; ts_name := Some n; ts_pay := ts_pay (tx_cur t) |} in
  inl ({| c_count := i;
          c_tx := {| tx_serial := tx_serial t; tx_id := tx_id t; tx_implicit := false;
                     tx_cur := tx_cur t; tx_st0 := tx_st0 t; tx_sps := tx_sps t ++ [sp] |};
          c_log := c_log c ++ [(sp, tx_serial t)] |}, i).

Definition name_is (n : name) (sp : tstate) : bool :=
  match ts_name sp with Some m => N.eqb m n | None => false end.

(* scan reversed(_savepoints.values()) for the newest savepoint called n.
   input: newest first.  returns (sp, older ones, newest first) *)
Fixpoint find_sp (n : name) (rsps : list tstate) : option (tstate * list tstate) :=
  match rsps with
  | [] => None
  | sp :: rest => if name_is n sp then Some (sp, rest) else find_sp n rest
  end.

Definition rollback_to_sp (c : comp) (n : name) : (comp * tstate) + cerr :=
  let t := c_tx c in
  if tx_implicit t then inr ETx else
  match find_sp n (rev (tx_sps t)) with
  | None => inr ETx
  | Some (sp, older) =>
      inl (upd_tx c {| tx_serial := tx_serial t; tx_id := tx_id t; tx_implicit := false;
                       tx_cur := sp; tx_st0 := tx_st0 t;
                       tx_sps := rev (sp :: older) |}, sp)
  end.

Definition release_sp (c : comp) (n : name) : comp + cerr :=
  let t := c_tx c in
  if tx_implicit t then inr ETx else
  match find_sp n (rev (tx_sps t)) with
  | None => inr ETx
  | Some (sp, older) =>
      inl (upd_tx c {| tx_serial := tx_serial t; tx_id := tx_id t; tx_implicit := false;
                       tx_cur := tx_cur t; tx_st0 := tx_st0 t;
                       tx_sps := rev older |})
  end.

Fixpoint log_find (i : N) (l : list (tstate * N)) : option (tstate * N) :=
  match l with
  | [] => None
  | (sp, o) :: l' => if N.eqb (ts_id sp) i then Some (sp, o) else log_find i l'
  end.

Definition can_sync (c : comp) (i : N) : bool :=
  match log_find i (c_log c) with Some _ => true | None => false end.

(* sync_to_savepoint; EStale stands for "the logged entry belongs to another
   Transaction object" (the real code would resurrect that object) — proved unreachable *)
Definition sync_to_sp (c : comp) (i : N) : comp + cerr :=
  match log_find i (c_log c) with
  | None => inr EInternal
  | Some (sp, owner) =>
      let t := c_tx c in
      if negb (N.eqb owner (tx_serial t)) then inr EStale else
      inl {| c_count := c_count c;
             c_tx := {| tx_serial := tx_serial t; tx_id := i; tx_implicit := tx_implicit t;
                        tx_cur := sp; tx_st0 := tx_st0 t;
                        tx_sps := filter (fun s => N.leb (ts_id s) i) (tx_sps t) |};
             c_log := filter (fun e => N.leb (ts_id (fst e)) i) (c_log c) |}
  end.

Definition sync_tx (c : comp) (txid : N) : comp + cerr :=
  if N.eqb (tx_id (c_tx c)) txid then inl c
  else if can_sync c txid then sync_to_sp c txid
  else inr EInternal.

(* ------------------------------------------------------------------ *)
(* statements and compilation units                                    *)

Inductive stmt :=
| SStart | SCommit | SRollback
| SDeclare (n : name) | SRelease (n : name) | SRollbackTo (n : name)
| SSetAlias (v : N)      (* SET ALIAS / SET MODULE / session config: no backend statement that can fail *)
| SDdl (v : N)           (* DDL / CONFIGURE: changes the schema component; reaches the backend *)
| SQuery.                (* anything else that reaches the backend *)

Record unit_ := {
  u_stmt : stmt;
  u_txid : option N;       (* QueryUnit.tx_id *)
  u_spid : option N;       (* sp_id *)
  u_ali : option N;        (* modaliases *)
  u_sch : option N;        (* user_schema *)
  u_seen : pay             (* ghost: the payload the statement was compiled against *)
}.

Definition mk_unit s seen := {| u_stmt := s; u_txid := None; u_spid := None; u_ali := None;
                                u_sch := None; u_seen := seen |}.

Definition is_rollbackish (s : stmt) : bool :=
  match s with SRollback | SRollbackTo _ => true | _ => false end.
Definition is_tx_stmt (s : stmt) : bool :=
  match s with SSetAlias _ | SDdl _ | SQuery => false | _ => true end.

(* _compile_dispatch_ql on one statement: returns the (mutated) state and the unit or error *)
Definition comp_stmt (expect_rb : bool) (c : comp) (s : stmt) : comp * (unit_ + cerr) :=
  let seen := cur_pay c in
  if expect_rb && is_tx_stmt s && negb (is_rollbackish s) then (c, inr ETx) else
  match s with
  | SStart =>
      match start_tx c with
      | inr e => (c, inr e)
      | inl c' => (c', inl {| u_stmt := s; u_txid := Some (tx_id (c_tx c')); u_spid := None;
                              u_ali := None; u_sch := None; u_seen := seen |})
      end
  | SCommit =>
      let t := c_tx c in
      let sch := if N.eqb (fst (cur_pay c)) (fst (ts_pay (tx_st0 t))) then None
                 else Some (fst (cur_pay c)) in
      match commit_tx c with
      | inr e => (c, inr e)
      | inl c' => (c', inl {| u_stmt := s; u_txid := None; u_spid := None;
                              u_ali := Some (snd seen); u_sch := sch; u_seen := seen |})
      end
  | SRollback =>
      let c' := rollback_tx c in
      (c', inl {| u_stmt := s; u_txid := None; u_spid := None;
                  u_ali := Some (snd (ts_pay (tx_st0 (c_tx c)))); u_sch := None; u_seen := seen |})
  | SDeclare n =>
      match declare_sp c n with
      | inr e => (c, inr e)
      | inl (c', i) => (c', inl {| u_stmt := s; u_txid := None; u_spid := Some i;
                                   u_ali := None; u_sch := None; u_seen := seen |})
      end
  | SRelease n =>
      match release_sp c n with
      | inr e => (c, inr e)
      | inl c' => (c', inl (mk_unit s seen))
      end
  | SRollbackTo n =>
      match rollback_to_sp c n with
      | inr e => (c, inr e)
      | inl (c', sp) => (c', inl {| u_stmt := s; u_txid := None; u_spid := None;
                                    u_ali := Some (snd (ts_pay sp)); u_sch := None; u_seen := seen |})
      end
  | SSetAlias v =>
      (set_cur_pay c (set_ali (cur_pay c) v),
       inl {| u_stmt := s; u_txid := None; u_spid := None; u_ali := Some v; u_sch := None; u_seen := seen |})
  | SDdl v =>
      (set_cur_pay c (set_sch (cur_pay c) v),
       inl {| u_stmt := s; u_txid := None; u_spid := None; u_ali := None; u_sch := Some v; u_seen := seen |})
  | SQuery => (c, inl (mk_unit s seen))
  end.

(* statements of a script prefix, mutating the state in place; stops at the first error *)
Fixpoint comp_prefix (c : comp) (p : list stmt) : comp * bool :=
  match p with
  | [] => (c, true)
  | s :: p' => match comp_stmt false c s with
               | (c', inl _) => comp_prefix c' p'
               | (c', inr _) => (c', false)
               end
  end.

(* what a request asks the compiler to do *)
Inductive body :=
| BStmt (s : stmt)
| BBadScript (prefix : list stmt).   (* prefix compiles, then a later statement is rejected *)

Definition comp_body (expect_rb : bool) (c : comp) (b : body) : comp * (unit_ + cerr) :=
  match b with
  | BStmt s => comp_stmt expect_rb c s
  | BBadScript p =>
      if expect_rb then (c, inr ETx)      (* "a script cannot be a rollback" *)
      else (fst (comp_prefix c p), inr ETx)
  end.

Definition echo (c : comp) (ali : N) : comp :=
  if N.eqb (snd (cur_pay c)) ali then c else set_cur_pay c (set_ali (cur_pay c) ali).

(* Compiler.compile_in_tx.  [fixF2] = "session differences are applied after sync_tx"
   (false = the order found in the pinned tree: before). *)
Definition compile_in_tx (fixF2 : bool) (c : comp) (txid : N) (req_ali : N)
           (expect_rb : bool) (b : body) : comp * (unit_ + cerr) :=
  let c1 := if fixF2 then c else echo c req_ali in
  if expect_rb && negb (N.eqb (tx_id (c_tx c1)) txid) && negb (can_sync c1 txid) then
    (* _try_compile_rollback: no state involved *)
    match b with
    | BStmt SRollback =>
        (c1, inl {| u_stmt := SRollback; u_txid := None; u_spid := None; u_ali := None;
                    u_sch := None; u_seen := cur_pay c1 |})
    | BStmt (SRollbackTo n) =>
        (c1, inl {| u_stmt := SRollbackTo n; u_txid := None; u_spid := None; u_ali := None;
                    u_sch := None; u_seen := cur_pay c1 |})
    | _ => (c1, inr ETx)
    end
  else
    match sync_tx c1 txid with
    | inr e => (c1, inr e)
    | inl c2 =>
        let c3 := if fixF2 then echo c2 req_ali else c2 in
        comp_body expect_rb c3 b
    end.

(* ------------------------------------------------------------------ *)
(* Spec: PostgreSQL-style semantics (an error inside a block aborts the block) *)

Record spec := {
  p_block : bool; p_abort : bool;
  p_base : pay;                     (* committed *)
  p_now : pay;                      (* visible to the next statement *)
  p_stack : list (name * pay)       (* newest first *)
}.

Fixpoint find_stk (n : name) (st : list (name * pay)) : option (pay * list (name * pay)) :=
  match st with
  | [] => None
  | (m, p) :: rest => if N.eqb m n then Some (p, rest) else find_stk n rest
  end.

Inductive reply :=
| Accepted (seen : pay)
| Rejected
| BackendError (seen : pay).

Definition abort_if_block (s : spec) : spec :=
  {| p_block := p_block s; p_abort := p_block s; p_base := p_base s; p_now := p_now s;
     p_stack := p_stack s |}.

Definition spec_set (s : spec) (p : pay) : spec :=
  {| p_block := p_block s; p_abort := p_abort s;
     p_base := if p_block s then p_base s else p;
     p_now := p; p_stack := p_stack s |}.

Definition spec_client (s : spec) (cali : option N) : spec :=
  match cali with None => s | Some v => spec_set s (set_ali (p_now s) v) end.

(* ROLLBACK / ROLLBACK TO do not depend on the payload: nothing is "seen" *)
Definition norm_seen (st : stmt) (seen : pay) : pay :=
  match st with SRollback | SRollbackTo _ => (0%N, 0%N) | _ => seen end.

Definition spec_stmt (s : spec) (st : stmt) (befail : bool) : spec * reply :=
  let seen := norm_seen st (p_now s) in
  let rej := (abort_if_block s, Rejected) in
  match st with
  | SRollback =>
      ({| p_block := false; p_abort := false; p_base := p_base s; p_now := p_base s; p_stack := [] |},
       Accepted seen)
  | SRollbackTo n =>
      if negb (p_block s) then rej else
      match find_stk n (p_stack s) with
      | None => rej
      | Some (p, rest) =>
          ({| p_block := true; p_abort := false; p_base := p_base s; p_now := p;
              p_stack := (n, p) :: rest |}, Accepted seen)
      end
  | _ =>
    if p_abort s then rej else
    match st with
    | SStart =>
        if p_block s then rej else
        ({| p_block := true; p_abort := false; p_base := p_now s; p_now := p_now s; p_stack := [] |},
         Accepted seen)
    | SCommit =>
        if negb (p_block s) then rej else
        if befail then
          ({| p_block := false; p_abort := false; p_base := p_base s; p_now := p_base s; p_stack := [] |},
           BackendError seen)
        else
          ({| p_block := false; p_abort := false; p_base := p_now s; p_now := p_now s; p_stack := [] |},
           Accepted seen)
    | SDeclare n =>
        if negb (p_block s) then rej else
        ({| p_block := true; p_abort := false; p_base := p_base s; p_now := p_now s;
            p_stack := (n, p_now s) :: p_stack s |}, Accepted seen)
    | SRelease n =>
        if negb (p_block s) then rej else
        match find_stk n (p_stack s) with
        | None => rej
        | Some (_, rest) =>
            ({| p_block := true; p_abort := false; p_base := p_base s; p_now := p_now s;
                p_stack := rest |}, Accepted seen)
        end
    | SSetAlias v => (spec_set s (set_ali (p_now s) v), Accepted seen)
    | SDdl v =>
        if befail then (abort_if_block s, BackendError seen)
        else (spec_set s (set_sch (p_now s) v), Accepted seen)
    | SQuery =>
        if befail then (abort_if_block s, BackendError seen) else (s, Accepted seen)
    | _ => rej
    end
  end.

(* ------------------------------------------------------------------ *)
(* Srv: dbview + protocol bookkeeping, pool/worker state reuse          *)

Record srv := {
  s_in_tx : bool;
  s_txid : N;                             (* _txid (meaningful in a block) *)
  s_err : bool;                           (* _tx_error *)
  s_sps : list (name * N * N);            (* _in_tx_savepoints, newest first: name, spid, aliases *)
  s_ali : N;                              (* _modaliases (+ session config) *)
  s_tx_ali : N;                           (* _in_tx_modaliases *)
  s_sch : N;                              (* the database's committed user schema *)
  s_state : option comp;                  (* _last_comp_state (a pickle: immutable) *)
  s_wk : option comp;                     (* LAST_STATE of the worker whose
                                             _last_pickled_state is s_state, if any *)
  s_seed : N                              (* ghost: next monotonic_ns() value *)
}.

Definition srv_ali (s : srv) : N := if s_in_tx s then s_tx_ali s else s_ali s.

Definition srv_set_ali (s : srv) (v : N) : srv :=
  {| s_in_tx := s_in_tx s; s_txid := s_txid s; s_err := s_err s; s_sps := s_sps s;
     s_ali := if s_in_tx s then s_ali s else v;
     s_tx_ali := if s_in_tx s then v else s_tx_ali s;
     s_sch := s_sch s; s_state := s_state s; s_wk := s_wk s; s_seed := s_seed s |}.

Definition srv_reset (s : srv) : srv :=       (* _reset_tx_state *)
  {| s_in_tx := false; s_txid := 0; s_err := false; s_sps := [];
     s_ali := s_ali s; s_tx_ali := s_tx_ali s; s_sch := s_sch s;
     s_state := s_state s; s_wk := s_wk s; s_seed := s_seed s |}.

Definition srv_set_err (s : srv) : srv :=     (* tx_error(): only inside a block *)
  {| s_in_tx := s_in_tx s; s_txid := s_txid s; s_err := s_in_tx s; s_sps := s_sps s;
     s_ali := s_ali s; s_tx_ali := s_tx_ali s; s_sch := s_sch s;
     s_state := s_state s; s_wk := s_wk s; s_seed := s_seed s |}.

Fixpoint pop_to (n : name) (l : list (name * N * N)) : option (list (name * N * N)) :=
  match l with
  | [] => None
  | (m, i, a) :: rest => if N.eqb m n then Some l else pop_to n rest
  end.

(* rollback_tx_to_savepoint; None = RuntimeError('savepoint not found') *)
Definition srv_rollback_to (s : srv) (n : name) : option srv :=
  match pop_to n (s_sps s) with
  | Some ((m, i, a) :: rest) =>
      Some {| s_in_tx := s_in_tx s; s_txid := i; s_err := false; s_sps := (m, i, a) :: rest;
              s_ali := if s_in_tx s then s_ali s else a;
              s_tx_ali := if s_in_tx s then a else s_tx_ali s;
              s_sch := s_sch s; s_state := s_state s; s_wk := s_wk s; s_seed := s_seed s |}
  | _ => None
  end.

Definition with_states (s : srv) (st wk : option comp) (seed : N) : srv :=
  {| s_in_tx := s_in_tx s; s_txid := s_txid s; s_err := s_err s; s_sps := s_sps s;
     s_ali := s_ali s; s_tx_ali := s_tx_ali s; s_sch := s_sch s;
     s_state := st; s_wk := wk; s_seed := seed |}.

Inductive req :=
| Req (b : body) (befail reuse : bool) (cali : option N).

(* does the backend accept the SQL of this unit, given PostgreSQL's real state [pg]?
   savepoint statements fail iff the savepoint does not exist there; DDL / queries /
   COMMIT fail when the history says so *)
Definition backend_ok (pg : spec) (s : stmt) (befail : bool) : bool :=
  match s with
  | SRelease n | SRollbackTo n =>
      match find_stk n (p_stack pg) with Some _ => true | None => false end
  | SDdl _ | SQuery | SCommit => negb befail
  | _ => true
  end.

(* one client request against the implementation.  [pg] = the backend's real state.
   [fixF1] = "a failed compile_in_tx makes the pool forget the worker's cached state" *)
Definition impl_step (fixF1 fixF2 : bool) (s0 : srv) (pg : spec) (r : req) : srv * reply :=
  match r with Req b befail reuse cali =>
  (* 1. client-supplied session state *)
  let s := match cali with None => s0 | Some v => srv_set_ali s0 v end in
  (* 2. compile *)
  let '(s1, res) :=
    if s_in_tx s then
      match s_state s with
      | None => (s, inr EInternal)
      | Some pickled =>
          let reused := match s_wk s with Some _ => reuse | None => false end in
          let cst := match s_wk s with Some w => if reuse then w else pickled | None => pickled end in
          let '(c', res) := compile_in_tx fixF2 cst (s_txid s) (srv_ali s) (s_err s) b in
          match res with
          | inl u => (with_states s (Some c') (Some c') (s_seed s), res)
          | inr _ =>
              (with_states s (s_state s)
                 (if reused then (if fixF1 then None else Some c') else s_wk s) (s_seed s), res)
          end
      end
    else
      let c0 := new_comp (s_seed s) (s_sch s, s_ali s) in
      let '(c', res) := comp_body false c0 b in
      let seed' := (s_seed s + 1000)%N in
      match res with
      | inl u =>
          match u_txid u with
          | Some _ => (with_states s (Some c') (Some c') seed', res)
          | None => (with_states s (s_state s) (s_wk s) seed', res)
          end
      | inr _ => (with_states s (s_state s) (s_wk s) seed', res)
      end in
  match res with
  | inr _ => (srv_set_err s1, Rejected)
  | inl u =>
    let st := u_stmt u in
    if s_err s1 then
      (* _check_in_tx_error + the recovery path of binary.pyx *)
      if negb (is_rollbackish st) then (s1, Rejected)
      else if negb (backend_ok pg st befail) then (s1, Rejected)
      else match st with
           | SRollbackTo n =>
               match srv_rollback_to s1 n with
               | Some s2 => (s2, Accepted (norm_seen st (u_seen u)))
               | None => (s1, Rejected)
               end
           | _ => (srv_reset s1, Accepted (norm_seen st (u_seen u)))
           end
    else
      (* dbv.start(unit) *)
      let s2 := match u_txid u with
                | Some i =>
                    {| s_in_tx := true; s_txid := i; s_err := false; s_sps := s_sps s1;
                       s_ali := s_ali s1; s_tx_ali := s_ali s1; s_sch := s_sch s1;
                       s_state := s_state s1; s_wk := s_wk s1; s_seed := s_seed s1 |}
                | None => s1
                end in
      if negb (backend_ok pg st befail) then
        (* on_error; a failed COMMIT leaves the block *)
        match st with
        | SCommit => (srv_reset s2, BackendError (norm_seen st (u_seen u)))
        | SRelease _ | SRollbackTo _ => (srv_set_err s2, Rejected)
        | _ => (srv_set_err s2, BackendError (norm_seen st (u_seen u)))
        end
      else
        (* success path of execute.pyx, then on_success *)
        let s3 := match st with
                  | SRollbackTo n => match srv_rollback_to s2 n with Some x => x | None => srv_set_err s2 end
                  | SDeclare n =>
                      match u_spid u with
                      | Some i =>
                          {| s_in_tx := s_in_tx s2; s_txid := s_txid s2; s_err := s_err s2;
                             s_sps := (n, i, srv_ali s2) :: s_sps s2;
                             s_ali := s_ali s2; s_tx_ali := s_tx_ali s2; s_sch := s_sch s2;
                             s_state := s_state s2; s_wk := s_wk s2; s_seed := s_seed s2 |}
                      | None => s2
                      end
                  | _ => s2
                  end in
        let s4 := match u_ali u with Some v => srv_set_ali s3 v | None => s3 end in
        let s5 :=
          match st with
          | SCommit =>
              srv_reset {| s_in_tx := s_in_tx s4; s_txid := s_txid s4; s_err := s_err s4;
                           s_sps := s_sps s4; s_ali := s_tx_ali s4; s_tx_ali := s_tx_ali s4;
                           s_sch := match u_sch u with Some v => v | None => s_sch s4 end;
                           s_state := s_state s4; s_wk := s_wk s4; s_seed := s_seed s4 |}
          | SRollback => srv_reset s4
          | SDdl v =>
              if s_in_tx s4 then s4 else
              {| s_in_tx := false; s_txid := s_txid s4; s_err := s_err s4; s_sps := s_sps s4;
                 s_ali := s_ali s4; s_tx_ali := s_tx_ali s4; s_sch := v;
                 s_state := s_state s4; s_wk := s_wk s4; s_seed := s_seed s4 |}
          | _ => s4
          end in
        (s5, Accepted (norm_seen st (u_seen u)))
  end
  end.

(* the specification's view of one request *)
Definition spec_step (s : spec) (r : req) : spec * reply :=
  match r with Req b befail reuse cali =>
    let s1 := spec_client s cali in
    match b with
    | BStmt st => spec_stmt s1 st befail
    | BBadScript _ => (abort_if_block s1, Rejected)
    end
  end.

Definition srv_init (sch ali seed : N) : srv :=
  {| s_in_tx := false; s_txid := 0; s_err := false; s_sps := [];
     s_ali := ali; s_tx_ali := ali; s_sch := sch; s_state := None; s_wk := None; s_seed := seed |}.
Definition spec_init (sch ali : N) : spec :=
  {| p_block := false; p_abort := false; p_base := (sch, ali); p_now := (sch, ali); p_stack := [] |}.

(* lock-step run: replies of implementation and specification *)
Fixpoint run (fixF1 fixF2 : bool) (s : srv) (p : spec) (rs : list req) : list (reply * reply) :=
  match rs with
  | [] => []
  | r :: rs' =>
      let '(s', ri) := impl_step fixF1 fixF2 s p r in
      let '(p', rp) := spec_step p r in
      (ri, rp) :: run fixF1 fixF2 s' p' rs'
  end.

Definition reply_eqb (a b : reply) : bool :=
  match a, b with
  | Accepted x, Accepted y | BackendError x, BackendError y =>
      N.eqb (fst x) (fst y) && N.eqb (snd x) (snd y)
  | Rejected, Rejected => true
  | _, _ => false
  end.

Definition agree (fixF1 fixF2 : bool) (sch ali seed : N) (rs : list req) : bool :=
  forallb (fun pr => reply_eqb (fst pr) (snd pr))
          (run fixF1 fixF2 (srv_init sch ali seed) (spec_init sch ali) rs).

(* ------------------------------------------------------------------ *)
(* histories for which the refinement theorem is stated                *)

(* split the stack at the newest savepoint called n: (released group incl. n, rest) *)
Fixpoint split_stk (n : name) (st : list (name * pay))
  : option (list (name * pay) * list (name * pay)) :=
  match st with
  | [] => None
  | (m, p) :: rest =>
      if N.eqb m n then Some ([(m, p)], rest)
      else match split_stk n rest with
           | Some (g, r) => Some ((m, p) :: g, r)
           | None => None
           end
  end.

(* RELEASE n is "safe" when no savepoint of the released group shares its name with a
   savepoint that stays alive below the group.  (The server never learns about RELEASE;
   a released savepoint that shadows a live one is the known finding C09-F3.) *)
Definition release_safe (p : spec) (n : name) : bool :=
  match split_stk n (p_stack p) with
  | None => true
  | Some (g, rest) =>
      forallb (fun e => negb (existsb (N.eqb (fst e)) (map fst rest))) g
  end.

Definition req_ok (p : spec) (r : req) : bool :=
  match r with
  | Req (BStmt (SRelease n)) _ _ cali =>
      if p_abort p then true else release_safe (spec_client p cali) n
  | _ => true
  end.

Fixpoint hist_ok (p : spec) (rs : list req) : bool :=
  match rs with
  | [] => true
  | r :: rs' => req_ok p r && hist_ok (fst (spec_step p r)) rs'
  end.
